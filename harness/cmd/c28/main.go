// C28 - spending requires a valid signature from the owner.
package main

import (
	"bytes"
	"crypto/ed25519"
	"encoding/json"
	"errors"
	"fmt"
	"os"
	"os/exec"
	"strings"

	"github.com/blinklabs-io/gouroboros/ledger/common"
	"github.com/blinklabs-io/gouroboros/ledger/shelley"

	"verifharness/vh"
)

const header = `From Coq Require Import String.
From V Require Import Lib.Base Lib.Hex C28.Model C28.Gen C28.Corr.
Open Scope string_scope.`

// ---- independent view of a transaction (vh.ParseItem, not the repository's decoder)

type absTx struct {
	body       []byte
	txid       []byte
	inputs     []inRef
	collateral []inRef
	req        [][]byte
	wdrls      [][]byte
	vkeys      []vkwT
	boots      []bwT
}

func unSet(i *vh.Item) *vh.Item {
	if i.K == vh.KTag && i.N == 258 {
		return i.Xs[0]
	}
	return i
}

func bstr(i *vh.Item) []byte {
	switch i.K {
	case vh.KBStr:
		return i.Bs
	case vh.KBStrI:
		var b []byte
		for _, c := range i.Chunks {
			b = append(b, c.Bs...)
		}
		return b
	}
	panic("harness: expected a byte string")
}

func parseIns(i *vh.Item) []inRef {
	var out []inRef
	for _, x := range unSet(i).Xs {
		out = append(out, inRef{bstr(x.Xs[0]), uint32(x.Xs[1].N)})
	}
	return out
}

func parseAbs(e *eraT, raw []byte) *absTx {
	top, n, err := vh.ParseItem(raw)
	must(err)
	if n != len(raw) || top.K != vh.KArr {
		panic("harness: bad tx envelope")
	}
	a := &absTx{}
	body, wits := top.Xs[0], top.Xs[1]
	a.body = body.Enc()
	a.txid = h256(a.body)
	for k := 0; k+1 < len(body.Xs); k += 2 {
		v := body.Xs[k+1]
		switch body.Xs[k].N {
		case 0:
			a.inputs = parseIns(v)
		case 5:
			for j := 0; j+1 < len(v.Xs); j += 2 {
				a.wdrls = append(a.wdrls, bstr(v.Xs[j]))
			}
		case 13:
			if e.Alonzo {
				a.collateral = parseIns(v)
			}
		case 14:
			if e.ReqKey14 {
				for _, x := range unSet(v).Xs {
					a.req = append(a.req, bstr(x))
				}
			}
		}
	}
	for k := 0; k+1 < len(wits.Xs); k += 2 {
		v := unSet(wits.Xs[k+1])
		switch wits.Xs[k].N {
		case 0:
			for _, x := range v.Xs {
				a.vkeys = append(a.vkeys, vkwT{bstr(x.Xs[0]), bstr(x.Xs[1])})
			}
		case 2:
			for _, x := range v.Xs {
				a.boots = append(a.boots, bwT{bstr(x.Xs[0]), bstr(x.Xs[1]), bstr(x.Xs[2]), bstr(x.Xs[3])})
			}
		}
	}
	return a
}

// addrClass classifies address bytes from CIP-19 / the Byron address format,
// independently of the repository's address decoder.
// kind: "key", "script", "byron", "nopay"
func addrClass(addr []byte) (kind string, h []byte) {
	switch addr[0] >> 4 {
	case 0, 2, 4, 6:
		return "key", addr[1:29]
	case 1, 3, 5, 7:
		return "script", addr[1:29]
	case 8:
		it, _, err := vh.ParseItem(addr)
		must(err)
		p, _, err := vh.ParseItem(bstr(it.Xs[0].Xs[0]))
		must(err)
		return "byron", bstr(p.Xs[0])
	case 14, 15:
		return "nopay", nil
	}
	panic("harness: unknown address header")
}

// ---- mock ledger state ---------------------------------------------------------------

type mockLS struct {
	common.LedgerState // nil: any other query panics (= harness error)
	ents               map[string]utxoEnt
	queries            int
}

func utxoKey(id []byte, idx uint32) string { return fmt.Sprintf("%x#%d", id, idx) }

func (m *mockLS) UtxoById(in common.TransactionInput) (common.Utxo, error) {
	m.queries++
	id := in.Id()
	e, ok := m.ents[utxoKey(id[:], in.Index())]
	if !ok || e.Kind == "unresolved" {
		return common.Utxo{}, errors.New("utxo not found")
	}
	if e.Kind == "niloutput" {
		return common.Utxo{Id: in}, nil
	}
	addr, err := common.NewAddressFromBytes(vh.UnHex(e.Addr))
	if err != nil {
		panic("harness: mock address does not decode: " + err.Error())
	}
	return common.Utxo{Id: in, Output: &shelley.ShelleyTransactionOutput{OutputAddress: addr, OutputAmount: 5000000}}, nil
}

// ---- classification of the implementation's answer -------------------------------------------

// classify maps the error of VerifyTransaction to (rule index, class).  The
// classes are the distinct failure sites; they are told apart by the error
// type and, for the untyped ValidationError sites, by the message constant.
func classify(err error) (idx int, class string) {
	if err == nil {
		return 0, ""
	}
	var ve *common.ValidationError
	if !errors.As(err, &ve) || ve.Message != "transaction validation failed" {
		return -1, "EUnknown"
	}
	idx = -1
	if v, ok := ve.Details["rule_index"].(int); ok {
		idx = v
	}
	inner := ve.Cause
	switch inner.(type) {
	case common.MissingVKeyWitnessesError:
		return idx, "EReqNoWits"
	case common.MissingRequiredVKeyWitnessForSignerError:
		return idx, "EReqSigner"
	}
	var iv *common.ValidationError
	if !errors.As(inner, &iv) {
		return idx, "EUnknown"
	}
	switch iv.Message {
	case "invalid vkey signature":
		c := ""
		if iv.Cause != nil {
			c = iv.Cause.Error()
		}
		switch {
		case strings.HasPrefix(c, "invalid public key size"):
			return idx, "EVKeyPkSize"
		case strings.HasPrefix(c, "invalid signature size"):
			return idx, "EVKeySigSize"
		case c == "signature verification failed":
			return idx, "EVKeyVerify"
		}
	case "invalid bootstrap public key size":
		return idx, "EBootPkSize"
	case "invalid bootstrap signature size":
		return idx, "EBootSigSize"
	case "invalid bootstrap signature":
		return idx, "EBootVerify"
	case "missing bootstrap witness for Byron input":
		return idx, "EMissingBoot"
	case "missing vkey witness for input":
		return idx, "EMissingVKeyInput"
	case "missing vkey witnesses for collateral":
		return idx, "ECollNoWits"
	case "UTxO not found for collateral input":
		return idx, "ECollUnresolved"
	case "collateral input must be key-locked":
		return idx, "ECollNotKey"
	case "missing vkey witness for collateral input":
		return idx, "ECollMissing"
	}
	return idx, "EUnknown"
}

// interner: every distinct byte string of a case is written once
// (`let bK := hx "..." in`); Coq's cost is dominated by the literals.
type interner struct {
	names map[string]string
	lets  strings.Builder
}

var cur *interner

func ib(b []byte) string {
	k := string(b)
	if n, ok := cur.names[k]; ok {
		return n
	}
	n := fmt.Sprintf("b%d", len(cur.names))
	cur.names[k] = n
	fmt.Fprintf(&cur.lets, "let %s := hx \"%x\" in ", n, b)
	return n
}

var decoded, decodeRejected = map[string]int{}, map[string]int{}

// ---- one case ------------------------------------------------------------------------------------

type resolvedT struct {
	kind string // key script byron nopay unresolved niloutput
	h    []byte
}

func (r resolvedT) coq() string {
	switch r.kind {
	case "unresolved":
		return "RUnresolved"
	case "niloutput":
		return "RNilOutput"
	case "key":
		return "(ROut (AKey " + ib(r.h) + "))"
	case "byron":
		return "(ROut (AByron " + ib(r.h) + "))"
	case "script":
		return "(ROut (AScript " + ib(r.h) + "))"
	}
	return "(ROut ANoPay)"
}

func resolve(ents map[string]utxoEnt, i inRef) resolvedT {
	e, ok := ents[utxoKey(i.TxId, i.Idx)]
	if !ok || e.Kind == "unresolved" {
		return resolvedT{kind: "unresolved"}
	}
	if e.Kind == "niloutput" {
		return resolvedT{kind: "niloutput"}
	}
	k, h := addrClass(vh.UnHex(e.Addr))
	return resolvedT{k, h}
}

func sameRefs(a []inRef, b []common.TransactionInput) bool {
	if len(a) != len(b) {
		return false
	}
	for i := range a {
		id := b[i].Id()
		if !bytes.Equal(a[i].TxId, id[:]) || a[i].Idx != b[i].Index() {
			return false
		}
	}
	return true
}

// implVerdict runs the real rules on one case and returns "accept", the error
// class, "EPanic" or "decode-rejected"; no monitor, no Coq case.
func implVerdict(tc txCase) string {
	e := eraByName(tc.Era)
	if e == nil {
		return "unknown-era"
	}
	var tx common.Transaction
	var derr error
	if p, _ := vh.Recover(func() { tx, derr = e.Decode(vh.UnHex(tc.Tx)) }); p || derr != nil || tx == nil {
		return "decode-rejected"
	}
	ents := map[string]utxoEnt{}
	for _, u := range tc.Utxo {
		ents[utxoKey(vh.UnHex(u.TxId), u.Idx)] = u
	}
	rules, _ := e.witnessRules()
	var verr error
	if p, _ := vh.Recover(func() { verr = common.VerifyTransaction(tx, 100, &mockLS{ents: ents}, nil, rules) }); p {
		return "EPanic"
	}
	if verr == nil {
		return "accept"
	}
	_, cl := classify(verr)
	return cl
}

// freshVerdicts evaluates every case ALONE (without its history) in a fresh
// process of this same binary, i.e. with no validation history at all.
func freshVerdicts(tcs []txCase) ([]string, error) {
	bare := make([]txCase, len(tcs))
	for i, t := range tcs {
		t.History = nil
		bare[i] = t
	}
	in, _ := json.Marshal(bare)
	exe, err := os.Executable()
	if err != nil {
		return nil, err
	}
	cmd := exec.Command(exe, "verdicts")
	cmd.Stdin = bytes.NewReader(in)
	out, err := cmd.Output()
	if err != nil {
		return nil, err
	}
	var vs []string
	if err := json.Unmarshal(out, &vs); err != nil || len(vs) != len(tcs) {
		return nil, fmt.Errorf("verdicts subprocess: bad output (%v)", err)
	}
	return vs, nil
}

// verdictsMain: `c28 verdicts` - JSON list of cases on stdin, verdicts on
// stdout.  Each case has its own fresh keys, so the cases of one batch do not
// share any witness material.
func verdictsMain() {
	var tcs []txCase
	must(json.NewDecoder(os.Stdin).Decode(&tcs))
	vs := make([]string, len(tcs))
	for i, t := range tcs {
		vs[i] = implVerdict(t)
	}
	must(json.NewEncoder(os.Stdout).Encode(vs))
}

type histObs struct {
	tc      txCase
	verdict string
}

var histCases []histObs

// checkHistories compares, for every case that was validated after a history,
// the verdict obtained then with the verdict of the same transaction alone in
// a fresh process.
func checkHistories(c *vh.Ctx) {
	if len(histCases) == 0 {
		return
	}
	tcs := make([]txCase, len(histCases))
	for i, h := range histCases {
		tcs[i] = h.tc
	}
	fresh, err := freshVerdicts(tcs)
	if err != nil {
		c.Res.Violate("correspondence", "fresh-process-verdicts-failed", err.Error(), nil)
		return
	}
	for i, h := range histCases {
		if fresh[i] == h.verdict {
			continue
		}
		dir := "verdict"
		if h.verdict == "accept" {
			dir = "accept"
		} else if fresh[i] == "accept" {
			dir = "reject"
		}
		c.Res.Violate("monitor", h.tc.Era+"-bootstrap-"+dir+"-depends-on-history",
			fmt.Sprintf("%s: after validating %d earlier transaction(s) in the same process the rules answer %s; the same transaction alone in a fresh process gets %s [%s]",
				h.tc.Era, len(h.tc.History), h.verdict, fresh[i], h.tc.Label), h.tc)
	}
	c.Res.Notes = append(c.Res.Notes, fmt.Sprintf("%d cases validated after a history, each compared with a fresh-process verdict", len(histCases)))
}

func runCase(c *vh.Ctx, cf *vh.CaseFile, tc txCase) {
	if len(tc.History) > 0 {
		// validate the history first, in this process; its own verdicts are
		// checked where those transactions are run as cases of their own
		for _, h := range tc.History {
			implVerdict(h)
		}
		v := runCase1(c, cf, tc)
		histCases = append(histCases, histObs{tc, v})
		return
	}
	runCase1(c, cf, tc)
}

func runCase1(c *vh.Ctx, cf *vh.CaseFile, tc txCase) (verdict string) {
	e := eraByName(tc.Era)
	if e == nil {
		panic("harness: unknown era " + tc.Era)
	}
	raw := vh.UnHex(tc.Tx)
	c.Begin(tc)
	a := parseAbs(e, raw)
	ents := map[string]utxoEnt{}
	for _, u := range tc.Utxo {
		ents[utxoKey(vh.UnHex(u.TxId), u.Idx)] = u
	}

	// ---- the implementation
	var tx common.Transaction
	var derr error
	if p, pv := vh.Recover(func() { tx, derr = e.Decode(raw) }); p {
		c.Res.Violate("monitor", e.Name+"-decode-panic", fmt.Sprintf("decoder panicked: %v", pv), tc)
		return "decode-panic"
	}
	if derr != nil {
		// e.g. Conway+ reject duplicate members of tagged sets; not this property's business
		c.Res.Count(tc.Tx, false, e.Name+"/decode-rejected")
		decodeRejected[e.Name]++
		if strings.HasPrefix(tc.Label, "corpus") && !strings.Contains(tc.Label, "dup") {
			c.Res.Violate("correspondence", "harness-tx-not-decodable", fmt.Sprintf("%s: %s: %v", e.Name, tc.Label, derr), tc)
		}
		return "decode-rejected"
	}
	decoded[e.Name]++
	rules, _ := e.witnessRules()
	ls := &mockLS{ents: ents}
	var verr error
	panicked, _ := vh.Recover(func() { verr = common.VerifyTransaction(tx, 100, ls, nil, rules) })
	idx, class := classify(verr)
	accepted := !panicked && verr == nil
	if panicked {
		idx, class = 0, "EPanic"
	}

	// ---- the independent view
	ins := make([]resolvedT, len(a.inputs))
	for i, x := range a.inputs {
		ins[i] = resolve(ents, x)
	}
	coll := make([]resolvedT, len(a.collateral))
	for i, x := range a.collateral {
		coll[i] = resolve(ents, x)
	}
	var wdrlKeys [][]byte
	for _, w := range a.wdrls {
		if w[0]>>4 == 14 {
			wdrlKeys = append(wdrlKeys, w[1:29])
		}
	}

	// ---- monitor: the property, evaluated on the independent view
	signedByVKey := func(h []byte) bool {
		for _, w := range a.vkeys {
			if bytes.Equal(h224(w.Pk), h) && len(w.Pk) == 32 && len(w.Sig) == 64 && ed25519.Verify(w.Pk, a.txid, w.Sig) {
				return true
			}
		}
		return false
	}
	signedByBoot := func(root []byte) bool {
		for _, b := range a.boots {
			if len(b.Pk) == 32 && len(b.Sig) == 64 && bytes.Equal(byronRootSpec(b.Pk, b.CC, b.Attrs), root) && ed25519.Verify(b.Pk, a.txid, b.Sig) {
				return true
			}
		}
		return false
	}
	ownerSigned := func(r resolvedT) bool {
		switch r.kind {
		case "key":
			return signedByVKey(r.h)
		case "byron":
			return signedByBoot(r.h) || signedByVKey(r.h)
		}
		return true
	}
	nontrivial := len(a.vkeys)+len(a.boots) > 0 && len(a.inputs) > 0
	if accepted {
		hx := tx.Hash()
		if !bytes.Equal(hx[:], a.txid) {
			c.Res.Violate("monitor", e.Name+"-txid-not-hash-of-body-bytes", fmt.Sprintf("tx.Hash()=%x but Blake2b-256 of the body bytes on the wire is %x", hx[:], a.txid), tc)
		}
		for i, r := range ins {
			if !ownerSigned(r) {
				c.Res.Violate("monitor", e.Name+"-accepted-"+r.kind+"-input-without-owner-signature",
					fmt.Sprintf("%s: accepted although %s-locked input #%d (owner %x) has no witness that derives the owner and signs tx id %x [%s]", e.Name, r.kind, i, r.h, a.txid, tc.Label), tc)
			}
		}
		for i, r := range coll {
			switch r.kind {
			case "key", "byron":
				if !ownerSigned(r) {
					c.Res.Violate("monitor", e.Name+"-accepted-collateral-without-owner-signature",
						fmt.Sprintf("%s: accepted although collateral input #%d (owner %x) has no valid owner witness [%s]", e.Name, i, r.h, tc.Label), tc)
				}
			default:
				c.Res.Violate("monitor", e.Name+"-accepted-collateral-not-key-owned-"+r.kind,
					fmt.Sprintf("%s: accepted although collateral input #%d is %s, not owned by a witnessed key [%s]", e.Name, i, r.kind, tc.Label), tc)
			}
		}
		for i, w := range a.vkeys {
			if len(w.Pk) != 32 || len(w.Sig) != 64 || !ed25519.Verify(w.Pk, a.txid, w.Sig) {
				c.Res.Violate("monitor", e.Name+"-accepted-invalid-vkey-witness",
					fmt.Sprintf("%s: accepted although vkey witness #%d does not verify against tx id %x [%s]", e.Name, i, a.txid, tc.Label), tc)
			}
		}
		for i, b := range a.boots {
			if len(b.Pk) != 32 || len(b.Sig) != 64 || !ed25519.Verify(b.Pk, a.txid, b.Sig) {
				c.Res.Violate("monitor", e.Name+"-accepted-invalid-bootstrap-witness",
					fmt.Sprintf("%s: accepted although bootstrap witness #%d does not verify against tx id %x [%s]", e.Name, i, a.txid, tc.Label), tc)
			}
		}
		for i, r := range a.req {
			if !signedByVKey(r) {
				c.Res.Violate("monitor", e.Name+"-accepted-required-signer-without-witness",
					fmt.Sprintf("%s: accepted although required signer #%d (%x) has no valid vkey witness [%s]", e.Name, i, r, tc.Label), tc)
			}
		}
	}

	// ---- the repository's address decoder must classify the resolved outputs
	// like CIP-19 / the Byron format do (the model takes the classification as input)
	for _, u := range tc.Utxo {
		if u.Kind != "addr" {
			continue
		}
		wantK, wantH := addrClass(vh.UnHex(u.Addr))
		gotK, gotH := "undecodable", []byte(nil)
		if ad, err := common.NewAddressFromBytes(vh.UnHex(u.Addr)); err == nil {
			switch pl := ad.PayloadPayload().(type) {
			case common.AddressPayloadKeyHash:
				gotK, gotH = "key", pl.Hash[:]
				if ad.Type() == common.AddressTypeByron {
					gotK = "byron"
				}
			case common.AddressPayloadScriptHash:
				gotK, gotH = "script", pl.Hash[:]
			case nil:
				gotK = "nopay"
			default:
				gotK = fmt.Sprintf("%T", pl)
			}
		}
		if gotK != wantK || !bytes.Equal(gotH, wantH) {
			c.Res.Violate("monitor", "address-"+wantK+"-classified-as-"+gotK,
				fmt.Sprintf("address %s is %s-locked (credential %x) but the address decoder reports %s (%x)", u.Addr, wantK, wantH, gotK, gotH), tc)
		}
	}

	// ---- the decoder must surface what is on the wire (else the rules look at a different tx)
	if !sameRefs(a.inputs, tx.Inputs()) {
		c.Res.Violate("monitor", e.Name+"-decoded-inputs-differ", "tx.Inputs() differs from the inputs on the wire", tc)
	}
	if !sameRefs(a.collateral, tx.Collateral()) {
		c.Res.Violate("monitor", e.Name+"-decoded-collateral-differs", "tx.Collateral() differs from the collateral on the wire", tc)
	}
	if len(a.req) != len(tx.RequiredSigners()) {
		c.Res.Violate("monitor", e.Name+"-decoded-required-signers-differ", "tx.RequiredSigners() differs from the wire", tc)
	}
	if ws := tx.Witnesses(); ws == nil || len(ws.Vkey()) != len(a.vkeys) || len(ws.Bootstrap()) != len(a.boots) {
		c.Res.Violate("monitor", e.Name+"-decoded-witnesses-differ", "tx.Witnesses() differs from the witness set on the wire", tc)
	}

	cls := class
	if accepted {
		cls = "accept"
	}
	c.Res.Count(tc.Tx, nontrivial, e.Name+"/"+cls)
	if nontrivial {
		c.Res.Sample(map[string]any{"era": e.Name, "label": tc.Label, "inputs": len(ins), "collateral": len(coll), "vkeys": len(a.vkeys), "bootstrap": len(a.boots), "result": cls})
	}
	if class == "EUnknown" {
		c.Res.Violate("correspondence", "unclassified-error", fmt.Sprintf("%s: the witness rules returned an error this harness cannot classify: %v", e.Name, verr), tc)
		return cls
	}

	// ---- the Coq case: abstract tx + oracle tables + observed answer
	cur = &interner{names: map[string]string{}}
	var h224tbl, sha3tbl, vertbl []string
	seenH := map[string]bool{}
	addH := func(tbl *[]string, in, out []byte) {
		k := fmt.Sprintf("%p%x", tbl, in)
		if seenH[k] {
			return
		}
		seenH[k] = true
		*tbl = append(*tbl, vh.Pair(ib(in), ib(out)))
	}
	addV := func(pk, sig []byte) {
		if len(pk) == 32 && len(sig) == 64 && ed25519.Verify(pk, a.txid, sig) {
			vertbl = append(vertbl, "("+ib(pk)+", "+ib(a.txid)+", "+ib(sig)+")")
		}
	}
	var vks, bws []string
	for _, w := range a.vkeys {
		addH(&h224tbl, w.Pk, h224(w.Pk))
		addV(w.Pk, w.Sig)
		vks = append(vks, "(mk_vkw "+ib(w.Pk)+" "+ib(w.Sig)+")")
	}
	for _, b := range a.boots {
		addV(b.Pk, b.Sig)
		if len(b.Pk) == 32 && len(b.CC) == 32 {
			// preimage by the harness' own CBOR encoding of [0, [0, xpub], attrs];
			// written as prefix ++ parts so that the parts' literals are shared
			pre := byronRootPreimage(b.Pk, b.CC, b.Attrs)
			s := sha3256(pre)
			k := fmt.Sprintf("%x", pre)
			if !seenH["sha3"+k] {
				seenH["sha3"+k] = true
				prefix := pre[:len(pre)-len(b.Pk)-len(b.CC)-len(b.Attrs)]
				sha3tbl = append(sha3tbl, vh.Pair("("+ib(prefix)+" ++ "+ib(b.Pk)+" ++ "+ib(b.CC)+" ++ "+ib(b.Attrs)+")%list", ib(s)))
			}
			addH(&h224tbl, s, h224(s))
		}
		bws = append(bws, "(mk_bw "+ib(b.Pk)+" "+ib(b.Sig)+" "+ib(b.CC)+" "+ib(b.Attrs)+")")
	}
	rl := func(rs []resolvedT) string {
		xs := make([]string, len(rs))
		for i, r := range rs {
			xs[i] = r.coq()
		}
		return vh.List(xs)
	}
	bl := func(bs [][]byte) string {
		xs := make([]string, len(bs))
		for i, b := range bs {
			xs[i] = ib(b)
		}
		return vh.List(xs)
	}
	obs := "None"
	if !accepted {
		obs = fmt.Sprintf("(Some (%s, %s))", vh.N(uint64(idx)), class)
	}
	term := fmt.Sprintf("mk_case %s (mk_tx %s %s %s %s %s %s %s) %s %s %s %s",
		vh.Str(e.Name), ib(a.txid), rl(ins), rl(coll), bl(a.req), bl(wdrlKeys), vh.List(vks), vh.List(bws),
		vh.List(h224tbl), vh.List(sha3tbl), vh.List(vertbl), obs)
	cf.Add(cur.lets.String()+term, tc)
	return cls
}

func run(c *vh.Ctx) error {
	c.Res.Rule = "per era (shelley..conway, dijkstra): transactions built as CBOR (vh.Item), decoded by the era's real decoder, with 1-4 inputs that the mock ledger resolves to key / script / Byron / reward-style addresses or not at all, collateral and required signers (Alonzo+), key-hash and script withdrawals, and witness sets derived from the complete valid set by 0-3 perturbations (drop, unrelated extra, wrong key, corrupted signature, signature over another tx id / the re-encoded body / the whole tx, duplicate, truncated key or signature, Byron: wrong chain code / attributes / key given as vkey witness); real Ed25519 keys. Validation histories: a legitimate Byron spend followed (or preceded) in the same process by a spend whose bootstrap witness differs from the legitimate one only in the last attribute byte(s) / an appended zero byte / the last chain-code byte / the last key byte, attribute lengths 1,31,32,33,34,64,100; each verdict must equal the stateless model and the verdict of the same transaction alone in a fresh process. Distinct by the full transaction bytes; non-trivial = at least one input and at least one witness."
	c.Res.Modelled = []string{
		"Ed25519 verification, Blake2b-224 and SHA3-256 are Section variables in the theorems; in the correspondence the model is instantiated with oracle tables computed by the harness (crypto/ed25519, x/crypto blake2b and sha3), not by the repository",
		"address decoding (payment credential kind, Byron root) and transaction decoding are not modelled: the model receives the classification computed independently by the harness from the wire bytes (CIP-19 header nibble, Byron payload), and the harness checks that the real decoder surfaces the same inputs/collateral/signers/witnesses",
		"certificate and voting credentials are not part of the property and not checked by these rules",
	}
	cf := c.NewCaseFile("c28", header)
	cf.SetShardSize(c.Pick(34, 120))
	if c.Replay != "" {
		b, err := os.ReadFile(c.Replay)
		if err != nil {
			return err
		}
		var rp struct {
			Replay txCase `json:"replay"`
		}
		if err := json.Unmarshal(b, &rp); err != nil {
			return err
		}
		runCase(c, cf, rp.Replay)
		cf.Flush()
		checkHistories(c)
		return nil
	}
	for _, tc := range corpus(c.Rng.Fork()) {
		runCase(c, cf, tc)
	}
	n := c.Pick(30, 800)
	for _, e := range eras {
		r := c.Rng.Fork()
		for i := 0; i < n; i++ {
			runCase(c, cf, genCase(r, e, ""))
		}
	}
	// validation histories: a legitimate Byron spend and a near-collision of its
	// bootstrap witness, in both orders
	for _, e := range eras {
		r := c.Rng.Fork()
		for _, tc := range byronHistories(r, e, c.Thorough()) {
			runCase(c, cf, tc)
		}
	}
	cf.Flush()
	checkHistories(c)
	for _, e := range eras {
		if decodeRejected[e.Name]*5 > decoded[e.Name] {
			c.Res.Violate("correspondence", "too-many-undecodable-"+e.Name, fmt.Sprintf("%s: %d of %d generated transactions are rejected by the decoder; the generator no longer fits the decoder", e.Name, decodeRejected[e.Name], decodeRejected[e.Name]+decoded[e.Name]), nil)
		}
	}
	return nil
}

func main() {
	if len(os.Args) > 1 && os.Args[1] == "verdicts" {
		verdictsMain()
		return
	}
	if len(os.Args) > 1 && os.Args[1] == "probe" {
		probe()
		return
	}
	vh.Main(vh.Runner{Property: "C28", Gen: gen, Run: run})
}

func probe() {
	must(gen(""))
	r := vh.NewRng(1)
	for _, e := range eras {
		ok, rej := 0, 0
		cls := map[string]int{}
		for i := 0; i < 300; i++ {
			tc := genCase(r, e, "")
			tx, err := e.Decode(vh.UnHex(tc.Tx))
			if err != nil {
				rej++
				if rej < 3 {
					fmt.Println(e.Name, "decode:", err, tc.Label)
				}
				continue
			}
			ok++
			rules, _ := e.witnessRules()
			ents := map[string]utxoEnt{}
			for _, u := range tc.Utxo {
				ents[utxoKey(vh.UnHex(u.TxId), u.Idx)] = u
			}
			var verr error
			p, _ := vh.Recover(func() { verr = common.VerifyTransaction(tx, 100, &mockLS{ents: ents}, nil, rules) })
			_, c := classify(verr)
			if p {
				c = "EPanic"
			}
			if c == "EUnknown" {
				fmt.Println(verr)
			}
			cls[c]++
		}
		fmt.Println(e.Name, "decoded", ok, "rejected", rej, cls)
	}
}
