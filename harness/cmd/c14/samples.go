package main

// Sample messages: for every variant one real message object per message
// type (built with the package's own constructors), plus representatives for
// every guard class a MatchFunc distinguishes.  Used (a) by the translator to
// sample MatchFuncs, (b) by the engine run to put real messages on the wire
// (encoded by the real codec and decoded by the real NewMsgFromCbor).

import (
	"github.com/blinklabs-io/gouroboros/cbor"
	"github.com/blinklabs-io/gouroboros/protocol"
	"github.com/blinklabs-io/gouroboros/protocol/blockfetch"
	"github.com/blinklabs-io/gouroboros/protocol/chainsync"
	pcommon "github.com/blinklabs-io/gouroboros/protocol/common"
	"github.com/blinklabs-io/gouroboros/protocol/handshake"
	"github.com/blinklabs-io/gouroboros/protocol/keepalive"
	"github.com/blinklabs-io/gouroboros/protocol/leiosfetch"
	"github.com/blinklabs-io/gouroboros/protocol/leiosnotify"
	"github.com/blinklabs-io/gouroboros/protocol/leiosvotes"
	lmn "github.com/blinklabs-io/gouroboros/protocol/localmessagenotification"
	lms "github.com/blinklabs-io/gouroboros/protocol/localmessagesubmission"
	"github.com/blinklabs-io/gouroboros/protocol/localstatequery"
	"github.com/blinklabs-io/gouroboros/protocol/localtxmonitor"
	"github.com/blinklabs-io/gouroboros/protocol/localtxsubmission"
	"github.com/blinklabs-io/gouroboros/protocol/messagesubmission"
	"github.com/blinklabs-io/gouroboros/protocol/peersharing"
	"github.com/blinklabs-io/gouroboros/protocol/txsubmission"
)

type mk = func() protocol.Message

func hash32() []byte {
	h := make([]byte, 32)
	for i := range h {
		h[i] = byte(i + 1)
	}
	return h
}

func pt() pcommon.Point { return pcommon.NewPoint(7, hash32()) }
func tip() pcommon.Tip  { return pcommon.Tip{Point: pt(), BlockNumber: 3} }

func rawOf(v any) cbor.RawMessage {
	b, err := cbor.Encode(v)
	if err != nil {
		panic(err)
	}
	return cbor.RawMessage(b)
}

func dmqMsg() pcommon.DmqMessage {
	var m pcommon.DmqMessage
	m.MessageID = hash32()
	m.KESSignature = make([]byte, 448)
	m.ColdVerificationKey = make([]byte, 32)
	return m
}

func leiosVotesRequest(n uint64) protocol.Message { return leiosvotes.NewMsgVotesRequestNext(n) }

func fillSamples(v *variant) {
	smode := v.Mode
	if smode == 0 {
		smode = v.SampleMode
	}
	S := map[uint8]mk{}
	v.Samples = S
	switch v.Pkg {
	case "handshake":
		vm := func() protocol.ProtocolVersionMap {
			return protocol.GetProtocolVersionMap(smode, 764824073, false, false, false)
		}
		S[handshake.MessageTypeProposeVersions] = func() protocol.Message { return handshake.NewMsgProposeVersions(vm()) }
		S[handshake.MessageTypeAcceptVersion] = func() protocol.Message {
			return handshake.NewMsgAcceptVersion(v.Version, vm()[v.Version])
		}
		S[handshake.MessageTypeRefuse] = func() protocol.Message {
			return handshake.NewMsgRefuse([]any{uint64(handshake.RefuseReasonVersionMismatch), []any{uint64(1)}})
		}
		S[handshake.MessageTypeQueryReply] = func() protocol.Message { return handshake.NewMsgQueryReply(vm()) }
	case "chainsync":
		S[chainsync.MessageTypeRequestNext] = func() protocol.Message { return chainsync.NewMsgRequestNext() }
		S[chainsync.MessageTypeAwaitReply] = func() protocol.Message { return chainsync.NewMsgAwaitReply() }
		if smode == ntn {
			S[chainsync.MessageTypeRollForward] = func() protocol.Message {
				m, err := chainsync.NewMsgRollForwardNtN(1, 0, []byte{0x82, 0x01, 0x02}, tip())
				if err != nil {
					panic(err)
				}
				return m
			}
		} else {
			S[chainsync.MessageTypeRollForward] = func() protocol.Message {
				m, err := chainsync.NewMsgRollForwardNtC(1, []byte{0x82, 0x01, 0x02}, tip())
				if err != nil {
					panic(err)
				}
				return m
			}
		}
		S[chainsync.MessageTypeRollBackward] = func() protocol.Message { return chainsync.NewMsgRollBackward(pt(), tip()) }
		S[chainsync.MessageTypeFindIntersect] = func() protocol.Message {
			return chainsync.NewMsgFindIntersect([]pcommon.Point{pt()})
		}
		S[chainsync.MessageTypeIntersectFound] = func() protocol.Message { return chainsync.NewMsgIntersectFound(pt(), tip()) }
		S[chainsync.MessageTypeIntersectNotFound] = func() protocol.Message { return chainsync.NewMsgIntersectNotFound(tip()) }
		S[chainsync.MessageTypeDone] = func() protocol.Message { return chainsync.NewMsgDone() }
	case "blockfetch":
		S[blockfetch.MessageTypeRequestRange] = func() protocol.Message { return blockfetch.NewMsgRequestRange(pt(), pt()) }
		S[blockfetch.MessageTypeClientDone] = func() protocol.Message { return blockfetch.NewMsgClientDone() }
		S[blockfetch.MessageTypeStartBatch] = func() protocol.Message { return blockfetch.NewMsgStartBatch() }
		S[blockfetch.MessageTypeNoBlocks] = func() protocol.Message { return blockfetch.NewMsgNoBlocks() }
		S[blockfetch.MessageTypeBlock] = func() protocol.Message { return blockfetch.NewMsgBlock([]byte{0x82, 0x01, 0x02}) }
		S[blockfetch.MessageTypeBatchDone] = func() protocol.Message { return blockfetch.NewMsgBatchDone() }
	case "txsubmission":
		S[txsubmission.MessageTypeRequestTxIds] = func() protocol.Message { return txsubmission.NewMsgRequestTxIds(true, 0, 1) }
		S[txsubmission.MessageTypeReplyTxIds] = func() protocol.Message {
			return txsubmission.NewMsgReplyTxIds([]txsubmission.TxIdAndSize{{TxId: txsubmission.TxId{EraId: 6}, Size: 10}})
		}
		S[txsubmission.MessageTypeRequestTxs] = func() protocol.Message {
			return txsubmission.NewMsgRequestTxs([]txsubmission.TxId{{EraId: 6}})
		}
		S[txsubmission.MessageTypeReplyTxs] = func() protocol.Message {
			return txsubmission.NewMsgReplyTxs([]txsubmission.TxBody{{EraId: 6, TxBody: []byte{0x80}}})
		}
		S[txsubmission.MessageTypeDone] = func() protocol.Message { return txsubmission.NewMsgDone() }
		S[txsubmission.MessageTypeInit] = func() protocol.Message { return txsubmission.NewMsgInit() }
		v.Guards = []guardClass{
			{ID: 1, Name: "blocking", MsgType: txsubmission.MessageTypeRequestTxIds, Reps: []mk{
				func() protocol.Message { return txsubmission.NewMsgRequestTxIds(true, 0, 1) },
				func() protocol.Message { return txsubmission.NewMsgRequestTxIds(true, 3, 10) }}},
			{ID: 2, Name: "nonblocking", MsgType: txsubmission.MessageTypeRequestTxIds, Reps: []mk{
				func() protocol.Message { return txsubmission.NewMsgRequestTxIds(false, 0, 1) },
				func() protocol.Message { return txsubmission.NewMsgRequestTxIds(false, 3, 10) }}},
		}
	case "keepalive":
		S[keepalive.MessageTypeKeepAlive] = func() protocol.Message { return keepalive.NewMsgKeepAlive(7) }
		S[keepalive.MessageTypeKeepAliveResponse] = func() protocol.Message { return keepalive.NewMsgKeepAliveResponse(7) }
		S[keepalive.MessageTypeDone] = func() protocol.Message { return keepalive.NewMsgDone() }
	case "peersharing":
		S[peersharing.MessageTypeShareRequest] = func() protocol.Message { return peersharing.NewMsgShareRequest(3) }
		S[peersharing.MessageTypeSharePeers] = func() protocol.Message { return peersharing.NewMsgSharePeers([]peersharing.PeerAddress{}) }
		S[peersharing.MessageTypeDone] = func() protocol.Message { return peersharing.NewMsgDone() }
	case "localtxsubmission":
		S[localtxsubmission.MessageTypeSubmitTx] = func() protocol.Message { return localtxsubmission.NewMsgSubmitTx(6, []byte{0x80}) }
		S[localtxsubmission.MessageTypeAcceptTx] = func() protocol.Message { return localtxsubmission.NewMsgAcceptTx() }
		S[localtxsubmission.MessageTypeRejectTx] = func() protocol.Message { return localtxsubmission.NewMsgRejectTx([]byte{0x80}) }
		S[localtxsubmission.MessageTypeDone] = func() protocol.Message { return localtxsubmission.NewMsgDone() }
	case "localstatequery":
		S[localstatequery.MessageTypeAcquire] = func() protocol.Message { return localstatequery.NewMsgAcquire(pt()) }
		S[localstatequery.MessageTypeAcquired] = func() protocol.Message { return localstatequery.NewMsgAcquired() }
		S[localstatequery.MessageTypeFailure] = func() protocol.Message { return localstatequery.NewMsgFailure(0) }
		S[localstatequery.MessageTypeQuery] = func() protocol.Message { return localstatequery.NewMsgQuery([]any{uint64(1)}) }
		S[localstatequery.MessageTypeResult] = func() protocol.Message { return localstatequery.NewMsgResult([]byte{0x01}) }
		S[localstatequery.MessageTypeRelease] = func() protocol.Message { return localstatequery.NewMsgRelease() }
		S[localstatequery.MessageTypeReacquire] = func() protocol.Message { return localstatequery.NewMsgReAcquire(pt()) }
		S[localstatequery.MessageTypeDone] = func() protocol.Message { return localstatequery.NewMsgDone() }
		S[localstatequery.MessageTypeAcquireVolatileTip] = func() protocol.Message { return localstatequery.NewMsgAcquireVolatileTip() }
		S[localstatequery.MessageTypeReacquireVolatileTip] = func() protocol.Message { return localstatequery.NewMsgReAcquireVolatileTip() }
		S[localstatequery.MessageTypeAcquireImmutableTip] = func() protocol.Message { return localstatequery.NewMsgAcquireImmutableTip() }
		S[localstatequery.MessageTypeReacquireImmutableTip] = func() protocol.Message { return localstatequery.NewMsgReAcquireImmutableTip() }
	case "localtxmonitor":
		S[localtxmonitor.MessageTypeDone] = func() protocol.Message { return localtxmonitor.NewMsgDone() }
		S[localtxmonitor.MessageTypeAcquire] = func() protocol.Message { return localtxmonitor.NewMsgAcquire() }
		S[localtxmonitor.MessageTypeAcquired] = func() protocol.Message { return localtxmonitor.NewMsgAcquired(5) }
		S[localtxmonitor.MessageTypeRelease] = func() protocol.Message { return localtxmonitor.NewMsgRelease() }
		S[localtxmonitor.MessageTypeNextTx] = func() protocol.Message { return localtxmonitor.NewMsgNextTx() }
		S[localtxmonitor.MessageTypeReplyNextTx] = func() protocol.Message { return localtxmonitor.NewMsgReplyNextTx(6, []byte{0x80}) }
		S[localtxmonitor.MessageTypeHasTx] = func() protocol.Message { return localtxmonitor.NewMsgHasTx(hash32()) }
		S[localtxmonitor.MessageTypeReplyHasTx] = func() protocol.Message { return localtxmonitor.NewMsgReplyHasTx(true) }
		S[localtxmonitor.MessageTypeGetSizes] = func() protocol.Message { return localtxmonitor.NewMsgGetSizes() }
		S[localtxmonitor.MessageTypeReplyGetSizes] = func() protocol.Message { return localtxmonitor.NewMsgReplyGetSizes(1, 2, 3) }
	case "messagesubmission":
		S[messagesubmission.MessageTypeInit] = func() protocol.Message { return messagesubmission.NewMsgInit() }
		S[messagesubmission.MessageTypeRequestMessageIds] = func() protocol.Message {
			return messagesubmission.NewMsgRequestMessageIds(true, 0, 1)
		}
		S[messagesubmission.MessageTypeReplyMessageIds] = func() protocol.Message {
			return messagesubmission.NewMsgReplyMessageIds([]pcommon.MessageIDAndSize{})
		}
		S[messagesubmission.MessageTypeRequestMessages] = func() protocol.Message {
			return messagesubmission.NewMsgRequestMessages([][]byte{hash32()})
		}
		S[messagesubmission.MessageTypeReplyMessages] = func() protocol.Message {
			return messagesubmission.NewMsgReplyMessages([]pcommon.DmqMessage{})
		}
		S[messagesubmission.MessageTypeDone] = func() protocol.Message { return messagesubmission.NewMsgDone() }
		v.Guards = []guardClass{
			{ID: 1, Name: "blocking", MsgType: messagesubmission.MessageTypeRequestMessageIds, Reps: []mk{
				func() protocol.Message { return messagesubmission.NewMsgRequestMessageIds(true, 0, 1) },
				func() protocol.Message { return messagesubmission.NewMsgRequestMessageIds(true, 2, 5) }}},
			{ID: 2, Name: "nonblocking", MsgType: messagesubmission.MessageTypeRequestMessageIds, Reps: []mk{
				func() protocol.Message { return messagesubmission.NewMsgRequestMessageIds(false, 0, 1) },
				func() protocol.Message { return messagesubmission.NewMsgRequestMessageIds(false, 2, 5) }}},
		}
	case "localmessagesubmission":
		S[lms.MessageTypeSubmitMessage] = func() protocol.Message { return lms.NewMsgSubmitMessage(dmqMsg()) }
		S[lms.MessageTypeAcceptMessage] = func() protocol.Message { return lms.NewMsgAcceptMessage() }
		S[lms.MessageTypeRejectMessage] = func() protocol.Message {
			m, err := lms.NewMsgRejectMessage(pcommon.InvalidReason{Message: "x"})
			if err != nil {
				panic(err)
			}
			return m
		}
		S[lms.MessageTypeDone] = func() protocol.Message { return lms.NewMsgDone() }
	case "localmessagenotification":
		S[lmn.MessageTypeRequestMessages] = func() protocol.Message { return lmn.NewMsgRequestMessages(false) }
		S[lmn.MessageTypeReplyMessagesNonBlocking] = func() protocol.Message {
			return lmn.NewMsgReplyMessagesNonBlocking([]pcommon.DmqMessage{}, false)
		}
		S[lmn.MessageTypeReplyMessagesBlocking] = func() protocol.Message {
			return lmn.NewMsgReplyMessagesBlocking([]pcommon.DmqMessage{dmqMsg()})
		}
		S[lmn.MessageTypeClientDone] = func() protocol.Message { return lmn.NewMsgClientDone() }
		v.Guards = []guardClass{
			{ID: 1, Name: "blocking", MsgType: lmn.MessageTypeRequestMessages, Reps: []mk{
				func() protocol.Message { return lmn.NewMsgRequestMessages(true) }}},
			{ID: 2, Name: "nonblocking", MsgType: lmn.MessageTypeRequestMessages, Reps: []mk{
				func() protocol.Message { return lmn.NewMsgRequestMessages(false) }}},
		}
	case "leiosfetch":
		S[leiosfetch.MessageTypeBlockRequest] = func() protocol.Message { return leiosfetch.NewMsgBlockRequest(pt()) }
		S[leiosfetch.MessageTypeBlock] = func() protocol.Message { return leiosfetch.NewMsgBlock(rawOf([]any{uint64(1)})) }
		S[leiosfetch.MessageTypeBlockTxsRequest] = func() protocol.Message {
			return leiosfetch.NewMsgBlockTxsRequest(pt(), map[uint16]uint64{0: 1})
		}
		S[leiosfetch.MessageTypeBlockTxs] = func() protocol.Message {
			return leiosfetch.NewMsgBlockTxs([]cbor.RawMessage{rawOf([]any{uint64(1)})})
		}
		S[leiosfetch.MessageTypeVotesRequest] = func() protocol.Message {
			return leiosfetch.NewMsgVotesRequest([]leiosfetch.MsgVotesRequestVoteId{})
		}
		S[leiosfetch.MessageTypeVotes] = func() protocol.Message { return leiosfetch.NewMsgVotes([]cbor.RawMessage{}) }
		S[leiosfetch.MessageTypeBlockRangeRequest] = func() protocol.Message { return leiosfetch.NewMsgBlockRangeRequest(pt(), pt()) }
		S[leiosfetch.MessageTypeLastBlockAndTxsInRange] = func() protocol.Message {
			return leiosfetch.NewMsgLastBlockAndTxsInRange(rawOf([]any{uint64(1)}), []cbor.RawMessage{})
		}
		S[leiosfetch.MessageTypeNextBlockAndTxsInRange] = func() protocol.Message {
			return leiosfetch.NewMsgNextBlockAndTxsInRange(rawOf([]any{uint64(1)}), []cbor.RawMessage{})
		}
		S[leiosfetch.MessageTypeDone] = func() protocol.Message { return leiosfetch.NewMsgDone() }
		S[leiosfetch.MessageTypeNoBlock] = func() protocol.Message { return leiosfetch.NewMsgNoBlock() }
		S[leiosfetch.MessageTypeNoBlockTxs] = func() protocol.Message { return leiosfetch.NewMsgNoBlockTxs() }
	case "leiosnotify":
		S[leiosnotify.MessageTypeNotificationRequestNext] = func() protocol.Message { return leiosnotify.NewMsgNotificationRequestNext() }
		S[leiosnotify.MessageTypeBlockAnnouncement] = func() protocol.Message {
			return leiosnotify.NewMsgBlockAnnouncement(rawOf([]any{uint64(1)}))
		}
		S[leiosnotify.MessageTypeBlockOffer] = func() protocol.Message { return leiosnotify.NewMsgBlockOffer(pt(), 10) }
		S[leiosnotify.MessageTypeBlockTxsOffer] = func() protocol.Message { return leiosnotify.NewMsgBlockTxsOffer(pt()) }
		S[leiosnotify.MessageTypeVotesOffer] = func() protocol.Message {
			return leiosnotify.NewMsgVotesOffer([]leiosnotify.MsgVotesOfferVote{})
		}
		S[leiosnotify.MessageTypeDone] = func() protocol.Message { return leiosnotify.NewMsgDone() }
	case "leiosvotes":
		vote := func() protocol.Message {
			var vt leiosvotes.Vote
			vt.SlotNo = 5
			vt.VoterId = 1
			vt.VoteSignature = make([]byte, 48)
			return leiosvotes.NewMsgVote(vt)
		}
		S[leiosvotes.MessageTypeVotesRequestNext] = func() protocol.Message { return leiosvotes.NewMsgVotesRequestNext(1) }
		S[leiosvotes.MessageTypeVote] = vote
		S[leiosvotes.MessageTypeDone] = func() protocol.Message { return leiosvotes.NewMsgDone() }
		tok := func(n uint64) func(any) { return func(ctx any) { setUintField(ctx, "tokens", n) } }
		v.Guards = []guardClass{
			{ID: 1, Name: "count_ok", MsgType: leiosvotes.MessageTypeVotesRequestNext, Reps: []mk{
				func() protocol.Message { return leiosvotes.NewMsgVotesRequestNext(1) },
				func() protocol.Message { return leiosvotes.NewMsgVotesRequestNext(3) },
				func() protocol.Message { return leiosvotes.NewMsgVotesRequestNext(leiosvotes.MaxRequestNextCount) }}},
			{ID: 2, Name: "count_zero", MsgType: leiosvotes.MessageTypeVotesRequestNext, Reps: []mk{
				func() protocol.Message { return leiosvotes.NewMsgVotesRequestNext(0) }}},
			{ID: 3, Name: "count_over_max", MsgType: leiosvotes.MessageTypeVotesRequestNext, Reps: []mk{
				func() protocol.Message { return leiosvotes.NewMsgVotesRequestNext(leiosvotes.MaxRequestNextCount + 1) }}},
			{ID: 4, Name: "more_pending", MsgType: leiosvotes.MessageTypeVote, Reps: []mk{vote}, Preps: []func(any){tok(2), tok(3), tok(1000)}},
			{ID: 5, Name: "final", MsgType: leiosvotes.MessageTypeVote, Reps: []mk{vote}, Preps: []func(any){tok(1)}},
			{ID: 6, Name: "none_outstanding", MsgType: leiosvotes.MessageTypeVote, Reps: []mk{vote}, Preps: []func(any){tok(0)}},
		}
	}
}
