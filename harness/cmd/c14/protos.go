package main

// The mini-protocol variants under check and how the REAL protocol
// configuration (state map, initial state, state context, message decoder) is
// obtained for each: the package's own NewClient/NewServer constructors are
// called and the protocol.ProtocolConfig they handed to protocol.New is read
// back out of the embedded *protocol.Protocol (unexported field `config`,
// read-only access through reflect+unsafe, so no hook in /repo is needed).

import (
	"fmt"
	"reflect"
	"unsafe"

	"github.com/blinklabs-io/gouroboros/protocol"
	"github.com/blinklabs-io/gouroboros/protocol/blockfetch"
	"github.com/blinklabs-io/gouroboros/protocol/chainsync"
	"github.com/blinklabs-io/gouroboros/protocol/handshake"
	"github.com/blinklabs-io/gouroboros/protocol/keepalive"
	"github.com/blinklabs-io/gouroboros/protocol/leiosfetch"
	"github.com/blinklabs-io/gouroboros/protocol/leiosnotify"
	"github.com/blinklabs-io/gouroboros/protocol/leiosvotes"
	"github.com/blinklabs-io/gouroboros/protocol/localmessagenotification"
	"github.com/blinklabs-io/gouroboros/protocol/localmessagesubmission"
	"github.com/blinklabs-io/gouroboros/protocol/localstatequery"
	"github.com/blinklabs-io/gouroboros/protocol/localtxmonitor"
	"github.com/blinklabs-io/gouroboros/protocol/localtxsubmission"
	"github.com/blinklabs-io/gouroboros/protocol/messagesubmission"
	"github.com/blinklabs-io/gouroboros/protocol/peersharing"
	"github.com/blinklabs-io/gouroboros/protocol/txsubmission"
)

const (
	ntn = protocol.ProtocolModeNodeToNode
	ntc = protocol.ProtocolModeNodeToClient
)

// guardClass is one named argument class of a MatchFunc.
type guardClass struct {
	ID      int
	Name    string
	MsgType uint8
	// Reps builds representative messages of the class; Preps (optional) put
	// the state context into the class's situation before the call.  Every
	// combination must give the same MatchFunc verdict.
	Reps  []func() protocol.Message
	Preps []func(ctx any)
}

type variant struct {
	Name    string // Coq identifier stem, e.g. chainsync_ntn
	Pkg     string // directory under protocol/
	Mode    protocol.ProtocolMode
	// SampleMode: the mode whose message constructors/decoders apply when Mode is omitted
	SampleMode protocol.ProtocolMode
	Version uint16
	// DecoderFunc is the name of the NewMsgFromCbor* function in messages.go
	// whose switch decides decodability in this mode
	DecoderFunc string
	Mk          func(o protocol.ProtocolOptions) (client, server any)
	Samples     map[uint8]func() protocol.Message // default (class 0) message per type
	Guards      []guardClass
}

func opts(mode protocol.ProtocolMode, version uint16) protocol.ProtocolOptions {
	return protocol.ProtocolOptions{Mode: mode, Version: version, ErrorChan: make(chan error, 10)}
}

func variants() []variant {
	vs := []variant{
		{Name: "handshake_ntn", Pkg: "handshake", Mode: ntn, Version: 14, DecoderFunc: "NewMsgFromCbor",
			Mk: func(o protocol.ProtocolOptions) (any, any) {
				c := handshake.NewConfig()
				return handshake.NewClient(o, &c), handshake.NewServer(o, &c)
			}},
		{Name: "handshake_ntc", Pkg: "handshake", Mode: ntc, Version: 16 + protocol.ProtocolVersionNtCOffset, DecoderFunc: "NewMsgFromCbor",
			Mk: func(o protocol.ProtocolOptions) (any, any) {
				c := handshake.NewConfig()
				return handshake.NewClient(o, &c), handshake.NewServer(o, &c)
			}},
		// Mode OMITTED (ProtocolModeNone): every package whose constructors branch on
		// ProtocolOptions.Mode gets a third column, built through the real constructors
		{Name: "handshake_mode0", Pkg: "handshake", Mode: 0, SampleMode: ntn, Version: 14, DecoderFunc: "NewMsgFromCbor",
			Mk: func(o protocol.ProtocolOptions) (any, any) {
				c := handshake.NewConfig()
				return handshake.NewClient(o, &c), handshake.NewServer(o, &c)
			}},
		{Name: "chainsync_mode0", Pkg: "chainsync", Mode: 0, SampleMode: ntc, Version: 16 + protocol.ProtocolVersionNtCOffset, DecoderFunc: "NewMsgFromCbor",
			Mk: func(o protocol.ProtocolOptions) (any, any) {
				c := chainsync.NewConfig()
				return chainsync.NewClient(o, &c), chainsync.NewServer(o, &c)
			}},
		{Name: "chainsync_ntn", Pkg: "chainsync", Mode: ntn, Version: 14, DecoderFunc: "NewMsgFromCbor",
			Mk: func(o protocol.ProtocolOptions) (any, any) {
				c := chainsync.NewConfig()
				return chainsync.NewClient(o, &c), chainsync.NewServer(o, &c)
			}},
		{Name: "chainsync_ntc", Pkg: "chainsync", Mode: ntc, Version: 16 + protocol.ProtocolVersionNtCOffset, DecoderFunc: "NewMsgFromCbor",
			Mk: func(o protocol.ProtocolOptions) (any, any) {
				c := chainsync.NewConfig()
				return chainsync.NewClient(o, &c), chainsync.NewServer(o, &c)
			}},
		{Name: "blockfetch", Pkg: "blockfetch", Mode: ntn, Version: 14, DecoderFunc: "NewMsgFromCbor",
			Mk: func(o protocol.ProtocolOptions) (any, any) {
				c, _ := blockfetch.NewConfig()
				return blockfetch.NewClient(o, &c), blockfetch.NewServer(o, &c)
			}},
		{Name: "txsubmission", Pkg: "txsubmission", Mode: ntn, Version: 14, DecoderFunc: "NewMsgFromCbor",
			Mk: func(o protocol.ProtocolOptions) (any, any) {
				c := txsubmission.NewConfig()
				return txsubmission.NewClient(o, &c), txsubmission.NewServer(o, &c)
			}},
		{Name: "keepalive", Pkg: "keepalive", Mode: ntn, Version: 14, DecoderFunc: "NewMsgFromCbor",
			Mk: func(o protocol.ProtocolOptions) (any, any) {
				c := keepalive.NewConfig()
				return keepalive.NewClient(o, &c), keepalive.NewServer(o, &c)
			}},
		{Name: "peersharing", Pkg: "peersharing", Mode: ntn, Version: 14, DecoderFunc: "NewMsgFromCbor",
			Mk: func(o protocol.ProtocolOptions) (any, any) {
				c := peersharing.NewConfig()
				return peersharing.NewClient(o, &c), peersharing.NewServer(o, &c)
			}},
		{Name: "localtxsubmission", Pkg: "localtxsubmission", Mode: ntc, Version: 16 + protocol.ProtocolVersionNtCOffset, DecoderFunc: "NewMsgFromCbor",
			Mk: func(o protocol.ProtocolOptions) (any, any) {
				c := localtxsubmission.NewConfig()
				return localtxsubmission.NewClient(o, &c), localtxsubmission.NewServer(o, &c)
			}},
		{Name: "localstatequery", Pkg: "localstatequery", Mode: ntc, Version: 16 + protocol.ProtocolVersionNtCOffset, DecoderFunc: "NewMsgFromCbor",
			Mk: func(o protocol.ProtocolOptions) (any, any) {
				c := localstatequery.NewConfig()
				return localstatequery.NewClient(o, &c), localstatequery.NewServer(o, &c)
			}},
		{Name: "localstatequery_v9", Pkg: "localstatequery", Mode: ntc, Version: 9 + protocol.ProtocolVersionNtCOffset, DecoderFunc: "NewMsgFromCbor",
			Mk: func(o protocol.ProtocolOptions) (any, any) {
				c := localstatequery.NewConfig()
				return localstatequery.NewClient(o, &c), localstatequery.NewServer(o, &c)
			}},
		{Name: "localtxmonitor", Pkg: "localtxmonitor", Mode: ntc, Version: 16 + protocol.ProtocolVersionNtCOffset, DecoderFunc: "NewMsgFromCbor",
			Mk: func(o protocol.ProtocolOptions) (any, any) {
				c := localtxmonitor.NewConfig()
				return localtxmonitor.NewClient(o, &c), localtxmonitor.NewServer(o, &c)
			}},
		{Name: "messagesubmission_v1", Pkg: "messagesubmission", Mode: ntn, Version: protocol.ProtocolVersionDMQNtN1, DecoderFunc: "NewMsgFromCbor",
			Mk: func(o protocol.ProtocolOptions) (any, any) {
				c := messagesubmission.NewConfig()
				return messagesubmission.NewClient(o, &c), messagesubmission.NewServer(o, &c)
			}},
		{Name: "messagesubmission_v2", Pkg: "messagesubmission", Mode: ntn, Version: protocol.ProtocolVersionDMQNtN2, DecoderFunc: "NewMsgFromCbor",
			Mk: func(o protocol.ProtocolOptions) (any, any) {
				c := messagesubmission.NewConfig()
				return messagesubmission.NewClient(o, &c), messagesubmission.NewServer(o, &c)
			}},
		{Name: "localmessagesubmission", Pkg: "localmessagesubmission", Mode: ntc, Version: 1 + protocol.ProtocolVersionDMQNtCOffset, DecoderFunc: "NewMsgFromCbor",
			Mk: func(o protocol.ProtocolOptions) (any, any) {
				c := localmessagesubmission.NewConfig()
				return localmessagesubmission.NewClient(o, &c), localmessagesubmission.NewServer(o, &c)
			}},
		{Name: "localmessagenotification", Pkg: "localmessagenotification", Mode: ntc, Version: 1 + protocol.ProtocolVersionDMQNtCOffset, DecoderFunc: "NewMsgFromCbor",
			Mk: func(o protocol.ProtocolOptions) (any, any) {
				c := localmessagenotification.NewConfig()
				return localmessagenotification.NewClient(o, &c), localmessagenotification.NewServer(o, &c)
			}},
		{Name: "leiosfetch", Pkg: "leiosfetch", Mode: ntn, Version: 15, DecoderFunc: "NewMsgFromCbor",
			Mk: func(o protocol.ProtocolOptions) (any, any) {
				c := leiosfetch.NewConfig()
				return leiosfetch.NewClient(o, &c), leiosfetch.NewServer(o, &c)
			}},
		{Name: "leiosnotify", Pkg: "leiosnotify", Mode: ntn, Version: 15, DecoderFunc: "NewMsgFromCbor",
			Mk: func(o protocol.ProtocolOptions) (any, any) {
				c := leiosnotify.NewConfig()
				return leiosnotify.NewClient(o, &c), leiosnotify.NewServer(o, &c)
			}},
		{Name: "leiosvotes", Pkg: "leiosvotes", Mode: ntn, Version: 15, DecoderFunc: "NewMsgFromCbor",
			Mk: func(o protocol.ProtocolOptions) (any, any) {
				c := leiosvotes.NewConfig()
				return leiosvotes.NewClient(o, &c), leiosvotes.NewServer(o, &c)
			}},
	}
	for i := range vs {
		fillSamples(&vs[i])
	}
	return vs
}

// realConfig reads the ProtocolConfig out of a *Client / *Server value.
func realConfig(clientOrServer any) (cfg protocol.ProtocolConfig, err error) {
	defer func() {
		if r := recover(); r != nil {
			err = fmt.Errorf("cannot read protocol config: %v", r)
		}
	}()
	v := reflect.ValueOf(clientOrServer)
	if v.Kind() != reflect.Ptr || v.IsNil() {
		return cfg, fmt.Errorf("not a pointer: %T", clientOrServer)
	}
	f := v.Elem().FieldByName("Protocol")
	if !f.IsValid() || f.IsNil() {
		return cfg, fmt.Errorf("%T has no embedded *protocol.Protocol", clientOrServer)
	}
	p := f.Elem() // protocol.Protocol
	cf := p.FieldByName("config")
	if !cf.IsValid() {
		return cfg, fmt.Errorf("protocol.Protocol has no field config")
	}
	cf = reflect.NewAt(cf.Type(), unsafe.Pointer(cf.UnsafeAddr())).Elem()
	cfg, ok := cf.Interface().(protocol.ProtocolConfig)
	if !ok {
		return cfg, fmt.Errorf("field config is not a ProtocolConfig")
	}
	if cfg.StateMap == nil {
		return cfg, fmt.Errorf("nil state map")
	}
	return cfg, nil
}

// setUintField sets an unexported unsigned field of a struct behind a pointer
// held in an interface (used for leios-votes' *stateContext.tokens).
func setUintField(ptr any, field string, val uint64) bool {
	v := reflect.ValueOf(ptr)
	if v.Kind() != reflect.Ptr || v.IsNil() || v.Elem().Kind() != reflect.Struct {
		return false
	}
	f := v.Elem().FieldByName(field)
	if !f.IsValid() {
		return false
	}
	f = reflect.NewAt(f.Type(), unsafe.Pointer(f.UnsafeAddr())).Elem()
	switch f.Kind() {
	case reflect.Uint, reflect.Uint64, reflect.Uint32, reflect.Uint16, reflect.Uint8:
		f.SetUint(val)
		return true
	case reflect.Int, reflect.Int64, reflect.Int32:
		f.SetInt(int64(val))
		return true
	}
	return false
}

type roleCfg struct {
	Role string // "client" | "server"
	Cfg  protocol.ProtocolConfig
}

func (v *variant) configs() ([]roleCfg, error) {
	c, s := v.Mk(opts(v.Mode, v.Version))
	cc, err := realConfig(c)
	if err != nil {
		return nil, fmt.Errorf("%s client: %w", v.Name, err)
	}
	sc, err := realConfig(s)
	if err != nil {
		return nil, fmt.Errorf("%s server: %w", v.Name, err)
	}
	return []roleCfg{{"client", cc}, {"server", sc}}, nil
}
