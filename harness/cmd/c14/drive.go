package main

// Driving the REAL protocol engine with SCALED state timeouts.
//
// A protocol.Protocol is created from the real ProtocolConfig of the
// package's Client/Server (state map, initial state, state context, real
// NewMsgFromCbor); only the message handler is replaced by a recorder and
// every Timeout / TimeoutFunc of a COPY of the state map is replaced by a
// short one (structure kept: zero stays zero, distinct values stay distinct
// and ordered, TimeoutFunc stays a TimeoutFunc).  It is attached to a real
// muxer over net.Pipe; a scripted peer speaks raw muxer segments.  The verif
// trace hook gives the instants of every setState and of every SendError of
// the stateLoop goroutine (= the timeout error).

import (
	"encoding/binary"
	"fmt"
	"io"
	"net"
	"sort"
	"strings"
	"sync"
	"time"

	"github.com/blinklabs-io/gouroboros/muxer"
	"github.com/blinklabs-io/gouroboros/protocol"
)

const (
	baseTimeout = 400 * time.Millisecond
	rankStep    = 120 * time.Millisecond
	stepBound   = 5 * time.Second
)

var t0Base = time.Now()

func sinceBase() time.Duration { return time.Since(t0Base) }

type obsEv struct {
	Seq  uint64
	Gid  uint64
	Kind uint8
	A    uint64
	T    time.Duration
}

type session struct {
	mu      sync.Mutex
	evs     []obsEv
	tfVals  []time.Duration
	stateCh chan obsEv
}

var sessions sync.Map // *protocol.Protocol -> *session

func sink(e protocol.VerifEvent) {
	switch e.Kind {
	case protocol.VerifEvState, protocol.VerifEvSendErr, protocol.VerifEvSendErrFull, protocol.VerifEvSendErrStop:
	default:
		return
	}
	v, ok := sessions.Load(e.P)
	if !ok {
		return
	}
	s := v.(*session)
	o := obsEv{Seq: e.Seq, Gid: e.Gid, Kind: e.Kind, A: e.A, T: sinceBase()}
	s.mu.Lock()
	s.evs = append(s.evs, o)
	s.mu.Unlock()
	if e.Kind == protocol.VerifEvState {
		select {
		case s.stateCh <- o:
		default:
		}
	}
}

// ---------------------------------------------------------------------------
// usable transitions and paths

type edge struct {
	From, To uint
	Idx      int
	Mk       mk
}

// selects mirrors the selection rule of Protocol.nextState on the real entry
// with the real MatchFuncs (used to pick a message that takes transition idx)
func selects(e protocol.StateMapEntry, ctx any, m protocol.Message) int {
	for i, t := range e.Transitions {
		if t.MsgType != m.Type() {
			continue
		}
		if t.MatchFunc != nil {
			ok := false
			func() {
				defer func() { recover() }()
				ok = t.MatchFunc(ctx, m)
			}()
			if !ok {
				continue
			}
		}
		return i
	}
	return -1
}

func edgesOf(v *variant, cfg protocol.ProtocolConfig) map[uint][]edge {
	out := map[uint][]edge{}
	for st, e := range cfg.StateMap {
		for idx, t := range e.Transitions {
			var cands []mk
			if f := v.Samples[t.MsgType]; f != nil {
				cands = append(cands, f)
			}
			for _, g := range v.Guards {
				if g.MsgType == t.MsgType {
					cands = append(cands, g.Reps...)
				}
			}
			for _, f := range cands {
				if selects(e, cfg.StateContext, f()) == idx {
					out[st.Id] = append(out[st.Id], edge{From: st.Id, To: t.NewState.Id, Idx: idx, Mk: f})
					break
				}
			}
		}
		sort.Slice(out[st.Id], func(i, j int) bool { return out[st.Id][i].Idx < out[st.Id][j].Idx })
	}
	return out
}

// shortest non-empty path from `from` to `to`
func pathTo(edges map[uint][]edge, from, to uint) []edge {
	type node struct {
		s    uint
		path []edge
	}
	seen := map[uint]bool{}
	q := []node{{from, nil}}
	for len(q) > 0 {
		n := q[0]
		q = q[1:]
		for _, e := range edges[n.s] {
			p := append(append([]edge(nil), n.path...), e)
			if e.To == to {
				return p
			}
			if !seen[e.To] {
				seen[e.To] = true
				q = append(q, node{e.To, p})
			}
		}
	}
	return nil
}

// ---------------------------------------------------------------------------
// scaling

type scaled struct {
	Static map[uint]time.Duration // state id -> scaled Timeout (0 = none)
	Dyn    map[uint]bool
}

func scaleOf(a *tAut) scaled {
	var vals []int64
	seen := map[int64]bool{}
	for _, s := range a.States {
		if s.Timeout > 0 && !seen[s.Timeout] {
			seen[s.Timeout] = true
			vals = append(vals, s.Timeout)
		}
	}
	sort.Slice(vals, func(i, j int) bool { return vals[i] < vals[j] })
	rank := map[int64]int{}
	for i, v := range vals {
		rank[v] = i
	}
	sc := scaled{Static: map[uint]time.Duration{}, Dyn: map[uint]bool{}}
	for _, s := range a.States {
		if s.Timeout > 0 {
			sc.Static[s.Id] = baseTimeout + time.Duration(rank[s.Timeout])*rankStep
		}
		sc.Dyn[s.Id] = s.Dyn
	}
	return sc
}

// the value our TimeoutFunc wrapper returns at its k-th call (k from 0): the
// harness knows it without relying on the wrapper having been called
func dynVal(k int) time.Duration {
	return 450*time.Millisecond + time.Duration(k%3)*40*time.Millisecond
}

// ---------------------------------------------------------------------------
// one run

type stepSpec struct {
	Edge   edge
	Factor float64 // wait Factor * (armed timeout of the state we are in) before taking the edge; 0 = at once
}

type runSpec struct {
	Variant string     `json:"variant"`
	Role    string     `json:"role"`
	Class   string     `json:"class"` // stall | prompt | exempt | walk | errfull
	Target  uint       `json:"target"`
	Steps   []stepJSON `json:"steps"`
	Final   string     `json:"final"` // stall | stop
	steps   []stepSpec
	queue   mk // stall-queued: a message the local side enqueues before the stall
}

type stepJSON struct {
	From, To uint
	Idx      int
	Factor   float64
}

type enterRec struct {
	State uint
	T     time.Duration
	TF    time.Duration // value the TimeoutFunc wrapper returned for this entry (0 = not called)
}

type fireRec struct {
	T             time.Duration
	Full          bool
	Delivered     bool
	StoppedBefore bool
	Pos           int // number of enters before it
}

type runObs struct {
	Enters    []enterRec
	Fires     []fireRec
	End       time.Duration
	ErrTexts  []string
	DoneAfter bool   // DoneChan closed within the bound after a delivered timeout error
	Stuck     string // path could not be completed
	Reached   bool   // the target state was entered as planned
	Elapsed   []time.Duration
	TFCalls   int // number of calls of the TimeoutFunc wrapper
	TFWanted  int // number of entries that must consult TimeoutFunc
}

func writeSegment(c net.Conn, protoId uint16, response bool, payload []byte) error {
	id := protoId
	if response {
		id |= 0x8000
	}
	hdr := make([]byte, 8)
	binary.BigEndian.PutUint32(hdr[0:], uint32(time.Now().UnixNano()&0xffffffff))
	binary.BigEndian.PutUint16(hdr[4:], id)
	binary.BigEndian.PutUint16(hdr[6:], uint16(len(payload)))
	c.SetWriteDeadline(time.Now().Add(stepBound))
	_, err := c.Write(append(hdr, payload...))
	return err
}

func armedDur(a *tAut, sc scaled, s uint, tf time.Duration) time.Duration {
	st := a.state(s)
	if st == nil || st.Agency == protocol.AgencyNone {
		return 0
	}
	if sc.Dyn[s] {
		return tf
	}
	return sc.Static[s]
}

func runOne(v *variant, a *tAut, role string, spec *runSpec) (obs runObs, sc scaled, err error) {
	rcs, err := v.configs()
	if err != nil {
		return obs, sc, err
	}
	var cfg protocol.ProtocolConfig
	for _, r := range rcs {
		if r.Role == role {
			cfg = r.Cfg
		}
	}
	sc = scaleOf(a)
	sess := &session{stateCh: make(chan obsEv, 256)}
	sm := cfg.StateMap.Copy()
	for k, e := range sm {
		e.Timeout = sc.Static[k.Id]
		if e.TimeoutFunc != nil {
			orig := e.TimeoutFunc
			e.TimeoutFunc = func() time.Duration {
				orig() // the real function is still exercised; its (random) value is replaced
				sess.mu.Lock()
				d := dynVal(len(sess.tfVals))
				sess.tfVals = append(sess.tfVals, d)
				sess.mu.Unlock()
				return d
			}
		}
		sm[k] = e
	}
	cfg.StateMap = sm
	connA, connB := net.Pipe()
	defer connB.Close()
	defer connA.Close()
	mux := muxer.New(connA)
	errCap := 10
	if spec.Class == "errfull" {
		errCap = 1
	}
	errChan := make(chan error, errCap)
	if spec.Class == "errfull" {
		errChan <- fmt.Errorf("filler")
	}
	cfg.Muxer = mux
	cfg.ErrorChan = errChan
	cfg.Logger = nil
	cfg.MessageHandlerFunc = func(m protocol.Message) error { return nil }
	p := protocol.New(cfg)
	sessions.Store(p, sess)
	defer sessions.Delete(p)
	p.Start()
	mux.Start()
	defer mux.Stop()
	defer p.Stop()
	go func() { // drain the peer side
		buf := make([]byte, 65536+8)
		for {
			if _, err := io.ReadAtLeast(connB, buf, 1); err != nil {
				return
			}
		}
	}()
	engineIsClient := role == "client"
	waitState := func(want uint) (obsEv, bool) {
		tm := time.NewTimer(stepBound)
		defer tm.Stop()
		for {
			select {
			case o := <-sess.stateCh:
				if uint(o.A) == want {
					return o, true
				}
				return o, false
			case <-tm.C:
				return obsEv{}, false
			}
		}
	}
	// initial entry
	cur, ok := waitState(a.Init)
	if !ok {
		obs.Stuck = "no initial state event"
		return obs, sc, nil
	}
	curState := a.Init
	nEnter := 1
	dynSeen := 0
	var curTF time.Duration
	noteTF := func() {
		// the value TimeoutFunc must return for the entry just observed
		curTF = 0
		st := a.state(curState)
		if st == nil || !sc.Dyn[curState] || st.Agency == protocol.AgencyNone || nEnter == 1 {
			return
		}
		curTF = dynVal(dynSeen)
		dynSeen++
	}
	lastTF := func() time.Duration { return curTF }
	take := func(e edge) bool {
		st := a.state(e.From)
		engineSends := (st.Agency == protocol.AgencyClient) == engineIsClient
		msg := e.Mk()
		if engineSends {
			if err := p.SendMessage(msg); err != nil {
				obs.Stuck = "SendMessage: " + err.Error()
				return false
			}
		} else {
			data, err := encodeMsg(msg)
			if err != nil {
				obs.Stuck = "encode: " + err.Error()
				return false
			}
			if err := writeSegment(connB, cfg.ProtocolId, engineIsClient, data); err != nil {
				obs.Stuck = "peer write: " + err.Error()
				return false
			}
		}
		o, ok := waitState(e.To)
		if !ok {
			obs.Stuck = fmt.Sprintf("state %d not entered after message type %d from state %d", e.To, msg.Type(), e.From)
			return false
		}
		cur = o
		curState = e.To
		nEnter++
		noteTF()
		return true
	}
	sleepUntil := func(t time.Duration) {
		if d := t - sinceBase(); d > 0 {
			time.Sleep(d)
		}
	}
	completed := true
	for _, s := range spec.steps {
		if s.Factor > 0 {
			nominal := nEnter > 1
			d := armedDur(a, sc, curState, lastTF())
			if !nominal || d == 0 {
				d = baseTimeout
			}
			sleepUntil(cur.T + time.Duration(float64(d)*s.Factor))
		}
		entered := cur.T
		if !take(s.Edge) {
			completed = false
			break
		}
		obs.Elapsed = append(obs.Elapsed, cur.T-entered)
	}
	obs.Reached = completed
	if completed {
		if spec.queue != nil {
			p.SendMessage(spec.queue())
		}
		switch spec.Final {
		case "stall":
			d := armedDur(a, sc, curState, lastTF())
			if nEnter == 1 || d == 0 {
				// exempt: nothing may fire; watch for 2.5 x the largest timeout of the table
				w := baseTimeout
				for _, x := range sc.Static {
					if x > w {
						w = x
					}
				}
				tm := time.NewTimer(time.Duration(2.5 * float64(w)))
				select {
				case e := <-errChan:
					obs.ErrTexts = append(obs.ErrTexts, e.Error())
				case <-tm.C:
				}
				tm.Stop()
			} else if spec.Class == "errfull" {
				// the error cannot be delivered; watch 2.5 d
				time.Sleep(time.Duration(2.5 * float64(d)))
			} else {
				tm := time.NewTimer(time.Duration(2.5*float64(d)) + 3*time.Second)
				select {
				case e := <-errChan:
					obs.ErrTexts = append(obs.ErrTexts, e.Error())
					dn := time.NewTimer(stepBound)
					select {
					case <-p.DoneChan():
						obs.DoneAfter = true
					case <-dn.C:
					}
					dn.Stop()
				case <-tm.C:
				}
				tm.Stop()
			}
		case "stop":
		}
	}
	obs.End = sinceBase()
	// collect: only events of the stateLoop goroutine, up to End
	sess.mu.Lock()
	evs := append([]obsEv(nil), sess.evs...)
	obs.TFCalls = len(sess.tfVals)
	sess.mu.Unlock()
	sort.Slice(evs, func(i, j int) bool { return evs[i].Seq < evs[j].Seq })
	var gid uint64
	for _, e := range evs {
		if e.Kind == protocol.VerifEvState {
			gid = e.Gid
			break
		}
	}
	stoppedBefore := false
	tfi := 0
	for i := 0; i < len(evs); i++ {
		e := evs[i]
		if e.T > obs.End {
			break
		}
		switch {
		case e.Kind == protocol.VerifEvState:
			er := enterRec{State: uint(e.A), T: e.T}
			st := a.state(uint(e.A))
			if len(obs.Enters) > 0 && st != nil && sc.Dyn[st.Id] && st.Agency != protocol.AgencyNone {
				er.TF = dynVal(tfi)
				tfi++
				if e.T < obs.End-150*time.Millisecond {
					obs.TFWanted = tfi // the wrapper is called right after the State event
				}
			}
			obs.Enters = append(obs.Enters, er)
		case e.Kind == protocol.VerifEvSendErr && e.Gid == gid:
			fr := fireRec{T: e.T, StoppedBefore: stoppedBefore, Pos: len(obs.Enters)}
			for j := i + 1; j < len(evs); j++ {
				if evs[j].Gid != gid {
					continue
				}
				if evs[j].Kind == protocol.VerifEvSendErrFull {
					fr.Full = true
				}
				if evs[j].Kind == protocol.VerifEvSendErrStop {
					fr.Delivered = true
				}
				break
			}
			if fr.Delivered {
				stoppedBefore = true
			}
			obs.Fires = append(obs.Fires, fr)
		case e.Kind == protocol.VerifEvSendErrStop && e.Gid != gid:
			stoppedBefore = true
		}
	}
	// drain further errors (texts only)
	for {
		select {
		case e := <-errChan:
			if spec.Class != "errfull" {
				obs.ErrTexts = append(obs.ErrTexts, e.Error())
			}
			continue
		default:
		}
		break
	}
	return obs, sc, nil
}

func isTimeoutText(s string) bool {
	return strings.Contains(s, "timeout waiting on transition from protocol state")
}
