// C14 - state timeouts fire exactly when the peer stalls.
package main

import (
	"encoding/json"
	"fmt"
	"os"
	"sort"
	"strings"
	"sync"
	"time"

	"github.com/blinklabs-io/gouroboros/protocol"

	"verifharness/vh"
)

const header = `From Coq Require Import String.
From V Require Import Lib.Base C14.Model C14.Gen.
Open Scope string_scope.
Open Scope N_scope.`

func us(d time.Duration) uint64 {
	if d < 0 {
		return 0
	}
	return uint64(d / time.Microsecond)
}

// the Coq term of one observed run
func coqCase(a *tAut, sc scaled, o *runObs, margin time.Duration) string {
	tab := coqTable(a.States, func(s tState) uint64 { return us(sc.Static[s.Id]) })
	type tev struct {
		t   uint64
		s   string
		ord int
	}
	var evs []tev
	for i, e := range o.Enters {
		evs = append(evs, tev{us(e.T), fmt.Sprintf("OEnter %s %s", vh.N(uint64(e.State)), vh.N(us(e.TF))), i * 2})
	}
	for _, f := range o.Fires {
		// the fire instant is taken after the timer channel delivered: round up
		evs = append(evs, tev{us(f.T) + 1, fmt.Sprintf("OFire %s %s %s", vh.Bool(f.StoppedBefore), vh.Bool(f.Full), vh.Bool(f.Delivered)), f.Pos*2 - 1})
	}
	sort.SliceStable(evs, func(i, j int) bool { return evs[i].ord < evs[j].ord })
	// times are those of one goroutine (monotonic clock): keep them non-decreasing after rounding
	var last uint64
	es := make([]string, len(evs))
	for i, e := range evs {
		if e.t < last {
			e.t = last
		}
		last = e.t
		es[i] = fmt.Sprintf("(%s, %s)", vh.N(e.t), e.s)
	}
	return fmt.Sprintf("{| k_real := tab_%s; k_run := {| o_table := %s; o_init := %s; o_events := %s; o_end := %s; o_margin := %s; o_judge_end := true |} |}",
		a.Name, tab, vh.N(uint64(a.Init)), vh.List(es), vh.N(us(o.End)), vh.N(us(margin)))
}

type job struct {
	v    *variant
	a    *tAut
	role string
	spec *runSpec
}

type outcome struct {
	job      job
	obs      runObs
	sc       scaled
	attempts int
	verdicts []string
	err      error
}

func sortedTypes(m map[uint8]mk) []uint8 {
	var ks []uint8
	for k := range m {
		ks = append(ks, k)
	}
	sort.Slice(ks, func(i, j int) bool { return ks[i] < ks[j] })
	return ks
}

func specJSON(s *runSpec) *runSpec {
	s.Steps = nil
	for _, st := range s.steps {
		s.Steps = append(s.Steps, stepJSON{st.Edge.From, st.Edge.To, st.Edge.Idx, st.Factor})
	}
	return s
}

// ---------------------------------------------------------------------------
// the monitor: the property evaluated on one observed run, from the scaled
// table the harness itself installed (independent of the Coq model)

type verdict struct {
	Kind string // ok | discard | spurious-<why> | missed | late | not-stopped | not-reported
	Info string
}

func judge(j job, o *runObs, sc scaled) verdict {
	a := j.a
	name := func(s uint) string {
		if st := a.state(s); st != nil {
			return st.Name
		}
		return fmt.Sprint(s)
	}
	// 1. every fire must be justified by the measured instants
	for _, f := range o.Fires {
		if f.Pos == 0 {
			return verdict{"spurious-before-any-state", ""}
		}
		en := o.Enters[f.Pos-1]
		st := a.state(en.State)
		d := armedDur(a, sc, en.State, en.TF)
		if ex, ok := expectedTimeouts[a.Name]; ok && !inList(name(en.State), ex) {
			// the specification table (not the table read from the code) says this state has no timeout
			return verdict{"spurious-unspecified:" + name(en.State), fmt.Sprintf("timeout error %v after entering %s, a state for which the specification declares no timeout (the constructor installed %v)", f.T-en.T, name(en.State), d)}
		}
		switch {
		case f.Pos == 1:
			return verdict{"spurious-initial:" + name(en.State), fmt.Sprintf("timeout error %v after the initial entry", f.T-en.T)}
		case st == nil || st.Agency == protocol.AgencyNone:
			return verdict{"spurious-terminal:" + name(en.State), ""}
		case d == 0:
			return verdict{"spurious-no-timeout:" + name(en.State), fmt.Sprintf("timeout error %v after entering a state without a timeout", f.T-en.T)}
		case f.T-en.T < d-time.Millisecond:
			return verdict{"spurious-early:" + name(en.State), fmt.Sprintf("timeout error %v after the last transition, timeout is %v", f.T-en.T, d)}
		}
	}
	// a second fire without a transition in between
	for i := 1; i < len(o.Fires); i++ {
		if o.Fires[i].Pos == o.Fires[i-1].Pos {
			return verdict{"spurious-double:" + name(o.Enters[o.Fires[i].Pos-1].State), "two timeout errors for one state entry"}
		}
	}
	// an error text that says timeout must come with a fire of stateLoop
	nTimeoutTexts := 0
	for _, t := range o.ErrTexts {
		if isTimeoutText(t) {
			nTimeoutTexts++
		}
	}
	delivered := 0
	for _, f := range o.Fires {
		if f.Delivered {
			delivered++
		}
	}
	if nTimeoutTexts > delivered {
		return verdict{"unexplained-timeout-error", strings.Join(o.ErrTexts, " | ")}
	}
	if o.TFCalls < o.TFWanted {
		return verdict{"timeoutfunc-not-consulted", fmt.Sprintf("%d entries into a state with a TimeoutFunc, %d calls", o.TFWanted, o.TFCalls)}
	}
	if !o.Reached {
		return verdict{"discard", "path not completed: " + o.Stuck}
	}
	last := o.Enters[len(o.Enters)-1]
	d := armedDur(a, sc, last.State, last.TF)
	exempt := len(o.Enters) == 1 || d == 0
	switch j.spec.Final {
	case "stall":
		if exempt {
			if len(o.Fires) > 0 {
				return verdict{"spurious-exempt:" + name(last.State), ""}
			}
			return verdict{"ok", ""}
		}
		// was the stall really long enough?  (End - last entry >= 2.5 d unless it fired)
		var fire *fireRec
		for i := range o.Fires {
			if o.Fires[i].Pos == len(o.Enters) {
				fire = &o.Fires[i]
			}
		}
		if fire == nil {
			if o.End-last.T < time.Duration(2.5*float64(d)) {
				return verdict{"discard", "observation ended early"}
			}
			return verdict{"missed:" + name(last.State), fmt.Sprintf("stalled %v in a state with timeout %v: no timeout error", o.End-last.T, d)}
		}
		if j.spec.Class == "errfull" {
			if fire.Delivered || !fire.Full {
				return verdict{"discard", "ErrorChan was not full"}
			}
			return verdict{"ok", ""}
		}
		if !fire.Delivered {
			if fire.StoppedBefore {
				return verdict{"discard", "protocol was already stopping"}
			}
			return verdict{"not-reported:" + name(last.State), "the timer fired but no error reached ErrorChan"}
		}
		if nTimeoutTexts == 0 {
			return verdict{"not-reported:" + name(last.State), "error delivered but it is not the timeout error: " + strings.Join(o.ErrTexts, " | ")}
		}
		if !o.DoneAfter {
			return verdict{"not-stopped:" + name(last.State), "protocol not done 5 s after the timeout error"}
		}
		if fire.T-last.T > time.Duration(2.5*float64(d)) {
			return verdict{"late:" + name(last.State), fmt.Sprintf("timeout error after %v, timeout is %v", fire.T-last.T, d)}
		}
		return verdict{"ok", ""}
	default:
		// conversation progressed; a legitimate fire means the harness itself was late
		if len(o.Fires) > 0 {
			return verdict{"discard", "harness was late, a timeout legitimately fired"}
		}
		return verdict{"ok", ""}
	}
}

// ---------------------------------------------------------------------------

func plan(c *vh.Ctx) ([]job, error) {
	var jobs []job
	vs := variants()
	for i := range vs {
		v := &vs[i]
		rcs, err := v.configs()
		if err != nil {
			return nil, err
		}
		for _, rc := range rcs {
			a, err := extractT(v, rc)
			if err != nil {
				return nil, err
			}
			edges := edgesOf(v, rc.Cfg)
			sc := scaleOf(a)
			add := func(class string, target uint, steps []stepSpec, final string) {
				jobs = append(jobs, job{v, a, rc.Role, &runSpec{Variant: v.Name, Role: rc.Role, Class: class, Target: target, steps: steps, Final: final}})
			}
			mkSteps := func(p []edge) []stepSpec {
				out := make([]stepSpec, len(p))
				for i, e := range p {
					out[i] = stepSpec{Edge: e}
				}
				return out
			}
			reps := c.Pick(1, 3)
			for _, st := range a.States {
				// initial entry: never armed
				if st.Id == a.Init {
					add("exempt-initial", st.Id, nil, "stall")
				}
				p := pathTo(edges, a.Init, st.Id)
				if p == nil {
					continue
				}
				armed := st.Agency != protocol.AgencyNone && (sc.Static[st.Id] > 0 || st.Dyn)
				if !armed {
					add("exempt", st.Id, mkSteps(p), "stall")
					continue
				}
				// re-entry: go round a short cycle back to the state twice, 0.35 d apart, then stall:
				// every entry must re-arm the timer (also a transition into the same state)
				if cyc := pathTo(edges, st.Id, st.Id); cyc != nil && len(cyc) <= 2 {
					steps := mkSteps(p)
					for round := 0; round < 2; round++ {
						for i, e := range cyc {
							f := 0.0
							if i == 0 {
								f = 0.35
							}
							steps = append(steps, stepSpec{Edge: e, Factor: f})
						}
					}
					add("reenter", st.Id, steps, "stall")
				}
				// the peer has the agency and stalls while the local side has queued a message (pipelining)
				engineIsClient := rc.Role == "client"
				if (st.Agency == protocol.AgencyClient) != engineIsClient {
					var any mk
					for _, k := range sortedTypes(v.Samples) {
						any = v.Samples[k]
						break
					}
					if any != nil {
						jobs = append(jobs, job{v, a, rc.Role, &runSpec{Variant: v.Name, Role: rc.Role, Class: "stall-queued", Target: st.Id, steps: mkSteps(p), Final: "stall", queue: any}})
					}
				}
				for r := 0; r < reps; r++ {
					add("stall", st.Id, mkSteps(p), "stall")
					if out := edges[st.Id]; len(out) > 0 {
						e := out[c.Rng.Intn(len(out))]
						f := 0.1 + 0.3*float64(c.Rng.Intn(1000))/1000
						steps := append(mkSteps(p), stepSpec{Edge: e, Factor: f})
						add("prompt", st.Id, steps, "stop")
					}
				}
			}
			// walks: progress within the limits for several steps, then stall
			for w := 0; w < c.Pick(1, 4); w++ {
				var steps []stepSpec
				cur := a.Init
				n := 3 + c.Rng.Intn(4)
				for k := 0; k < n; k++ {
					out := edges[cur]
					if len(out) == 0 {
						break
					}
					e := out[c.Rng.Intn(len(out))]
					f := 0.0
					if k > 0 {
						f = 0.2 + 0.2*float64(c.Rng.Intn(1000))/1000
					}
					steps = append(steps, stepSpec{Edge: e, Factor: f})
					cur = e.To
				}
				if len(steps) > 0 {
					add("walk", cur, steps, "stall")
				}
			}
		}
	}
	// ErrorChan full: the error is discarded and the protocol is not stopped (quirk kept by the model)
	nf := 0
	for _, j := range append([]job(nil), jobs...) {
		if j.spec.Class == "stall" && nf < c.Pick(3, 10) && (j.v.Name == "keepalive" || j.v.Name == "blockfetch" || j.v.Name == "handshake_ntn" || c.Thorough()) {
			nf++
			jobs = append(jobs, job{j.v, j.a, j.role, &runSpec{Variant: j.spec.Variant, Role: j.role, Class: "errfull", Target: j.spec.Target, steps: j.spec.steps, Final: "stall"}})
		}
	}
	return jobs, nil
}

func execute(j job) outcome {
	out := outcome{job: j}
	for attempt := 1; attempt <= 3; attempt++ {
		obs, sc, err := runOne(j.v, j.a, j.role, j.spec)
		out.attempts = attempt
		out.obs, out.sc, out.err = obs, sc, err
		if err != nil {
			return out
		}
		v := judge(j, &obs, sc)
		out.verdicts = append(out.verdicts, v.Kind)
		// timing-dependent verdicts are retried; they count only when every attempt agrees
		if v.Kind == "ok" || !(v.Kind == "discard" || strings.HasPrefix(v.Kind, "missed") || strings.HasPrefix(v.Kind, "late") || strings.HasPrefix(v.Kind, "not-stopped")) {
			return out
		}
	}
	return out
}

func run(c *vh.Ctx) error {
	protocol.VerifSetSink(sink)
	defer protocol.VerifSetSink(nil)
	var jobs []job
	if c.Replay != "" {
		b, err := os.ReadFile(c.Replay)
		if err != nil {
			return err
		}
		var rp struct {
			Replay runSpec `json:"replay"`
		}
		if err := json.Unmarshal(b, &rp); err != nil {
			return err
		}
		all, err := plan(c)
		if err != nil {
			return err
		}
		for _, j := range all {
			if j.spec.Variant == rp.Replay.Variant && j.spec.Role == rp.Replay.Role && j.spec.Class == rp.Replay.Class && j.spec.Target == rp.Replay.Target {
				jobs = append(jobs, j)
				break
			}
		}
	} else {
		var err error
		jobs, err = plan(c)
		if err != nil {
			return err
		}
	}
	// declared timeouts against the specification table (monitor's own copy)
	if c.Replay == "" {
		auts, err := allAuts()
		if err != nil {
			return err
		}
		for _, a := range auts {
			ex, ok := expectedTimeouts[a.Name]
			if !ok {
				c.Res.Violate("monitor", "c14:declared-timeout-differs:"+a.Name+":<unknown automaton>", "automaton not in the specification table", map[string]any{"automaton": a.Name})
				continue
			}
			for _, st := range a.States {
				decl := st.Agency != protocol.AgencyNone && (st.Timeout > 0 || st.Dyn)
				if decl != inList(st.Name, ex) {
					c.Res.Violate("monitor", "c14:declared-timeout-differs:"+a.Name+":"+st.Name,
						fmt.Sprintf("state %s of %s declares a timeout: %v (Timeout %v, TimeoutFunc %v); the specification table says %v", st.Name, a.Name, decl, time.Duration(st.Timeout), st.Dyn, inList(st.Name, ex)),
						map[string]any{"automaton": a.Name, "state": st.Name})
				}
				if st.Dyn != inList(st.Name, expectedFunc[a.Name]) {
					c.Res.Violate("monitor", "c14:declared-timeout-differs:"+a.Name+":"+st.Name+"/TimeoutFunc",
						fmt.Sprintf("state %s of %s: TimeoutFunc set = %v, specification (randomly drawn timeout) = %v", st.Name, a.Name, st.Dyn, !st.Dyn),
						map[string]any{"automaton": a.Name, "state": st.Name})
				}
			}
			c.Res.Count("table/"+a.Name, true, "declared-table")
		}
	}
	par := 10
	if s := os.Getenv("C14_PAR"); s != "" {
		fmt.Sscan(s, &par)
	}
	outs := make([]outcome, len(jobs))
	var wg sync.WaitGroup
	sem := make(chan struct{}, par)
	for i := range jobs {
		wg.Add(1)
		sem <- struct{}{}
		go func(i int) {
			defer wg.Done()
			defer func() { <-sem }()
			outs[i] = execute(jobs[i])
		}(i)
	}
	wg.Wait()

	cf := c.NewCaseFile("runs", header)
	cf.SetShardSize(150)
	discarded := 0
	for _, o := range outs {
		j := o.job
		sp := specJSON(j.spec)
		canon := fmt.Sprintf("%s/%s/%s/%d/%v", sp.Variant, sp.Role, sp.Class, sp.Target, sp.Steps)
		if o.err != nil {
			return fmt.Errorf("%s: %w", canon, o.err)
		}
		final := o.verdicts[len(o.verdicts)-1]
		agree := true
		for _, v := range o.verdicts {
			if strings.SplitN(v, ":", 2)[0] != strings.SplitN(final, ":", 2)[0] {
				agree = false
			}
		}
		class := sp.Class
		switch {
		case final == "ok":
		case final == "discard" || !agree:
			discarded++
			class = "discarded(timing)"
		default:
			key := fmt.Sprintf("c14:%s:%s_%s", final, sp.Variant, sp.Role)
			info := judge(j, &o.obs, o.sc).Info
			c.Res.Violate("monitor", key, fmt.Sprintf("%s (class %s, %d attempt(s))", info, sp.Class, o.attempts), sp)
		}
		c.Res.Count(canon, len(o.obs.Enters) > 1 || sp.Class == "exempt-initial", class)
		if len(o.obs.Enters) > 0 {
			// a stall is watched for 2.5 d + 3 s after the entry, i.e. 1.5 d + 3 s (>= 3.6 s) past the deadline
			cf.Add(coqCase(j.a, o.sc, &o.obs, 3*time.Second+baseTimeout/2), sp)
			c.Res.TracesValidated++
		}
		if len(c.Res.Samples) < 6 && (sp.Class == "stall" || sp.Class == "walk") {
			var ts []string
			for _, e := range o.obs.Enters {
				ts = append(ts, fmt.Sprintf("%s@%dms", j.a.state(e.State).Name, e.T.Milliseconds()))
			}
			for _, f := range o.obs.Fires {
				ts = append(ts, fmt.Sprintf("TIMEOUT@%dms", f.T.Milliseconds()))
			}
			c.Res.Sample(map[string]any{"run": sp.Variant + "_" + sp.Role + "/" + sp.Class, "history": strings.Join(ts, " "), "verdict": final})
		}
	}
	cf.Flush()
	c.Res.Rule = "every variant x role x state: shortest path of real messages to the state on the real engine (real state map copy with timeouts scaled to 400..900 ms, TimeoutFunc kept as a function), then: stall (no message for >= 2.5 d: a timeout error must be reported within 2.5 d and the protocol must be done), prompt (next message after 0.1..0.4 d: no timeout), exempt (initial entry / Timeout 0 / terminal: nothing may fire during 2.5 x the largest timeout), walk (3-6 transitions 0.2..0.4 d apart, then stall), errfull (ErrorChan full).  Verdicts use measured instants of the trace hook (state stored, SendError on the stateLoop goroutine); a timeout that is early by the measured instants is always a violation, missed/late verdicts need 3 agreeing attempts, the band 0.4 d..2.5 d is never judged.  A run is non-trivial when at least one transition happened (or it is the initial-entry run)."
	c.Res.Modelled = []string{
		"timer accuracy and goroutine scheduling latency of the Go runtime are outside the model (ideal clock; TimerFire may be taken any time after the deadline)",
		"timeouts are scaled down on a copy of the real state map (structure preserved and checked in Coq against Gen.v); the unscaled values are only read by the translator",
	}
	c.Res.Notes = append(c.Res.Notes, fmt.Sprintf("%d runs discarded because the harness' own timing was off or attempts disagreed (counted, not judged)", discarded))
	return nil
}

func main() { vh.Main(vh.Runner{Property: "C14", Gen: gen, Run: run}) }
