package main

// Go copy of the hand-written specification table coq/C14/Spec.v (states
// that must declare a timeout), used by the monitor so that a lost or added
// timeout is reported with the concrete state as the failing input.
var expectedTimeouts = map[string][]string{
	"handshake_ntn_client": {"Propose", "Confirm"}, "handshake_ntn_server": {"Propose", "Confirm"},
	"handshake_ntc_client": {}, "handshake_ntc_server": {},
	// Mode omitted: the table the base state map selection implies (handshake falls back to NtN, chain-sync to NtC)
	"handshake_mode0_client": {"Propose", "Confirm"}, "handshake_mode0_server": {"Propose", "Confirm"},
	"chainsync_mode0_client": {}, "chainsync_mode0_server": {},
	"chainsync_ntn_client": {"Idle", "CanAwait", "MustReply", "Intersect"}, "chainsync_ntn_server": {"Idle", "CanAwait", "MustReply", "Intersect"},
	"chainsync_ntc_client": {}, "chainsync_ntc_server": {},
	"blockfetch_client": {"Busy", "Streaming"}, "blockfetch_server": {"Busy", "Streaming"},
	"txsubmission_client": {"TxIdsNonBlocking", "Txs"}, "txsubmission_server": {"TxIdsNonBlocking", "Txs"},
	"keepalive_client": {"Client", "Server"}, "keepalive_server": {"Client", "Server"},
	"peersharing_client": {"Busy"}, "peersharing_server": {"Busy"},
	"localtxsubmission_client": {"Busy"}, "localtxsubmission_server": {},
	"localstatequery_client": {"Acquiring", "Querying"}, "localstatequery_server": {},
	"localstatequery_v9_client": {"Acquiring", "Querying"}, "localstatequery_v9_server": {},
	"localtxmonitor_client": {"Acquiring", "BusyNextTx", "BusyHasTx", "BusyGetSizes"}, "localtxmonitor_server": {},
	"messagesubmission_v1_client": {"init", "idle", "messageIdsBlocking", "messages"}, "messagesubmission_v1_server": {"init", "idle", "messageIdsBlocking", "messages"},
	"messagesubmission_v2_client": {"idle", "messageIdsBlocking", "messages"}, "messagesubmission_v2_server": {"idle", "messageIdsBlocking", "messages"},
	"localmessagesubmission_client": {"idle", "busy"}, "localmessagesubmission_server": {"idle", "busy"},
	"localmessagenotification_client": {"idle"}, "localmessagenotification_server": {"idle"},
	"leiosfetch_client": {"Votes", "BlockRange"}, "leiosfetch_server": {},
	"leiosnotify_client": {"Busy"}, "leiosnotify_server": {},
	"leiosvotes_client": {"Busy"}, "leiosvotes_server": {"Busy"},
}
var expectedFunc = map[string][]string{"chainsync_ntn_client": {"MustReply"}, "chainsync_ntn_server": {"MustReply"}}

func inList(x string, l []string) bool {
	for _, y := range l {
		if x == y {
			return true
		}
	}
	return false
}
