package main

// Redeemer purposes: the tag constants are enumerated from the source the
// binary was compiled from (go/ast over ledger/common), so that a purpose
// added later (Dijkstra added Guarding = 6) enters the generator by itself;
// which of them an era's transaction type can carry is probed with the era
// decoder.

import (
	"fmt"
	"go/ast"
	"go/parser"
	"go/token"
	"os"
	"path/filepath"
	"sort"
	"strconv"
	"strings"

	"github.com/blinklabs-io/gouroboros/ledger/common"

	"verifharness/vh"
)

type redeemerTag struct {
	Name string
	V    int
}

func enumerateRedeemerTags() ([]redeemerTag, error) {
	_, _, file := funcInfo(common.VerifyTransaction)
	dir := filepath.Dir(file)
	ents, err := os.ReadDir(dir)
	if err != nil {
		return nil, err
	}
	var out []redeemerTag
	fset := token.NewFileSet()
	for _, e := range ents {
		n := e.Name()
		if !strings.HasSuffix(n, ".go") || strings.HasSuffix(n, "_test.go") {
			continue
		}
		af, err := parser.ParseFile(fset, filepath.Join(dir, n), nil, 0)
		if err != nil {
			return nil, err
		}
		for _, d := range af.Decls {
			gd, ok := d.(*ast.GenDecl)
			if !ok || gd.Tok != token.CONST {
				continue
			}
			for _, sp := range gd.Specs {
				vs := sp.(*ast.ValueSpec)
				id, ok := vs.Type.(*ast.Ident)
				if !ok || id.Name != "RedeemerTag" {
					continue
				}
				for i, nm := range vs.Names {
					if i >= len(vs.Values) {
						return nil, fmt.Errorf("RedeemerTag constant %s has no literal value", nm.Name)
					}
					lit, ok := vs.Values[i].(*ast.BasicLit)
					if !ok || lit.Kind != token.INT {
						return nil, fmt.Errorf("RedeemerTag constant %s is not an integer literal", nm.Name)
					}
					v, err := strconv.Atoi(lit.Value)
					if err != nil {
						return nil, err
					}
					out = append(out, redeemerTag{nm.Name, v})
				}
			}
		}
	}
	if len(out) == 0 {
		return nil, fmt.Errorf("no RedeemerTag constants found in %s", dir)
	}
	sort.Slice(out, func(i, j int) bool { return out[i].V < out[j].V })
	return out, nil
}

// eraTags returns the tags (of the enumerated ones) that a transaction of the
// era can carry: a transaction with exactly that one redeemer decodes and the
// decoded witness set yields one redeemer with that tag.
func eraTags(era string, all []redeemerTag) []int {
	var ok []int
	for _, t := range all {
		rc := rcase{Era: era, Tags: []int{t.V}, NRedeemers: 1, RedeemerMap: true}
		tx, err := decodeTx(era, buildTx(rc))
		if err != nil {
			continue
		}
		got := decodedTags(tx)
		if len(got) == 1 && got[0] == t.V {
			ok = append(ok, t.V)
		}
	}
	return ok
}

func decodedTags(tx common.Transaction) []int {
	var tags []int
	if w := tx.Witnesses(); w != nil && w.Redeemers() != nil {
		for k := range w.Redeemers().Iter() {
			tags = append(tags, int(k.Tag))
		}
	}
	sort.Ints(tags)
	return tags
}

// redeemerKeys turns a tag multiset into distinct (tag, index) keys.
func redeemerKeys(tags []int) [][2]uint64 {
	next := map[int]uint64{}
	var ks [][2]uint64
	for _, t := range tags {
		ks = append(ks, [2]uint64{uint64(t), next[t]})
		next[t]++
	}
	return ks
}

func coqTags(tags []int) string {
	var xs []string
	for _, t := range tags {
		xs = append(xs, vh.N(uint64(t)))
	}
	return vh.List(xs)
}
