// C32 - collateral covers the fee share the protocol demands.
package main

import (
	"encoding/json"
	"errors"
	"fmt"
	"math/big"
	"os"
	"sort"
	"strings"

	"github.com/blinklabs-io/gouroboros/cbor"
	"github.com/blinklabs-io/gouroboros/ledger/alonzo"
	"github.com/blinklabs-io/gouroboros/ledger/babbage"
	"github.com/blinklabs-io/gouroboros/ledger/common"
	"github.com/blinklabs-io/gouroboros/ledger/conway"
	"github.com/blinklabs-io/gouroboros/ledger/dijkstra"

	"verifharness/vh"
)

const header = `From Coq Require Import String.
From V Require Import Lib.Base C32.Model.
Open Scope string_scope.
Open Scope Z_scope.`

var c32Eras = []string{"alonzo", "babbage", "conway", "dijkstra"}

// ---- generator-level description of one case (this is what replays) ----

type asset struct {
	Policy int    `json:"policy"` // index into a fixed policy table
	Name   int    `json:"name"`   // index into a fixed name table
	Qty    uint64 `json:"qty"`
}

type outSpec struct {
	Coin uint64 `json:"coin"`
	// Shape: 0 = coin only, 1 = [coin, multiasset] (possibly empty map / empty policy / zero quantity)
	Shape     int     `json:"shape"`
	Assets    []asset `json:"assets"`
	EmptyPols int     `json:"empty_policies"` // extra policies with an empty asset map
	MapFormat bool    `json:"map_format"`     // Babbage+ post-Alonzo map output
	Missing   bool    `json:"missing"`        // collateral input unknown to the ledger state
}

type rcase struct {
	Era         string    `json:"era"`
	PPConway    bool      `json:"pp_conway"` // dijkstra rules given *ConwayProtocolParameters
	NRedeemers  int       `json:"n_redeemers"`
	Tags        []int     `json:"redeemer_tags,omitempty"` // purposes of the redeemers; nil = NRedeemers spend redeemers
	RedeemerMap bool      `json:"redeemer_map"`            // Conway+ map form
	Inputs      []outSpec `json:"inputs"`
	Fee         uint64    `json:"fee"`
	Pct         uint64    `json:"pct"`
	MaxColl     uint64    `json:"max_coll"`
	Return      *outSpec  `json:"return"`
	Shape       *shape    `json:"shape,omitempty"` // non-collateral parts; nil = one input, one output
	// observations
	TxHex   string   `json:"tx_hex,omitempty"`
	Results []string `json:"results,omitempty"`        // per kind, whole era rule list through common.VerifyTransaction: ok / reject / err
	Direct  []string `json:"results_direct,omitempty"` // per kind, rule function(s) called directly
}

func (rc rcase) shape() shape {
	if rc.Shape == nil {
		return defaultShape
	}
	return *rc.Shape
}

// tagsOfEra: the redeemer purposes an era's transaction type can carry (probed at start-up)
var tagsOfEra = map[string][]int{}

var kinds = []string{"NoCollateralInputs", "InsufficientCollateral", "CollateralContainsNonAda", "TooManyCollateralInputs"}

func policyBytes(i int) []byte {
	b := make([]byte, 28)
	b[0], b[27] = byte(i+1), byte(0xa0+i)
	return b
}
func nameBytes(i int) []byte {
	if i == 0 {
		return []byte{}
	}
	return []byte(fmt.Sprintf("tok%d", i))
}

func valueItem(o outSpec) *vh.Item {
	if o.Shape == 0 {
		return vh.U(o.Coin)
	}
	// group by policy, deterministic order
	byPol := map[int][]asset{}
	var pols []int
	for _, a := range o.Assets {
		if _, ok := byPol[a.Policy]; !ok {
			pols = append(pols, a.Policy)
		}
		byPol[a.Policy] = append(byPol[a.Policy], a)
	}
	sort.Ints(pols)
	var kv []*vh.Item
	for _, p := range pols {
		var inner []*vh.Item
		seen := map[int]bool{}
		for _, a := range byPol[p] {
			if seen[a.Name] {
				continue
			}
			seen[a.Name] = true
			inner = append(inner, vh.B(nameBytes(a.Name)), vh.U(a.Qty))
		}
		kv = append(kv, vh.B(policyBytes(p)), vh.M(inner...))
	}
	for i := 0; i < o.EmptyPols; i++ {
		kv = append(kv, vh.B(policyBytes(20+i)), vh.M())
	}
	return vh.A(vh.U(o.Coin), vh.M(kv...))
}

func outputItem(era string, o outSpec) *vh.Item {
	addr := vh.B(enterpriseAddr(make([]byte, 28)))
	if o.MapFormat && era != "alonzo" {
		return vh.M(vh.U(0), addr, vh.U(1), valueItem(o))
	}
	return vh.A(addr, valueItem(o))
}

func decodeOutput(era string, data []byte) (common.TransactionOutput, error) {
	if era == "alonzo" {
		return alonzo.NewAlonzoTransactionOutputFromCbor(data)
	}
	return babbage.NewBabbageTransactionOutputFromCbor(data)
}

func txid(i int) []byte {
	b := make([]byte, 32)
	b[0], b[31] = 0xc0, byte(i)
	return b
}

func (rc rcase) tags() []int {
	if rc.Tags != nil {
		return rc.Tags
	}
	return make([]int, rc.NRedeemers) // all RedeemerTagSpend
}

func redeemersItem(rc rcase) *vh.Item {
	data := vh.U(0)
	ex := vh.A(vh.U(10), vh.U(10))
	keys := redeemerKeys(rc.tags())
	// Dijkstra accepts only the map form
	if (rc.RedeemerMap && rc.Era == "conway") || rc.Era == "dijkstra" {
		var kv []*vh.Item
		for _, k := range keys {
			kv = append(kv, vh.A(vh.U(k[0]), vh.U(k[1])), vh.A(data, ex))
		}
		return vh.M(kv...)
	}
	var xs []*vh.Item
	for _, k := range keys {
		xs = append(xs, vh.A(vh.U(k[0]), vh.U(k[1]), data, ex))
	}
	return vh.A(xs...)
}

func buildTx(rc rcase) []byte {
	kv := shapedBody(rc.Era, rc.shape(), rc.Fee, false)
	if len(rc.Inputs) > 0 {
		var ins []*vh.Item
		for i := range rc.Inputs {
			ins = append(ins, vh.A(vh.B(txid(i)), vh.U(uint64(i))))
		}
		kv = append(kv, vh.U(13), vh.A(ins...))
	}
	if rc.Return != nil && rc.Era != "alonzo" {
		kv = append(kv, vh.U(16), outputItem(rc.Era, *rc.Return))
	}
	wits := vh.M()
	if rc.NRedeemers > 0 {
		wits = vh.M(vh.U(5), redeemersItem(rc))
	}
	return envelope(rc.Era, vh.M(kv...), wits, true).Enc()
}

// ---- mock ledger state: answers UtxoById only ----
type mockLS struct {
	common.LedgerState
	utxos map[string]common.TransactionOutput
}

func (m mockLS) UtxoById(in common.TransactionInput) (common.Utxo, error) {
	o, ok := m.utxos[in.String()]
	if !ok {
		return common.Utxo{}, errors.New("utxo not found")
	}
	return common.Utxo{Id: in, Output: o}, nil
}

func c32Pparams(rc rcase) common.ProtocolParameters {
	switch rc.Era {
	case "alonzo":
		return &alonzo.AlonzoProtocolParameters{CollateralPercentage: uint(rc.Pct), MaxCollateralInputs: uint(rc.MaxColl)}
	case "babbage":
		return &babbage.BabbageProtocolParameters{CollateralPercentage: uint(rc.Pct), MaxCollateralInputs: uint(rc.MaxColl)}
	case "conway":
		return &conway.ConwayProtocolParameters{CollateralPercentage: uint(rc.Pct), MaxCollateralInputs: uint(rc.MaxColl)}
	}
	cp := conway.ConwayProtocolParameters{CollateralPercentage: uint(rc.Pct), MaxCollateralInputs: uint(rc.MaxColl)}
	if rc.PPConway {
		return &cp
	}
	return &dijkstra.DijkstraProtocolParameters{ConwayProtocolParameters: cp}
}

func classify(err error) string {
	if err == nil {
		return "ok"
	}
	var e1 alonzo.InsufficientCollateralError
	var e2 alonzo.CollateralContainsNonAdaError
	var e3 alonzo.NoCollateralInputsError
	var e4 babbage.TooManyCollateralInputsError
	if errors.As(err, &e1) || errors.As(err, &e2) || errors.As(err, &e3) || errors.As(err, &e4) {
		return "reject"
	}
	return "err"
}

// what the rules see of one output, read back from the decoded object
type seenOut struct {
	amount    *big.Int
	hasAssets bool
	npol      int
	entries   [][2]string // (key id, quantity)
}

var keyIds = map[string]int{}

func keyId(pol, name []byte) int {
	k := vh.Hex(pol) + "." + vh.Hex(name)
	if id, ok := keyIds[k]; ok {
		return id
	}
	keyIds[k] = len(keyIds) + 1
	return keyIds[k]
}

func see(o common.TransactionOutput) seenOut {
	s := seenOut{amount: o.Amount()}
	if s.amount == nil {
		s.amount = new(big.Int)
	}
	as := o.Assets()
	if as == nil {
		return s
	}
	s.hasAssets = true
	pols := as.Policies()
	s.npol = len(pols)
	sort.Slice(pols, func(i, j int) bool { return string(pols[i].Bytes()) < string(pols[j].Bytes()) })
	for _, p := range pols {
		names := as.Assets(p)
		sort.Slice(names, func(i, j int) bool { return string(names[i]) < string(names[j]) })
		for _, n := range names {
			q := as.Asset(p, n)
			s.entries = append(s.entries, [2]string{fmt.Sprint(keyId(p.Bytes(), n)), q.String()})
		}
	}
	return s
}

func (s seenOut) coq() string {
	var es []string
	for _, e := range s.entries {
		es = append(es, fmt.Sprintf("(%s%%N, (%s)%%Z)", e[0], e[1]))
	}
	return fmt.Sprintf("(mk_output %s %s %s %s)", vh.BigZ(s.amount), vh.Bool(s.hasAssets), vh.N(uint64(s.npol)), vh.List(es))
}

func kindOf(name string) int {
	for i, k := range kinds {
		if strings.HasSuffix(name, "UtxoValidate"+k) {
			return i
		}
	}
	return -1
}

// observe decodes the transaction and the collateral UTxOs with the era
// decoders and runs, per clause, VerifyTransaction with exactly those entries
// of the era's real rule list that implement the clause.
func observe(rc *rcase) (coq string, err error) {
	data := buildTx(*rc)
	rc.TxHex = vh.Hex(data)
	tx, err := decodeTx(rc.Era, data)
	if err != nil {
		return "", fmt.Errorf("decode %s: %w", rc.Era, err)
	}
	ls := mockLS{utxos: map[string]common.TransactionOutput{}}
	coll := tx.Collateral()
	if len(coll) != len(rc.Inputs) {
		return "", fmt.Errorf("decoder returned %d collateral inputs for %d", len(coll), len(rc.Inputs))
	}
	var ins []string
	for i, in := range coll {
		spec := rc.Inputs[i]
		if spec.Missing {
			ins = append(ins, "None")
			continue
		}
		o, err := decodeOutput(rc.Era, outputItem(rc.Era, spec).Enc())
		if err != nil {
			return "", fmt.Errorf("decode collateral output: %w", err)
		}
		ls.utxos[in.String()] = o
		ins = append(ins, "(Some "+see(o).coq()+")")
	}
	ret := "None"
	if r := tx.CollateralReturn(); r != nil {
		ret = "(Some " + see(r).coq() + ")"
	}
	// the redeemer set as decoded must be the intended one (purposes included)
	gotTags := decodedTags(tx)
	wantTags := append([]int{}, rc.tags()...)
	sort.Ints(wantTags)
	if fmt.Sprint(gotTags) != fmt.Sprint(wantTags) {
		return "", fmt.Errorf("decoder returned redeemer purposes %v for %v", gotTags, wantTags)
	}
	fee := tx.Fee()
	if fee == nil {
		fee = new(big.Int)
	}
	pp := c32Pparams(*rc)
	rc.Results, rc.Direct = nil, nil
	coqRes := map[string]string{"ok": "ROk", "reject": "RReject", "err": "RErr"}
	var res, dres []string
	for k := range kinds {
		k := k
		isTarget := func(name string) bool { return kindOf(name) == k }
		// (1) the clause's rule function(s) called directly
		var derr error
		if p, v := vh.Recover(func() { derr = directRules(rc.Era, isTarget, tx, 0, ls, pp) }); p {
			return "", fmt.Errorf("%s rule panicked: %v", kinds[k], v)
		}
		// (2) the whole era rule list through common.VerifyTransaction, same ledger state
		var verr error
		if p, v := vh.Recover(func() { verr, _ = projectedVerify(rc.Era, isTarget, tx, 0, ls, pp) }); p {
			return "", fmt.Errorf("VerifyTransaction (%s) panicked: %v", kinds[k], v)
		}
		rc.Direct = append(rc.Direct, classify(derr))
		rc.Results = append(rc.Results, classify(verr))
		dres = append(dres, coqRes[classify(derr)])
		res = append(res, coqRes[classify(verr)])
	}
	coq = fmt.Sprintf("(mk_case %s %s %s %s %s %s %s %s %s)", vh.Str(rc.Era), coqTags(gotTags), vh.List(ins),
		vh.BigZ(fee), ret, vh.BigZ(new(big.Int).SetUint64(rc.Pct)), vh.BigZ(new(big.Int).SetUint64(rc.MaxColl)), vh.List(dres), vh.List(res))
	return coq, nil
}

// ---- monitor: the property text on the generator's own numbers ----

func tokens(o outSpec) map[[2]int]*big.Int {
	m := map[[2]int]*big.Int{}
	if o.Shape == 0 {
		return m
	}
	seen := map[[2]int]bool{}
	for _, a := range o.Assets {
		k := [2]int{a.Policy, a.Name}
		if seen[k] {
			continue
		}
		seen[k] = true
		if a.Qty != 0 {
			m[k] = new(big.Int).SetUint64(a.Qty)
		}
	}
	return m
}

func monitor(c *vh.Ctx, rc rcase) {
	monitorOne(c, rc, rc.Results)
	if strings.Join(rc.Direct, ",") != strings.Join(rc.Results, ",") {
		monitorOne(c, rc, rc.Direct)
	}
}

func monitorOne(c *vh.Ctx, rc rcase, results []string) {
	if rc.NRedeemers == 0 {
		return // does not run scripts
	}
	for _, r := range results {
		if r != "ok" {
			return // rejected by a collateral rule
		}
	}
	for _, in := range rc.Inputs {
		if in.Missing {
			c.Res.Violate("monitor", rc.Era+"-unresolved-collateral-accepted", "a transaction whose collateral input is unknown was accepted", rc)
			return
		}
	}
	if len(rc.Inputs) == 0 {
		c.Res.Violate("monitor", rc.Era+"-no-collateral-accepted", "script transaction without collateral inputs accepted", rc)
	}
	if uint64(len(rc.Inputs)) > rc.MaxColl {
		c.Res.Violate("monitor", rc.Era+"-too-many-collateral-inputs-accepted",
			fmt.Sprintf("%d collateral inputs accepted with maximum %d", len(rc.Inputs), rc.MaxColl), rc)
	}
	sum := new(big.Int)
	tot := map[[2]int]*big.Int{}
	anyTokens := false
	for _, in := range rc.Inputs {
		sum.Add(sum, new(big.Int).SetUint64(in.Coin))
		for k, q := range tokens(in) {
			anyTokens = true
			if tot[k] == nil {
				tot[k] = new(big.Int)
			}
			tot[k].Add(tot[k], q)
		}
	}
	bal := new(big.Int).Set(sum)
	hasRet := rc.Return != nil && rc.Era != "alonzo"
	if hasRet {
		bal.Sub(bal, new(big.Int).SetUint64(rc.Return.Coin))
	}
	need := new(big.Int).Mul(new(big.Int).SetUint64(rc.Fee), new(big.Int).SetUint64(rc.Pct))
	if new(big.Int).Mul(bal, big.NewInt(100)).Cmp(need) < 0 {
		key := "-insufficient-collateral-accepted"
		if new(big.Int).Mul(sum, big.NewInt(100)).Cmp(need) >= 0 {
			key = "-collateral-return-not-subtracted"
		} else if sum.Cmp(new(big.Int).Div(need, big.NewInt(100))) >= 0 {
			key = "-collateral-fee-share-rounded-down"
		}
		c.Res.Violate("monitor", rc.Era+key,
			fmt.Sprintf("accepted with collateral balance %s (inputs %s), fee %d, percentage %d: %s*100 < %s", bal, sum, rc.Fee, rc.Pct, bal, need), rc)
	}
	if anyTokens {
		returned := hasRet
		if hasRet {
			rt := tokens(*rc.Return)
			if len(rt) != len(tot) {
				returned = false
			}
			for k, q := range tot {
				if rt[k] == nil || rt[k].Cmp(q) != 0 {
					returned = false
				}
			}
		}
		if !returned {
			c.Res.Violate("monitor", rc.Era+"-non-ada-collateral-accepted", "collateral holding tokens accepted although the tokens are not (all) returned", rc)
		}
	}
}

func runCase(c *vh.Ctx, cf *vh.CaseFile, rc rcase) {
	if rc.Tags != nil {
		rc.NRedeemers = len(rc.Tags)
	}
	c.Begin(rc)
	coq, err := observe(&rc)
	if err != nil {
		c.Res.Violate("correspondence", "harness-error", err.Error(), rc)
		return
	}
	class := rc.Era + "/" + strings.Join(rc.Results, ",")
	c.Res.Count("", false, fmt.Sprintf("%s/redeemer-purposes=%v", rc.Era, rc.tags()))
	c.Res.Evaluations--
	b, _ := json.Marshal(struct {
		A, B    any
		C, D, E uint64
		F       any
		G       int
		H       shape
		I       []int
	}{rc.Era, rc.Inputs, rc.Fee, rc.Pct, rc.MaxColl, rc.Return, rc.NRedeemers, rc.shape(), rc.tags()})
	c.Res.Count(string(b), rc.NRedeemers > 0 && len(rc.Inputs) > 0, class)
	if rc.NRedeemers > 0 && rc.Fee*rc.Pct%100 != 0 && len(rc.Inputs) > 0 {
		c.Res.Sample(map[string]any{"era": rc.Era, "fee": rc.Fee, "pct": rc.Pct, "inputs": rc.Inputs, "return": rc.Return, "results": rc.Results})
	}
	monitor(c, rc)
	cf.Add(coq, rc)
}

// ---- generators ----

func genOut(r *vh.Rng, coin uint64, tokenChance int) outSpec {
	o := outSpec{Coin: coin, MapFormat: r.Bool()}
	if r.Intn(100) < tokenChance {
		o.Shape = 1
		switch r.Intn(6) {
		case 0: // empty multiasset map
		case 1:
			o.EmptyPols = 1
		case 2:
			o.Assets = []asset{{r.Intn(2), r.Intn(2), 0}} // zero quantity
		default:
			n := 1 + r.Intn(3)
			pol := r.Intn(3)
			for i := 0; i < n; i++ {
				if r.Chance(1, 3) {
					pol = r.Intn(3)
				}
				o.Assets = append(o.Assets, asset{pol, r.Intn(3), uint64(1 + r.Intn(5))})
			}
		}
	}
	return o
}

// returnFor builds a collateral return that gives back exactly the tokens of ins (optionally perturbed)
func returnFor(r *vh.Rng, ins []outSpec, coin uint64, perturb int) *outSpec {
	tot := map[[2]int]uint64{}
	for _, in := range ins {
		for k, q := range tokens(in) {
			tot[k] += q.Uint64()
		}
	}
	o := outSpec{Coin: coin, MapFormat: r.Bool()}
	var ks [][2]int
	for k := range tot {
		ks = append(ks, k)
	}
	sort.Slice(ks, func(i, j int) bool { return ks[i][0] < ks[j][0] || ks[i][0] == ks[j][0] && ks[i][1] < ks[j][1] })
	for _, k := range ks {
		o.Assets = append(o.Assets, asset{k[0], k[1], tot[k]})
	}
	switch perturb {
	case 1:
		if len(o.Assets) > 0 {
			o.Assets[r.Intn(len(o.Assets))].Qty += 1
		}
	case 2:
		if len(o.Assets) > 0 {
			o.Assets = o.Assets[1:]
		}
	case 3:
		o.Assets = append(o.Assets, asset{2, 2, 7})
	case 4:
		o.Assets = append(o.Assets, asset{1, 0, 0}) // extra zero-quantity entry: still equal
	case 5:
		// give back only some of the asset names of one policy (the policy itself stays)
		byPol := map[int][]int{}
		for i, a := range o.Assets {
			byPol[a.Policy] = append(byPol[a.Policy], i)
		}
		var cands []int
		for _, p := range []int{0, 1, 2} {
			if len(byPol[p]) >= 2 {
				cands = append(cands, byPol[p]...)
			}
		}
		if len(cands) > 0 {
			d := cands[r.Intn(len(cands))]
			o.Assets = append(o.Assets[:d:d], o.Assets[d+1:]...)
		}
	case 6:
		// a second name under a returned policy that the inputs do not hold
		if len(o.Assets) > 0 {
			a := o.Assets[r.Intn(len(o.Assets))]
			o.Assets = append(o.Assets, asset{a.Policy, (a.Name + 1) % 3, 2})
		}
	}
	if len(o.Assets) > 0 || r.Chance(1, 4) {
		o.Shape = 1
	}
	return &o
}

func genCase(c *vh.Ctx) rcase {
	r := c.Rng
	rc := rcase{Era: vh.PickOne(r, c32Eras), PPConway: r.Bool(), RedeemerMap: r.Bool()}
	// redeemer set: none / one purpose alone / a pair / three, over every purpose the era can carry
	tags := tagsOfEra[rc.Era]
	switch r.Intn(6) {
	case 0:
		rc.Tags = []int{}
	case 1, 2, 3:
		rc.Tags = []int{vh.PickOne(r, tags)}
	case 4:
		rc.Tags = []int{vh.PickOne(r, tags), vh.PickOne(r, tags)}
	default:
		rc.Tags = []int{vh.PickOne(r, tags), vh.PickOne(r, tags), vh.PickOne(r, tags)}
	}
	rc.NRedeemers = len(rc.Tags)
	// fee and percentage, often with fee*pct not divisible by 100
	switch r.Intn(4) {
	case 0:
		rc.Fee, rc.Pct = uint64(1+r.Intn(9)), uint64(r.Intn(400))
	case 1:
		rc.Fee, rc.Pct = uint64(150000+r.Intn(1000000)), 150
	case 2:
		rc.Fee, rc.Pct = r.Boundary(), uint64(r.Intn(1000))
	default:
		rc.Fee, rc.Pct = uint64(r.Intn(100000)), uint64(1+r.Intn(300))
	}
	need := new(big.Int).Mul(new(big.Int).SetUint64(rc.Fee), new(big.Int).SetUint64(rc.Pct))
	ceil := new(big.Int).Add(need, big.NewInt(99))
	ceil.Div(ceil, big.NewInt(100))
	floor := new(big.Int).Div(need, big.NewInt(100))
	// target balance around the threshold
	target := new(big.Int)
	switch r.Intn(6) {
	case 0:
		target.Set(floor)
	case 1:
		target.Set(ceil)
	case 2:
		target.Sub(ceil, big.NewInt(1))
	case 3:
		target.Add(ceil, big.NewInt(int64(r.Intn(3))))
	case 4:
		target.Sub(floor, big.NewInt(1))
	default:
		target.SetUint64(r.Boundary() >> 8)
	}
	if target.Sign() < 0 {
		target.SetInt64(0)
	}
	if !target.IsUint64() || target.Uint64() > 1<<62 {
		target.SetUint64(1 << 62)
	}
	bal := target.Uint64()
	n := []int{1, 1, 2, 3, 0, 4}[r.Intn(6)]
	rc.MaxColl = uint64([]int{3, 3, 1, 0, 2, 5}[r.Intn(6)])
	retCoin := uint64(0)
	wantRet := rc.Era != "alonzo" && r.Chance(1, 2)
	if wantRet {
		retCoin = uint64(r.Intn(5)) * uint64(r.Intn(1000000))
		if r.Chance(1, 4) {
			retCoin = 0
		}
	}
	total := bal + retCoin
	tokenChance := []int{0, 0, 40, 80}[r.Intn(4)]
	for i := 0; i < n; i++ {
		coin := total / uint64(n)
		if i == n-1 {
			coin = total - coin*uint64(n-1)
		}
		in := genOut(r, coin, tokenChance)
		in.Missing = r.Chance(1, 40)
		rc.Inputs = append(rc.Inputs, in)
	}
	if wantRet {
		rc.Return = returnFor(r, rc.Inputs, retCoin, []int{0, 0, 0, 1, 2, 3, 4, 5, 5, 6}[r.Intn(10)])
		if r.Chance(1, 12) {
			// more is returned than the inputs hold: negative balance
			rc.Return.Coin = total + uint64(1+r.Intn(1000))
		}
	}
	return rc
}

func run(c *vh.Ctx) error {
	c.Res.Rule = "Alonzo..Dijkstra transactions built as CBOR (redeemer sets over every purpose the era can carry - the RedeemerTag constants are enumerated from the source by go/ast and probed per era - each purpose alone, in pairs, triples and none, crossed with no / insufficient / exactly enough collateral and un-returned tokens; redeemers in array and map form, collateral inputs, collateral return in array and map output form) decoded by the era decoders; collateral UTxOs decoded by the era output decoders and served by a mock ledger state; fee x percentage mostly not divisible by 100; balance at floor/ceil of the share and one either side; tokens: none / empty map / empty policy / zero quantity / 1-3 assets; return exact or perturbed (quantity+1, asset dropped, one of several names of a policy dropped, asset added, second name added under a returned policy, zero entry added), sometimes larger than the inputs (negative balance); the rest of the transaction varied independently (inputs / reference inputs in {0,1,2,7,8,9,16,40}, outputs, certificates); every clause observed twice: its rule function called directly, and the whole era rule list through common.VerifyTransaction with the same ledger state (other rules executed, verdicts discarded); distinct by the whole generator record; non-trivial = has redeemers and at least one collateral input"
	c.Res.Modelled = []string{
		"'runs scripts' is taken as 'has at least one redeemer', as the code does",
		"MultiAsset.Compare is modelled as equality of all per-asset quantities (absent = 0)",
		"each clause is observed by calling the entries of the era's real rule list that implement it, directly and through VerifyTransaction over the whole list (verdicts of the other rules discarded)",
	}
	all, err := enumerateRedeemerTags()
	if err != nil {
		return err
	}
	for _, era := range c32Eras {
		tagsOfEra[era] = eraTags(era, all)
		if len(tagsOfEra[era]) == 0 {
			return fmt.Errorf("no redeemer purpose decodes in era %s", era)
		}
		c.Res.Notes = append(c.Res.Notes, fmt.Sprintf("redeemer purposes (of %v enumerated from ledger/common) that a %s transaction can carry: %v", all, era, tagsOfEra[era]))
	}
	cf := c.NewCaseFile("c32", header)
	cf.SetShardSize(300)
	if c.Replay != "" {
		b, err := os.ReadFile(c.Replay)
		if err != nil {
			return err
		}
		var rp struct {
			Replay rcase `json:"replay"`
		}
		if err := json.Unmarshal(b, &rp); err != nil {
			return err
		}
		runCase(c, cf, rp.Replay)
		cf.Flush()
		return nil
	}
	// regression corpus
	for _, era := range c32Eras {
		one := func(coin uint64) []outSpec { return []outSpec{{Coin: coin}} }
		runCase(c, cf, rcase{Era: era, NRedeemers: 1, Inputs: one(1), Fee: 1, Pct: 150, MaxColl: 3})
		runCase(c, cf, rcase{Era: era, NRedeemers: 1, Inputs: one(4), Fee: 3, Pct: 150, MaxColl: 3})
		runCase(c, cf, rcase{Era: era, NRedeemers: 1, Inputs: one(2), Fee: 1, Pct: 150, MaxColl: 3})
		runCase(c, cf, rcase{Era: era, NRedeemers: 1, Inputs: one(5000000), Fee: 1000000, Pct: 150, MaxColl: 3, Return: &outSpec{Coin: 4900000}})
		runCase(c, cf, rcase{Era: era, NRedeemers: 1, Inputs: []outSpec{{Coin: 9}, {Coin: 9}}, Fee: 1, Pct: 100, MaxColl: 1})
		runCase(c, cf, rcase{Era: era, NRedeemers: 1, Inputs: one(1000000), Fee: 10, Pct: 150, MaxColl: 3, Return: &outSpec{Coin: 2000000}})
		runCase(c, cf, rcase{Era: era, NRedeemers: 1, Fee: 0, Pct: 150, MaxColl: 3})
		runCase(c, cf, rcase{Era: era, NRedeemers: 0, Fee: 10, Pct: 150, MaxColl: 3})
		runCase(c, cf, rcase{Era: era, NRedeemers: 1, Inputs: []outSpec{{Coin: 100, Shape: 1, Assets: []asset{{0, 1, 5}}}}, Fee: 10, Pct: 150, MaxColl: 3})
		runCase(c, cf, rcase{Era: era, NRedeemers: 1, Inputs: []outSpec{{Coin: 100, Shape: 1, Assets: []asset{{0, 1, 5}}}}, Fee: 10, Pct: 150, MaxColl: 3,
			Return: &outSpec{Coin: 50, Shape: 1, Assets: []asset{{0, 1, 5}}}})
		// two names under one policy, only one of them returned / a different second name returned
		two := []outSpec{{Coin: 100, Shape: 1, Assets: []asset{{0, 1, 5}, {0, 2, 3}, {1, 0, 2}}}}
		runCase(c, cf, rcase{Era: era, NRedeemers: 1, Inputs: two, Fee: 10, Pct: 150, MaxColl: 3,
			Return: &outSpec{Coin: 50, Shape: 1, Assets: []asset{{0, 1, 5}, {1, 0, 2}}}})
		runCase(c, cf, rcase{Era: era, NRedeemers: 1, Inputs: two, Fee: 10, Pct: 150, MaxColl: 3,
			Return: &outSpec{Coin: 50, Shape: 1, Assets: []asset{{0, 1, 5}, {0, 2, 3}, {1, 0, 2}}}})
		runCase(c, cf, rcase{Era: era, NRedeemers: 1, Inputs: two, Fee: 10, Pct: 150, MaxColl: 3,
			Return: &outSpec{Coin: 50, Shape: 1, Assets: []asset{{0, 1, 5}, {0, 0, 3}, {1, 0, 2}}}})
	}
	// every purpose the era can carry: alone, in pairs, and none, crossed with the
	// collateral situations none / insufficient / exactly enough / tokens not returned
	for _, era := range c32Eras {
		tags := tagsOfEra[era]
		sets := [][]int{{}}
		for _, t := range tags {
			sets = append(sets, []int{t})
		}
		for i, a := range tags {
			for _, b := range tags[i:] {
				if c.Thorough() || a == b || b == tags[len(tags)-1] || c.Rng.Chance(1, 3) {
					sets = append(sets, []int{a, b})
				}
			}
		}
		for _, set := range sets {
			set := set
			tok := []outSpec{{Coin: 100, Shape: 1, Assets: []asset{{0, 1, 5}}}}
			for _, base := range []rcase{
				{Fee: 10, Pct: 150, MaxColl: 3},                                          // no collateral inputs
				{Inputs: []outSpec{{Coin: 14}}, Fee: 10, Pct: 150, MaxColl: 3},           // 1400 < 1500
				{Inputs: []outSpec{{Coin: 15}}, Fee: 10, Pct: 150, MaxColl: 3},           // exactly enough
				{Inputs: tok, Fee: 10, Pct: 150, MaxColl: 3},                             // tokens, no return
				{Inputs: tok, Fee: 10, Pct: 150, MaxColl: 3, Return: &outSpec{Coin: 50}}, // tokens not returned
			} {
				base.Era, base.Tags, base.RedeemerMap = era, set, c.Rng.Bool()
				runCase(c, cf, base)
			}
		}
	}
	n := c.Pick(900, 20000)
	for i := 0; i < n; i++ {
		rc := genCase(c)
		sh := genShape(c.Rng)
		sh.Coll = 0 // collateral inputs are property-relevant here (rc.Inputs)
		rc.Shape = &sh
		runCase(c, cf, rc)
	}
	cf.Flush()
	return nil
}

func gen(out string) error {
	s, err := eraRuleTable()
	if err != nil {
		return err
	}
	if out == "" {
		fmt.Print(s)
		return nil
	}
	return vh.WriteIfChanged(out, s)
}

var _ = cbor.Decode

func main() { vh.Main(vh.Runner{Property: "C32", Gen: gen, Run: run}) }
