// Fallback of the translator: when the source form of ValidateHeader is not
// one the reader understands, the check table is derived from OBSERVED
// behaviour.  Three probe inputs on a real TPraos header: one that violates
// every check except leadership (whose run depends on check 4), one that
// violates only leadership, and the genuine one.  The order of the error list
// gives the order of the checks; a check that cannot be made to fail, or a
// Valid flag that stays true, makes the probe fail (and the gen step with it).
package main

import (
	"fmt"
	"math/big"

	"github.com/blinklabs-io/gouroboros/consensus"

	"verifharness/vh"
)

var checkNames = map[uint64]string{1: "validateSlotOrdering", 2: "validateBlockNumber", 3: "validatePrevHash", 4: "validateVRFProof",
	5: "validateLeadership", 6: "validateNonceVRFProof", 7: "validateKESPeriod", 8: "validateKESSignature",
	9: "validateOpCertSignature", 10: "validateVRFKeyRegistration"}

func probeChecks() ([]goCheck, error) {
	r := vh.NewRng(40)
	for attempt := 0; attempt < 20; attempt++ {
		sc := &scenario{layout: "tpraos", kind: "probe", mode: consensus.ConsensusModeTPraos, pool: newPool(r), spk: 100, maxev: 62, c: 3, t: 2,
			slot: 555, seq: 1, f: big.NewRat(1, 20), poolStake: 1 << 40, totalStake: 1 << 40, prev: r.Bytes(32), blockNo: 7, pmaj: 6,
			segs: genSegs(r, 6), nHashed: 4}
		ks, err := newKesSigner(sc.pool.kesSeed, sc.t)
		if err != nil {
			return nil, err
		}
		oc := sc.opCert(ks.pk, sc.seq, sc.c)
		var hdr *consensus.Header
		for try := 0; try < 2000 && hdr == nil; try++ {
			sc.nonce = r.Bytes(32)
			if h, e := sc.build(ks, oc, sc.pool.coldPub, sc.input(sc.slot, sc.nonce, sc.poolStake), sc.mode); e == nil {
				hdr = h
			}
		}
		if hdr == nil {
			continue
		}
		lo, hi := uint64(0), sc.poolStake
		for hi-lo > 1 {
			mid := lo + (hi-lo)/2
			if el, _ := consensus.IsSlotLeaderFromComponentsWithMode(hdr.Body.VrfOutput, mid, sc.totalStake, sc.f, sc.mode); el {
				hi = mid
			} else {
				lo = mid
			}
		}
		if lo == 0 {
			continue
		}
		f := fieldsOf(hdr)
		body := wire{tpraos: true, f: f}.bodyBytes()
		mk := func() *consensus.ValidateHeaderInput {
			return &consensus.ValidateHeaderInput{Slot: f.Slot, BlockNumber: f.BlockNo, PrevHash: f.Prev, IssuerVkey: f.Issuer, VrfKey: f.VrfKey,
				VrfProof: f.Proof, VrfOutput: f.Out, KesSignature: hdr.Signature, HeaderBodyCbor: body, NonceVrfProof: f.NonceProof, NonceVrfOutput: f.NonceOut,
				OpCertHotVkey: f.Hot, OpCertSequenceNumber: uint32(f.Seq), OpCertKesPeriod: uint32(f.KPer), OpCertSignature: f.CSig,
				PrevSlot: f.Slot - 1, PrevBlockNumber: f.BlockNo - 1, PrevHeaderHash: f.Prev, EpochNonce: sc.nonce, PoolStake: sc.poolStake, TotalStake: sc.totalStake}
		}
		x := vctx{spk: sc.spk, maxev: sc.maxev, mode: sc.mode, f: sc.f}
		run := func(in *consensus.ValidateHeaderInput, xx vctx) ([]uint64, bool) {
			res := newValidator(xx).ValidateHeader(in)
			return classifyVH(res.Errors), res.Valid
		}
		if ids, valid := run(mk(), x); len(ids) != 0 || !valid {
			return nil, fmt.Errorf("probe: the genuine header fails %v", ids)
		}
		// everything wrong at once (leadership cannot run: check 4 fails)
		all := mk()
		all.PrevSlot, all.PrevBlockNumber, all.PrevHeaderHash = f.Slot, f.BlockNo, flip(f.Prev, 3)
		all.EpochNonce = flip(sc.nonce, 5)
		all.KesSignature, all.OpCertSignature = flip(hdr.Signature, 9), flip(f.CSig, 11)
		all.RegisteredVrfKeyHash = flip(h256(f.VrfKey), 13)
		xe := x
		xe.maxev = sc.t
		idsAll, validAll := run(all, xe)
		low := mk()
		low.PoolStake = lo
		idsLow, validLow := run(low, x)
		if validAll || validLow || fmt.Sprint(idsLow) != "[5]" {
			return nil, fmt.Errorf("probe: unexpected verdicts all=%v/%v low=%v/%v", idsAll, validAll, idsLow, validLow)
		}
		var out []goCheck
		seen := map[uint64]bool{}
		for _, id := range idsAll {
			if checkNames[id] == "" || seen[id] {
				return nil, fmt.Errorf("probe: unreadable error list %v", idsAll)
			}
			seen[id] = true
			out = append(out, goCheck{checkNames[id], "", true})
			if id == 4 { // leadership runs after check 4 and only when it produced an output
				out = append(out, goCheck{checkNames[5], "out(validateVRFProof) != nil", true})
			}
		}
		if len(out) != 10 {
			return nil, fmt.Errorf("probe: only %v fail at once", idsAll)
		}
		return out, nil
	}
	return nil, fmt.Errorf("probe: no usable header found")
}
