// C40 - produced headers validate, and tampered ones do not.
//
// Real keys on the Go side: random cold (Ed25519), VRF and KES (depth 6)
// keys, slots, KES periods incl. the window edges, stakes at the leadership
// threshold, bodies, both header layouts.  Headers are built with the
// repository's BlockBuilder, serialised by this harness's own CBOR encoder
// (vh.Item), decoded with the repository's ledger decoder and validated with
// consensus.HeaderValidator.ValidateHeader, ledger.VerifyBlock and
// ledger.ValidateOpCert.  Then single-field mutations.  Component results
// (Blake2b, VRF verify, KES verify, Ed25519 verify, threshold) enter the Coq
// model as oracle tables computed here from the spec-side inputs.
package main

import (
	"bytes"
	"crypto/ed25519"
	"encoding/binary"
	"encoding/json"
	"errors"
	"fmt"
	"math"
	"math/big"
	"os"
	"sort"
	"strings"

	"github.com/blinklabs-io/gouroboros/consensus"
	"github.com/blinklabs-io/gouroboros/kes"
	"github.com/blinklabs-io/gouroboros/ledger"
	"github.com/blinklabs-io/gouroboros/ledger/allegra"
	"github.com/blinklabs-io/gouroboros/ledger/alonzo"
	"github.com/blinklabs-io/gouroboros/ledger/babbage"
	"github.com/blinklabs-io/gouroboros/ledger/common"
	"github.com/blinklabs-io/gouroboros/ledger/conway"
	"github.com/blinklabs-io/gouroboros/ledger/mary"
	"github.com/blinklabs-io/gouroboros/ledger/shelley"
	"github.com/blinklabs-io/gouroboros/vrf"
	"golang.org/x/crypto/blake2b"

	"verifharness/vh"
)

const coqHeader = `From Coq Require Import String.
From V Require Import Lib.Base Lib.Hex C40.Model.
Local Open Scope N_scope.`

func h256(b []byte) []byte { h := blake2b.Sum256(b); return h[:] }
func be64(n uint64) []byte { var b [8]byte; binary.BigEndian.PutUint64(b[:], n); return b[:] }
func xor32(a, b []byte) []byte {
	n := min(len(a), len(b))
	r := make([]byte, n)
	for i := range r {
		r[i] = a[i] ^ b[i]
	}
	return r
}
func cat(bs ...[]byte) []byte {
	var r []byte
	for _, b := range bs {
		r = append(r, b...)
	}
	return r
}
func flip(b []byte, bit int) []byte {
	r := bytes.Clone(b)
	if len(r) > 0 {
		bit %= len(r) * 8
		r[bit/8] ^= 1 << (bit % 8)
	}
	return r
}

// ---------------------------------------------------------------------------
// keys

type kesSigner struct {
	seed   []byte
	sk     *kes.SecretKey
	pk     []byte
	period uint64
}

func (s *kesSigner) Sign(m []byte) ([]byte, error) { return kes.Sign(s.sk, s.period, m) }
func (s *kesSigner) PublicKey() []byte              { return s.pk }
func (s *kesSigner) Period() uint64                 { return s.period }

func newKesSigner(seed []byte, t uint64) (*kesSigner, error) {
	sk, pk, err := kes.KeyGen(kes.CardanoKesDepth, seed)
	if err != nil {
		return nil, err
	}
	for i := uint64(0); i < t; i++ {
		sk, err = kes.Update(sk)
		if err != nil {
			return nil, err
		}
	}
	return &kesSigner{seed: seed, sk: sk, pk: pk, period: t}, nil
}

type poolKeys struct {
	coldSeed []byte
	coldPriv ed25519.PrivateKey
	coldPub  []byte
	vrfSeed  []byte
	vrf      *consensus.SimpleVRFSigner
	kesSeed  []byte
}

func newPool(r *vh.Rng) *poolKeys {
	p := &poolKeys{coldSeed: r.Bytes(32), vrfSeed: r.Bytes(32), kesSeed: r.Bytes(32)}
	p.coldPriv = ed25519.NewKeyFromSeed(p.coldSeed)
	p.coldPub = []byte(p.coldPriv.Public().(ed25519.PublicKey))
	s, err := consensus.NewSimpleVRFSigner(p.vrfSeed)
	if err != nil {
		panic(err)
	}
	p.vrf = s
	return p
}

// ---------------------------------------------------------------------------
// the header on the wire (this harness's own serialisation)

type fields struct {
	BlockNo, Slot              uint64
	Prev, Issuer, VrfKey       []byte
	NonceOut, NonceProof       []byte
	Out, Proof                 []byte
	BSize                      uint64
	BHash, Hot                 []byte
	Seq, KPer                  uint64
	CSig                       []byte
	PMaj, PMin                 uint64
}

func (f fields) clone() fields {
	g := f
	for _, p := range []*[]byte{&g.Prev, &g.Issuer, &g.VrfKey, &g.NonceOut, &g.NonceProof, &g.Out, &g.Proof, &g.BHash, &g.Hot, &g.CSig} {
		*p = bytes.Clone(*p)
	}
	return g
}

func fieldsOf(h *consensus.Header) fields {
	b := h.Body
	return fields{b.BlockNumber, b.Slot, b.PrevHash, b.IssuerVkey, b.VrfKey, b.NonceVrfOutput, b.NonceVrfProof,
		b.VrfOutput, b.VrfProof, b.BlockBodySize, b.BlockBodyHash, b.OpCertHotVkey, uint64(b.OpCertSequenceNumber),
		uint64(b.OpCertKesPeriod), b.OpCertSignature, b.ProtoMajor, b.ProtoMinor}
}

// bodyItem is written from the CDDL (header_body), not from block.go.
func bodyItem(tpraos bool, f fields) *vh.Item {
	if tpraos {
		return vh.A(vh.U(f.BlockNo), vh.U(f.Slot), vh.B(f.Prev), vh.B(f.Issuer), vh.B(f.VrfKey),
			vh.A(vh.B(f.NonceOut), vh.B(f.NonceProof)), vh.A(vh.B(f.Out), vh.B(f.Proof)),
			vh.U(f.BSize), vh.B(f.BHash), vh.B(f.Hot), vh.U(f.Seq), vh.U(f.KPer), vh.B(f.CSig), vh.U(f.PMaj), vh.U(f.PMin))
	}
	return vh.A(vh.U(f.BlockNo), vh.U(f.Slot), vh.B(f.Prev), vh.B(f.Issuer), vh.B(f.VrfKey),
		vh.A(vh.B(f.Out), vh.B(f.Proof)), vh.U(f.BSize), vh.B(f.BHash),
		vh.A(vh.B(f.Hot), vh.U(f.Seq), vh.U(f.KPer), vh.B(f.CSig)), vh.A(vh.U(f.PMaj), vh.U(f.PMin)))
}

type wire struct {
	tpraos  bool
	f       fields
	sig     []byte
	segs    []*vh.Item // block elements after the header
	wideInt bool       // encode the body size with an 8-byte argument (non-minimal)
}

func (w wire) bodyBytes() []byte {
	it := bodyItem(w.tpraos, w.f)
	if w.wideInt { // the body size always fits 4 bytes
		if w.tpraos {
			it.Xs[7].F = vh.F8
		} else {
			it.Xs[6].F = vh.F8
		}
	}
	return it.Enc()
}
func (w wire) headerBytes() []byte {
	return cat([]byte{0x82}, w.bodyBytes(), vh.B(w.sig).Enc())
}
func (w wire) blockBytes() []byte {
	hd := []byte{0x80 + byte(1+len(w.segs))}
	r := cat(hd, w.headerBytes())
	for _, s := range w.segs {
		r = append(r, s.Enc()...)
	}
	return r
}
func bodySize(segs []*vh.Item) uint64 {
	n := 0
	for _, s := range segs {
		n += len(s.Enc())
	}
	return uint64(n)
}
func segHash(segs []*vh.Item, n int) []byte {
	var hs []byte
	for i := 0; i < n && i < len(segs); i++ {
		hs = append(hs, h256(segs[i].Enc())...)
	}
	return h256(hs)
}

// ---------------------------------------------------------------------------
// validation context

type vctx struct {
	nonce                 []byte
	pool, total           uint64
	spk, maxev            uint64
	mode                  consensus.ConsensusMode
	prevSlot, prevBlockNo uint64
	prevHH, reg           []byte
	f                     *big.Rat
}

// ---------------------------------------------------------------------------
// Coq output with interned byte strings and oracle tables

type coqFile struct {
	blobs    map[string]string
	blobDefs []string
	big      [][]byte
	tHash, tVrfPk, tVrfProve, tVrfVh, tKesVk, tKesSig, tKesVerify, tEdVerify, tThr map[string]string
	cases    []string
	replays  []any
}

func newCoqFile() *coqFile {
	return &coqFile{blobs: map[string]string{}, tHash: map[string]string{}, tVrfPk: map[string]string{}, tVrfProve: map[string]string{},
		tVrfVh: map[string]string{}, tKesVk: map[string]string{}, tKesSig: map[string]string{}, tKesVerify: map[string]string{},
		tEdVerify: map[string]string{}, tThr: map[string]string{}}
}

func (c *coqFile) bl(b []byte) string {
	if len(b) == 0 {
		return "[]"
	}
	k := string(b)
	if n, ok := c.blobs[k]; ok {
		return n
	}
	n := fmt.Sprintf("b%d", len(c.blobs))
	c.blobs[k] = n
	// long strings that differ from an earlier one only in the middle are written as a patch
	// of it (hex literals are what makes coqc slow); the model still sees the real bytes
	def := vh.Bytes(b)
	if len(b) >= 128 {
		best, bp, bs := -1, 0, 0
		for i, o := range c.big {
			p := 0
			for p < len(o) && p < len(b) && o[p] == b[p] {
				p++
			}
			q := 0
			for q < len(o)-p && q < len(b)-p && o[len(o)-1-q] == b[len(b)-1-q] {
				q++
			}
			if p+q > bp+bs {
				best, bp, bs = i, p, q
			}
		}
		if best >= 0 && bp+bs >= len(b)/2 {
			o := c.big[best]
			def = fmt.Sprintf("(firstn %d %s ++ %s ++ skipn %d %s)", bp, c.blobs[string(o)], vh.Bytes(b[bp:len(b)-bs]), len(o)-bs, c.blobs[string(o)])
		}
		c.big = append(c.big, bytes.Clone(b))
	}
	c.blobDefs = append(c.blobDefs, fmt.Sprintf("Definition %s : bytes := Eval vm_compute in %s.", n, def))
	return n
}

func tup(xs ...string) string { return "(" + strings.Join(xs, ", ") + ")" }

func tableList(m map[string]string) string {
	ks := make([]string, 0, len(m))
	for k := range m {
		ks = append(ks, k)
	}
	sort.Strings(ks)
	es := make([]string, len(ks))
	for i, k := range ks {
		es[i] = m[k]
	}
	return "[" + strings.Join(es, ";\n    ") + "]"
}

func (c *coqFile) header() string {
	var sb strings.Builder
	sb.WriteString(coqHeader + "\n")
	for _, d := range c.blobDefs {
		sb.WriteString(d + "\n")
	}
	fmt.Fprintf(&sb, "Definition T : tables := {|\n  t_hash := %s;\n  t_vrf_pk := %s;\n  t_vrf_prove := %s;\n  t_vrf_vh := %s;\n  t_kes_vk := %s;\n  t_kes_sig := %s;\n  t_kes_verify := %s;\n  t_ed_verify := %s;\n  t_thr := %s |}.\n",
		tableList(c.tHash), tableList(c.tVrfPk), tableList(c.tVrfProve), tableList(c.tVrfVh), tableList(c.tKesVk),
		tableList(c.tKesSig), tableList(c.tKesVerify), tableList(c.tEdVerify), tableList(c.tThr))
	return sb.String()
}

// oracle recording (all computed by the harness from its own inputs) --------

func (c *coqFile) hash(pre []byte) []byte {
	d := h256(pre)
	c.tHash[string(pre)] = tup(c.bl(pre), c.bl(d))
	return d
}

func modeN(m consensus.ConsensusMode) uint64 {
	switch m {
	case consensus.ConsensusModeCPraos:
		return 0
	case consensus.ConsensusModeTPraos:
		return 1
	}
	return 2
}
func modeCoq(m consensus.ConsensusMode) string {
	return []string{"Praos", "TPraos", "BadMode"}[modeN(m)]
}

func (c *coqFile) thr(pool, total uint64, f *big.Rat) {
	for _, m := range []consensus.ConsensusMode{consensus.ConsensusModeCPraos, consensus.ConsensusModeTPraos} {
		k := fmt.Sprintf("%d/%d/%d", pool, total, m)
		if _, ok := c.tThr[k]; ok {
			continue
		}
		t, err := consensus.CertifiedNatThresholdWithMode(pool, total, f, m)
		v := "TErr"
		if err == nil && t != nil {
			v = "(TOk " + vh.BigN(t) + ")"
		}
		c.tThr[k] = tup(tup(vh.N(pool), vh.N(total), vh.N(modeN(m))), v)
	}
}

// vrfInputs returns the Praos input and the two TPraos inputs for (slot, nonce).
func (c *coqFile) vrfInputs(slot uint64, nonce []byte) (praos, tl, teta []byte) {
	praos = c.hash(cat(be64(slot), nonce))
	sl, se := c.hash(be64(1)), c.hash(be64(0))
	return praos, xor32(praos, sl), xor32(praos, se)
}

func (c *coqFile) vrfVerify(key, proof, alpha []byte) {
	if len(key) != 32 || len(proof) != 80 {
		return
	}
	k := string(cat(key, proof, alpha))
	if _, ok := c.tVrfVh[k]; ok {
		return
	}
	var out []byte
	var err error
	vh.Recover(func() { out, err = vrf.VerifyAndHash(key, proof, alpha) })
	if err == nil && out != nil {
		c.tVrfVh[k] = tup(tup(c.bl(key), c.bl(proof), c.bl(alpha)), c.bl(out))
	}
}

func (c *coqFile) kesVerify(hot []byte, t uint64, body, sig []byte) {
	k := fmt.Sprintf("%x/%d/%x/%x", hot, t, h256(body), h256(sig))
	if _, ok := c.tKesVerify[k]; ok {
		return
	}
	ok := false
	vh.Recover(func() { ok = kes.VerifySignedKES(hot, t, body, sig) })
	c.tKesVerify[k] = tup(tup(c.bl(hot), vh.N(t), c.bl(body), c.bl(sig)), vh.Bool(ok))
}

func (c *coqFile) edVerify(pk, msg, sig []byte) {
	if len(pk) != 32 {
		return
	}
	k := string(cat(pk, msg, sig))
	if _, ok := c.tEdVerify[k]; ok {
		return
	}
	c.tEdVerify[k] = tup(tup(c.bl(pk), c.bl(msg), c.bl(sig)), vh.Bool(ed25519.Verify(pk, msg, sig)))
}

// recordValidate records every oracle entry the validators of (f, x) may ask for.
func (c *coqFile) recordValidate(f fields, body, sig []byte, x vctx, segs [][]byte) {
	praos, tl, teta := c.vrfInputs(f.Slot, x.nonce)
	c.vrfVerify(f.VrfKey, f.Proof, praos)
	c.vrfVerify(f.VrfKey, f.Proof, tl)
	c.vrfVerify(f.VrfKey, f.NonceProof, teta)
	c.hash(cat([]byte{0x4c}, f.Out))
	c.hash(f.VrfKey)
	c.thr(x.pool, x.total, x.f)
	if x.spk != 0 && f.Slot/x.spk >= f.KPer {
		c.kesVerify(f.Hot, f.Slot/x.spk-f.KPer, body, sig)
	}
	c.edVerify(f.Issuer, cat(f.Hot, be64(f.Seq), be64(f.KPer)), f.CSig)
	var hs []byte
	for _, s := range segs {
		hs = append(hs, c.hash(s)...)
	}
	c.hash(hs)
}

func (c *coqFile) add(term string, replay any) {
	c.cases = append(c.cases, term)
	c.replays = append(c.replays, replay)
}

func (c *coqFile) hbCoq(f fields) string {
	return fmt.Sprintf("{| hb_blockno := %s; hb_slot := %s; hb_prev := %s; hb_issuer := %s; hb_vrfkey := %s; hb_nonce_out := %s; hb_nonce_proof := %s; hb_out := %s; hb_proof := %s; hb_bsize := %s; hb_bhash := %s; hb_hot := %s; hb_seq := %s; hb_kper := %s; hb_csig := %s; hb_pmaj := %s; hb_pmin := %s |}",
		vh.N(f.BlockNo), vh.N(f.Slot), c.bl(f.Prev), c.bl(f.Issuer), c.bl(f.VrfKey), c.bl(f.NonceOut), c.bl(f.NonceProof), c.bl(f.Out), c.bl(f.Proof),
		vh.N(f.BSize), c.bl(f.BHash), c.bl(f.Hot), vh.N(f.Seq), vh.N(f.KPer), c.bl(f.CSig), vh.N(f.PMaj), vh.N(f.PMin))
}

func (c *coqFile) vinputCoq(f fields, body, sig []byte, x vctx) string {
	return fmt.Sprintf("{| v_slot := %s; v_blockno := %s; v_prev := %s; v_issuer := %s; v_vrfkey := %s; v_proof := %s; v_out := %s; v_sig := %s; v_body := %s; v_nonce_proof := %s; v_nonce_out := %s; v_hot := %s; v_seq := %s; v_kper := %s; v_csig := %s; v_prev_slot := %s; v_prev_blockno := %s; v_prev_hh := %s; v_nonce := %s; v_pool := %s; v_total := %s; v_reg := %s |}",
		vh.N(f.Slot), vh.N(f.BlockNo), c.bl(f.Prev), c.bl(f.Issuer), c.bl(f.VrfKey), c.bl(f.Proof), c.bl(f.Out), c.bl(sig), c.bl(body),
		c.bl(f.NonceProof), c.bl(f.NonceOut), c.bl(f.Hot), vh.N(f.Seq), vh.N(f.KPer), c.bl(f.CSig),
		vh.N(x.prevSlot), vh.N(x.prevBlockNo), c.bl(x.prevHH), c.bl(x.nonce), vh.N(x.pool), vh.N(x.total), c.bl(x.reg))
}

// ---------------------------------------------------------------------------
// running the three validators on a wire block

// classification of ValidateHeader's error strings into check numbers; the
// candidates of a message are tried in the fixed order of the checks.
var vhMessages = []struct {
	sub  string
	cand []int
}{
	{"slot must be greater than previous slot", []int{1}},
	{"block number must be previous + 1", []int{2}},
	{"previous header hash is required", []int{3}},
	{"previous hash does not match", []int{3}},
	{"invalid VRF key size for registration check", []int{10}},
	{"VRF key does not match registered key hash", []int{10}},
	{"epoch nonce must be 32 bytes", []int{4, 6}},
	{"invalid VRF key size", []int{4, 6}},
	{"invalid nonce VRF", []int{6}},
	{"nonce VRF", []int{6}},
	{"invalid VRF proof size", []int{4}},
	{"invalid VRF input parameters", []int{4}},
	{"VRF verification failed", []int{4}},
	{"VRF proof verification returned false", []int{4}},
	{"unknown consensus mode", []int{4, 5, 6}},
	{"total stake cannot be zero", []int{5}},
	{"VRF output does not satisfy leadership threshold", []int{5}},
	{"slotsPerKESPeriod cannot be zero", []int{7, 8}},
	{"operational certificate KES period is in the future", []int{7, 8}},
	{"operational certificate has expired", []int{7}},
	{"header body CBOR is required", []int{8}},
	{"invalid KES signature size", []int{8}},
	{"invalid KES hot vkey size", []int{8}},
	{"KES signature verification failed", []int{8}},
	{"IssuerVkey is required", []int{9}},
	{"invalid issuer vkey size", []int{9}},
	{"invalid OpCert signature size", []int{9}},
	{"OpCert signature verification failed", []int{9}},
}

func classifyVH(errs []error) []uint64 {
	last := 0
	var res []uint64
	for _, e := range errs {
		id := 99
		msg := e.Error()
		for _, m := range vhMessages {
			if strings.Contains(msg, m.sub) {
				for _, cnd := range m.cand {
					if cnd > last {
						id = cnd
						break
					}
				}
				break
			}
		}
		if id != 99 {
			last = id
		}
		res = append(res, uint64(id))
	}
	return res
}

func classifyVB(ok bool, err error) uint64 {
	if err == nil {
		if ok {
			return 0
		}
		return 9
	}
	var ve *common.ValidationError
	if errors.As(err, &ve) {
		switch ve.Type {
		case common.ValidationErrorTypeProtocol:
			return 1
		case common.ValidationErrorTypeConfiguration:
			return 2
		case common.ValidationErrorTypeVRF:
			return 3
		case common.ValidationErrorTypeKES:
			return 4
		case common.ValidationErrorTypeBodyHash:
			return 5
		}
	}
	return 9
}

// classifyKP: (class, t) of ledger.ValidateKesPeriod
func classifyKP(t uint64, err error) (uint64, uint64) {
	if err == nil {
		return 0, t
	}
	var oe *ledger.OpCertError
	if errors.As(err, &oe) && oe.Field == "kes_period" {
		if strings.Contains(oe.Message, "future") {
			return 3, 0
		}
		if strings.Contains(oe.Message, "expired") {
			return 4, 0
		}
		return 9, 0
	}
	if strings.Contains(err.Error(), "slotsPerKesPeriod") {
		return 1, 0
	}
	if strings.Contains(err.Error(), "maxKesEvolutions") {
		return 2, 0
	}
	return 9, 0
}

func classifyOC(err error) uint64 {
	if err == nil {
		return 0
	}
	var oe *ledger.OpCertError
	if errors.As(err, &oe) {
		switch oe.Field {
		case "kes_vkey":
			return 1
		case "cold_vkey":
			return 3
		case "cold_signature":
			if strings.Contains(oe.Message, "verification failed") {
				return 4
			}
			return 2
		}
	}
	return 9
}

type decoded struct {
	f      fields
	body   []byte
	sig    []byte
	tpraos bool
	block  ledger.Block
	hdr    common.BlockHeader
}

func shelleyFields(h *shelley.ShelleyBlockHeader) (fields, []byte, []byte) {
	b := h.Body
	return fields{b.BlockNumber, b.Slot, b.PrevHash.Bytes(), b.IssuerVkey[:], b.VrfKey, b.NonceVrf.Output, b.NonceVrf.Proof,
		b.LeaderVrf.Output, b.LeaderVrf.Proof, b.BlockBodySize, b.BlockBodyHash.Bytes(), b.OpCertHotVkey,
		uint64(b.OpCertSequenceNumber), uint64(b.OpCertKesPeriod), b.OpCertSignature, b.ProtoMajorVersion, b.ProtoMinorVersion}, b.Cbor(), h.Signature
}
func babbageFields(h *babbage.BabbageBlockHeader) (fields, []byte, []byte) {
	b := h.Body
	return fields{b.BlockNumber, b.Slot, b.PrevHash.Bytes(), b.IssuerVkey[:], b.VrfKey, nil, nil,
		b.VrfResult.Output, b.VrfResult.Proof, b.BlockBodySize, b.BlockBodyHash.Bytes(), b.OpCert.HotVkey,
		uint64(b.OpCert.SequenceNumber), uint64(b.OpCert.KesPeriod), b.OpCert.Signature, b.ProtoVersion.Major, b.ProtoVersion.Minor}, b.Cbor(), h.Signature
}

func decodeBlock(w wire) (*decoded, error) {
	bt, err := ledger.DetermineBlockType(w.headerBytes())
	if err != nil {
		return nil, err
	}
	blk, err := ledger.NewBlockFromCbor(bt, w.blockBytes(), common.VerifyConfig{SkipBodyHashValidation: true})
	if err != nil {
		return nil, err
	}
	d := &decoded{block: blk, hdr: blk.Header()}
	switch h := blk.Header().(type) {
	case *shelley.ShelleyBlockHeader:
		d.f, d.body, d.sig = shelleyFields(h)
		d.tpraos = true
	case *allegra.AllegraBlockHeader:
		d.f, d.body, d.sig = shelleyFields(&h.ShelleyBlockHeader)
		d.tpraos = true
	case *mary.MaryBlockHeader:
		d.f, d.body, d.sig = shelleyFields(&h.ShelleyBlockHeader)
		d.tpraos = true
	case *alonzo.AlonzoBlockHeader:
		d.f, d.body, d.sig = shelleyFields(&h.ShelleyBlockHeader)
		d.tpraos = true
	case *babbage.BabbageBlockHeader:
		d.f, d.body, d.sig = babbageFields(h)
	case *conway.ConwayBlockHeader:
		d.f, d.body, d.sig = babbageFields(&h.BabbageBlockHeader)
	default:
		return nil, fmt.Errorf("unexpected header type %T", h)
	}
	return d, nil
}

type verdicts struct {
	histDiff  string
	decodeErr string
	vhFailed  []uint64
	vhOut     []byte
	vb        uint64
	ocSig     uint64
	ocPer     uint64
	ocT       uint64
}

func (v verdicts) vhOK() bool { return v.decodeErr == "" && len(v.vhFailed) == 0 }
func (v verdicts) vbOK() bool { return v.decodeErr == "" && v.vb == 0 }
func (v verdicts) ocOK() bool { return v.decodeErr == "" && v.ocSig == 0 && v.ocPer == 0 }

func hashedSegs(d *decoded, w wire) [][]byte {
	n := 3
	if w.f.PMaj >= 5 {
		n = 4
	}
	var r [][]byte
	for i := 0; i < n && i < len(w.segs); i++ {
		r = append(r, w.segs[i].Enc())
	}
	return r
}

type rcase struct {
	ScenarioSeed uint64 `json:"scenario_seed"`
	Layout       string `json:"layout"`
	Class        string `json:"class"`
	Kind         string `json:"kind"`
}

// runValidators decodes w with the repository's decoder, runs the three
// validators and records the model cases.
func newValidator(x vctx) *consensus.HeaderValidator {
	return consensus.NewHeaderValidatorWithMode(consensus.NetworkConfig{
		ActiveSlotCoeff: common.GenesisRat{Rat: x.f}, SlotsPerKESPeriod: x.spk, MaxKESEvolutions: x.maxev}, x.mode)
}

// runValidators decodes w and runs the validators.  shared, if not nil, is a
// long-lived HeaderValidator that has already validated other headers: its
// verdict is the one reported (and given to the stateless model); a fresh
// validator runs next to it and any difference is a history dependence.
func runValidators(cf *coqFile, w wire, x vctx, rc rcase, shared *consensus.HeaderValidator) verdicts {
	var v verdicts
	d, err := decodeBlock(w)
	if err != nil {
		v.decodeErr = err.Error()
		return v
	}
	// 1. consensus.HeaderValidator.ValidateHeader on the decoded fields and the ORIGINAL body bytes
	val := newValidator(x)
	in := &consensus.ValidateHeaderInput{
		Slot: d.f.Slot, BlockNumber: d.f.BlockNo, PrevHash: d.f.Prev, IssuerVkey: d.f.Issuer, VrfKey: d.f.VrfKey,
		VrfProof: d.f.Proof, VrfOutput: d.f.Out, KesSignature: d.sig, HeaderBodyCbor: d.body,
		NonceVrfProof: d.f.NonceProof, NonceVrfOutput: d.f.NonceOut,
		OpCertHotVkey: d.f.Hot, OpCertSequenceNumber: uint32(d.f.Seq), OpCertKesPeriod: uint32(d.f.KPer), OpCertSignature: d.f.CSig,
		PrevSlot: x.prevSlot, PrevBlockNumber: x.prevBlockNo, PrevHeaderHash: x.prevHH,
		EpochNonce: x.nonce, PoolStake: x.pool, TotalStake: x.total, RegisteredVrfKeyHash: x.reg,
	}
	var res *consensus.ValidateResult
	if p, pv := vh.Recover(func() { res = val.ValidateHeader(in) }); p {
		v.decodeErr = fmt.Sprintf("ValidateHeader panicked: %v", pv)
		return v
	}
	v.vhFailed = classifyVH(res.Errors)
	if res.Valid != (len(res.Errors) == 0) {
		v.vhFailed = append(v.vhFailed, 98) // Valid flag inconsistent with the error list
	}
	v.vhOut = res.VrfOutput
	if shared != nil {
		var resS *consensus.ValidateResult
		if p, pv := vh.Recover(func() { resS = shared.ValidateHeader(in) }); p {
			v.decodeErr = fmt.Sprintf("ValidateHeader panicked: %v", pv)
			return v
		}
		fs := classifyVH(resS.Errors)
		if resS.Valid != (len(resS.Errors) == 0) {
			fs = append(fs, 98)
		}
		if fmt.Sprint(fs) != fmt.Sprint(v.vhFailed) || !bytes.Equal(resS.VrfOutput, res.VrfOutput) {
			v.histDiff = fmt.Sprintf("a validator that validated other headers before fails checks %v, a fresh validator %v", fs, v.vhFailed)
		}
		v.vhFailed, v.vhOut = fs, resS.VrfOutput
	}
	// 2. ledger.VerifyBlock
	var ok bool
	var verr error
	if p, pv := vh.Recover(func() {
		ok, _, _, _, verr = ledger.VerifyBlock(d.block, vh.Hex(x.nonce), x.spk, common.VerifyConfig{
			SkipTransactionValidation: true, SkipStakePoolValidation: true, SkipBlockLimitsValidation: true})
	}); p {
		verr = fmt.Errorf("panic %v", pv)
	}
	v.vb = classifyVB(ok, verr)
	// 3. ledger.ValidateOpCert
	// (no header type of the repository implements ledger.OpCertExtractor)
	oc := &ledger.OpCert{KesVkey: d.f.Hot, IssueNumber: d.f.Seq, KesPeriod: d.f.KPer, ColdSignature: d.f.CSig}
	t, oerr := ledger.ValidateOpCert(oc, d.f.Issuer, d.f.Slot, x.spk, x.maxev)
	v.ocSig = classifyOC(oerr)
	if v.ocSig == 9 || v.ocSig == 0 {
		v.ocSig = 0
		v.ocPer, v.ocT = classifyKP(t, oerr)
	}

	segs := hashedSegs(d, w)
	cf.recordValidate(d.f, d.body, d.sig, x, segs)
	failed := make([]string, len(v.vhFailed))
	for i, k := range v.vhFailed {
		failed[i] = vh.N(k)
	}
	rc.Kind = "ValidateHeader"
	cf.add(fmt.Sprintf("KValidate {| c_spk := %s; c_maxev := %s; c_mode := %s |} %s %s %s",
		vh.N(x.spk), vh.N(x.maxev), modeCoq(x.mode), cf.vinputCoq(d.f, d.body, d.sig, x), vh.List(failed),
		vh.Opt(cf.bl(v.vhOut), v.vhOut != nil)), rc)
	sl := make([]string, len(segs))
	for i, s := range segs {
		sl[i] = cf.bl(s)
	}
	rc.Kind = "VerifyBlock"
	cf.add(fmt.Sprintf("KVerifyBlock %s %s %s %s %s %s %s %s %s %s %s %s %s %s",
		vh.Bool(d.tpraos), vh.N(d.f.Slot), cf.bl(d.f.VrfKey), cf.bl(d.f.Proof), cf.bl(d.f.Out), cf.bl(x.nonce), cf.bl(d.body), cf.bl(d.sig),
		cf.bl(d.f.Hot), vh.N(d.f.KPer), vh.N(x.spk), cf.bl(d.f.BHash), vh.List(sl), vh.N(v.vb)), rc)
	rc.Kind = "ValidateOpCert"
	cf.add(fmt.Sprintf("KValidateOpCert %s %s %s %s %s %s %s %s %s %s %s",
		cf.bl(d.f.Hot), vh.N(d.f.Seq), vh.N(d.f.KPer), cf.bl(d.f.CSig), cf.bl(d.f.Issuer), vh.N(d.f.Slot), vh.N(x.spk), vh.N(x.maxev),
		vh.N(v.ocSig), vh.N(v.ocPer), vh.N(v.ocT)), rc)
	return v
}

// ---------------------------------------------------------------------------
// scenarios

type scenario struct {
	seed        uint64
	layout      string
	kind        string
	mode        consensus.ConsensusMode
	pool        *poolKeys
	spk, maxev  uint64
	c, t        uint64
	slot        uint64
	seq         uint64
	f           *big.Rat
	poolStake   uint64
	totalStake  uint64
	nonce, prev []byte
	blockNo     uint64
	pmaj, pmin  uint64
	segs        []*vh.Item
	nHashed     int
}

func genSegs(r *vh.Rng, pmaj uint64) []*vh.Item {
	ntx := r.Intn(3)
	var bodies, wits []*vh.Item
	for i := 0; i < ntx; i++ {
		addr := append([]byte{0x61}, r.Bytes(28)...)
		out := vh.A(vh.B(addr), vh.U(1000000+uint64(r.Intn(1000000))))
		body := vh.M(vh.U(0), vh.A(vh.A(vh.B(r.Bytes(32)), vh.U(uint64(r.Intn(4))))), vh.U(1), vh.A(out),
			vh.U(2), vh.U(170000+uint64(r.Intn(5000))), vh.U(3), vh.U(uint64(r.Intn(1<<30))))
		bodies = append(bodies, body)
		wits = append(wits, vh.M())
	}
	aux := vh.M()
	if ntx > 0 && r.Bool() {
		aux = vh.M(vh.U(0), vh.M(vh.U(uint64(r.Intn(100))), vh.T("c40")))
	}
	segs := []*vh.Item{vh.A(bodies...), vh.A(wits...), aux}
	if pmaj >= 5 {
		segs = append(segs, vh.A())
	}
	return segs
}

func (sc *scenario) opCert(kesPk []byte, seq, kper uint64) *consensus.OperationalCert {
	return &consensus.OperationalCert{HotVkey: kesPk, SequenceNumber: uint32(seq), KesPeriod: uint32(kper),
		Signature: ed25519.Sign(sc.pool.coldPriv, cat(kesPk, be64(seq), be64(kper)))}
}

func (sc *scenario) input(slot uint64, nonce []byte, pool uint64) consensus.BuildHeaderInput {
	return consensus.BuildHeaderInput{Slot: slot, BlockNumber: sc.blockNo, PrevHash: sc.prev, EpochNonce: nonce,
		PoolStake: pool, TotalStake: sc.totalStake, BlockBodyHash: segHash(sc.segs, sc.nHashed),
		BlockBodySize: bodySize(sc.segs), ProtoMajor: sc.pmaj, ProtoMinor: sc.pmin}
}

// recordBuild records the oracle entries the builder model needs and the KBuild case.
func recordBuild(cf *coqFile, sc *scenario, ks *kesSigner, oc *consensus.OperationalCert, issuer []byte,
	in consensus.BuildHeaderInput, mode consensus.ConsensusMode, h *consensus.Header, err error, rc rcase) {
	cf.tVrfPk[string(sc.pool.vrfSeed)] = tup(cf.bl(sc.pool.vrfSeed), cf.bl(sc.pool.vrf.PublicKey()))
	cf.tKesVk[string(ks.seed)] = tup(cf.bl(ks.seed), cf.bl(ks.pk))
	cf.thr(in.PoolStake, in.TotalStake, sc.f)
	if len(in.EpochNonce) == 32 {
		praos, tl, teta := cf.vrfInputs(in.Slot, in.EpochNonce)
		for _, a := range [][]byte{praos, tl, teta} {
			k := string(cat(sc.pool.vrfSeed, a))
			if _, ok := cf.tVrfProve[k]; !ok {
				if pi, out, e := sc.pool.vrf.Prove(a); e == nil {
					cf.tVrfProve[k] = tup(tup(cf.bl(sc.pool.vrfSeed), cf.bl(a)), tup(cf.bl(pi), cf.bl(out)))
					cf.hash(cat([]byte{0x4c}, out))
				}
			}
		}
	}
	cls := uint64(0)
	hs := "None"
	switch {
	case err == nil && h != nil:
		cls = 2
		f := fieldsOf(h)
		hs = fmt.Sprintf("(Some {| h_body := %s; h_sig := %s |})", cf.hbCoq(f), cf.bl(h.Signature))
		// the bytes this harness serialises, signed by this harness's own call of kes.Sign
		msg := wire{tpraos: mode == consensus.ConsensusModeTPraos, f: f}.bodyBytes()
		if sg, e := kes.Sign(ks.sk, ks.period, msg); e == nil {
			cf.tKesSig[fmt.Sprintf("%x/%d/%x", ks.seed, ks.period, h256(msg))] = tup(tup(cf.bl(ks.seed), vh.N(ks.period), cf.bl(msg)), cf.bl(sg))
		}
	case errors.Is(err, consensus.ErrNotSlotLeader):
		cls = 1
	}
	rc.Kind = "BuildHeader"
	cf.add(fmt.Sprintf("KBuild {| b_vrf_sk := %s; b_kes_seed := %s; b_kes_period := %s; b_hot := %s; b_seq := %s; b_kper := %s; b_csig := %s; b_issuer := %s; b_mode := %s |} {| i_slot := %s; i_blockno := %s; i_prev := %s; i_nonce := %s; i_pool := %s; i_total := %s; i_bhash := %s; i_bsize := %s; i_pmaj := %s; i_pmin := %s |} %s %s",
		cf.bl(sc.pool.vrfSeed), cf.bl(ks.seed), vh.N(ks.period), cf.bl(oc.HotVkey), vh.N(uint64(oc.SequenceNumber)), vh.N(uint64(oc.KesPeriod)),
		cf.bl(oc.Signature), cf.bl(issuer), modeCoq(mode),
		vh.N(in.Slot), vh.N(in.BlockNumber), cf.bl(in.PrevHash), cf.bl(in.EpochNonce), vh.N(in.PoolStake), vh.N(in.TotalStake),
		cf.bl(in.BlockBodyHash), vh.N(in.BlockBodySize), vh.N(in.ProtoMajor), vh.N(in.ProtoMinor), vh.N(cls), hs), rc)
}

func (sc *scenario) build(ks *kesSigner, oc *consensus.OperationalCert, issuer []byte, in consensus.BuildHeaderInput, mode consensus.ConsensusMode) (*consensus.Header, error) {
	b := consensus.NewBlockBuilderWithMode(sc.pool.vrf, ks, oc, make([]byte, 28), issuer, sc.f, mode)
	var h *consensus.Header
	var err error
	if p, pv := vh.Recover(func() { h, _, err = b.BuildHeader(in) }); p {
		return nil, fmt.Errorf("BuildHeader panicked: %v", pv)
	}
	return h, err
}

type expect struct{ vh, vb, oc bool } // which validators must reject

func genScenario(r *vh.Rng, seed uint64, layout, kind string) *scenario {
	sc := &scenario{seed: seed, layout: layout, kind: kind, pool: newPool(r)}
	if layout == "tpraos" {
		sc.mode = consensus.ConsensusModeTPraos
		sc.pmaj = vh.PickOne(r, []uint64{2, 3, 4, 5, 6})
	} else {
		sc.mode = consensus.ConsensusModeCPraos
		sc.pmaj = vh.PickOne(r, []uint64{7, 8, 9, 10})
	}
	sc.pmin = uint64(r.Intn(3))
	sc.spk = vh.PickOne(r, []uint64{1, 2, 7, 100, 129600, 1 << 33})
	sc.maxev = vh.PickOne(r, []uint64{1, 2, 5, 62, 64})
	sc.c = vh.PickOne(r, []uint64{0, 1, uint64(r.Intn(1000)), 1<<20 + uint64(r.Intn(1000))})
	switch kind {
	case "edge-first":
		sc.t = 0
	case "edge-last":
		sc.t = min(sc.maxev, 64) - 1
	default:
		sc.t = uint64(r.Intn(int(min(sc.maxev, 64))))
	}
	off := uint64(0)
	switch r.Intn(3) {
	case 0:
		off = sc.spk - 1
	case 1:
		off = r.U64() % sc.spk
	}
	sc.slot = (sc.c+sc.t)*sc.spk + off
	if kind == "slot0" {
		sc.c, sc.t, sc.slot = 0, 0, 0
	} else if sc.slot == 0 {
		sc.slot = 1
		if sc.spk == 1 {
			sc.c = 1
			sc.t = 0
		}
	}
	sc.seq = vh.PickOne(r, []uint64{0, 1, uint64(r.Intn(100)), math.MaxUint32})
	sc.f = vh.PickOne(r, []*big.Rat{big.NewRat(1, 20), big.NewRat(1, 2), big.NewRat(99, 100), big.NewRat(1, 1)})
	sc.totalStake = vh.PickOne(r, []uint64{1000, 31_000_000_000_000_000, 1 + r.U64()>>uint(r.Intn(40))})
	sc.poolStake = sc.totalStake
	sc.prev = r.Bytes(32)
	sc.blockNo = vh.PickOne(r, []uint64{1, 2, uint64(r.Intn(1 << 24)), math.MaxUint64})
	sc.segs = genSegs(r, sc.pmaj)
	sc.nHashed = 3
	if sc.pmaj >= 5 {
		sc.nHashed = 4
	}
	return sc
}

func runScenario(c *vh.Ctx, seed uint64, layout, kind string, onlyClass string) {
	r := vh.NewRng(seed)
	sc := genScenario(r, seed, layout, kind)
	cf := newCoqFile()
	rc := rcase{ScenarioSeed: seed, Layout: layout + "/" + kind}
	c.Begin(rc)
	tp := sc.mode == consensus.ConsensusModeTPraos

	ks, err := newKesSigner(sc.pool.kesSeed, sc.t)
	if err != nil {
		c.Res.Violate("monitor", layout+":kes-keygen-failed", err.Error(), rc)
		return
	}
	oc := sc.opCert(ks.pk, sc.seq, sc.c)

	// find an epoch nonce for which the pool leads the slot with its full stake
	var hdr *consensus.Header
	for try := 0; try < 600; try++ {
		sc.nonce = r.Bytes(32)
		h, e := sc.build(ks, oc, sc.pool.coldPub, sc.input(sc.slot, sc.nonce, sc.poolStake), sc.mode)
		if e == nil {
			hdr = h
			break
		}
		if !errors.Is(e, consensus.ErrNotSlotLeader) {
			c.Res.Violate("monitor", layout+":build-error", fmt.Sprintf("BuildHeader failed on well-formed input: %v", e), rc)
			return
		}
		if try == 0 {
			rc.Class = "not-leader"
			recordBuild(cf, sc, ks, oc, sc.pool.coldPub, sc.input(sc.slot, sc.nonce, sc.poolStake), sc.mode, nil, e, rc)
		}
	}
	if hdr == nil {
		c.Res.Notes = append(c.Res.Notes, "no leading nonce found for scenario "+fmt.Sprint(seed))
		return
	}
	// the smallest stake with which the pool still leads (threshold is monotone in the stake)
	lo, hi := uint64(0), sc.poolStake // lo does not lead, hi leads
	for hi-lo > 1 {
		mid := lo + (hi-lo)/2
		el, _ := consensus.IsSlotLeaderFromComponentsWithMode(hdr.Body.VrfOutput, mid, sc.totalStake, sc.f, sc.mode)
		if el {
			hi = mid
		} else {
			lo = mid
		}
	}
	sc.poolStake = hi
	in := sc.input(sc.slot, sc.nonce, sc.poolStake)
	hdr, err = sc.build(ks, oc, sc.pool.coldPub, in, sc.mode)
	rc.Class = "genuine"
	recordBuild(cf, sc, ks, oc, sc.pool.coldPub, in, sc.mode, hdr, err, rc)
	if err != nil {
		c.Res.Violate("monitor", layout+":build-at-threshold-stake-failed", fmt.Sprintf("pool leads with stake %d/%d by IsSlotLeaderFromComponents but BuildHeader says %v", sc.poolStake, sc.totalStake, err), rc)
		return
	}
	if lo > 0 {
		rc.Class = "stake-below"
		h2, e2 := sc.build(ks, oc, sc.pool.coldPub, sc.input(sc.slot, sc.nonce, lo), sc.mode)
		recordBuild(cf, sc, ks, oc, sc.pool.coldPub, sc.input(sc.slot, sc.nonce, lo), sc.mode, h2, e2, rc)
		if e2 == nil {
			c.Res.Violate("monitor", layout+":builder-leads-below-threshold", fmt.Sprintf("stake %d", lo), rc)
		}
	}

	base := wire{tpraos: tp, f: fieldsOf(hdr), sig: hdr.Signature, segs: sc.segs}
	prevSlot := uint64(0)
	if sc.slot > 0 {
		prevSlot = sc.slot - 1 - uint64(r.Intn(int(min(sc.slot, 50))))
		if prevSlot >= sc.slot {
			prevSlot = sc.slot - 1
		}
	}
	x := vctx{nonce: sc.nonce, pool: sc.poolStake, total: sc.totalStake, spk: sc.spk, maxev: sc.maxev, mode: sc.mode,
		prevSlot: prevSlot, prevBlockNo: sc.blockNo - 1, prevHH: sc.prev, f: sc.f}
	if r.Bool() {
		x.reg = h256(sc.pool.vrf.PublicKey())
	}

	nontrivial := 0
	count := func(class string) {
		c.Res.Count(fmt.Sprintf("%d/%s/%s", seed, kind, class), true, layout+":"+class)
		nontrivial++
	}
	// monitor: the builder signed exactly the bytes this harness serialises
	if !kes.VerifySignedKES(base.f.Hot, sc.t, base.bodyBytes(), base.sig) {
		c.Res.Violate("monitor", layout+":builder-signed-other-bytes", "the KES signature of the built header does not verify over the CDDL serialisation of its body at the signer's period", rc)
	}
	// window oracle (big integers, from the property text)
	inWindow := func(kper, slot, spk, maxev uint64) bool {
		if spk == 0 {
			return false
		}
		cur := new(big.Int).SetUint64(slot / spk)
		lo := new(big.Int).SetUint64(kper)
		hi := new(big.Int).Add(lo, new(big.Int).SetUint64(maxev))
		return cur.Cmp(lo) >= 0 && cur.Cmp(hi) < 0
	}

	// one long-lived HeaderValidator per configuration: every class of the scenario is validated
	// by an instance that has validated the genuine header (and the earlier classes) before
	vals := map[string]*consensus.HeaderValidator{}
	valFor := func(xx vctx) *consensus.HeaderValidator {
		k := fmt.Sprintf("%s/%d/%d/%d", xx.f.String(), xx.spk, xx.maxev, xx.mode)
		if vals[k] == nil {
			vals[k] = newValidator(xx)
		}
		return vals[k]
	}
	var checkOn func(val *consensus.HeaderValidator, class string, w wire, xx vctx, genuine bool, ex expect)
	check := func(class string, w wire, xx vctx, genuine bool, ex expect) {
		checkOn(valFor(xx), class, w, xx, genuine, ex)
	}
	checkOn = func(val *consensus.HeaderValidator, class string, w wire, xx vctx, genuine bool, ex expect) {
		if onlyClass != "" && onlyClass != class {
			return
		}
		rc.Class = class
		c.Begin(rc)
		v := runValidators(cf, w, xx, rc, val)
		if v.histDiff != "" {
			c.Res.Violate("monitor", layout+":"+class+"-verdict-depends-on-history", "validation must be a function of (header, context): "+v.histDiff, rc)
		}
		count(class)
		if len(c.Res.Samples) < 6 && (class == "genuine" || class == "hist-opcert-period-rewritten" || class == "body") {
			c.Res.Sample(map[string]any{"layout": layout, "kind": kind, "class": class, "slot": w.f.Slot, "kes_period": w.f.KPer, "spk": xx.spk, "max_ev": xx.maxev,
				"validate_header_failed": v.vhFailed, "verify_block": v.vb, "opcert": []uint64{v.ocSig, v.ocPer}, "decode_error": v.decodeErr})
		}
		what := fmt.Sprintf("ValidateHeader failed=%v VerifyBlock=%d ValidateOpCert=(%d,%d) decode=%q", v.vhFailed, v.vb, v.ocSig, v.ocPer, v.decodeErr)
		if v.decodeErr == "" {
			c.Res.Distribution[fmt.Sprintf("outcome:%s:%s => checks%v vb%d oc%d/%d", layout, class, v.vhFailed, v.vb, v.ocSig, v.ocPer)]++
		}
		if v.decodeErr == "" {
			// the window check of ValidateHeader against the big-integer statement
			win := inWindow(w.f.KPer, w.f.Slot, xx.spk, xx.maxev)
			has7 := false
			for _, k := range v.vhFailed {
				has7 = has7 || k == 7
			}
			if win == has7 {
				c.Res.Violate("monitor", layout+":window-check-wrong", fmt.Sprintf("c=%d slot=%d spk=%d max=%d in-window=%v but check 7 failed=%v", w.f.KPer, w.f.Slot, xx.spk, xx.maxev, win, has7), rc)
			}
		}
		if genuine {
			if !(v.vhOK() && v.vbOK() && v.ocOK()) {
				key := layout + ":genuine-rejected"
				if class != "genuine" {
					key = layout + ":" + class + "-rejected"
				}
				if kind == "slot0" {
					key += "-slot0"
				}
				c.Res.Violate("monitor", key, "a header built for a slot the pool leads, inside its KES window, was rejected: "+what, rc)
			} else if !bytes.Equal(v.vhOut, w.f.Out) {
				c.Res.Violate("monitor", layout+":vrf-output-not-returned", what, rc)
			}
			return
		}
		if v.decodeErr != "" {
			c.Res.Distribution[layout+":rejected-at-decode"]++
			return
		}
		if ex.vh && v.vhOK() {
			c.Res.Violate("monitor", layout+":"+class+"-accepted", "ValidateHeader accepted the tampered header: "+what, rc)
		}
		if ex.vb && v.vbOK() {
			c.Res.Violate("monitor", layout+":"+class+"-accepted-by-verifyblock", "VerifyBlock accepted the tampered block: "+what, rc)
		}
		if ex.oc && v.ocOK() {
			c.Res.Violate("monitor", layout+":"+class+"-accepted-by-validateopcert", "ValidateOpCert accepted: "+what, rc)
		}
	}

	// --- genuine
	check("genuine", base, x, true, expect{})
	{ // the KES signature covers the ORIGINAL bytes: a non-minimal encoding signed as such is genuine
		w := base
		w.wideInt = true
		if sg, e := kes.Sign(ks.sk, ks.period, w.bodyBytes()); e == nil {
			w.sig = sg
			check("noncanonical-signed", w, x, true, expect{})
		}
		w2 := base
		w2.wideInt = true // same fields, other bytes, old signature
		check("reencoded", w2, x, false, expect{vh: true, vb: true})
	}

	// --- every header body field, signature not renewed
	type mut struct {
		name string
		f    func(f *fields)
		oc   bool
	}
	bit := r.Intn(1 << 20)
	muts := []mut{
		{"blockno", func(f *fields) { f.BlockNo++ }, false},
		{"slot", func(f *fields) { f.Slot++ }, false},
		{"prevhash", func(f *fields) { f.Prev = flip(f.Prev, bit) }, false},
		{"issuer", func(f *fields) { f.Issuer = flip(f.Issuer, bit) }, true},
		{"vrfkey", func(f *fields) { f.VrfKey = flip(f.VrfKey, bit) }, false},
		{"vrf-output", func(f *fields) { f.Out = flip(f.Out, bit) }, false},
		{"vrf-proof", func(f *fields) { f.Proof = flip(f.Proof, bit) }, false},
		{"bodysize", func(f *fields) { f.BSize++ }, false},
		{"bodyhash", func(f *fields) { f.BHash = flip(f.BHash, bit) }, false},
		{"opcert-hotkey", func(f *fields) { f.Hot = flip(f.Hot, bit) }, true},
		{"opcert-counter", func(f *fields) { f.Seq = (f.Seq + 1) % (1 << 32) }, true},
		{"opcert-period", func(f *fields) {
			if f.KPer > 0 {
				f.KPer--
			} else {
				f.KPer++
			}
		}, true},
		{"opcert-sig", func(f *fields) { f.CSig = flip(f.CSig, bit) }, true},
		{"protominor", func(f *fields) { f.PMin++ }, false},
	}
	if tp {
		muts = append(muts, mut{"nonce-vrf-output", func(f *fields) { f.NonceOut = flip(f.NonceOut, bit) }, false},
			mut{"nonce-vrf-proof", func(f *fields) { f.NonceProof = flip(f.NonceProof, bit) }, false})
	}
	for _, m := range muts {
		w := base
		w.f = base.f.clone()
		m.f(&w.f)
		check("field-"+m.name, w, x, false, expect{vh: true, vb: true, oc: m.oc})
	}
	{
		w := base
		w.sig = flip(base.sig, bit)
		check("kes-sig", w, x, false, expect{vh: true, vb: true})
	}
	{ // the body
		w := base
		w.segs = append([]*vh.Item{}, base.segs...)
		w.segs[2] = vh.M(vh.U(uint64(7+r.Intn(10))), vh.M(vh.U(1), vh.T("tampered")))
		check("body", w, x, false, expect{vb: true})
	}

	// --- the holder of the hot key re-signs a changed header (KES no longer protects the field)
	resign := func(f fields, signer *kesSigner) (wire, bool) {
		w := base
		w.f = f
		sg, e := kes.Sign(signer.sk, signer.period, w.bodyBytes())
		if e != nil {
			return w, false
		}
		w.sig = sg
		return w, true
	}
	type rmut struct {
		name string
		f    func(f *fields)
		ex   expect
	}
	other := newPool(r)
	rmuts := []rmut{
		{"resign-counter", func(f *fields) { f.Seq = (f.Seq + 1) % (1 << 32) }, expect{vh: true, oc: true}},
		{"resign-opcert-sig", func(f *fields) { f.CSig = flip(f.CSig, bit) }, expect{vh: true, oc: true}},
		{"resign-issuer", func(f *fields) { f.Issuer = other.coldPub }, expect{vh: true, oc: true}},
		{"resign-slot", func(f *fields) {
			if (f.Slot+1)/sc.spk == f.Slot/sc.spk {
				f.Slot++
			} else if f.Slot > 0 && (f.Slot-1)/sc.spk == f.Slot/sc.spk && f.Slot-1 > x.prevSlot {
				f.Slot--
			} else {
				f.Slot++
			}
		}, expect{vh: true, vb: true}},
		{"resign-vrf-output", func(f *fields) { f.Out = flip(f.Out, bit) }, expect{vh: true, vb: true}},
		{"resign-vrf-proof", func(f *fields) { f.Proof = flip(f.Proof, bit) }, expect{vh: true, vb: true}},
		{"resign-vrfkey", func(f *fields) { f.VrfKey = other.vrf.PublicKey() }, expect{vh: true, vb: true}},
		{"resign-blockno", func(f *fields) { f.BlockNo += 2 }, expect{vh: true}},
		{"resign-prevhash", func(f *fields) { f.Prev = flip(f.Prev, bit) }, expect{vh: true}},
		{"resign-bodyhash", func(f *fields) { f.BHash = flip(f.BHash, bit) }, expect{vb: true}},
	}
	if tp {
		rmuts = append(rmuts, rmut{"resign-nonce-vrf-output", func(f *fields) { f.NonceOut = flip(f.NonceOut, bit) }, expect{vh: true}},
			rmut{"resign-nonce-vrf-proof", func(f *fields) { f.NonceProof = flip(f.NonceProof, bit) }, expect{vh: true}})
	}
	for _, m := range rmuts {
		f := base.f.clone()
		m.f(&f)
		signer := ks
		if f.Slot != base.f.Slot && f.Slot/sc.spk != base.f.Slot/sc.spk {
			// the slot moved into the next KES period: sign at that period if the key can
			if s2, e := newKesSigner(sc.pool.kesSeed, f.Slot/sc.spk-f.KPer); e == nil {
				signer = s2
			}
		}
		if w, ok := resign(f, signer); ok {
			check(m.name, w, x, false, m.ex)
		}
	}
	{ // another KES key signs and puts itself into the certificate; the cold signature is the old one
		ks2, e := newKesSigner(other.kesSeed, sc.t)
		if e == nil {
			f := base.f.clone()
			f.Hot = ks2.pk
			if w, ok := resign(f, ks2); ok {
				check("resign-hotkey", w, x, false, expect{vh: true, oc: true})
			}
		}
	}
	{ // certificate start period moved by the hot key holder; signed at the matching evolution
		f := base.f.clone()
		if f.KPer > 0 && sc.t+1 < 64 {
			f.KPer--
			if s2, e := newKesSigner(sc.pool.kesSeed, sc.t+1); e == nil {
				if w, ok := resign(f, s2); ok {
					check("resign-opcert-period", w, x, false, expect{vh: true, oc: true})
				}
			}
		}
	}

	// --- the context the validator is given
	{
		xx := x
		xx.nonce = flip(x.nonce, bit)
		check("ctx-epoch-nonce", base, xx, false, expect{vh: true, vb: true})
	}
	if lo > 0 {
		xx := x
		xx.pool = lo
		check("ctx-stake-below-threshold", base, xx, false, expect{vh: true})
	}
	{
		xx := x
		xx.prevSlot = base.f.Slot
		check("ctx-prev-slot", base, xx, false, expect{vh: true})
		xx = x
		xx.prevBlockNo = x.prevBlockNo + 1
		check("ctx-prev-blockno", base, xx, false, expect{vh: true})
		xx = x
		xx.prevHH = flip(x.prevHH, bit)
		check("ctx-prev-header-hash", base, xx, false, expect{vh: true})
		xx = x
		xx.reg = flip(h256(base.f.VrfKey), bit)
		check("ctx-registered-vrf-key", base, xx, false, expect{vh: true})
		xx = x
		if tp {
			xx.mode = consensus.ConsensusModeCPraos
		} else {
			xx.mode = consensus.ConsensusModeTPraos
		}
		check("ctx-other-mode", base, xx, false, expect{vh: true})
		xx = x
		xx.spk = 0
		check("ctx-spk-zero", base, xx, false, expect{vh: true, vb: true, oc: true})
	}
	// --- the KES window
	{ // the certificate expires exactly at this period: max evolutions = t
		xx := x
		xx.maxev = sc.t
		check("window-expired-at-edge", base, xx, false, expect{vh: true, oc: true})
		// last admissible period: max evolutions = t + 1
		xx.maxev = sc.t + 1
		check("window-last-period", base, xx, true, expect{})
	}
	if sc.t+1 < 64 { // a header built one period after the window closed
		slot2 := (sc.c+sc.t+1)*sc.spk + (sc.slot % sc.spk)
		if s2, e := newKesSigner(sc.pool.kesSeed, sc.t+1); e == nil && slot2 > sc.slot {
			for try := 0; try < 300; try++ {
				n2 := r.Bytes(32)
				h2, e2 := sc.build(s2, oc, sc.pool.coldPub, sc.input(slot2, n2, sc.totalStake), sc.mode)
				if e2 == nil {
					xx := x
					xx.nonce, xx.pool, xx.maxev = n2, sc.totalStake, sc.t+1
					check("window-expired", wire{tpraos: tp, f: fieldsOf(h2), sig: h2.Signature, segs: sc.segs}, xx, false, expect{vh: true, oc: true})
					break
				}
			}
		}
	}
	if sc.c < math.MaxUint32 { // a certificate that starts in the next period
		s0, e := newKesSigner(sc.pool.kesSeed, 0)
		if e == nil {
			oc2 := sc.opCert(s0.pk, sc.seq, sc.c+sc.t+1)
			if sc.slot/sc.spk < sc.c+sc.t+1 {
				h2, e2 := sc.build(s0, oc2, sc.pool.coldPub, sc.input(sc.slot, sc.nonce, sc.totalStake), sc.mode)
				if e2 == nil {
					xx := x
					xx.pool = sc.totalStake
					check("window-future", wire{tpraos: tp, f: fieldsOf(h2), sig: h2.Signature, segs: sc.segs}, xx, false, expect{vh: true, vb: true, oc: true})
				}
			}
		}
	}

	if sc.c >= 64 { // a certificate 64 periods older: the evolution is t+64, beyond the lifetime of a depth-6 key,
		// while a (hypothetical) max-evolutions of 200 keeps the window open; the signature was made at t
		oc2 := sc.opCert(ks.pk, sc.seq, sc.c-64)
		h2, e2 := sc.build(ks, oc2, sc.pool.coldPub, sc.input(sc.slot, sc.nonce, sc.totalStake), sc.mode)
		if e2 == nil {
			xx := x
			xx.pool, xx.maxev = sc.totalStake, 200
			check("window-beyond-key-lifetime", wire{tpraos: tp, f: fieldsOf(h2), sig: h2.Signature, segs: sc.segs}, xx, false, expect{vh: true, vb: true})
		}
	}

	// --- validation HISTORIES on one long-lived validator (the model is evaluated statelessly on every step)
	{
		// certificate start period rewritten, everything else (hot key, counter, cold signature) unchanged,
		// KES signature made by the hot key at the evolution matching the rewritten period; the window is
		// kept open (max evolutions 64) so that only the cold signature stands against it
		rewrite := func(bw wire, kesSeed []byte, t uint64) (wire, bool) {
			f := bw.f.clone()
			var t2 uint64
			switch {
			case f.KPer > 0 && t+1 < 64:
				f.KPer, t2 = f.KPer-1, t+1
			case t >= 1:
				f.KPer, t2 = f.KPer+1, t-1
			default:
				return bw, false
			}
			s2, e := newKesSigner(kesSeed, t2)
			if e != nil {
				return bw, false
			}
			w := bw
			w.f = f
			sg, e := kes.Sign(s2.sk, s2.period, w.bodyBytes())
			if e != nil {
				return bw, false
			}
			w.sig = sg
			return w, true
		}
		xh := x
		xh.maxev = 64
		rej := expect{vh: true, oc: true}
		if wr, ok := rewrite(base, sc.pool.kesSeed, sc.t); ok {
			// genuine -> rewritten -> genuine -> rewritten
			v1 := newValidator(xh)
			checkOn(v1, "hist-genuine", base, xh, true, expect{})
			checkOn(v1, "hist-opcert-period-rewritten", wr, xh, false, rej)
			checkOn(v1, "hist-genuine", base, xh, true, expect{})
			checkOn(v1, "hist-opcert-period-rewritten", wr, xh, false, rej)
			// tampered -> genuine -> tampered
			v2 := newValidator(xh)
			checkOn(v2, "hist-opcert-period-rewritten-first", wr, xh, false, rej)
			checkOn(v2, "hist-genuine", base, xh, true, expect{})
			checkOn(v2, "hist-opcert-period-rewritten", wr, xh, false, rej)
			// two pools interleaved on one validator
			sc2 := *sc
			sc2.pool = other
			if ksB, e := newKesSigner(other.kesSeed, sc.t); e == nil {
				ocB := sc2.opCert(ksB.pk, sc.seq, sc.c)
				for try := 0; try < 300; try++ {
					nB := r.Bytes(32)
					hB, eB := sc2.build(ksB, ocB, other.coldPub, sc2.input(sc.slot, nB, sc.totalStake), sc.mode)
					if eB != nil {
						continue
					}
					baseB := wire{tpraos: tp, f: fieldsOf(hB), sig: hB.Signature, segs: sc.segs}
					xB := xh
					xB.nonce, xB.pool, xB.reg = nB, sc.totalStake, nil
					wrB, okB := rewrite(baseB, other.kesSeed, sc.t)
					v3 := newValidator(xh)
					checkOn(v3, "hist-genuine", base, xh, true, expect{})
					checkOn(v3, "hist-genuine-pool-b", baseB, xB, true, expect{})
					checkOn(v3, "hist-opcert-period-rewritten", wr, xh, false, rej)
					if okB {
						checkOn(v3, "hist-opcert-period-rewritten-pool-b", wrB, xB, false, rej)
					}
					// pool B presents pool A's certificate (A's hot key and cold signature under B's issuer key)
					fX := baseB.f.clone()
					fX.Hot, fX.Seq, fX.KPer, fX.CSig = base.f.Hot, base.f.Seq, base.f.KPer, base.f.CSig
					wX := baseB
					wX.f = fX
					if sg, e := kes.Sign(ks.sk, ks.period, wX.bodyBytes()); e == nil {
						wX.sig = sg
						checkOn(v3, "hist-foreign-certificate-pool-b", wX, xB, false, rej)
					}
					checkOn(v3, "hist-genuine-pool-b", baseB, xB, true, expect{})
					checkOn(v3, "hist-genuine", base, xh, true, expect{})
					break
				}
			}
		}
		// every earlier tamper class once more on the scenario's long-lived validator, after all of the above
		check("hist-genuine-last", base, x, true, expect{})
	}

	// --- argument layouts (layout.go): the same values as exact copies, with spare capacity, and as
	// adjacent sub-slices of one flat record in every neighbour order
	if onlyClass == "" {
		rc.Class = "argument-layouts"
		viol := func(key, what string) { c.Res.Violate("monitor", layout+":"+key, what, rc) }
		f := base.f
		body := base.bodyBytes()
		segsRaw := hashedSegs(nil, base)
		vhSpecs := func(f fields, sig []byte, xx vctx) []argSpec {
			return []argSpec{{"PrevHash", f.Prev}, {"IssuerVkey", f.Issuer}, {"VrfKey", f.VrfKey}, {"VrfProof", f.Proof}, {"VrfOutput", f.Out},
				{"KesSignature", sig}, {"HeaderBodyCbor", body}, {"NonceVrfProof", f.NonceProof}, {"NonceVrfOutput", f.NonceOut},
				{"OpCertHotVkey", f.Hot}, {"OpCertSignature", f.CSig}, {"PrevHeaderHash", xx.prevHH}, {"EpochNonce", xx.nonce}, {"RegisteredVrfKeyHash", xx.reg}}
		}
		vhCall := func(f fields, xx vctx) func(a map[string][]byte) string {
			return func(a map[string][]byte) string {
				res := newValidator(xx).ValidateHeader(&consensus.ValidateHeaderInput{
					Slot: f.Slot, BlockNumber: f.BlockNo, PrevHash: a["PrevHash"], IssuerVkey: a["IssuerVkey"], VrfKey: a["VrfKey"],
					VrfProof: a["VrfProof"], VrfOutput: a["VrfOutput"], KesSignature: a["KesSignature"], HeaderBodyCbor: a["HeaderBodyCbor"],
					NonceVrfProof: a["NonceVrfProof"], NonceVrfOutput: a["NonceVrfOutput"], OpCertHotVkey: a["OpCertHotVkey"],
					OpCertSequenceNumber: uint32(f.Seq), OpCertKesPeriod: uint32(f.KPer), OpCertSignature: a["OpCertSignature"],
					PrevSlot: xx.prevSlot, PrevBlockNumber: xx.prevBlockNo, PrevHeaderHash: a["PrevHeaderHash"], EpochNonce: a["EpochNonce"],
					PoolStake: xx.pool, TotalStake: xx.total, RegisteredVrfKeyHash: a["RegisteredVrfKeyHash"]})
				return fmt.Sprintf("failed=%v valid=%v out=%x", classifyVH(res.Errors), res.Valid, res.VrfOutput)
			}
		}
		xr := x
		xr.reg = h256(f.VrfKey)
		// ValidateHeader, genuine: every layout call is also a case for the (value-based) model
		cf.recordValidate(f, body, base.sig, xr, segsRaw)
		rc.Kind = "ValidateHeader"
		ref, n := runLayouts(r, "ValidateHeader", vhSpecs(f, base.sig, xr), vhCall(f, xr), viol, nil)
		if ref != fmt.Sprintf("failed=[] valid=true out=%x", f.Out) {
			viol("genuine-rejected", "ValidateHeader on the built header's own fields: "+ref)
		}
		cf.add(fmt.Sprintf("KValidate {| c_spk := %s; c_maxev := %s; c_mode := %s |} %s [] %s",
			vh.N(xr.spk), vh.N(xr.maxev), modeCoq(xr.mode), cf.vinputCoq(f, body, base.sig, xr), vh.Opt(cf.bl(f.Out), true)), rc)
		for k := 0; k < n; k++ {
			count("layout-validateheader-genuine")
		}
		// ValidateHeader, a rejected header (counter changed): the same failed checks in every layout
		f9 := f.clone()
		f9.Seq = (f9.Seq + 1) % (1 << 32)
		_, n = runLayouts(r, "ValidateHeader", vhSpecs(f9, base.sig, xr), vhCall(f9, xr), viol, nil)
		for k := 0; k < n; k++ {
			count("layout-validateheader-rejected")
		}
		// ledger.VerifyOpCertSignature / ValidateOpCert
		_, n = runLayouts(r, "ValidateOpCert", []argSpec{{"KesVkey", f.Hot}, {"ColdSignature", f.CSig}, {"coldVkey", f.Issuer}}, func(a map[string][]byte) string {
			t, err := ledger.ValidateOpCert(&ledger.OpCert{KesVkey: a["KesVkey"], IssueNumber: f.Seq, KesPeriod: f.KPer, ColdSignature: a["ColdSignature"]}, a["coldVkey"], f.Slot, x.spk, x.maxev)
			e2 := ledger.VerifyOpCertSignature(&ledger.OpCert{KesVkey: a["KesVkey"], IssueNumber: f.Seq, KesPeriod: f.KPer, ColdSignature: a["ColdSignature"]}, a["coldVkey"])
			return fmt.Sprintf("t=%d err=%v sigerr=%v", t, err != nil, e2 != nil)
		}, viol, nil)
		for k := 0; k < n; k++ {
			count("layout-validateopcert")
		}
		// ledger.VerifyKesComponents
		_, n = runLayouts(r, "VerifyKesComponents", []argSpec{{"bodyCbor", body}, {"signature", base.sig}, {"hotVkey", f.Hot}}, func(a map[string][]byte) string {
			ok, err := ledger.VerifyKesComponents(a["bodyCbor"], a["signature"], a["hotVkey"], f.KPer, f.Slot, x.spk)
			return fmt.Sprintf("%v %v", ok, err != nil)
		}, viol, nil)
		for k := 0; k < n; k++ {
			count("layout-verifykescomponents")
		}
		// ledger.CreateOpCert with a 32-byte seed and with a 64-byte private key
		for _, sk := range [][]byte{sc.pool.coldSeed, []byte(sc.pool.coldPriv)} {
			_, n = runLayouts(r, fmt.Sprintf("CreateOpCert%d", len(sk)), []argSpec{{"kesVkey", f.Hot}, {"coldSkey", sk}}, func(a map[string][]byte) string {
				o, err := ledger.CreateOpCert(a["kesVkey"], f.Seq, f.KPer, a["coldSkey"])
				if err != nil {
					return "error"
				}
				return fmt.Sprintf("%x %x", o.ColdSignature, o.KesVkey)
			}, func(key, what string) {
				viol(key, what)
			}, func(l *laid, verdict string) {
				if verdict != fmt.Sprintf("%x %x", f.CSig, f.Hot) {
					viol("createopcert-differs-from-cold-signature", "CreateOpCert returned "+verdict)
				}
			})
			for k := 0; k < n; k++ {
				count("layout-createopcert")
			}
		}
		// BlockBuilder.BuildHeader: the certificate, issuer key and the hashes in every layout; the header it
		// returns (which aliases the caller's slices) is validated as it is
		_, n = runLayouts(r, "BuildHeader", []argSpec{{"opCert.HotVkey", oc.HotVkey}, {"opCert.Signature", oc.Signature}, {"issuerVkey", sc.pool.coldPub},
			{"poolId", make([]byte, 28)}, {"PrevHash", in.PrevHash}, {"EpochNonce", in.EpochNonce}, {"BlockBodyHash", in.BlockBodyHash}}, func(a map[string][]byte) string {
			oc2 := &consensus.OperationalCert{HotVkey: a["opCert.HotVkey"], SequenceNumber: oc.SequenceNumber, KesPeriod: oc.KesPeriod, Signature: a["opCert.Signature"]}
			in2 := in
			in2.PrevHash, in2.EpochNonce, in2.BlockBodyHash = a["PrevHash"], a["EpochNonce"], a["BlockBodyHash"]
			b := consensus.NewBlockBuilderWithMode(sc.pool.vrf, ks, oc2, a["poolId"], a["issuerVkey"], sc.f, sc.mode)
			h2, _, err := b.BuildHeader(in2)
			if err != nil {
				return "build error: " + err.Error()
			}
			f2 := fieldsOf(h2)
			w2 := wire{tpraos: tp, f: f2, sig: h2.Signature}
			hb := h2.Body
			res := newValidator(x).ValidateHeader(&consensus.ValidateHeaderInput{
				Slot: hb.Slot, BlockNumber: hb.BlockNumber, PrevHash: hb.PrevHash, IssuerVkey: hb.IssuerVkey, VrfKey: hb.VrfKey,
				VrfProof: hb.VrfProof, VrfOutput: hb.VrfOutput, KesSignature: h2.Signature, HeaderBodyCbor: w2.bodyBytes(),
				NonceVrfProof: hb.NonceVrfProof, NonceVrfOutput: hb.NonceVrfOutput, OpCertHotVkey: hb.OpCertHotVkey,
				OpCertSequenceNumber: hb.OpCertSequenceNumber, OpCertKesPeriod: hb.OpCertKesPeriod, OpCertSignature: hb.OpCertSignature,
				PrevSlot: x.prevSlot, PrevBlockNumber: x.prevBlockNo, PrevHeaderHash: a["PrevHash"], EpochNonce: a["EpochNonce"],
				PoolStake: x.pool, TotalStake: x.total})
			return fmt.Sprintf("header=%x sig=%x validate: failed=%v valid=%v", h256(w2.bodyBytes()), h256(h2.Signature), classifyVH(res.Errors), res.Valid)
		}, viol, func(l *laid, verdict string) {
			want := fmt.Sprintf("header=%x sig=%x validate: failed=[] valid=true", h256(body), h256(base.sig))
			if verdict != want {
				viol("genuine-rejected", "BuildHeader+ValidateHeader with arguments laid out as "+l.kind+": "+verdict+" (expected "+want+")")
			}
		})
		for k := 0; k < n; k++ {
			count("layout-buildheader")
		}
	}

	// --- unit cases of the ledger helpers on this scenario's certificate
	if onlyClass == "" {
		f := base.f
		rc.Class = "opcert-units"
		type ocu struct{ hot, csig, cold []byte }
		for _, u := range []ocu{{f.Hot, f.CSig, f.Issuer}, {f.Hot[:31], f.CSig, f.Issuer}, {f.Hot, f.CSig[:63], f.Issuer},
			{f.Hot, f.CSig, f.Issuer[:31]}, {f.Hot, flip(f.CSig, bit), f.Issuer}, {f.Hot, f.CSig, other.coldPub}} {
			err := ledger.VerifyOpCertSignature(&ledger.OpCert{KesVkey: u.hot, IssueNumber: f.Seq, KesPeriod: f.KPer, ColdSignature: u.csig}, u.cold)
			cf.edVerify(u.cold, cat(u.hot, be64(f.Seq), be64(f.KPer)), u.csig)
			rc.Kind = "VerifyOpCertSignature"
			cf.add(fmt.Sprintf("KOpCertSig %s %s %s %s %s %s", cf.bl(u.hot), vh.N(f.Seq), vh.N(f.KPer), cf.bl(u.csig), cf.bl(u.cold), vh.N(classifyOC(err))), rc)
			count("unit-opcert-sig")
		}
		body := base.bodyBytes()
		type kcu struct {
			sig             []byte
			kper, slot, spk uint64
		}
		for _, u := range []kcu{{base.sig, f.KPer, f.Slot, sc.spk}, {base.sig, f.KPer, f.Slot, 0}, {base.sig[:447], f.KPer, f.Slot, sc.spk},
			{base.sig, f.KPer + 1, f.Slot, sc.spk}, {base.sig, f.KPer, f.Slot + sc.spk, sc.spk}, {flip(base.sig, bit), f.KPer, f.Slot, sc.spk}} {
			ok, err := ledger.VerifyKesComponents(body, u.sig, f.Hot, u.kper, u.slot, u.spk)
			if u.spk != 0 && u.slot/u.spk >= u.kper {
				cf.kesVerify(f.Hot, u.slot/u.spk-u.kper, body, u.sig)
			}
			rc.Kind = "VerifyKesComponents"
			cf.add(fmt.Sprintf("KKesComponents %s %s %s %s %s %s %s %s", cf.bl(body), cf.bl(u.sig), cf.bl(f.Hot), vh.N(u.kper), vh.N(u.slot), vh.N(u.spk), vh.Bool(err != nil), vh.Bool(ok)), rc)
			count("unit-kes-components")
		}
		// builder input errors
		type bu struct {
			name string
			in   consensus.BuildHeaderInput
			ks   *kesSigner
			oc   *consensus.OperationalCert
		}
		bad := sc.input(sc.slot, sc.nonce, sc.poolStake)
		bad.PrevHash = bad.PrevHash[:31]
		big64 := sc.input(math.MaxInt64+1, sc.nonce, sc.poolStake)
		zero := sc.input(sc.slot, sc.nonce, 0)
		ksO, _ := newKesSigner(other.kesSeed, 0)
		for _, u := range []bu{{"prevhash-31", bad, ks, oc}, {"slot-above-int64", big64, ks, oc}, {"zero-stake", zero, ks, oc}, {"kes-key-mismatch", in, ksO, oc}} {
			if u.ks == nil {
				continue
			}
			h2, e2 := sc.build(u.ks, u.oc, sc.pool.coldPub, u.in, sc.mode)
			rc.Class = "build-" + u.name
			recordBuild(cf, sc, u.ks, u.oc, sc.pool.coldPub, u.in, sc.mode, h2, e2, rc)
			count("unit-build-" + u.name)
			if e2 == nil {
				c.Res.Violate("monitor", layout+":builder-accepts-"+u.name, "BuildHeader returned a header", rc)
			}
		}
		// serialisation
		rc.Class, rc.Kind = "genuine", "serializeHeaderBody"
		cf.add(fmt.Sprintf("KSerialize %s %s %s", modeCoq(sc.mode), cf.hbCoq(base.f), cf.bl(body)), rc)
	}

	out := c.NewCaseFile(fmt.Sprintf("s%d_%s_%s", len(c.Res.CaseFiles), layout, strings.ReplaceAll(kind, "-", "")), cf.header())
	out.Func = "mismatches T"
	out.SetShardSize(100000)
	for i, t := range cf.cases {
		out.Add(t, cf.replays[i])
	}
	out.Flush()
}

// ---------------------------------------------------------------------------
// ValidateKesPeriod on arbitrary uint64 arguments

func runWindowUnits(c *vh.Ctx) {
	cf := c.NewCaseFile("window", coqHeader+"\nDefinition T : tables := {| t_hash := []; t_vrf_pk := []; t_vrf_prove := []; t_vrf_vh := []; t_kes_vk := []; t_kes_sig := []; t_kes_verify := []; t_ed_verify := []; t_thr := [] |}.")
	cf.Func = "mismatches T"
	cf.SetShardSize(100000)
	r := c.Rng.Fork()
	n := c.Pick(400, 4000)
	type q struct{ c, slot, spk, max uint64 }
	qs := []q{{0, 0, 1, 1}, {0, 0, 0, 1}, {0, 0, 1, 0}, {1, 0, 1, 1}, {math.MaxUint64, math.MaxUint64, 1, 1}, {math.MaxUint64, math.MaxUint64, 1, math.MaxUint64},
		{math.MaxUint64 - 1, math.MaxUint64, 1, 1}, {math.MaxUint64 - 1, math.MaxUint64, 1, 2}, {0, math.MaxUint64, 1, math.MaxUint64}, {1, math.MaxUint64, 1, math.MaxUint64},
		{5, 129600*67 - 1, 129600, 62}, {5, 129600 * 67, 129600, 62}, {5, 129600*5 - 1, 129600, 62}, {5, 129600 * 5, 129600, 62}}
	for len(qs) < n {
		spk := r.Boundary()
		if r.Chance(3, 4) {
			spk = 1 + uint64(r.Intn(200000))
		}
		cc := r.Boundary()
		if r.Bool() {
			cc = uint64(r.Intn(1 << 20))
		}
		max := vh.PickOne(r, []uint64{0, 1, 2, 62, 64, r.Boundary()})
		var slot uint64
		switch r.Intn(5) {
		case 0:
			slot = r.Boundary()
		case 1: // first slot of the window
			slot = cc * spk
		case 2: // last slot before the window
			slot = cc*spk - 1
		case 3: // first slot after the window
			slot = (cc + max) * spk
		default: // last slot of the window
			slot = (cc+max)*spk - 1
		}
		qs = append(qs, q{cc, slot, spk, max})
	}
	for _, x := range qs {
		t, err := ledger.ValidateKesPeriod(x.c, x.slot, x.spk, x.max)
		cls, tt := classifyKP(t, err)
		rc := rcase{Class: fmt.Sprintf("window c=%d slot=%d spk=%d max=%d", x.c, x.slot, x.spk, x.max), Kind: "ValidateKesPeriod"}
		cf.Add(fmt.Sprintf("KKesPeriod %s %s %s %s %s %s", vh.N(x.c), vh.N(x.slot), vh.N(x.spk), vh.N(x.max), vh.N(cls), vh.N(tt)), rc)
		// the statement, with unbounded integers
		want := uint64(9)
		wantT := uint64(0)
		switch {
		case x.spk == 0:
			want = 1
		case x.max == 0:
			want = 2
		default:
			cur := new(big.Int).SetUint64(x.slot / x.spk)
			lo := new(big.Int).SetUint64(x.c)
			hi := new(big.Int).Add(lo, new(big.Int).SetUint64(x.max))
			switch {
			case cur.Cmp(lo) < 0:
				want = 3
			case cur.Cmp(hi) >= 0:
				want = 4
			default:
				want, wantT = 0, new(big.Int).Sub(cur, lo).Uint64()
			}
		}
		c.Res.Count(rc.Class, true, fmt.Sprintf("window-unit:class%d", want))
		if cls != want || tt != wantT {
			c.Res.Violate("monitor", fmt.Sprintf("kes-window-class%d-reported-as-%d", want, cls), fmt.Sprintf("ValidateKesPeriod(%d,%d,%d,%d) = (%d, %v), expected class %d t=%d", x.c, x.slot, x.spk, x.max, t, err, want, wantT), rc)
		}
	}
	cf.Flush()
}

func run(c *vh.Ctx) error {
	c.Res.Rule = "scenario = random cold/VRF/KES(depth 6) keys, layout (TPraos eras 2-6 / Praos eras 7-10), slots-per-KES-period, max evolutions, certificate start period, evolution t (random, first, last), slot position in the period, counter (0, max), f, stake lowered to the smallest leading stake, body; per scenario the genuine block plus one block per tamper class (each header field with the old signature, KES signature, body, re-signed by the hot key holder, validator context, KES window); distinct by scenario seed/class; every case is non-trivial (real keys, three validators)"
	c.Res.Modelled = []string{
		"Blake2b-256, VRF prove/verify (C38), KES sign/verify (C39), Ed25519 verify, leadership threshold (C37): record fields in the theorems, oracle tables in the correspondence (computed by the harness from its own inputs, not intercepted)",
		"the ledger CBOR decoder (block bytes -> header fields + original body bytes) is exercised, not modelled: the harness is the adapter that fills ValidateHeaderInput",
		"ValidateHeader's failed checks are recognised by their error texts in the order of the checks"}
	if c.Res.Distribution == nil {
		c.Res.Distribution = map[string]int{}
	}
	if b, err := os.ReadFile("/verif/coq/C40/Gen.v"); err == nil {
		src := "ast"
		if strings.Contains(string(b), `checks_source : string := "probe"`) {
			src = "probe"
		}
		c.Res.Notes = append(c.Res.Notes, "checks_source = "+src+" (ast: ValidateHeader's check list read from the source; probe: derived from the error lists of probe headers)")
	}
	if c.Replay != "" {
		b, err := os.ReadFile(c.Replay)
		if err != nil {
			return err
		}
		var rp struct {
			Replay rcase `json:"replay"`
		}
		if err := json.Unmarshal(b, &rp); err != nil {
			return err
		}
		if rp.Replay.Kind == "ValidateKesPeriod" {
			runWindowUnits(c)
			return nil
		}
		lk := strings.SplitN(rp.Replay.Layout, "/", 2)
		if len(lk) == 2 {
			only := ""
			if lk[1] == "slot0" {
				only = "genuine"
			}
			runScenario(c, rp.Replay.ScenarioSeed, lk[0], lk[1], only)
		}
		return nil
	}
	kinds := []string{"normal", "edge-first", "edge-last", "normal"}
	n := c.Pick(3, 12)
	for i := 0; i < n; i++ {
		for _, layout := range []string{"praos", "tpraos"} {
			runScenario(c, c.Rng.U64(), layout, kinds[i%len(kinds)], "")
		}
	}
	// the first slot of a chain (known finding: ValidateHeader has no Origin)
	for _, layout := range []string{"praos", "tpraos"} {
		runScenario(c, c.Rng.U64(), layout, "slot0", "genuine")
	}
	runWindowUnits(c)
	return nil
}

func main() { vh.Main(vh.Runner{Property: "C40", Gen: gen, Run: run}) }
