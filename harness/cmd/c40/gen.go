// C40 translator: the list of checks consensus.HeaderValidator.ValidateHeader
// performs (go/ast), the component calls of ledger.VerifyBlock and
// ledger.ValidateOpCert, and the size constants the model hard-codes.
package main

import (
	"bytes"
	"crypto/ed25519"
	"fmt"
	"go/ast"
	"go/parser"
	"go/printer"
	"go/token"
	"os"
	"path/filepath"
	"strings"

	"github.com/blinklabs-io/gouroboros/consensus"
	"github.com/blinklabs-io/gouroboros/kes"
	"github.com/blinklabs-io/gouroboros/ledger"
	"github.com/blinklabs-io/gouroboros/ledger/common"
	"github.com/blinklabs-io/gouroboros/vrf"

	"verifharness/vh"
)

func repoDir() string {
	if r := os.Getenv("VERIF_REPO"); r != "" {
		return r
	}
	return "/repo"
}

type goCheck struct {
	name        string
	guard       string
	setsInvalid bool
}

func exprString(fset *token.FileSet, e ast.Node) string {
	var b bytes.Buffer
	printer.Fprint(&b, fset, e)
	return b.String()
}

// validateCall returns the method name if e is v.validateXxx(...).
func validateCall(e ast.Expr) string {
	ce, ok := e.(*ast.CallExpr)
	if !ok {
		return ""
	}
	se, ok := ce.Fun.(*ast.SelectorExpr)
	if !ok {
		return ""
	}
	if id, ok := se.X.(*ast.Ident); !ok || id.Name != "v" {
		return ""
	}
	return se.Sel.Name
}

// invalidates: the block sets result.Valid = false and appends to result.Errors.
func invalidates(fset *token.FileSet, b *ast.BlockStmt) bool {
	setsValid, appends := false, false
	for _, s := range b.List {
		as, ok := s.(*ast.AssignStmt)
		if !ok || len(as.Lhs) != 1 || len(as.Rhs) != 1 {
			continue
		}
		l, r := exprString(fset, as.Lhs[0]), exprString(fset, as.Rhs[0])
		if l == "result.Valid" && r == "false" {
			setsValid = true
		}
		if l == "result.Errors" && strings.HasPrefix(r, "append(result.Errors, err") {
			appends = true
		}
	}
	return setsValid && appends
}

func isErrNotNil(fset *token.FileSet, e ast.Expr) bool { return exprString(fset, e) == "err != nil" }

func walkChecks(fset *token.FileSet, stmts []ast.Stmt, guard string, out *[]goCheck) {
	pending := ""
	for _, s := range stmts {
		switch st := s.(type) {
		case *ast.AssignStmt:
			if len(st.Rhs) == 1 {
				if n := validateCall(st.Rhs[0]); n != "" {
					pending = n
				}
			}
		case *ast.IfStmt:
			if st.Init != nil {
				if as, ok := st.Init.(*ast.AssignStmt); ok && len(as.Rhs) == 1 {
					if n := validateCall(as.Rhs[0]); n != "" {
						*out = append(*out, goCheck{n, guard, isErrNotNil(fset, st.Cond) && invalidates(fset, st.Body)})
						continue
					}
				}
			}
			if pending != "" && isErrNotNil(fset, st.Cond) {
				*out = append(*out, goCheck{pending, guard, invalidates(fset, st.Body)})
				pending = ""
				continue
			}
			g := exprString(fset, st.Cond)
			if guard != "" {
				g = guard + " && " + g
			}
			walkChecks(fset, st.Body.List, g, out)
		}
	}
	if pending != "" {
		*out = append(*out, goCheck{pending, guard, false})
	}
}

func findFunc(f *ast.File, recv, name string) *ast.FuncDecl {
	for _, d := range f.Decls {
		fd, ok := d.(*ast.FuncDecl)
		if !ok || fd.Name.Name != name {
			continue
		}
		if recv == "" && fd.Recv == nil {
			return fd
		}
		if recv != "" && fd.Recv != nil {
			return fd
		}
	}
	return nil
}

// callsIn lists, in source order and without repetition, the calls inside fn
// whose rendered callee is in the watch list.
func callsIn(fset *token.FileSet, fn *ast.FuncDecl, watch []string) []string {
	w := map[string]bool{}
	for _, x := range watch {
		w[x] = true
	}
	seen := map[string]bool{}
	var res []string
	ast.Inspect(fn.Body, func(n ast.Node) bool {
		if ce, ok := n.(*ast.CallExpr); ok {
			s := exprString(fset, ce.Fun)
			if w[s] && !seen[s] {
				seen[s] = true
				res = append(res, s)
			}
		}
		return true
	})
	return res
}

func gen(out string) error {
	fset := token.NewFileSet()
	parse := func(rel string) (*ast.File, error) {
		return parser.ParseFile(fset, filepath.Join(repoDir(), rel), nil, 0)
	}
	vf, err := parse("consensus/validate.go")
	if err != nil {
		return err
	}
	vfn := findFunc(vf, "HeaderValidator", "ValidateHeader")
	if vfn == nil {
		return fmt.Errorf("ValidateHeader not found")
	}
	var checks []goCheck
	walkChecks(fset, vfn.Body.List, "", &checks)

	bf, err := parse("ledger/verify_block.go")
	if err != nil {
		return err
	}
	bfn := findFunc(bf, "", "VerifyBlock")
	if bfn == nil {
		return fmt.Errorf("VerifyBlock not found")
	}
	vbCalls := callsIn(fset, bfn, []string{"vrf.MkSeedTPraos", "vrf.MkInputVrf", "vrf.Verify", "extractOriginalBodyCbor",
		"ExtractKesFields", "VerifyKesComponents", "validateDijkstraBlockBodyHash", "common.ValidateBlockBodyHash",
		"VerifyOpCertSignature", "ValidateOpCert", "ValidateKesPeriod"})
	of, err := parse("ledger/verify_opcert.go")
	if err != nil {
		return err
	}
	ofn := findFunc(of, "", "ValidateOpCert")
	if ofn == nil {
		return fmt.Errorf("ValidateOpCert not found")
	}
	ocCalls := callsIn(fset, ofn, []string{"VerifyOpCertSignature", "ValidateKesPeriod"})

	type kv struct {
		k string
		v uint64
	}
	cs := []kv{
		{"vrf.PublicKeySize", vrf.PublicKeySize}, {"vrf.ProofSize", vrf.ProofSize}, {"vrf.OutputSize", vrf.OutputSize},
		{"kes.CardanoKesSignatureSize", kes.CardanoKesSignatureSize}, {"kes.PublicKeySize", kes.PublicKeySize},
		{"kes.CardanoKesDepth", kes.CardanoKesDepth},
		{"ed25519.PublicKeySize", ed25519.PublicKeySize}, {"ed25519.SignatureSize", ed25519.SignatureSize},
		{"ConsensusModeCPraos", uint64(consensus.ConsensusModeCPraos)}, {"ConsensusModeTPraos", uint64(consensus.ConsensusModeTPraos)},
		{"len(OpCertSignableBytes(32))", uint64(len(common.OpCertSignableBytes(make([]byte, 32), 1, 2)))},
		{"HeaderBodyLengthShelleyLike", ledger.HeaderBodyLengthShelleyLike}, {"HeaderBodyLengthBabbageLike", ledger.HeaderBodyLengthBabbageLike},
	}
	var sb strings.Builder
	sb.WriteString("(* written by harness/cmd/c40 gen *)\nFrom Coq Require Import String.\nFrom V Require Import Lib.Base.\nOpen Scope string_scope.\n")
	sb.WriteString("(* the validate* calls of HeaderValidator.ValidateHeader in source order: method, enclosing guard,\n   whether a non-nil error sets result.Valid = false and is appended to result.Errors *)\n")
	sb.WriteString("Definition go_checks : list (string * string * bool) :=\n  [")
	for i, c := range checks {
		if i > 0 {
			sb.WriteString(";\n   ")
		}
		fmt.Fprintf(&sb, "(%s, %s, %s)", vh.Str(c.name), vh.Str(c.guard), vh.Bool(c.setsInvalid))
	}
	sb.WriteString("].\n")
	strs := func(name string, xs []string) {
		fmt.Fprintf(&sb, "Definition %s : list string :=\n  [", name)
		for i, x := range xs {
			if i > 0 {
				sb.WriteString("; ")
			}
			sb.WriteString(vh.Str(x))
		}
		sb.WriteString("].\n")
	}
	strs("go_verify_block_calls", vbCalls)
	strs("go_validate_opcert_calls", ocCalls)
	sb.WriteString("Definition go_consts : list (string * N) :=\n  [")
	for i, c := range cs {
		if i > 0 {
			sb.WriteString(";\n   ")
		}
		fmt.Fprintf(&sb, "(%s, %s)", vh.Str(c.k), vh.N(c.v))
	}
	sb.WriteString("].\n")
	if out == "" {
		fmt.Print(sb.String())
		return nil
	}
	return vh.WriteIfChanged(out, sb.String())
}
