// C40 translator: the list of checks consensus.HeaderValidator.ValidateHeader
// performs (go/ast), the component calls of ledger.VerifyBlock and
// ledger.ValidateOpCert, and the size constants the model hard-codes.
package main

import (
	"bytes"
	"crypto/ed25519"
	"fmt"
	"go/ast"
	"go/parser"
	"go/printer"
	"go/token"
	"os"
	"path/filepath"
	"regexp"
	"strings"

	"github.com/blinklabs-io/gouroboros/consensus"
	"github.com/blinklabs-io/gouroboros/kes"
	"github.com/blinklabs-io/gouroboros/ledger"
	"github.com/blinklabs-io/gouroboros/ledger/common"
	"github.com/blinklabs-io/gouroboros/vrf"

	"verifharness/vh"
)

func repoDir() string {
	if r := os.Getenv("VERIF_REPO"); r != "" {
		return r
	}
	return "/repo"
}

type goCheck struct {
	name        string
	guard       string
	setsInvalid bool
}

func exprString(fset *token.FileSet, e ast.Node) string {
	var b bytes.Buffer
	printer.Fprint(&b, fset, e)
	return b.String()
}

// ---------------------------------------------------------------------------
// Reading the check list of ValidateHeader.  Recognised forms:
//  (a) direct calls in sequence: `if err := v.validateX(in); err != nil {...}` or
//      `out, err := v.validateX(in)` followed by an if on err (either polarity);
//  (b) an array/slice literal of method values (or closures around one validate
//      call) iterated with `for _, f := range lit { ... f(in) ... }`: the order is
//      the order of the literal;
//  (c) calls reached through one level of a same-package helper, and failures
//      recorded through a helper that sets Valid = false and appends the error
//      (`res.fail(err)`), with `if err == nil { return }` or `if err != nil {..}`.
// Guards are rendered with the variable holding the first result of a check
// replaced by out(<check>), so renaming a local does not change the table.
// Anything else makes the reader report "unrecognised" and the table is then
// derived from OBSERVED behaviour (probe headers), see probeChecks.

type checkReader struct {
	fset    *token.FileSet
	funcs   map[string]*ast.FuncDecl // same-package functions and methods by name
	lists   map[string][]ast.Expr    // local array/slice literals of check functions
	bound   map[string]ast.Expr      // range variable -> current element
	outVar  map[string]string        // variable holding the first result of a check
	errVar  map[string]string        // variable holding the error of a check
	pending map[string]string        // check awaiting its error handling (keyed by err var)
	out     []goCheck
	depth   int
}

// checkOf resolves an expression that is called to the validate method it runs.
func (r *checkReader) checkOf(fun ast.Expr) string {
	switch f := fun.(type) {
	case *ast.SelectorExpr:
		if strings.HasPrefix(f.Sel.Name, "validate") {
			return f.Sel.Name
		}
	case *ast.Ident:
		if e, ok := r.bound[f.Name]; ok {
			return r.checkOf(e)
		}
	case *ast.FuncLit:
		name := ""
		ast.Inspect(f.Body, func(n ast.Node) bool {
			if ce, ok := n.(*ast.CallExpr); ok && name == "" {
				name = r.checkOf(ce.Fun)
			}
			return true
		})
		return name
	}
	return ""
}

func (r *checkReader) callCheck(e ast.Expr) string {
	if ce, ok := e.(*ast.CallExpr); ok {
		return r.checkOf(ce.Fun)
	}
	return ""
}

// recordsFailure: block (or helper body) sets <x>.Valid = false and appends to <x>.Errors.
func (r *checkReader) recordsFailure(stmts []ast.Stmt) bool {
	setsValid, appends := false, false
	for _, s := range stmts {
		as, ok := s.(*ast.AssignStmt)
		if !ok || len(as.Lhs) != 1 || len(as.Rhs) != 1 {
			continue
		}
		l, rr := exprString(r.fset, as.Lhs[0]), exprString(r.fset, as.Rhs[0])
		if strings.HasSuffix(l, ".Valid") && rr == "false" {
			setsValid = true
		}
		if strings.HasSuffix(l, ".Errors") && strings.HasPrefix(rr, "append("+l+",") {
			appends = true
		}
	}
	return setsValid && appends
}

// failHelper: e is a call of a same-package helper that records its error argument
// as a failure when it is non-nil; returns the argument.
func (r *checkReader) failHelper(e ast.Expr) (ast.Expr, bool) {
	ce, ok := e.(*ast.CallExpr)
	if !ok || len(ce.Args) != 1 {
		return nil, false
	}
	name := ""
	switch f := ce.Fun.(type) {
	case *ast.SelectorExpr:
		name = f.Sel.Name
	case *ast.Ident:
		name = f.Name
	}
	fd := r.funcs[name]
	if fd == nil || fd.Body == nil || fd.Type.Params == nil || len(fd.Type.Params.List) != 1 || len(fd.Type.Params.List[0].Names) != 1 {
		return nil, false
	}
	pn := fd.Type.Params.List[0].Names[0].Name
	body := fd.Body.List
	// `if p == nil { return }` then record, or `if p != nil { record }`
	if len(body) >= 1 {
		if is, ok := body[0].(*ast.IfStmt); ok {
			c := exprString(r.fset, is.Cond)
			if c == pn+" == nil" && len(is.Body.List) == 1 && r.recordsFailure(body[1:]) {
				if _, isRet := is.Body.List[0].(*ast.ReturnStmt); isRet {
					return ce.Args[0], true
				}
			}
			if c == pn+" != nil" && r.recordsFailure(is.Body.List) {
				return ce.Args[0], true
			}
		}
	}
	return nil, false
}

// failsOn: the statements record variable errName as a failure (directly or through a helper).
func (r *checkReader) failsOn(stmts []ast.Stmt, errName string) bool {
	if r.recordsFailure(stmts) {
		return true
	}
	for _, s := range stmts {
		if es, ok := s.(*ast.ExprStmt); ok {
			if arg, ok := r.failHelper(es.X); ok {
				if id, ok := arg.(*ast.Ident); ok && id.Name == errName {
					return true
				}
			}
		}
	}
	return false
}

func (r *checkReader) guardString(e ast.Expr) string {
	s := exprString(r.fset, e)
	for v, c := range r.outVar {
		s = regexpWord(v).ReplaceAllString(s, "out("+c+")")
	}
	return s
}

func (r *checkReader) emit(name, guard string, inv bool) { r.out = append(r.out, goCheck{name, guard, inv}) }

func (r *checkReader) walk(stmts []ast.Stmt, guard string) {
	for _, s := range stmts {
		switch st := s.(type) {
		case *ast.DeclStmt, *ast.ReturnStmt:
		case *ast.AssignStmt:
			if len(st.Rhs) != 1 {
				continue
			}
			if name := r.callCheck(st.Rhs[0]); name != "" {
				ev := ""
				if len(st.Lhs) == 2 {
					if id, ok := st.Lhs[0].(*ast.Ident); ok && id.Name != "_" {
						r.outVar[id.Name] = name
					}
					if id, ok := st.Lhs[1].(*ast.Ident); ok {
						ev = id.Name
					}
				} else if len(st.Lhs) == 1 {
					if id, ok := st.Lhs[0].(*ast.Ident); ok {
						ev = id.Name
					}
				}
				r.errVar[ev] = name
				r.pending[ev] = guard
				continue
			}
			if cl, ok := st.Rhs[0].(*ast.CompositeLit); ok && len(st.Lhs) == 1 {
				if id, ok := st.Lhs[0].(*ast.Ident); ok {
					r.lists[id.Name] = cl.Elts
				}
			}
		case *ast.ExprStmt:
			if arg, ok := r.failHelper(st.X); ok {
				if name := r.callCheck(arg); name != "" {
					r.emit(name, guard, true)
				} else if id, ok := arg.(*ast.Ident); ok {
					if name, ok := r.errVar[id.Name]; ok {
						if g, p := r.pending[id.Name]; p {
							r.emit(name, g, true)
							delete(r.pending, id.Name)
						}
					}
				}
				continue
			}
			r.inline(st.X, guard)
		case *ast.RangeStmt:
			var elts []ast.Expr
			switch x := st.X.(type) {
			case *ast.Ident:
				elts = r.lists[x.Name]
			case *ast.CompositeLit:
				elts = x.Elts
			}
			vn := ""
			if id, ok := st.Value.(*ast.Ident); ok {
				vn = id.Name
			}
			if elts == nil || vn == "" {
				r.walk(st.Body.List, guard)
				continue
			}
			for _, e := range elts {
				r.bound[vn] = e
				r.walk(st.Body.List, guard)
			}
			delete(r.bound, vn)
		case *ast.IfStmt:
			if st.Init != nil {
				if as, ok := st.Init.(*ast.AssignStmt); ok && len(as.Rhs) == 1 {
					if name := r.callCheck(as.Rhs[0]); name != "" {
						ev := ""
						if id, ok := as.Lhs[len(as.Lhs)-1].(*ast.Ident); ok {
							ev = id.Name
						}
						r.emit(name, guard, exprString(r.fset, st.Cond) == ev+" != nil" && r.failsOn(st.Body.List, ev))
						continue
					}
				}
			}
			cond := exprString(r.fset, st.Cond)
			handled := false
			for ev, name := range r.errVar {
				g, p := r.pending[ev]
				if !p {
					continue
				}
				if cond == ev+" != nil" {
					r.emit(name, g, r.failsOn(st.Body.List, ev))
					handled = true
				} else if cond == ev+" == nil" && st.Else != nil {
					if eb, ok := st.Else.(*ast.BlockStmt); ok {
						r.emit(name, g, r.failsOn(eb.List, ev))
						handled = true
					}
				}
				if handled {
					delete(r.pending, ev)
					break
				}
			}
			if handled {
				continue
			}
			g := r.guardString(st.Cond)
			if guard != "" {
				g = guard + " && " + g
			}
			r.walk(st.Body.List, g)
		case *ast.BlockStmt:
			r.walk(st.List, guard)
		}
	}
}

// inline follows a call of a same-package helper (one level).
func (r *checkReader) inline(e ast.Expr, guard string) {
	ce, ok := e.(*ast.CallExpr)
	if !ok || r.depth >= 1 {
		return
	}
	name := ""
	switch f := ce.Fun.(type) {
	case *ast.SelectorExpr:
		name = f.Sel.Name
	case *ast.Ident:
		name = f.Name
	}
	if fd := r.funcs[name]; fd != nil && fd.Body != nil && !strings.HasPrefix(name, "validate") {
		r.depth++
		r.walk(fd.Body.List, guard)
		r.depth--
	}
}

func regexpWord(w string) *regexp.Regexp { return regexp.MustCompile(`\b` + regexp.QuoteMeta(w) + `\b`) }

// readChecks returns the check table read from the source and whether every
// validate* call that occurs in ValidateHeader (and its helpers) was understood.
func readChecks(fset *token.FileSet, files []*ast.File, fn *ast.FuncDecl) ([]goCheck, bool) {
	r := &checkReader{fset: fset, funcs: map[string]*ast.FuncDecl{}, lists: map[string][]ast.Expr{}, bound: map[string]ast.Expr{},
		outVar: map[string]string{}, errVar: map[string]string{}, pending: map[string]string{}}
	for _, f := range files {
		for _, d := range f.Decls {
			if fd, ok := d.(*ast.FuncDecl); ok {
				r.funcs[fd.Name.Name] = fd
			}
		}
	}
	r.walk(fn.Body.List, "")
	for ev, g := range r.pending {
		r.emit(r.errVar[ev], g, false)
	}
	// every validate* method mentioned in the body (and one level of helpers) must have been read exactly once
	mentioned := map[string]bool{}
	var scan func(b *ast.BlockStmt, depth int)
	scan = func(b *ast.BlockStmt, depth int) {
		ast.Inspect(b, func(n ast.Node) bool {
			switch x := n.(type) {
			case *ast.SelectorExpr:
				if strings.HasPrefix(x.Sel.Name, "validate") {
					mentioned[x.Sel.Name] = true
				} else if fd := r.funcs[x.Sel.Name]; fd != nil && fd.Body != nil && depth < 1 {
					scan(fd.Body, depth+1)
				}
			}
			return true
		})
	}
	scan(fn.Body, 0)
	seen := map[string]int{}
	ok := true
	for _, c := range r.out {
		seen[c.name]++
		if !c.setsInvalid {
			ok = false
		}
	}
	for m := range mentioned {
		if seen[m] != 1 {
			ok = false
		}
	}
	if len(seen) != len(mentioned) {
		ok = false
	}
	return r.out, ok
}

func findFunc(f *ast.File, recv, name string) *ast.FuncDecl {
	for _, d := range f.Decls {
		fd, ok := d.(*ast.FuncDecl)
		if !ok || fd.Name.Name != name {
			continue
		}
		if recv == "" && fd.Recv == nil {
			return fd
		}
		if recv != "" && fd.Recv != nil {
			return fd
		}
	}
	return nil
}

// callsIn lists, in call order and without repetition, the calls inside fn whose
// rendered callee is in the watch list; calls of other functions declared in the
// same file are followed one level (a refactoring into helpers keeps the list).
func callsIn(fset *token.FileSet, file *ast.File, fn *ast.FuncDecl, watch []string) []string {
	w := map[string]bool{}
	for _, x := range watch {
		w[x] = true
	}
	local := map[string]*ast.FuncDecl{}
	for _, d := range file.Decls {
		if fd, ok := d.(*ast.FuncDecl); ok && fd.Recv == nil {
			local[fd.Name.Name] = fd
		}
	}
	seen := map[string]bool{}
	var res []string
	var visit func(b *ast.BlockStmt, depth int)
	visit = func(b *ast.BlockStmt, depth int) {
		ast.Inspect(b, func(n ast.Node) bool {
			if ce, ok := n.(*ast.CallExpr); ok {
				s := exprString(fset, ce.Fun)
				if w[s] {
					if !seen[s] {
						seen[s] = true
						res = append(res, s)
					}
				} else if fd := local[s]; fd != nil && fd.Body != nil && depth < 1 && fd != fn {
					visit(fd.Body, depth+1)
				}
			}
			return true
		})
	}
	visit(fn.Body, 0)
	return res
}

func gen(out string) error {
	fset := token.NewFileSet()
	parse := func(rel string) (*ast.File, error) {
		return parser.ParseFile(fset, filepath.Join(repoDir(), rel), nil, 0)
	}
	vf, err := parse("consensus/validate.go")
	if err != nil {
		return err
	}
	vfn := findFunc(vf, "HeaderValidator", "ValidateHeader")
	if vfn == nil {
		return fmt.Errorf("ValidateHeader not found")
	}
	// helpers may live in any file of the package
	pkgFiles := []*ast.File{vf}
	if ms, _ := filepath.Glob(filepath.Join(repoDir(), "consensus", "*.go")); ms != nil {
		for _, m := range ms {
			if strings.HasSuffix(m, "_test.go") || strings.HasSuffix(m, "validate.go") {
				continue
			}
			if f, e := parser.ParseFile(fset, m, nil, 0); e == nil {
				pkgFiles = append(pkgFiles, f)
			}
		}
	}
	checks, understood := readChecks(fset, pkgFiles, vfn)
	source := "ast"
	if os.Getenv("C40_FORCE_PROBE") != "" { // exercise the fallback
		understood = false
	}
	if !understood {
		// the source form is not one we can read: derive the table from observed behaviour
		pc, perr := probeChecks()
		if perr != nil {
			return fmt.Errorf("check list unreadable from source (%d entries) and probe failed: %v", len(checks), perr)
		}
		checks, source = pc, "probe"
	}

	bf, err := parse("ledger/verify_block.go")
	if err != nil {
		return err
	}
	bfn := findFunc(bf, "", "VerifyBlock")
	if bfn == nil {
		return fmt.Errorf("VerifyBlock not found")
	}
	vbCalls := callsIn(fset, bf, bfn, []string{"vrf.MkSeedTPraos", "vrf.MkInputVrf", "vrf.Verify", "extractOriginalBodyCbor",
		"ExtractKesFields", "VerifyKesComponents", "validateDijkstraBlockBodyHash", "common.ValidateBlockBodyHash",
		"VerifyOpCertSignature", "ValidateOpCert", "ValidateKesPeriod"})
	of, err := parse("ledger/verify_opcert.go")
	if err != nil {
		return err
	}
	ofn := findFunc(of, "", "ValidateOpCert")
	if ofn == nil {
		return fmt.Errorf("ValidateOpCert not found")
	}
	ocCalls := callsIn(fset, of, ofn, []string{"VerifyOpCertSignature", "ValidateKesPeriod"})

	type kv struct {
		k string
		v uint64
	}
	cs := []kv{
		{"vrf.PublicKeySize", vrf.PublicKeySize}, {"vrf.ProofSize", vrf.ProofSize}, {"vrf.OutputSize", vrf.OutputSize},
		{"kes.CardanoKesSignatureSize", kes.CardanoKesSignatureSize}, {"kes.PublicKeySize", kes.PublicKeySize},
		{"kes.CardanoKesDepth", kes.CardanoKesDepth},
		{"ed25519.PublicKeySize", ed25519.PublicKeySize}, {"ed25519.SignatureSize", ed25519.SignatureSize},
		{"ConsensusModeCPraos", uint64(consensus.ConsensusModeCPraos)}, {"ConsensusModeTPraos", uint64(consensus.ConsensusModeTPraos)},
		{"len(OpCertSignableBytes(32))", uint64(len(common.OpCertSignableBytes(make([]byte, 32), 1, 2)))},
		{"HeaderBodyLengthShelleyLike", ledger.HeaderBodyLengthShelleyLike}, {"HeaderBodyLengthBabbageLike", ledger.HeaderBodyLengthBabbageLike},
	}
	var sb strings.Builder
	sb.WriteString("(* written by harness/cmd/c40 gen *)\nFrom Coq Require Import String.\nFrom V Require Import Lib.Base.\nOpen Scope string_scope.\n")
	sb.WriteString("(* the validate* calls of HeaderValidator.ValidateHeader in source order: method, enclosing guard,\n   whether a non-nil error sets result.Valid = false and is appended to result.Errors *)\n")
	fmt.Fprintf(&sb, "Definition checks_source : string := %s.\n", vh.Str(source))
	sb.WriteString("Definition go_checks : list (string * string * bool) :=\n  [")
	for i, c := range checks {
		if i > 0 {
			sb.WriteString(";\n   ")
		}
		fmt.Fprintf(&sb, "(%s, %s, %s)", vh.Str(c.name), vh.Str(c.guard), vh.Bool(c.setsInvalid))
	}
	sb.WriteString("].\n")
	strs := func(name string, xs []string) {
		fmt.Fprintf(&sb, "Definition %s : list string :=\n  [", name)
		for i, x := range xs {
			if i > 0 {
				sb.WriteString("; ")
			}
			sb.WriteString(vh.Str(x))
		}
		sb.WriteString("].\n")
	}
	strs("go_verify_block_calls", vbCalls)
	strs("go_validate_opcert_calls", ocCalls)
	sb.WriteString("Definition go_consts : list (string * N) :=\n  [")
	for i, c := range cs {
		if i > 0 {
			sb.WriteString(";\n   ")
		}
		fmt.Fprintf(&sb, "(%s, %s)", vh.Str(c.k), vh.N(c.v))
	}
	sb.WriteString("].\n")
	if out == "" {
		fmt.Print(sb.String())
		return nil
	}
	return vh.WriteIfChanged(out, sb.String())
}
