// Argument-layout variation.  Every byte-slice argument of an entry point is
// supplied (1) as an exact-capacity copy, (2) as a sub-slice with spare
// capacity followed by zero bytes, (3) as ADJACENT sub-slices of one flat
// record, in enough orders that every ordered pair of arguments is neighbours
// at least once.  After every call: the verdict must be the one of the
// exact-capacity call (which is the one compared with the Coq model, where
// arguments are values), and no caller buffer may have changed.
package main

import (
	"bytes"
	"fmt"

	"verifharness/vh"
)

type argSpec struct {
	name string
	val  []byte
}

type laid struct {
	kind    string
	args    map[string][]byte
	bufs    [][]byte
	snaps   [][]byte
	regions [][]region // per buffer
}
type region struct {
	name     string
	off, end int
}

func (l *laid) snapshot() {
	l.snaps = nil
	for _, b := range l.bufs {
		l.snaps = append(l.snaps, bytes.Clone(b))
	}
}

// modified reports the argument behind which (or inside which) the caller's memory changed.
func (l *laid) modified() (string, string, bool) {
	for i, b := range l.bufs {
		if bytes.Equal(b, l.snaps[i]) {
			continue
		}
		p := 0
		for p < len(b) && b[p] == l.snaps[i][p] {
			p++
		}
		culprit, where := "?", "?"
		for _, rg := range l.regions[i] {
			if rg.end == p { // written right behind this argument: an append onto the caller's slice
				culprit, where = rg.name, "behind it"
			}
		}
		for _, rg := range l.regions[i] {
			if culprit == "?" && p >= rg.off && p < rg.end {
				culprit, where = rg.name, "inside it"
			}
			if p >= rg.off && p < rg.end && where == "behind it" {
				where = "behind it, over " + rg.name
			}
		}
		if culprit == "?" { // in the spare space: behind the last argument that ends before it
			best := -1
			for _, rg := range l.regions[i] {
				if rg.end <= p && rg.end > best {
					best, culprit, where = rg.end, rg.name, "behind it"
				}
			}
		}
		return culprit, fmt.Sprintf("buffer byte %d changed (%s); before %x after %x", p, where, l.snaps[i][p:min(len(b), p+16)], b[p:min(len(b), p+16)]), true
	}
	return "", "", false
}

func layExact(specs []argSpec) *laid {
	l := &laid{kind: "exact", args: map[string][]byte{}}
	for _, s := range specs {
		if len(s.val) == 0 {
			l.args[s.name] = s.val
			continue
		}
		b := make([]byte, len(s.val))
		copy(b, s.val)
		l.args[s.name] = b[:len(b):len(b)]
		l.bufs = append(l.bufs, b)
		l.regions = append(l.regions, []region{{s.name, 0, len(b)}})
	}
	l.snapshot()
	return l
}

func laySpare(specs []argSpec) *laid {
	l := &laid{kind: "spare", args: map[string][]byte{}}
	for _, s := range specs {
		if len(s.val) == 0 {
			l.args[s.name] = s.val
			continue
		}
		b := make([]byte, len(s.val)+48)
		copy(b, s.val)
		l.args[s.name] = b[:len(s.val)]
		l.bufs = append(l.bufs, b)
		l.regions = append(l.regions, []region{{s.name, 0, len(s.val)}})
	}
	l.snapshot()
	return l
}

// layRecord puts the non-empty arguments next to each other in one buffer, in the order perm.
func layRecord(specs []argSpec, perm []int) *laid {
	l := &laid{kind: "record", args: map[string][]byte{}}
	total := 48
	for _, s := range specs {
		total += len(s.val)
	}
	rec := make([]byte, total)
	var regs []region
	off := 0
	order := ""
	for _, i := range perm {
		s := specs[i]
		if len(s.val) == 0 {
			l.args[s.name] = s.val
			continue
		}
		copy(rec[off:], s.val)
		l.args[s.name] = rec[off : off+len(s.val)]
		regs = append(regs, region{s.name, off, off + len(s.val)})
		off += len(s.val)
		order += s.name + "|"
	}
	l.kind = "record:" + order
	l.bufs = [][]byte{rec}
	l.regions = [][]region{regs}
	l.snapshot()
	return l
}

// coverPerms returns permutations of 0..n-1 such that every ordered pair (i, j), i != j,
// is adjacent in at least one of them.
func coverPerms(r *vh.Rng, n int) [][]int {
	if n <= 1 {
		return [][]int{{0}}[:n]
	}
	unc := map[[2]int]bool{}
	for i := 0; i < n; i++ {
		for j := 0; j < n; j++ {
			if i != j {
				unc[[2]int{i, j}] = true
			}
		}
	}
	var res [][]int
	for len(unc) > 0 && len(res) < 4*n+8 {
		used := make([]bool, n)
		// start with an element that still has an uncovered successor
		cur := r.Intn(n)
		for k := 0; k < n; k++ {
			c := (cur + k) % n
			has := false
			for j := 0; j < n; j++ {
				has = has || unc[[2]int{c, j}]
			}
			if has {
				cur = c
				break
			}
		}
		p := []int{cur}
		used[cur] = true
		for len(p) < n {
			next := -1
			st := r.Intn(n)
			for k := 0; k < n; k++ {
				j := (st + k) % n
				if !used[j] && unc[[2]int{cur, j}] {
					next = j
					break
				}
			}
			if next < 0 {
				for k := 0; k < n; k++ {
					j := (st + k) % n
					if !used[j] {
						next = j
						break
					}
				}
			}
			delete(unc, [2]int{cur, next})
			used[next] = true
			p = append(p, next)
			cur = next
		}
		res = append(res, p)
	}
	return res
}

// layouts returns the exact layout first (the reference), then spare, then the records.
func layouts(r *vh.Rng, specs []argSpec) []*laid {
	ls := []*laid{layExact(specs), laySpare(specs)}
	var idx []int
	for i, s := range specs {
		if len(s.val) > 0 {
			idx = append(idx, i)
		}
	}
	for _, p := range coverPerms(r, len(idx)) {
		perm := make([]int, 0, len(specs))
		for _, k := range p {
			perm = append(perm, idx[k])
		}
		for i, s := range specs {
			if len(s.val) == 0 {
				perm = append(perm, i)
			}
		}
		ls = append(ls, layRecord(specs, perm))
	}
	return ls
}

// runLayouts calls entry with every layout.  entry returns a canonical verdict.  report
// receives the violations; each(l, verdict) is called after every call.
func runLayouts(r *vh.Rng, entry string, specs []argSpec, call func(args map[string][]byte) string,
	violate func(key, what string), each func(l *laid, verdict string)) (string, int) {
	ref := ""
	n := 0
	for i, l := range layouts(r, specs) {
		var v string
		if p, pv := vh.Recover(func() { v = call(l.args) }); p {
			v = fmt.Sprintf("panic: %v", pv)
		}
		n++
		if i == 0 {
			ref = v
		} else if v != ref {
			violate("verdict-depends-on-argument-layout:"+entry, fmt.Sprintf("%s with arguments laid out as %s gives %s, with exact-capacity copies %s", entry, l.kind, v, ref))
		}
		if who, what, ok := l.modified(); ok {
			violate("caller-buffer-modified:"+entry+":"+who, fmt.Sprintf("%s (layout %s) wrote into its caller's memory: %s", entry, l.kind, what))
		}
		if each != nil {
			each(l, v)
		}
	}
	return ref, n
}
