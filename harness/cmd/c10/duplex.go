package main

import (
	"bytes"
	"fmt"
	"net"
	"time"

	"github.com/blinklabs-io/gouroboros/muxer"

	"verifharness/vh"
)

// dx cases: ONE real muxer with BOTH a responder (server) and an initiator
// (client) instance of the same protocol id; the scripted peer feeds segments
// of both directions (response bit clear = for the server instance, set = for
// the client instance) interleaved so that segments of opposite direction are
// adjacent on the wire, messages of either direction being split over several
// segments.  Verdict per (id, direction): handler-received sequence ==
// queued sequence, byte for byte.

type dxSeg struct {
	Resp bool   `json:"resp"`
	Hex  string `json:"hex"`
}

type dxCase struct {
	Kind    string   `json:"kind"` // "dx"
	Class   string   `json:"class"`
	Wire    []dxSeg  `json:"wire"`
	ExpReq  []string `json:"exp_req"`  // messages for the server instance
	ExpResp []string `json:"exp_resp"` // messages for the client instance
}

const dxTimeout = 10 * time.Second

type dxObs struct {
	Req, Resp       []delivered
	ReqErr, RespErr bool
	Text            string
}

func runDx(dc *dxCase) dxObs {
	a, b := net.Pipe()
	mux := muxer.New(a)
	mux.SetDiffusionMode(muxer.DiffusionModeInitiatorAndResponder)
	srv := newProto(mux, true, stateMap())
	cli := newProto(mux, false, rxClientStateMap())
	srv.P.Start()
	cli.P.Start()
	mux.Start()
	defer func() {
		srv.stop()
		cli.stop()
		b.Close()
		a.Close()
	}()
	write := func(p []byte, resp bool) bool {
		_ = b.SetWriteDeadline(time.Now().Add(dxTimeout))
		_, err := b.Write(frameDir(p, resp))
		return err == nil
	}
	for _, s := range dc.Wire {
		if !write(vh.UnHex(s.Hex), s.Resp) {
			break
		}
	}
	okS := srv.waitFor(len(dc.ExpReq), false, dxTimeout)
	okC := cli.waitFor(len(dc.ExpResp), false, dxTimeout)
	sent := []byte{0x82, 0x07, 0x44, 'S', 'E', 'N', 'T'}
	trim := func(e *endpoint, n int, ok bool, resp bool) []delivered {
		if ok && !e.errSeen && write(sent, resp) && e.waitFor(n+1, false, dxTimeout) {
			got := e.snapshot()
			if len(got) == n+1 && bytes.Equal(got[n].Raw, sent) {
				return got[:n]
			}
			return got
		}
		return e.snapshot()
	}
	req := trim(srv, len(dc.ExpReq), okS, false)
	resp := trim(cli, len(dc.ExpResp), okC, true)
	srv.pollErr()
	cli.pollErr()
	return dxObs{Req: req, Resp: resp, ReqErr: srv.errSeen, RespErr: cli.errSeen, Text: srv.errText + cli.errText}
}

func doDx(c *vh.Ctx, cf *vh.CaseFile, dc *dxCase) {
	c.Begin(dc)
	var ob dxObs
	panicked, pv := vh.Recover(func() { ob = runDx(dc) })
	total, adj := 0, 0
	for i, s := range dc.Wire {
		total += len(s.Hex) / 2
		if i > 0 && dc.Wire[i-1].Resp != s.Resp {
			adj++
		}
	}
	c.Res.Count(fmt.Sprintf("%v", dc.Wire), adj >= 1, "dx:"+dc.Class)
	c.Res.Distribution["dx-direction-changes"] += adj
	c.Res.Sample(map[string]any{"class": dc.Class, "segments": len(dc.Wire), "bytes": total, "direction_changes": adj,
		"to_server": len(dc.ExpReq), "to_client": len(dc.ExpResp)})
	if panicked {
		c.Res.Violate("monitor", "dx-panic:"+dc.Class, fmt.Sprintf("panic: %v", pv), dc)
		return
	}
	check := func(dir string, got []delivered, exp []string, err bool) {
		e := make([][]byte, len(exp))
		for i, h := range exp {
			e[i] = vh.UnHex(h)
		}
		if err {
			c.Res.Violate("monitor", "dx-spurious-error:"+dir+":"+dc.Class,
				fmt.Sprintf("duplex: the %s instance reported an error on a valid stream: %s (received %d of %d)", dir, ob.Text, len(got), len(e)), dc)
		} else if k := firstDiff(got, e); k >= 0 || len(got) != len(e) {
			c.Res.Violate("monitor", "dx-messages-differ:"+dir+":"+dc.Class,
				fmt.Sprintf("duplex: the %s instance received %d messages, %d were sent in its direction; first difference at index %d", dir, len(got), len(e), k), dc)
		}
	}
	check("responder", ob.Req, dc.ExpReq, ob.ReqErr)
	check("initiator", ob.Resp, dc.ExpResp, ob.RespErr)
	if total > 6000 {
		return // large payloads: monitor only (Coq literals)
	}
	w := make([]string, len(dc.Wire))
	for i, s := range dc.Wire {
		w[i] = fmt.Sprintf("((%d%%N, %s), %s)", protoId, vh.Bool(s.Resp), vh.Bytes(vh.UnHex(s.Hex)))
	}
	cf.Add(fmt.Sprintf("CD (DC %d%%N %s %s %s %s %s)", protoId, vh.List(w), coqMsgs(ob.Req), vh.Bool(ob.ReqErr), coqMsgs(ob.Resp), vh.Bool(ob.RespErr)), dc)
}

// interleave merges the two segment lists keeping each list's order.
// mode 0: strict alternation; 1: random; 2: bursts of 1..3
func interleave(r *vh.Rng, req, resp []string, mode int) []dxSeg {
	var out []dxSeg
	i, j := 0, 0
	turn := r.Bool()
	burst := 0
	for i < len(req) || j < len(resp) {
		switch mode {
		case 1:
			turn = r.Bool()
		case 2:
			if burst == 0 {
				turn = !turn
				burst = 1 + r.Intn(3)
			}
			burst--
		default:
			turn = !turn
		}
		if (turn && j < len(resp)) || i >= len(req) {
			out = append(out, dxSeg{true, resp[j]})
			j++
		} else {
			out = append(out, dxSeg{false, req[i]})
			i++
		}
	}
	return out
}

func genDx(c *vh.Ctx) []*dxCase {
	r := c.Rng.Fork()
	var out []*dxCase
	mk := func(k int) ([]string, []byte) {
		var msgs []string
		var stream []byte
		for i := 0; i < k; i++ {
			m, _ := randMsg(r)
			b := m.Enc()
			msgs = append(msgs, vh.Hex(b))
			stream = append(stream, b...)
		}
		return msgs, stream
	}
	// corpus: one whole message per direction, response first then request, and the reverse
	{
		m1, m2 := []byte{0x82, 0x01, 0x41, 0xaa}, []byte{0x83, 0x02, 0x00, 0x60}
		out = append(out, &dxCase{Kind: "dx", Class: "corpus", Wire: []dxSeg{{true, vh.Hex(m1)}, {false, vh.Hex(m2)}},
			ExpReq: []string{vh.Hex(m2)}, ExpResp: []string{vh.Hex(m1)}})
		out = append(out, &dxCase{Kind: "dx", Class: "corpus", Wire: []dxSeg{{false, vh.Hex(m2)}, {true, vh.Hex(m1)}, {false, vh.Hex(m2)}},
			ExpReq: []string{vh.Hex(m2), vh.Hex(m2)}, ExpResp: []string{vh.Hex(m1)}})
		// a message of one direction split around a segment of the other
		out = append(out, &dxCase{Kind: "dx", Class: "corpus", Wire: []dxSeg{{false, vh.Hex(m2[:2])}, {true, vh.Hex(m1)}, {false, vh.Hex(m2[2:])}},
			ExpReq: []string{vh.Hex(m2)}, ExpResp: []string{vh.Hex(m1)}})
	}
	for i := 0; i < c.Pick(18, 120); i++ {
		reqM, reqS := mk(1 + r.Intn(4))
		respM, respS := mk(1 + r.Intn(4))
		req := cut(reqS, randCuts(r, len(reqS), 1+r.Intn(6)))
		resp := cut(respS, randCuts(r, len(respS), 1+r.Intn(6)))
		mode := i % 3
		out = append(out, &dxCase{Kind: "dx", Class: []string{"alternating", "random", "bursts"}[mode],
			Wire: interleave(r, req, resp, mode), ExpReq: reqM, ExpResp: respM})
	}
	// multi-segment messages in both directions, segments alternating
	for i := 0; i < c.Pick(2, 8); i++ {
		const S = 65535
		big := func(n int) ([]string, []string) {
			var msgs, segs []string
			var stream []byte
			for _, sz := range []int{n, 5 + r.Intn(100)} {
				b := msgSpec{Size: sz, Type: uint8(r.Intn(8)), Fill: r.U64() | 1}.bytes()
				msgs = append(msgs, vh.Hex(b))
				stream = append(stream, b...)
			}
			for len(stream) > 0 {
				k := min(S, len(stream))
				segs = append(segs, vh.Hex(stream[:k]))
				stream = stream[k:]
			}
			return msgs, segs
		}
		reqM, req := big(S + 10 + r.Intn(2*S))
		respM, resp := big(2*S - 3 + r.Intn(S))
		out = append(out, &dxCase{Kind: "dx", Class: "multi-segment", Wire: interleave(r, req, resp, i%2), ExpReq: reqM, ExpResp: respM})
	}
	return out
}
