package main

import (
	"encoding/binary"
	"errors"
	"net"
	"sync"
	"time"

	"github.com/blinklabs-io/gouroboros/muxer"
	"github.com/blinklabs-io/gouroboros/protocol"
)

// The mini-protocol driven by the harness: two states, the client always has
// agency, every message type below 8 is allowed in both states.
//
//	Idle(1) --t--> Busy(2) --t--> Busy(2)
//
// Busy differs from the initial state so that readLoop's "empty message"
// return is reported as an error (protocol.go IsInTerminalOrIdleState).
var (
	stIdle = protocol.NewState(1, "Idle")
	stBusy = protocol.NewState(2, "Busy")
)

const protoId = 77

func stateMap() protocol.StateMap {
	var ts []protocol.StateTransition
	for t := 0; t < 8; t++ {
		ts = append(ts, protocol.StateTransition{MsgType: uint8(t), NewState: stBusy})
	}
	return protocol.StateMap{
		stIdle: protocol.StateMapEntry{Agency: protocol.AgencyClient, Transitions: ts},
		stBusy: protocol.StateMapEntry{Agency: protocol.AgencyClient, Transitions: ts},
	}
}

// gmsg is the generic message: any CBOR array whose first element is the type.
type gmsg struct {
	protocol.MessageBase
}

func newMsg(raw []byte, typ uint8) *gmsg {
	m := &gmsg{}
	m.MessageType = typ
	m.SetCbor(raw)
	return m
}

// fromCbor is the MessageFromCborFunc: types below 8 give a message, 8..199
// an error, 200 and above nil (unknown message type).  Mirrored by
// C10.Model.h_accepts.
func fromCbor(t uint, data []byte) (protocol.Message, error) {
	if t >= 200 {
		return nil, nil
	}
	if t >= 8 {
		return nil, errors.New("harness: undecodable message")
	}
	return newMsg(data, uint8(t)), nil
}

type delivered struct {
	Type uint8
	Raw  []byte
}

// endpoint is one real muxer + protocol.Protocol on one end of a pipe.
type endpoint struct {
	P       *protocol.Protocol
	Mux     *muxer.Muxer
	ErrChan chan error
	mu      sync.Mutex
	got     []delivered
	errSeen bool
	errText string
}

func (e *endpoint) handler(m protocol.Message) error {
	raw := append([]byte(nil), m.Cbor()...)
	e.mu.Lock()
	e.got = append(e.got, delivered{m.Type(), raw})
	e.mu.Unlock()
	return nil
}

func (e *endpoint) snapshot() []delivered {
	e.mu.Lock()
	defer e.mu.Unlock()
	return append([]delivered(nil), e.got...)
}

func (e *endpoint) count() int {
	e.mu.Lock()
	defer e.mu.Unlock()
	return len(e.got)
}

func newEndpoint(conn net.Conn, server bool) *endpoint {
	mux := muxer.New(conn)
	mux.SetDiffusionMode(muxer.DiffusionModeInitiatorAndResponder)
	e := newProto(mux, server, stateMap())
	e.P.Start()
	e.Mux.Start()
	return e
}

// rxClientStateMap: the server has agency in both states, so the CLIENT
// (initiator) instance is the receiving side (duplex scenario: what a peer's
// server sends to our client travels with the response bit set).
func rxClientStateMap() protocol.StateMap {
	sm := stateMap()
	for k, e := range sm {
		e.Agency = protocol.AgencyServer
		sm[k] = e
	}
	return sm
}

// newProto creates (does not start) one protocol instance on an existing muxer.
func newProto(mux *muxer.Muxer, server bool, sm protocol.StateMap) *endpoint {
	e := &endpoint{ErrChan: make(chan error, 16), Mux: mux}
	role := protocol.ProtocolRoleClient
	if server {
		role = protocol.ProtocolRoleServer
	}
	e.P = protocol.New(protocol.ProtocolConfig{
		Name: "c10", ProtocolId: protoId, ErrorChan: e.ErrChan, Muxer: e.Mux,
		Mode: protocol.ProtocolModeNodeToNode, Role: role,
		MessageHandlerFunc: e.handler, MessageFromCborFunc: fromCbor,
		StateMap: sm, InitialState: stIdle,
	})
	return e
}

// stop shuts the endpoint down.  The muxer goes first: Protocol.Stop takes the
// muxer's per-protocol receive lock, which the muxer's read loop holds while
// it is blocked handing over a segment.  Bounded, so that a wedged
// implementation cannot wedge the harness.
func (e *endpoint) stop() {
	done := make(chan struct{})
	go func() {
		e.Mux.Stop()
		e.P.Stop()
		close(done)
	}()
	select {
	case <-done:
	case <-time.After(5 * time.Second):
	}
}

func (e *endpoint) pollErr() {
	for {
		select {
		case err := <-e.ErrChan:
			if err != nil {
				e.errSeen = true
				e.errText = err.Error()
			}
		default:
			return
		}
	}
}

// waitFor polls until the handler has seen at least n messages and (if
// wantErr) an error was reported, or the timeout expires.  It never decides a
// verdict by itself: on a tree where the property holds the awaited event
// arrives; the timeout only bounds the run on a broken tree.
func (e *endpoint) waitFor(n int, wantErr bool, timeout time.Duration) bool {
	deadline := time.Now().Add(timeout)
	var errAt time.Time
	for {
		e.pollErr()
		c := e.count()
		if c >= n && (!wantErr || e.errSeen) {
			return true
		}
		now := time.Now()
		if e.errSeen && c < n {
			// an error stops the protocol; allow what was queued to be handed over
			if errAt.IsZero() {
				errAt = now
			} else if now.Sub(errAt) > 200*time.Millisecond {
				return false
			}
		}
		if now.After(deadline) {
			return false
		}
		time.Sleep(100 * time.Microsecond)
	}
}

// tapConn records everything written to the connection (the wire image of
// the sending side).
type tapConn struct {
	net.Conn
	mu  sync.Mutex
	buf []byte
}

func (t *tapConn) Write(b []byte) (int, error) {
	t.mu.Lock()
	t.buf = append(t.buf, b...)
	t.mu.Unlock()
	return t.Conn.Write(b)
}

// frames deframes the recorded wire image: 8-byte header = 4-byte timestamp,
// 2-byte protocol id (top bit = response), 2-byte payload length.
func (t *tapConn) frames() (payloads [][]byte, ids []uint16, ok bool) {
	t.mu.Lock()
	b := append([]byte(nil), t.buf...)
	t.mu.Unlock()
	for len(b) > 0 {
		if len(b) < 8 {
			return payloads, ids, false
		}
		id := binary.BigEndian.Uint16(b[4:6])
		n := int(binary.BigEndian.Uint16(b[6:8]))
		if len(b) < 8+n {
			return payloads, ids, false
		}
		payloads = append(payloads, b[8:8+n])
		ids = append(ids, id)
		b = b[8+n:]
	}
	return payloads, ids, true
}

// frame builds one raw mux segment as the scripted peer (initiator side).
func frame(payload []byte) []byte { return frameDir(payload, false) }

// frameDir: resp = the response bit (segment from the peer's responder, for
// our initiator instance).
func frameDir(payload []byte, resp bool) []byte {
	buf := make([]byte, 8+len(payload))
	binary.BigEndian.PutUint32(buf[0:4], 1)
	id := uint16(protoId)
	if resp {
		id |= 0x8000
	}
	binary.BigEndian.PutUint16(buf[4:6], id)
	binary.BigEndian.PutUint16(buf[6:8], uint16(len(payload)))
	copy(buf[8:], payload)
	return buf
}
