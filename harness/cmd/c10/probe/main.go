package main

import (
	"encoding/hex"
	"fmt"
	"strings"

	"github.com/blinklabs-io/gouroboros/cbor"
)

func main() {
	for _, h := range []string{
 "81c105", "81c120", "81c1f93c00", "81c1fb4014000000000000", "81d818f6", "81c2d8184101", "c18100","c1 00", "81c25f41014102ff", "81c2 49 000000000000000005",
	} {
		b, _ := hex.DecodeString(strings.ReplaceAll(h, " ", ""))
		tmp := []cbor.RawMessage{}
		n, err := cbor.Decode(b, &tmp)
		s := fmt.Sprintf("%-28s n=%d len=%d err=%v", h, n, len(tmp), err)
		if err == nil && len(tmp) > 0 {
			var t uint
			_, e2 := cbor.Decode(tmp[0], &t)
			s += fmt.Sprintf("  type=%d e2=%v", t, e2)
		}
		fmt.Println(s)
	}
}
