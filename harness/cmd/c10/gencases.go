package main

import (
	"fmt"
	"go/ast"
	"go/parser"
	"go/token"
	"net"
	"path/filepath"
	"time"

	"verifharness/vh"
)

// hasBuiltinTag: tags 0..3 carry typed content that fxamacker validates; the
// generator keeps them out of random items (they appear in their own class).
func hasBuiltinTag(i *vh.Item) bool {
	if i.K == vh.KTag && i.N < 4 {
		return true
	}
	for _, x := range i.Xs {
		if hasBuiltinTag(x) {
			return true
		}
	}
	return false
}

func randElem(r *vh.Rng) *vh.Item {
	for {
		it := vh.RandItem(r, 2)
		if !hasBuiltinTag(it) {
			return it
		}
	}
}

// randMsg: a message as any peer may encode it: [type, elements...] with
// arbitrary header forms, definite or indefinite outer array.
func randMsg(r *vh.Rng) (*vh.Item, uint8) {
	t := uint8(r.Intn(8))
	ty := vh.U(uint64(t))
	if r.Intn(4) == 0 {
		ty.F = []vh.Form{vh.F1, vh.F2, vh.F4, vh.F8}[r.Intn(4)]
	}
	xs := []*vh.Item{ty}
	for n := r.Intn(4); n > 0; n-- {
		xs = append(xs, randElem(r))
	}
	m := vh.A(xs...)
	switch r.Intn(5) {
	case 0:
		m.F = vh.Findef
	case 1:
		m.F = []vh.Form{vh.F1, vh.F2, vh.F4, vh.F8}[r.Intn(4)]
	}
	return m, t
}

// cut splits the stream at the given offsets (strictly increasing, inside).
func cut(stream []byte, offs []int) []string {
	var out []string
	prev := 0
	for _, o := range offs {
		if o <= prev || o >= len(stream) {
			continue
		}
		out = append(out, vh.Hex(stream[prev:o]))
		prev = o
	}
	return append(out, vh.Hex(stream[prev:]))
}

func randCuts(r *vh.Rng, n, pieces int) []int {
	seen := map[int]bool{}
	for i := 0; i < pieces-1 && n > 1; i++ {
		seen[1+r.Intn(n-1)] = true
	}
	var offs []int
	for o := 1; o < n; o++ {
		if seen[o] {
			offs = append(offs, o)
		}
	}
	return offs
}

func everyByte(n int) []int {
	offs := make([]int, 0, n)
	for o := 1; o < n; o++ {
		offs = append(offs, o)
	}
	return offs
}

// syncPoint: number of leading segments that end at or before goodLen and the
// number of messages wholly inside them.
func syncPoint(segs []string, msgs [][]byte, goodLen int) (int, int) {
	off, k := 0, 0
	for _, s := range segs {
		if off+len(s)/2 > goodLen {
			break
		}
		off += len(s) / 2
		k++
	}
	n, acc := 0, 0
	for _, m := range msgs {
		if acc+len(m) > off {
			break
		}
		acc += len(m)
		n++
	}
	return k, n
}

var badTails = []string{
	"1c", "ff", "3f", "5f6100ff", "5f5fffff", "f810", "bf01ff", "82001c", "9f001e", "df00", "81ff", "7f4100ff", "fc",
}

type special struct {
	hex    string
	accept bool // predicted: the real readLoop hands it to the handler
}

// decoder quirk classes (accept predictions from probing the pinned tree;
// they only drive how long the harness waits, the verdict is the model's)
var specials = []special{
	{"05", false}, {"4100", false}, {"a10001", false}, {"f5", false}, {"6161", false},
	{"d818820001", true}, {"d9d9f78100", true}, {"c48100", true}, {"d818d8198100", true},
	{"c2410182", false}, {"c0410182", false}, {"c18100", false},
	{"f6", false}, {"f7", false}, {"80", false}, {"9fff", false},
	{"8120", false}, {"81f93c00", false}, {"81f4", false}, {"816161", false}, {"818100", false}, {"81a0", false},
	{"81f6", true}, {"81f7", true}, {"81e5", true}, {"81f0", false}, {"81f8ff", false},
	{"81c24101", true}, {"81c240", true}, {"81c25f41004101ff", true}, {"81c249010000000000000000", false},
	{"81c249000000000000000005", true}, {"81d81803", true}, {"81c105", true}, {"81c120", false},
	{"81c34100", false}, {"81c06161", false}, {"81d818c24102", true},
	{"811808", false}, {"8118c8", false}, {"811bffffffffffffffff", false}, {"811907", false}, {"811800", true}, {"811a00000007", true},
	{"8200c04101", false}, {"8200c06161", true}, {"8200c200", false}, {"8200c24100", true}, {"8200c14100", false},
	{"8201c1fb4014000000000000", true}, {"8201c100", true}, {"8202d8184100", true}, {"8200c07f6161ff", true}, {"8200c25f4100ff", true},
}

func nested(depth int) []byte {
	out := []byte{0x82, 0x00}
	for i := 1; i < depth; i++ {
		out = append(out, 0x81)
	}
	return append(out, 0x00)
}

func genRx(c *vh.Ctx) []*rxCase {
	r := c.Rng.Fork()
	var out []*rxCase
	add := func(class string, segs []string, msgs [][]byte, err, exact bool, sync, syncN int) {
		rc := &rxCase{Kind: "rx", Class: class, Segs: segs, ExpErr: err, Exact: exact, Sync: sync, SyncN: syncN}
		for _, m := range msgs {
			rc.ExpMsg = append(rc.ExpMsg, vh.Hex(m))
		}
		out = append(out, rc)
	}
	mk := func(k int) ([][]byte, []byte) {
		var msgs [][]byte
		var stream []byte
		for i := 0; i < k; i++ {
			m, _ := randMsg(r)
			b := m.Enc()
			msgs = append(msgs, b)
			stream = append(stream, b...)
		}
		return msgs, stream
	}
	// regression corpus: a message ending exactly at a segment boundary followed
	// by another; two messages in one segment; header cut after the first byte
	{
		m1, m2 := []byte{0x82, 0x01, 0x43, 1, 2, 3}, []byte{0x9f, 0x18, 0x02, 0x5f, 0x41, 9, 0xff, 0xff}
		s := append(append([]byte{}, m1...), m2...)
		add("valid:corpus", cut(s, []int{len(m1)}), [][]byte{m1, m2}, false, true, 0, 0)
		add("valid:corpus", cut(s, nil), [][]byte{m1, m2}, false, true, 0, 0)
		add("valid:corpus", cut(s, []int{1, len(m1) + 1}), [][]byte{m1, m2}, false, true, 0, 0)
		add("valid:corpus", cut(s, everyByte(len(s))), [][]byte{m1, m2}, false, true, 0, 0)
		s3 := append(append(append([]byte{}, m1...), m2...), m1...)
		add("valid:corpus", cut(s3, []int{len(m1) + len(m2)}), [][]byte{m1, m2, m1}, false, true, 0, 0)
	}
	nValid := c.Pick(60, 400)
	for i := 0; i < nValid; i++ {
		msgs, s := mk(1 + r.Intn(6))
		var segs []string
		var class string
		switch i % 6 {
		case 0:
			segs, class = cut(s, nil), "valid:one-segment"
		case 1:
			segs, class = cut(s, everyByte(len(s))), "valid:byte-per-segment"
		case 2:
			var offs []int
			acc := 0
			for _, m := range msgs[:len(msgs)-1] {
				acc += len(m)
				offs = append(offs, acc)
			}
			segs, class = cut(s, offs), "valid:cut-at-boundaries"
		case 3:
			// a cut inside the first header bytes of some message
			acc := 0
			j := r.Intn(len(msgs))
			for _, m := range msgs[:j] {
				acc += len(m)
			}
			segs, class = cut(s, []int{acc + 1 + r.Intn(min(9, len(msgs[j])))}), "valid:cut-in-header"
		default:
			segs, class = cut(s, randCuts(r, len(s), 2+r.Intn(8))), "valid:random-cuts"
		}
		add(class, segs, msgs, false, true, 0, 0)
	}
	for i := 0; i < c.Pick(20, 120); i++ {
		msgs, s := mk(r.Intn(4))
		m, _ := randMsg(r)
		b := m.Enc()
		p := b[:1+r.Intn(len(b)-1)]
		s = append(s, p...)
		add("partial-tail", cut(s, randCuts(r, len(s), 1+r.Intn(5))), msgs, false, true, 0, 0)
	}
	for i := 0; i < c.Pick(40, 250); i++ {
		msgs, s := mk(1 + r.Intn(4))
		good := len(s)
		s = append(s, vh.UnHex(badTails[i%len(badTails)])...)
		s = append(s, r.Bytes(r.Intn(6))...)
		var offs []int
		if i%3 == 0 {
			offs = []int{good}
		} else if i%3 == 1 {
			offs = everyByte(len(s))
		} else {
			offs = randCuts(r, len(s), 2+r.Intn(6))
		}
		segs := cut(s, offs)
		k, n := syncPoint(segs, msgs, good)
		add("bad-tail", segs, msgs, true, true, k, n)
	}
	// decoder quirk classes: one good message (handled first), the special
	// item, and for accepted ones a second good message
	g1 := []byte{0x82, 0x01, 0x41, 0xaa}
	g2 := []byte{0x83, 0x02, 0x00, 0x60}
	for _, sp := range specials {
		b := vh.UnHex(sp.hex)
		if sp.accept {
			add("quirk:accepted", []string{vh.Hex(g1), vh.Hex(b), vh.Hex(g2)}, [][]byte{g1, b, g2}, false, false, 1, 1)
			add("quirk:accepted", cut(append(append(append([]byte{}, g1...), b...), g2...), everyByte(len(g1)+len(b)+len(g2))), [][]byte{g1, b, g2}, false, false, 0, 0)
		} else {
			add("quirk:rejected", []string{vh.Hex(g1), vh.Hex(b)}, [][]byte{g1}, true, false, 1, 1)
		}
	}
	// nesting limit of the configured decoder
	lim := 256
	if v, err := repoConst("cbor/decode.go", "cborMaxNestedLevels"); err == nil {
		lim = int(v)
	}
	for _, d := range []int{lim - 1, lim} {
		b := nested(d)
		add("depth:within", []string{vh.Hex(g1), vh.Hex(b), vh.Hex(g2)}, [][]byte{g1, b, g2}, false, false, 1, 1)
	}
	add("depth:exceeded", []string{vh.Hex(g1), vh.Hex(nested(lim + 1))}, [][]byte{g1}, true, false, 1, 1)
	return out
}

func repoConst(rel, name string) (uint64, error) {
	fset := token.NewFileSet()
	f, err := parser.ParseFile(fset, filepath.Join(repoRoot(), rel), nil, 0)
	if err != nil {
		return 0, err
	}
	return evalConst(&ast.Ident{Name: name}, constEnv(f), 0)
}

// ---------------------------------------------------------------------------

func smallSpec(r *vh.Rng) msgSpec {
	m, t := randMsg(r)
	return msgSpec{Hex: vh.Hex(m.Enc()), Type: t}
}

func genTx(c *vh.Ctx) []*txCase {
	r := c.Rng.Fork()
	var out []*txCase
	sz := func(n int) msgSpec { return msgSpec{Size: n, Type: uint8(r.Intn(8)), Fill: r.U64() | 1} }
	const S = 65535
	// boundary sizes, one message each, with and without waiting
	for _, n := range []int{2, 3, 25, 26, 27, 28, 258, 259, S - 1, S, S + 1, S + 2, 2*S - 1, 2 * S, 2*S + 1, 3 * S, 3*S + 1, 200000} {
		out = append(out, &txCase{Kind: "tx", Class: "single", Msgs: []msgSpec{sz(n)}, Mode: n % 2})
	}
	// two messages whose concatenation ends exactly on a segment boundary, then more
	for _, a := range []int{5, 100, 30000, S - 3} {
		out = append(out, &txCase{Kind: "tx", Class: "exact-fill", Msgs: []msgSpec{sz(a), sz(S - a), sz(7), sz(S), sz(9)}, Mode: 0})
		out = append(out, &txCase{Kind: "tx", Class: "exact-fill", Msgs: []msgSpec{sz(a), sz(2*S - a), sz(S - 4), sz(4), sz(3)}, Mode: 0, Yield: r.U64() | 1})
	}
	// many small structured messages, pipelined: several per segment
	for i := 0; i < c.Pick(6, 30); i++ {
		n := 20 + r.Intn(100)
		tc := &txCase{Kind: "tx", Class: "small-pipelined", Mode: 0}
		for j := 0; j < n; j++ {
			tc.Msgs = append(tc.Msgs, smallSpec(r))
		}
		if i%2 == 1 {
			tc.Yield = r.U64() | 1
		}
		out = append(out, tc)
	}
	// mixed sizes around the segment size, pipelined / mixed waiting
	for i := 0; i < c.Pick(8, 40); i++ {
		n := 5 + r.Intn(30)
		tc := &txCase{Kind: "tx", Class: "mixed", Mode: []int{0, 0, 2, 1}[i%4], Yield: r.U64() | 1}
		budget := c.Pick(1200000, 4000000)
		for j := 0; j < n && budget > 0; j++ {
			var m msgSpec
			switch r.Intn(6) {
			case 0, 1:
				m = smallSpec(r)
			case 2:
				m = sz(3 + r.Intn(3000))
			case 3:
				m = sz(S - 20 + r.Intn(40))
			case 4:
				m = sz(S*(1+r.Intn(3)) - 3 + r.Intn(7))
			default:
				m = sz(60000 + r.Intn(150000))
			}
			budget -= len(m.bytes())
			tc.Msgs = append(tc.Msgs, m)
		}
		out = append(out, tc)
	}
	// sequential (no pipelining)
	{
		tc := &txCase{Kind: "tx", Class: "sequential", Mode: 1}
		for j := 0; j < 12; j++ {
			tc.Msgs = append(tc.Msgs, sz(3+r.Intn(140000)))
		}
		out = append(out, tc)
	}
	if c.Thorough() {
		for _, n := range []int{1 << 20, 3 << 20, 16*S + 1, 3<<20 + 12345} {
			out = append(out, &txCase{Kind: "tx", Class: "large", Msgs: []msgSpec{sz(5), sz(n), sz(S), sz(n / 3)}, Mode: 0, Yield: r.U64() | 1})
		}
	}
	return out
}

// ---------------------------------------------------------------------------
// the incomplete-buffer cap, on the real readLoop, at the exact threshold

type capCase struct {
	Kind  string `json:"kind"` // "cap"
	Class string `json:"class"`
	Total int    `json:"total"` // encoded length of the single message [0, h'..']
	Cap   int    `json:"cap"`
	// Plan: sizes of the leading segments (the rest goes in full segments)
	Plan []int `json:"plan,omitempty"`
}

func genCap(c *vh.Ctx) []*capCase {
	capv := 16 * 1024 * 1024
	if v, err := repoConst("protocol/protocol.go", "maxReadBufferSize"); err == nil {
		capv = int(v)
	}
	return []*capCase{
		// the incomplete buffer grows to exactly cap bytes (one byte missing), then completes
		{Kind: "cap", Class: "buffer-at-cap-accepted", Total: capv + 1, Cap: capv, Plan: exactPlan(capv)},
		// the incomplete buffer reaches cap+1 bytes
		{Kind: "cap", Class: "buffer-over-cap-rejected", Total: capv + 2, Cap: capv, Plan: append(exactPlan(capv), 1)},
	}
}

// exactPlan: full segments, then one that brings the buffer to exactly cap, then one byte
func exactPlan(capv int) []int {
	var p []int
	rem := capv
	for rem > 65535 {
		p = append(p, 65535)
		rem -= 65535
	}
	return append(p, rem, 1)
}

func doCap(c *vh.Ctx, cc *capCase) {
	c.Begin(cc)
	msg := msgSpec{Size: cc.Total, Type: 0, Fill: 99}.bytes()
	a, b := net.Pipe()
	srv := newEndpoint(a, true)
	defer func() {
		srv.stop()
		b.Close()
		a.Close()
	}()
	const S = 65535
	c.Res.Count(fmt.Sprintf("cap/%d", cc.Total), true, "cap:"+cc.Class)
	// segment boundaries: the plan first, then full segments
	var ends []int
	off := 0
	for _, n := range cc.Plan {
		if off+n >= len(msg) {
			break
		}
		off += n
		ends = append(ends, off)
	}
	for off < len(msg) {
		off = min(off+S, len(msg))
		ends = append(ends, off)
	}
	// the buffer after segment k is an incomplete item of ends[k] bytes: an
	// error is due exactly when that first exceeds the cap while incomplete
	errDueAt := -1
	for k, e := range ends {
		if e < len(msg) && e > cc.Cap {
			errDueAt = k
			break
		}
	}
	lo := 0
	for _, hi := range ends {
		_ = b.SetWriteDeadline(time.Now().Add(waitTimeout))
		if _, err := b.Write(frame(msg[lo:hi])); err != nil {
			break
		}
		lo = hi
	}
	// the outcome is awaited, not timed: the real readLoop re-decodes the 16 MiB
	// buffer after every segment, which takes seconds on an idle machine and
	// minutes on a loaded one; the bound only limits a run on a broken tree
	settle := func() {
		deadline := time.Now().Add(10 * time.Minute)
		for time.Now().Before(deadline) {
			srv.pollErr()
			if srv.errSeen || srv.count() > 0 {
				return
			}
			time.Sleep(2 * time.Millisecond)
		}
	}
	settle()
	if errDueAt >= 0 {
		if !srv.errSeen {
			c.Res.Violate("monitor", "cap-not-enforced", fmt.Sprintf("an incomplete buffer of %d bytes exceeds the cap %d but no error was reported", ends[errDueAt], cc.Cap), cc)
		}
		if srv.count() != 0 {
			c.Res.Violate("monitor", "cap-message-delivered", "a message was delivered although the cap was exceeded first", cc)
		}
		return
	}
	if errDueAt < 0 {
		ok := srv.count() >= 1
		got := srv.snapshot()
		if !ok || srv.errSeen || len(got) != 1 || string(got[0].Raw) != string(msg) {
			c.Res.Violate("monitor", "cap-legitimate-message-rejected", fmt.Sprintf("message of %d bytes (cap %d; the incomplete buffer never exceeds the cap) not delivered: err=%q", len(msg), cc.Cap, srv.errText), cc)
		}
	}
}
