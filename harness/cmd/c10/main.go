// C10 - messages survive segmentation and reassembly unchanged.
//
// rx cases: a scripted raw-mux peer feeds chosen segment payloads (1-byte
// segments, cuts inside headers, many messages per segment, malformed bytes)
// to a REAL protocol.Protocol (readLoop) behind a real muxer on net.Pipe;
// observables: messages the handler receives (type, msg.Cbor()), error on
// ErrorChan.  tx cases: two REAL protocol.Protocol instances over a real
// muxer pair; the sender's connection is tapped and deframed; observables:
// segment payloads on the wire, messages the receiving handler gets.
package main

import (
	"bytes"
	"encoding/json"
	"fmt"
	"net"
	"os"
	"runtime"
	"time"

	"github.com/blinklabs-io/gouroboros/muxer"

	"verifharness/vh"
)

const header = `From Coq Require Import String.
From V Require Import Lib.Base Lib.Hex Lib.Cbor C10.Model.
Open Scope N_scope.`

const waitTimeout = 10 * time.Second

// ---------------------------------------------------------------------------
// rx: scripted peer -> real readLoop

type rxCase struct {
	Kind  string   `json:"kind"` // "rx"
	Class string   `json:"class"`
	Segs  []string `json:"segs"` // hex payloads, in order
	// Sync: number of leading segments after which the peer waits until the
	// handler has received SyncN messages (removes the race between readLoop's
	// error and recvLoop handing over earlier messages)
	Sync   int      `json:"sync"`
	SyncN  int      `json:"sync_n"`
	ExpMsg []string `json:"exp_msgs"` // hex of the messages the property demands (by construction)
	ExpErr bool     `json:"exp_err"`
	// Exact: the construction fixes the outcome (monitor applies); otherwise
	// the case only feeds the model-vs-implementation comparison
	Exact bool `json:"exact"`
}

type rxObs struct {
	Got  []delivered
	Err  bool
	Text string
	Done bool // the awaited outcome arrived before the timeout
}

func runRx(rc *rxCase) rxObs {
	a, b := net.Pipe()
	srv := newEndpoint(a, true)
	defer func() {
		srv.stop()
		b.Close()
		a.Close()
	}()
	write := func(p []byte) bool {
		_ = b.SetWriteDeadline(time.Now().Add(waitTimeout))
		_, err := b.Write(frame(p))
		return err == nil
	}
	for i, h := range rc.Segs {
		if i == rc.Sync && rc.SyncN > 0 {
			srv.waitFor(rc.SyncN, false, waitTimeout)
		}
		if !write(vh.UnHex(h)) {
			break
		}
	}
	done := srv.waitFor(len(rc.ExpMsg), rc.ExpErr, waitTimeout)
	if done && !rc.ExpErr {
		// nothing more may arrive: a sentinel message in its own segment is
		// delivered after everything else (only when no partial message is pending)
		if rc.Exact && rc.Class != "partial-tail" {
			sent := []byte{0x82, 0x07, 0x44, 'S', 'E', 'N', 'T'}
			if write(sent) {
				if srv.waitFor(len(rc.ExpMsg)+1, false, waitTimeout) {
					got := srv.snapshot()
					if len(got) == len(rc.ExpMsg)+1 && bytes.Equal(got[len(got)-1].Raw, sent) {
						srv.pollErr()
						return rxObs{Got: got[:len(got)-1], Err: srv.errSeen, Text: srv.errText, Done: true}
					}
					return rxObs{Got: got, Err: srv.errSeen, Text: srv.errText, Done: true}
				}
			}
		} else {
			time.Sleep(5 * time.Millisecond)
		}
	}
	srv.pollErr()
	return rxObs{Got: srv.snapshot(), Err: srv.errSeen, Text: srv.errText, Done: done}
}

func coqMsgs(ds []delivered) string {
	xs := make([]string, len(ds))
	for i, d := range ds {
		xs[i] = vh.Pair(vh.N(uint64(d.Type)), vh.Bytes(d.Raw))
	}
	return vh.List(xs)
}

func doRx(c *vh.Ctx, cf *vh.CaseFile, rc *rxCase) {
	c.Begin(rc)
	var ob rxObs
	panicked, pv := vh.Recover(func() { ob = runRx(rc) })
	total := 0
	for _, s := range rc.Segs {
		total += len(s) / 2
	}
	canon := fmt.Sprintf("%v", rc.Segs)
	c.Res.Count(canon, len(rc.Segs) >= 2 || len(rc.ExpMsg) >= 2 || rc.ExpErr, "rx:"+rc.Class)
	if len(rc.Segs) >= 3 {
		c.Res.Sample(map[string]any{"class": rc.Class, "segments": len(rc.Segs), "bytes": total, "messages": len(rc.ExpMsg), "error": rc.ExpErr})
	}
	if panicked {
		c.Res.Violate("monitor", "rx-panic:"+rc.Class, fmt.Sprintf("panic: %v", pv), rc)
		return
	}
	// ---- monitor: the property itself, from the construction of the case ----
	if rc.Exact {
		exp := make([][]byte, len(rc.ExpMsg))
		for i, h := range rc.ExpMsg {
			exp[i] = vh.UnHex(h)
		}
		if !rc.ExpErr {
			if ob.Err {
				c.Res.Violate("monitor", "rx-spurious-error:"+rc.Class,
					fmt.Sprintf("valid message stream cut into %d segments was rejected: %s (delivered %d of %d)", len(rc.Segs), ob.Text, len(ob.Got), len(exp)), rc)
			} else if k := firstDiff(ob.Got, exp); k >= 0 || len(ob.Got) != len(exp) {
				c.Res.Violate("monitor", "rx-messages-differ:"+rc.Class,
					fmt.Sprintf("handler received %d messages, sent %d; first difference at index %d", len(ob.Got), len(exp), k), rc)
			}
		} else {
			if !ob.Err {
				c.Res.Violate("monitor", "rx-malformed-not-rejected:"+rc.Class,
					fmt.Sprintf("malformed stream produced no error; handler received %d messages", len(ob.Got)), rc)
			}
			// what was delivered must be a prefix of the good messages
			if len(ob.Got) > len(exp) || firstDiff(ob.Got, exp[:min(len(exp), len(ob.Got))]) >= 0 {
				c.Res.Violate("monitor", "rx-message-from-bad-bytes:"+rc.Class,
					fmt.Sprintf("handler received %d messages, only the first %d are legitimate", len(ob.Got), len(exp)), rc)
			}
		}
	}
	// generic soundness, every case: delivered bytes are consecutive items of the stream
	var stream []byte
	for _, s := range rc.Segs {
		stream = append(stream, vh.UnHex(s)...)
	}
	off := 0
	for i, d := range ob.Got {
		_, n, err := vh.ParseItem(stream[off:])
		if err != nil || !bytes.Equal(stream[off:off+n], d.Raw) {
			c.Res.Violate("monitor", "rx-not-a-stream-item:"+rc.Class,
				fmt.Sprintf("delivered message %d is not the next item of the byte stream (offset %d)", i, off), rc)
			break
		}
		off += n
	}
	// ---- correspondence ----
	segs := make([]string, len(rc.Segs))
	for i, s := range rc.Segs {
		segs[i] = vh.Bytes(vh.UnHex(s))
	}
	cf.Add(fmt.Sprintf("CR (RC %s %s %s)", vh.List(segs), coqMsgs(ob.Got), vh.Bool(ob.Err)), rc)
}

func firstDiff(got []delivered, exp [][]byte) int {
	for i := range got {
		if i >= len(exp) {
			return i
		}
		if !bytes.Equal(got[i].Raw, exp[i]) {
			return i
		}
	}
	return -1
}

// ---------------------------------------------------------------------------
// tx: real sender -> wire tap -> real receiver

type msgSpec struct {
	Hex  string `json:"hex,omitempty"` // small structured message, verbatim
	Size int    `json:"size,omitempty"`
	Type uint8  `json:"type"`
	Fill uint64 `json:"fill,omitempty"`
}

// bytes builds [type, h'..'] with total encoded length Size (>= 3), or the
// verbatim small message.
func (m msgSpec) bytes() []byte {
	if m.Hex != "" {
		return vh.UnHex(m.Hex)
	}
	size := m.Size
	if size < 3 {
		size = 3
	}
	// largest pad with 2 + head(pad) + pad <= size
	pad := size - 3
	for 2+headLen(uint64(pad))+pad > size {
		pad--
	}
	body := make([]byte, pad)
	r := vh.NewRng(m.Fill)
	for i := 0; i < pad; i += 8 {
		v := r.U64()
		for j := 0; j < 8 && i+j < pad; j++ {
			body[i+j] = byte(v >> (8 * j))
		}
	}
	it := vh.A(vh.U(uint64(m.Type)), vh.B(body))
	out := it.Enc()
	// sizes that fall in a header-width gap are reached with a wider header
	for len(out) < size && it.Xs[1].F < vh.F8 {
		it.Xs[1].F++
		out = it.Enc()
	}
	return out
}

func headLen(n uint64) int {
	switch {
	case n < 24:
		return 1
	case n < 256:
		return 2
	case n < 65536:
		return 3
	case n < 1<<32:
		return 5
	}
	return 9
}

type txCase struct {
	Kind  string    `json:"kind"` // "tx"
	Class string    `json:"class"`
	Msgs  []msgSpec `json:"msgs"`
	// Mode: 0 = SendMessage for all (pipelined), 1 = SendMessageAndWait each,
	// 2 = mixed; Yield: perturb the producer with runtime.Gosched / short sleeps
	Mode  int    `json:"mode"`
	Yield uint64 `json:"yield"`
}

// inferBatches finds batch sizes such that the sender model yields exactly
// the observed segment lengths.
func inferBatches(lens []int, wire []int) ([]int, bool) {
	var rec func(i, j int) ([]int, bool)
	memo := map[[2]int]bool{}
	rec = func(i, j int) ([]int, bool) {
		if i == len(lens) {
			return nil, j == len(wire)
		}
		if memo[[2]int{i, j}] {
			return nil, false
		}
		total := 0
		for k := 1; k <= 20 && i+k <= len(lens); k++ {
			total += lens[i+k-1]
			// expected segments of this batch
			jj, rem, ok := j, total, true
			for {
				n := min(rem, muxer.SegmentMaxPayloadLength)
				if jj >= len(wire) || wire[jj] != n {
					ok = false
					break
				}
				jj++
				rem -= n
				if rem == 0 {
					break
				}
			}
			if ok {
				if rest, ok2 := rec(i+k, jj); ok2 {
					return append([]int{k}, rest...), true
				}
			}
			if total > muxer.SegmentMaxPayloadLength {
				break // the batch stops once it spills over one segment
			}
		}
		memo[[2]int{i, j}] = true
		return nil, false
	}
	return rec(0, 0)
}

func doTx(c *vh.Ctx, cf *vh.CaseFile, tc *txCase) {
	c.Begin(tc)
	msgs := make([][]byte, len(tc.Msgs))
	totalBytes := 0
	for i, m := range tc.Msgs {
		msgs[i] = m.bytes()
		totalBytes += len(msgs[i])
	}
	a, b := net.Pipe()
	tap := &tapConn{Conn: a}
	cli := newEndpoint(tap, false)
	srv := newEndpoint(b, true)
	defer func() {
		cli.stop()
		srv.stop()
		a.Close()
		b.Close()
	}()
	r := vh.NewRng(tc.Yield)
	var sendErr error
	prodDone := make(chan struct{})
	go func() {
		defer close(prodDone)
		for i, m := range msgs {
			msg := newMsg(m, tc.Msgs[i].Type)
			wait := tc.Mode == 1 || (tc.Mode == 2 && r.Intn(4) == 0)
			var err error
			if wait {
				err = cli.P.SendMessageAndWait(msg)
			} else {
				err = cli.P.SendMessage(msg)
			}
			if err != nil {
				sendErr = err
				return
			}
			if tc.Yield != 0 {
				switch r.Intn(6) {
				case 0:
					runtime.Gosched()
				case 1:
					time.Sleep(time.Duration(r.Intn(300)) * time.Microsecond)
				}
			}
		}
	}()
	done := srv.waitFor(len(msgs), false, 3*waitTimeout+time.Duration(totalBytes/50000)*time.Second)
	if !done {
		// a stuck transfer leaves the producer blocked in SendMessage: stopping
		// the protocols releases it
		cli.stop()
		srv.stop()
	}
	select {
	case <-prodDone:
	case <-time.After(waitTimeout):
	}
	cli.pollErr()
	srv.pollErr()
	got := srv.snapshot()
	payloads, ids, framed := tap.frames()
	maxLen := 0
	for _, m := range msgs {
		maxLen = max(maxLen, len(m))
	}
	nontrivial := len(msgs) >= 2 || maxLen > muxer.SegmentMaxPayloadLength
	c.Res.Count(fmt.Sprintf("%v/%d/%d", tc.Msgs, tc.Mode, tc.Yield), nontrivial, "tx:"+tc.Class)
	if nontrivial {
		c.Res.Sample(map[string]any{"class": tc.Class, "messages": len(msgs), "bytes": totalBytes, "largest": maxLen, "segments": len(payloads), "mode": tc.Mode})
	}
	// ---- monitor ----
	if sendErr != nil || cli.errSeen || srv.errSeen || !done {
		c.Res.Violate("monitor", "tx-transfer-failed:"+tc.Class,
			fmt.Sprintf("sending %d messages (%d bytes) failed: send=%v client=%q server=%q delivered=%d", len(msgs), totalBytes, sendErr, cli.errText, srv.errText, len(got)), tc)
	}
	if k := firstDiff(got, msgs); k >= 0 || len(got) != len(msgs) {
		c.Res.Violate("monitor", "tx-messages-differ:"+tc.Class,
			fmt.Sprintf("receiving handler got %d messages, %d were queued; first difference at index %d", len(got), len(msgs), k), tc)
	}
	for i := range got {
		if i < len(tc.Msgs) && got[i].Type != tc.Msgs[i].Type {
			c.Res.Violate("monitor", "tx-type-differs:"+tc.Class, fmt.Sprintf("message %d type %d, sent %d", i, got[i].Type, tc.Msgs[i].Type), tc)
			break
		}
	}
	var wire []byte
	wl := make([]int, len(payloads))
	for i, p := range payloads {
		wire = append(wire, p...)
		wl[i] = len(p)
		if len(p) == 0 || len(p) > 65535 || ids[i] != protoId {
			c.Res.Violate("monitor", "tx-bad-segment:"+tc.Class, fmt.Sprintf("segment %d: length %d protocol id %#x", i, len(p), ids[i]), tc)
		}
	}
	if !framed || !bytes.Equal(wire, bytes.Join(msgs, nil)) {
		c.Res.Violate("monitor", "tx-wire-differs:"+tc.Class,
			fmt.Sprintf("concatenated segment payloads (%d bytes in %d segments) differ from the queued messages (%d bytes)", len(wire), len(payloads), totalBytes), tc)
	}
	// ---- correspondence: the wire image is a batching of the model ----
	lens := make([]int, len(msgs))
	for i, m := range msgs {
		lens[i] = len(m)
	}
	batches, ok := inferBatches(lens, wl)
	if !ok {
		c.Res.Violate("correspondence", "tx-no-batching:"+tc.Class,
			fmt.Sprintf("segment lengths %v are not produced by any batching of message lengths %v", clip(wl), clip(lens)), tc)
		return
	}
	for _, k := range batches {
		c.Res.Distribution[fmt.Sprintf("tx-batch-of-%s", bucket(k))]++
	}
	cf.Add(fmt.Sprintf("CS (SC %s %s %s)", nlist(lens), nlist(batches), nlist(wl)), tc)
}

func bucket(k int) string {
	switch {
	case k == 1:
		return "1"
	case k <= 4:
		return "2-4"
	case k < 20:
		return "5-19"
	}
	return "20"
}

func clip(xs []int) []int {
	if len(xs) > 40 {
		return xs[:40]
	}
	return xs
}

func nlist(xs []int) string {
	ss := make([]string, len(xs))
	for i, x := range xs {
		ss[i] = vh.N(uint64(x))
	}
	return vh.List(ss)
}

// ---------------------------------------------------------------------------

func run(c *vh.Ctx) error {
	c.Res.Rule = "rx: byte streams of 1..6 generated messages [type<8, random CBOR items of every header form] (plus malformed tails, decoder quirk classes, nesting-limit cases) cut into segment payloads by a scripted peer (whole, one byte per segment, random cuts, cuts at every offset of a header, all messages in one segment) and fed to the real readLoop; tx: 1..120 messages of sizes 2 B .. 200 KB (thorough 3 MiB) around multiples of 65535 queued on a real sender (pipelined / SendMessageAndWait / mixed, perturbed producer), wire tapped; distinct by segment hex resp. message specs + mode; non-trivial = at least two segments or two messages or an error case (rx), at least two messages or one message above one segment (tx); dx: one real muxer with a responder AND an initiator instance of the same protocol id, fed by a scripted peer with 1..4 messages per direction cut into segments and interleaved (strict alternation / random / bursts; multi-segment messages of 65..200 KB in both directions), non-trivial = at least one pair of adjacent segments of opposite direction"
	c.Res.Modelled = []string{
		"the CBOR decode step of readLoop is Lib.CborParse.parse_full plus the configured fxamacker limits (nesting 256, 10M elements, built-in tag content) - validated by the rx correspondence, not verified against fxamacker",
		"limit violations are only compared on complete items: fxamacker reports them as soon as they are visible in an incomplete buffer, the model when the item is complete (such streams always end in an error in both)",
		"the pending-byte limit, agency and state transitions of the engine are C11/C12's model; the harness protocol has no byte limit and the client always has agency",
		"the 16 MiB incomplete-buffer cap is tied by the translator (constant) and checked on the real readLoop by the monitor at the exact threshold; the Coq model is not evaluated on 16 MiB inputs",
	}
	c.Res.Distribution = map[string]int{}
	cf := c.NewCaseFile("c10", header)
	cf.SetShardSize(c.Pick(120, 200))
	if c.Replay != "" {
		b, err := os.ReadFile(c.Replay)
		if err != nil {
			return err
		}
		var probe struct {
			Replay json.RawMessage `json:"replay"`
		}
		if err := json.Unmarshal(b, &probe); err != nil {
			return err
		}
		var k struct {
			Kind string `json:"kind"`
		}
		json.Unmarshal(probe.Replay, &k)
		switch k.Kind {
		case "rx":
			var rc rxCase
			json.Unmarshal(probe.Replay, &rc)
			doRx(c, cf, &rc)
		case "tx":
			var tc txCase
			json.Unmarshal(probe.Replay, &tc)
			doTx(c, cf, &tc)
		case "cap":
			var cc capCase
			json.Unmarshal(probe.Replay, &cc)
			doCap(c, &cc)
		case "dx":
			var dc dxCase
			json.Unmarshal(probe.Replay, &dc)
			doDx(c, cf, &dc)
		}
		cf.Flush()
		return nil
	}
	for _, rc := range genRx(c) {
		doRx(c, cf, rc)
	}
	for _, dc := range genDx(c) {
		doDx(c, cf, dc)
	}
	for _, tc := range genTx(c) {
		doTx(c, cf, tc)
	}
	for _, cc := range genCap(c) {
		doCap(c, cc)
	}
	cf.Flush()
	return nil
}

func main() { vh.Main(vh.Runner{Property: "C10", Gen: gen, Run: run}) }
