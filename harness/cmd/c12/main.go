// C12 - see harness/cmd/c11/engine (shared engine harness of C11/C12/C13).
package main

import (
	"verifharness/cmd/c11/engine"
	"verifharness/vh"
)

func main() {
	vh.Main(vh.Runner{
		Property: "C12",
		Gen:      func(out string) error { return engine.Gen(out, "C12") },
		Run:      func(c *vh.Ctx) error { return engine.RunAll(c, "C12") },
		Post:     engine.Post,
	})
}
