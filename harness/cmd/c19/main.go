// C19 - a client never settles on a version it did not offer.
//
// gen : coq/C19/Gen.v = the decoder table of protocol.GetProtocolVersion
// run : a scripted responder (raw mux segments over net.Pipe) answers the
// initiator's proposal with MsgAcceptVersion(v, data) for every known and many
// unknown version numbers x version data of every shape x magics, against
//   - real ouroboros.Connection objects (NtN / NtC / DMQ, magics, duplex, peer
//     sharing, query): observables NewConnection error, ProtocolVersion()
//   - real handshake.Client objects with arbitrary proposed sub-tables
//
// Monitor: finished => version proposed and magic = proposed magic; honest
// acceptances must finish.  Correspondence: C19.Model.client_accept_wire.
package main

import (
	"bytes"
	"encoding/json"
	"fmt"
	"os"
	"strings"

	ouroboros "github.com/blinklabs-io/gouroboros"
	"github.com/blinklabs-io/gouroboros/cbor"
	"github.com/blinklabs-io/gouroboros/protocol"

	"verifharness/cmd/c18/hsdrv"
	"verifharness/cmd/c20/vtab"
	"verifharness/vh"
)

const header = `From Coq Require Import String.
From V Require Import C19.Model C19.Gen.
Open Scope string_scope.
Definition mismatches := failing (check_wire_case known).`

func gen(out string) error {
	s, err := vtab.GenCoq(false)
	if err != nil {
		return err
	}
	if out == "" {
		fmt.Print(s)
		return nil
	}
	return vh.WriteIfChanged(out, s)
}

type cfg struct {
	Table    int      `json:"table"`
	Magic    uint32   `json:"magic"`
	Dm       bool     `json:"dm"`
	Ps       bool     `json:"ps"`
	Q        bool     `json:"query"`
	Versions []uint16 `json:"versions"` // nil = whole table
	Conn     bool     `json:"whole_connection"`
}

func (p cfg) build() protocol.ProtocolVersionMap {
	full := vtab.Tables[p.Table].Gen(p.Magic, p.Dm, p.Ps, p.Q)
	if p.Versions == nil {
		return full
	}
	out := protocol.ProtocolVersionMap{}
	for _, v := range p.Versions {
		if d, ok := full[v]; ok {
			out[v] = d
		}
	}
	return out
}

func (p cfg) opts() []ouroboros.ConnectionOptionFunc {
	o := []ouroboros.ConnectionOptionFunc{ouroboros.WithNetworkMagic(p.Magic), ouroboros.WithFullDuplex(!p.Dm), ouroboros.WithPeerSharing(p.Ps), ouroboros.WithQueryMode(p.Q)}
	switch vtab.Tables[p.Table].Name {
	case "ntn":
		o = append(o, ouroboros.WithNodeToNode(true))
	case "dmq_ntc":
		o = append(o, ouroboros.WithDMQ(true))
	}
	return o
}

type rcase struct {
	Client  cfg    `json:"client"`
	Version uint64 `json:"accepted_version"`
	Data    string `json:"accepted_data_hex"`
	Got     string `json:"observed"`
}

func coqTable(m protocol.ProtocolVersionMap) string {
	var xs []string
	for _, v := range hsdrv.SortedVersions(m) {
		xs = append(xs, fmt.Sprintf("(%s, %s)", vh.N(uint64(v)), vtab.CoqVd(m[v])))
	}
	return vh.List(xs)
}

// the proposal the client really sent must be the table the case records
func checkProposal(c *vh.Ctx, rc rcase, proposal []byte, m protocol.ProtocolVersionMap) bool {
	it, n, err := vh.ParseItem(proposal)
	if err != nil || n != len(proposal) || it.K != vh.KArr || len(it.Xs) != 2 || it.Xs[1].K != vh.KMap || len(it.Xs[1].Xs) != 2*len(m) {
		c.Res.Violate("correspondence", "proposal-differs-from-configured-table", fmt.Sprintf("the proposal %x is not [0, {%d versions}]", proposal, len(m)), rc)
		return false
	}
	kv := it.Xs[1].Xs
	for i := 0; i+1 < len(kv); i += 2 {
		d, ok := m[uint16(kv[i].N)]
		if !ok {
			c.Res.Violate("correspondence", "proposal-differs-from-configured-table", fmt.Sprintf("proposal contains version %d", kv[i].N), rc)
			return false
		}
		b, _ := cbor.Encode(&d)
		if !bytes.Equal(b, kv[i+1].Enc()) {
			c.Res.Violate("correspondence", "proposal-differs-from-configured-table", fmt.Sprintf("proposal data for %d is %x, table says %x", kv[i].N, kv[i+1].Enc(), b), rc)
			return false
		}
	}
	return true
}

// tables are defined once in the case-file header and referenced by name
var tableNames = map[string]string{}

func tableRef(p cfg) string {
	t := coqTable(p.build())
	if n, ok := tableNames[t]; ok {
		return n
	}
	return t
}

func headerFor(configs []cfg) string {
	var sb strings.Builder
	sb.WriteString(header)
	sb.WriteString("\n")
	for _, p := range configs {
		t := coqTable(p.build())
		if _, ok := tableNames[t]; ok {
			continue
		}
		n := fmt.Sprintf("tbl%d", len(tableNames))
		tableNames[t] = n
		fmt.Fprintf(&sb, "Definition %s : table := %s.\n", n, t)
	}
	return sb.String()
}

func runCase(c *vh.Ctx, cf *vh.CaseFile, p cfg, version uint64, data []byte, class string, honest bool) {
	rc := rcase{Client: p, Version: version, Data: vh.Hex(data)}
	c.Begin(rc)
	m := p.build()
	reply := append(append([]byte{0x83, 0x01}, vh.U(version).Enc()...), data...)
	var finished bool
	var gotV uint16
	var gotD protocol.VersionData
	var proposal []byte
	var errText string
	if p.Conn {
		var err error
		proposal, err, gotV, gotD = hsdrv.ScriptedClientConn(reply, p.opts()...)
		finished = err == nil
		if err != nil {
			errText = err.Error()
		}
	} else {
		var o hsdrv.Outcome
		proposal, o = hsdrv.ScriptedClient(vtab.Tables[p.Table].Mode, m, reply)
		finished, gotV, gotD, errText = o.Class == "finished", o.Version, o.Data, o.Err
		if o.Class == "timeout" {
			c.Res.Violate("monitor", "client-no-outcome", fmt.Sprintf("the client neither finished nor failed on Accept(%d, %x)", version, data), rc)
			return
		}
	}
	if proposal == nil {
		c.Res.Violate("correspondence", "no-proposal", "the client did not send a proposal", rc)
		return
	}
	if !checkProposal(c, rc, proposal, m) {
		return
	}
	_, known := m[uint16(version)]
	known = known && version < 65536
	nontrivial := known || protocol.GetProtocolVersion(uint16(version)).NewVersionDataFromCborFunc != nil
	c.Res.Count(fmt.Sprintf("%v|%d|%x", p, version, data), nontrivial, class)
	obs := "CError"
	if finished && gotD != nil {
		obs = fmt.Sprintf("(CFinished %s %s)", vh.N(uint64(gotV)), vtab.CoqVd(gotD))
		rc.Got = fmt.Sprintf("finished version=%d data=%s", gotV, vtab.CoqVd(gotD))
	} else {
		rc.Got = "failed: " + errText
		if finished {
			rc.Got = "finished without version data"
		}
	}
	if finished && p.Q && p.Conn && gotD == nil {
		obs = "CError"
	}
	// ---- monitor: the property statement ------------------------------------
	if finished {
		own, proposed := m[gotV]
		switch {
		case uint64(gotV) != version:
			c.Res.Violate("monitor", "recorded-version-differs-from-accepted", fmt.Sprintf("peer accepted %d, connection reports %d", version, gotV), rc)
		case !proposed:
			c.Res.Violate("monitor", "accepted-unproposed-version", fmt.Sprintf("the initiator finished with version %d which it did not propose (proposed %v); peer data %s", gotV, hsdrv.SortedVersions(m), vtab.CoqVd(gotD)), rc)
		case gotD == nil:
			c.Res.Violate("monitor", "accepted-without-version-data", fmt.Sprintf("finished with version %d and no version data", gotV), rc)
		case gotD.NetworkMagic() != own.NetworkMagic():
			c.Res.Violate("monitor", "accepted-foreign-magic", fmt.Sprintf("the initiator (magic %d) finished version %d with peer magic %d", own.NetworkMagic(), gotV, gotD.NetworkMagic()), rc)
		case vtab.ShapeOfValue(gotD) != vtab.ShapeOfDecoder(protocol.GetProtocolVersion(gotV).NewVersionDataFromCborFunc):
			c.Res.Violate("monitor", "accepted-data-of-wrong-type", fmt.Sprintf("version %d finished with data of type %T", gotV, gotD), rc)
		}
	} else if honest {
		c.Res.Violate("monitor", "honest-acceptance-rejected", fmt.Sprintf("a proposed version %d with its own well-formed data and the proposed magic was rejected: %s", version, errText), rc)
	}
	if finished && version == 32784 {
		c.Res.Sample(rc)
	}
	cf.Add(fmt.Sprintf("(%s, %s, %s, %s)", tableRef(p), vh.N(version), vh.Bytes(data), obs), rc)
}

func encVd(d protocol.VersionData) []byte {
	b, _ := cbor.Encode(&d)
	return b
}

func hasTopTag(it *vh.Item) bool {
	if it.K == vh.KTag {
		return true
	}
	if it.K == vh.KArr {
		for _, x := range it.Xs {
			if x.K == vh.KTag {
				return true
			}
		}
	}
	return false
}

func run(c *vh.Ctx) error {
	c.Res.Rule = "client configuration (table NtN/NtC/DMQ-NtC via real Connection, any table and any sub-table via handshake.Client; magic, diffusion, peer sharing, query) x accepted version (every known version, neighbours, 0, 65535, >65535, random) x accepted data (each of the five version-data shapes with the proposed / a foreign / boundary magic, null, non-minimal and indefinite re-encodings, wrong element counts and types, random CBOR items); distinct by configuration+version+data; non-trivial = the version is proposed or known to the decoder table"
	c.Res.Modelled = []string{"mux + message framing exercised for real, not modelled; the model starts at the decoded MsgAcceptVersion (version, raw data)", "accepted data ranges over complete well-formed CBOR items without tags in field position (the message framing guarantees completeness; tags see C20)"}
	var cf *vh.CaseFile
	if c.Replay != "" {
		b, err := os.ReadFile(c.Replay)
		if err != nil {
			return err
		}
		var rp struct {
			Replay rcase `json:"replay"`
		}
		if err := json.Unmarshal(b, &rp); err != nil {
			return err
		}
		cf = c.NewCaseFile("c19", headerFor(nil))
		cf.Type = "acase"
		runCase(c, cf, rp.Replay.Client, rp.Replay.Version, vh.UnHex(rp.Replay.Data), "replay", false)
		cf.Flush()
		return nil
	}
	r := c.Rng
	known, _, err := vtab.Known()
	if err != nil {
		return err
	}
	var versions []uint64
	for _, e := range known {
		versions = append(versions, uint64(e.Version))
	}
	unknown := []uint64{0, 3, 6, 16, 100, 4096, 4098, 8191, 32768, 32776, 32790, 65535, 65536, 70000, 1 << 32}

	mainnet := uint32(764824073)
	var configs []cfg
	for _, t := range []int{0, 1, 2} {
		for k := 0; k < c.Pick(2, 6); k++ {
			m := vh.PickOne(r, []uint32{mainnet, 1, 2, 42, 4294967295})
			cf := cfg{Table: t, Magic: m, Dm: true, Conn: true}
			if t == 1 {
				cf.Dm, cf.Ps = r.Bool(), r.Bool()
			}
			configs = append(configs, cf)
		}
	}
	for _, t := range []int{0, 1, 2, 3} {
		vs := vtab.Tables[t].List()
		for k := 0; k < c.Pick(2, 8); k++ {
			var sub []uint16
			for _, v := range vs {
				if r.Intn(3) == 0 || len(vs) < 3 {
					sub = append(sub, v)
				}
			}
			if len(sub) == 0 {
				sub = []uint16{vs[r.Intn(len(vs))]}
			}
			configs = append(configs, cfg{Table: t, Magic: vh.PickOne(r, []uint32{mainnet, 0, 7, 4294967295}), Dm: r.Bool(), Ps: r.Bool(), Q: r.Intn(5) == 0, Versions: sub})
		}
	}
	ntnSub := cfg{Table: 1, Magic: mainnet, Dm: true, Versions: []uint16{13}}
	cf = c.NewCaseFile("c19", headerFor(append([]cfg{{Table: 1, Magic: mainnet, Dm: true, Conn: true}, {Table: 0, Magic: mainnet, Dm: true, Conn: true}, ntnSub}, configs...)))
	cf.Type = "acase"
	cf.SetShardSize(150)
	// regression corpus = the confirmed witnesses
	ntn := cfg{Table: 1, Magic: mainnet, Dm: true, Conn: true}
	runCase(c, cf, ntn, 32784, vh.UnHex("821903e7f4"), "corpus", false)     // unproposed NtC version, foreign magic
	runCase(c, cf, ntn, 14, vh.UnHex("841903e7f500f4"), "corpus", false)    // proposed version, foreign magic
	runCase(c, cf, ntn, 14, vh.UnHex("841a2d964a09f400f4"), "corpus", true) // honest
	runCase(c, cf, ntn, 14, vh.UnHex("f6"), "corpus", false)                // null data = magic 0
	runCase(c, cf, ntn, 1, vh.UnHex("841a2d964a09f400f4"), "corpus", false) // DMQ NtN version, own magic, not proposed
	runCase(c, cf, cfg{Table: 0, Magic: mainnet, Dm: true, Conn: true}, 13, vh.UnHex("841a2d964a09f400f4"), "corpus", false)
	runCase(c, cf, cfg{Table: 1, Magic: mainnet, Dm: true, Versions: []uint16{13}}, 14, vh.UnHex("841a2d964a09f400f4"), "corpus", false)

	for _, p := range configs {
		m := p.build()
		foreign := p.Magic ^ 0x5a5a
		// data shapes for a magic
		shapes := func(magic uint32) [][]byte {
			var out [][]byte
			for _, t := range vtab.Tables {
				seen := map[string]bool{}
				for _, d := range t.Gen(magic, r.Bool(), r.Bool(), r.Intn(4) == 0) {
					b := encVd(d)
					if !seen[string(b)] {
						seen[string(b)] = true
						out = append(out, b)
					}
				}
			}
			return out
		}
		own, other := shapes(p.Magic), shapes(foreign)
		// every known and unknown version x a few data shapes
		for _, v := range append(append([]uint64{}, versions...), unknown...) {
			n := c.Pick(2, 6)
			for k := 0; k < n; k++ {
				var data []byte
				honest := false
				switch r.Intn(6) {
				case 0, 1:
					// the encoding the version's own decoder expects, with the proposed magic
					if d, ok := m[uint16(v)]; ok && v < 65536 {
						srv := vtab.Tables[p.Table].Gen(p.Magic, r.Bool(), r.Bool(), false)[uint16(v)]
						_ = d
						data, honest = encVd(srv), true
					} else {
						data = vh.PickOne(r, own)
					}
				case 2:
					data = vh.PickOne(r, own)
				case 3, 4:
					data = vh.PickOne(r, other)
				default:
					data = vh.PickOne(r, shapes(vh.PickOne(r, []uint32{0, 1, 4294967295, uint32(r.U64())})))
				}
				runCase(c, cf, p, v, data, "version-sweep", honest)
			}
		}
		// data variants against proposed versions
		keys := hsdrv.SortedVersions(m)
		for k := 0; k < c.Pick(14, 80); k++ {
			v := uint64(vh.PickOne(r, keys))
			base := vh.PickOne(r, append(append([][]byte{}, own...), other...))
			it, _, err := vh.ParseItem(base)
			if err != nil {
				continue
			}
			switch r.Intn(5) {
			case 0:
				it = vh.Reform(r, it, vh.ReformOpts{Ints: true, Containers: true, Indef: true, Prob: 70})
			case 1:
				if it.K == vh.KArr {
					it.Xs[r.Intn(len(it.Xs))] = vh.PickOne(r, []*vh.Item{vh.Null(), vh.BoolItem(true), vh.U(0), vh.U(uint64(p.Magic)), vh.T("x"), vh.NI(1), vh.U(1 << 40)})
				}
			case 2:
				if it.K == vh.KArr {
					n := r.Intn(6)
					for len(it.Xs) < n {
						it.Xs = append(it.Xs, vh.BoolItem(false))
					}
					it.Xs = it.Xs[:n]
					it.F = vh.MinForm(uint64(n))
				}
			case 3:
				it = vh.RandItem(r, 2)
				if hasTopTag(it) {
					continue
				}
			default:
				it = vh.PickOne(r, []*vh.Item{vh.Null(), {K: vh.KSimple, F: vh.Fimm, N: 23}, vh.U(uint64(p.Magic)), vh.A(), vh.M()})
			}
			runCase(c, cf, p, v, it.Enc(), "data-variants", false)
		}
	}
	cf.Flush()
	return nil
}

func main() { vh.Main(vh.Runner{Property: "C19", Gen: gen, Run: run}) }
