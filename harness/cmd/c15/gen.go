package main

// Translator: go/ast walk over connection.go, muxer/muxer.go,
// protocol/protocol.go and client.go / server.go of every mini-protocol ->
// coq/C15/Gen.v: every blocking point (channel send / receive / range,
// WaitGroup.Wait, Mutex.Lock on the mutexes that are held across blocking
// operations) with the function it sits in, the goroutine context (API call,
// message handler = runs on recvLoop, `go` literal, engine/muxer/connection
// loop), the channel, whether it is a select, the other cases of that select
// (classified), and the buffering of the channel (from its make() site).

import (
	"fmt"
	"go/ast"
	"go/parser"
	"go/printer"
	"go/token"
	"os"
	"path/filepath"
	"sort"
	"strings"

	"verifharness/vh"
)

type alt struct {
	Op    string // send | recv | default
	Chan  string
	Class string
}

type point struct {
	File   string
	Pkg    string
	Func   string // (*Client).GetBlock, (*Client).GetBlock$go1 for a go literal inside
	Ctx    string // api | handler | go | engine | muxer | conn | internal
	Line   int
	Op     string // send | recv | range | wait | lock
	Chan   string
	Class  string
	Select bool
	Alts   []alt
	Buf    string // unbuffered | buffered | unknown | n/a
}

func repoDir() string {
	if r := os.Getenv("VERIF_REPO"); r != "" {
		return r
	}
	return "/repo"
}

func exprStr(fset *token.FileSet, e ast.Expr) string {
	var sb strings.Builder
	printer.Fprint(&sb, fset, e)
	s := strings.Join(strings.Fields(sb.String()), " ")
	return s
}

// classify a channel expression by what closes / feeds it
func classify(ch string) string {
	l := strings.ToLower(ch)
	switch {
	case ch == "doneChan" || ch == "protocolDone" || ch == "oldDone" || ch == "done":
		// local copies of p.DoneChan() in the protocol packages
		return "protoDone"
	case strings.HasSuffix(ch, "DoneChan()") && !strings.Contains(l, "muxer"):
		return "protoDone"
	case strings.HasSuffix(l, ".muxerdonechan"):
		return "muxDone"
	case strings.HasSuffix(l, ".recvdonechan"):
		return "recvDone"
	case strings.HasSuffix(l, ".senddonechan"):
		return "sendDone"
	case strings.HasSuffix(l, ".stopchan"):
		return "protoStop"
	case strings.HasSuffix(l, "p.donechan"):
		return "protoDone"
	case strings.HasSuffix(l, "m.donechan"):
		return "muxDone"
	case strings.HasSuffix(l, "c.donechan"):
		return "connDone"
	case strings.HasSuffix(l, "c.connclosedchan"):
		return "connClosed"
	case strings.Contains(l, "ctx.done()") || strings.HasSuffix(l, ".done()"):
		return "ctx"
	case strings.HasPrefix(l, "time.after") || strings.HasSuffix(l, "timer.c") || strings.HasSuffix(l, "ticker.c") || strings.HasSuffix(l, ".c") && strings.Contains(l, "tim"):
		return "timer"
	case strings.HasSuffix(l, ".muxerrecvchan"):
		return "muxRecv"
	case strings.HasSuffix(l, ".muxersendchan"):
		return "muxSend"
	}
	return "data"
}

type closer struct {
	File  string
	Func  string
	Ctx   string
	Chan  string
	After string // class of the last plain receive before the close in the same function ("" = none)
}

type fileInfo struct {
	rel  string
	pkg  string
	kind string // proto | engine | muxer | conn
	f    *ast.File
}

func recvName(fd *ast.FuncDecl, fset *token.FileSet) string {
	if fd.Recv == nil || len(fd.Recv.List) == 0 {
		return fd.Name.Name
	}
	return "(" + exprStr(fset, fd.Recv.List[0].Type) + ")." + fd.Name.Name
}

// methods called on the receiver inside a body (c.foo(...) / s.foo(...))
func calledMethods(body ast.Node, recv string) []string {
	var out []string
	ast.Inspect(body, func(n ast.Node) bool {
		if ce, ok := n.(*ast.CallExpr); ok {
			if se, ok := ce.Fun.(*ast.SelectorExpr); ok {
				if id, ok := se.X.(*ast.Ident); ok && id.Name == recv {
					out = append(out, se.Sel.Name)
				}
			}
			if n := plainCallee(ce.Fun); n != "" {
				out = append(out, n)
			}
		}
		return true
	})
	return out
}

// name of a plainly called function: f(...), f[T](...), f[T, U](...)
func plainCallee(e ast.Expr) string {
	switch x := e.(type) {
	case *ast.Ident:
		return x.Name
	case *ast.IndexExpr:
		return plainCallee(x.X)
	case *ast.IndexListExpr:
		return plainCallee(x.X)
	}
	return ""
}

// a call inside function Caller to a function declared in the same file
type callSite struct {
	File, Caller, CallerCtx string
	Callee                  string // declared name (without receiver)
	Args                    []string
	LastRecv                string // class of the plain receive before the call in Caller
}

var lastLocks []lockRec

func extractAll(repo string) ([]point, []closer, error) {
	lastLocks = nil
	var files []fileInfo
	fset := token.NewFileSet()
	add := func(rel, kind string) error {
		f, err := parser.ParseFile(fset, filepath.Join(repo, rel), nil, 0)
		if err != nil {
			return err
		}
		files = append(files, fileInfo{rel: rel, pkg: f.Name.Name, kind: kind, f: f})
		return nil
	}
	if err := add("connection.go", "conn"); err != nil {
		return nil, nil, err
	}
	if err := add("muxer/muxer.go", "muxer"); err != nil {
		return nil, nil, err
	}
	if err := add("protocol/protocol.go", "engine"); err != nil {
		return nil, nil, err
	}
	dirs, _ := filepath.Glob(filepath.Join(repo, "protocol", "*"))
	sort.Strings(dirs)
	for _, d := range dirs {
		st, err := os.Stat(d)
		if err != nil || !st.IsDir() {
			continue
		}
		for _, n := range []string{"client.go", "server.go"} {
			p := filepath.Join(d, n)
			if _, err := os.Stat(p); err == nil {
				rel, _ := filepath.Rel(repo, p)
				if err := add(rel, "proto"); err != nil {
					return nil, nil, err
				}
			}
		}
	}
	var pts []point
	var cls []closer
	lastRecv := map[string]string{}
	var sites []callSite
	params := map[string][]string{}   // file|declared func name (with receiver) -> parameter names
	fullName := map[string]string{}   // file|bare name -> name with receiver
	for _, fi := range files {
		lastLocks = append(lastLocks, analyseLocks(fset, fi.rel, fi.f)...)
		// buffering of struct-field / local channels from make() sites in this file
		buf := map[string]string{}
		ast.Inspect(fi.f, func(n ast.Node) bool {
			rec := func(lhs ast.Expr, rhs ast.Expr) {
				ce, ok := rhs.(*ast.CallExpr)
				if !ok {
					return
				}
				id, ok := ce.Fun.(*ast.Ident)
				if !ok || id.Name != "make" || len(ce.Args) == 0 {
					return
				}
				if _, ok := ce.Args[0].(*ast.ChanType); !ok {
					return
				}
				name := exprStr(fset, lhs)
				if i := strings.LastIndex(name, "."); i >= 0 {
					name = name[i+1:]
				}
				if len(ce.Args) >= 2 {
					buf[name] = "buffered"
				} else {
					buf[name] = "unbuffered"
				}
			}
			switch x := n.(type) {
			case *ast.AssignStmt:
				for i := range x.Lhs {
					if i < len(x.Rhs) {
						rec(x.Lhs[i], x.Rhs[i])
					}
				}
			case *ast.KeyValueExpr:
				rec(x.Key, x.Value)
			}
			return true
		})
		bufOf := func(ch string) string {
			name := ch
			if i := strings.LastIndex(name, "."); i >= 0 {
				name = name[i+1:]
			}
			if b, ok := buf[name]; ok {
				return b
			}
			return "unknown"
		}
		// names of sync.Cond values: struct fields / variables typed (*)sync.Cond or made by sync.NewCond
		conds := map[string]bool{}
		ast.Inspect(fi.f, func(n ast.Node) bool {
			switch x := n.(type) {
			case *ast.Field:
				if strings.Contains(exprStr(fset, x.Type), "sync.Cond") {
					for _, nm := range x.Names {
						conds[nm.Name] = true
					}
				}
			case *ast.AssignStmt:
				for i := range x.Lhs {
					if i < len(x.Rhs) && strings.HasPrefix(exprStr(fset, x.Rhs[i]), "sync.NewCond") {
						nm := exprStr(fset, x.Lhs[i])
						if j := strings.LastIndex(nm, "."); j >= 0 {
							nm = nm[j+1:]
						}
						conds[nm] = true
					}
				}
			}
			return true
		})
		isCond := func(e string) bool {
			if j := strings.LastIndex(e, "."); j >= 0 {
				e = e[j+1:]
			}
			return conds[e]
		}
		// handler closure: methods reachable from the message handler
		decls := map[string]*ast.FuncDecl{}
		for _, d := range fi.f.Decls {
			if fd, ok := d.(*ast.FuncDecl); ok && fd.Body != nil {
				decls[fd.Name.Name] = fd
			}
		}
		handler := map[string]bool{}
		if fi.kind == "proto" {
			var roots []string
			for n := range decls {
				ln := strings.ToLower(n)
				if ln == "messagehandler" || ln == "handlemessage" {
					roots = append(roots, n)
				}
			}
			// also: whatever is assigned to MessageHandlerFunc
			ast.Inspect(fi.f, func(n ast.Node) bool {
				if kv, ok := n.(*ast.KeyValueExpr); ok {
					if id, ok := kv.Key.(*ast.Ident); ok && id.Name == "MessageHandlerFunc" {
						if se, ok := kv.Value.(*ast.SelectorExpr); ok {
							roots = append(roots, se.Sel.Name)
						}
					}
				}
				return true
			})
			work := append([]string(nil), roots...)
			for len(work) > 0 {
				n := work[0]
				work = work[1:]
				if handler[n] {
					continue
				}
				fd := decls[n]
				if fd == nil {
					continue
				}
				handler[n] = true
				recv := ""
				if fd.Recv != nil && len(fd.Recv.List) > 0 && len(fd.Recv.List[0].Names) > 0 {
					recv = fd.Recv.List[0].Names[0].Name
				}
				work = append(work, calledMethods(fd.Body, recv)...)
			}
		}
		for _, d := range fi.f.Decls {
			fd, ok := d.(*ast.FuncDecl)
			if !ok || fd.Body == nil {
				continue
			}
			fname := recvName(fd, fset)
			fullName[fi.rel+"|"+fd.Name.Name] = fname
			if fd.Type.Params != nil {
				for _, f := range fd.Type.Params.List {
					for _, nm := range f.Names {
						params[fi.rel+"|"+fname] = append(params[fi.rel+"|"+fname], nm.Name)
					}
					if len(f.Names) == 0 {
						params[fi.rel+"|"+fname] = append(params[fi.rel+"|"+fname], "_")
					}
				}
			}
			ctx := "internal"
			switch fi.kind {
			case "engine":
				ctx = "engine"
			case "muxer":
				ctx = "muxer"
			case "conn":
				ctx = "conn"
			default:
				if handler[fd.Name.Name] {
					ctx = "handler"
				} else if ast.IsExported(fd.Name.Name) {
					ctx = "api"
				}
			}
			goN := 0
			inDefer := 0
			var walk func(n ast.Node, fn, cx string)
			emit := func(fn, cx string, pos token.Pos, op, ch string, sel bool, alts []alt) {
				p := point{File: fi.rel, Pkg: fi.pkg, Func: fn, Ctx: cx, Line: fset.Position(pos).Line, Op: op, Chan: ch, Class: classify(ch), Select: sel, Alts: alts, Buf: "n/a"}
				if op == "send" {
					p.Buf = bufOf(ch)
				}
				if op == "wait" || op == "lock" {
					p.Class = "sync"
				}
				if op == "condwait" {
					p.Class = "cond"
				}
				if op == "recv" && !sel {
					lastRecv[fi.rel+"|"+fn] = p.Class
				}
				pts = append(pts, p)
			}
			commOf := func(s ast.Stmt) (op, ch string, ok bool) {
				switch x := s.(type) {
				case *ast.SendStmt:
					return "send", exprStr(fset, x.Chan), true
				case *ast.ExprStmt:
					if u, ok := x.X.(*ast.UnaryExpr); ok && u.Op == token.ARROW {
						return "recv", exprStr(fset, u.X), true
					}
				case *ast.AssignStmt:
					if len(x.Rhs) == 1 {
						if u, ok := x.Rhs[0].(*ast.UnaryExpr); ok && u.Op == token.ARROW {
							return "recv", exprStr(fset, u.X), true
						}
					}
				}
				return "", "", false
			}
			walk = func(n ast.Node, fn, cx string) {
				ast.Inspect(n, func(m ast.Node) bool {
					switch x := m.(type) {
					case *ast.DeferStmt:
						inDefer++
						walk(x.Call, fn, cx)
						inDefer--
						return false
					case *ast.GoStmt:
						if fl, ok := x.Call.Fun.(*ast.FuncLit); ok {
							goN++
							walk(fl.Body, fmt.Sprintf("%s$go%d", fn, goN), "go")
							return false
						}
					case *ast.CallExpr:
						// waitGroup.Go(func(){...}) starts a goroutine too
						if se, ok := x.Fun.(*ast.SelectorExpr); ok && se.Sel.Name == "Go" && len(x.Args) == 1 {
							if fl, ok := x.Args[0].(*ast.FuncLit); ok {
								goN++
								walk(fl.Body, fmt.Sprintf("%s$go%d", fn, goN), "go")
								return false
							}
						}
						{
							callee := plainCallee(x.Fun)
							if se, ok := x.Fun.(*ast.SelectorExpr); ok {
								if id, ok := se.X.(*ast.Ident); ok && fd.Recv != nil && len(fd.Recv.List) > 0 && len(fd.Recv.List[0].Names) > 0 && id.Name == fd.Recv.List[0].Names[0].Name {
									callee = se.Sel.Name
								}
							}
							if callee != "" && decls[callee] != nil && callee != "close" {
								var args []string
								for _, a := range x.Args {
									args = append(args, exprStr(fset, a))
								}
								sites = append(sites, callSite{File: fi.rel, Caller: fn, CallerCtx: cx, Callee: callee, Args: args, LastRecv: lastRecv[fi.rel+"|"+fn]})
							}
						}
						if id, ok := x.Fun.(*ast.Ident); ok && id.Name == "close" && len(x.Args) == 1 {
							cls = append(cls, closer{File: fi.rel, Func: fn, Ctx: cx, Chan: exprStr(fset, x.Args[0]), After: lastRecv[fi.rel+"|"+fn]})
						}
						if se, ok := x.Fun.(*ast.SelectorExpr); ok {
							recv := exprStr(fset, se.X)
							// sync.Cond: Wait is a blocking point; Signal/Broadcast sites are its wakers
							// (recorded like close sites: "deferred" = runs when the function returns,
							// "protoStop" = only on an explicit Protocol.Stop, else the plain receive before it)
							if se.Sel.Name == "Wait" && len(x.Args) == 0 && isCond(recv) {
								emit(fn, cx, x.Pos(), "condwait", recv, false, nil)
							}
							if (se.Sel.Name == "Signal" || se.Sel.Name == "Broadcast") && isCond(recv) {
								after := lastRecv[fi.rel+"|"+fn]
								if inDefer > 0 {
									after = "deferred"
								} else if fd.Name.Name == "Stop" {
									after = "protoStop"
								}
								cls = append(cls, closer{File: fi.rel, Func: fn, Ctx: cx, Chan: recv, After: after})
							}
							if se.Sel.Name == "Wait" && strings.Contains(strings.ToLower(recv), "waitgroup") {
								emit(fn, cx, x.Pos(), "wait", recv, false, nil)
							}
						}
					case *ast.SelectStmt:
						var cases []alt
						var stmts []*ast.CommClause
						for _, c := range x.Body.List {
							cc := c.(*ast.CommClause)
							stmts = append(stmts, cc)
							if cc.Comm == nil {
								cases = append(cases, alt{"default", "", "default"})
								continue
							}
							op, ch, ok := commOf(cc.Comm)
							if !ok {
								op, ch = "recv", "?"
							}
							cases = append(cases, alt{op, ch, classify(ch)})
						}
						for i, cc := range stmts {
							if cc.Comm != nil {
								var others []alt
								for j, a := range cases {
									if j != i {
										others = append(others, a)
									}
								}
								emit(fn, cx, cc.Pos(), cases[i].Op, cases[i].Chan, true, others)
							}
							for _, b := range cc.Body {
								walk(b, fn, cx)
							}
						}
						return false
					case *ast.RangeStmt:
						// range over a channel-typed expression: recognised by name
						s := exprStr(fset, x.X)
						if strings.HasSuffix(strings.ToLower(s), "chan") {
							emit(fn, cx, x.Pos(), "range", s, false, nil)
						}
					case *ast.SendStmt:
						emit(fn, cx, x.Pos(), "send", exprStr(fset, x.Chan), false, nil)
					case *ast.UnaryExpr:
						if x.Op == token.ARROW {
							emit(fn, cx, x.Pos(), "recv", exprStr(fset, x.X), false, nil)
						}
					}
					return true
				})
			}
			walk(fd.Body, fname, ctx)
		}
	}
	pts, cls = specialise(pts, cls, sites, params, fullName)
	sort.SliceStable(pts, func(i, j int) bool {
		if pts[i].File != pts[j].File {
			return pts[i].File < pts[j].File
		}
		return pts[i].Line < pts[j].Line
	})
	return pts, cls, nil
}

func coqAlt(a alt) string {
	return fmt.Sprintf("mkAlt %s %s %s", vh.Str(a.Op), vh.Str(a.Chan), vh.Str(a.Class))
}

func coqPoint(p point) string {
	as := make([]string, len(p.Alts))
	for i, a := range p.Alts {
		as[i] = coqAlt(a)
	}
	return fmt.Sprintf("mkP %s %s %s %s %s %s %s %s %s",
		vh.Str(p.File), vh.Str(p.Func), vh.Str(p.Ctx), vh.Str(p.Op), vh.Str(p.Chan), vh.Str(p.Class), vh.Bool(p.Select), vh.List(as), vh.Str(p.Buf))
}

func gen(out string) error {
	pts, cls, err := extractAll(repoDir())
	if err != nil {
		return err
	}
	var sb strings.Builder
	sb.WriteString("(* GENERATED by `harness/cmd/c15 gen` (go/ast) from connection.go, muxer/muxer.go,\n")
	sb.WriteString("   protocol/protocol.go and protocol/*/{client,server}.go: every blocking point.\n")
	sb.WriteString("   mkP file function context op channel class in_select other_cases buffering.  Do not edit. *)\n")
	sb.WriteString("From Coq Require Import String.\nFrom V Require Import Lib.Base C15.Model.\n(* end of imports *)\nLocal Open Scope string_scope.\n\n")
	sb.WriteString("Definition points : list point := [\n")
	for i, p := range pts {
		sep := ";"
		if i == len(pts)-1 {
			sep = ""
		}
		fmt.Fprintf(&sb, "  %s%s\n", coqPoint(p), sep)
	}
	sb.WriteString("].\n\n(* close(ch) sites: file function context channel class-of-the-plain-receive-before-it *)\n")
	sb.WriteString("Definition closers : list closer := [\n")
	for i, c := range cls {
		sep := ";"
		if i == len(cls)-1 {
			sep = ""
		}
		fmt.Fprintf(&sb, "  mkC %s %s %s %s %s%s\n", vh.Str(c.File), vh.Str(c.Func), vh.Str(c.Ctx), vh.Str(c.Chan), vh.Str(c.After), sep)
	}
	sb.WriteString("].\n\n(* walk-away sites (see walk.go): file function context last-reply-channel kind *)\n")
	ws := extractWalkaways(repoDir(), pts)
	sort.Slice(ws, func(i, j int) bool {
		a, b := ws[i], ws[j]
		return a.File+a.Func+a.Chan+a.Kind < b.File+b.Func+b.Chan+b.Kind
	})
	sb.WriteString("(* lock-release table (locks.go): file function mutex exit released-on-every-path *)\n")
	sb.WriteString("Definition locks : list lockrec := [\n")
	for i, l := range lastLocks {
		sep := ";"
		if i == len(lastLocks)-1 {
			sep = ""
		}
		fmt.Fprintf(&sb, "  mkL %s %s %s %s %s%s\n", vh.Str(l.File), vh.Str(l.Func), vh.Str(l.Mutex), vh.Str(l.Exit), vh.Bool(l.Released), sep)
	}
	sb.WriteString("].\n\n")
	sb.WriteString("Definition walkaways : list closer := [\n")
	for i, w := range ws {
		sep := ";"
		if i == len(ws)-1 {
			sep = ""
		}
		fmt.Fprintf(&sb, "  mkC %s %s %s %s %s%s\n", vh.Str(w.File), vh.Str(w.Func), vh.Str("api"), vh.Str(w.Chan), vh.Str(w.Kind), sep)
	}
	sb.WriteString("].\n")
	if out == "" {
		fmt.Print(sb.String())
		return nil
	}
	return vh.WriteIfChanged(out, sb.String())
}


// Inter-procedural step (within a file = within a package's client.go/server.go):
//  * a blocking point of a helper whose channel is one of the helper's
//    parameters is emitted once per call site with the actual argument
//    substituted (generic helpers like awaitReply[T](c, c.hasTxResultChan)),
//    through up to three call levels;
//  * a close()/Signal()/Broadcast() inside a helper is ALSO a close site of
//    every function (in particular every `go` literal) that calls the helper,
//    with the plain receive that precedes the call in that caller.
func specialise(pts []point, cls []closer, sites []callSite, params map[string][]string, fullName map[string]string) ([]point, []closer) {
	subst := func(ch string, ps, args []string) (string, bool) {
		for i, p := range ps {
			if i >= len(args) || p == "_" {
				continue
			}
			if ch == p {
				return args[i], true
			}
			if strings.HasPrefix(ch, p+".") {
				return args[i] + ch[len(p):], true
			}
		}
		return ch, false
	}
	mentions := func(ch string, ps []string) bool {
		_, ok := subst(ch, ps, make([]string, len(ps)))
		return ok
	}
	for round := 0; round < 3; round++ {
		changed := false
		var outP []point
		for _, p := range pts {
			key := p.File + "|" + p.Func
			ps := params[key]
			uses := mentions(p.Chan, ps)
			for _, a := range p.Alts {
				if mentions(a.Chan, ps) {
					uses = true
				}
			}
			var mySites []callSite
			if uses {
				for _, cs := range sites {
					if cs.File == p.File && fullName[cs.File+"|"+cs.Callee] == p.Func {
						mySites = append(mySites, cs)
					}
				}
			}
			if len(mySites) == 0 {
				outP = append(outP, p)
				continue
			}
			changed = true
			for _, cs := range mySites {
				q := p
				q.Chan, _ = subst(p.Chan, ps, cs.Args)
				q.Class = classify(q.Chan)
				if q.Op == "wait" || q.Op == "lock" {
					q.Class = "sync"
				}
				q.Alts = nil
				for _, a := range p.Alts {
					b := a
					if a.Op != "default" {
						b.Chan, _ = subst(a.Chan, ps, cs.Args)
						b.Class = classify(b.Chan)
					}
					q.Alts = append(q.Alts, b)
				}
				// the specialised point lives on in the caller if the argument is itself a parameter there
				outP = append(outP, q)
				if mentions(q.Chan, params[cs.File+"|"+cs.Caller]) {
					outP[len(outP)-1].Func = cs.Caller
					outP[len(outP)-1].Ctx = cs.CallerCtx
				}
			}
		}
		pts = outP
		var add []closer
		have := map[string]bool{}
		for _, c := range cls {
			have[c.File+"|"+c.Func+"|"+c.Chan+"|"+c.After] = true
		}
		for _, c := range cls {
			ps := params[c.File+"|"+c.Func]
			for _, cs := range sites {
				if cs.File != c.File || fullName[cs.File+"|"+cs.Callee] != c.Func {
					continue
				}
				n := c
				n.Func, n.Ctx = cs.Caller, cs.CallerCtx
				n.Chan, _ = subst(c.Chan, ps, cs.Args)
				if c.After == "" {
					n.After = cs.LastRecv
				}
				k := n.File + "|" + n.Func + "|" + n.Chan + "|" + n.After
				if !have[k] {
					have[k] = true
					add = append(add, n)
					changed = true
				}
			}
		}
		cls = append(cls, add...)
		if !changed {
			break
		}
	}
	return pts, cls
}
