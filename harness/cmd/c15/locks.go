package main

// Lock-release path analysis (go/ast, intra-procedural, one level of
// acquire/release wrappers): sync.Mutex / RWMutex Lock is a blocking point
// for everybody else, so every path of a function that takes a lock without
// a deferred unlock must release it before it returns.
//
// Abstract execution of a function body over the set of held mutexes
// (identified by the receiver expression, e.g. "m.protocolReceiversMutex",
// "recvChan.mu"): if/else, switch, select and loops fork (a loop body runs
// zero or one time), return / end of body are exits.  `defer x.Unlock()` and
// unlocks inside a deferred function literal discharge the obligation.
// A function that only acquires (Lock on every path, no Unlock anywhere) or
// only releases is a wrapper: calls to it count as Lock / Unlock in its
// callers and it carries no obligation itself (lock handed to the caller).
// One record per (function, mutex, exit): released on every path reaching it?

import (
	"fmt"
	"go/ast"
	"go/token"
	"sort"
	"strings"
)

type lockRec struct {
	File, Func, Mutex, Exit string
	Released                bool
}

type held map[string]bool

func (h held) clone() held {
	n := held{}
	for k := range h {
		n[k] = true
	}
	return n
}
func (h held) key() string {
	var ks []string
	for k := range h {
		ks = append(ks, k)
	}
	sort.Strings(ks)
	return strings.Join(ks, ",")
}

type outcome struct {
	kind string // fall | return | break | continue
	h    held
	exit string
}

type lockAnalyser struct {
	fset     *token.FileSet
	deferred map[string]bool
	acquire  map[string]string // wrapper function (bare name) -> mutex it leaves locked
	release  map[string]string // wrapper function (bare name) -> mutex it unlocks
	recvName string
}

func lockCall(fset *token.FileSet, e ast.Expr) (mutex, op string) {
	ce, ok := e.(*ast.CallExpr)
	if !ok || len(ce.Args) != 0 {
		return "", ""
	}
	se, ok := ce.Fun.(*ast.SelectorExpr)
	if !ok {
		return "", ""
	}
	switch se.Sel.Name {
	case "Lock", "RLock":
		return exprStr(fset, se.X), "lock"
	case "Unlock", "RUnlock":
		return exprStr(fset, se.X), "unlock"
	}
	return "", ""
}

func dedup(os []outcome) []outcome {
	seen := map[string]bool{}
	var out []outcome
	for _, o := range os {
		k := o.kind + "|" + o.exit + "|" + o.h.key()
		if !seen[k] {
			seen[k] = true
			out = append(out, o)
		}
	}
	return out
}

func (a *lockAnalyser) wrapperCall(e ast.Expr) (mutex, op string) {
	ce, ok := e.(*ast.CallExpr)
	if !ok {
		return "", ""
	}
	name := plainCallee(ce.Fun)
	if se, ok := ce.Fun.(*ast.SelectorExpr); ok {
		name = se.Sel.Name
	}
	if m, ok := a.acquire[name]; ok {
		return m, "lock"
	}
	if m, ok := a.release[name]; ok {
		return m, "unlock"
	}
	return "", ""
}

// apply the lock effects of every call inside an expression / simple statement (source order)
func (a *lockAnalyser) effects(n ast.Node, h held) held {
	if n == nil {
		return h
	}
	ast.Inspect(n, func(m ast.Node) bool {
		if _, ok := m.(*ast.FuncLit); ok {
			return false
		}
		if e, ok := m.(ast.Expr); ok {
			mu, op := lockCall(a.fset, e)
			if op == "" {
				mu, op = a.wrapperCall(e)
			}
			switch op {
			case "lock":
				h = h.clone()
				h[mu] = true
			case "unlock":
				h = h.clone()
				delete(h, mu)
			}
		}
		return true
	})
	return h
}

func (a *lockAnalyser) block(stmts []ast.Stmt, h held) []outcome {
	cur := []outcome{{kind: "fall", h: h}}
	var done []outcome
	for _, s := range stmts {
		var next []outcome
		for _, c := range cur {
			for _, o := range a.stmt(s, c.h) {
				if o.kind == "fall" {
					next = append(next, o)
				} else {
					done = append(done, o)
				}
			}
		}
		cur = dedup(next)
		if len(cur) == 0 {
			break
		}
		if len(cur) > 64 {
			cur = cur[:64]
		}
	}
	return dedup(append(done, cur...))
}

func (a *lockAnalyser) cond(e ast.Expr) string {
	s := exprStr(a.fset, e)
	if len(s) > 60 {
		s = s[:60]
	}
	return s
}

func (a *lockAnalyser) stmt(s ast.Stmt, h held) []outcome {
	switch x := s.(type) {
	case *ast.BlockStmt:
		return a.block(x.List, h)
	case *ast.ReturnStmt:
		h = a.effects(x, h)
		return []outcome{{kind: "return", h: h, exit: fmt.Sprintf("return@%d", a.fset.Position(x.Pos()).Line)}}
	case *ast.BranchStmt:
		switch x.Tok {
		case token.BREAK:
			return []outcome{{kind: "break", h: h}}
		case token.CONTINUE:
			return []outcome{{kind: "continue", h: h}}
		}
		return []outcome{{kind: "fall", h: h}}
	case *ast.DeferStmt:
		if mu, op := lockCall(a.fset, x.Call); op == "unlock" {
			a.deferred[mu] = true
		} else if mu, op := a.wrapperCall(x.Call); op == "unlock" {
			a.deferred[mu] = true
		} else if fl, ok := x.Call.Fun.(*ast.FuncLit); ok {
			// a deferred literal discharges a mutex only if its FIRST operation on it is an Unlock
			// (a literal that locks and unlocks the mutex itself is balanced, not a release)
			first := map[string]string{}
			ast.Inspect(fl.Body, func(m ast.Node) bool {
				if e, ok := m.(ast.Expr); ok {
					if mu, op := lockCall(a.fset, e); op != "" {
						if _, seen := first[mu]; !seen {
							first[mu] = op
						}
					}
				}
				return true
			})
			for mu, op := range first {
				if op == "unlock" {
					a.deferred[mu] = true
				}
			}
		}
		return []outcome{{kind: "fall", h: h}}
	case *ast.GoStmt:
		return []outcome{{kind: "fall", h: h}}
	case *ast.IfStmt:
		if x.Init != nil {
			h = a.effects(x.Init, h)
		}
		h = a.effects(x.Cond, h)
		out := a.block(x.Body.List, h)
		if x.Else != nil {
			out = append(out, a.stmt(x.Else, h)...)
		} else {
			out = append(out, outcome{kind: "fall", h: h})
		}
		return dedup(out)
	case *ast.ForStmt, *ast.RangeStmt:
		var body *ast.BlockStmt
		infinite := false
		if f, ok := x.(*ast.ForStmt); ok {
			body = f.Body
			if f.Init != nil {
				h = a.effects(f.Init, h)
			}
			infinite = f.Cond == nil
		} else {
			body = x.(*ast.RangeStmt).Body
		}
		var out []outcome
		if !infinite {
			out = append(out, outcome{kind: "fall", h: h})
		}
		// two rounds so that a lock state carried round the loop is seen
		entry := []held{h}
		for round := 0; round < 2; round++ {
			var nextEntry []held
			for _, eh := range entry {
				for _, o := range a.block(body.List, eh) {
					switch o.kind {
					case "return":
						out = append(out, o)
					case "break":
						out = append(out, outcome{kind: "fall", h: o.h})
					default: // fall, continue: next iteration or exit
						if !infinite {
							out = append(out, outcome{kind: "fall", h: o.h})
						}
						nextEntry = append(nextEntry, o.h)
					}
				}
			}
			entry = nextEntry
		}
		return dedup(out)
	case *ast.SwitchStmt, *ast.TypeSwitchStmt, *ast.SelectStmt:
		var clauses []ast.Stmt
		hasDefault := false
		switch y := x.(type) {
		case *ast.SwitchStmt:
			if y.Init != nil {
				h = a.effects(y.Init, h)
			}
			clauses = y.Body.List
		case *ast.TypeSwitchStmt:
			clauses = y.Body.List
		case *ast.SelectStmt:
			clauses = y.Body.List
			hasDefault = true // a select always takes one clause
		}
		var out []outcome
		for _, c := range clauses {
			var body []ast.Stmt
			ch := h
			switch cc := c.(type) {
			case *ast.CaseClause:
				body = cc.Body
				if cc.List == nil {
					hasDefault = true
				}
			case *ast.CommClause:
				body = cc.Body
				if cc.Comm != nil {
					ch = a.effects(cc.Comm, h)
				}
			}
			for _, o := range a.block(body, ch) {
				if o.kind == "break" {
					o.kind = "fall"
				}
				out = append(out, o)
			}
		}
		if !hasDefault {
			out = append(out, outcome{kind: "fall", h: h})
		}
		return dedup(out)
	case *ast.LabeledStmt:
		return a.stmt(x.Stmt, h)
	default:
		return []outcome{{kind: "fall", h: a.effects(s, h)}}
	}
}

// analyse one function body; returns the records and the summary (always-held-at-exit mutexes, any unlock)
func (a *lockAnalyser) function(file, fname string, body *ast.BlockStmt) (recs []lockRec, exits []held, locked map[string]bool) {
	a.deferred = map[string]bool{}
	locked = map[string]bool{}
	ast.Inspect(body, func(m ast.Node) bool {
		if _, ok := m.(*ast.FuncLit); ok {
			return false
		}
		if e, ok := m.(ast.Expr); ok {
			if mu, op := lockCall(a.fset, e); op == "lock" {
				locked[mu] = true
			} else if mu, op := a.wrapperCall(e); op == "lock" {
				locked[mu] = true
			}
		}
		return true
	})
	if len(locked) == 0 {
		return nil, nil, locked
	}
	outs := a.block(body.List, held{})
	byExit := map[string]map[string]bool{} // exit -> mutex -> released on all paths
	for _, o := range outs {
		ex := o.exit
		if o.kind != "return" {
			ex = "end"
		}
		exits = append(exits, o.h)
		if byExit[ex] == nil {
			byExit[ex] = map[string]bool{}
			for mu := range locked {
				byExit[ex][mu] = true
			}
		}
		for mu := range o.h {
			if !a.deferred[mu] {
				byExit[ex][mu] = false
			}
		}
	}
	var exs []string
	for ex := range byExit {
		exs = append(exs, ex)
	}
	sort.Strings(exs)
	for _, ex := range exs {
		var mus []string
		for mu := range byExit[ex] {
			mus = append(mus, mu)
		}
		sort.Strings(mus)
		for _, mu := range mus {
			recs = append(recs, lockRec{file, fname, mu, ex, byExit[ex][mu]})
		}
	}
	return recs, exits, locked
}

func analyseLocks(fset *token.FileSet, file string, f *ast.File) []lockRec {
	a := &lockAnalyser{fset: fset, acquire: map[string]string{}, release: map[string]string{}}
	type fn struct {
		name string
		bare string
		body *ast.BlockStmt
	}
	var fns []fn
	for _, d := range f.Decls {
		fd, ok := d.(*ast.FuncDecl)
		if !ok || fd.Body == nil {
			continue
		}
		fns = append(fns, fn{recvName(fd, fset), fd.Name.Name, fd.Body})
		n := 0
		ast.Inspect(fd.Body, func(m ast.Node) bool {
			if fl, ok := m.(*ast.FuncLit); ok {
				n++
				fns = append(fns, fn{fmt.Sprintf("%s$lit%d", recvName(fd, fset), n), "", fl.Body})
			}
			return true
		})
	}
	// pass 1: find wrappers (receiver name normalised away is not attempted: wrappers are matched by method name)
	for _, x := range fns {
		if x.bare == "" {
			continue
		}
		_, exits, locked := a.function(file, x.name, x.body)
		unlocks := map[string]bool{}
		ast.Inspect(x.body, func(m ast.Node) bool {
			if e, ok := m.(ast.Expr); ok {
				if mu, op := lockCall(fset, e); op == "unlock" {
					unlocks[mu] = true
				}
			}
			return true
		})
		for mu := range locked {
			if unlocks[mu] {
				continue
			}
			always := len(exits) > 0
			for _, h := range exits {
				if !h[mu] {
					always = false
				}
			}
			if always {
				a.acquire[x.bare] = mu
			}
		}
		if len(locked) == 0 && len(unlocks) == 1 {
			for mu := range unlocks {
				a.release[x.bare] = mu
			}
		}
	}
	// pass 2: obligations
	var out []lockRec
	for _, x := range fns {
		if _, ok := a.acquire[x.bare]; ok && x.bare != "" {
			continue // the lock is handed to the caller
		}
		recs, _, _ := a.function(file, x.name, x.body)
		out = append(out, recs...)
	}
	return out
}
