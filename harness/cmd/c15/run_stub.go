package main

import "verifharness/vh"

func run(c *vh.Ctx) error { return nil }
