package main

// "Walk-away" sites: an API function that receives replies from the message
// handler over result channels and has a return path that leaves while a
// reply is still outstanding (so a later handler send finds no receiver and
// parks recvLoop for ever).  go/ast, per client.go / server.go:
//
//   handler-fed channel = a channel some handler-context point sends on
//   a `return` R in a non-handler function F is a walk-away when F receives on
//   a handler-fed channel both BEFORE and AFTER R (source order, closures
//   excluded) and
//     straight : R is not inside any select clause (it is taken after a
//                select was completed by a reply and the conversation goes on), or
//     in-clause: R is inside the clause of a receive on a handler-fed channel X
//                (not under `if !ok`) and every handler that sends on X handles
//                only NON-terminating messages (the state map sends the
//                protocol to a state where the peer still has the agency).
//   Intra-function only: receives that sit in helpers called by F are not seen (a return between two
//   helper calls usually separates two complete sub-conversations, e.g. acquire then query).
//   Returns inside clauses of shutdown channels, of closed-channel (`!ok`)
//   branches and of channels fed by terminating messages are not walk-aways.

import (
	"go/ast"
	"go/parser"
	"go/token"
	"os"
	"path/filepath"
	"strings"
)

type walkaway struct {
	File string
	Func string
	Chan string // the handler-fed channel received last before the return
	Kind string // straight | in-clause
}

func suffixOf(s string) string {
	if i := strings.LastIndex(s, "."); i >= 0 {
		return s[i+1:]
	}
	return s
}

// message types whose every transition leads to a state where `ownAgency`
// (or nobody) has the agency: the conversation is complete after them
func terminalMsgTypes(dir string, client bool) map[string]bool {
	fset := token.NewFileSet()
	agency := map[string]string{}     // state ident -> Agency ident
	trans := map[string][]string{}    // msg type ident -> new state idents
	files, _ := filepath.Glob(filepath.Join(dir, "*.go"))
	for _, fn := range files {
		if strings.HasSuffix(fn, "_test.go") {
			continue
		}
		f, err := parser.ParseFile(fset, fn, nil, 0)
		if err != nil {
			continue
		}
		ast.Inspect(f, func(n ast.Node) bool {
			kv, ok := n.(*ast.KeyValueExpr)
			if !ok {
				return true
			}
			cl, ok := kv.Value.(*ast.CompositeLit)
			if !ok || !strings.HasSuffix(exprStr(fset, cl.Type), "StateMapEntry") {
				return true
			}
			st := exprStr(fset, kv.Key)
			for _, el := range cl.Elts {
				e, ok := el.(*ast.KeyValueExpr)
				if !ok {
					continue
				}
				switch exprStr(fset, e.Key) {
				case "Agency":
					agency[st] = suffixOf(exprStr(fset, e.Value))
				case "Transitions":
					ast.Inspect(e.Value, func(m ast.Node) bool {
						tl, ok := m.(*ast.CompositeLit)
						if !ok {
							return true
						}
						var mt, ns string
						for _, x := range tl.Elts {
							if k, ok := x.(*ast.KeyValueExpr); ok {
								switch exprStr(fset, k.Key) {
								case "MsgType":
									mt = exprStr(fset, k.Value)
								case "NewState":
									ns = exprStr(fset, k.Value)
								}
							}
						}
						if mt != "" && ns != "" {
							trans[mt] = append(trans[mt], ns)
						}
						return true
					})
				}
			}
			return true
		})
	}
	own := "AgencyServer"
	if client {
		own = "AgencyClient"
	}
	out := map[string]bool{}
	for mt, nss := range trans {
		term := true
		for _, ns := range nss {
			a, ok := agency[ns]
			if !ok || !(a == own || a == "AgencyNone") {
				term = false
			}
		}
		out[mt] = term
	}
	return out
}

func extractWalkaways(repo string, pts []point) []walkaway {
	var out []walkaway
	// handler-fed channels and their sending handler functions, per file
	fed := map[string]map[string][]string{}
	for _, p := range pts {
		if p.Ctx == "handler" && p.Op == "send" && p.Class == "data" {
			if fed[p.File] == nil {
				fed[p.File] = map[string][]string{}
			}
			fed[p.File][suffixOf(p.Chan)] = append(fed[p.File][suffixOf(p.Chan)], p.Func)
		}
	}
	for file, chans := range fed {
		fset := token.NewFileSet()
		f, err := parser.ParseFile(fset, filepath.Join(repo, file), nil, 0)
		if err != nil {
			continue
		}
		if _, err := os.Stat(filepath.Join(repo, file)); err != nil {
			continue
		}
		term := terminalMsgTypes(filepath.Dir(filepath.Join(repo, file)), strings.HasSuffix(file, "client.go"))
		// handler function -> message types it is dispatched for
		hmsgs := map[string][]string{}
		ast.Inspect(f, func(n ast.Node) bool {
			cc, ok := n.(*ast.CaseClause)
			if !ok {
				return true
			}
			var mts []string
			for _, e := range cc.List {
				s := exprStr(fset, e)
				if strings.Contains(s, "MessageType") {
					mts = append(mts, s)
				}
			}
			if len(mts) == 0 {
				return true
			}
			for _, b := range cc.Body {
				ast.Inspect(b, func(m ast.Node) bool {
					if ce, ok := m.(*ast.CallExpr); ok {
						if se, ok := ce.Fun.(*ast.SelectorExpr); ok {
							hmsgs[se.Sel.Name] = append(hmsgs[se.Sel.Name], mts...)
						}
					}
					return true
				})
			}
			return true
		})
		// is every sender of channel ch a handler of non-terminating messages only?
		allNonTerminal := func(ch string) bool {
			fns := chans[ch]
			if len(fns) == 0 {
				return false
			}
			for _, fn := range fns {
				name := fn[strings.LastIndex(fn, ".")+1:]
				mts := hmsgs[name]
				if len(mts) == 0 {
					return false // unknown
				}
				for _, mt := range mts {
					t, ok := term[mt]
					if !ok || t {
						return false
					}
				}
			}
			return true
		}
		handlerFuncs := map[string]bool{}
		for _, p := range pts {
			if p.File == file && p.Ctx == "handler" {
				handlerFuncs[p.Func] = true
			}
		}
		for _, d := range f.Decls {
			fd, ok := d.(*ast.FuncDecl)
			if !ok || fd.Body == nil {
				continue
			}
			fname := recvName(fd, fset)
			if handlerFuncs[fname] {
				continue
			}
			type recvEv struct {
				pos token.Pos
				ch  string
			}
			var recvs []recvEv
			type retEv struct {
				pos      token.Pos
				clauseCh string // channel of the enclosing comm clause ("" = none, "-" = non-fed / shutdown)
				inClause bool
				notOk    bool
			}
			var rets []retEv
			var stack []ast.Node
			isFedRecv := func(e ast.Expr) (string, bool) {
				if u, ok := e.(*ast.UnaryExpr); ok && u.Op == token.ARROW {
					ch := suffixOf(exprStr(fset, u.X))
					if _, ok := chans[ch]; ok {
						return ch, true
					}
				}
				return "", false
			}
			ast.Inspect(fd.Body, func(n ast.Node) bool {
				if n == nil {
					stack = stack[:len(stack)-1]
					return true
				}
				if _, ok := n.(*ast.FuncLit); ok {
					return false
				}
				stack = append(stack, n)
				switch x := n.(type) {
				case *ast.UnaryExpr:
					if ch, ok := isFedRecv(x); ok {
						recvs = append(recvs, recvEv{x.Pos(), ch})
					}
				case *ast.ReturnStmt:
					r := retEv{pos: x.Pos()}
					for i := len(stack) - 1; i >= 0; i-- {
						if is, ok := stack[i].(*ast.IfStmt); ok && strings.Contains(exprStr(fset, is.Cond), "!ok") {
							r.notOk = true
						}
						if cc, ok := stack[i].(*ast.CommClause); ok {
							r.inClause = true
							r.clauseCh = "-"
							if cc.Comm != nil {
								var e ast.Expr
								switch c := cc.Comm.(type) {
								case *ast.ExprStmt:
									e = c.X
								case *ast.AssignStmt:
									if len(c.Rhs) == 1 {
										e = c.Rhs[0]
									}
								}
								if e != nil {
									if ch, ok := isFedRecv(e); ok {
										r.clauseCh = ch
									}
								}
							}
							break
						}
					}
					rets = append(rets, r)
				}
				return true
			})
			for _, r := range rets {
				before, after := "", false
				for _, rv := range recvs {
					if rv.pos < r.pos {
						before = rv.ch
					}
					if rv.pos > r.pos {
						after = true
					}
				}
				if before == "" || !after || r.notOk {
					continue
				}
				switch {
				case !r.inClause:
					out = append(out, walkaway{file, fname, before, "straight"})
				case r.clauseCh != "-" && r.clauseCh != "" && allNonTerminal(r.clauseCh):
					out = append(out, walkaway{file, fname, r.clauseCh, "in-clause"})
				}
			}
		}
	}
	return out
}
