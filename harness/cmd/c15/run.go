package main

// Monitor on the real code: a real ouroboros.Connection against a raw
// scripted peer (harness/cmd/c23/peer as the server; a small raw client
// below for server-side connections).  Per scenario = blocking API call x
// adversarial script: (1) the call returns within the bound once the peer
// misbehaved / the connection was closed, (2) Close returns and ErrorChan is
// closed, (3) no goroutine with gouroboros frames survives (dump diff with
// back-off).  A hang verdict needs: not returned after the bound AND a dump
// showing the blocked frame; it is keyed by function+script.

import (
	"encoding/binary"
	"encoding/json"
	"fmt"
	"io"
	"net"
	"os"
	"os/exec"
	"runtime"
	"strings"
	"sync"
	"time"

	ouroboros "github.com/blinklabs-io/gouroboros"
	"github.com/blinklabs-io/gouroboros/cbor"
	"github.com/blinklabs-io/gouroboros/protocol"
	"github.com/blinklabs-io/gouroboros/protocol/blockfetch"
	"github.com/blinklabs-io/gouroboros/protocol/chainsync"
	pcommon "github.com/blinklabs-io/gouroboros/protocol/common"
	"github.com/blinklabs-io/gouroboros/protocol/handshake"
	"github.com/blinklabs-io/gouroboros/protocol/keepalive"
	lmn "github.com/blinklabs-io/gouroboros/protocol/localmessagenotification"
	"github.com/blinklabs-io/gouroboros/protocol/localstatequery"
	"github.com/blinklabs-io/gouroboros/protocol/localtxmonitor"
	"github.com/blinklabs-io/gouroboros/protocol/localtxsubmission"
	"github.com/blinklabs-io/gouroboros/protocol/peersharing"
	"github.com/blinklabs-io/gouroboros/protocol/txsubmission"

	"verifharness/cmd/c23/peer"
	"verifharness/vh"
)

const callBound = 6 * time.Second

type apiCall struct {
	Name  string
	NtN   bool
	Proto uint16
	Func  string // function name as in the Gen table
	Do    func(c *ouroboros.Connection) error
	// replies of the right kind / of a wrong kind for the request (encoded messages)
	Good  func() []protocol.Message
	Wrong func() []protocol.Message
	// well-formed reply sequence of the right kinds but with UNEXPECTED CONTENT (wrong block / point /
	// payload), sent in place of the last good reply; nil = class not applicable
	Unexpected func() []protocol.Message
	// the mini-protocol client's own Stop(), called AFTER Connection.Close (nil = none)
	Stop func(c *ouroboros.Connection) error
}

// a real (decodable) Conway block from the repository's test data, wrapped as block-fetch sends it
func fixtureBlock() []byte {
	repo := os.Getenv("VERIF_REPO")
	if repo == "" {
		repo = "/repo"
	}
	b, err := os.ReadFile(repo + "/internal/testdata/conway_block.hex")
	if err != nil {
		panic(err)
	}
	raw := vh.UnHex(string(b))
	return append([]byte{0x82, 0x07}, raw...)
}

func hash32() []byte {
	h := make([]byte, 32)
	for i := range h {
		h[i] = byte(i + 1)
	}
	return h
}

func calls() []apiCall {
	pt := pcommon.NewPoint(7, hash32())
	tip := pcommon.Tip{Point: pt, BlockNumber: 3}
	return []apiCall{
		{Name: "localstatequery.AcquireVolatileTip", Proto: localstatequery.ProtocolId, Func: "(*Client).acquire",
			Do:    func(c *ouroboros.Connection) error { return c.LocalStateQuery().Client.AcquireVolatileTip() },
			Good:  func() []protocol.Message { return []protocol.Message{localstatequery.NewMsgAcquired()} },
			Wrong: func() []protocol.Message { return []protocol.Message{localstatequery.NewMsgResult([]byte{0x01})} }},
		{Name: "localstatequery.GetCurrentEra", Proto: localstatequery.ProtocolId, Func: "(*Client).runQuery",
			Do: func(c *ouroboros.Connection) error { _, err := c.LocalStateQuery().Client.GetCurrentEra(); return err },
			Good: func() []protocol.Message {
				return []protocol.Message{localstatequery.NewMsgAcquired(), localstatequery.NewMsgResult([]byte{0x06})}
			},
			Wrong: func() []protocol.Message {
				return []protocol.Message{localstatequery.NewMsgAcquired(), localstatequery.NewMsgAcquired()}
			},
			Unexpected: func() []protocol.Message { return []protocol.Message{localstatequery.NewMsgResult([]byte{0x82, 0x01, 0x02})} }},
		{Name: "localtxmonitor.Acquire", Proto: localtxmonitor.ProtocolId, Func: "(*Client).acquire",
			Do:    func(c *ouroboros.Connection) error { return c.LocalTxMonitor().Client.Acquire() },
			Good:  func() []protocol.Message { return []protocol.Message{localtxmonitor.NewMsgAcquired(5)} },
			Wrong: func() []protocol.Message { return []protocol.Message{localtxmonitor.NewMsgReplyHasTx(true)} }},
		{Name: "localtxmonitor.HasTx", Proto: localtxmonitor.ProtocolId, Func: "(*Client).HasTx",
			Do: func(c *ouroboros.Connection) error { _, err := c.LocalTxMonitor().Client.HasTx(hash32()); return err },
			Good: func() []protocol.Message {
				return []protocol.Message{localtxmonitor.NewMsgAcquired(5), localtxmonitor.NewMsgReplyHasTx(true)}
			},
			Wrong: func() []protocol.Message {
				return []protocol.Message{localtxmonitor.NewMsgAcquired(5), localtxmonitor.NewMsgReplyNextTx(6, []byte{0x80})}
			}},
		{Name: "localtxmonitor.NextTx", Proto: localtxmonitor.ProtocolId, Func: "(*Client).NextTx",
			Do: func(c *ouroboros.Connection) error { _, err := c.LocalTxMonitor().Client.NextTx(); return err },
			Good: func() []protocol.Message {
				return []protocol.Message{localtxmonitor.NewMsgAcquired(5), localtxmonitor.NewMsgReplyNextTx(6, []byte{0x80})}
			},
			Wrong: func() []protocol.Message {
				return []protocol.Message{localtxmonitor.NewMsgAcquired(5), localtxmonitor.NewMsgReplyGetSizes(1, 2, 3)}
			},
			Unexpected: func() []protocol.Message { return []protocol.Message{localtxmonitor.NewMsgReplyNextTx(99, []byte{0xff})} },
			Stop:       func(c *ouroboros.Connection) error { return c.LocalTxMonitor().Client.Stop() }},
		{Name: "localtxmonitor.GetSizes", Proto: localtxmonitor.ProtocolId, Func: "(*Client).GetSizes",
			Do: func(c *ouroboros.Connection) error { _, _, _, err := c.LocalTxMonitor().Client.GetSizes(); return err },
			Good: func() []protocol.Message {
				return []protocol.Message{localtxmonitor.NewMsgAcquired(5), localtxmonitor.NewMsgReplyGetSizes(1, 2, 3)}
			},
			Wrong: func() []protocol.Message {
				return []protocol.Message{localtxmonitor.NewMsgAcquired(5), localtxmonitor.NewMsgReplyHasTx(false)}
			}},
		{Name: "localtxsubmission.SubmitTx", Proto: localtxsubmission.ProtocolId, Func: "(*Client).SubmitTx",
			Do:    func(c *ouroboros.Connection) error { return c.LocalTxSubmission().Client.SubmitTx(6, []byte{0x80}) },
			Good:  func() []protocol.Message { return []protocol.Message{localtxsubmission.NewMsgAcceptTx()} },
			Wrong: func() []protocol.Message { return []protocol.Message{localtxsubmission.NewMsgDone()} },
			Unexpected: func() []protocol.Message { return []protocol.Message{localtxsubmission.NewMsgRejectTx([]byte{0x82, 0x01, 0x02})} },
			Stop:       func(c *ouroboros.Connection) error { return c.LocalTxSubmission().Client.Stop() }},
		{Name: "chainsync-ntc.GetCurrentTip", Proto: chainsync.ProtocolIdNtC, Func: "(*Client).GetCurrentTip",
			Do:    func(c *ouroboros.Connection) error { _, err := c.ChainSync().Client.GetCurrentTip(); return err },
			Good:  func() []protocol.Message { return []protocol.Message{chainsync.NewMsgIntersectNotFound(tip)} },
			Wrong: func() []protocol.Message { return []protocol.Message{chainsync.NewMsgAwaitReply()} }},
		{Name: "chainsync-ntn.GetCurrentTip", NtN: true, Proto: chainsync.ProtocolIdNtN, Func: "(*Client).GetCurrentTip",
			Do:    func(c *ouroboros.Connection) error { _, err := c.ChainSync().Client.GetCurrentTip(); return err },
			Good:  func() []protocol.Message { return []protocol.Message{chainsync.NewMsgIntersectNotFound(tip)} },
			Wrong: func() []protocol.Message { return []protocol.Message{chainsync.NewMsgAwaitReply()} }},
		{Name: "chainsync-ntn.Sync", NtN: true, Proto: chainsync.ProtocolIdNtN, Func: "(*Client).Sync",
			Do:    func(c *ouroboros.Connection) error { return c.ChainSync().Client.Sync([]pcommon.Point{pt}) },
			Good:  func() []protocol.Message { return []protocol.Message{chainsync.NewMsgIntersectFound(pt, tip)} },
			Wrong: func() []protocol.Message { return []protocol.Message{chainsync.NewMsgRollBackward(pt, tip)} },
			Unexpected: func() []protocol.Message {
				return []protocol.Message{chainsync.NewMsgIntersectFound(pcommon.NewPoint(99, hash32()), tip)}
			},
			Stop: func(c *ouroboros.Connection) error { return c.ChainSync().Client.Stop() }},
		{Name: "blockfetch.GetBlock", NtN: true, Proto: blockfetch.ProtocolId, Func: "(*Client).GetBlock",
			Do:    func(c *ouroboros.Connection) error { _, err := c.BlockFetch().Client.GetBlock(pt); return err },
			Good:  func() []protocol.Message { return []protocol.Message{blockfetch.NewMsgNoBlocks()} },
			Wrong: func() []protocol.Message { return []protocol.Message{blockfetch.NewMsgBatchDone()} },
			Unexpected: func() []protocol.Message {
				return []protocol.Message{blockfetch.NewMsgStartBatch(), blockfetch.NewMsgBlock(fixtureBlock()), blockfetch.NewMsgBatchDone()}
			},
			Stop: func(c *ouroboros.Connection) error { return c.BlockFetch().Client.Stop() }},
		{Name: "blockfetch.GetBlockRange", NtN: true, Proto: blockfetch.ProtocolId, Func: "(*Client).GetBlockRange",
			Do:    func(c *ouroboros.Connection) error { return c.BlockFetch().Client.GetBlockRange(pt, pt) },
			Good:  func() []protocol.Message { return []protocol.Message{blockfetch.NewMsgNoBlocks()} },
			Wrong: func() []protocol.Message { return []protocol.Message{blockfetch.NewMsgBlock([]byte{0x82, 0x01, 0x02})} },
			Unexpected: func() []protocol.Message {
				return []protocol.Message{blockfetch.NewMsgStartBatch(), blockfetch.NewMsgBlock(fixtureBlock()), blockfetch.NewMsgBatchDone()}
			},
			Stop: func(c *ouroboros.Connection) error { return c.BlockFetch().Client.Stop() }},
		{Name: "peersharing.GetPeers", NtN: true, Proto: peersharing.ProtocolId, Func: "(*Client).GetPeers",
			Do:    func(c *ouroboros.Connection) error { _, err := c.PeerSharing().Client.GetPeers(3); return err },
			Good:  func() []protocol.Message { return []protocol.Message{peersharing.NewMsgSharePeers([]peersharing.PeerAddress{})} },
			Wrong: func() []protocol.Message { return []protocol.Message{peersharing.NewMsgDone()} }},
	}
}

var scripts = []string{"unexpected-content-then-close", "silence-then-close", "disconnect-after-request", "malformed-reply", "wrong-kind-reply", "surplus-reply", "close-during-call", "disconnect-before-request"}

// goroutines that carry a gouroboros frame (goleak-style filter)
func ourGoroutines() []string {
	var out []string
	for _, g := range peer.Stacks("gouroboros") {
		if strings.Contains(g, "verifharness/cmd/c15.") && !strings.Contains(g, "gouroboros/protocol") && !strings.Contains(g, "gouroboros/muxer") && !strings.Contains(g, "gouroboros.(*Connection)") {
			continue
		}
		out = append(out, g)
	}
	return out
}

func gid(g string) string {
	f := strings.Fields(g)
	if len(f) >= 2 {
		return f[1]
	}
	return g
}

func idSet(gs []string) map[string]bool {
	m := map[string]bool{}
	for _, g := range gs {
		m[gid(g)] = true
	}
	return m
}

// goroutines with our frames that were not there before
func newGoroutines(base map[string]bool) []string {
	var out []string
	for _, g := range ourGoroutines() {
		if !base[gid(g)] {
			out = append(out, g)
		}
	}
	return out
}

func topFrames(g string) string {
	ls := strings.Split(g, "\n")
	var fs []string
	for _, l := range ls[1:] {
		if strings.HasPrefix(l, "\t") || l == "" {
			continue
		}
		if i := strings.LastIndex(l, "("); i > 0 {
			l = l[:i]
		}
		l = strings.TrimPrefix(l, "github.com/blinklabs-io/gouroboros/")
		fs = append(fs, l)
		if len(fs) >= 7 {
			break
		}
	}
	return strings.Join(fs, " < ")
}

type scenResult struct {
	Returned   bool
	CallErr    string
	CloseRet   bool
	ErrClosed  bool
	Leaked     []string
	BlockedAt  string
	SetupError string
	StopRet    bool
	StopTried  bool
}

var leakMu sync.Mutex // leak check needs a quiet process: scenarios run one at a time

func runScenario(a apiCall, script string) (r scenResult) {
	base := idSet(ourGoroutines())
	p := peer.New(a.NtN)
	var once sync.Once
	reqSeen := make(chan struct{})
	p.OnMsg = func(proto uint16, mt uint, raw []byte) {
		if proto != a.Proto {
			return
		}
		once.Do(func() { close(reqSeen) })
		switch script {
		case "disconnect-after-request":
			p.Close()
		case "malformed-reply":
			p.Send(a.Proto, []byte{0xff, 0xff, 0x00, 0x13, 0x37})
		case "wrong-kind-reply":
			ms := a.Wrong()
			// all but the last are the regular replies leading to the last request
			go p.SendMsgs(a.Proto, false, ms[len(ms)-1])
		case "surplus-reply":
		}
	}
	// multi-step calls: the peer answers the leading requests properly
	good := a.Good()
	wrong := a.Wrong()
	step := 0
	var mu sync.Mutex
	p.OnMsg = func(proto uint16, mt uint, raw []byte) {
		if proto != a.Proto {
			return
		}
		mu.Lock()
		i := step
		step++
		mu.Unlock()
		last := i == len(good)-1
		if i >= len(good) {
			return
		}
		if !last {
			p.SendMsgs(a.Proto, false, good[i])
			return
		}
		once.Do(func() { close(reqSeen) })
		switch script {
		case "disconnect-after-request":
			p.Close()
		case "malformed-reply":
			p.Send(a.Proto, []byte{0xff, 0xff, 0x00, 0x13, 0x37})
		case "wrong-kind-reply":
			p.SendMsgs(a.Proto, false, wrong[len(wrong)-1])
		case "surplus-reply":
			p.SendMsgs(a.Proto, false, good[i])
			p.SendMsgs(a.Proto, false, good[i])
		case "unexpected-content-then-close":
			for _, m := range a.Unexpected() {
				p.SendMsgs(a.Proto, false, m)
			}
		}
	}
	errChan := make(chan error, 10)
	opts := []ouroboros.ConnectionOptionFunc{ouroboros.WithConnection(p.Client), ouroboros.WithNetworkMagic(peer.Magic), ouroboros.WithErrorChan(errChan), ouroboros.WithNodeToNode(a.NtN)}
	if a.NtN {
		opts = append(opts, ouroboros.WithPeerSharing(true), ouroboros.WithKeepAlive(false))
	}
	conn, err := ouroboros.NewConnection(opts...)
	if err != nil {
		p.Close()
		r.SetupError = err.Error()
		return
	}
	if script == "disconnect-before-request" {
		p.Close()
		time.Sleep(50 * time.Millisecond)
	}
	ret := make(chan error, 1)
	go func() { ret <- a.Do(conn) }()
	switch script {
	case "silence-then-close", "close-during-call":
		select {
		case <-reqSeen:
		case <-time.After(2 * time.Second):
		}
		if script == "silence-then-close" {
			time.Sleep(300 * time.Millisecond)
		}
		conn.Close()
	}
	select {
	case e := <-ret:
		r.Returned = true
		if e != nil {
			r.CallErr = e.Error()
		}
	case <-time.After(callBound):
		// where is it blocked?
		for _, g := range peer.Stacks("c15.calls.func") {
			r.BlockedAt = topFrames(g)
		}
		for _, g := range peer.Stacks("gouroboros/protocol", a.Func[strings.Index(a.Func, ".")+1:]) {
			r.BlockedAt = topFrames(g)
		}
	}
	if script == "unexpected-content-then-close" {
		time.Sleep(150 * time.Millisecond) // let the rest of the conversation arrive
	}
	r.CloseRet = peer.WaitOrHang(5*time.Second, func() { conn.Close() })
	if script == "unexpected-content-then-close" && a.Stop != nil {
		// the mini-protocol client's Stop must return AFTER the connection is closed
		r.StopTried = true
		r.StopRet = peer.WaitOrHang(5*time.Second, func() { a.Stop(conn) })
	}
	p.Close()
	// ErrorChan must get closed
	dl := time.After(5 * time.Second)
loop:
	for {
		select {
		case _, ok := <-errChan:
			if !ok {
				r.ErrClosed = true
				break loop
			}
		case <-dl:
			break loop
		}
	}
	// goroutine set back to the base (retry with back-off)
	for w := 10 * time.Millisecond; w < 3*time.Second; w *= 2 {
		gs := newGoroutines(base)
		if len(gs) == 0 {
			r.Leaked = nil
			break
		}
		r.Leaked = nil
		for _, g := range gs {
			r.Leaked = append(r.Leaked, topFrames(g))
		}
		time.Sleep(w)
	}
	return
}

// ---------------------------------------------------------------------------
// raw CLIENT peer for server-side connections

type rawClient struct {
	c net.Conn
}

func (rc *rawClient) send(proto uint16, payload []byte) error {
	hdr := make([]byte, 8)
	binary.BigEndian.PutUint32(hdr[0:], uint32(time.Now().UnixNano()))
	binary.BigEndian.PutUint16(hdr[4:], proto)
	binary.BigEndian.PutUint16(hdr[6:], uint16(len(payload)))
	rc.c.SetWriteDeadline(time.Now().Add(5 * time.Second))
	_, err := rc.c.Write(append(hdr, payload...))
	return err
}

func (rc *rawClient) recv() (uint16, []byte, error) {
	hdr := make([]byte, 8)
	rc.c.SetReadDeadline(time.Now().Add(5 * time.Second))
	if _, err := io.ReadFull(rc.c, hdr); err != nil {
		return 0, nil, err
	}
	n := binary.BigEndian.Uint16(hdr[6:])
	pl := make([]byte, n)
	if _, err := io.ReadFull(rc.c, pl); err != nil {
		return 0, nil, err
	}
	return binary.BigEndian.Uint16(hdr[4:]) & 0x7fff, pl, nil
}

func enc(m protocol.Message) []byte {
	b, err := cbor.Encode(m)
	if err != nil {
		panic(err)
	}
	return b
}

// DMQ server: blocking RequestMessages, then the client disconnects
func scenarioLMN() (r scenResult) {
	base := idSet(ourGoroutines())
	a, b := net.Pipe()
	rc := &rawClient{b}
	errChan := make(chan error, 10)
	type res struct {
		c   *ouroboros.Connection
		err error
	}
	ch := make(chan res, 1)
	go func() {
		c, err := ouroboros.NewConnection(ouroboros.WithConnection(a), ouroboros.WithNetworkMagic(peer.Magic), ouroboros.WithErrorChan(errChan),
			ouroboros.WithServer(true), ouroboros.WithDMQ(true))
		ch <- res{c, err}
	}()
	vm := protocol.GetProtocolVersionMapDMQNtC(peer.Magic, false)
	if err := rc.send(handshake.ProtocolId, enc(handshake.NewMsgProposeVersions(vm))); err != nil {
		r.SetupError = err.Error()
		return
	}
	if _, _, err := rc.recv(); err != nil {
		r.SetupError = "handshake reply: " + err.Error()
		return
	}
	x := <-ch
	if x.err != nil {
		r.SetupError = x.err.Error()
		return
	}
	time.Sleep(50 * time.Millisecond)
	rc.send(lmn.ProtocolID, enc(lmn.NewMsgRequestMessages(true)))
	time.Sleep(200 * time.Millisecond)
	b.Close() // the client goes away
	r.Returned = true
	r.CloseRet = peer.WaitOrHang(5*time.Second, func() { x.c.Close() })
	dl := time.After(5 * time.Second)
loop:
	for {
		select {
		case _, ok := <-errChan:
			if !ok {
				r.ErrClosed = true
				break loop
			}
		case <-dl:
			break loop
		}
	}
	for w := 10 * time.Millisecond; w < 3*time.Second; w *= 2 {
		gs := newGoroutines(base)
		r.Leaked = nil
		if len(gs) == 0 {
			break
		}
		for _, g := range gs {
			r.Leaked = append(r.Leaked, topFrames(g))
		}
		time.Sleep(w)
	}
	return
}

// Flood a byte-limited state past its PendingMessageByteLimit with unsolicited
// messages while the local side is idle (each message is below the limit,
// together they exceed it, so readLoop sits in its back-pressure wait), then
// end the connection - WITHOUT stopping any mini-protocol client first.
func scenarioFlood(kind, mode string) (r scenResult) {
	base := idSet(ourGoroutines())
	p := peer.New(true)
	errChan := make(chan error, 10)
	conn, err := ouroboros.NewConnection(ouroboros.WithConnection(p.Client), ouroboros.WithNetworkMagic(peer.Magic),
		ouroboros.WithErrorChan(errChan), ouroboros.WithNodeToNode(true), ouroboros.WithKeepAlive(false))
	if err != nil {
		p.Close()
		r.SetupError = err.Error()
		return
	}
	big := make([]byte, 40000)
	pt := pcommon.NewPoint(7, hash32())
	tip := pcommon.Tip{Point: pt, BlockNumber: 3}
	switch kind {
	case "blockfetch": // Idle limit 65535
		for i := 0; i < 2; i++ {
			p.SendMsgs(blockfetch.ProtocolId, false, blockfetch.NewMsgBlock(big))
		}
	case "chainsync": // NtN limit 462000
		for i := 0; i < 13; i++ {
			m, err := chainsync.NewMsgRollForwardNtN(1, 0, append(append([]byte{0x82, 0x59, 0x9c, 0x40}, big...), 0x00), tip)
			if err != nil {
				r.SetupError = err.Error()
				break
			}
			p.SendMsgs(chainsync.ProtocolIdNtN, false, m)
		}
	}
	time.Sleep(200 * time.Millisecond)
	r.Returned = true
	if mode == "peer-disconnects" {
		p.Close()
		// the connection ends by itself: ErrorChan gets closed
	} else {
		r.CloseRet = peer.WaitOrHang(5*time.Second, func() { conn.Close() })
	}
	dl := time.After(5 * time.Second)
loop:
	for {
		select {
		case _, ok := <-errChan:
			if !ok {
				r.ErrClosed = true
				break loop
			}
		case <-dl:
			break loop
		}
	}
	r.CloseRet = peer.WaitOrHang(5*time.Second, func() { conn.Close() })
	p.Close()
	for w := 10 * time.Millisecond; w < 3*time.Second; w *= 2 {
		gs := newGoroutines(base)
		r.Leaked = nil
		if len(gs) == 0 {
			break
		}
		for _, g := range gs {
			r.Leaked = append(r.Leaked, topFrames(g))
		}
		time.Sleep(w)
	}
	return
}

// After the local side stopped one mini-protocol client (its muxer receiver is
// unregistered, the protocol id stays known), the peer sends a surplus
// segment for that protocol id + direction; then ANOTHER protocol's client
// is stopped and the connection closed, each with the hang bound.
func scenarioSurplusAfterStop() (r scenResult, stop1, stop2 bool) {
	base := idSet(ourGoroutines())
	p := peer.New(true)
	errChan := make(chan error, 10)
	conn, err := ouroboros.NewConnection(ouroboros.WithConnection(p.Client), ouroboros.WithNetworkMagic(peer.Magic),
		ouroboros.WithErrorChan(errChan), ouroboros.WithNodeToNode(true), ouroboros.WithKeepAlive(false))
	if err != nil {
		p.Close()
		r.SetupError = err.Error()
		return
	}
	stop1 = peer.WaitOrHang(5*time.Second, func() { conn.ChainSync().Client.Stop() })
	time.Sleep(100 * time.Millisecond)
	p.SendMsgs(chainsync.ProtocolIdNtN, false, chainsync.NewMsgAwaitReply())
	time.Sleep(300 * time.Millisecond)
	stop2 = peer.WaitOrHang(5*time.Second, func() { conn.BlockFetch().Client.Stop() })
	r.Returned = true
	r.CloseRet = peer.WaitOrHang(5*time.Second, func() { conn.Close() })
	p.Close()
	dl := time.After(5 * time.Second)
loop:
	for {
		select {
		case _, ok := <-errChan:
			if !ok {
				r.ErrClosed = true
				break loop
			}
		case <-dl:
			break loop
		}
	}
	for w := 10 * time.Millisecond; w < 3*time.Second; w *= 2 {
		gs := newGoroutines(base)
		r.Leaked = nil
		if len(gs) == 0 {
			break
		}
		for _, g := range gs {
			r.Leaked = append(r.Leaked, topFrames(g))
		}
		time.Sleep(w)
	}
	return
}

// tx-submission server: Init, blocking RequestTxIds answered by Done, the
// server restarts the protocol; repeated on one connection.  Run in a child
// process: a panic in a library goroutine kills the process.
func childTxSub(rounds int) {
	runtime.GOMAXPROCS(2)
	// scheduling perturbation: busy goroutines
	stop := make(chan struct{})
	for i := 0; i < 6; i++ {
		go func() {
			for {
				select {
				case <-stop:
					return
				default:
				}
			}
		}()
	}
	for conn := 0; conn < rounds; conn++ {
		a, b := net.Pipe()
		rc := &rawClient{b}
		errChan := make(chan error, 10)
		cfg := txsubmission.NewConfig(
			txsubmission.WithInitFunc(func(ctx txsubmission.CallbackContext) error {
				go func() { ctx.Server.RequestTxIds(true, 3) }()
				return nil
			}),
			txsubmission.WithDoneFunc(func(ctx txsubmission.CallbackContext) error { return nil }),
		)
		type res struct {
			c   *ouroboros.Connection
			err error
		}
		ch := make(chan res, 1)
		go func() {
			c, err := ouroboros.NewConnection(ouroboros.WithConnection(a), ouroboros.WithNetworkMagic(peer.Magic), ouroboros.WithErrorChan(errChan),
				ouroboros.WithServer(true), ouroboros.WithNodeToNode(true), ouroboros.WithTxSubmissionConfig(cfg))
			ch <- res{c, err}
		}()
		vm := protocol.GetProtocolVersionMap(protocol.ProtocolModeNodeToNode, peer.Magic, protocol.DiffusionModeInitiatorOnly, false, false)
		rc.send(handshake.ProtocolId, enc(handshake.NewMsgProposeVersions(vm)))
		if _, _, err := rc.recv(); err != nil {
			fmt.Println("SETUP", err)
			os.Exit(3)
		}
		x := <-ch
		if x.err != nil {
			fmt.Println("SETUP", x.err)
			os.Exit(3)
		}
		for k := 0; k < 8; k++ {
			if err := rc.send(txsubmission.ProtocolId, enc(txsubmission.NewMsgInit())); err != nil {
				break
			}
			// wait for the server's RequestTxIds
			got := false
			for !got {
				id, _, err := rc.recv()
				if err != nil {
					break
				}
				got = id == txsubmission.ProtocolId
			}
			if !got {
				break
			}
			if err := rc.send(txsubmission.ProtocolId, enc(txsubmission.NewMsgDone())); err != nil {
				break
			}
			time.Sleep(time.Duration(k%3) * time.Millisecond)
		}
		x.c.Close()
		b.Close()
	}
	close(stop)
	fmt.Println("CHILD-OK")
}

func runTxSubChild(rounds int) (ok bool, out string) {
	cmd := exec.Command(os.Args[0], "child-txsub", fmt.Sprint(rounds))
	b, err := cmd.CombinedOutput()
	s := string(b)
	if err == nil && strings.Contains(s, "CHILD-OK") {
		return true, ""
	}
	if i := strings.Index(s, "panic:"); i >= 0 {
		s = s[i:]
	}
	if len(s) > 900 {
		s = s[:900]
	}
	return false, s
}

// ---------------------------------------------------------------------------

const header = `From Coq Require Import String.
From V Require Import Lib.Base C15.Model C15.Gen C15.Inst.
Open Scope string_scope.`

var protoFile = map[string]string{
	"localstatequery": "protocol/localstatequery/client.go", "localtxmonitor": "protocol/localtxmonitor/client.go",
	"localtxsubmission": "protocol/localtxsubmission/client.go", "chainsync-ntc": "protocol/chainsync/client.go",
	"chainsync-ntn": "protocol/chainsync/client.go", "blockfetch": "protocol/blockfetch/client.go", "peersharing": "protocol/peersharing/client.go",
}

func run(c *vh.Ctx) error {
	keepalive.NewConfig() // keep the import for NtN connections' defaults
	cf := c.NewCaseFile("scen", header)
	defer cf.Flush()
	addCase := func(file, fn string, hung bool, replay any) {
		cf.Add(fmt.Sprintf("{| k_file := %s; k_func := %s; k_hung := %s |}", vh.Str(file), vh.Str(fn), vh.Bool(hung)), replay)
	}
	type sc struct {
		Call, Script string
	}
	var todo []sc
	if c.Replay != "" {
		b, err := os.ReadFile(c.Replay)
		if err != nil {
			return err
		}
		var rp struct {
			Replay sc `json:"replay"`
		}
		json.Unmarshal(b, &rp)
		todo = []sc{rp.Replay}
	} else {
		for _, a := range calls() {
			for _, s := range scripts {
				todo = append(todo, sc{a.Name, s})
			}
		}
		todo = append(todo, sc{"localmessagenotification-server.RequestMessages(blocking)", "disconnect-after-request"})
		for _, k := range []string{"blockfetch", "chainsync"} {
			for _, m := range []string{"peer-disconnects", "local-close"} {
				todo = append(todo, sc{"flood-over-byte-limit." + k, m})
			}
		}
		todo = append(todo, sc{"chainsync-stop-then-blockfetch-stop", "surplus-segment-after-stop"})
		todo = append(todo, sc{"txsubmission-server.Done-restart", "repeat"})
	}
	byName := map[string]apiCall{}
	for _, a := range calls() {
		byName[a.Name] = a
	}
	for _, t := range todo {
		c.Begin(t)
		canon := t.Call + "/" + t.Script
		switch {
		case t.Call == "txsubmission-server.Done-restart":
			rounds := c.Pick(60, 400)
			ok, out := runTxSubChild(rounds)
			c.Res.Count(canon, true, "txsubmission-restart")
			if !ok {
				c.Res.Violate("monitor", "c15:crash:txsubmission-server:Done-restart", "the process died while a raw client repeated Init / RequestTxIds(blocking) -> Done (protocol restart): "+out, t)
			}
			continue
		case t.Script == "surplus-segment-after-stop":
			r, stop1, stop2 := scenarioSurplusAfterStop()
			c.Res.Count(canon, true, "surplus-after-stop")
			if r.SetupError != "" {
				c.Res.Notes = append(c.Res.Notes, canon+": setup failed: "+r.SetupError)
				continue
			}
			if !stop1 {
				c.Res.Notes = append(c.Res.Notes, canon+": the first Stop (chain-sync, before any misbehaviour) did not return within 5 s; scenario not judged")
				continue
			}
			muxLeak := false
			for _, l := range r.Leaked {
				if strings.Contains(l, "muxer.(*Muxer).readLoop") {
					muxLeak = true
				}
			}
			bad := !stop2 || muxLeak
			addCase("muxer/muxer.go", "(*Muxer).readLoop", bad, t)
			c.Res.TracesValidated++
			if !stop2 {
				c.Res.Violate("monitor", "c15:stop-hangs-after-surplus-segment:blockfetch.Client.Stop",
					"after chain-sync Client.Stop() and a surplus chain-sync segment from the peer, block-fetch Client.Stop() did not return within 5 s; goroutines: "+strings.Join(r.Leaked, " || "), t)
			}
			if muxLeak {
				c.Res.Violate("monitor", "c15:leak:muxer.readLoop:surplus-segment-after-stop",
					fmt.Sprintf("%d goroutines survive Close: %s", len(r.Leaked), strings.Join(r.Leaked, " || ")), t)
			} else if len(r.Leaked) > 0 && stop2 {
				c.Res.Violate("monitor", "c15:leak:"+canon, fmt.Sprintf("%d goroutines survive Close: %s", len(r.Leaked), strings.Join(r.Leaked, " || ")), t)
			}
			if !r.CloseRet {
				c.Res.Violate("monitor", "c15:close-hangs:"+canon, "Connection.Close did not return within 5 s", t)
			}
			if !r.ErrClosed {
				c.Res.Violate("monitor", "c15:errorchan-not-closed:"+canon, "ErrorChan not closed 5 s after Close", t)
			}
			continue
		case strings.HasPrefix(t.Call, "flood-over-byte-limit."):
			kind := strings.TrimPrefix(t.Call, "flood-over-byte-limit.")
			r := scenarioFlood(kind, t.Script)
			c.Res.Count(canon, true, "flood")
			if r.SetupError != "" {
				c.Res.Notes = append(c.Res.Notes, canon+": setup failed: "+r.SetupError)
				continue
			}
			fn := ""
			for _, l := range r.Leaked {
				switch {
				case strings.Contains(l, "(*Protocol).readLoop"):
					fn = "(*Protocol).readLoop"
				case fn == "" && strings.Contains(l, "(*Protocol).recvLoop"):
					fn = "(*Protocol).recvLoop"
				case fn == "":
					fn = "?"
				}
			}
			addCase("protocol/"+kind+"/client.go", fn, len(r.Leaked) > 0, t)
			c.Res.TracesValidated++
			if !r.CloseRet {
				c.Res.Violate("monitor", "c15:close-hangs:"+canon, "Connection.Close did not return within 5 s", t)
			}
			if !r.ErrClosed {
				c.Res.Violate("monitor", "c15:errorchan-not-closed:"+canon, "ErrorChan not closed 5 s after the connection ended", t)
			}
			if len(r.Leaked) > 0 {
				c.Res.Violate("monitor", "c15:leak:"+fn+":"+t.Call+":"+t.Script,
					fmt.Sprintf("%d goroutines survive the end of the connection (no client was stopped): %s", len(r.Leaked), strings.Join(r.Leaked, " || ")), t)
			}
			continue
		case strings.HasPrefix(t.Call, "localmessagenotification-server"):
			r := scenarioLMN()
			c.Res.Count(canon, true, "dmq-server")
			if r.SetupError != "" {
				c.Res.Notes = append(c.Res.Notes, "LMN scenario setup failed: "+r.SetupError)
				continue
			}
			if !r.CloseRet {
				c.Res.Violate("monitor", "c15:close-hangs:"+canon, "Connection.Close did not return within 5 s", t)
			}
			if !r.ErrClosed {
				c.Res.Violate("monitor", "c15:errorchan-not-closed:"+canon, "ErrorChan not closed 5 s after Close", t)
			}
			addCase("protocol/localmessagenotification/server.go", "(*Server).WaitForMessage", len(r.Leaked) > 0, t)
			if len(r.Leaked) > 0 {
				c.Res.Violate("monitor", "c15:leak:(*Server).WaitForMessage:s.newMessageSignal:disconnect-after-blocking-request",
					fmt.Sprintf("%d goroutines survive Close: %s", len(r.Leaked), strings.Join(r.Leaked, " || ")), t)
			}
			continue
		}
		a, ok := byName[t.Call]
		if !ok {
			continue
		}
		if t.Script == "unexpected-content-then-close" && a.Unexpected == nil {
			continue
		}
		r := runScenario(a, t.Script)
		c.Res.Count(canon, true, t.Script)
		if r.SetupError != "" {
			c.Res.Notes = append(c.Res.Notes, canon+": setup failed: "+r.SetupError)
			continue
		}
		if len(c.Res.Samples) < 6 {
			c.Res.Sample(map[string]any{"scenario": canon, "returned": r.Returned, "error": r.CallErr, "close_returned": r.CloseRet, "errorchan_closed": r.ErrClosed, "leaked": len(r.Leaked)})
		}
		pf := protoFile[strings.SplitN(t.Call, ".", 2)[0]]
		addCase(pf, a.Func, !r.Returned, t)
		c.Res.TracesValidated++
		// a goroutine parked inside a message handler of this protocol: name the handler
		parked := ""
		for _, l := range r.Leaked {
			first := strings.SplitN(l, " < ", 2)[0]
			if i := strings.Index(first, ".(*Client).handle"); i >= 0 {
				parked = first[i+1:]
			}
		}
		if r.Returned && (parked != "" || (r.StopTried && !r.StopRet)) {
			if parked == "" {
				parked = "?"
			}
			addCase(pf, parked, true, t)
			c.Res.Violate("monitor", "c15:handler-stranded:"+parked+":"+t.Call+":"+t.Script,
				fmt.Sprintf("%s returned (%s), but after Connection.Close the message handler %s is still blocked: client Stop() returned=%v (tried=%v), %d goroutines survive: %s",
					t.Call, r.CallErr, parked, r.StopRet, r.StopTried, len(r.Leaked), strings.Join(r.Leaked, " || ")), t)
		}
		if !r.Returned {
			c.Res.Violate("monitor", "c15:hang:"+a.Func+":"+t.Call+":"+t.Script,
				fmt.Sprintf("%s has not returned %v after the peer script %q (and Close); blocked at: %s", t.Call, callBound, t.Script, r.BlockedAt), t)
		}
		if !r.CloseRet {
			c.Res.Violate("monitor", "c15:close-hangs:"+canon, "Connection.Close did not return within 5 s", t)
		}
		if !r.ErrClosed {
			c.Res.Violate("monitor", "c15:errorchan-not-closed:"+canon, "ErrorChan not closed 5 s after Close", t)
		}
		if len(r.Leaked) > 0 && r.Returned {
			c.Res.Violate("monitor", "c15:leak:"+t.Call+":"+t.Script, fmt.Sprintf("%d goroutines survive Close: %s", len(r.Leaked), strings.Join(r.Leaked, " || ")), t)
		}
	}
	c.Res.Rule = "every listed blocking client call x {silence-then-close, close-during-call, disconnect-before/after-request, malformed-reply, wrong-kind-reply, surplus-reply} on a real Connection against a raw scripted peer; DMQ server blocked in a blocking RequestMessages when the client disconnects; tx-submission server Done/restart repeated under scheduling perturbation in a child process.  A scenario is distinct by call x script and always non-trivial (a request is on the wire or the connection is gone)."
	c.Res.Modelled = []string{"goroutine leaks and hangs are runtime facts: found by the monitor only; the model proves quiescence from the generated rendezvous table under the solicited-rendezvous assumption"}
	return nil
}
