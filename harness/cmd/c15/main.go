// C15 - no call hangs and nothing leaks, whatever the peer does.
package main

import (
	"fmt"
	"os"

	"verifharness/vh"
)

func main() {
	if len(os.Args) >= 3 && os.Args[1] == "child-txsub" {
		n := 50
		fmt.Sscan(os.Args[2], &n)
		childTxSub(n)
		return
	}
	vh.Main(vh.Runner{Property: "C15", Gen: gen, Run: run})
}
