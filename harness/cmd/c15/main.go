// C15 - no call hangs and nothing leaks, whatever the peer does.
package main

import "verifharness/vh"

func main() { vh.Main(vh.Runner{Property: "C15", Gen: gen, Run: run}) }
