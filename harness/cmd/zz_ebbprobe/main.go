package main

import (
	"fmt"

	"github.com/blinklabs-io/gouroboros/ledger"
	"github.com/blinklabs-io/gouroboros/ledger/common"
	"verifharness/cmd/c07/blk"
)

func main() {
	for _, nm := range [][2]int{{0, 1}, {1, 1}, {2, 1}, {0, 0}, {4, 1}, {2, 2}} {
		data := blk.SyntheticEBB(nm[0], nm[1]).Enc()
		b, e1 := ledger.NewBlockFromCbor(0, data, common.VerifyConfig{SkipBodyHashValidation: true})
		bo, e2 := ledger.NewBlockFromCborWithOffsets(0, data, common.VerifyConfig{SkipBodyHashValidation: true})
		o2, e3 := common.ExtractTransactionOffsets(data)
		n1, n2 := -1, -1
		if bo != nil { n1 = len(bo.Offsets.Transactions) }
		if o2 != nil { n2 = len(o2.Transactions) }
		ntx := -1
		if b != nil { ntx = len(b.Transactions()) }
		fmt.Printf("ids=%d extra=%d decode err=%v txs=%d | withOffsets err=%v locs=%d | extract err=%v locs=%d\n", nm[0], nm[1], e1, ntx, e2, n1, e3, n2)
	}
}
