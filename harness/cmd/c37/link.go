package main

import (
	"math/big"
	_ "unsafe"

	_ "github.com/blinklabs-io/gouroboros/consensus"
)

// Unexported functions of /repo/consensus reached with go:linkname (no change
// to the repository is needed; stub.s permits the body-less declarations).

//go:linkname exactIntegerNthRoot github.com/blinklabs-io/gouroboros/consensus.exactIntegerNthRoot
func exactIntegerNthRoot(n *big.Int, k *big.Int) (*big.Int, bool)

//go:linkname exactOneMinusFPowerSigma github.com/blinklabs-io/gouroboros/consensus.exactOneMinusFPowerSigma
func exactOneMinusFPowerSigma(oneMinusF *big.Rat, poolStake, totalStake uint64) (*big.Rat, bool)

//go:linkname exactOneMinusFPowerSigmaThreshold github.com/blinklabs-io/gouroboros/consensus.exactOneMinusFPowerSigmaThreshold
func exactOneMinusFPowerSigmaThreshold(oneMinusF *big.Rat, poolStake, totalStake uint64, upperBound *big.Int) (*big.Int, bool)

//go:linkname oneMinusFPowerSigmaBounds github.com/blinklabs-io/gouroboros/consensus.oneMinusFPowerSigmaBounds
func oneMinusFPowerSigmaBounds(oneMinusF *big.Rat, poolStake, totalStake uint64, targetBits uint) (lo, hi *big.Float)

//go:linkname thresholdFromBoundedProbability github.com/blinklabs-io/gouroboros/consensus.thresholdFromBoundedProbability
func thresholdFromBoundedProbability(oneMinusF *big.Rat, poolStake, totalStake uint64, upperBound *big.Int, targetBits uint) (*big.Int, bool)

//go:linkname escalateThreshold github.com/blinklabs-io/gouroboros/consensus.escalateThreshold
func escalateThreshold(oneMinusF *big.Rat, poolStake, totalStake uint64, upperBound *big.Int, startBits, capBits uint) (*big.Int, error)
