package main

// Histories: sequences of leadership checks through consensus/leader.go in
// ONE process, where between the calls the harness changes the argument
// objects in place (the active-slot coefficient *big.Rat via SetFrac / Set /
// Add, the VRF output buffer by overwriting it) or passes fresh-but-equal
// objects, changes stakes or mode and comes back.  The property is
// stateless: the verdict of call i must be "leader value < floor(2^k(1-(1-f)^σ))"
// for the argument VALUES at call i, whatever happened before.  Leader values
// are placed at T-1, T, T+1 around the thresholds of both the old and the new
// coefficient, so a stale threshold flips a verdict.  Stakes are uint64
// values in this API (no aliasing possible); the only pointer arguments are
// the Rat and the byte slices.

import (
	"fmt"
	"math/big"

	"github.com/blinklabs-io/gouroboros/consensus"
	"github.com/blinklabs-io/gouroboros/vrf"

	"verifharness/vh"
)

type hstep struct {
	// set | setrat | add : change the shared Rat in place to FN/FD
	// call  : IsSlotLeaderFromComponentsWithMode(Out, Pool, Total, f, Mode)
	// slot  : IsSlotLeaderWithMode(Slot, nonce, Pool, Total, f, signer, Mode)
	// find  : FindNextSlotLeadership(Slot, Slot+Span, nonce, Pool, Total, f, signer)
	Op    string `json:"op"`
	FN    string `json:"f_num,omitempty"`
	FD    string `json:"f_den,omitempty"`
	Fresh bool   `json:"fresh,omitempty"` // pass a fresh Rat equal to the shared one
	Mode  int    `json:"mode"`
	Pool  uint64 `json:"pool,omitempty"`
	Total uint64 `json:"total,omitempty"`
	Out   string `json:"out,omitempty"`
	Slot  uint64 `json:"slot,omitempty"`
	Span  uint64 `json:"span,omitempty"`
	Note  string `json:"note,omitempty"`
}

var histNonce = func() []byte {
	b := make([]byte, 32)
	for i := range b {
		b[i] = byte(7*i + 1)
	}
	return b
}()

func histSigner() (*consensus.SimpleVRFSigner, []byte) {
	seed := make([]byte, 32)
	seed[0] = 0x37
	s, err := consensus.NewSimpleVRFSigner(seed)
	if err != nil {
		panic(err)
	}
	_, sk, err := vrf.KeyGen(seed)
	if err != nil {
		panic(err)
	}
	return s, sk
}

// independent VRF output for a slot (vrf package, not under test here)
func slotOutput(sk []byte, slot uint64, mode int) []byte {
	var in []byte
	var err error
	if mode == 1 {
		in, err = vrf.MkSeedTPraos(int64(slot), histNonce, vrf.SeedL())
	} else {
		in, err = vrf.MkInputVrf(int64(slot), histNonce)
	}
	if err != nil {
		panic(err)
	}
	_, out, err := vrf.Prove(sk, in)
	if err != nil {
		panic(err)
	}
	return out
}

func leaderInt(out []byte, mode int) *big.Int {
	if mode == 0 {
		return new(big.Int).SetBytes(leaderHash(out))
	}
	return new(big.Int).SetBytes(out)
}

func (e *env) runHistory(h replay) {
	shared := new(big.Rat)
	outbuf := make([]byte, 64) // reused for every call: overwritten in place
	signer, sk := histSigner()
	defer signer.Destroy()
	for i, st := range h.Steps {
		rep := h
		rep.Step = i
		rep.Got = ""
		e.c.Begin(rep)
		switch st.Op {
		case "set":
			shared.SetFrac(bi(st.FN), bi(st.FD))
			continue
		case "setrat":
			shared.Set(new(big.Rat).SetFrac(bi(st.FN), bi(st.FD)))
			continue
		case "add":
			d := new(big.Rat).Sub(new(big.Rat).SetFrac(bi(st.FN), bi(st.FD)), shared)
			shared.Add(shared, d)
			continue
		}
		f := shared
		if st.Fresh {
			f = new(big.Rat).Set(shared)
		}
		val := new(big.Rat).Set(shared) // the VALUE of the coefficient at this call
		lrp := replay{Kind: "leader", Class: "history-" + st.Op + st.Note, Mode: st.Mode, Pool: st.Pool, Total: st.Total}
		k, modeOK := modeBits(st.Mode)
		switch st.Op {
		case "call":
			o := vh.UnHex(st.Out)
			buf := outbuf[:len(o)]
			copy(buf, o)
			var got bool
			var err error
			panicked, pv := vh.Recover(func() {
				got, err = consensus.IsSlotLeaderFromComponentsWithMode(buf, st.Pool, st.Total, f, consensus.ConsensusMode(st.Mode))
			})
			if panicked {
				e.viol("leader-panic", fmt.Sprintf("IsSlotLeaderFromComponentsWithMode panicked: %v", pv), rep)
				continue
			}
			if f.Cmp(val) != 0 || string(buf) != string(o) {
				e.viol("leader-mutates-arguments", "the call changed its coefficient or output argument", rep)
			}
			e.judgeLeader(lrp, o, val, got, errClass(err), rep, true)
		case "slot":
			var res *consensus.LeaderElectionResult
			var err error
			panicked, pv := vh.Recover(func() {
				res, err = consensus.IsSlotLeaderWithMode(st.Slot, histNonce, st.Pool, st.Total, f, signer, consensus.ConsensusMode(st.Mode))
			})
			if panicked {
				e.viol("leader-panic", fmt.Sprintf("IsSlotLeaderWithMode panicked: %v", pv), rep)
				continue
			}
			e.c.Res.Distribution["history-slot-calls"]++
			if err != nil || res == nil || !modeOK || !inDomainF(val) || st.Pool == 0 || st.Total == 0 {
				continue
			}
			want, ok := e.wantThreshold(val, st.Pool, st.Total, k)
			indep := slotOutput(sk, st.Slot, st.Mode)
			if string(indep) != string(res.Output) {
				e.viol("slot-leader-output-differs", "IsSlotLeaderWithMode returned a VRF output different from vrf.Prove on the era's input", rep)
				continue
			}
			if ok && (res.Threshold == nil || res.Threshold.Cmp(want) != 0) {
				key := "slot-leader-threshold-wrong"
				if t, err := consensus.CertifiedNatThresholdWithMode(st.Pool, st.Total, new(big.Rat).Set(val), consensus.ConsensusMode(st.Mode)); err == nil && t.Cmp(want) == 0 {
					key = "eligibility-depends-on-history"
				}
				e.viol(key, fmt.Sprintf("step %d: IsSlotLeaderWithMode reports threshold %v, floor(2^k(1-(1-f)^sigma)) for the arguments of this call (f=%s pool=%d total=%d mode=%d) is %s", i, res.Threshold, val.RatString(), st.Pool, st.Total, st.Mode, want), rep)
			}
			e.judgeLeader(lrp, res.Output, val, res.Eligible, 0, rep, true)
		case "find":
			var slot uint64
			var output []byte
			var err error
			panicked, pv := vh.Recover(func() {
				slot, _, output, err = consensus.FindNextSlotLeadership(st.Slot, st.Slot+st.Span, histNonce, st.Pool, st.Total, f, signer)
			})
			if panicked {
				e.viol("leader-panic", fmt.Sprintf("FindNextSlotLeadership panicked: %v", pv), rep)
				continue
			}
			e.c.Res.Distribution["history-find-calls"]++
			if err != nil || !inDomainF(val) || st.Pool == 0 || st.Total == 0 {
				continue
			}
			want, ok := e.wantThreshold(val, st.Pool, st.Total, 256)
			if !ok {
				continue
			}
			var expSlot uint64
			var expOut []byte
			for s := st.Slot; s <= st.Slot+st.Span; s++ {
				o := slotOutput(sk, s, 0)
				if leaderInt(o, 0).Cmp(want) < 0 {
					expSlot, expOut = s, o
					break
				}
			}
			if slot != expSlot || string(output) != string(expOut) {
				key := "find-next-slot-wrong"
				if t, err := consensus.CertifiedNatThresholdWithMode(st.Pool, st.Total, new(big.Rat).Set(val), consensus.ConsensusModeCPraos); err == nil && t.Cmp(want) == 0 {
					key = "eligibility-depends-on-history"
				}
				e.viol(key, fmt.Sprintf("step %d: FindNextSlotLeadership(%d..%d) returned slot %d, the first slot whose leader value is below the exact threshold for the arguments of this call (f=%s) is %d (0 = none)", i, st.Slot, st.Slot+st.Span, slot, val.RatString(), expSlot), rep)
			}
			if output != nil {
				lrp.Mode = 0
				e.judgeLeader(lrp, output, val, true, 0, rep, true)
			}
		}
	}
}

func be64(v *big.Int) string {
	if v.Sign() < 0 || v.BitLen() > 512 {
		return ""
	}
	return vh.Hex(v.FillBytes(make([]byte, 64)))
}

func (e *env) genHistories() {
	c := e.c
	r := c.Rng
	_, sk := histSigner()
	nH := c.Pick(8, 40)
	for h := 0; h < nH; h++ {
		mode := 1
		if h%3 == 2 {
			mode = 0
		}
		k, _ := modeBits(mode)
		pool, total := genStakes(r)
		if h%2 == 0 { // a sizeable relative stake, so that thresholds of different f are far apart
			total = 1_000_000 + r.U64()%1_000_000_000
			pool = total/3 + r.U64()%(total/3)
		}
		if pool == 0 || total == 0 {
			continue
		}
		fs := [][2]*big.Int{}
		for len(fs) < 3 {
			fn, fd := genF(r, false)
			f := new(big.Rat).SetFrac(fn, fd)
			if !inDomainF(f) {
				continue
			}
			dup := false
			for _, g := range fs {
				if new(big.Rat).SetFrac(g[0], g[1]).Cmp(f) == 0 {
					dup = true
				}
			}
			if !dup {
				fs = append(fs, [2]*big.Int{fn, fd})
			}
		}
		T := make([]*big.Int, len(fs))
		okAll := true
		for i, g := range fs {
			w, ok := e.wantThreshold(new(big.Rat).SetFrac(g[0], g[1]), pool, total, k)
			if !ok {
				okAll = false
			}
			T[i] = w
		}
		if !okAll {
			continue
		}
		// outputs around every threshold (TPraos: the raw output IS the leader
		// value; Praos: search outputs whose hash separates two thresholds)
		var outs []string
		if mode == 1 {
			for ti, t := range T {
				for _, d := range []int64{-1, 0, 1} {
					if d == 1 && ti > 0 {
						continue
					}
					if s := be64(new(big.Int).Add(t, big.NewInt(d))); s != "" {
						outs = append(outs, s)
					}
				}
			}
		} else {
			for tries := 0; tries < 200 && len(outs) < 6; tries++ {
				o := r.Bytes(64)
				lv := leaderInt(o, 0)
				below := 0
				for _, t := range T {
					if lv.Cmp(t) < 0 {
						below++
					}
				}
				if below > 0 && below < len(T) { // verdict differs between the coefficients
					outs = append(outs, vh.Hex(o))
				}
			}
			outs = append(outs, vh.Hex(r.Bytes(64)))
		}
		var steps []hstep
		setOps := []string{"set", "setrat", "add"}
		call := func(out string, fresh bool, note string) {
			steps = append(steps, hstep{Op: "call", Mode: mode, Pool: pool, Total: total, Out: out, Fresh: fresh, Note: note})
		}
		slot := uint64(1 + r.Intn(1_000_000))
		order := []int{0, 1, 2, 0, 1}
		for round, fi := range order {
			op := "set"
			if round > 0 {
				op = setOps[r.Intn(3)]
			}
			steps = append(steps, hstep{Op: op, FN: fs[fi][0].String(), FD: fs[fi][1].String(), Mode: mode})
			fresh := round == 2 || round == 4 // fresh-but-equal objects in some rounds
			for _, o := range outs {
				call(o, fresh && r.Bool(), "")
			}
			steps = append(steps, hstep{Op: "slot", Mode: mode, Pool: pool, Total: total, Slot: slot + uint64(round), Fresh: fresh})
			if mode == 0 && round%2 == 1 {
				steps = append(steps, hstep{Op: "find", Mode: 0, Pool: pool, Total: total, Slot: slot, Span: 24})
			}
			if round == 1 {
				// detour: other stake, other mode, then back with the same Rat object
				call(outs[0], false, "-other-stake")
				steps[len(steps)-1].Pool = pool/2 + 1
				steps = append(steps, hstep{Op: "slot", Mode: 1 - mode, Pool: pool, Total: total, Slot: slot + 99})
				call(outs[len(outs)-1], false, "-back")
			}
		}
		_ = sk
		c.Res.Distribution["histories"]++
		e.runHistory(replay{Kind: "history", Class: fmt.Sprintf("history-mode%d", mode), Mode: mode, Pool: pool, Total: total, Steps: steps})
	}
	// regression: the demo scenario (1/20 -> 1/2 in place, TPraos, sigma = 1/3)
	{
		pool, total := uint64(1_000_000), uint64(3_000_000)
		t1, ok1 := e.wantThreshold(big.NewRat(1, 20), pool, total, 512)
		t2, ok2 := e.wantThreshold(big.NewRat(1, 2), pool, total, 512)
		if ok1 && ok2 {
			steps := []hstep{
				{Op: "set", FN: "1", FD: "20", Mode: 1},
				{Op: "call", Mode: 1, Pool: pool, Total: total, Out: be64(new(big.Int).Sub(t1, big.NewInt(1)))},
				{Op: "set", FN: "1", FD: "2", Mode: 1},
				{Op: "call", Mode: 1, Pool: pool, Total: total, Out: be64(new(big.Int).Sub(t2, big.NewInt(1)))},
				{Op: "call", Mode: 1, Pool: pool, Total: total, Out: be64(t2)},
				{Op: "call", Mode: 1, Pool: pool, Total: total, Out: be64(new(big.Int).Sub(t2, big.NewInt(1))), Fresh: true},
				{Op: "set", FN: "1", FD: "20", Mode: 0},
				{Op: "slot", Mode: 0, Pool: pool, Total: total, Slot: 7},
				{Op: "set", FN: "9", FD: "10", Mode: 0},
				{Op: "slot", Mode: 0, Pool: pool, Total: total, Slot: 8},
				{Op: "find", Mode: 0, Pool: pool, Total: total, Slot: 1, Span: 30},
			}
			c.Res.Distribution["histories"]++
			e.runHistory(replay{Kind: "history", Class: "history-corpus", Mode: 1, Pool: pool, Total: total, Steps: steps})
		}
	}
}
