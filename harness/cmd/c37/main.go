// C37 - the leadership threshold is the exact floor of the Praos formula.
package main

import (
	"encoding/json"
	"fmt"
	"math/big"
	"os"
	"path/filepath"
	"strings"

	"github.com/blinklabs-io/gouroboros/consensus"
	"golang.org/x/crypto/blake2b"

	"verifharness/vh"
)

const header = `From Coq Require Import String.
From V Require Import Lib.Base Lib.Hex C37.Model.
Local Open Scope string_scope.
Local Open Scope Z_scope.`

// one evaluation; Kind selects the entry point
type replay struct {
	Kind  string `json:"kind"` // threshold | root | exact | escalate | below | leader
	Class string `json:"class"`
	Mode  int    `json:"mode"`
	Pool  uint64 `json:"pool"`
	Total uint64 `json:"total"`
	FN    string `json:"f_num"` // "" = nil coefficient
	FD    string `json:"f_den"`
	N     string `json:"n,omitempty"` // root
	K     string `json:"k,omitempty"`
	Start uint   `json:"start_bits,omitempty"` // escalate
	Cap   uint   `json:"cap_bits,omitempty"`
	Out   string `json:"vrf_output,omitempty"` // below / leader (hex)
	Thr   string `json:"threshold,omitempty"`  // below ("" = nil)
	Got   string `json:"got,omitempty"`
	// history: a sequence of eligibility checks in one process with in-place
	// mutation of the argument objects between the calls (history.go)
	Steps []hstep `json:"steps,omitempty"`
	Step  int     `json:"step,omitempty"` // index of the failing step
}

func bi(s string) *big.Int {
	z, ok := new(big.Int).SetString(s, 10)
	if !ok {
		panic("bad integer " + s)
	}
	return z
}

func pow2(k uint) *big.Int { return new(big.Int).Lsh(big.NewInt(1), k) }

func modeBits(mode int) (uint, bool) {
	switch mode {
	case 0:
		return 256, true
	case 1:
		return 512, true
	}
	return 0, false
}

// error class of a returned error (projection; never the text itself)
func errClass(err error) int {
	if err == nil {
		return 0
	}
	s := err.Error()
	switch {
	case strings.Contains(s, "unknown consensus mode"):
		return 1
	case strings.Contains(s, "must not exceed 1"):
		return 2
	case strings.Contains(s, "precision escalation reached"):
		return 3
	}
	return 7
}

func zpair(a, b *big.Int) string { return "(" + vh.BigZ(a) + ", " + vh.BigZ(b) + ")" }
func zi(n int64) string        { return vh.Z(n) }

// exact (mantissa, exponent) of a finite big.Float
func dy(x *big.Float) (*big.Int, int) {
	if x.Sign() == 0 {
		return big.NewInt(0), 0
	}
	mant := new(big.Float)
	exp := x.MantExp(mant)
	p := int(x.MinPrec())
	mant.SetMantExp(mant, p)
	mi, acc := mant.Int(nil)
	if acc != big.Exact {
		panic("dy: inexact mantissa")
	}
	return mi, exp - p
}

func dyCoq(x *big.Float) string {
	m, e := dy(x)
	return "(" + vh.BigZ(m) + ", " + zi(int64(e)) + ")"
}

func ratOfFloat(x *big.Float) *big.Rat {
	r, _ := x.Rat(nil)
	return r
}

type level struct {
	tb       uint
	lo, hi   *big.Float
	tlo      *big.Int
	resolved bool
}

func tableCoq(ls []level) string {
	xs := make([]string, len(ls))
	for i, l := range ls {
		xs[i] = "(" + zi(int64(l.tb)) + ", (" + dyCoq(l.lo) + ", " + dyCoq(l.hi) + "))"
	}
	return vh.List(xs)
}

// the levels escalateThreshold(start, cap) consults, observed on the real code
func observeLevels(omf *big.Rat, pool, total uint64, U *big.Int, start, cap uint) []level {
	var ls []level
	tb := start
	for i := 0; i < 40; i++ {
		lo, hi := oneMinusFPowerSigmaBounds(omf, pool, total, tb)
		tlo, res := thresholdFromBoundedProbability(omf, pool, total, U, tb)
		ls = append(ls, level{tb, lo, hi, tlo, res})
		if res || tb >= cap {
			break
		}
		tb *= 2
	}
	return ls
}

type env struct {
	c      *vh.Ctx
	cf     *vh.CaseFile
	ncert  int
	maxcrt int
	certBuf  []string
	certRp   []replay
	certFile int
	wantMemo map[string]*big.Int
	seenCase map[string]bool
	coqMax int // largest bit size sent to the Coq model
}

func fOpt(fn, fd *big.Int) string {
	if fn == nil {
		return "None"
	}
	return "(Some " + zpair(fn, fd) + ")"
}

func (e *env) viol(key, what string, rp replay) { e.c.Res.Violate("monitor", key, what, rp) }

// ---------------------------------------------------------------------------
// CertifiedNatThresholdWithMode

func sizeClass(bits int) string {
	switch {
	case bits <= 64:
		return "small"
	case bits <= 600:
		return "mid"
	default:
		return "huge"
	}
}

func (e *env) evalThreshold(rp replay) (T *big.Int, ec int) {
	c := e.c
	var f *big.Rat
	var fn, fd *big.Int
	if rp.FN != "" {
		f = new(big.Rat).SetFrac(bi(rp.FN), bi(rp.FD))
		fn, fd = new(big.Int).Set(f.Num()), new(big.Int).Set(f.Denom())
	}
	c.Begin(rp)
	var err error
	panicked, pv := vh.Recover(func() {
		T, err = consensus.CertifiedNatThresholdWithMode(rp.Pool, rp.Total, f, consensus.ConsensusMode(rp.Mode))
	})
	if panicked {
		e.viol("threshold-panic", fmt.Sprintf("CertifiedNatThresholdWithMode panicked: %v", pv), rp)
		return nil, 9
	}
	ec = errClass(err)
	if ec == 0 {
		rp.Got = T.String()
	} else {
		rp.Got = fmt.Sprintf("error-class-%d", ec)
	}
	k, modeOK := modeBits(rp.Mode)
	canon := fmt.Sprintf("%d/%d/%d/%s/%s", rp.Mode, rp.Pool, rp.Total, rp.FN, rp.FD)
	inDomain := modeOK && f != nil && f.Sign() > 0 && f.Cmp(big.NewRat(1, 1)) < 0 && rp.Pool > 0 && rp.Total > 0
	c.Res.Count(canon, inDomain, rp.Class)

	// ---- guards (monitor, from the property text) -------------------------
	expectZero := func(why string) {
		if ec != 0 || T.Sign() != 0 {
			e.viol("guard-"+why, fmt.Sprintf("expected threshold 0 (%s), got %s", why, rp.Got), rp)
		}
	}
	var tbl []level
	switch {
	case !modeOK:
		if ec != 1 {
			e.viol("guard-unknown-mode", "unknown mode must be an error, got "+rp.Got, rp)
		}
	case f == nil:
		expectZero("nil-coefficient")
	case f.Sign() <= 0:
		// f = 0 is in the domain: floor(2^k*(1-1^sigma)) = 0.  f < 0 is outside
		// [0,1]; the code returns 0 (documented, tested upstream); not judged.
		if f.Sign() == 0 {
			expectZero("f-zero")
		}
	case f.Cmp(big.NewRat(1, 1)) > 0:
		if ec != 2 {
			e.viol("guard-f-above-one", "f > 1 must be an error, got "+rp.Got, rp)
		}
	case rp.Total == 0 || rp.Pool == 0:
		expectZero("zero-stake")
	case f.Cmp(big.NewRat(1, 1)) == 0:
		if ec != 0 || T.Cmp(pow2(k)) != 0 {
			e.viol("guard-f-one", "f = 1 with positive stake must give 2^k, got "+rp.Got, rp)
		}
	default:
		tbl = e.monitorInDomain(rp, f, k, T, ec)
	}
	if len(c.Res.Samples) < 6 && inDomain {
		c.Res.Sample(map[string]any{"mode": rp.Mode, "pool": rp.Pool, "total": rp.Total, "f": f.RatString(), "class": rp.Class, "threshold": rp.Got})
	}

	// ---- correspondence case ------------------------------------------------
	bits := 0
	if fn != nil {
		bits = fd.BitLen()
	}
	// the Coq evaluation of Newton's k-th root on a 2000-bit number with
	// 3 <= k < 2000 costs seconds (linear convergence, as in Go): such
	// inputs are left to the monitor and the certificates (thorough keeps k <= 5)
	coqOK := bits <= e.coqMax
	if coqOK && bits > 600 && rp.Pool > 0 && rp.Total > 0 {
		p0 := rp.Pool
		if p0 > rp.Total {
			p0 = rp.Total
		}
		g := new(big.Int).GCD(nil, nil, new(big.Int).SetUint64(p0), new(big.Int).SetUint64(rp.Total))
		m := new(big.Int).Quo(new(big.Int).SetUint64(rp.Total), g)
		if m.Cmp(big.NewInt(int64(c.Pick(2, 5)))) > 0 && m.Cmp(big.NewInt(int64(bits))) < 0 {
			coqOK = false
			c.Res.Distribution["coq-skipped-slow-root"]++
		}
	}
	if coqOK {
		res := "(0, " + vh.BigZ(big.NewInt(0)) + ")"
		if ec == 0 {
			res = "(0, " + vh.BigZ(T) + ")"
		} else {
			res = "(" + zi(int64(ec)) + ", 0)"
		}
		e.cf.Add(fmt.Sprintf("CThreshold %s %s %s %s %s %s", zi(int64(rp.Mode)), fOpt(fn, fd),
			vh.BigZ(new(big.Int).SetUint64(rp.Pool)), vh.BigZ(new(big.Int).SetUint64(rp.Total)), tableCoq(tbl), res), rp)
	}
	return T, ec
}

// in-domain input: 0 < f < 1, stakes > 0, valid mode
func (e *env) monitorInDomain(rp replay, f *big.Rat, k uint, T *big.Int, ec int) []level {
	c := e.c
	pool := rp.Pool
	if pool > rp.Total {
		pool = rp.Total
	}
	omf := new(big.Rat).Sub(big.NewRat(1, 1), f)
	a, b := omf.Num(), omf.Denom()
	p, q := new(big.Int).SetUint64(pool), new(big.Int).SetUint64(rp.Total)
	U := pow2(k)

	if ec != 0 && ec != 3 {
		e.viol("in-domain-error", "in-domain input returned error class "+rp.Got, rp)
		return nil
	}
	// which path does the real code take (observed through its own functions)
	_, exactPath := exactOneMinusFPowerSigmaThreshold(omf, pool, rp.Total, U)
	var tbl []level
	if !exactPath {
		tbl = observeLevels(omf, pool, rp.Total, U, 576, 1<<14)
		c.Res.Distribution[fmt.Sprintf("general-path-levels=%d", len(tbl))]++
	} else {
		c.Res.Distribution["exact-path"]++
	}

	// independent value
	tEx, isInt, rational := exactValue(a, b, p, q, k)
	if rational != exactPath {
		e.viol("exact-path-decision", fmt.Sprintf("(1-f)^sigma rational=%v (bisection roots) but fast path taken=%v", rational, exactPath), rp)
	}
	var want *big.Int
	needBits := 0
	certified := false
	if rational {
		want, certified = tEx, true
		if !isInt {
			_, okb, nb, _ := certifiedFloor(a, b, p, q, k, k+4096)
			if okb {
				needBits = nb
			} else {
				needBits = 1 << 30
			}
		}
	} else {
		maxP := k + 4096
		if ec == 3 || len(tbl) > 2 {
			maxP = k + 20000
		}
		var usedP uint
		want, certified, needBits, usedP = certifiedFloor(a, b, p, q, k, maxP)
		_ = usedP
	}
	if ec == 3 {
		// an error instead of a value: admitted by the property ("otherwise an
		// error"); it is justified only if the value is within 2^-(cap-k) of an integer
		c.Res.Distribution["unresolved-error"]++
		if certified && needBits < 1<<14-int(k)-64 {
			e.viol("unresolved-error-unjustified", fmt.Sprintf("escalation error although the value is only %d bits close to an integer", needBits), rp)
		}
		return tbl
	}
	if !certified {
		c.Res.Distribution["monitor-uncertified"]++
	} else if T.Cmp(want) != 0 {
		d := new(big.Int).Sub(T, want)
		mag := "far"
		if d.IsInt64() && d.Int64() >= -2 && d.Int64() <= 2 {
			mag = fmt.Sprintf("off-by-%d", d.Int64())
		}
		path := "general"
		if exactPath {
			path = "exact"
		}
		capd := ""
		if rp.Pool > rp.Total {
			capd = "-pool-above-total"
		}
		e.viol(fmt.Sprintf("threshold-not-floor-%s-%s%s", path, mag, capd),
			fmt.Sprintf("returned %s, floor(2^%d*(1-(1-f)^sigma)) = %s (independent enclosure)", T, k, want), rp)
	}
	// enclosure of the kernel interval at every level consulted
	for _, l := range tbl {
		if l.tb > 2400 {
			continue
		}
		lo, hi := ratOfFloat(l.lo), ratOfFloat(l.hi)
		// relative width 2^-tb: need P >= tb + |log2 v| + slack
		vexp := 0
		if hi.Sign() > 0 {
			vexp = hi.Denom().BitLen() - hi.Num().BitLen()
			if vexp < 0 {
				vexp = 0
			}
		}
		P := l.tb + uint(vexp) + 256
		v := powBracket(a, b, p, q, P)
		den := pow2(P)
		vlo := new(big.Rat).SetFrac(v.lo, den)
		vhi := new(big.Rat).SetFrac(v.hi, den)
		if lo.Cmp(vlo) > 0 || hi.Cmp(vhi) < 0 {
			e.viol(fmt.Sprintf("kernel-enclosure-violated-tb%d", l.tb),
				fmt.Sprintf("oneMinusFPowerSigmaBounds at %d bits does not contain (1-f)^sigma", l.tb), rp)
		}
		c.Res.Distribution["enclosure-checked"]++
	}
	// certificate for Coq's interval tactic
	if certified && !(rational && isInt) && ec == 0 && e.ncert < e.maxcrt {
		prec := int(k) + 64 + needBits
		if a.BitLen() > 1500 {
			prec += 64
		}
		if prec <= 3200 {
			e.writeCert(rp, f, k, pool, T, prec)
		} else {
			c.Res.Distribution["certificate-skipped-precision"]++
		}
	}
	return tbl
}

// Certificates are batched (loading Interval costs ~2 s per coqc process):
// each lemma is followed by a marker; coqc stops at the first lemma that
// `interval` cannot prove, so the first missing marker names the rejected
// certificate (the later ones of that batch stay unchecked and are reported
// as such).
const certBatch = 6

func (e *env) writeCert(rp replay, f *big.Rat, k uint, pool uint64, T *big.Int, prec int) {
	fn, fd := f.Num(), f.Denom()
	a := new(big.Int).Sub(fd, fn)
	var sb strings.Builder
	i := len(e.certBuf)
	fmt.Fprintf(&sb, "Lemma cert%d : thr %d (ratR %s %s) (sigma_of %d %d) = %s%%Z.\nProof.\n", i, k, fn, fd, rp.Pool, rp.Total, T)
	fmt.Fprintf(&sb, "  apply (thr_certificate %d %s %s %s %s %d %d %d %s);\n    [vm_compute; reflexivity|lia|reflexivity|lia|lia|reflexivity|].\n", k, pow2(k), fn, fd, a, rp.Pool, rp.Total, pool, T)
	fmt.Fprintf(&sb, "  split; interval with (i_prec %d).\nQed.\nGoal True. idtac \"cert_ok_%d\". Abort.\n", prec, i)
	e.certBuf = append(e.certBuf, sb.String())
	e.certRp = append(e.certRp, rp)
	e.ncert++
	e.c.Res.CoqCases++
	e.c.Res.Distribution["certificate"]++
	if len(e.certBuf) >= certBatch {
		e.flushCerts()
	}
}

func (e *env) flushCerts() {
	if len(e.certBuf) == 0 {
		return
	}
	name := fmt.Sprintf("cert_%d", e.certFile)
	e.certFile++
	src := "From Coq Require Import Reals ZArith Lia.\nFrom Interval Require Import Tactic.\nFrom V Require Import C37.Spec C37.RealProofs.\nLocal Open Scope R_scope.\n" + strings.Join(e.certBuf, "")
	if err := os.WriteFile(filepath.Join(e.c.Out, name+".v"), []byte(src), 0o644); err != nil {
		panic(err)
	}
	e.c.Res.CaseFiles = append(e.c.Res.CaseFiles, name)
	for i, rp := range e.certRp {
		e.c.Res.CaseIndex[fmt.Sprintf("%s#%d", name, i)] = rp
	}
	e.c.Res.CaseIndex[name+"#n"] = len(e.certRp)
	e.certBuf, e.certRp = nil, nil
}

// ---------------------------------------------------------------------------
// unit entry points (reached with go:linkname)

func (e *env) evalRoot(rp replay) {
	n, k := bi(rp.N), bi(rp.K)
	e.c.Begin(rp)
	var r *big.Int
	var ok bool
	panicked, pv := vh.Recover(func() { r, ok = exactIntegerNthRoot(n, k) })
	if panicked {
		e.viol("root-panic", fmt.Sprintf("exactIntegerNthRoot panicked: %v", pv), rp)
		return
	}
	e.c.Res.Count("root/"+rp.N+"/"+rp.K, n.Sign() > 0 && k.Sign() > 0, "root-"+rp.Class)
	if n.Sign() >= 0 && k.Sign() > 0 {
		wr, wok := perfectRoot(n, k)
		if wok != ok || (ok && wr.Cmp(r) != 0) {
			e.viol("nth-root-wrong-"+rp.Class, fmt.Sprintf("exactIntegerNthRoot(%s,%s) = (%v,%v), bisection gives (%v,%v)", trunc(rp.N), rp.K, r, ok, wr, wok), rp)
		}
	}
	res := "None"
	if ok {
		res = "(Some " + vh.BigZ(r) + ")"
	}
	e.cf.Add(fmt.Sprintf("CRoot %s %s %s", vh.BigZ(n), vh.BigZ(k), res), rp)
}

func trunc(s string) string {
	if len(s) > 60 {
		return s[:60] + "..."
	}
	return s
}

func (e *env) evalExact(rp replay) {
	omf := new(big.Rat).SetFrac(bi(rp.FN), bi(rp.FD)) // here FN/FD is 1-f itself
	k, _ := modeBits(rp.Mode)
	U := pow2(k)
	e.c.Begin(rp)
	pw, ok1 := exactOneMinusFPowerSigma(omf, rp.Pool, rp.Total)
	t, ok2 := exactOneMinusFPowerSigmaThreshold(omf, rp.Pool, rp.Total, U)
	e.c.Res.Count("exact/"+rp.FN+"/"+rp.FD+fmt.Sprint(rp.Pool, rp.Total, rp.Mode), true, "exact-"+rp.Class)
	a, b := vh.BigZ(omf.Num()), vh.BigZ(omf.Denom())
	p, q := vh.BigZ(new(big.Int).SetUint64(rp.Pool)), vh.BigZ(new(big.Int).SetUint64(rp.Total))
	r1 := "None"
	if ok1 {
		r1 = "(Some " + zpair(pw.Num(), pw.Denom()) + ")"
	}
	r2 := "None"
	if ok2 {
		r2 = "(Some " + vh.BigZ(t) + ")"
	}
	tEx, _, rational := exactValue(omf.Num(), omf.Denom(), new(big.Int).SetUint64(rp.Pool), new(big.Int).SetUint64(rp.Total), k)
	if rational != ok2 || (ok2 && tEx.Cmp(t) != 0) {
		e.viol("exact-path-wrong-"+rp.Class, fmt.Sprintf("exact fast path gives (%v,%v), independent exact value (%v,%v)", t, ok2, tEx, rational), rp)
	}
	e.cf.Add(fmt.Sprintf("CPow %s %s %s %s %s", a, b, p, q, r1), rp)
	e.cf.Add(fmt.Sprintf("CExact %s %s %s %s %s %s", vh.BigZ(U), a, b, p, q, r2), rp)
}

func (e *env) evalEscalate(rp replay) {
	omf := new(big.Rat).SetFrac(bi(rp.FN), bi(rp.FD)) // 1-f
	k, _ := modeBits(rp.Mode)
	U := pow2(k)
	e.c.Begin(rp)
	T, err := escalateThreshold(omf, rp.Pool, rp.Total, U, rp.Start, rp.Cap)
	ec := errClass(err)
	ls := observeLevels(omf, rp.Pool, rp.Total, U, rp.Start, rp.Cap)
	e.c.Res.Count(fmt.Sprintf("esc/%s/%s/%d/%d/%d/%d/%d", rp.FN, rp.FD, rp.Pool, rp.Total, rp.Mode, rp.Start, rp.Cap), true, "escalate-"+rp.Class)
	e.c.Res.Distribution[fmt.Sprintf("escalate-levels=%d-err=%d", len(ls), ec)]++
	// monitor: a returned value must be the true floor (any start/cap)
	if ec == 0 {
		want, ok, _, _ := certifiedFloor(omf.Num(), omf.Denom(), new(big.Int).SetUint64(rp.Pool), new(big.Int).SetUint64(rp.Total), k, k+4096)
		if ok && want.Cmp(T) != 0 {
			e.viol("escalate-returned-unproven-value", fmt.Sprintf("escalateThreshold(start=%d,cap=%d) returned %s, floor is %s", rp.Start, rp.Cap, T, want), rp)
		}
	} else if ec != 3 {
		e.viol("escalate-unexpected-error", "unexpected error class", rp)
	}
	res := "(" + zi(int64(ec)) + ", 0)"
	if ec == 0 {
		res = "(0, " + vh.BigZ(T) + ")"
	}
	e.cf.Add(fmt.Sprintf("CEscalate %s %s %s %s %s", vh.BigZ(U), tableCoq(ls), zi(int64(rp.Start)), zi(int64(rp.Cap)), res), rp)
	for _, l := range ls {
		e.cf.Add(fmt.Sprintf("CBounded %s %s %s %s %s %s", vh.BigZ(U), dyCoq(l.lo), dyCoq(l.hi), zi(int64(l.tb)), vh.BigZ(l.tlo), vh.Bool(l.resolved)), rp)
	}
}

func leaderHash(out []byte) []byte {
	h := blake2b.Sum256(append([]byte{0x4c}, out...))
	return h[:]
}

func (e *env) evalBelow(rp replay) {
	out := vh.UnHex(rp.Out)
	var thr *big.Int
	if rp.Thr != "" {
		thr = bi(rp.Thr)
	}
	e.c.Begin(rp)
	got, err := consensus.IsVRFOutputBelowThresholdWithMode(out, thr, consensus.ConsensusMode(rp.Mode))
	e.c.Res.Count(fmt.Sprintf("below/%d/%s/%s", rp.Mode, rp.Out, rp.Thr), thr != nil && len(out) > 0, "below-"+rp.Class)
	_, modeOK := modeBits(rp.Mode)
	res := "None"
	if err == nil {
		res = "(Some " + vh.Bool(got) + ")"
	}
	if modeOK != (err == nil) {
		e.viol("below-error-class", "error iff unknown mode expected", rp)
	}
	if modeOK && err == nil {
		want := false
		if thr != nil && len(out) > 0 {
			lv := out
			if rp.Mode == 0 {
				lv = leaderHash(out)
			}
			want = new(big.Int).SetBytes(lv).Cmp(thr) < 0
		}
		if want != got {
			e.viol(fmt.Sprintf("eligibility-wrong-mode%d-%s", rp.Mode, rp.Class), fmt.Sprintf("below=%v but leader value < threshold is %v", got, want), rp)
		}
	}
	t := "None"
	if thr != nil {
		t = "(Some " + vh.BigZ(thr) + ")"
	}
	e.cf.Add(fmt.Sprintf("CBelow %s %s %s %s %s", zi(int64(rp.Mode)), vh.Bytes(out), vh.Bytes(leaderHash(out)), t, res), rp)
}

func (e *env) evalLeader(rp replay) {
	out := vh.UnHex(rp.Out)
	var f *big.Rat
	if rp.FN != "" {
		f = new(big.Rat).SetFrac(bi(rp.FN), bi(rp.FD))
	}
	e.c.Begin(rp)
	got, err := consensus.IsSlotLeaderFromComponentsWithMode(out, rp.Pool, rp.Total, f, consensus.ConsensusMode(rp.Mode))
	e.judgeLeader(rp, out, f, got, errClass(err), rp, false)
}

// independent threshold for in-domain arguments (memoised: histories revisit values)
func (e *env) wantThreshold(f *big.Rat, pool, total uint64, k uint) (*big.Int, bool) {
	if pool > total {
		pool = total
	}
	key := fmt.Sprintf("%s/%d/%d/%d", f.RatString(), pool, total, k)
	if e.wantMemo == nil {
		e.wantMemo = map[string]*big.Int{}
	}
	if w, ok := e.wantMemo[key]; ok {
		return w, w != nil
	}
	omf := new(big.Rat).Sub(big.NewRat(1, 1), f)
	var want *big.Int
	ok := false
	if tEx, _, rational := exactValue(omf.Num(), omf.Denom(), new(big.Int).SetUint64(pool), new(big.Int).SetUint64(total), k); rational {
		want, ok = tEx, true
	} else {
		want, ok, _, _ = certifiedFloor(omf.Num(), omf.Denom(), new(big.Int).SetUint64(pool), new(big.Int).SetUint64(total), k, k+4096)
	}
	if !ok {
		want = nil
	}
	e.wantMemo[key] = want
	return want, ok
}

func inDomainF(f *big.Rat) bool {
	return f != nil && f.Sign() > 0 && f.Cmp(big.NewRat(1, 1)) < 0
}

// judgeLeader: monitor + correspondence case for one observed eligibility
// verdict (got, ec) of a leader.go entry point on the argument VALUES
// (out, rp.Pool, rp.Total, f, rp.Mode).  rep is the replay object reported;
// hist says the call was one step of a history (key names the history if the
// stateless threshold function itself is right for these values).
func (e *env) judgeLeader(rp replay, out []byte, f *big.Rat, got bool, ec int, rep replay, hist bool) {
	var fn, fd *big.Int
	if f != nil {
		f = new(big.Rat).Set(f)
		fn, fd = f.Num(), f.Denom()
	}
	out = append([]byte(nil), out...)
	e.c.Res.Count(fmt.Sprintf("leader/%d/%x/%d/%d/%v/%v", rp.Mode, out, rp.Pool, rp.Total, fn, fd), len(out) == 64, "leader-"+rp.Class)
	k, modeOK := modeBits(rp.Mode)
	var tbl []level
	if modeOK && inDomainF(f) && rp.Pool > 0 && rp.Total > 0 && len(out) == 64 {
		pool := rp.Pool
		if pool > rp.Total {
			pool = rp.Total
		}
		omf := new(big.Rat).Sub(big.NewRat(1, 1), f)
		U := pow2(k)
		if _, ex := exactOneMinusFPowerSigmaThreshold(omf, pool, rp.Total, U); !ex {
			tbl = observeLevels(omf, pool, rp.Total, U, 576, 1<<14)
		}
		// monitor: verdict = leader value < independent floor
		want, ok := e.wantThreshold(f, rp.Pool, rp.Total, k)
		if ok && ec == 0 {
			lv := out
			if rp.Mode == 0 {
				lv = leaderHash(out)
			}
			w := new(big.Int).SetBytes(lv).Cmp(want) < 0
			if w != got {
				key := fmt.Sprintf("leader-verdict-wrong-mode%d-%s", rp.Mode, rp.Class)
				what := fmt.Sprintf("eligible=%v, leader value < exact threshold is %v", got, w)
				if hist {
					// is the stateless threshold function right for these values?
					if t, err := consensus.CertifiedNatThresholdWithMode(rp.Pool, rp.Total, new(big.Rat).Set(f), consensus.ConsensusMode(rp.Mode)); err == nil && t.Cmp(want) == 0 {
						key = "eligibility-depends-on-history"
						what = fmt.Sprintf("step %d (%s) of a history of leadership checks: eligible=%v although leader value < floor(2^k(1-(1-f)^sigma)) is %v for the arguments of THIS call (f=%s pool=%d total=%d mode=%d); CertifiedNatThresholdWithMode on the same values is right, so the verdict depends on earlier calls / in-place changes of the argument objects", rep.Step, rp.Class, got, w, f.RatString(), rp.Pool, rp.Total, rp.Mode)
					}
				}
				e.viol(key, what, rep)
			}
		}
	}
	res := "(1, " + zi(int64(ec)) + ")"
	if ec == 0 {
		b := int64(0)
		if got {
			b = 1
		}
		res = "(0, " + zi(b) + ")"
	}
	caseRep := rep
	if hist {
		// one Coq case per distinct (arguments, verdict) of a history; the case
		// index keeps the stateless values only (the monitor reports histories
		// with their full step list)
		key := fmt.Sprintf("%d/%x/%d/%d/%v/%v/%s", rp.Mode, out, rp.Pool, rp.Total, fn, fd, res)
		if e.seenCase == nil {
			e.seenCase = map[string]bool{}
		}
		if e.seenCase[key] {
			return
		}
		e.seenCase[key] = true
		caseRep = rp
		caseRep.Out = vh.Hex(out)
		if fn != nil {
			caseRep.FN, caseRep.FD = fn.String(), fd.String()
		}
	}
	e.cf.Add(fmt.Sprintf("CLeader %s %s %s %s %s %s %s %s", zi(int64(rp.Mode)), vh.Bytes(out), vh.Bytes(leaderHash(out)), fOpt(fn, fd),
		vh.BigZ(new(big.Int).SetUint64(rp.Pool)), vh.BigZ(new(big.Int).SetUint64(rp.Total)), tableCoq(tbl), res), caseRep)
}

func (e *env) dispatch(rp replay) {
	switch rp.Kind {
	case "threshold":
		e.evalThreshold(rp)
	case "root":
		e.evalRoot(rp)
	case "exact":
		e.evalExact(rp)
	case "escalate":
		e.evalEscalate(rp)
	case "below":
		e.evalBelow(rp)
	case "leader":
		e.evalLeader(rp)
	case "history":
		e.runHistory(rp)
	}
}

// ---------------------------------------------------------------------------
// generators

func randBig(r *vh.Rng, bits int) *big.Int {
	if bits <= 0 {
		return big.NewInt(0)
	}
	b := r.Bytes((bits + 7) / 8)
	z := new(big.Int).SetBytes(b)
	z.Rsh(z, uint(len(b)*8-bits))
	z.SetBit(z, bits-1, 1)
	return z
}

var typicalF = [][2]int64{{1, 20}, {1, 2}, {1, 10}, {1, 5}, {9, 10}, {99, 100}, {1, 1000}, {3, 4}, {1, 3}, {2, 3}, {999, 1000}, {7, 8}, {1, 1 << 40}}

func thrInput(class string, mode int, pool, total uint64, fn, fd *big.Int) replay {
	rp := replay{Kind: "threshold", Class: class, Mode: mode, Pool: pool, Total: total}
	if fn != nil {
		rp.FN, rp.FD = fn.String(), fd.String()
	}
	return rp
}

func genStakes(r *vh.Rng) (uint64, uint64) {
	switch r.Intn(7) {
	case 0: // tiny ratio
		return uint64(1 + r.Intn(3)), ^uint64(0) - uint64(r.Intn(3))
	case 1: // near total
		t := r.Boundary()
		if t < 4 {
			t = 4 + r.U64()>>1
		}
		return t - uint64(r.Intn(3)), t
	case 2: // above total (cap)
		t := 1 + r.U64()>>uint(1+r.Intn(60))
		return t + 1 + uint64(r.Intn(1000)), t
	case 3: // small rationals
		q := uint64(1 + r.Intn(50))
		return uint64(1 + r.Intn(int(q))), q
	case 4:
		a, b := r.Boundary(), r.Boundary()
		if a > b {
			a, b = b, a
		}
		if b == 0 {
			b = 1
		}
		if a == 0 {
			a = 1
		}
		return a, b
	case 5: // realistic lovelace amounts
		t := uint64(20_000_000_000_000_000) + r.U64()%5_000_000_000_000_000
		return r.U64() % (t / 100), t
	default:
		t := r.U64()
		if t == 0 {
			t = 1
		}
		return 1 + r.U64()%t, t
	}
}

func genF(r *vh.Rng, huge bool) (*big.Int, *big.Int) {
	if huge {
		bits := 1000 + r.Intn(1100)
		switch r.Intn(5) {
		case 0: // (2^bits - 1)/2^bits
			d := pow2(uint(bits))
			return new(big.Int).Sub(d, big.NewInt(1)), d
		case 1: // 1/2^bits
			return big.NewInt(1), pow2(uint(bits))
		case 2: // close to 1/20 with a huge denominator
			d := randBig(r, bits)
			n := new(big.Int).Quo(d, big.NewInt(20))
			return n.Add(n, big.NewInt(1)), d
		default:
			d := randBig(r, bits)
			n := randBig(r, bits-1-r.Intn(40))
			if n.Cmp(d) >= 0 {
				n.Rsh(n, 1)
			}
			return n, d
		}
	}
	if r.Chance(2, 3) {
		f := vh.PickOne(r, typicalF)
		return big.NewInt(f[0]), big.NewInt(f[1])
	}
	d := int64(2 + r.Intn(1<<20))
	return big.NewInt(1 + int64(r.Intn(int(d-1)))), big.NewInt(d)
}

func run(c *vh.Ctx) error {
	c.Res.Rule = "inputs (mode, pool, total, f) by class: typical coefficients x stakes over the uint64 range (tiny ratio, near total, above total, small rationals, boundaries, lovelace-sized), guard inputs (nil/<=0/>1/=1 coefficient, zero stakes, unknown mode), 1000-2100 bit coefficients, exact-rational cutoffs ((1-f) an exact m-th power, sigma=n/m), near-exact cutoffs (value within 2^-300..2^-2400 of an integer: forces escalation), monotonicity pairs; histories of leadership checks through leader.go (IsSlotLeaderFromComponentsWithMode, IsSlotLeaderWithMode, FindNextSlotLeadership) in one process with the coefficient Rat changed in place (SetFrac/Set/Add), fresh-but-equal Rats, the output buffer overwritten in place, stake/mode detours, leader values at T-1,T,T+1 of the old and new coefficient; plus unit streams for exactIntegerNthRoot, the exact fast path, escalateThreshold/thresholdFromBoundedProbability at 4..64 start bits (unresolved/cap paths) and the eligibility test; distinct by the canonical input tuple; non-trivial = in-domain (0<f<1, stakes>0, known mode) for thresholds, n>0,k>0 for roots, 64-byte outputs for eligibility"
	c.Res.Modelled = []string{
		"the big.Float ln/exp kernel (oneMinusFPowerSigmaBounds and below) is an oracle in the model: its [lo,hi] is recorded from the real code (reached with go:linkname) and its enclosure of (1-f)^sigma is checked per sample (monitor enclosure + Coq interval certificates of the final threshold), not proved universally",
		"Blake2b-256 is a Section variable in the theorems; in the correspondence the harness supplies the digest (golang.org/x/crypto)",
		"error classes are recognised by a substring of the error text (mode / domain / escalation cap)",
	}
	c.Res.Distribution = map[string]int{}
	e := &env{c: c, maxcrt: c.Pick(36, 240), coqMax: c.Pick(2200, 2500)}
	e.cf = c.NewCaseFile("c37", header)
	e.cf.SetShardSize(c.Pick(30, 40))
	if c.Replay != "" {
		b, err := os.ReadFile(c.Replay)
		if err != nil {
			return err
		}
		var rp struct {
			Replay replay `json:"replay"`
		}
		if err := json.Unmarshal(b, &rp); err != nil {
			return err
		}
		e.maxcrt = 1
		e.dispatch(rp.Replay)
		e.cf.Flush()
		e.flushCerts()
		return nil
	}
	r := c.Rng
	one := big.NewInt(1)

	// ---- regression corpus ---------------------------------------------------
	for mode := 0; mode <= 1; mode++ {
		e.evalThreshold(thrInput("corpus", mode, 1, 3, big.NewInt(1), big.NewInt(20)))
		e.evalThreshold(thrInput("corpus-exact", mode, 1, 2, big.NewInt(3), big.NewInt(4)))
		e.evalThreshold(thrInput("corpus-exact", mode, 7, 7, big.NewInt(1), big.NewInt(2)))
		d := pow2(2000)
		e.evalThreshold(thrInput("corpus-exact-huge", mode, 1, 2, new(big.Int).Sub(d, one), d))
		e.evalThreshold(thrInput("corpus-cap", mode, 9, 7, big.NewInt(1), big.NewInt(20)))
		e.evalThreshold(thrInput("corpus-tiny", mode, 1, ^uint64(0), big.NewInt(1), big.NewInt(20)))
		// (1-f)^sigma = 2^-(1201*2/3) (irrational) < 2^-(576+128): round-to-nearest of 1-hi gives exactly 1
		d2 := pow2(1201)
		e.evalThreshold(thrInput("corpus-vanishing-power", mode, 2, 3, new(big.Int).Sub(d2, one), d2))
	}
	// ---- guards ---------------------------------------------------------------
	for _, mode := range []int{0, 1, 2, -1, 7} {
		e.evalThreshold(thrInput("guard", mode, 5, 10, big.NewInt(1), big.NewInt(20)))
		e.evalThreshold(thrInput("guard", mode, 5, 10, nil, nil))
		e.evalThreshold(thrInput("guard", mode, 5, 10, big.NewInt(0), big.NewInt(1)))
		e.evalThreshold(thrInput("guard", mode, 5, 10, big.NewInt(-1), big.NewInt(20)))
		e.evalThreshold(thrInput("guard", mode, 5, 10, big.NewInt(21), big.NewInt(20)))
		e.evalThreshold(thrInput("guard", mode, 0, 10, big.NewInt(21), big.NewInt(20)))
		e.evalThreshold(thrInput("guard", mode, 5, 10, big.NewInt(1), big.NewInt(1)))
		e.evalThreshold(thrInput("guard", mode, 50, 10, big.NewInt(1), big.NewInt(1)))
		e.evalThreshold(thrInput("guard", mode, 0, 10, big.NewInt(1), big.NewInt(1)))
		e.evalThreshold(thrInput("guard", mode, 5, 0, big.NewInt(1), big.NewInt(2)))
		e.evalThreshold(thrInput("guard", mode, 0, 0, big.NewInt(1), big.NewInt(2)))
		e.evalThreshold(thrInput("guard", mode, 0, 5, big.NewInt(1), big.NewInt(2)))
	}
	// ---- random thresholds ------------------------------------------------------
	nT := c.Pick(60, 400)
	for i := 0; i < nT; i++ {
		mode := r.Intn(2)
		pool, total := genStakes(r)
		huge := r.Chance(1, 8)
		fn, fd := genF(r, huge)
		class := "typical"
		if huge {
			class = "huge-coefficient"
		}
		e.evalThreshold(thrInput(class, mode, pool, total, fn, fd))
	}
	// ---- exact-rational cutoffs -------------------------------------------------
	nE := c.Pick(14, 60)
	for i := 0; i < nE; i++ {
		mode := r.Intn(2)
		m := 1 + r.Intn(6)
		n := 1 + r.Intn(m)
		rb := int64(2 + r.Intn(30))
		ra := int64(1 + r.Intn(int(rb-1)))
		scaleS := uint64(1 + r.Intn(1000))
		A := new(big.Int).Exp(big.NewInt(ra), big.NewInt(int64(m)), nil)
		B := new(big.Int).Exp(big.NewInt(rb), big.NewInt(int64(m)), nil)
		fn := new(big.Int).Sub(B, A)
		e.evalThreshold(thrInput("exact-rational", mode, uint64(n)*scaleS, uint64(m)*scaleS, fn, B))
		// neighbour: numerator +1 (not an exact power any more, usually)
		e.evalThreshold(thrInput("exact-neighbour", mode, uint64(n)*scaleS, uint64(m)*scaleS, new(big.Int).Add(fn, one), new(big.Int).Add(B, big.NewInt(int64(r.Intn(2))))))
	}
	// ---- near-exact cutoffs: 1-f = (4^J + d)/4^(J+1), sigma = 1/2 ----------------
	js := []int{150, 300, 420}
	if c.Thorough() {
		js = append(js, 700, 1100, 2300, 4700, 8300)
	}
	for _, J := range js {
		for _, d := range []int64{1, -1} {
			mode := r.Intn(2)
			num := new(big.Int).Add(pow2(uint(2*J)), big.NewInt(d))
			den := pow2(uint(2*J + 2))
			fn := new(big.Int).Sub(den, num)
			e.evalThreshold(thrInput(fmt.Sprintf("near-exact-J%d", J), mode, 1, 2, fn, den))
		}
	}
	// ---- monotonicity pairs --------------------------------------------------------
	nM := c.Pick(20, 100)
	for i := 0; i < nM; i++ {
		mode := r.Intn(2)
		pool, total := genStakes(r)
		fn, fd := genF(r, false)
		T1, e1 := e.evalThreshold(thrInput("monotone-base", mode, pool, total, fn, fd))
		// larger stake
		p2 := pool + 1 + uint64(r.Intn(3))
		if r.Bool() && pool < ^uint64(0)/2 {
			p2 = pool + r.U64()%(pool+1)
		}
		if p2 < pool {
			p2 = ^uint64(0)
		}
		T2, e2 := e.evalThreshold(thrInput("monotone-stake", mode, p2, total, fn, fd))
		if e1 == 0 && e2 == 0 && T1.Cmp(T2) > 0 {
			e.viol("not-monotone-in-stake", fmt.Sprintf("threshold decreased from %s to %s when the pool stake grew from %d to %d", T1, T2, pool, p2), thrInput("monotone-stake", mode, p2, total, fn, fd))
		}
		// larger coefficient: (fn*s+1)/(fd*s)
		s := big.NewInt(int64(1 + r.Intn(1000)))
		fn2 := new(big.Int).Add(new(big.Int).Mul(fn, s), one)
		fd2 := new(big.Int).Mul(fd, s)
		if fn2.Cmp(fd2) <= 0 {
			T3, e3 := e.evalThreshold(thrInput("monotone-f", mode, pool, total, fn2, fd2))
			if e1 == 0 && e3 == 0 && T1.Cmp(T3) > 0 {
				e.viol("not-monotone-in-f", fmt.Sprintf("threshold decreased from %s to %s when f grew", T1, T3), thrInput("monotone-f", mode, pool, total, fn2, fd2))
			}
		}
	}
	// ---- exactIntegerNthRoot ---------------------------------------------------------
	rootCase := func(class string, n *big.Int, k int64) {
		e.evalRoot(replay{Kind: "root", Class: class, N: n.String(), K: fmt.Sprint(k)})
	}
	for _, n := range []int64{-5, 0, 1, 2, 3, 4, 8, 9, 1024} {
		for _, k := range []int64{-1, 0, 1, 2, 3, 10, 11, 64} {
			rootCase("edge", big.NewInt(n), k)
		}
	}
	nR := c.Pick(25, 120)
	for i := 0; i < nR; i++ {
		k := int64(2 + r.Intn(7))
		if r.Chance(1, 5) {
			k = int64(2 + r.Intn(40))
		}
		bits := 2 + r.Intn(c.Pick(300, 900)/int(k))
		base := randBig(r, bits)
		n := new(big.Int).Exp(base, big.NewInt(k), nil)
		rootCase("perfect", n, k)
		rootCase("perfect+1", new(big.Int).Add(n, one), k)
		rootCase("perfect-1", new(big.Int).Sub(n, one), k)
		if r.Chance(1, 3) {
			rootCase("random", randBig(r, 2+r.Intn(300)), k)
			rootCase("k-at-bitlen", n, int64(n.BitLen())+int64(r.Intn(3))-1)
		}
	}
	rootCase("perfect-huge", pow2(2000), 2)
	rootCase("perfect-huge", new(big.Int).Add(pow2(2000), one), 2)
	rootCase("perfect-huge", new(big.Int).Exp(big.NewInt(3), big.NewInt(900), nil), 3)
	// ---- exact fast path, unit level ---------------------------------------------------
	nX := c.Pick(25, 120)
	for i := 0; i < nX; i++ {
		mode := r.Intn(2)
		m := 1 + r.Intn(7)
		n := 1 + r.Intn(m)
		rb := int64(2 + r.Intn(200))
		ra := int64(1 + r.Intn(int(rb-1)))
		A := new(big.Int).Exp(big.NewInt(ra), big.NewInt(int64(m)), nil)
		B := new(big.Int).Exp(big.NewInt(rb), big.NewInt(int64(m)), nil)
		s := uint64(1 + r.Intn(1<<20))
		class := "power"
		switch r.Intn(4) {
		case 0:
			A.Add(A, one)
			class = "num+1"
		case 1:
			B.Add(B, one)
			class = "den+1"
		}
		if A.Cmp(B) >= 0 {
			continue
		}
		e.evalExact(replay{Kind: "exact", Class: class, Mode: mode, Pool: uint64(n) * s, Total: uint64(m) * s, FN: A.String(), FD: B.String()})
	}
	// prime-ish huge reduced denominator: only 1/x^m could be exact
	e.evalExact(replay{Kind: "exact", Class: "huge-m", Mode: 0, Pool: 1, Total: ^uint64(0), FN: "1", FD: "2"})
	e.evalExact(replay{Kind: "exact", Class: "huge-m", Mode: 1, Pool: ^uint64(0) - 1, Total: ^uint64(0), FN: "19", FD: "20"})
	// ---- escalation / decision at low precision ------------------------------------------
	nS := c.Pick(24, 100)
	for i := 0; i < nS; i++ {
		mode := r.Intn(2)
		pool, total := genStakes(r)
		if pool > total {
			pool = total
		}
		fn, fd := genF(r, false)
		omf := new(big.Rat).Sub(big.NewRat(1, 1), new(big.Rat).SetFrac(fn, fd))
		if omf.Sign() <= 0 {
			continue
		}
		start := uint(4) << uint(r.Intn(5))
		cap := start << uint(r.Intn(c.Pick(5, 9)))
		if r.Chance(1, 6) {
			cap = start >> 1
		}
		e.evalEscalate(replay{Kind: "escalate", Class: fmt.Sprintf("start%d", start), Mode: mode, Pool: pool, Total: total,
			FN: omf.Num().String(), FD: omf.Denom().String(), Start: start, Cap: cap})
	}
	// ---- eligibility --------------------------------------------------------------------
	nB := c.Pick(30, 100)
	for i := 0; i < nB; i++ {
		mode := r.Intn(2)
		k, _ := modeBits(mode)
		pool, total := genStakes(r)
		fn, fd := genF(r, false)
		f := new(big.Rat).SetFrac(fn, fd)
		T, err := consensus.CertifiedNatThresholdWithMode(pool, total, f, consensus.ConsensusMode(mode))
		if err != nil {
			continue
		}
		outs := [][]byte{r.Bytes(64)}
		if mode == 1 {
			// raw 64-byte output = T-1, T, T+1: the boundary itself
			for _, d := range []int64{-1, 0, 1} {
				v := new(big.Int).Add(T, big.NewInt(d))
				if v.Sign() >= 0 && v.BitLen() <= int(k) {
					outs = append(outs, v.FillBytes(make([]byte, 64)))
				}
			}
		} else {
			// thresholds placed at the hashed leader value and next to it
			lv := new(big.Int).SetBytes(leaderHash(outs[0]))
			for _, d := range []int64{-1, 0, 1} {
				e.evalBelow(replay{Kind: "below", Class: "boundary", Mode: 0, Out: vh.Hex(outs[0]), Thr: new(big.Int).Add(lv, big.NewInt(d)).String()})
			}
		}
		for _, o := range outs {
			e.evalBelow(replay{Kind: "below", Class: "boundary", Mode: mode, Out: vh.Hex(o), Thr: T.String()})
			e.evalLeader(replay{Kind: "leader", Class: "boundary", Mode: mode, Out: vh.Hex(o), Pool: pool, Total: total, FN: fn.String(), FD: fd.String()})
		}
		if i%10 == 0 {
			e.evalBelow(replay{Kind: "below", Class: "nil-threshold", Mode: mode, Out: vh.Hex(outs[0])})
			e.evalBelow(replay{Kind: "below", Class: "empty-output", Mode: mode, Out: "", Thr: T.String()})
			e.evalBelow(replay{Kind: "below", Class: "bad-mode", Mode: 5, Out: vh.Hex(outs[0]), Thr: T.String()})
			e.evalBelow(replay{Kind: "below", Class: "short-output", Mode: mode, Out: vh.Hex(r.Bytes(1 + r.Intn(63))), Thr: T.String()})
			e.evalLeader(replay{Kind: "leader", Class: "short-output", Mode: mode, Out: vh.Hex(r.Bytes(63)), Pool: pool, Total: total, FN: fn.String(), FD: fd.String()})
			e.evalLeader(replay{Kind: "leader", Class: "bad-mode", Mode: 9, Out: vh.Hex(outs[0]), Pool: pool, Total: total, FN: fn.String(), FD: fd.String()})
			e.evalLeader(replay{Kind: "leader", Class: "f-above-one", Mode: mode, Out: vh.Hex(outs[0]), Pool: pool, Total: total, FN: "3", FD: "2"})
			e.evalLeader(replay{Kind: "leader", Class: "nil-f", Mode: mode, Out: vh.Hex(outs[0]), Pool: pool, Total: total})
			e.evalLeader(replay{Kind: "leader", Class: "zero-stake", Mode: mode, Out: vh.Hex(outs[0]), Pool: 0, Total: total, FN: "1", FD: "2"})
		}
	}
	// ---- histories of eligibility checks with in-place argument mutation ----------------
	e.genHistories()
	e.cf.Flush()
	e.flushCerts()
	c.Res.TracesValidated = c.Res.CoqCases
	return nil
}

func post(c *vh.Ctx) error {
	all := c.Res.CaseFiles
	var cases, certs []string
	for _, fn := range all {
		if strings.HasPrefix(fn, "cert_") {
			certs = append(certs, fn)
		} else {
			cases = append(cases, fn)
		}
	}
	c.Res.CaseFiles = cases
	err := vh.DefaultPost(c)
	c.Res.CaseFiles = all
	if err != nil {
		return err
	}
	okc, total, unchecked := 0, 0, 0
	for _, fn := range certs {
		b, _ := os.ReadFile(filepath.Join(c.Out, fn+".out"))
		s := string(b)
		n := 0
		if v, ok := c.Res.CaseIndex[fn+"#n"].(float64); ok {
			n = int(v)
		}
		total += n
		failed := -1
		for i := 0; i < n; i++ {
			if strings.Contains(s, fmt.Sprintf("cert_ok_%d\n", i)) {
				okc++
			} else {
				failed = i
				break
			}
		}
		if failed < 0 {
			continue
		}
		unchecked += n - failed - 1
		if len(s) > 500 {
			s = s[len(s)-500:]
		}
		c.Res.Violate("correspondence", "certificate-rejected",
			fmt.Sprintf("Coq's interval tactic could not prove that the returned threshold is floor(2^k*(1-(1-f)^sigma)) for this input (%s, lemma cert%d; %d later certificates of the batch unchecked): %s", fn, failed, n-failed-1, s),
			c.Res.CaseIndex[fmt.Sprintf("%s#%d", fn, failed)])
	}
	_ = unchecked
	c.Res.Notes = append(c.Res.Notes, fmt.Sprintf("interval certificates proved: %d of %d", okc, total))
	return nil
}

func main() { vh.Main(vh.Runner{Property: "C37", Run: run, Post: post}) }
