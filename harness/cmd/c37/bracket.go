package main

// Independent oracle for the monitor: a rigorous enclosure of
// v = (a/b)^(p/q) (0 < a < b, 0 < p <= q) and of 2^k*(1-v), computed with
// outward-rounded fixed-point integer arithmetic (P fractional bits).  It
// shares nothing with consensus/threshold.go: ln via the Mercator series of
// 1-m after scaling to [1/2,1), exp by Taylor with halving/squaring on a
// non-negative argument, v = 1/exp(X); every step rounds the lower end down
// and the upper end up, series remainders are added to the upper end.

import "math/big"

type iv struct{ lo, hi *big.Int } // value * 2^P lies in [lo, hi]

func ceilDiv(a, b *big.Int) *big.Int { // a >= 0, b > 0
	q, r := new(big.Int).QuoRem(a, b, new(big.Int))
	if r.Sign() != 0 {
		q.Add(q, big.NewInt(1))
	}
	return q
}

func shrCeil(a *big.Int, s uint) *big.Int { // a >= 0
	q := new(big.Int).Rsh(a, s)
	if new(big.Int).Lsh(q, s).Cmp(a) != 0 {
		q.Add(q, big.NewInt(1))
	}
	return q
}

// negLnUnit encloses -ln(m), m = 1-u, for a rational u = un/ud in (0, 1/2].
func negLnUnit(un, ud *big.Int, P uint) iv {
	one := big.NewInt(1)
	ulo := new(big.Int).Quo(new(big.Int).Lsh(un, P), ud)
	uhi := ceilDiv(new(big.Int).Lsh(un, P), ud)
	plo := new(big.Int).Lsh(one, P) // u^0
	phi := new(big.Int).Lsh(one, P)
	slo, shi := new(big.Int), new(big.Int)
	four := big.NewInt(4)
	for n := int64(1); n < int64(P)+200; n++ {
		plo = new(big.Int).Rsh(new(big.Int).Mul(plo, ulo), P)
		phi = shrCeil(new(big.Int).Mul(phi, uhi), P)
		nn := big.NewInt(n)
		slo.Add(slo, new(big.Int).Quo(plo, nn))
		shi.Add(shi, ceilDiv(phi, nn))
		if phi.Cmp(four) <= 0 {
			break
		}
	}
	// remainder sum_{j>N} u^j/j <= u^N * u/(1-u) <= u^N <= phi
	shi.Add(shi, phi)
	shi.Add(shi, one)
	return iv{slo, shi}
}

// expPos encloses exp(X) for X >= 0.
func expPos(x iv, P uint) iv {
	one := big.NewInt(1)
	j := 0
	if bl := x.hi.BitLen(); bl > int(P)-1 {
		j = bl - (int(P) - 1)
	}
	zlo := new(big.Int).Rsh(x.lo, uint(j))
	zhi := shrCeil(x.hi, uint(j))
	tlo := new(big.Int).Lsh(one, P)
	thi := new(big.Int).Lsh(one, P)
	slo := new(big.Int).Set(tlo)
	shi := new(big.Int).Set(thi)
	two := big.NewInt(2)
	for n := int64(1); n < int64(P)+200; n++ {
		nn := big.NewInt(n)
		tlo = new(big.Int).Quo(new(big.Int).Rsh(new(big.Int).Mul(tlo, zlo), P), nn)
		thi = ceilDiv(shrCeil(new(big.Int).Mul(thi, zhi), P), nn)
		slo.Add(slo, tlo)
		shi.Add(shi, thi)
		if thi.Cmp(two) <= 0 {
			break
		}
	}
	// remainder <= t_N * (z + z^2 + ...) <= t_N for z <= 1/2
	shi.Add(shi, thi)
	shi.Add(shi, one)
	for i := 0; i < j; i++ {
		slo = new(big.Int).Rsh(new(big.Int).Mul(slo, slo), P)
		shi = shrCeil(new(big.Int).Mul(shi, shi), P)
	}
	return iv{slo, shi}
}

// powBracket encloses v = (a/b)^(p/q), scaled by 2^P.
func powBracket(a, b, p, q *big.Int, P uint) iv {
	e := b.BitLen() - a.BitLen()
	if new(big.Int).Lsh(a, uint(e)).Cmp(b) >= 0 {
		e--
	}
	// m = a*2^e/b in [1/2, 1); u = 1 - m
	un := new(big.Int).Sub(b, new(big.Int).Lsh(a, uint(e)))
	l := negLnUnit(un, b, P)
	if e > 0 {
		ln2 := negLnUnit(big.NewInt(1), big.NewInt(2), P)
		ee := big.NewInt(int64(e))
		l.lo = new(big.Int).Add(l.lo, new(big.Int).Mul(ee, ln2.lo))
		l.hi = new(big.Int).Add(l.hi, new(big.Int).Mul(ee, ln2.hi))
	}
	x := iv{
		new(big.Int).Quo(new(big.Int).Mul(l.lo, p), q),
		ceilDiv(new(big.Int).Mul(l.hi, p), q),
	}
	ex := expPos(x, P)
	two2P := new(big.Int).Lsh(big.NewInt(1), 2*P)
	return iv{new(big.Int).Quo(two2P, ex.hi), ceilDiv(two2P, ex.lo)}
}

// floorBracket returns [tlo, thi] enclosing floor(2^k * (1 - v)) and the
// number of bits by which the enclosure of 2^k*(1-v) stays clear of the
// integers tlo and tlo+1 (0 if it does not: tlo != thi).
func floorBracket(a, b, p, q *big.Int, k uint, P uint) (tlo, thi *big.Int, v iv, clearBits int) {
	v = powBracket(a, b, p, q, P)
	oneP := new(big.Int).Lsh(big.NewInt(1), P)
	plo := new(big.Int).Sub(oneP, v.hi)
	phi := new(big.Int).Sub(oneP, v.lo)
	s := P - k
	tlo = new(big.Int).Rsh(plo, s) // arithmetic shift = floor
	thi = new(big.Int).Rsh(phi, s)
	if tlo.Cmp(thi) != 0 {
		return tlo, thi, v, 0
	}
	// distance of [plo,phi] to tlo*2^s and (tlo+1)*2^s, in units of 2^-P
	d1 := new(big.Int).Sub(plo, new(big.Int).Lsh(tlo, s))
	d2 := new(big.Int).Sub(new(big.Int).Lsh(new(big.Int).Add(tlo, big.NewInt(1)), s), phi)
	d := d1
	if d2.Cmp(d1) < 0 {
		d = d2
	}
	// dist >= d * 2^-P  ->  -log2(dist) <= P - bitlen(d) + 1
	return tlo, thi, v, d.BitLen()
}

// certifiedFloor escalates P until the enclosure does not straddle an
// integer; ok=false if it still does at maxP.  needBits = log2(1/dist)
// rounded up (how close the value is to an integer).
func certifiedFloor(a, b, p, q *big.Int, k uint, maxP uint) (t *big.Int, ok bool, needBits int, usedP uint) {
	P := k + 320
	for {
		tlo, thi, _, cb := floorBracket(a, b, p, q, k, P)
		if tlo.Cmp(thi) == 0 && cb > 8 {
			return tlo, true, int(P-k) - cb + 1, P
		}
		if P >= maxP {
			return tlo, false, 0, P
		}
		P *= 2
		if P > maxP {
			P = maxP
		}
	}
}

// intRoot returns floor(n^(1/k)) by bisection (independent of Newton).
func intRoot(n *big.Int, k int) *big.Int {
	if n.Sign() == 0 {
		return big.NewInt(0)
	}
	lo := big.NewInt(1)
	hi := new(big.Int).Lsh(big.NewInt(1), uint(n.BitLen()/k+1))
	kk := big.NewInt(int64(k))
	for new(big.Int).Sub(hi, lo).Cmp(big.NewInt(1)) > 0 {
		mid := new(big.Int).Rsh(new(big.Int).Add(lo, hi), 1)
		if new(big.Int).Exp(mid, kk, nil).Cmp(n) <= 0 {
			lo = mid
		} else {
			hi = mid
		}
	}
	return lo
}

// perfectRoot: (r, true) iff r^k == n, r >= 0 (k >= 1, n >= 0), by bisection.
func perfectRoot(n *big.Int, k *big.Int) (*big.Int, bool) {
	if n.Sign() == 0 {
		return big.NewInt(0), true
	}
	if k.Cmp(big.NewInt(1)) == 0 {
		return new(big.Int).Set(n), true
	}
	if n.Cmp(big.NewInt(1)) == 0 {
		return big.NewInt(1), true
	}
	// r >= 2 needs 2^k <= n
	if !k.IsInt64() || k.Int64() >= int64(n.BitLen()) {
		return nil, false
	}
	r := intRoot(n, int(k.Int64()))
	if new(big.Int).Exp(r, k, nil).Cmp(n) == 0 {
		return r, true
	}
	return nil, false
}

// exactValue: if (a/b)^(p/q) is rational, the exact floor(2^k*(1-v)) and
// whether 2^k*(1-v) is an integer.
func exactValue(a, b, p, q *big.Int, k uint) (t *big.Int, isInt bool, ok bool) {
	g := new(big.Int).GCD(nil, nil, p, q)
	n := new(big.Int).Quo(p, g)
	m := new(big.Int).Quo(q, g)
	// a/b in lowest terms: both must be perfect m-th powers
	ga := new(big.Int).GCD(nil, nil, a, b)
	a1 := new(big.Int).Quo(a, ga)
	b1 := new(big.Int).Quo(b, ga)
	ra, ok1 := perfectRoot(a1, m)
	if !ok1 {
		return nil, false, false
	}
	rb, ok2 := perfectRoot(b1, m)
	if !ok2 {
		return nil, false, false
	}
	if !n.IsInt64() || (ra.Cmp(big.NewInt(1)) != 0 || rb.Cmp(big.NewInt(1)) != 0) && n.Int64() > 1<<20 {
		return nil, false, false
	}
	A := new(big.Int).Exp(ra, n, nil)
	B := new(big.Int).Exp(rb, n, nil)
	num := new(big.Int).Mul(new(big.Int).Lsh(big.NewInt(1), k), new(big.Int).Sub(B, A))
	quo, rem := new(big.Int).QuoRem(num, B, new(big.Int))
	return quo, rem.Sign() == 0, true
}
