// empty: allows body-less (go:linkname) function declarations in this package
