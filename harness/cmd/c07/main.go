// C07 - transaction byte offsets point at the decoded components.
package main

import (
	"bytes"
	"encoding/json"
	"fmt"
	"os"
	"reflect"
	"sort"
	"strings"

	"github.com/blinklabs-io/gouroboros/ledger"
	"github.com/blinklabs-io/gouroboros/ledger/common"
	"golang.org/x/crypto/blake2b"

	"verifharness/cmd/c07/blk"
	"verifharness/vh"
)

const header = `From Coq Require Import String.
From V Require Import Lib.Base Lib.Hex C07.Model.
Open Scope N_scope.`

type rcase struct {
	Type  uint   `json:"type"`
	Label string `json:"label"`
	Data  string `json:"data"`
}

type cborer interface{ Cbor() []byte }

func bodyOf(tx common.Transaction) []byte {
	v := reflect.ValueOf(tx)
	if v.Kind() == reflect.Ptr {
		v = v.Elem()
	}
	f := v.FieldByName("Body")
	if !f.IsValid() {
		return nil
	}
	if f.CanAddr() {
		if c, ok := f.Addr().Interface().(cborer); ok {
			return c.Cbor()
		}
	}
	if c, ok := f.Interface().(cborer); ok {
		return c.Cbor()
	}
	return nil
}

// headerClass names the kind of header a container has (part of violation keys)
func headerClass(it *vh.Item) string {
	if it == nil || (it.K != vh.KArr && it.K != vh.KMap) {
		return "na"
	}
	n := uint64(len(it.Xs))
	if it.K == vh.KMap {
		n /= 2
	}
	sz := ""
	if n >= 256 {
		sz = "-ge256"
	} else if n >= 24 {
		sz = "-ge24"
	}
	switch {
	case it.F == vh.Findef:
		return "indef" + sz
	case it.F == vh.MinForm(n):
		return "min" + sz
	}
	return "wide" + sz
}

type comps struct {
	bodies, wits []*vh.Item
	bodiesArr    *vh.Item
	outs         [][]*vh.Item
	outsArr      []*vh.Item
	meta         []*vh.Item
	datums       [][]*vh.Item
	scripts      [][]*vh.Item
	scriptTy     [][]byte
	redeemers    []map[common.RedeemerKey]*vh.Item
}

var scriptKeys = map[uint64]byte{1: 0, 3: 1, 6: 2, 7: 3, 8: 4}

// treeComponents is the independent reading of the block layout (CDDL)
func treeComponents(root *vh.Item, typ uint) *comps {
	c := &comps{}
	switch {
	case typ == 1: // Byron main: [header, [txPayload, ssc, dlg, upd], extra]
		if root.K != vh.KArr || len(root.Xs) != 3 || root.Xs[1].K != vh.KArr || len(root.Xs[1].Xs) < 1 {
			return c
		}
		c.bodiesArr = root.Xs[1].Xs[0]
		for _, pair := range root.Xs[1].Xs[0].Xs {
			if pair.K != vh.KArr || len(pair.Xs) < 2 {
				continue
			}
			c.bodies = append(c.bodies, pair.Xs[0])
			c.wits = append(c.wits, pair.Xs[1])
			var outs []*vh.Item
			var arr *vh.Item
			if pair.Xs[0].K == vh.KArr && len(pair.Xs[0].Xs) >= 2 {
				arr = pair.Xs[0].Xs[1]
				outs = arr.Xs
			}
			c.outs = append(c.outs, outs)
			c.outsArr = append(c.outsArr, arr)
			c.meta = append(c.meta, nil)
			c.datums = append(c.datums, nil)
			c.scripts = append(c.scripts, nil)
			c.scriptTy = append(c.scriptTy, nil)
			c.redeemers = append(c.redeemers, nil)
		}
	case typ == 8 || blk.IsShelleyLike(root):
		var bodyItems, witItems, auxItems []*vh.Item
		if typ == 8 { // [header, [invalid/nil, [[body, witness_set, aux/nil] ...], leios/nil, peras/nil]]
			if root.K != vh.KArr || len(root.Xs) != 2 || root.Xs[1].K != vh.KArr || len(root.Xs[1].Xs) != 4 || root.Xs[1].Xs[1].K != vh.KArr {
				return c
			}
			c.bodiesArr = root.Xs[1].Xs[1]
			for _, tx := range c.bodiesArr.Xs {
				if tx.K != vh.KArr || len(tx.Xs) != 3 {
					return &comps{}
				}
				bodyItems = append(bodyItems, tx.Xs[0])
				witItems = append(witItems, tx.Xs[1])
				var a *vh.Item
				if !(tx.Xs[2].K == vh.KSimple && tx.Xs[2].F == vh.Fimm && tx.Xs[2].N == 22) {
					a = tx.Xs[2]
				}
				auxItems = append(auxItems, a)
			}
		} else {
			c.bodiesArr = root.Xs[1]
			for i, body := range root.Xs[1].Xs {
				bodyItems = append(bodyItems, body)
				var w *vh.Item
				if i < len(root.Xs[2].Xs) {
					w = root.Xs[2].Xs[i]
				}
				witItems = append(witItems, w)
				auxItems = append(auxItems, blk.MapGet(root.Xs[3], uint64(i), true))
			}
		}
		for i, body := range bodyItems {
			c.bodies = append(c.bodies, body)
			w := witItems[i]
			c.wits = append(c.wits, w)
			var outs []*vh.Item
			arr := blk.MapGet(body, 1, false)
			if arr != nil && arr.K == vh.KArr {
				outs = arr.Xs
			}
			c.outs = append(c.outs, outs)
			c.outsArr = append(c.outsArr, arr)
			c.meta = append(c.meta, auxItems[i])
			var ds, ss []*vh.Item
			var st []byte
			rd := map[common.RedeemerKey]*vh.Item{}
			if w != nil && w.K == vh.KMap {
				for k := 0; k+1 < len(w.Xs); k += 2 {
					if w.Xs[k].K != vh.KUInt {
						continue
					}
					key, v := w.Xs[k].N, w.Xs[k+1]
					inner := blk.Untag(v)
					if key == 4 && inner.K == vh.KArr {
						ds = append(ds, inner.Xs...)
					}
					if ty, ok := scriptKeys[key]; ok && inner.K == vh.KArr {
						for _, s := range inner.Xs {
							ss = append(ss, s)
							st = append(st, ty)
						}
					}
					if key == 5 {
						if v.K == vh.KArr {
							for _, r := range v.Xs {
								if r.K == vh.KArr && len(r.Xs) >= 3 && r.Xs[0].K == vh.KUInt && r.Xs[1].K == vh.KUInt {
									rd[common.RedeemerKey{Tag: common.RedeemerTag(r.Xs[0].N), Index: uint32(r.Xs[1].N)}] = r.Xs[2]
								}
							}
						} else if v.K == vh.KMap {
							for q := 0; q+1 < len(v.Xs); q += 2 {
								kk, vv := v.Xs[q], v.Xs[q+1]
								if kk.K == vh.KArr && len(kk.Xs) >= 2 && vv.K == vh.KArr && len(vv.Xs) >= 1 {
									rd[common.RedeemerKey{Tag: common.RedeemerTag(kk.Xs[0].N), Index: uint32(kk.Xs[1].N)}] = vv.Xs[0]
								}
							}
						}
					}
				}
			}
			c.datums = append(c.datums, ds)
			c.scripts = append(c.scripts, ss)
			c.scriptTy = append(c.scriptTy, st)
			c.redeemers = append(c.redeemers, rd)
		}
	}
	return c
}

func rng(r common.ByteRange) string { return vh.Pair(vh.N(uint64(r.Offset)), vh.N(uint64(r.Length))) }

// coqObserved renders what an extractor returned as the model's `option (list otx)`
func coqObserved(offs *common.BlockTransactionOffsets, err error) string {
	if err != nil || offs == nil {
		return "None"
	}
	var txs []string
	for _, t := range offs.Transactions {
		var outs []string
		for _, o := range t.Outputs {
			outs = append(outs, rng(o))
		}
		type oc struct {
			kind, a, b uint64
			r          common.ByteRange
		}
		var ocs []oc
		for _, r := range t.Datums {
			ocs = append(ocs, oc{0, 0, 0, r})
		}
		for k, r := range t.Redeemers {
			ocs = append(ocs, oc{1, uint64(k.Tag), uint64(k.Index), r})
		}
		for _, r := range t.Scripts {
			ocs = append(ocs, oc{2, 0, 0, r})
		}
		sort.Slice(ocs, func(i, j int) bool {
			if ocs[i].kind != ocs[j].kind {
				return ocs[i].kind < ocs[j].kind
			}
			if ocs[i].r.Offset != ocs[j].r.Offset {
				return ocs[i].r.Offset < ocs[j].r.Offset
			}
			return ocs[i].a*100000+ocs[i].b < ocs[j].a*100000+ocs[j].b
		})
		var cs []string
		for _, c := range ocs {
			cs = append(cs, fmt.Sprintf("(%s, %s, %s, %s)", vh.N(c.kind), vh.N(c.a), vh.N(c.b), rng(c.r)))
		}
		txs = append(txs, fmt.Sprintf("(%s, %s, %s, %s, %s)", rng(t.Body), rng(t.Witness), rng(t.Metadata), vh.List(outs), vh.List(cs)))
	}
	return "(Some " + vh.List(txs) + ")"
}

type runner struct {
	c              *vh.Ctx
	cf             *vh.CaseFile
	accepted       int
	rejected       int
	nonMinimal     int
	coqBytes       int
	coqBudget      int
	missingComps   int
	compsChecked   int
	rejectedLabels []string
}

func spanEq(r common.ByteRange, s blk.Span) bool {
	return int(r.Offset) == s.Off && int(r.Length) == s.Len
}

// checkOffsets is the monitor for one extractor's result: every reported
// range must be the span of the component in the independent layout
func (r *runner) checkOffsets(name string, typ uint, data []byte, root *vh.Item, lay map[*vh.Item]blk.Span, tc *comps,
	offs *common.BlockTransactionOffsets, rc rcase) {
	viol := func(key, what string) { r.c.Res.Violate("monitor", key, what, rc) }
	if offs == nil {
		return
	}
	if typ == 0 || (typ == 8 && name == "streaming") {
		// a Byron epoch boundary block has no transactions; DecodeWithOffsets has no Dijkstra
		// layout (a 2-element block yields no locations).  Nothing may be reported.
		if len(offs.Transactions) != 0 {
			viol(name+":phantom-transactions", fmt.Sprintf("%d locations reported for a block the walker has no transactions for", len(offs.Transactions)))
		}
		return
	}
	if len(offs.Transactions) != len(tc.bodies) {
		viol(name+":tx-count", fmt.Sprintf("%d locations for %d transactions", len(offs.Transactions), len(tc.bodies)))
		return
	}
	inRange := func(b common.ByteRange) bool { return uint64(b.Offset)+uint64(b.Length) <= uint64(len(data)) }
	hc := headerClass(root)
	for i, t := range offs.Transactions {
		if !inRange(t.Body) || !inRange(t.Witness) || !inRange(t.Metadata) {
			viol(name+":out-of-range", fmt.Sprintf("tx %d range outside the block", i))
		}
		if !spanEq(t.Body, lay[tc.bodies[i]]) {
			viol(fmt.Sprintf("%s:body-offset:outer-%s:bodies-%s", name, hc, headerClass(tc.bodiesArr)),
				fmt.Sprintf("tx %d body reported at %v, encoded at %v", i, t.Body, lay[tc.bodies[i]]))
		}
		if tc.wits[i] != nil && !spanEq(t.Witness, lay[tc.wits[i]]) {
			viol(fmt.Sprintf("%s:witness-offset:outer-%s", name, hc), fmt.Sprintf("tx %d witness set reported at %v, encoded at %v", i, t.Witness, lay[tc.wits[i]]))
		}
		if len(t.Outputs) != len(tc.outs[i]) {
			viol(name+":output-count", fmt.Sprintf("tx %d: %d output ranges for %d outputs", i, len(t.Outputs), len(tc.outs[i])))
		} else {
			for j, o := range t.Outputs {
				if !inRange(o) {
					viol(name+":out-of-range", fmt.Sprintf("tx %d output %d range outside the block", i, j))
				}
				if !spanEq(o, lay[tc.outs[i][j]]) {
					viol(fmt.Sprintf("%s:output-offset:outer-%s:outputs-%s", name, hc, headerClass(tc.outsArr[i])),
						fmt.Sprintf("tx %d output %d reported at %v, encoded at %v", i, j, o, lay[tc.outs[i][j]]))
				}
			}
		}
		if m := tc.meta[i]; m != nil {
			if !spanEq(t.Metadata, lay[m]) {
				viol(name+":metadata-offset:outer-"+hc, fmt.Sprintf("tx %d metadata reported at %v, encoded at %v", i, t.Metadata, lay[m]))
			}
		} else if t.Metadata != (common.ByteRange{}) {
			viol(name+":metadata-phantom", fmt.Sprintf("tx %d has no auxiliary data but a metadata range %v", i, t.Metadata))
		}
		// hash-keyed components: the key itself is an oracle for the slice
		for h, dr := range t.Datums {
			if !inRange(dr) {
				viol(name+":out-of-range", "datum range outside the block")
				continue
			}
			sum := blake2b.Sum256(data[dr.Offset : dr.Offset+dr.Length])
			found := false
			for _, d := range tc.datums[i] {
				if spanEq(dr, lay[d]) {
					found = true
				}
			}
			if !found || !bytes.Equal(sum[:], h[:]) {
				viol(name+":datum-offset:outer-"+hc, fmt.Sprintf("tx %d datum %x reported at %v: not the span of a datum with that hash", i, h[:4], dr))
			}
		}
		for h, sr := range t.Scripts {
			if !inRange(sr) {
				viol(name+":out-of-range", "script range outside the block")
				continue
			}
			found := false
			for q, s := range tc.scripts[i] {
				if spanEq(sr, lay[s]) {
					hh, _ := blake2b.New(28, nil)
					hh.Write([]byte{tc.scriptTy[i][q]})
					hh.Write(data[sr.Offset : sr.Offset+sr.Length])
					if bytes.Equal(hh.Sum(nil), h[:]) {
						found = true
					}
				}
			}
			if !found {
				viol(name+":script-offset:outer-"+hc, fmt.Sprintf("tx %d script %x reported at %v: not the span of a script with that key", i, h[:4], sr))
			}
		}
		for k, rr := range t.Redeemers {
			want, ok := tc.redeemers[i][k]
			if !ok || !spanEq(rr, lay[want]) {
				viol(name+":redeemer-offset:outer-"+hc, fmt.Sprintf("tx %d redeemer %v reported at %v", i, k, rr))
			}
		}
		r.missingComps += len(tc.datums[i]) - len(t.Datums) + len(tc.scripts[i]) - len(t.Scripts) + len(tc.redeemers[i]) - len(t.Redeemers)
		// completeness (C07_witness_components_complete): every component of the independently
		// parsed witness set has an entry under its own key, and the maps hold nothing else
		// (equal bytes share one hash key, so counts are compared on distinct keys)
		dk := map[common.Blake2b256]bool{}
		for q, d := range tc.datums[i] {
			sp := lay[d]
			var h common.Blake2b256
			sum := blake2b.Sum256(data[sp.Off : sp.Off+sp.Len])
			copy(h[:], sum[:])
			dk[h] = true
			if _, ok := t.Datums[h]; !ok {
				viol(name+":datum-missing:outer-"+hc, fmt.Sprintf("tx %d datum %d (%x, encoded at %v) has no reported range", i, q, h[:4], sp))
			}
		}
		sk := map[common.ScriptHash]bool{}
		for q, s := range tc.scripts[i] {
			sp := lay[s]
			hh, _ := blake2b.New(28, nil)
			hh.Write([]byte{tc.scriptTy[i][q]})
			hh.Write(data[sp.Off : sp.Off+sp.Len])
			var h common.ScriptHash
			copy(h[:], hh.Sum(nil))
			sk[h] = true
			if _, ok := t.Scripts[h]; !ok {
				viol(name+":script-missing:outer-"+hc, fmt.Sprintf("tx %d script %d (type %d, %x, encoded at %v) has no reported range", i, q, tc.scriptTy[i][q], h[:4], sp))
			}
		}
		for k := range tc.redeemers[i] {
			if _, ok := t.Redeemers[k]; !ok {
				viol(name+":redeemer-missing:outer-"+hc, fmt.Sprintf("tx %d redeemer %v has no reported range", i, k))
			}
		}
		if len(dk) != len(t.Datums) || len(sk) != len(t.Scripts) || len(tc.redeemers[i]) != len(t.Redeemers) {
			viol(name+":component-count", fmt.Sprintf("tx %d: %d/%d/%d datum/redeemer/script entries reported, %d/%d/%d distinct components in the witness set",
				i, len(t.Datums), len(t.Redeemers), len(t.Scripts), len(dk), len(tc.redeemers[i]), len(sk)))
		}
		r.compsChecked += len(tc.datums[i]) + len(tc.scripts[i]) + len(tc.redeemers[i])
	}
}

// runBlock runs both extractors on one encoding of a block
func (r *runner) runBlock(label string, typ uint, root *vh.Item, toCoq bool) bool {
	data := root.Enc()
	rc := rcase{typ, label, vh.Hex(data)}
	r.c.Begin(rc)
	var bo *ledger.BlockWithOffsets
	var err, err2 error
	var offs2 *common.BlockTransactionOffsets
	pan, pv := vh.Recover(func() {
		bo, err = ledger.NewBlockFromCborWithOffsets(typ, data, common.VerifyConfig{SkipBodyHashValidation: true})
	})
	if pan {
		r.c.Res.Violate("monitor", "panic:NewBlockFromCborWithOffsets", fmt.Sprint(pv), rc)
		return false
	}
	if err != nil {
		// not an encoding the era decoder accepts, or the offsets walker failed: tell the two apart
		if _, e2 := ledger.NewBlockFromCbor(typ, data, common.VerifyConfig{SkipBodyHashValidation: true}); e2 == nil {
			r.c.Res.Violate("monitor", "streaming:error-on-accepted-block", err.Error(), rc)
		} else {
			r.rejected++
			if len(r.rejectedLabels) < 12 {
				r.rejectedLabels = append(r.rejectedLabels, label+": "+e2.Error())
			}
		}
		return false
	}
	pan, pv = vh.Recover(func() { offs2, err2 = common.ExtractTransactionOffsets(data) })
	if pan {
		r.c.Res.Violate("monitor", "panic:ExtractTransactionOffsets", fmt.Sprint(pv), rc)
		return false
	}
	if err2 != nil {
		r.c.Res.Violate("monitor", "extract:error-on-accepted-block", err2.Error(), rc)
	}
	r.accepted++
	nm := blk.NonMinimalContainers(root)
	if nm > 0 {
		r.nonMinimal++
	}
	cls := fmt.Sprintf("type%d", typ)
	if nm > 0 {
		cls += ":reencoded"
	} else {
		cls += ":minimal"
	}
	r.c.Res.Count(rc.Data, nm > 0, cls)
	if nm > 0 {
		r.c.Res.Sample(map[string]any{"label": label, "bytes": len(data), "nonminimal_containers": nm, "txs": len(bo.Block.Transactions())})
	}
	lay := blk.Layout(root)
	tc := treeComponents(root, typ)
	r.checkOffsets("streaming", typ, data, root, lay, tc, bo.Offsets, rc)
	r.checkOffsets("extract", typ, data, root, lay, tc, offs2, rc)
	// Extract*Cbor slices against the decoded components
	txs := bo.Block.Transactions()
	for _, ex := range []struct {
		n string
		o *common.BlockTransactionOffsets
	}{{"streaming", bo.Offsets}, {"extract", offs2}} {
		if ex.o == nil || len(ex.o.Transactions) != len(txs) {
			continue
		}
		for i, tx := range txs {
			if b, e := common.ExtractTransactionBodyCbor(data, ex.o, i); e != nil || !bytes.Equal(b, bodyOf(tx)) {
				r.c.Res.Violate("monitor", ex.n+":body-slice-vs-decoded", fmt.Sprintf("tx %d: ExtractTransactionBodyCbor differs from the decoded body's Cbor() (%v)", i, e), rc)
			}
			if wc, ok := tx.Witnesses().(cborer); ok && wc.Cbor() != nil {
				if w, e := common.ExtractWitnessCbor(data, ex.o, i); e != nil || !bytes.Equal(w, wc.Cbor()) {
					r.c.Res.Violate("monitor", ex.n+":witness-slice-vs-decoded", fmt.Sprintf("tx %d: ExtractWitnessCbor differs from the decoded witness set's Cbor() (%v)", i, e), rc)
				}
			}
			for j, o := range tx.Outputs() {
				if ob, e := common.ExtractOutputCbor(data, ex.o, i, j); e != nil || !bytes.Equal(ob, o.Cbor()) {
					r.c.Res.Violate("monitor", ex.n+":output-slice-vs-decoded", fmt.Sprintf("tx %d output %d: ExtractOutputCbor differs from the decoded output's Cbor() (%v)", i, j, e), rc)
				}
			}
		}
	}
	if toCoq && (blk.IsShelleyLike(root) || typ <= 1 || typ == 8) && r.coqBytes+2*len(data) <= r.coqBudget {
		r.coqBytes += 2 * len(data)
		r.cf.Add(fmt.Sprintf("(true, %s, %s)", vh.Bytes(data), coqObserved(bo.Offsets, nil)), rc)
		r.cf.Add(fmt.Sprintf("(false, %s, %s)", vh.Bytes(data), coqObserved(offs2, err2)), rc)
	}
	return true
}

func (r *runner) dijkstraCorpus(fx []blk.Fixture) {
	var dj, cw *blk.Fixture
	for i := range fx {
		if fx[i].Type == 8 {
			dj = &fx[i]
		}
		if fx[i].Type == 7 {
			cw = &fx[i]
		}
	}
	if dj == nil || cw == nil || len(dj.Root.Xs) != 2 || len(dj.Root.Xs[1].Xs) != 4 {
		return
	}
	var pool []*vh.Item
	if b, err := os.ReadFile(blk.Repo() + "/ledger/dijkstra/testdata/cardano_ledger_dijkstra_w30_tx.hex"); err == nil {
		if it, n, err := vh.ParseItem(vh.UnHex(strings.TrimSpace(string(b)))); err == nil && n > 0 && it.K == vh.KArr && len(it.Xs) == 3 {
			pool = append(pool, it)
		}
	}
	for i := range cw.Root.Xs[1].Xs {
		aux := blk.MapGet(cw.Root.Xs[3], uint64(i), true)
		if aux == nil {
			aux = vh.Null()
		}
		pool = append(pool, vh.A(cw.Root.Xs[1].Xs[i].Clone(), cw.Root.Xs[2].Xs[i].Clone(), aux.Clone()))
	}
	for k := 0; k < r.c.Pick(40, 400); k++ {
		b := dj.Root.Clone()
		n := 1 + r.c.Rng.Intn(3)
		if k%10 == 9 {
			n = blk.BoundaryCounts[r.c.Rng.Intn(4)]
		}
		var txs []*vh.Item
		for j := 0; j < n; j++ {
			txs = append(txs, pool[r.c.Rng.Intn(len(pool))].Clone())
		}
		arr := &vh.Item{K: vh.KArr, F: vh.MinForm(uint64(n)), Xs: txs}
		b.Xs[1].Xs[1] = arr
		blk.SetForm(arr, r.c.Rng.Intn(blk.NForms))
		if k%4 != 0 {
			b = vh.Reform(r.c.Rng, b, reformOpts[r.c.Rng.Intn(len(reformOpts))])
		}
		r.runBlock(fmt.Sprintf("dijkstra:txs%d:%d", n, k), 8, b, len(b.Enc()) < 5000)
	}
}

// boundaryCorpus: deterministic (every seed runs all of it in Go); the seed picks which of the
// small ones are also evaluated in Coq, a fixed regression set always is
func (r *runner) boundaryCorpus(fx []blk.Fixture) {
	saved, used := r.coqBudget, r.coqBytes
	r.coqBudget = r.coqBytes + r.c.Pick(50_000, 500_000)
	always := map[string]bool{
		"conway:boundary:outputs:24:indef": true, "alonzo:boundary:outputs:25:wide1": true,
		"shelley:boundary:txs:24:indef": true, "mary:boundary:txs:23:wide1": true,
		"babbage:boundary:witness-components:24:indef": true, "conway:boundary:witness-components:24:wide1": true,
	}
	for _, f := range fx {
		if f.Type == 1 {
			for _, n := range blk.BoundaryCounts {
				for mode := 0; mode < blk.NForms; mode++ {
					b, payload, outs := blk.ByronWithTxs(f.Root, n, []int{1, 24, 30}[(n+mode)%3])
					blk.SetForm(payload, mode)
					for _, o := range outs {
						blk.SetForm(o, (mode+n)%blk.NForms)
					}
					r.runBlock(fmt.Sprintf("byron:boundary:txs:%d:%s", n, blk.FormNames[mode]), f.Type, b, n <= 24 && r.c.Rng.Intn(5) == 0)
				}
			}
			continue
		}
		for level := 0; level < 3; level++ {
			for _, n := range blk.BoundaryCounts {
				for mode := 0; mode < blk.NForms; mode++ {
					for _, bb := range blk.BoundaryBlocks(f, level, n, mode) {
						root := bb.Root
						if r.c.Rng.Intn(3) == 0 { // also vary the forms of everything else
							root = vh.Reform(r.c.Rng, root, vh.ReformOpts{Containers: true, Indef: true, Prob: 10})
							// Reform may have changed the boundary container too: that is fine, the
							// label then only names the intended form
						}
						toCoq := bb.Small && (always[bb.Label] || r.c.Rng.Intn(r.c.Pick(25, 4)) == 0)
						if always[bb.Label] {
							root = bb.Root
						}
						r.runBlock(bb.Label, bb.Type, root, toCoq)
					}
				}
			}
		}
	}
	r.coqBudget = saved + (r.coqBytes - used) // the boundary cases have their own Coq budget
}

var reformOpts = []vh.ReformOpts{
	{Containers: true, Indef: true, Prob: 30},
	{Containers: true, Indef: true, Ints: true, Strings: true, Tags: true, Prob: 15},
	{Containers: true, Indef: false, Prob: 60, MaxDepth: 3},
	{Containers: true, Indef: true, Prob: 100, MaxDepth: 2},
	{Containers: true, Ints: true, Strings: true, Prob: 8},
}

func run(c *vh.Ctx) error {
	c.Res.Rule = "real era blocks (Byron..Conway, Dijkstra fixture) and small blocks cut from them (1-3 transactions with their witness sets and auxiliary data), each re-encoded by vh.ParseItem -> vh.Reform under seeded header-form choices (wider length arguments, indefinite arrays/maps, wider ints/strings/tags); only encodings the era decoder accepts count (SkipBodyHashValidation, since re-encoding changes the body hash); distinct by block bytes; non-trivial = at least one non-minimal or indefinite container header"
	c.Res.Modelled = []string{
		"fxamacker Decode/Skip/DecodeRaw = Lib.CborParse.parse_full on the remaining input (validated by C03's parser correspondence); tag-wrapped or null containers are outside the model",
		"Byron main blocks, epoch boundary blocks and (non-streaming) Dijkstra blocks are modelled, in the correspondence and covered by exactness theorems (C07_byron_offsets_exact, C07_ebb_nothing_reported, C07_dijkstra_offsets_exact)",
		"uint32 offset arithmetic is modelled in nat; no wrap below 4 GiB by C07_in_range",
	}
	r := &runner{c: c, coqBudget: c.Pick(80_000, 1_000_000)}
	r.cf = c.NewCaseFile("c07", header)
	r.cf.SetShardSize(c.Pick(12, 40))
	if c.Replay != "" {
		b, err := os.ReadFile(c.Replay)
		if err != nil {
			return err
		}
		var rp struct {
			Replay rcase `json:"replay"`
		}
		if err := json.Unmarshal(b, &rp); err != nil {
			return err
		}
		root, _, err := vh.ParseItem(vh.UnHex(rp.Replay.Data))
		if err != nil {
			return err
		}
		r.runBlock(rp.Replay.Label, rp.Replay.Type, root, true)
		r.cf.Flush()
		return nil
	}
	fx := blk.LoadFixtures()
	// regression corpus: each fixture as is, with the outer header 0x98 n, and 0x9f .. 0xff
	for _, f := range fx {
		r.runBlock(f.Name+":as-is", f.Type, f.Root, f.Type == 2 || f.Type == 1 || f.Type == 8)
		w := f.Root.Clone()
		w.F = vh.F1
		r.runBlock(f.Name+":outer-98", f.Type, w, f.Type == 7 || f.Type == 1)
		w = f.Root.Clone()
		w.F = vh.Findef
		r.runBlock(f.Name+":outer-9f", f.Type, w, false)
	}
	// Byron epoch boundary blocks (accepted, no transactions): nothing may be reported, no error
	for _, nm := range [][2]int{{0, 1}, {1, 1}, {2, 1}, {0, 0}, {4, 1}, {2, 2}, {24, 24}} {
		e := blk.SyntheticEBB(nm[0], nm[1])
		r.runBlock(fmt.Sprintf("ebb:ids%d:extra%d", nm[0], nm[1]), 0, e, nm[0] < 5)
		r.runBlock(fmt.Sprintf("ebb:ids%d:extra%d:reform", nm[0], nm[1]), 0, vh.Reform(c.Rng, e, reformOpts[0]), false)
	}
	// Dijkstra blocks with transactions (the fixture has none): [body, witness_set, aux/nil] from the
	// Dijkstra transaction fixture and from Conway transactions
	r.dijkstraCorpus(fx)
	// containers whose child count crosses the header-width boundaries (23/24, 255/256) in
	// minimal / widened / 8-byte / indefinite form, at every level the walkers handle
	r.boundaryCorpus(fx)
	// whole blocks under random forms
	for round := 0; round < c.Pick(3, 25); round++ {
		for _, f := range fx {
			o := reformOpts[c.Rng.Intn(len(reformOpts))]
			r.runBlock(fmt.Sprintf("%s:reform%d", f.Name, round), f.Type, vh.Reform(c.Rng, f.Root, o),
				round == 0 && f.Type >= 3 && f.Type <= 5)
		}
	}
	// small blocks
	for k := 0; k < c.Pick(150, 2500); k++ {
		f := fx[1+c.Rng.Intn(6)]
		n := 1 + c.Rng.Intn(3)
		var idx []int
		for j := 0; j < n; j++ {
			idx = append(idx, c.Rng.Intn(len(f.Root.Xs[1].Xs)))
		}
		small := blk.Subset(f.Root, idx)
		if c.Rng.Intn(6) > 0 {
			small = vh.Reform(c.Rng, small, reformOpts[c.Rng.Intn(len(reformOpts))])
		}
		r.runBlock(fmt.Sprintf("%s:small%v", f.Name, idx), f.Type, small, len(small.Enc()) < 4000)
	}
	r.cf.Flush()
	pct := 0
	if r.accepted > 0 {
		pct = 100 * r.nonMinimal / r.accepted
	}
	c.Res.Notes = append(c.Res.Notes,
		fmt.Sprintf("accepted encodings %d (with >=1 non-minimal/indefinite container: %d = %d%%), rejected by the era decoder (not in the quantifier) %d", r.accepted, r.nonMinimal, pct, r.rejected),
		fmt.Sprintf("witness components present in the tree but without a reported range (inside tag-258 sets, equal bytes under one hash key): %d", r.missingComps),
		fmt.Sprintf("witness components checked for presence under their own key (both walkers): %d", r.compsChecked),
		fmt.Sprintf("Coq cases: %d (%d KB of block literals)", c.Res.CoqCases, r.coqBytes/1000))
	if len(r.rejectedLabels) > 0 {
		c.Res.Notes = append(c.Res.Notes, "first rejected encodings: "+fmt.Sprint(r.rejectedLabels))
	}
	if pct < 60 {
		c.Res.Violate("correspondence", "generator-too-canonical", fmt.Sprintf("only %d%% of accepted cases have a non-minimal container", pct), nil)
	}
	return nil
}

func main() { vh.Main(vh.Runner{Property: "C07", Run: run}) }
