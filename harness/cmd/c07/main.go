// probe (temporary)
package main

import (
	"bytes"
	"fmt"
	"os"
	"reflect"
	"strings"

	"github.com/blinklabs-io/gouroboros/ledger"
	"github.com/blinklabs-io/gouroboros/ledger/common"

	"verifharness/vh"
)

func repo() string {
	if r := os.Getenv("VERIF_REPO"); r != "" {
		return r
	}
	return "/repo"
}

type fixture struct {
	name string
	typ  uint
	data []byte
}

func loadFixtures() []fixture {
	var out []fixture
	for _, f := range []struct {
		n string
		t uint
		p string
	}{
		{"byron", 1, "internal/testdata/byron_block.hex"},
		{"shelley", 2, "internal/testdata/shelley_block.hex"},
		{"allegra", 3, "internal/testdata/allegra_block.hex"},
		{"mary", 4, "internal/testdata/mary_block.hex"},
		{"alonzo", 5, "internal/testdata/alonzo_block.hex"},
		{"babbage", 6, "internal/testdata/babbage_block.hex"},
		{"conway", 7, "internal/testdata/conway_block.hex"},
		{"dijkstra", 8, "ledger/dijkstra/testdata/musashi_dijkstra_block.hex"},
	} {
		b, err := os.ReadFile(repo() + "/" + f.p)
		if err != nil {
			panic(err)
		}
		out = append(out, fixture{f.n, f.t, vh.UnHex(strings.TrimSpace(string(b)))})
	}
	return out
}

type cborer interface{ Cbor() []byte }

func checkBlock(typ uint, data []byte) (ok bool, nbody, nwit, nout, bad int, err error) {
	bo, err := ledger.NewBlockFromCborWithOffsets(typ, data, common.VerifyConfig{SkipBodyHashValidation: true})
	if err != nil {
		return false, 0, 0, 0, 0, err
	}
	txs := bo.Block.Transactions()
	for i, tx := range txs {
		if i >= len(bo.Offsets.Transactions) {
			bad++
			continue
		}
		b, e := common.ExtractTransactionBodyCbor(data, bo.Offsets, i)
		nbody++
		var bodyCbor []byte
		switch t := tx.(type) {
		default:
			_ = t
		}
		// body Cbor via Id preimage: use tx (TransactionBody iface Cbor is tx.Cbor) -> need concrete
		bodyCbor = bodyOf(tx)
		if e != nil || !bytes.Equal(b, bodyCbor) {
			bad++
		}
		w, e := common.ExtractWitnessCbor(data, bo.Offsets, i)
		nwit++
		if wc, ok := tx.Witnesses().(cborer); ok {
			if e != nil || !bytes.Equal(w, wc.Cbor()) {
				bad++
			}
		}
		for j, o := range tx.Outputs() {
			nout++
			ob, e := common.ExtractOutputCbor(data, bo.Offsets, i, j)
			if e != nil || !bytes.Equal(ob, o.Cbor()) {
				bad++
			}
		}
	}
	return true, nbody, nwit, nout, bad, nil
}

func main() {
	if len(os.Args) > 1 && os.Args[1] == "explore" {
		explore()
		return
	}
	for _, f := range loadFixtures() {
		it, n, err := vh.ParseItem(f.data)
		if err != nil || n != len(f.data) {
			fmt.Println(f.name, "parse", err, n, len(f.data))
			continue
		}
		_, nb, nw, no, bad, err := checkBlock(f.typ, f.data)
		fmt.Printf("%-9s canonical: len=%d minimal=%v bodies=%d wits=%d outs=%d bad=%d err=%v\n", f.name, len(f.data), it.Minimal(), nb, nw, no, bad, err)
		// outer widened
		w := it.Clone()
		w.F = vh.F1
		_, nb, nw, no, bad, err = checkBlock(f.typ, w.Enc())
		fmt.Printf("%-9s outer F1:  bodies=%d wits=%d outs=%d bad=%d err=%v\n", f.name, nb, nw, no, bad, err)
		w.F = vh.Findef
		_, nb, nw, no, bad, err = checkBlock(f.typ, w.Enc())
		fmt.Printf("%-9s outer indef: bodies=%d wits=%d outs=%d bad=%d err=%v\n", f.name, nb, nw, no, bad, err)
	}
}

func bodyOf(tx common.Transaction) []byte {
	v := reflect.ValueOf(tx)
	if v.Kind() == reflect.Ptr {
		v = v.Elem()
	}
	f := v.FieldByName("Body")
	if !f.IsValid() {
		return nil
	}
	if f.CanAddr() {
		if c, ok := f.Addr().Interface().(cborer); ok {
			return c.Cbor()
		}
	}
	if c, ok := f.Interface().(cborer); ok {
		return c.Cbor()
	}
	return nil
}
