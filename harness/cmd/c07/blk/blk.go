// Package blk: fixtures, re-encoding and an independent span oracle for
// Cardano blocks, shared by the C07 and C01 harnesses.
package blk

import (
	"os"
	"strings"

	"verifharness/vh"
)

func Repo() string {
	if r := os.Getenv("VERIF_REPO"); r != "" {
		return r
	}
	return "/repo"
}

type Fixture struct {
	Name string
	Type uint
	Data []byte
	Root *vh.Item
}

var fixtureFiles = []struct {
	n string
	t uint
	p string
}{
	{"byron", 1, "internal/testdata/byron_block.hex"},
	{"shelley", 2, "internal/testdata/shelley_block.hex"},
	{"allegra", 3, "internal/testdata/allegra_block.hex"},
	{"mary", 4, "internal/testdata/mary_block.hex"},
	{"alonzo", 5, "internal/testdata/alonzo_block.hex"},
	{"babbage", 6, "internal/testdata/babbage_block.hex"},
	{"conway", 7, "internal/testdata/conway_block.hex"},
	{"dijkstra", 8, "ledger/dijkstra/testdata/musashi_dijkstra_block.hex"},
}

func LoadFixtures() []Fixture {
	var out []Fixture
	for _, f := range fixtureFiles {
		b, err := os.ReadFile(Repo() + "/" + f.p)
		if err != nil {
			panic(err)
		}
		data := vh.UnHex(strings.TrimSpace(string(b)))
		root, n, err := vh.ParseItem(data)
		if err != nil || n != len(data) {
			panic("fixture does not parse: " + f.n)
		}
		out = append(out, Fixture{f.n, f.t, data, root})
	}
	return out
}

// IsShelleyLike: [header, bodies[], witnesses[], aux{}, ...]
func IsShelleyLike(root *vh.Item) bool {
	return root.K == vh.KArr && len(root.Xs) >= 4 && root.Xs[1].K == vh.KArr && root.Xs[2].K == vh.KArr && root.Xs[3].K == vh.KMap
}

// Subset builds a smaller block of the same era from the chosen transactions
// of a Shelley..Conway block (bodies, witness sets and re-indexed auxiliary data).
func Subset(root *vh.Item, idx []int) *vh.Item {
	b := root.Clone()
	var bodies, wits, aux []*vh.Item
	for newI, i := range idx {
		bodies = append(bodies, root.Xs[1].Xs[i].Clone())
		wits = append(wits, root.Xs[2].Xs[i].Clone())
		m := root.Xs[3]
		for k := 0; k+1 < len(m.Xs); k += 2 {
			if m.Xs[k].K == vh.KUInt && int(m.Xs[k].N) == i {
				aux = append(aux, vh.U(uint64(newI)), m.Xs[k+1].Clone())
			}
		}
	}
	b.Xs[1] = &vh.Item{K: vh.KArr, F: vh.MinForm(uint64(len(bodies))), Xs: bodies}
	b.Xs[2] = &vh.Item{K: vh.KArr, F: vh.MinForm(uint64(len(wits))), Xs: wits}
	b.Xs[3] = &vh.Item{K: vh.KMap, F: vh.MinForm(uint64(len(aux) / 2)), Xs: aux}
	if len(b.Xs) > 4 { // invalid transactions: none
		b.Xs[4] = vh.A()
	}
	return b
}

// ---------------------------------------------------------------------------
// span oracle: positions of every node of the tree inside root.Enc()

func nbytes(f vh.Form) int {
	switch f {
	case vh.F1:
		return 1
	case vh.F2:
		return 2
	case vh.F4:
		return 4
	case vh.F8:
		return 8
	}
	return 0
}

type Span struct{ Off, Len int }

// Layout returns the span of every node.  Sizes are computed structurally
// (header width + children), not by encoding.
func Layout(root *vh.Item) map[*vh.Item]Span {
	m := map[*vh.Item]Span{}
	layout(root, 0, m)
	return m
}

func layout(it *vh.Item, off int, m map[*vh.Item]Span) int {
	n := 0
	switch it.K {
	case vh.KUInt, vh.KNInt, vh.KSimple, vh.KFloat:
		n = 1 + nbytes(it.F)
	case vh.KBStr, vh.KTStr:
		n = 1 + nbytes(it.F) + len(it.Bs)
	case vh.KBStrI, vh.KTStrI:
		n = 2
		for _, c := range it.Chunks {
			n += 1 + nbytes(c.F) + len(c.Bs)
		}
	case vh.KArr, vh.KMap:
		n = 1
		if it.F != vh.Findef {
			n += nbytes(it.F)
		}
		for _, x := range it.Xs {
			n += layout(x, off+n, m)
		}
		if it.F == vh.Findef {
			n++
		}
	case vh.KTag:
		n = 1 + nbytes(it.F)
		n += layout(it.Xs[0], off+n, m)
	}
	m[it] = Span{off, n}
	return n
}

// NonMinimal counts containers (arrays/maps) with a non-minimal or indefinite header.
func NonMinimalContainers(it *vh.Item) int {
	n := 0
	if it.K == vh.KArr || it.K == vh.KMap {
		cnt := uint64(len(it.Xs))
		if it.K == vh.KMap {
			cnt /= 2
		}
		if it.F != vh.MinForm(cnt) {
			n++
		}
	}
	for _, x := range it.Xs {
		n += NonMinimalContainers(x)
	}
	return n
}

// MapGet returns the value of the first (or last) entry with unsigned key k.
func MapGet(m *vh.Item, k uint64, last bool) *vh.Item {
	var r *vh.Item
	if m == nil || m.K != vh.KMap {
		return nil
	}
	for i := 0; i+1 < len(m.Xs); i += 2 {
		if m.Xs[i].K == vh.KUInt && m.Xs[i].N == k {
			if !last {
				return m.Xs[i+1]
			}
			r = m.Xs[i+1]
		}
	}
	return r
}

// Untag strips tag wrappers (tag 258 sets).
func Untag(it *vh.Item) *vh.Item {
	for it != nil && it.K == vh.KTag {
		it = it.Xs[0]
	}
	return it
}
