// Package blk: fixtures, re-encoding and an independent span oracle for
// Cardano blocks, shared by the C07 and C01 harnesses.
package blk

import (
	"os"
	"strings"

	"verifharness/vh"
)

func Repo() string {
	if r := os.Getenv("VERIF_REPO"); r != "" {
		return r
	}
	return "/repo"
}

type Fixture struct {
	Name string
	Type uint
	Data []byte
	Root *vh.Item
}

var fixtureFiles = []struct {
	n string
	t uint
	p string
}{
	{"byron", 1, "internal/testdata/byron_block.hex"},
	{"shelley", 2, "internal/testdata/shelley_block.hex"},
	{"allegra", 3, "internal/testdata/allegra_block.hex"},
	{"mary", 4, "internal/testdata/mary_block.hex"},
	{"alonzo", 5, "internal/testdata/alonzo_block.hex"},
	{"babbage", 6, "internal/testdata/babbage_block.hex"},
	{"conway", 7, "internal/testdata/conway_block.hex"},
	{"dijkstra", 8, "ledger/dijkstra/testdata/musashi_dijkstra_block.hex"},
}

func LoadFixtures() []Fixture {
	var out []Fixture
	for _, f := range fixtureFiles {
		b, err := os.ReadFile(Repo() + "/" + f.p)
		if err != nil {
			panic(err)
		}
		data := vh.UnHex(strings.TrimSpace(string(b)))
		root, n, err := vh.ParseItem(data)
		if err != nil || n != len(data) {
			panic("fixture does not parse: " + f.n)
		}
		out = append(out, Fixture{f.n, f.t, data, root})
	}
	return out
}

// IsShelleyLike: [header, bodies[], witnesses[], aux{}, ...]
func IsShelleyLike(root *vh.Item) bool {
	return root.K == vh.KArr && len(root.Xs) >= 4 && root.Xs[1].K == vh.KArr && root.Xs[2].K == vh.KArr && root.Xs[3].K == vh.KMap
}

// Subset builds a smaller block of the same era from the chosen transactions
// of a Shelley..Conway block (bodies, witness sets and re-indexed auxiliary data).
func Subset(root *vh.Item, idx []int) *vh.Item {
	b := root.Clone()
	var bodies, wits, aux []*vh.Item
	for newI, i := range idx {
		bodies = append(bodies, root.Xs[1].Xs[i].Clone())
		wits = append(wits, root.Xs[2].Xs[i].Clone())
		m := root.Xs[3]
		for k := 0; k+1 < len(m.Xs); k += 2 {
			if m.Xs[k].K == vh.KUInt && int(m.Xs[k].N) == i {
				aux = append(aux, vh.U(uint64(newI)), m.Xs[k+1].Clone())
			}
		}
	}
	b.Xs[1] = &vh.Item{K: vh.KArr, F: vh.MinForm(uint64(len(bodies))), Xs: bodies}
	b.Xs[2] = &vh.Item{K: vh.KArr, F: vh.MinForm(uint64(len(wits))), Xs: wits}
	b.Xs[3] = &vh.Item{K: vh.KMap, F: vh.MinForm(uint64(len(aux) / 2)), Xs: aux}
	if len(b.Xs) > 4 { // invalid transactions: none
		b.Xs[4] = vh.A()
	}
	return b
}

// ---------------------------------------------------------------------------
// span oracle: positions of every node of the tree inside root.Enc()

func nbytes(f vh.Form) int {
	switch f {
	case vh.F1:
		return 1
	case vh.F2:
		return 2
	case vh.F4:
		return 4
	case vh.F8:
		return 8
	}
	return 0
}

type Span struct{ Off, Len int }

// Layout returns the span of every node.  Sizes are computed structurally
// (header width + children), not by encoding.
func Layout(root *vh.Item) map[*vh.Item]Span {
	m := map[*vh.Item]Span{}
	layout(root, 0, m)
	return m
}

func layout(it *vh.Item, off int, m map[*vh.Item]Span) int {
	n := 0
	switch it.K {
	case vh.KUInt, vh.KNInt, vh.KSimple, vh.KFloat:
		n = 1 + nbytes(it.F)
	case vh.KBStr, vh.KTStr:
		n = 1 + nbytes(it.F) + len(it.Bs)
	case vh.KBStrI, vh.KTStrI:
		n = 2
		for _, c := range it.Chunks {
			n += 1 + nbytes(c.F) + len(c.Bs)
		}
	case vh.KArr, vh.KMap:
		n = 1
		if it.F != vh.Findef {
			n += nbytes(it.F)
		}
		for _, x := range it.Xs {
			n += layout(x, off+n, m)
		}
		if it.F == vh.Findef {
			n++
		}
	case vh.KTag:
		n = 1 + nbytes(it.F)
		n += layout(it.Xs[0], off+n, m)
	}
	m[it] = Span{off, n}
	return n
}

// NonMinimal counts containers (arrays/maps) with a non-minimal or indefinite header.
func NonMinimalContainers(it *vh.Item) int {
	n := 0
	if it.K == vh.KArr || it.K == vh.KMap {
		cnt := uint64(len(it.Xs))
		if it.K == vh.KMap {
			cnt /= 2
		}
		if it.F != vh.MinForm(cnt) {
			n++
		}
	}
	for _, x := range it.Xs {
		n += NonMinimalContainers(x)
	}
	return n
}

// MapGet returns the value of the first (or last) entry with unsigned key k.
func MapGet(m *vh.Item, k uint64, last bool) *vh.Item {
	var r *vh.Item
	if m == nil || m.K != vh.KMap {
		return nil
	}
	for i := 0; i+1 < len(m.Xs); i += 2 {
		if m.Xs[i].K == vh.KUInt && m.Xs[i].N == k {
			if !last {
				return m.Xs[i+1]
			}
			r = m.Xs[i+1]
		}
	}
	return r
}

// Untag strips tag wrappers (tag 258 sets).
func Untag(it *vh.Item) *vh.Item {
	for it != nil && it.K == vh.KTag {
		it = it.Xs[0]
	}
	return it
}

// ---------------------------------------------------------------------------
// containers whose child COUNT crosses the header-width boundaries (23/24,
// 255/256), in minimal, widened and indefinite form

// Form modes for SetForm
const (
	FormMin   = iota
	FormWide1 // next wider length argument (0x98 nn for nn < 24, 0x99 .. for nn < 256)
	FormWide8 // 8-byte length argument (0x9b)
	FormIndef
	NForms
)

var FormNames = []string{"min", "wide1", "wide8", "indef"}

// SetForm sets the header form of an array or map.
func SetForm(it *vh.Item, mode int) {
	n := uint64(len(it.Xs))
	if it.K == vh.KMap {
		n /= 2
	}
	switch mode {
	case FormMin:
		it.F = vh.MinForm(n)
	case FormWide1:
		it.F = vh.MinForm(n) + 1
	case FormWide8:
		it.F = vh.F8
	default:
		it.F = vh.Findef
	}
}

func encLen(it *vh.Item) int { return len(it.Enc()) }

// SmallestTx returns the index of the transaction with the shortest body + witness set.
func SmallestTx(root *vh.Item) int {
	best, bi := -1, 0
	for i := range root.Xs[1].Xs {
		n := encLen(root.Xs[1].Xs[i]) + encLen(root.Xs[2].Xs[i])
		if best < 0 || n < best {
			best, bi = n, i
		}
	}
	return bi
}

// TxWithAux returns a transaction that has an auxiliary-data entry (or -1).
func TxWithAux(root *vh.Item) int {
	m := root.Xs[3]
	best, bi := -1, -1
	for k := 0; k+1 < len(m.Xs); k += 2 {
		if m.Xs[k].K == vh.KUInt && int(m.Xs[k].N) < len(root.Xs[1].Xs) {
			if n := encLen(m.Xs[k+1]); best < 0 || n < best {
				best, bi = n, int(m.Xs[k].N)
			}
		}
	}
	return bi
}

// Repeat returns n copies of i.
func Repeat(i, n int) []int {
	r := make([]int, n)
	for k := range r {
		r[k] = i
	}
	return r
}

// WithOutputs replaces the outputs array (key 1) of a Shelley+ body by n
// copies of its shortest output; returns the new array (nil if none).
func WithOutputs(body *vh.Item, n int) *vh.Item {
	for k := 0; k+1 < len(body.Xs); k += 2 {
		if body.Xs[k].K == vh.KUInt && body.Xs[k].N == 1 && body.Xs[k+1].K == vh.KArr && len(body.Xs[k+1].Xs) > 0 {
			arr := body.Xs[k+1]
			small := arr.Xs[0]
			for _, o := range arr.Xs {
				if encLen(o) < encLen(small) {
					small = o
				}
			}
			var xs []*vh.Item
			for j := 0; j < n; j++ {
				xs = append(xs, small.Clone())
			}
			na := &vh.Item{K: vh.KArr, F: vh.MinForm(uint64(n)), Xs: xs}
			body.Xs[k+1] = na
			return na
		}
	}
	return nil
}

func mapSet(m *vh.Item, key uint64, v *vh.Item) {
	for k := 0; k+1 < len(m.Xs); k += 2 {
		if m.Xs[k].K == vh.KUInt && m.Xs[k].N == key {
			m.Xs[k+1] = v
			return
		}
	}
	m.Xs = append(m.Xs, vh.U(key), v)
	if m.F != vh.Findef {
		m.F = vh.MinForm(uint64(len(m.Xs) / 2))
	}
}

// WithWitnessComponents gives an Alonzo+ witness set n datums (key 4), n
// redeemers (key 5; map form if redeemerMap) and n native scripts (key 1),
// all distinct and tiny; returns the three containers.
func WithWitnessComponents(w *vh.Item, n int, redeemerMap bool, tag258 ...bool) (datums, redeemers, scripts *vh.Item) {
	datums = &vh.Item{K: vh.KArr, F: vh.MinForm(uint64(n))}
	scripts = &vh.Item{K: vh.KArr, F: vh.MinForm(uint64(n))}
	if redeemerMap {
		redeemers = &vh.Item{K: vh.KMap, F: vh.MinForm(uint64(n))}
	} else {
		redeemers = &vh.Item{K: vh.KArr, F: vh.MinForm(uint64(n))}
	}
	for i := 0; i < n; i++ {
		datums.Xs = append(datums.Xs, vh.U(uint64(1000+i)))
		kh := make([]byte, 28)
		kh[0], kh[1] = byte(i), byte(i>>8)
		scripts.Xs = append(scripts.Xs, vh.A(vh.U(0), vh.B(kh)))
		ex := vh.A(vh.U(1), vh.U(2))
		if redeemerMap {
			redeemers.Xs = append(redeemers.Xs, vh.A(vh.U(0), vh.U(uint64(i))), vh.A(vh.U(uint64(i)), ex))
		} else {
			redeemers.Xs = append(redeemers.Xs, vh.A(vh.U(0), vh.U(uint64(i)), vh.U(uint64(i)), ex))
		}
	}
	if len(tag258) > 0 && tag258[0] { // Conway set encoding: 258([...])
		mapSet(w, 4, vh.TagOf(258, datums))
		mapSet(w, 1, vh.TagOf(258, scripts))
	} else {
		mapSet(w, 4, datums)
		mapSet(w, 1, scripts)
	}
	mapSet(w, 5, redeemers)
	return
}

// ByronWithTxs returns a Byron main block whose tx payload holds n copies of
// its first transaction, whose outputs array holds m copies of its first output.
func ByronWithTxs(root *vh.Item, n, m int) (b, payload *vh.Item, outs []*vh.Item) {
	b = root.Clone()
	payload = b.Xs[1].Xs[0]
	if len(payload.Xs) == 0 {
		return b, payload, nil
	}
	pair := payload.Xs[0]
	if m > 0 && pair.K == vh.KArr && len(pair.Xs) >= 2 && len(pair.Xs[0].Xs) >= 2 && len(pair.Xs[0].Xs[1].Xs) > 0 {
		oa := pair.Xs[0].Xs[1]
		o := oa.Xs[0]
		oa.Xs = nil
		for j := 0; j < m; j++ {
			oa.Xs = append(oa.Xs, o.Clone())
		}
		if oa.F != vh.Findef {
			oa.F = vh.MinForm(uint64(m))
		}
	}
	var xs []*vh.Item
	for j := 0; j < n; j++ {
		c := pair.Clone()
		xs = append(xs, c)
		outs = append(outs, c.Xs[0].Xs[1])
	}
	payload.Xs = xs
	if payload.F != vh.Findef {
		payload.F = vh.MinForm(uint64(n))
	}
	return
}

// BoundaryCounts are the child counts around the header-width boundaries.
var BoundaryCounts = []int{23, 24, 25, 30, 255, 256, 257}

// Boundary describes one generated block with a boundary-count container.
type Boundary struct {
	Label string
	Type  uint
	Root  *vh.Item
	Small bool // cheap enough for an in-Coq case
}

// BoundaryBlocks builds, for a Shelley..Conway fixture, blocks in which one
// walked container has `count` children in header form `mode`: level 0 =
// tx bodies + witness sets arrays (+ aux map if the fixture has aux data),
// 1 = outputs array, 2 = datums / redeemers / scripts (Alonzo+).
func BoundaryBlocks(f Fixture, level, count, mode int) []Boundary {
	if !IsShelleyLike(f.Root) {
		return nil
	}
	name := func(what string) string {
		return f.Name + ":boundary:" + what + ":" + itoa(count) + ":" + FormNames[mode]
	}
	var out []Boundary
	switch level {
	case 0:
		b := Subset(f.Root, Repeat(SmallestTx(f.Root), count))
		SetForm(b.Xs[1], mode)
		SetForm(b.Xs[2], mode)
		out = append(out, Boundary{name("txs"), f.Type, b, count <= 30})
		if i := TxWithAux(f.Root); i >= 0 {
			b2 := Subset(f.Root, Repeat(i, count))
			SetForm(b2.Xs[3], mode)
			SetForm(b2.Xs[1], (mode+1)%NForms)
			out = append(out, Boundary{name("aux"), f.Type, b2, count <= 25 && encLen(b2) < 16000})
		}
	case 1:
		b := Subset(f.Root, []int{SmallestTx(f.Root)})
		if arr := WithOutputs(b.Xs[1].Xs[0], count); arr != nil {
			SetForm(arr, mode)
			out = append(out, Boundary{name("outputs"), f.Type, b, count <= 30})
		}
	case 2:
		if f.Type < 5 {
			return nil
		}
		b := Subset(f.Root, []int{SmallestTx(f.Root)})
		d, r, s := WithWitnessComponents(b.Xs[2].Xs[0], count, f.Type >= 7 && mode%2 == 1)
		SetForm(d, mode)
		SetForm(r, mode)
		SetForm(s, mode)
		out = append(out, Boundary{name("witness-components"), f.Type, b, count <= 30})
		if f.Type >= 7 {
			b2 := Subset(f.Root, []int{SmallestTx(f.Root)})
			d, r, s := WithWitnessComponents(b2.Xs[2].Xs[0], count, mode%2 == 0, true)
			SetForm(d, mode)
			SetForm(r, mode)
			SetForm(s, mode)
			out = append(out, Boundary{name("witness-components-tag258"), f.Type, b2, false})
		}
	}
	return out
}

func itoa(n int) string {
	if n == 0 {
		return "0"
	}
	s := ""
	for n > 0 {
		s = string(rune('0'+n%10)) + s
		n /= 10
	}
	return s
}

// SyntheticEBB builds a Byron epoch-boundary block [header, [stakeholder ids], extra]
// with n stakeholder ids and m elements in the trailing `extra` list.
func SyntheticEBB(n, m int) *vh.Item {
	h32 := make([]byte, 32)
	hdr := vh.A(vh.U(764824073), vh.B(h32), vh.B(h32), vh.A(vh.U(5), vh.A(vh.U(0))), vh.A(vh.M()))
	body := &vh.Item{K: vh.KArr, F: vh.MinForm(uint64(n))}
	for i := 0; i < n; i++ {
		id := make([]byte, 28)
		id[0] = byte(i)
		body.Xs = append(body.Xs, vh.B(id))
	}
	extra := &vh.Item{K: vh.KArr, F: vh.MinForm(uint64(m))}
	for i := 0; i < m; i++ {
		extra.Xs = append(extra.Xs, vh.M())
	}
	return vh.A(hdr, body, extra)
}
