package main

import (
	"fmt"
	"sort"

	"github.com/blinklabs-io/gouroboros/ledger"
	"github.com/blinklabs-io/gouroboros/ledger/common"

	"verifharness/vh"
)

type nodeRef struct {
	it   *vh.Item
	path string
}

func walk(it *vh.Item, path string, depth int, out *[]nodeRef) {
	*out = append(*out, nodeRef{it, path})
	if depth > 7 {
		return
	}
	switch it.K {
	case vh.KArr:
		for i, x := range it.Xs {
			p := "*"
			if depth < 1 {
				p = fmt.Sprint(i)
			}
			walk(x, path+"["+p+"]", depth+1, out)
		}
	case vh.KMap:
		for i := 0; i+1 < len(it.Xs); i += 2 {
			k := "?"
			if it.Xs[i].K == vh.KUInt && depth >= 2 {
				k = fmt.Sprint(it.Xs[i].N)
			} else if it.Xs[i].K == vh.KUInt {
				k = "n"
			}
			walk(it.Xs[i], path+"{"+k+"}k", depth+1, out)
			walk(it.Xs[i+1], path+"{"+k+"}", depth+1, out)
		}
	case vh.KTag:
		walk(it.Xs[0], path+fmt.Sprintf("<%d>", it.N), depth+1, out)
	}
}

func kindName(k vh.Kind) string {
	return [...]string{"uint", "nint", "bstr", "bstrI", "tstr", "tstrI", "arr", "map", "tag", "simple", "float"}[k]
}

func explore() {
	for _, f := range loadFixtures() {
		root, _, _ := vh.ParseItem(f.data)
		var nodes []nodeRef
		walk(root, "", 0, &nodes)
		type st struct{ acc, rej, badoff int }
		stats := map[string]*st{}
		for _, nr := range nodes {
			var variants []struct {
				name string
				f    vh.Form
				tag  bool
			}
			n := nr.it
			switch n.K {
			case vh.KArr, vh.KMap:
				cnt := uint64(len(n.Xs))
				if n.K == vh.KMap {
					cnt /= 2
				}
				if n.F != vh.Findef {
					for _, ff := range []vh.Form{vh.F1, vh.F2, vh.F8} {
						if ff > vh.MinForm(cnt) && ff != n.F {
							variants = append(variants, struct {
								name string
								f    vh.Form
								tag  bool
							}{fmt.Sprintf("w%d", ff), ff, false})
							break
						}
					}
					variants = append(variants, struct {
						name string
						f    vh.Form
						tag  bool
					}{"indef", vh.Findef, false})
				}
				variants = append(variants, struct {
					name string
					f    vh.Form
					tag  bool
				}{"tag", 0, true})
			case vh.KUInt, vh.KNInt:
				if n.F < vh.F8 {
					variants = append(variants, struct {
						name string
						f    vh.Form
						tag  bool
					}{"w", n.F + 1, false})
				}
			case vh.KBStr, vh.KTStr:
				if n.F < vh.F8 {
					variants = append(variants, struct {
						name string
						f    vh.Form
						tag  bool
					}{"w", n.F + 1, false})
				}
			case vh.KTag:
				if n.F < vh.F8 {
					variants = append(variants, struct {
						name string
						f    vh.Form
						tag  bool
					}{"w", n.F + 1, false})
				}
			}
			for _, v := range variants {
				save := *n
				if v.tag {
					inner := save
					*n = vh.Item{K: vh.KTag, F: vh.Fimm, N: 6, Xs: []*vh.Item{&inner}}
				} else {
					n.F = v.f
				}
				data := root.Enc()
				*n = save
				key := fmt.Sprintf("%s %s %s", nr.path, kindName(n.K), v.name)
				s := stats[key]
				if s == nil {
					s = &st{}
					stats[key] = s
				}
				var err error
				var bad int
				pan, _ := vh.Recover(func() {
					_, _, _, _, bad, err = checkBlock(f.typ, data)
				})
				if pan {
					s.rej++
					continue
				}
				if err != nil {
					s.rej++
				} else {
					s.acc++
					if bad > 0 {
						s.badoff++
					}
				}
			}
		}
		keys := make([]string, 0, len(stats))
		for k := range stats {
			keys = append(keys, k)
		}
		sort.Strings(keys)
		fmt.Println("=====", f.name)
		for _, k := range keys {
			s := stats[k]
			fmt.Printf("%-60s acc=%d rej=%d badoff=%d\n", k, s.acc, s.rej, s.badoff)
		}
	}
	_ = ledger.BlockTypeConway
	_ = common.VerifyConfig{}
}
