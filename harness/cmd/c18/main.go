// C18 - version negotiation agrees on the best common version.
//
// gen : coq/C18/Gen.v = the decoder table of protocol.GetProtocolVersion
// run : real handshake.Client against real handshake.Server over net.Pipe +
// muxers, for pairs of sub-tables of the supported tables (NtN, NtC, DMQ) x
// magics x flags x query; plus whole-Connection pairs.  Monitor = the
// property statement with an oracle computed from the configured tables;
// correspondence = C18.Model.handshake on the same tables.
package main

import (
	"encoding/json"
	"fmt"
	"os"
	"sort"
	"strings"

	ouroboros "github.com/blinklabs-io/gouroboros"
	"github.com/blinklabs-io/gouroboros/protocol"

	"verifharness/cmd/c18/hsdrv"
	"verifharness/cmd/c20/vtab"
	"verifharness/vh"
)

const header = `From Coq Require Import String.
From V Require Import Lib.Base Lib.Hex C20.Model C18.Model C18.Gen.
Open Scope string_scope.
Definition mismatches := failing (check_case known).`

func gen(out string) error {
	s, err := vtab.GenCoq(false)
	if err != nil {
		return err
	}
	if out == "" {
		fmt.Print(s)
		return nil
	}
	return vh.WriteIfChanged(out, s)
}

// ---- tables ------------------------------------------------------------------

type params struct {
	Table int    `json:"table"` // index into vtab.Tables
	Magic uint32 `json:"magic"`
	Dm    bool   `json:"dm"`
	Ps    bool   `json:"ps"`
	Q     bool   `json:"query"`
	// Versions kept (nil = all)
	Versions []uint16 `json:"versions"`
	// WrongType: give every entry the value generated for this other version
	// (same table); 0 = off.  Exercises the responder's decode-error path.
	WrongType uint16 `json:"wrong_type,omitempty"`
}

func (p params) build() protocol.ProtocolVersionMap {
	full := vtab.Tables[p.Table].Gen(p.Magic, p.Dm, p.Ps, p.Q)
	out := protocol.ProtocolVersionMap{}
	for _, v := range p.Versions {
		if d, ok := full[v]; ok {
			if p.WrongType != 0 {
				d = full[p.WrongType]
			}
			out[v] = d
		}
	}
	// what a caller may do with a map it was handed: empty it and put its own
	// entries in.  Later calls of the generator must not be affected.
	for k := range full {
		delete(full, k)
	}
	full[999] = protocol.VersionDataNtC9to14(p.Magic ^ 0x55aa55aa)
	return out
}

// tableMatchesConfig checks that the generated table is the one the
// configuration asks for: exactly the requested supported versions, each
// carrying the configured magic.  (A table generator that remembers an
// earlier call - other magic, or a map a caller has since modified - fails
// here.)
func tableMatchesConfig(p params, m protocol.ProtocolVersionMap) string {
	if p.WrongType != 0 {
		return ""
	}
	supported := map[uint16]bool{}
	for _, v := range vtab.Tables[p.Table].List() {
		supported[v] = true
	}
	want := 0
	seen := map[uint16]bool{}
	for _, v := range p.Versions {
		if supported[v] && !seen[v] {
			seen[v] = true
			want++
			d, ok := m[v]
			if !ok || d == nil {
				return fmt.Sprintf("version %d is missing from the table generated for magic %d", v, p.Magic)
			}
			if d.NetworkMagic() != p.Magic {
				return fmt.Sprintf("the table generated for magic %d carries magic %d at version %d", p.Magic, d.NetworkMagic(), v)
			}
		}
	}
	if want != len(m) {
		return fmt.Sprintf("the table generated for versions %v has %d entries", p.Versions, len(m))
	}
	return ""
}

func coqTable(m protocol.ProtocolVersionMap) string {
	var xs []string
	for _, v := range hsdrv.SortedVersions(m) {
		xs = append(xs, fmt.Sprintf("(%s, %s)", vh.N(uint64(v)), vtab.CoqVd(m[v])))
	}
	return vh.List(xs)
}

func nlist(vs []uint16) string {
	xs := make([]string, len(vs))
	for i, v := range vs {
		xs[i] = vh.N(uint64(v))
	}
	return vh.List(xs)
}

func coqClient(o hsdrv.Outcome) string {
	switch o.Class {
	case "finished":
		if o.Data == nil {
			return "CError"
		}
		return fmt.Sprintf("(CFinished %s %s)", vh.N(uint64(o.Version)), vtab.CoqVd(o.Data))
	case "query":
		return "(CQuery " + coqTable(o.QueryMap) + ")"
	case "mismatch":
		return "(CMismatch " + nlist(o.Versions) + ")"
	case "decode-error":
		return fmt.Sprintf("(CDecodeError %s)", vh.N(uint64(o.RefVer)))
	case "refused":
		return fmt.Sprintf("(CRefused %s)", vh.N(uint64(o.RefVer)))
	}
	return "CError"
}

func coqServer(o hsdrv.Outcome) string {
	if o.Class == "finished" && o.Data != nil {
		return fmt.Sprintf("(SFinished %s %s)", vh.N(uint64(o.Version)), vtab.CoqVd(o.Data))
	}
	return "SFailed"
}

type rcase struct {
	Server params `json:"server"`
	Client params `json:"client"`
	Conn   bool   `json:"whole_connection"`
	Got    string `json:"observed"`
}

type view struct {
	Magic     uint32
	Dm, Ps, Q bool
}

func viewOf(v protocol.VersionData) view {
	return view{v.NetworkMagic(), v.DiffusionMode(), v.PeerSharing(), v.Query()}
}

var lostReplies int

// expectation from the property text, computed from the configured tables only
func expect(sp, cp params, sm, cm protocol.ProtocolVersionMap) (class string, v uint16) {
	for ver, d := range cm {
		if d.Query() && protocol.GetProtocolVersion(ver).NewVersionDataFromCborFunc != nil {
			return "query", 0
		}
	}
	found := false
	for ver := range cm {
		if _, ok := sm[ver]; ok {
			if !found || ver > v {
				v = ver
			}
			found = true
		}
	}
	if !found {
		return "mismatch", 0
	}
	// the magics are those of the two configurations
	if cp.Magic != sp.Magic {
		return "refused", v
	}
	return "finished", v
}

func runCase(c *vh.Ctx, cf *vh.CaseFile, sp, cp params, conn bool, class string) {
	sm, cm := sp.build(), cp.build()
	rc := rcase{Server: sp, Client: cp, Conn: conn}
	c.Begin(rc)
	for _, pm := range []struct {
		p params
		m protocol.ProtocolVersionMap
	}{{sp, sm}, {cp, cm}} {
		if msg := tableMatchesConfig(pm.p, pm.m); msg != "" {
			c.Res.Violate("monitor", "generated-table-differs-from-configuration", msg+" (earlier calls in this process used other magics and modified the maps they were handed)", rc)
		}
	}
	expClass, expV := expect(sp, cp, sm, cm)
	if lostReplies >= 8 && expClass != "finished" {
		// the responder's refusals / query replies are not reaching the initiator on this tree
		// (already reported); each such case costs a timeout, so stop running them
		return
	}
	mode := vtab.Tables[sp.Table].Mode
	var co, so hsdrv.Outcome
	if conn {
		co, so = runConn(sp, cp)
	} else {
		co, so = hsdrv.RunPair(mode, sm, cm)
	}
	rc.Got = fmt.Sprintf("client=%s v=%d %v | server=%s v=%d", co.Class, co.Version, co.Versions, so.Class, so.Version)
	canon := fmt.Sprintf("%v|%v|%v", sp, cp, conn)
	nontrivial := len(sm) > 0 && len(cm) > 0
	c.Res.Count(canon, nontrivial, class+"/"+expClass)
	if nontrivial && expClass == "finished" && len(sm) > 1 {
		c.Res.Sample(map[string]any{"server_versions": hsdrv.SortedVersions(sm), "client_versions": hsdrv.SortedVersions(cm), "negotiated": co.Version})
	}

	// ---- monitor ------------------------------------------------------------
	wrongType := cp.WrongType != 0 || sp.WrongType != 0
	if !wrongType {
		key := ""
		what := ""
		switch {
		case co.Class == "timeout" || (conn && co.Class == "error" && expClass != "finished"):
			lostReplies++
			key = "expected-" + expClass + "-initiator-got-no-reply"
			what = fmt.Sprintf("the responder must answer with %s but the initiator saw %s (%s); responder side: %s", expClass, co.Class, co.Err, so.Err)
		case co.Class != expClass:
			key = "expected-" + expClass + "-got-" + co.Class
			what = fmt.Sprintf("property requires the initiator to end with %s, it ended with %s (%s)", expClass, co.Class, co.Err)
		case expClass == "finished":
			switch {
			case so.Class != "finished":
				key, what = "initiator-finished-responder-did-not", fmt.Sprintf("initiator finished with %d, responder: %s %s", co.Version, so.Class, so.Err)
			case co.Version != so.Version:
				key, what = "versions-disagree", fmt.Sprintf("initiator has %d, responder has %d", co.Version, so.Version)
			case co.Version != expV:
				key, what = "not-highest-common-version", fmt.Sprintf("both finished with %d, the highest common version is %d", co.Version, expV)
			case co.Data == nil || so.Data == nil || viewOf(co.Data) != viewOf(sm[expV]) || viewOf(so.Data) != viewOf(cm[expV]):
				key, what = "negotiated-version-data-differs", fmt.Sprintf("version data handed to the callbacks differs from the peer's configured data for %d", expV)
			case co.Data.NetworkMagic() != so.Data.NetworkMagic():
				key, what = "finished-with-different-magics", "magics differ"
			}
		case expClass == "refused":
			if co.RefVer != expV {
				key, what = "refusal-names-wrong-version", fmt.Sprintf("refusal names %d, highest common is %d", co.RefVer, expV)
			}
		case expClass == "mismatch":
			want := hsdrv.SortedVersions(sm)
			asc := sort.SliceIsSorted(co.Versions, func(i, j int) bool { return co.Versions[i] < co.Versions[j] })
			if !asc {
				key, what = "mismatch-list-not-ascending", fmt.Sprintf("refusal lists %v", co.Versions)
			} else if fmt.Sprint(want) != fmt.Sprint(co.Versions) {
				key, what = "mismatch-list-wrong-content", fmt.Sprintf("refusal lists %v, the responder supports %v", co.Versions, want)
			}
		case expClass == "query":
			if len(co.QueryMap) != len(sm) {
				key, what = "query-reply-table-differs", fmt.Sprintf("query reply has %d versions, responder table %d", len(co.QueryMap), len(sm))
			}
			for ver, d := range sm {
				if g, ok := co.QueryMap[ver]; !ok || viewOf(g) != viewOf(d) {
					key, what = "query-reply-table-differs", fmt.Sprintf("version %d of the responder's table is missing or different in the query reply", ver)
				}
			}
		}
		if key == "" && expClass != "finished" && so.Class == "finished" {
			key, what = "responder-finished-without-initiator", fmt.Sprintf("responder finished with %d although the initiator must see %s", so.Version, expClass)
		}
		if key != "" {
			c.Res.Violate("monitor", key, what+" ["+rc.Got+"]", rc)
		}
	}
	if so.Class == "timeout" {
		c.Res.Violate("monitor", "responder-no-outcome", "the responder neither finished nor failed ["+rc.Got+"]", rc)
		return
	}
	cf.Add(fmt.Sprintf("(%s, %s, %s, %s)", coqTable(sm), coqTable(cm), coqClient(co), coqServer(so)), rc)
}

// whole Connection objects: tables are what setupConnection generates
func connOpts(p params) []ouroboros.ConnectionOptionFunc {
	o := []ouroboros.ConnectionOptionFunc{ouroboros.WithNetworkMagic(p.Magic), ouroboros.WithFullDuplex(!p.Dm), ouroboros.WithPeerSharing(p.Ps), ouroboros.WithQueryMode(p.Q)}
	switch vtab.Tables[p.Table].Name {
	case "ntn":
		o = append(o, ouroboros.WithNodeToNode(true))
	case "dmq_ntc":
		o = append(o, ouroboros.WithDMQ(true))
	}
	return o
}

func runConn(sp, cp params) (co, so hsdrv.Outcome) {
	cerr, serr, cv, sv, cd, sd, cq := hsdrv.RunConnPair(connOpts(cp), connOpts(sp))
	if cerr != nil {
		co = hsdrv.Classify(cerr)
	} else if cp.Q {
		co = hsdrv.Outcome{Class: "query", QueryMap: cq}
	} else {
		co = hsdrv.Outcome{Class: "finished", Version: cv, Data: cd}
	}
	if serr != nil {
		so = hsdrv.Outcome{Class: "error", Err: serr.Error()}
	} else {
		so = hsdrv.Outcome{Class: "finished", Version: sv, Data: sd}
	}
	return
}

func subsets12(vs []uint16) [][]uint16 {
	var out [][]uint16
	for i := range vs {
		out = append(out, []uint16{vs[i]})
	}
	for i := range vs {
		for j := i + 1; j < len(vs); j++ {
			out = append(out, []uint16{vs[i], vs[j]})
		}
	}
	return out
}

func randSubset(r *vh.Rng, vs []uint16) []uint16 {
	var out []uint16
	p := 1 + r.Intn(4)
	for _, v := range vs {
		if r.Intn(5) < p {
			out = append(out, v)
		}
	}
	return out
}

func run(c *vh.Ctx) error {
	c.Res.Rule = "pairs (responder table, initiator table) of sub-tables of the NtN / NtC / DMQ-NtC / DMQ-NtN tables: all singletons x singletons, subsets of size <= 2 on both sides (exhaustive for NtN/DMQ and 2500 sampled for NtC in thorough, ~160 sampled per table in quick), random larger subsets incl. empty and full; x magic equal / different (incl. pairs agreeing in their low 8/16/24 bits, configured in sequence in one process; every generated map is emptied and refilled by the harness after use), diffusion and peer-sharing flags random, query flag on the initiator; initiator entries of the wrong Go type (decode-error path); cross-table pairs; whole-Connection pairs with the generated full tables. Distinct by both parameter records; non-trivial = both tables non-empty"
	c.Res.Modelled = []string{"mux framing, message CBOR framing and the protocol state machine are exercised for real but not modelled (C09-C12); the model starts at the decoded ProposeVersions map", "nil entries in a configured version table are not modelled (no generator produces them)", "the text of DecodeError / Refused refusals is not compared"}
	cf := c.NewCaseFile("c18", header)
	cf.SetShardSize(150)
	if c.Replay != "" {
		b, err := os.ReadFile(c.Replay)
		if err != nil {
			return err
		}
		var rp struct {
			Replay rcase `json:"replay"`
		}
		if err := json.Unmarshal(b, &rp); err != nil {
			return err
		}
		runCase(c, cf, rp.Replay.Server, rp.Replay.Client, rp.Replay.Conn, "replay")
		cf.Flush()
		return nil
	}
	r := c.Rng
	magics := []uint32{764824073, 1, 2, 42, 4294967295, 0}
	mk := func(t int, vs []uint16, same bool) (params, params) {
		m := vh.PickOne(r, magics)
		sp := params{Table: t, Magic: m, Dm: r.Bool(), Ps: r.Bool(), Versions: vs}
		cp := params{Table: t, Magic: m, Dm: r.Bool(), Ps: r.Bool()}
		if !same {
			for cp.Magic == m {
				cp.Magic = vh.PickOne(r, magics)
			}
			if r.Intn(3) == 0 {
				// magics that agree in their low 8 / 16 / 24 bits, same flags
				k := 8 * (1 + r.Intn(3))
				cp.Magic = m ^ (1 << uint(k+r.Intn(32-k)))
				if r.Bool() {
					cp.Dm, cp.Ps = sp.Dm, sp.Ps
				}
			}
		}
		return sp, cp
	}
	// regression corpus: three common versions (highest must win), magic mismatch, no overlap, query, wrong type
	{
		sp, cp := mk(1, []uint16{9, 11, 12, 13, 14}, true)
		cp.Versions = []uint16{11, 12, 13, 15}
		runCase(c, cf, sp, cp, false, "corpus")
		sp, cp = mk(0, []uint16{32780, 32783, 32784, 32788}, true)
		cp.Versions = []uint16{32779, 32780, 32783, 32784, 32789}
		runCase(c, cf, sp, cp, false, "corpus")
		sp, cp = mk(1, []uint16{13, 14}, false)
		cp.Versions = []uint16{13, 14, 15}
		runCase(c, cf, sp, cp, false, "corpus")
		sp, cp = mk(1, []uint16{14, 7, 11}, true)
		cp.Versions = []uint16{13, 15}
		runCase(c, cf, sp, cp, false, "corpus")
		// two networks whose magics agree in the low 24 bits (Cardano mainnet / Mithril DMQ mainnet),
		// configured one after the other in this process, same flags: must be refused
		for _, t := range []int{1, 0} {
			vs := vtab.Tables[t].List()
			sp = params{Table: t, Magic: 764824073, Dm: true, Versions: vs}
			cp = params{Table: t, Magic: 2912307721, Dm: true, Versions: vs}
			runCase(c, cf, sp, cp, false, "corpus-lowbits")
			runCase(c, cf, sp, cp, true, "corpus-lowbits")
			sp.Magic, cp.Magic = 1, 1+1<<16
			runCase(c, cf, sp, cp, false, "corpus-lowbits")
			sp.Magic, cp.Magic = 1+1<<8, 1
			runCase(c, cf, sp, cp, true, "corpus-lowbits")
		}
		sp, cp = mk(1, []uint16{13, 14}, true)
		cp.Versions, cp.Q = []uint16{10, 14}, true
		runCase(c, cf, sp, cp, false, "corpus")
		sp, cp = mk(1, []uint16{10, 13}, true)
		cp.Versions, cp.WrongType = []uint16{13}, 10
		runCase(c, cf, sp, cp, false, "corpus")
	}
	for t, tab := range vtab.Tables {
		vs := tab.List()
		subs := subsets12(vs)
		// singletons x singletons, exhaustive
		for _, a := range vs {
			for _, b := range vs {
				sp, cp := mk(t, []uint16{a}, r.Intn(8) != 0)
				cp.Versions = []uint16{b}
				if c.Thorough() || len(vs) <= 9 || a == b || r.Intn(3) == 0 {
					runCase(c, cf, sp, cp, false, tab.Name+"-1x1")
				}
			}
		}
		// size <= 2 on both sides
		n := 0
		for _, a := range subs {
			for _, b := range subs {
				if len(subs) > 3 && len(subs)*len(subs) > c.Pick(160, 2500) && r.Intn(len(subs)*len(subs)) >= c.Pick(160, 2500) {
					continue
				}
				n++
				sp, cp := mk(t, a, r.Intn(6) != 0)
				cp.Versions = b
				cp.Q = r.Intn(12) == 0
				runCase(c, cf, sp, cp, false, tab.Name+"-2x2")
			}
		}
		// larger random subsets
		for k := 0; k < c.Pick(60, 600); k++ {
			if len(vs) < 3 {
				break
			}
			sp, cp := mk(t, randSubset(r, vs), r.Intn(5) != 0)
			cp.Versions = randSubset(r, vs)
			cp.Q = r.Intn(10) == 0
			if r.Intn(10) == 0 && len(cp.Versions) > 0 {
				cp.WrongType = vh.PickOne(r, vs)
			}
			runCase(c, cf, sp, cp, false, tab.Name+"-subsets")
		}
		// full tables
		for k := 0; k < 3; k++ {
			sp, cp := mk(t, vs, k != 1)
			cp.Versions, cp.Q = vs, k == 2
			runCase(c, cf, sp, cp, false, tab.Name+"-full")
		}
	}
	// cross-table pairs (never a common version)
	for k := 0; k < c.Pick(12, 80); k++ {
		t1, t2 := r.Intn(4), r.Intn(4)
		if t1 == t2 {
			continue
		}
		sp := params{Table: t1, Magic: 1, Versions: randSubset(r, vtab.Tables[t1].List())}
		cp := params{Table: t2, Magic: 1, Versions: randSubset(r, vtab.Tables[t2].List()), Q: r.Intn(6) == 0}
		runCase(c, cf, sp, cp, false, "cross-table")
	}
	// whole connections
	for k := 0; k < c.Pick(12, 60); k++ {
		t := []int{0, 1, 2}[k%3]
		vs := vtab.Tables[t].List()
		sp, cp := mk(t, vs, k%4 != 3)
		for sp.Magic == 0 || cp.Magic == 0 { // NewConnection refuses magic 0
			sp, cp = mk(t, vs, k%4 != 3)
		}
		cp.Versions = vs
		cp.Q = k%5 == 4
		if t != 1 {
			sp.Dm, cp.Dm, sp.Ps, cp.Ps = true, true, false, false // NtC tables ignore these; keep the record canonical
		}
		runCase(c, cf, sp, cp, true, "connection-"+vtab.Tables[t].Name)
	}
	cf.Flush()
	if lostReplies >= 8 {
		c.Res.Notes = append(c.Res.Notes, "refusal / query-reply cases were cut short after 8 lost replies (each costs a timeout)")
	}
	_ = strings.Join
	return nil
}

func main() { vh.Main(vh.Runner{Property: "C18", Gen: gen, Run: run}) }
