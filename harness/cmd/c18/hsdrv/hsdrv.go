// Package hsdrv drives the real handshake code over an in-memory connection:
//   - RunPair: real handshake.Client against real handshake.Server, each with
//     its own muxer on one end of a net.Pipe and an arbitrary version table
//   - RunConnPair: two real ouroboros.Connection objects (full tables)
//   - Scripted: a raw peer speaking mux segments (4-byte timestamp, 2-byte
//     protocol id with the response bit, 2-byte length) for the C19 responder
//
// Used by the C18 and C19 harnesses.
package hsdrv

import (
	"encoding/binary"
	"errors"
	"fmt"
	"io"
	"log/slog"
	"net"
	"sort"
	"time"

	ouroboros "github.com/blinklabs-io/gouroboros"
	"github.com/blinklabs-io/gouroboros/connection"
	"github.com/blinklabs-io/gouroboros/muxer"
	"github.com/blinklabs-io/gouroboros/protocol"
	"github.com/blinklabs-io/gouroboros/protocol/handshake"
)

func connId(c net.Conn) connection.ConnectionId {
	return connection.ConnectionId{LocalAddr: c.LocalAddr(), RemoteAddr: c.RemoteAddr()}
}

var quiet = slog.New(slog.NewTextHandler(io.Discard, nil))

// Outcome of one side of a handshake.
type Outcome struct {
	// Class: "finished" (FinishedFunc called with a version), "query"
	// (client: QueryReplyFunc + FinishedFunc(0,nil)), "mismatch" /
	// "decode-error" / "refused" (client: typed refusal errors), "error"
	// (any other error), "timeout" (nothing happened)
	Class    string
	Version  uint16
	Data     protocol.VersionData        // finished: the peer's version data handed to FinishedFunc
	Versions []uint16                    // mismatch: the refusal list as received, in wire order
	RefVer   uint16                      // decode-error / refused: version named in the refusal
	QueryMap protocol.ProtocolVersionMap // query: decoded reply
	Err      string
}

// Classify maps a handshake error to an outcome class.
func Classify(err error) Outcome {
	var vm *handshake.VersionMismatchError
	var de *handshake.DecodeError
	var re *handshake.RefusedError
	switch {
	case errors.As(err, &vm):
		return Outcome{Class: "mismatch", Versions: vm.SupportedVersions, Err: err.Error()}
	case errors.As(err, &de):
		return Outcome{Class: "decode-error", RefVer: de.Version, Err: err.Error()}
	case errors.As(err, &re):
		return Outcome{Class: "refused", RefVer: re.Version, Err: err.Error()}
	}
	return Outcome{Class: "error", Err: err.Error()}
}

type side struct {
	fin   chan Outcome
	errs  chan error
	query protocol.ProtocolVersionMap
	gotQ  bool
}

func newSide() *side { return &side{fin: make(chan Outcome, 4), errs: make(chan error, 16)} }

func (s *side) config(m protocol.ProtocolVersionMap) *handshake.Config {
	cfg := handshake.NewConfig(
		handshake.WithProtocolVersionMap(m),
		handshake.WithFinishedFunc(func(ctx handshake.CallbackContext, v uint16, d protocol.VersionData) error {
			s.fin <- Outcome{Class: "finished", Version: v, Data: d}
			return nil
		}),
		handshake.WithQueryReplyFunc(func(ctx handshake.CallbackContext, qm protocol.ProtocolVersionMap) error {
			s.query, s.gotQ = qm, true
			return nil
		}),
		handshake.WithTimeout(5*time.Second),
	)
	return &cfg
}

func (s *side) wait(d time.Duration) Outcome {
	select {
	case o := <-s.fin:
		if s.gotQ && o.Data == nil {
			return Outcome{Class: "query", QueryMap: s.query}
		}
		return o
	case err := <-s.errs:
		return Classify(err)
	case <-time.After(d):
		return Outcome{Class: "timeout"}
	}
}

// RunPair runs a real client with table cm against a real server with table sm.
func RunPair(mode protocol.ProtocolMode, sm, cm protocol.ProtocolVersionMap) (client, server Outcome) {
	cc, sc := net.Pipe()
	cmux, smux := muxer.New(cc), muxer.New(sc)
	cs, ss := newSide(), newSide()
	srv := handshake.NewServer(protocol.ProtocolOptions{ConnectionId: connId(cc), Muxer: smux, Logger: quiet, ErrorChan: ss.errs, Mode: mode, Role: protocol.ProtocolRoleServer}, ss.config(sm))
	cli := handshake.NewClient(protocol.ProtocolOptions{ConnectionId: connId(cc), Muxer: cmux, Logger: quiet, ErrorChan: cs.errs, Mode: mode, Role: protocol.ProtocolRoleClient}, cs.config(cm))
	srv.Start()
	smux.StartOnce()
	cli.Start()
	cmux.StartOnce()
	server = ss.wait(3 * time.Second)
	client = cs.wait(400 * time.Millisecond)
	cmux.Stop()
	smux.Stop()
	return
}

// ---------------------------------------------------------------------------
// scripted peer

// WriteSegment sends one mux segment.
func WriteSegment(w io.Writer, protoId uint16, response bool, payload []byte) error {
	h := make([]byte, 8)
	binary.BigEndian.PutUint32(h[0:], uint32(time.Now().UnixMicro()))
	if response {
		protoId |= 0x8000
	}
	binary.BigEndian.PutUint16(h[4:], protoId)
	binary.BigEndian.PutUint16(h[6:], uint16(len(payload)))
	_, err := w.Write(append(h, payload...))
	return err
}

// ReadSegment reads one mux segment.
func ReadSegment(r io.Reader) (protoId uint16, response bool, payload []byte, err error) {
	h := make([]byte, 8)
	if _, err = io.ReadFull(r, h); err != nil {
		return
	}
	id := binary.BigEndian.Uint16(h[4:])
	payload = make([]byte, binary.BigEndian.Uint16(h[6:]))
	_, err = io.ReadFull(r, payload)
	return id & 0x7fff, id&0x8000 != 0, payload, err
}

// drain keeps reading (and discarding) whatever the peer sends until the pipe closes.
func drain(c net.Conn) {
	buf := make([]byte, 4096)
	for {
		if _, err := c.Read(buf); err != nil {
			return
		}
	}
}

// ScriptedClientConn runs a real ouroboros.Connection as initiator against a
// responder that reads the proposal and answers with the given raw handshake
// message.  It returns the proposal payload, the NewConnection error and the
// negotiated version / data.
func ScriptedClientConn(reply []byte, opts ...ouroboros.ConnectionOptionFunc) (proposal []byte, connErr error, version uint16, data protocol.VersionData) {
	cc, sc := net.Pipe()
	done := make(chan []byte, 1)
	go func() {
		sc.SetDeadline(time.Now().Add(5 * time.Second))
		_, _, p, err := ReadSegment(sc)
		if err != nil {
			done <- nil
			return
		}
		done <- p
		WriteSegment(sc, 0, true, reply)
		sc.SetDeadline(time.Time{})
		drain(sc)
	}()
	all := append([]ouroboros.ConnectionOptionFunc{ouroboros.WithConnection(cc), ouroboros.WithLogger(quiet)}, opts...)
	conn, err := ouroboros.NewConnection(all...)
	proposal = <-done
	if err != nil {
		cc.Close()
		sc.Close()
		return proposal, err, 0, nil
	}
	version, data = conn.ProtocolVersion()
	// shut down without waiting for protocol teardown
	go func() {
		for range conn.ErrorChan() {
		}
	}()
	conn.Close()
	sc.Close()
	return proposal, nil, version, data
}

// ScriptedClient runs a real handshake.Client with an arbitrary proposed
// table against a scripted responder answering with `reply`.
func ScriptedClient(mode protocol.ProtocolMode, cm protocol.ProtocolVersionMap, reply []byte) (proposal []byte, out Outcome) {
	cc, sc := net.Pipe()
	cmux := muxer.New(cc)
	cs := newSide()
	cli := handshake.NewClient(protocol.ProtocolOptions{ConnectionId: connId(cc), Muxer: cmux, Logger: quiet, ErrorChan: cs.errs, Mode: mode, Role: protocol.ProtocolRoleClient}, cs.config(cm))
	done := make(chan []byte, 1)
	go func() {
		sc.SetDeadline(time.Now().Add(5 * time.Second))
		_, _, p, err := ReadSegment(sc)
		if err != nil {
			done <- nil
			return
		}
		done <- p
		WriteSegment(sc, 0, true, reply)
		sc.SetDeadline(time.Time{})
		drain(sc)
	}()
	cli.Start()
	cmux.StartOnce()
	proposal = <-done
	out = cs.wait(3 * time.Second)
	cmux.Stop()
	sc.Close()
	return
}

// RunConnPair runs two real Connection objects against each other.
func RunConnPair(copts, sopts []ouroboros.ConnectionOptionFunc) (cErr, sErr error, cv, sv uint16, cd, sd protocol.VersionData, cq protocol.ProtocolVersionMap) {
	cc, sc := net.Pipe()
	type r struct {
		conn *ouroboros.Connection
		err  error
	}
	sch := make(chan r, 1)
	go func() {
		conn, err := ouroboros.NewConnection(append([]ouroboros.ConnectionOptionFunc{ouroboros.WithConnection(sc), ouroboros.WithServer(true), ouroboros.WithLogger(quiet)}, sopts...)...)
		sch <- r{conn, err}
	}()
	cconn, cerr := ouroboros.NewConnection(append([]ouroboros.ConnectionOptionFunc{ouroboros.WithConnection(cc), ouroboros.WithLogger(quiet)}, copts...)...)
	var sr r
	select {
	case sr = <-sch:
	case <-time.After(5 * time.Second):
		sr = r{nil, fmt.Errorf("server side timeout")}
		sc.Close()
	}
	cErr, sErr = cerr, sr.err
	if cconn != nil && cerr == nil {
		cv, cd = cconn.ProtocolVersion()
		cq = cconn.QueryReplyVersionMap()
	}
	if sr.conn != nil && sr.err == nil {
		sv, sd = sr.conn.ProtocolVersion()
	}
	for _, c := range []*ouroboros.Connection{cconn, sr.conn} {
		if c != nil {
			c := c
			go func() {
				for range c.ErrorChan() {
				}
			}()
			go c.Close()
		}
	}
	cc.Close()
	sc.Close()
	return
}

func SortedVersions(m protocol.ProtocolVersionMap) []uint16 {
	ks := make([]uint16, 0, len(m))
	for k := range m {
		ks = append(ks, k)
	}
	sort.Slice(ks, func(i, j int) bool { return ks[i] < ks[j] })
	return ks
}
