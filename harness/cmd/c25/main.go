// C25 - local request/response calls get their own answers.
//
// A raw peer plays a conforming TAGGING server for local-tx-monitor,
// local-tx-submission, local-state-query (node-to-client connection) and
// peer-sharing (node-to-node connection): request number i of a protocol is
// answered by a reply of the matching kind that carries i (and echoes the
// request's own payload where the protocol has one).  Seeded concurrent
// callers (G goroutines x N calls per protocol) use the real clients; every
// returned value must carry the tag of the request that very call sent.
package main

import (
	"encoding/binary"
	"encoding/json"
	"errors"
	"fmt"
	"os"
	"sort"
	"strings"
	"sync"
	"time"

	ouroboros "github.com/blinklabs-io/gouroboros"
	"github.com/blinklabs-io/gouroboros/cbor"
	"github.com/blinklabs-io/gouroboros/protocol/localtxsubmission"

	"verifharness/cmd/c23/peer"
	"verifharness/vh"
)

const header = `From V Require Import Lib.Base C25.Model.`

func cborHead(major byte, n uint64) []byte {
	switch {
	case n < 24:
		return []byte{major<<5 | byte(n)}
	case n < 1<<8:
		return []byte{major<<5 | 24, byte(n)}
	case n < 1<<16:
		b := []byte{major<<5 | 25, 0, 0}
		binary.BigEndian.PutUint16(b[1:], uint16(n))
		return b
	case n < 1<<32:
		b := []byte{major<<5 | 26, 0, 0, 0, 0}
		binary.BigEndian.PutUint32(b[1:], uint32(n))
		return b
	}
	b := []byte{major<<5 | 27, 0, 0, 0, 0, 0, 0, 0, 0}
	binary.BigEndian.PutUint64(b[1:], n)
	return b
}
func cat(bs ...[]byte) []byte {
	var o []byte
	for _, b := range bs {
		o = append(o, b...)
	}
	return o
}

// kinds (= result channels) across the four protocols
const (
	kTmAcquire = iota + 1
	kTmHasTx
	kTmNextTx
	kTmSizes
	kSubmit
	kLsqAcquire
	kLsqQuery
	kPeers
)

var kindName = map[int]string{kTmAcquire: "txmonitor-acquire", kTmHasTx: "txmonitor-hastx", kTmNextTx: "txmonitor-nexttx",
	kTmSizes: "txmonitor-sizes", kSubmit: "txsubmission-submit", kLsqAcquire: "lsq-acquire", kLsqQuery: "lsq-query", kPeers: "peersharing-getpeers"}

// what the server saw: request number (per protocol), kind, payload id (0 if the request has none)
type wireEv struct {
	Proto uint16 `json:"proto"`
	N     int    `json:"n"`
	Kind  int    `json:"kind"`
	ID    uint64 `json:"id"`
}

// what a call returned
type retEv struct {
	G    int    `json:"g"`    // goroutine
	Seq  int    `json:"seq"`  // its call number
	Kind int    `json:"kind"`
	ID   uint64 `json:"id"`   // payload id the call sent (0 if none)
	Tag  int64  `json:"tag"`  // request number carried by the returned value (-1: error, -2: inconsistent value)
	Echo uint64 `json:"echo"` // payload echo carried by the returned value (if any)
	Err  string `json:"err"`
}

type server struct {
	mu    sync.Mutex
	nfree map[uint16]int // size-free replies so far (see sizeFor in seq.go)
	n     map[uint16]int
	wires []wireEv
	p     *peer.Peer
	delay *vh.Rng
}

func (s *server) onMsg(proto uint16, mt uint, raw []byte) {
	s.mu.Lock()
	i := s.n[proto]
	reply := func(kind int, id uint64, payload []byte) {
		s.n[proto] = i + 1
		s.wires = append(s.wires, wireEv{proto, i, kind, id})
		d := s.delay.Intn(4)
		s.mu.Unlock()
		if d == 0 {
			time.Sleep(time.Duration(50+s.delay.Intn(300)) * time.Microsecond)
		}
		s.p.Send(proto, payload)
	}
	var arr []cbor.RawMessage
	cbor.Decode(raw, &arr)
	switch proto {
	case 9: // local-tx-monitor
		switch mt {
		case 1:
			reply(kTmAcquire, 0, cat([]byte{0x82, 0x02}, cborHead(0, uint64(i))))
		case 7:
			var txid []byte
			if len(arr) > 1 {
				cbor.Decode(arr[1], &txid)
			}
			id := binary.BigEndian.Uint64(append(make([]byte, 8), txid...)[len(txid):])
			b := byte(0xf4)
			if id&1 == 1 {
				b = 0xf5
			}
			reply(kTmHasTx, id, []byte{0x82, 0x08, b})
		case 5:
			k := s.nfree[proto]
			s.nfree[proto] = k + 1
			reply(kTmNextTx, 0, nextTxReply(i, sizeFor(k)))
		case 9:
			reply(kTmSizes, 0, cat([]byte{0x82, 0x0a, 0x83}, cborHead(0, uint64(i)), cborHead(0, uint64(i+100000)), cborHead(0, uint64(i+200000))))
		default: // Release / Done: no reply
			s.mu.Unlock()
		}
	case 6: // local-tx-submission: [0, [era, 24(tx)]] -> RejectTx(reason = i*65536 + id)
		if mt != 0 {
			s.mu.Unlock()
			return
		}
		var id uint64
		if len(arr) > 1 {
			var inner []cbor.RawMessage
			cbor.Decode(arr[1], &inner)
			if len(inner) > 1 {
				var tag cbor.Tag
				if _, err := cbor.Decode(inner[1], &tag); err == nil {
					if b, ok := tag.Content.([]byte); ok && len(b) >= 2 {
						id = uint64(b[0])<<8 | uint64(b[1])
					}
				}
			}
		}
		reply(kSubmit, id, cat([]byte{0x82, 0x02}, cborHead(0, uint64(i)*65536+id)))
	case 7: // local-state-query
		switch mt {
		case 0, 6, 8, 9, 10, 11:
			reply(kLsqAcquire, 0, []byte{0x81, 0x01})
		case 3:
			k := s.nfree[proto]
			s.nfree[proto] = k + 1
			reply(kLsqQuery, 0, intArrayReply(0x04, []uint64{1, uint64(i)}, sizeFor(k)))
		default:
			s.mu.Unlock()
		}
	case 10: // peer-sharing: [0, amount] -> [1, [amount x [0, addr, port=i]]]
		if mt != 0 {
			s.mu.Unlock()
			return
		}
		var amount uint64
		if len(arr) > 1 {
			cbor.Decode(arr[1], &amount)
		}
		peers := cborHead(4, amount)
		for k := uint64(0); k < amount; k++ {
			peers = cat(peers, []byte{0x83, 0x00}, cborHead(0, 0x0100007f), cborHead(0, uint64(i&0xffff)))
		}
		reply(kPeers, amount, cat([]byte{0x82, 0x01}, peers))
	default:
		s.mu.Unlock()
	}
}

type scenario struct {
	G    int    `json:"g"`
	N    int    `json:"n"`
	Seed uint64 `json:"seed"`
	// Only > 0: every call is of this one choice (burst of same-kind calls that carry a
	// payload echo: 0 = HasTx, 4 = SubmitTx, 8 = GetPeers) - maximises same-channel contention
	Only int `json:"only"`
}

type outcome struct {
	Wires []wireEv `json:"wires"`
	Rets  []retEv  `json:"rets"`
	Hung  bool     `json:"hung"`
}

func runScenario(sc scenario) (out outcome) {
	mk := func(ntn bool) (*server, *ouroboros.Connection, error) {
		s := &server{n: map[uint16]int{}, nfree: map[uint16]int{}, delay: vh.NewRng(sc.Seed ^ 0x5555)}
		s.p = peer.New(ntn)
		s.p.OnMsg = s.onMsg
		opts := []ouroboros.ConnectionOptionFunc{
			ouroboros.WithConnection(s.p.Client), ouroboros.WithNetworkMagic(peer.Magic),
			ouroboros.WithNodeToNode(ntn), ouroboros.WithKeepAlive(false),
		}
		if ntn {
			opts = append(opts, ouroboros.WithPeerSharing(true))
		}
		c, err := ouroboros.New(opts...)
		if err == nil {
			go func() {
				for e := range c.ErrorChan() {
					if e != nil && os.Getenv("C25_DEBUG") != "" {
						fmt.Fprintln(os.Stderr, "conn error:", e)
					}
				}
			}()
		}
		return s, c, err
	}
	s1, c1, err := mk(false)
	if err != nil {
		out.Rets = append(out.Rets, retEv{Err: "connect ntc: " + err.Error(), Tag: -1})
		return
	}
	defer s1.p.Close()
	s2, c2, err := mk(true)
	if err != nil {
		out.Rets = append(out.Rets, retEv{Err: "connect ntn: " + err.Error(), Tag: -1})
		return
	}
	defer s2.p.Close()
	var rmu sync.Mutex
	add := func(r retEv) { rmu.Lock(); out.Rets = append(out.Rets, r); rmu.Unlock() }
	tm, ts, lsq := c1.LocalTxMonitor().Client, c1.LocalTxSubmission().Client, c1.LocalStateQuery().Client
	ps := c2.PeerSharing()
	// acquire once up front so that every later call is exactly one request/response
	if err := tm.Acquire(); err != nil {
		add(retEv{Kind: kTmAcquire, Tag: -1, Err: err.Error()})
	}
	if err := lsq.AcquireVolatileTip(); err != nil {
		add(retEv{Kind: kLsqAcquire, Tag: -1, Err: err.Error()})
	}
	var wg sync.WaitGroup
	for g := 0; g < sc.G; g++ {
		wg.Add(1)
		go func(g int) {
			defer wg.Done()
			r := vh.NewRng(sc.Seed + uint64(g)*7919)
			for seq := 0; seq < sc.N; seq++ {
				ev := retEv{G: g, Seq: seq, Tag: -1}
				choice := r.Intn(9)
				if sc.Only > 0 {
					choice = sc.Only - 1
				}
				switch choice {
				case 0:
					ev.Kind, ev.ID = kTmHasTx, uint64(g+1)<<32|uint64(seq)<<1|uint64(r.Intn(2))
					txid := make([]byte, 8)
					binary.BigEndian.PutUint64(txid, ev.ID)
					res, err := tm.HasTx(txid)
					if err != nil {
						ev.Err = err.Error()
					} else {
						ev.Tag, ev.Echo = 0, ev.ID&^1
						if res {
							ev.Echo |= 1
						}
					}
				case 1:
					ev.Kind = kTmNextTx
					tx, err := tm.NextTx()
					if err != nil {
						ev.Err = err.Error()
					} else {
						ev.Tag = txTag(tx) // 16-bit tag + filler check (-2: assembled from different replies)
					}
				case 2:
					ev.Kind = kTmSizes
					a, b, c, err := tm.GetSizes()
					if err != nil {
						ev.Err = err.Error()
					} else if b == a+100000 && c == a+200000 {
						ev.Tag = int64(a)
					} else {
						ev.Tag = -2
					}
				case 3:
					ev.Kind = kTmAcquire // re-acquire
					if err := tm.Acquire(); err != nil {
						ev.Err = err.Error()
					} else {
						ev.Tag = 0
					}
				case 4, 5:
					ev.Kind, ev.ID = kSubmit, (uint64(g+1)<<11|uint64(seq&0x7ff))&0xffff
					err := ts.SubmitTx(6, []byte{byte(ev.ID >> 8), byte(ev.ID), 0xaa, byte(r.Intn(256))})
					var rej localtxsubmission.TransactionRejectedError
					if errors.As(err, &rej) {
						var v uint64
						if _, derr := cbor.Decode(rej.ReasonCbor, &v); derr == nil {
							ev.Tag, ev.Echo = int64(v>>16), v&0xffff
						} else {
							ev.Tag = -2
						}
					} else if err != nil {
						ev.Err = err.Error()
					} else {
						ev.Tag = -2 // the server never accepts
					}
				case 6:
					ev.Kind = kLsqQuery
					v, err := lsq.GetChainBlockNo()
					if err != nil {
						ev.Err = err.Error()
					} else {
						ev.Tag = v
					}
				case 7:
					ev.Kind = kLsqAcquire // re-acquire across queries
					var err error
					if r.Intn(2) == 0 {
						err = lsq.AcquireVolatileTip()
					} else {
						err = lsq.AcquireImmutableTip()
					}
					if err != nil {
						ev.Err = err.Error()
					} else {
						ev.Tag = 0
					}
				default:
					ev.Kind, ev.ID = kPeers, uint64(1+(g*7+seq)%200)
					peers, err := ps.Client.GetPeers(uint8(ev.ID))
					if err != nil {
						ev.Err = err.Error()
					} else {
						ev.Echo = uint64(len(peers))
						ev.Tag = -2
						if len(peers) > 0 {
							ev.Tag = int64(peers[0].Port)
							for _, p := range peers {
								if int64(p.Port) != ev.Tag {
									ev.Tag = -2
								}
							}
						}
					}
				}
				add(ev)
			}
		}(g)
	}
	done := make(chan struct{})
	go func() { wg.Wait(); close(done) }()
	select {
	case <-done:
	case <-time.After(20 * time.Second):
		out.Hung = true
	}
	s1.mu.Lock()
	s2.mu.Lock()
	out.Wires = append(append([]wireEv{}, s1.wires...), s2.wires...)
	s2.mu.Unlock()
	s1.mu.Unlock()
	if !out.Hung {
		tm.Release()
		lsq.Release()
		fin := make(chan struct{})
		go func() { c1.Close(); c2.Close(); close(fin) }()
		select {
		case <-fin:
		case <-time.After(3 * time.Second):
		}
	}
	return
}

func protoOf(kind int) uint16 {
	switch kind {
	case kTmAcquire, kTmHasTx, kTmNextTx, kTmSizes:
		return 9
	case kSubmit:
		return 6
	case kLsqAcquire, kLsqQuery:
		return 7
	}
	return 10
}

// owner[proto][n] = index into out.Rets of the call whose request was number n, decided
// by the payload id where the request carries one, else by the returned tag
func monitor(c *vh.Ctx, sc scenario, out outcome) map[string]int {
	rep := map[string]any{"scenario": sc, "outcome": out}
	owner := map[string]int{}
	if out.Hung {
		c.Res.Violate("monitor", "calls-hang", "concurrent calls against a conforming server had not finished after 20 s", rep)
		return owner
	}
	byID := map[string]wireEv{}
	issued := map[string]bool{}
	for _, w := range out.Wires {
		if w.ID != 0 {
			byID[fmt.Sprintf("%d/%d/%d", w.Proto, w.Kind, w.ID)] = w
		}
		issued[fmt.Sprintf("%d/%d/%d", w.Proto, w.Kind, w.N)] = true
	}
	used := map[string]bool{}
	lastTag := map[string]int64{}
	peersIssued := map[string]bool{}
	for _, w := range out.Wires {
		if w.Kind == kPeers {
			peersIssued[fmt.Sprintf("peers/%d/%d", w.ID, w.N&0xffff)] = true
		}
	}
	for idx, r := range out.Rets {
		name := kindName[r.Kind]
		if r.Err != "" || r.Tag == -1 {
			c.Res.Violate("monitor", name+"-error", fmt.Sprintf("call %d/%d failed against a conforming server: %s", r.G, r.Seq, r.Err), rep)
			continue
		}
		if r.Tag == -2 {
			c.Res.Violate("monitor", name+"-mixed-reply", fmt.Sprintf("call %d/%d returned a value assembled from different replies or of the wrong shape", r.G, r.Seq), rep)
			continue
		}
		p := protoOf(r.Kind)
		switch r.Kind {
		case kTmHasTx:
			// the reply echoes the parity of the caller's own tx id
			if r.Echo != r.ID {
				c.Res.Violate("monitor", name+"-foreign-reply", fmt.Sprintf("HasTx(%x) returned the answer to a different request", r.ID), rep)
			}
			if w, ok := byID[fmt.Sprintf("%d/%d/%d", p, r.Kind, r.ID)]; ok {
				owner[fmt.Sprintf("%d/%d", p, w.N)] = idx
			}
		case kSubmit:
			w, ok := byID[fmt.Sprintf("%d/%d/%d", p, r.Kind, r.ID)]
			echoOK := r.Echo == r.ID
			if !ok || !echoOK || int64(w.N&0xffff) != r.Tag&0xffff {
				c.Res.Violate("monitor", name+"-foreign-reply", fmt.Sprintf("call %d/%d (payload %d) returned tag %d echo %d; its own request was number %d", r.G, r.Seq, r.ID, r.Tag, r.Echo, w.N), rep)
			}
			if ok {
				owner[fmt.Sprintf("%d/%d", p, w.N)] = idx
			}
		case kPeers:
			// amounts repeat: the reply must echo the own amount and carry the number of a
			// request that asked for exactly this amount, used by no other call
			k := fmt.Sprintf("peers/%d/%d", r.ID, r.Tag)
			if r.Echo != r.ID || !peersIssued[k] || used[k] {
				c.Res.Violate("monitor", name+"-foreign-reply", fmt.Sprintf("GetPeers(%d) by %d/%d returned %d peers tagged %d: not the reply to a request for this amount, or a reply another call also got", r.ID, r.G, r.Seq, r.Echo, r.Tag), rep)
			}
			used[k] = true
			owner[fmt.Sprintf("%d/%d", p, r.Tag)] = idx
		case kTmNextTx, kTmSizes, kLsqQuery:
			k := fmt.Sprintf("%d/%d/%d", p, r.Kind, r.Tag)
			if !issued[k] || used[k] {
				c.Res.Violate("monitor", name+"-foreign-reply", fmt.Sprintf("call %d/%d returned tag %d which the server never issued for this kind, or which another call also returned", r.G, r.Seq, r.Tag), rep)
			}
			used[k] = true
			gk := fmt.Sprintf("%d/%d", p, r.G)
			if last, ok := lastTag[gk]; ok && r.Tag < last {
				c.Res.Violate("monitor", name+"-stale-reply", fmt.Sprintf("goroutine %d got tag %d after tag %d: a reply to an earlier request", r.G, r.Tag, last), rep)
			}
			lastTag[gk] = r.Tag
			owner[fmt.Sprintf("%d/%d", p, r.Tag)] = idx
		}
	}
	return owner
}

// per protocol: the serialised history, owners as decided above
func coqCases(out outcome, owner map[string]int) []string {
	var cases []string
	for _, proto := range []uint16{9, 6, 7, 10} {
		var evs []string
		var ws []wireEv
		for _, w := range out.Wires {
			if w.Proto == proto {
				ws = append(ws, w)
			}
		}
		sort.Slice(ws, func(i, j int) bool { return ws[i].N < ws[j].N })
		if len(ws) > 300 {
			ws = ws[:300] // a prefix of a history is a history; keeps the Coq case small
		}
		for _, w := range ws {
			idx, ok := owner[fmt.Sprintf("%d/%d", proto, w.N)]
			if !ok {
				// acquire calls carry no tag: they are not part of the replayed history;
				// keep the request numbering aligned with a dummy goroutine
				evs = append(evs, fmt.Sprintf("ECall 99 %d; EWire 99 %d; ERet 99 %d %d", w.Kind, w.Kind, w.Kind, w.N))
				continue
			}
			r := out.Rets[idx]
			tag := r.Tag
			if r.Kind == kTmHasTx {
				tag = int64(w.N)
				if r.Echo != r.ID {
					tag = 9999
				}
			}
			if r.Kind == kPeers {
				if r.Echo == r.ID && w.ID == r.ID {
					tag = int64(w.N)
				} else {
					tag = 9999
				}
			}
			if r.Kind == kSubmit {
				if tag&0xffff == int64(w.N&0xffff) && r.Echo == r.ID {
					tag = int64(w.N)
				} else {
					tag = 9999
				}
			}
			evs = append(evs, fmt.Sprintf("ECall %d %d; EWire %d %d; ERet %d %d %d", r.G, r.Kind, r.G, r.Kind, r.G, r.Kind, tag))
		}
		cases = append(cases, "["+strings.Join(evs, "; ")+"]")
	}
	return cases
}

func runOne(c *vh.Ctx, cf *vh.CaseFile, sc scenario) {
	c.Begin(sc)
	out := runScenario(sc)
	canon, _ := json.Marshal(sc)
	c.Res.Count(string(canon), sc.G >= 2, fmt.Sprintf("g=%d", sc.G))
	owner := monitor(c, sc, out)
	for _, r := range out.Rets {
		c.Res.Distribution[kindName[r.Kind]]++
	}
	for _, cs := range coqCases(out, owner) {
		cf.Add(cs, map[string]any{"scenario": sc})
	}
	c.Res.Sample(map[string]any{"goroutines": sc.G, "calls_each": sc.N, "requests_seen": len(out.Wires), "returns": len(out.Rets)})
}

func run(c *vh.Ctx) error {
	c.Res.Rule = "a scenario = G goroutines (1..8) x N calls (20..40) drawn from HasTx / NextTx / GetSizes / re-Acquire (tx-monitor), SubmitTx (tx-submission), GetChainBlockNo / re-acquire volatile|immutable (state query), GetPeers (peer sharing) against a tagging server with seeded reply delays; plus a SEQUENCE class: one goroutine, 8-25 calls mixing Acquire(point)/AcquireVolatileTip/AcquireImmutableTip (also while acquired = re-acquire), Release, GetCurrentEra, GetEpochNo (era-dependent), GetChainPoint/GetSystemStart/GetChainBlockNo and tx-monitor Acquire/HasTx/NextTx/GetSizes/Release, against a server whose reported era changes with every request; distinct by (G, N, seed) or the op list; non-trivial = at least 2 goroutines / 3 calls"
	c.Res.Modelled = []string{
		"one request/response per critical section (the implicit acquire inside a first query is avoided by acquiring up front); Release has no reply and is outside the model",
		"for requests without payload (NextTx, GetSizes, queries) the owner of request i is identified by the returned tag itself: the monitor then checks that tags are issued, unique per kind and non-decreasing per goroutine",
		"the engine (FIFO delivery, one handler at a time) is C10-C13",
	}
	cf := c.NewCaseFile("c25", header)
	cf.SetShardSize(40)
	cfs := c.NewCaseFile("c25seq", seqHeader)
	cfs.Type, cfs.Func = "scase", "smismatches"
	cfs.SetShardSize(80)
	if c.Replay != "" {
		b, err := os.ReadFile(c.Replay)
		if err != nil {
			return err
		}
		var rp struct {
			Replay struct {
				Scenario    scenario     `json:"scenario"`
				SeqScenario *seqScenario `json:"seq_scenario"`
			} `json:"replay"`
		}
		if err := json.Unmarshal(b, &rp); err != nil {
			return err
		}
		if rp.Replay.SeqScenario != nil {
			runSeqOne(c, cfs, *rp.Replay.SeqScenario)
			cfs.Flush()
			return nil
		}
		runOne(c, cf, rp.Replay.Scenario)
		cf.Flush()
		return nil
	}
	// sequence class (acquire / re-acquire / release), regression corpus first
	runSeqOne(c, cfs, seqScenario{Ops: []string{"acqV", "era", "acqI", "era", "epoch", "acqP", "epoch", "era", "rel", "era", "point", "acqV", "start", "acqV", "epoch"}})
	runSeqOne(c, cfs, seqScenario{Ops: []string{"epoch", "acqP", "epoch", "blockno", "acqI", "era", "tmhas", "tmacq", "tmsizes", "tmrel", "tmnext"}})
	// multi-segment replies (65535 / 65536 / 70000 / 140000 bytes) alternating with small ones on one instance
	runSeqOne(c, cfs, seqScenario{Ops: []string{"acqV", "blockno", "blockno", "epoch", "blockno", "point", "blockno", "epoch", "blockno", "era", "blockno", "blockno",
		"tmnext", "tmnext", "tmhas", "tmnext", "tmnext", "tmsizes", "tmnext", "tmnext", "tmrel", "tmnext", "tmnext"}})
	for i := 0; i < c.Pick(14, 150); i++ {
		runSeqOne(c, cfs, genSeq(c.Rng, 8+c.Rng.Intn(18)))
	}
	cfs.Flush()
	runOne(c, cf, scenario{G: 4, N: 20, Seed: 4242})
	for _, only := range []int{1, 5, 9} {
		runOne(c, cf, scenario{G: 16, N: c.Pick(150, 600), Seed: c.Rng.U64(), Only: only})
	}
	n := c.Pick(14, 150)
	for i := 0; i < n; i++ {
		runOne(c, cf, scenario{G: 1 + c.Rng.Intn(8), N: 20 + c.Rng.Intn(21), Seed: c.Rng.U64()})
	}
	cf.Flush()
	return nil
}

func main() { vh.Main(vh.Runner{Property: "C25", Run: run, Gen: gen}) }
