package main

import "testing"

func TestSizes(t *testing.T) {
	for _, target := range bigSizes {
		if n := len(intArrayReply(4, []uint64{1, 77}, target)); n != target {
			t.Errorf("intArrayReply %d -> %d", target, n)
		}
		if n := len(intArrayReply(4, []uint64{300}, target)); n != target {
			t.Errorf("intArrayReply1 %d -> %d", target, n)
		}
		r := nextTxReply(513, target)
		if len(r) != target {
			t.Errorf("nextTxReply %d -> %d", target, len(r))
		}
	}
	if len(intArrayReply(4, []uint64{1, 5}, 0)) != 5 || txTag(nextTxReply(513, 0)[7:]) != 513 {
		t.Errorf("small")
	}
}
