package main

// Sequence class: one goroutine drives a local-state-query client (and a
// local-tx-monitor client) through seeded SEQUENCES that mix acquire /
// re-acquire-while-acquired / release / GetCurrentEra / era-dependent and
// era-independent queries.  The server's reply to EVERY request carries the
// request's index; the era it reports changes with every request.  Because
// only one goroutine calls, the requests that reach the server between a
// call's start and its return are exactly the requests that call caused.

import (
	"encoding/json"
	"fmt"
	"strings"
	"sync"
	"time"

	ouroboros "github.com/blinklabs-io/gouroboros"
	"github.com/blinklabs-io/gouroboros/cbor"
	pcommon "github.com/blinklabs-io/gouroboros/protocol/common"

	"verifharness/cmd/c23/peer"
	"verifharness/vh"
)

const seqHeader = `From V Require Import Lib.Base C25.Seq.`

type seqWire struct {
	N    int    `json:"n"`
	Kind string `json:"kind"` // acq0|acq1|acq2 (point|volatile|immutable), reacq0..2, rel, eraq, shelleyq, plainq; tm-* for tx-monitor
	Era  int    `json:"era"`  // era carried by a shelley query / era reported in the reply to an era query
}

type seqCall struct {
	Op    string    `json:"op"` // acqP acqV acqI rel era epoch point start blockno | tmacq tmrel tmhas tmnext tmsizes
	Reqs  []seqWire `json:"reqs"`
	Res   int64     `json:"res"` // era / tag carried by the returned value (-1 none)
	Err   string    `json:"err"`
	Extra uint64    `json:"extra"`
}

type seqScenario struct {
	Ops  []string `json:"ops"`
	Seed uint64   `json:"seed"`
}

func eraFor(i int) int { return (i*5 + 3) % 7 } // changes with every request, stays in 0..6

// Reply sizes across the muxer segment boundary (segment payload <= 65535 bytes): the
// raw peer splits a larger message over several segments, so reassembly in the client's
// readLoop is exercised.  0 = small.
var bigSizes = []int{65535, 65536, 70000, 140000}

// sizeFor decides the total size of the k-th size-free reply of a protocol instance:
// small and large alternate, the large ones cycle through bigSizes, so every instance
// that makes four such calls sees at least two multi-segment replies with small ones between.
func sizeFor(k int) int {
	if k%2 == 0 {
		return 0
	}
	return bigSizes[(k/2)%len(bigSizes)]
}

// intArrayReply builds [msgType, [first..., 0, 0, ...]] of exactly target bytes (target 0: no padding)
func intArrayReply(msgType byte, first []uint64, target int) []byte {
	var fixed []byte
	for _, v := range first {
		fixed = append(fixed, cborHead(0, v)...)
	}
	n := 0
	for it := 0; target > 0 && it < 16; it++ {
		total := 2 + len(cborHead(4, uint64(len(first)+n))) + len(fixed) + n
		if total == target {
			break
		}
		n += target - total
		if n < 0 {
			n = 0
			break
		}
	}
	out := cat([]byte{0x82, msgType}, cborHead(4, uint64(len(first)+n)), fixed)
	return append(out, make([]byte, n)...)
}

// nextTxReply builds [6, [1, 24(h'tx')]] with tx = 8-byte tag followed by filler byte(i), message of exactly target bytes
func nextTxReply(i int, target int) []byte {
	n := 8
	for it := 0; target > 0 && it < 16; it++ {
		total := 2 + 1 + 1 + 2 + len(cborHead(2, uint64(n))) + n
		if total == target {
			break
		}
		n += target - total
	}
	tx := make([]byte, n)
	tx[6], tx[7] = byte(i>>8), byte(i)
	for k := 8; k < n; k++ {
		tx[k] = byte(i)
	}
	return cat([]byte{0x82, 0x06, 0x82, 0x01, 0xd8, 0x18}, cborHead(2, uint64(n)), tx)
}

// txTag recovers the tag of a NextTx transaction and checks its filler (-2: assembled from different replies)
func txTag(tx []byte) int64 {
	if len(tx) < 8 {
		return -2
	}
	tag := int64(tx[6])<<8 | int64(tx[7])
	for k := 8; k < len(tx); k++ {
		if tx[k] != byte(tag) {
			return -2
		}
	}
	return tag
}

type seqServer struct {
	mu    sync.Mutex
	nfree map[uint16]int // size-free replies sent so far, per protocol
	n     map[uint16]int
	wires map[uint16][]seqWire
	p     *peer.Peer
}

func (s *seqServer) onMsg(proto uint16, mt uint, raw []byte) {
	s.mu.Lock()
	i := s.n[proto]
	s.n[proto] = i + 1
	rec := func(kind string, era int) { s.wires[proto] = append(s.wires[proto], seqWire{i, kind, era}) }
	nextSize := func() int { k := s.nfree[proto]; s.nfree[proto] = k + 1; return sizeFor(k) }
	var payload []byte
	var arr []cbor.RawMessage
	cbor.Decode(raw, &arr)
	switch proto {
	case 7:
		switch mt {
		case 0:
			rec("acq0", 0)
			payload = []byte{0x81, 0x01}
		case 8:
			rec("acq1", 0)
			payload = []byte{0x81, 0x01}
		case 10:
			rec("acq2", 0)
			payload = []byte{0x81, 0x01}
		case 6:
			rec("reacq0", 0)
			payload = []byte{0x81, 0x01}
		case 9:
			rec("reacq1", 0)
			payload = []byte{0x81, 0x01}
		case 11:
			rec("reacq2", 0)
			payload = []byte{0x81, 0x01}
		case 5:
			rec("rel", 0)
		case 3:
			var q []any
			if len(arr) > 1 {
				cbor.Decode(arr[1], &q)
			}
			kind, era := "plainq", 0
			reply := []byte(nil) // default below: [4, [1, i, 0...]] (chain block no), size-free
			if len(q) > 0 {
				switch q0, _ := q[0].(uint64); q0 {
				case 0:
					inner, _ := q[1].([]any)
					if len(inner) > 1 {
						if t, _ := inner[0].(uint64); t == 2 {
							kind, era = "eraq", eraFor(i)
							reply = cat([]byte{0x82, 0x04}, cborHead(0, uint64(era)))
						} else {
							kind = "shelleyq"
							if sq, ok := inner[1].([]any); ok && len(sq) > 0 {
								e, _ := sq[0].(uint64)
								era = int(e)
							}
							reply = intArrayReply(0x04, []uint64{uint64(i)}, nextSize()) // [4, [i, 0...]] epoch no, size-free
						}
					}
				case 1: // system start [year, day, picoseconds]
					reply = cat([]byte{0x82, 0x04, 0x83}, cborHead(0, uint64(i)), []byte{0x01, 0x00})
				case 3: // chain point [slot, hash]
					reply = cat([]byte{0x82, 0x04, 0x82}, cborHead(0, uint64(i)), []byte{0x44, 1, 2, 3, 4})
				}
			}
			if reply == nil {
				reply = intArrayReply(0x04, []uint64{1, uint64(i)}, nextSize())
			}
			rec(kind, era)
			payload = reply
		default:
			rec(fmt.Sprintf("other%d", mt), 0)
		}
	case 9:
		switch mt {
		case 1:
			rec("tm-acq", 0)
			payload = cat([]byte{0x82, 0x02}, cborHead(0, uint64(i)))
		case 3:
			rec("tm-rel", 0)
		case 7:
			rec("tm-has", 0)
			payload = []byte{0x82, 0x08, 0xf4 + byte(i&1)}
		case 5:
			rec("tm-next", 0)
			payload = nextTxReply(i, nextSize())
		case 9:
			rec("tm-sizes", 0)
			payload = cat([]byte{0x82, 0x0a, 0x83}, cborHead(0, uint64(i)), cborHead(0, uint64(i+100000)), cborHead(0, uint64(i+200000)))
		default:
			rec(fmt.Sprintf("tm-other%d", mt), 0)
		}
	}
	s.mu.Unlock()
	if payload != nil {
		s.p.Send(proto, payload)
	}
}

func (s *seqServer) count(proto uint16) int {
	s.mu.Lock()
	defer s.mu.Unlock()
	return len(s.wires[proto])
}
func (s *seqServer) since(proto uint16, k int) []seqWire {
	s.mu.Lock()
	defer s.mu.Unlock()
	return append([]seqWire(nil), s.wires[proto][k:]...)
}

func runSeq(sc seqScenario) (calls []seqCall, fatal string) {
	s := &seqServer{n: map[uint16]int{}, nfree: map[uint16]int{}, wires: map[uint16][]seqWire{}}
	s.p = peer.New(false)
	s.p.OnMsg = s.onMsg
	defer s.p.Close()
	conn, err := ouroboros.New(ouroboros.WithConnection(s.p.Client), ouroboros.WithNetworkMagic(peer.Magic),
		ouroboros.WithNodeToNode(false), ouroboros.WithKeepAlive(false))
	if err != nil {
		return nil, "connect: " + err.Error()
	}
	go func() {
		for range conn.ErrorChan() {
		}
	}()
	lsq, tm := conn.LocalStateQuery().Client, conn.LocalTxMonitor().Client
	pt := pcommon.NewPoint(4471207, vh.UnHex("1451a0dbf16cfeddf4991a838961df1b08a68f43a19c0eb3b36cc4029c77a2d8"))
	for _, op := range sc.Ops {
		proto := uint16(7)
		if strings.HasPrefix(op, "tm") {
			proto = 9
		}
		k := s.count(proto)
		c := seqCall{Op: op, Res: -1}
		var cerr error
		ok := peer.WaitOrHang(10*time.Second, func() {
			switch op {
			case "acqP":
				cerr = lsq.Acquire(&pt)
			case "acqV":
				cerr = lsq.AcquireVolatileTip()
			case "acqI":
				cerr = lsq.AcquireImmutableTip()
			case "rel":
				cerr = lsq.Release()
			case "era":
				var v int
				v, cerr = lsq.GetCurrentEra()
				c.Res = int64(v)
			case "epoch":
				var v int
				v, cerr = lsq.GetEpochNo()
				c.Res = int64(v)
			case "point":
				var v *pcommon.Point
				v, cerr = lsq.GetChainPoint()
				if v != nil {
					c.Res = int64(v.Slot)
				}
			case "start":
				r, e := lsq.GetSystemStart()
				cerr = e
				if r != nil {
					c.Res = r.Year.Int64()
				}
			case "blockno":
				c.Res, cerr = lsq.GetChainBlockNo()
			case "tmacq":
				cerr = tm.Acquire()
			case "tmrel":
				cerr = tm.Release()
			case "tmhas":
				var b bool
				b, cerr = tm.HasTx([]byte{1, 2, 3})
				c.Res = 0
				if b {
					c.Res = 1
				}
			case "tmnext":
				var tx []byte
				tx, cerr = tm.NextTx()
				if cerr == nil {
					c.Res = txTag(tx)
				}
			case "tmsizes":
				var a, b2, c3 uint32
				a, b2, c3, cerr = tm.GetSizes()
				c.Res = int64(a)
				if b2 != a+100000 || c3 != a+200000 {
					c.Res = -2
				}
			}
		})
		if !ok {
			return calls, "call " + op + " hangs"
		}
		if cerr != nil {
			c.Err = cerr.Error()
			c.Res = -1
		}
		// a Release is fire-and-forget: give the peer a moment to read it so that it is
		// attributed to this call (bounded wait on the counter, not a fixed sleep)
		if op == "rel" || op == "tmrel" {
			for w := 0; w < 100000 && s.count(proto) == k; w++ { // up to 10 s, returns as soon as it is read
				time.Sleep(100 * time.Microsecond)
			}
		}
		c.Reqs = s.since(proto, k)
		calls = append(calls, c)
	}
	done := make(chan struct{})
	go func() { conn.Close(); close(done) }()
	select {
	case <-done:
	case <-time.After(3 * time.Second):
	}
	return calls, ""
}

// the monitor: written from the LSQ protocol description and the property text
func monitorSeq(c *vh.Ctx, sc seqScenario, calls []seqCall, fatal string) {
	rep := map[string]any{"seq_scenario": sc, "calls": calls, "fatal": fatal}
	if fatal != "" {
		c.Res.Violate("monitor", "lsq:sequence-"+strings.ReplaceAll(fatal, " ", "-"), "sequence aborted: "+fatal, rep)
		return
	}
	acquired, tmAcquired := false, false
	freshEras := map[int]bool{} // era values reported since the last acquire / re-acquire / release
	kinds := func(rs []seqWire) string {
		var k []string
		for _, r := range rs {
			k = append(k, r.Kind)
		}
		return strings.Join(k, ",")
	}
	for idx, cl := range calls {
		if cl.Err != "" {
			c.Res.Violate("monitor", "lsq:"+cl.Op+"-error", fmt.Sprintf("call %d (%s) failed against a conforming server: %s", idx, cl.Op, cl.Err), rep)
			return
		}
		rs := cl.Reqs
		implicit := func(acq *bool, kind string) {
			// a query on a released client acquires first
			if !*acq {
				if len(rs) == 0 || rs[0].Kind != kind {
					c.Res.Violate("monitor", "lsq:"+cl.Op+"-missing-implicit-acquire", fmt.Sprintf("call %d (%s) on a released client sent [%s]", idx, cl.Op, kinds(rs)), rep)
				} else {
					rs = rs[1:]
				}
				*acq = true
				if kind == "acq1" {
					freshEras = map[int]bool{}
				}
			}
		}
		switch cl.Op {
		case "acqP", "acqV", "acqI":
			want := map[string]string{"acqP": "0", "acqV": "1", "acqI": "2"}[cl.Op]
			pre := "acq"
			if acquired {
				pre = "reacq"
			}
			if len(rs) != 1 || rs[0].Kind != pre+want {
				c.Res.Violate("monitor", "lsq:acquire-wrong-message", fmt.Sprintf("call %d (%s, acquired=%v) sent [%s], required [%s%s]", idx, cl.Op, acquired, kinds(rs), pre, want), rep)
			}
			acquired = true
			freshEras = map[int]bool{}
		case "rel":
			if len(rs) != 1 || rs[0].Kind != "rel" {
				c.Res.Violate("monitor", "lsq:release-wrong-message", fmt.Sprintf("call %d (rel) sent [%s]", idx, kinds(rs)), rep)
			}
			acquired = false
			freshEras = map[int]bool{}
		case "era", "epoch":
			implicit(&acquired, "acq1")
			var era int
			if len(rs) > 0 && rs[0].Kind == "eraq" {
				era = rs[0].Era
				freshEras[era] = true
				rs = rs[1:]
			} else {
				// no CurrentEra request of its own: only an era obtained since the last
				// (re-)acquire may be reused
				era = -1
				if cl.Op == "era" {
					era = int(cl.Res)
				} else if len(rs) > 0 && rs[0].Kind == "shelleyq" {
					era = rs[0].Era
				}
				if !freshEras[era] {
					c.Res.Violate("monitor", "lsq:call-answered-without-own-request",
						fmt.Sprintf("call %d (%s) used era %d without sending a CurrentEra request although no such era was reported since the last acquire/re-acquire (requests of this call: [%s])", idx, cl.Op, era, kinds(rs)), rep)
					return
				}
			}
			if cl.Op == "era" {
				if len(rs) != 0 || int(cl.Res) != era {
					c.Res.Violate("monitor", "lsq:era-foreign-reply", fmt.Sprintf("call %d GetCurrentEra returned %d, the reply to its request said %d (extra requests [%s])", idx, cl.Res, era, kinds(rs)), rep)
				}
			} else {
				if len(rs) != 1 || rs[0].Kind != "shelleyq" || rs[0].Era != era || int(cl.Res) != rs[0].N {
					c.Res.Violate("monitor", "lsq:shelley-query-stale-era-or-foreign-reply",
						fmt.Sprintf("call %d GetEpochNo: current era %d, requests [%s] (era in query %v), returned tag %d", idx, era, kinds(rs), rs, cl.Res), rep)
				}
			}
		case "point", "start", "blockno":
			implicit(&acquired, "acq1")
			if len(rs) != 1 || rs[0].Kind != "plainq" || int(cl.Res) != rs[0].N {
				c.Res.Violate("monitor", "lsq:"+cl.Op+"-foreign-reply", fmt.Sprintf("call %d (%s) sent [%s] and returned tag %d", idx, cl.Op, kinds(rs), cl.Res), rep)
			}
		case "tmacq":
			if len(rs) != 1 || rs[0].Kind != "tm-acq" {
				c.Res.Violate("monitor", "txmonitor:acquire-wrong-message", fmt.Sprintf("call %d sent [%s]", idx, kinds(rs)), rep)
			}
			tmAcquired = true
		case "tmrel":
			if len(rs) != 1 || rs[0].Kind != "tm-rel" {
				c.Res.Violate("monitor", "txmonitor:release-wrong-message", fmt.Sprintf("call %d sent [%s]", idx, kinds(rs)), rep)
			}
			tmAcquired = false
		case "tmhas", "tmnext", "tmsizes":
			implicit(&tmAcquired, "tm-acq")
			want := map[string]string{"tmhas": "tm-has", "tmnext": "tm-next", "tmsizes": "tm-sizes"}[cl.Op]
			okRes := len(rs) == 1 && rs[0].Kind == want
			if okRes {
				if cl.Op == "tmhas" {
					okRes = int(cl.Res) == rs[0].N&1
				} else {
					okRes = int(cl.Res) == rs[0].N
				}
			}
			if !okRes {
				c.Res.Violate("monitor", "txmonitor:"+cl.Op+"-foreign-reply", fmt.Sprintf("call %d (%s) sent [%s] and returned %d", idx, cl.Op, kinds(rs), cl.Res), rep)
			}
		}
	}
}

// Coq case for the LSQ part of the sequence (coq/C25/Seq.v)
func coqSeqCase(calls []seqCall) string {
	var cs, obs []string
	eras := map[int]int{}
	maxN := -1
	for _, cl := range calls {
		if strings.HasPrefix(cl.Op, "tm") {
			continue
		}
		switch cl.Op {
		case "acqP":
			cs = append(cs, "CAcquire 0")
		case "acqV":
			cs = append(cs, "CAcquire 1")
		case "acqI":
			cs = append(cs, "CAcquire 2")
		case "rel":
			cs = append(cs, "CRelease")
		case "era":
			cs = append(cs, "CEra")
		case "epoch":
			cs = append(cs, "CShelley")
		default:
			cs = append(cs, "CPlain")
		}
		var rq []string
		for _, r := range cl.Reqs {
			if r.N > maxN {
				maxN = r.N
			}
			k := ""
			switch {
			case strings.HasPrefix(r.Kind, "acq"):
				k = "RAcquire " + r.Kind[3:]
			case strings.HasPrefix(r.Kind, "reacq"):
				k = "RReacquire " + r.Kind[5:]
			case r.Kind == "rel":
				k = "RRelease"
			case r.Kind == "eraq":
				k = "REraQ"
				eras[r.N] = r.Era
			case r.Kind == "shelleyq":
				k = fmt.Sprintf("RShelleyQ %d", r.Era)
			default:
				k = "RPlainQ"
			}
			rq = append(rq, fmt.Sprintf("(%d, %s)", r.N, k))
		}
		res := "None"
		if cl.Op != "acqP" && cl.Op != "acqV" && cl.Op != "acqI" && cl.Op != "rel" && cl.Res >= 0 {
			res = fmt.Sprintf("(Some %d)", cl.Res)
		}
		obs = append(obs, fmt.Sprintf("{| o_reqs := %s; o_result := %s |}", vh.List(rq), res))
	}
	var el []string
	for i := 0; i <= maxN; i++ {
		el = append(el, fmt.Sprint(eras[i]))
	}
	return fmt.Sprintf("{| s_calls := %s; s_eras := %s; s_obs := %s |}", vh.List(cs), vh.List(el), vh.List(obs))
}

func genSeq(r *vh.Rng, n int) seqScenario {
	sc := seqScenario{Seed: r.U64()}
	acquired := false
	lsqOps := []string{"acqP", "acqV", "acqI", "era", "era", "epoch", "epoch", "point", "start", "blockno", "blockno", "blockno", "rel"}
	tmOps := []string{"tmacq", "tmhas", "tmnext", "tmnext", "tmnext", "tmsizes", "tmrel"}
	tmAcq := false
	for i := 0; i < n; i++ {
		if r.Intn(4) == 0 {
			op := tmOps[r.Intn(len(tmOps))]
			if op == "tmrel" && !tmAcq {
				op = "tmhas"
			}
			if op == "tmrel" {
				tmAcq = false
			} else {
				tmAcq = true
			}
			sc.Ops = append(sc.Ops, op)
			continue
		}
		op := lsqOps[r.Intn(len(lsqOps))]
		if op == "rel" && !acquired {
			op = "era"
		}
		if op == "rel" {
			acquired = false
		} else {
			acquired = true
		}
		sc.Ops = append(sc.Ops, op)
	}
	return sc
}

func runSeqOne(c *vh.Ctx, cf *vh.CaseFile, sc seqScenario) {
	c.Begin(map[string]any{"seq_scenario": sc})
	calls, fatal := runSeq(sc)
	canon, _ := json.Marshal(sc.Ops)
	c.Res.Count(string(canon), len(sc.Ops) >= 3, "sequence")
	for _, op := range sc.Ops {
		c.Res.Distribution["seq-op:"+op]++
	}
	monitorSeq(c, sc, calls, fatal)
	if fatal == "" {
		cf.Add(coqSeqCase(calls), map[string]any{"seq_scenario": sc, "calls": calls})
	}
}
