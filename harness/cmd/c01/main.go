// C01 - decoded blocks and transactions keep their exact wire bytes.
package main

import (
	"bytes"
	"encoding/json"
	"fmt"
	"os"
	"reflect"
	"strings"

	"github.com/blinklabs-io/gouroboros/cbor"
	"github.com/blinklabs-io/gouroboros/ledger"
	"github.com/blinklabs-io/gouroboros/ledger/common"
	"golang.org/x/crypto/blake2b"

	"verifharness/cmd/c07/blk"
	"verifharness/vh"
)

const header = `From Coq Require Import String.
From V Require Import Lib.Base Lib.Hex C01.Model.
Open Scope N_scope.`

type rcase struct {
	Type  uint   `json:"type"`
	Label string `json:"label"`
	Data  string `json:"data"`
}

type cborer interface{ Cbor() []byte }
type marshaler interface{ MarshalCBOR() ([]byte, error) }

func typeName(o any) string {
	t := reflect.TypeOf(o)
	for t.Kind() == reflect.Ptr {
		t = t.Elem()
	}
	return t.Name()
}

// ptrTo returns a pointer to the value held by o (so that pointer-receiver marshalers apply, as for a decoded field)
func ptrTo(o any) any {
	v := reflect.ValueOf(o)
	if v.Kind() == reflect.Ptr {
		return o
	}
	p := reflect.New(v.Type())
	p.Elem().Set(v)
	return p.Interface()
}

func field(o any, name string) any {
	v := reflect.ValueOf(o)
	for v.Kind() == reflect.Ptr {
		v = v.Elem()
	}
	f := v.FieldByName(name)
	if !f.IsValid() {
		return nil
	}
	if f.CanAddr() {
		return f.Addr().Interface()
	}
	return ptrTo(f.Interface())
}

type runner struct {
	c                              *vh.Ctx
	cf                             *vh.CaseFile
	accepted, rejected, nonMinimal int
	coqBytes, coqBudget            int
	objects, txs                   int
	txcf                           *vh.CaseFile
	histories, retainedObjs        int
	scribbles, scribbleObs         int
}

func sliceOf(data []byte, s blk.Span) []byte { return data[s.Off : s.Off+s.Len] }

// stored: the stored encoding must be the wire bytes at the component's span
func (r *runner) stored(kind string, o any, want []byte, rc rcase) {
	c, ok := o.(cborer)
	if !ok || o == nil {
		return
	}
	r.objects++
	if !bytes.Equal(c.Cbor(), want) {
		r.c.Res.Violate("monitor", "stored-bytes:"+kind+":"+typeName(o),
			fmt.Sprintf("%s.Cbor() (%d bytes) is not the input slice at its span (%d bytes)", typeName(o), len(c.Cbor()), len(want)), rc)
	}
}

// reserialise: cbor.Encode of the unmodified decoded object must give the wire bytes
func (r *runner) reserialise(kind string, o any, want []byte, rc rcase) {
	if o == nil {
		return
	}
	p := ptrTo(o)
	var got []byte
	var err error
	pan, pv := vh.Recover(func() { got, err = cbor.Encode(p) })
	if pan {
		r.c.Res.Violate("monitor", "reencode-panic:"+typeName(o), fmt.Sprint(pv), rc)
		return
	}
	if err != nil || !bytes.Equal(got, want) {
		key := "reencode-marshalcbor:" + typeName(o)
		if _, ok := p.(marshaler); !ok {
			key = "reencode-no-marshalcbor:" + typeName(o)
		}
		r.c.Res.Violate("monitor", key, fmt.Sprintf("cbor.Encode(%s %s) gives %d bytes, the wire encoding has %d (err=%v)", kind, typeName(o), len(got), len(want), err), rc)
	}
}

func hash256(b []byte) []byte { h := blake2b.Sum256(b); return h[:] }

func coqBytesList(xs [][]byte) string {
	var s []string
	for _, x := range xs {
		s = append(s, vh.Bytes(x))
	}
	return vh.List(s)
}

func (r *runner) runBlock(label string, typ uint, root *vh.Item, toCoq bool) {
	data := root.Enc()
	rc := rcase{typ, label, vh.Hex(data)}
	r.c.Begin(rc)
	var b ledger.Block
	var err error
	pan, pv := vh.Recover(func() {
		b, err = ledger.NewBlockFromCbor(typ, data, common.VerifyConfig{SkipBodyHashValidation: true})
	})
	if pan {
		r.c.Res.Violate("monitor", "panic:NewBlockFromCbor", fmt.Sprint(pv), rc)
		return
	}
	if err != nil {
		r.rejected++
		return
	}
	r.accepted++
	nm := blk.NonMinimalContainers(root)
	intsWide := !root.Minimal()
	if nm > 0 {
		r.nonMinimal++
	}
	cls := fmt.Sprintf("type%d:", typ)
	switch {
	case nm > 0:
		cls += "reencoded"
	case intsWide:
		cls += "nonminimal-scalars"
	default:
		cls += "minimal"
	}
	r.c.Res.Count(rc.Data, nm > 0, cls)
	if nm > 0 {
		r.c.Res.Sample(map[string]any{"label": label, "bytes": len(data), "nonminimal_containers": nm})
	}
	lay := blk.Layout(root)
	// block and header
	r.stored("block", b, data, rc)
	r.reserialise("block", b, data, rc)
	hdrItem := root.Xs[0]
	hdrBytes := sliceOf(data, lay[hdrItem])
	hdr := b.Header()
	r.stored("header", hdr, hdrBytes, rc)
	r.reserialise("header", hdr, hdrBytes, rc)
	if h := b.Hash(); typ >= 2 && !bytes.Equal(h.Bytes(), hash256(hdrBytes)) {
		r.c.Res.Violate("monitor", "header-hash", "Hash() is not Blake2b-256 of the header's wire bytes", rc)
	}
	// transactions
	var bodies, wits []*vh.Item
	var outs [][]*vh.Item
	switch {
	case typ == 1 && len(root.Xs) == 3 && root.Xs[1].K == vh.KArr && len(root.Xs[1].Xs) > 0:
		for _, pair := range root.Xs[1].Xs[0].Xs {
			bodies = append(bodies, pair.Xs[0])
			wits = append(wits, nil)
			var o []*vh.Item
			if len(pair.Xs[0].Xs) >= 2 {
				o = pair.Xs[0].Xs[1].Xs
			}
			outs = append(outs, o)
		}
	case blk.IsShelleyLike(root):
		for i, body := range root.Xs[1].Xs {
			bodies = append(bodies, body)
			wits = append(wits, root.Xs[2].Xs[i])
			var o []*vh.Item
			if a := blk.MapGet(body, 1, false); a != nil {
				o = a.Xs
			}
			outs = append(outs, o)
		}
		if ms := field(b, "TransactionMetadataSet"); ms != nil {
			r.stored("aux", ms, sliceOf(data, lay[root.Xs[3]]), rc)
		}
	}
	txs := b.Transactions()
	if len(txs) != len(bodies) {
		r.c.Res.Violate("monitor", "tx-count", fmt.Sprintf("%d transactions decoded, %d encoded", len(txs), len(bodies)), rc)
		return
	}
	for i, tx := range txs {
		bb := sliceOf(data, lay[bodies[i]])
		body := field(tx, "Body")
		r.stored("body", body, bb, rc)
		r.reserialise("body", body, bb, rc)
		if id := tx.Id(); !bytes.Equal(id.Bytes(), hash256(bb)) {
			r.c.Res.Violate("monitor", "tx-id", fmt.Sprintf("tx %d Id() is not Blake2b-256 of the body's wire bytes", i), rc)
		}
		if h := tx.Hash(); !bytes.Equal(h.Bytes(), hash256(bb)) {
			r.c.Res.Violate("monitor", "tx-hash", fmt.Sprintf("tx %d Hash() is not Blake2b-256 of the body's wire bytes", i), rc)
		}
		if wits[i] != nil {
			wb := sliceOf(data, lay[wits[i]])
			ws := field(tx, "WitnessSet")
			r.stored("witness-set", ws, wb, rc)
			r.reserialise("witness-set", ws, wb, rc)
		}
		os_ := tx.Outputs()
		if len(os_) == len(outs[i]) {
			for j, o := range os_ {
				ob := sliceOf(data, lay[outs[i][j]])
				r.stored("output", o, ob, rc)
				r.reserialise("output", o, ob, rc)
			}
		} else {
			r.c.Res.Violate("monitor", "output-count", fmt.Sprintf("tx %d: %d outputs decoded, %d encoded", i, len(os_), len(outs[i])), rc)
		}
	}
	// correspondence: what ExtractAndSetTransactionCbor hands the setters
	if toCoq && blk.IsShelleyLike(root) && r.coqBytes+len(data) <= r.coqBudget {
		for _, delta := range []int{0, 1} {
			nb, nw := len(bodies)+delta, len(bodies)
			bs := make([][]byte, nb)
			ws := make([][]byte, nw)
			var meta []byte
			metaSet := false
			var e error
			pan, _ := vh.Recover(func() {
				e = common.ExtractAndSetTransactionCbor(data,
					func(i int, d []byte) { bs[i] = append([]byte(nil), d...) },
					func(i int, d []byte) { ws[i] = append([]byte(nil), d...) },
					func(d []byte) { meta = append([]byte(nil), d...); metaSet = true },
					nb, nw)
			})
			obs := "None"
			if !pan && e == nil {
				obs = fmt.Sprintf("(Some (Some (%s, %s, %s)))", coqBytesList(bs), coqBytesList(ws), vh.Opt(vh.Bytes(meta), metaSet))
			}
			r.coqBytes += len(data)
			r.cf.Add(fmt.Sprintf("(%s, %s, %s, %s)", vh.Bytes(data), vh.N(uint64(nb)), vh.N(uint64(nw)), obs), rc)
			if r.c.Rng.Intn(4) != 0 {
				break // the wrong-count variant only for a quarter of the cases
			}
		}
	}
}

// boundaryCorpus: containers whose child count crosses the header-width boundaries (23/24,
// 255/256) in minimal / widened (0x98 nn with nn < 24, 0x99 ..) / 8-byte / indefinite form on
// the tx-bodies, witness-sets, auxiliary, outputs and witness-component containers.  All of it
// runs in Go for every seed; a fixed regression set and a seeded sample also go to Coq.
func (r *runner) boundaryCorpus(fx []blk.Fixture) {
	saved, used := r.coqBudget, r.coqBytes
	r.coqBudget = r.coqBytes + r.c.Pick(45_000, 400_000)
	always := map[string]bool{
		"shelley:boundary:txs:24:indef": true, "mary:boundary:txs:23:wide1": true, "allegra:boundary:txs:24:wide8": true,
	}
	for _, f := range fx {
		if f.Type == 1 {
			for _, n := range blk.BoundaryCounts {
				for mode := 0; mode < blk.NForms; mode++ {
					b, payload, outs := blk.ByronWithTxs(f.Root, n, []int{1, 24, 30}[(n+mode)%3])
					blk.SetForm(payload, mode)
					for _, o := range outs {
						blk.SetForm(o, (mode+n)%blk.NForms)
					}
					r.runBlock(fmt.Sprintf("byron:boundary:txs:%d:%s", n, blk.FormNames[mode]), f.Type, b, false)
				}
			}
			continue
		}
		for level := 0; level < 3; level++ {
			for _, n := range blk.BoundaryCounts {
				for mode := 0; mode < blk.NForms; mode++ {
					for _, bb := range blk.BoundaryBlocks(f, level, n, mode) {
						toCoq := bb.Small && (always[bb.Label] || (level == 0 && r.c.Rng.Intn(r.c.Pick(40, 4)) == 0))
						r.runBlock(bb.Label, bb.Type, bb.Root, toCoq)
					}
				}
			}
		}
	}
	r.coqBudget = saved + (r.coqBytes - used)
}

// ---------------------------------------------------------------------------
// standalone transactions (New<Era>TransactionFromCbor)

type witCborer interface{ WitnessesCbor() []byte }

// runTx decodes one standalone transaction item (optionally followed by trailing bytes)
func (r *runner) runTx(label string, txType uint, exact bool, n int, root *vh.Item, trail []byte, toCoq bool) {
	item := root.Enc()
	data := append(append([]byte(nil), item...), trail...)
	rc := rcase{100 + txType, label, vh.Hex(data)}
	r.c.Begin(rc)
	var tx ledger.Transaction
	var err error
	pan, pv := vh.Recover(func() { tx, err = ledger.NewTransactionFromCbor(txType, data) })
	if pan {
		r.c.Res.Violate("monitor", "panic:NewTransactionFromCbor", fmt.Sprint(pv), rc)
		return
	}
	if err != nil {
		r.rejected++
		return
	}
	r.accepted++
	r.txs++
	nm := blk.NonMinimalContainers(root)
	if nm > 0 {
		r.nonMinimal++
	}
	cls := fmt.Sprintf("tx%d:", txType)
	if nm > 0 {
		cls += "reencoded"
	} else {
		cls += "minimal"
	}
	r.c.Res.Count(rc.Data, nm > 0, cls)
	lay := blk.Layout(root)
	r.stored("tx", tx, item, rc)
	r.reserialise("tx", tx, item, rc)
	bb := sliceOf(item, lay[root.Xs[0]])
	wb := sliceOf(item, lay[root.Xs[1]])
	body := field(tx, "Body")
	r.stored("body", body, bb, rc)
	var witStored []byte
	if txType == 0 {
		if wc, ok := tx.(witCborer); ok {
			witStored = wc.WitnessesCbor()
			if !bytes.Equal(witStored, wb) {
				r.c.Res.Violate("monitor", "stored-bytes:witness-set:ByronTransaction", "WitnessesCbor() is not the input slice at its span", rc)
			}
		}
	} else {
		ws := field(tx, "WitnessSet")
		r.stored("witness-set", ws, wb, rc)
		if c, ok := ws.(cborer); ok {
			witStored = c.Cbor()
		}
	}
	if id := tx.Id(); !bytes.Equal(id.Bytes(), hash256(bb)) {
		r.c.Res.Violate("monitor", "tx-id", "standalone tx: Id() is not Blake2b-256 of the body's wire bytes", rc)
	}
	if h := tx.Hash(); !bytes.Equal(h.Bytes(), hash256(bb)) {
		r.c.Res.Violate("monitor", "tx-hash", "standalone tx: Hash() is not Blake2b-256 of the body's wire bytes", rc)
	}
	// outputs
	var outs []*vh.Item
	if txType == 0 {
		if root.Xs[0].K == vh.KArr && len(root.Xs[0].Xs) >= 2 {
			outs = root.Xs[0].Xs[1].Xs
		}
	} else if a := blk.MapGet(root.Xs[0], 1, false); a != nil {
		outs = a.Xs
	}
	if os_ := tx.Outputs(); len(os_) == len(outs) {
		for j, o := range os_ {
			ob := sliceOf(item, lay[outs[j]])
			r.stored("output", o, ob, rc)
			r.reserialise("output", o, ob, rc)
		}
	}
	if toCoq && r.coqBytes+len(data) <= r.coqBudget {
		r.coqBytes += len(data)
		var bs []byte
		if c, ok := body.(cborer); ok {
			bs = c.Cbor()
		}
		obs := fmt.Sprintf("(Some (%s, %s, %s))", vh.Bytes(tx.Cbor()), vh.Bytes(bs), vh.Bytes(witStored))
		r.txcf.Add(fmt.Sprintf("(%s, %s, %s, %s)", vh.Bool(exact), vh.N(uint64(n)), vh.Bytes(data), obs), rc)
	}
}

// txCorpus: standalone transactions cut from the fixtures (body, witness set, [is_valid], aux / null),
// re-encoded under seeded forms, some followed by trailing bytes
func (r *runner) txCorpus(fx []blk.Fixture, dijkstraTx []byte) {
	saved, used := r.coqBudget, r.coqBytes
	r.coqBudget = r.coqBytes + r.c.Pick(25_000, 250_000)
	for _, f := range fx {
		switch {
		case f.Type == 1:
			for i, pair := range f.Root.Xs[1].Xs[0].Xs {
				for k := 0; k < r.c.Pick(6, 40); k++ {
					t := pair.Clone()
					if k > 0 {
						t = vh.Reform(r.c.Rng, t, reformOpts[r.c.Rng.Intn(len(reformOpts))])
					}
					var trail []byte
					if k%3 == 2 {
						trail = []byte{0x01, 0xff}
					}
					r.runTx(fmt.Sprintf("byron:tx%d:%d", i, k), 0, true, 2, t, trail, k < 3)
				}
			}
		case blk.IsShelleyLike(f.Root):
			for k := 0; k < r.c.Pick(25, 300); k++ {
				i := r.c.Rng.Intn(len(f.Root.Xs[1].Xs))
				parts := []*vh.Item{f.Root.Xs[1].Xs[i].Clone(), f.Root.Xs[2].Xs[i].Clone()}
				exact, n := false, 3
				if f.Type >= 5 {
					parts = append(parts, vh.BoolItem(true))
					exact, n = true, 4
				}
				if aux := blk.MapGet(f.Root.Xs[3], uint64(i), true); aux != nil {
					parts = append(parts, aux.Clone())
				} else {
					parts = append(parts, vh.Null())
				}
				t := vh.A(parts...)
				if k%5 == 4 { // boundary-count outputs array inside a standalone tx
					if arr := blk.WithOutputs(t.Xs[0], blk.BoundaryCounts[r.c.Rng.Intn(4)]); arr != nil {
						blk.SetForm(arr, r.c.Rng.Intn(blk.NForms))
					}
				}
				if k > 0 {
					t = vh.Reform(r.c.Rng, t, reformOpts[r.c.Rng.Intn(len(reformOpts))])
				}
				if k%4 == 1 {
					blk.SetForm(t, 1+r.c.Rng.Intn(3))
				}
				var trail []byte
				if k%3 == 2 {
					trail = []byte{0x01, 0xff}
				}
				r.runTx(fmt.Sprintf("%s:tx%d:%d", f.Name, i, k), f.Type-1, exact, n, t, trail, len(t.Enc()) < 1500)
			}
		}
	}
	if root, n, err := vh.ParseItem(dijkstraTx); err == nil && n == len(dijkstraTx) && root.K == vh.KArr && len(root.Xs) >= 2 {
		for k := 0; k < r.c.Pick(4, 30); k++ {
			t := root
			if k > 0 {
				t = vh.Reform(r.c.Rng, root, reformOpts[r.c.Rng.Intn(len(reformOpts))])
			}
			r.runTx(fmt.Sprintf("dijkstra:tx:%d", k), 7, true, len(root.Xs), t, nil, false)
		}
	}
	r.coqBudget = saved + (r.coqBytes - used)
}

var reformOpts = []vh.ReformOpts{
	{Containers: true, Indef: true, Prob: 30},
	{Containers: true, Indef: true, Ints: true, Strings: true, Tags: true, Prob: 15},
	{Containers: true, Indef: false, Prob: 60, MaxDepth: 3},
	{Containers: true, Indef: true, Prob: 100, MaxDepth: 2},
	{Containers: true, Ints: true, Strings: true, Prob: 8},
	{Ints: true, Prob: 50},
}

func run(c *vh.Ctx) error {
	c.Res.Rule = "real era blocks (Byron..Conway, Dijkstra fixture) and small blocks cut from them (1-3 transactions), each re-encoded by vh.ParseItem -> vh.Reform under seeded header-form choices (wider lengths, indefinite arrays/maps, non-minimal integers/strings/tags); only encodings the era decoder accepts count (SkipBodyHashValidation); distinct by block bytes; non-trivial = at least one non-minimal or indefinite container"
	c.Res.Modelled = []string{
		"fxamacker hands UnmarshalCBOR exactly the item's bytes: a theorem for the model parser (Lib.parse_full_sound), checked for fxamacker by the stored-bytes monitor against an independent walker",
		"Blake2b-256 is a Section variable in C01_hash_binds; the monitor recomputes it with golang.org/x/crypto",
		"Byron and Dijkstra blocks: monitored (stored bytes, hashes, re-serialisation) but ExtractAndSetTransactionCbor is only modelled for the Shelley..Conway layout",
		"histories: SetCbor / SetCborReference are modelled as an allocate-only store (C01.Store: a decode never writes a buffer an earlier decode handed out; theorem C01_retained_stable); the caller's buffer is a heap cell the decode only reads (decode_from / scribble, theorem C01_input_overwrite_stable); the implementation is held to both by the retained-* / retained-input:* monitor keys only (no Coq case file for histories)",
		"block-derived Transaction.Cbor() is assembled (no wire range exists for a Shelley+ transaction inside a block) and is not compared; standalone transactions are (decode_tx models the accept case: era field decoding is abstract)",
	}
	r := &runner{c: c, coqBudget: c.Pick(90_000, 900_000)}
	r.cf = c.NewCaseFile("c01", header)
	r.cf.SetShardSize(c.Pick(14, 40))
	r.txcf = c.NewCaseFile("c01tx", header)
	r.txcf.Func, r.txcf.Type = "tx_mismatches", "txcase"
	r.txcf.SetShardSize(c.Pick(40, 120))
	if c.Replay != "" {
		b, err := os.ReadFile(c.Replay)
		if err != nil {
			return err
		}
		var rp struct {
			Replay rcase `json:"replay"`
		}
		if err := json.Unmarshal(b, &rp); err != nil {
			return err
		}
		root, _, err := vh.ParseItem(vh.UnHex(rp.Replay.Data))
		if err != nil {
			return err
		}
		if rp.Replay.Type >= scribbleTypeBase { // a caller-buffer history for one entry point
			t := rp.Replay.Type - scribbleTypeBase
			r.runScribble(rp.Replay.Label, int(t/100), t%100, root)
			return nil
		}
		if rp.Replay.Type >= retainTypeBase { // a retain history: the first input; the second is derived from it
			r.runRetain(rp.Replay.Label, rp.Replay.Type-retainTypeBase, root)
			return nil
		}
		if rp.Replay.Type >= 100 { // a standalone transaction
			item, n, _ := vh.ParseItem(vh.UnHex(rp.Replay.Data))
			exact, cnt := rp.Replay.Type-100 >= 4 || rp.Replay.Type == 100, len(item.Xs)
			if !exact {
				cnt = 3
			}
			r.runTx(rp.Replay.Label, rp.Replay.Type-100, exact, cnt, item, vh.UnHex(rp.Replay.Data)[n:], true)
			r.txcf.Flush()
			return nil
		}
		r.runBlock(rp.Replay.Label, rp.Replay.Type, root, true)
		r.cf.Flush()
		return nil
	}
	fx := blk.LoadFixtures()
	for _, f := range fx {
		r.runBlock(f.Name+":as-is", f.Type, f.Root, f.Type == 2)
		w := f.Root.Clone()
		w.F = vh.F1
		r.runBlock(f.Name+":outer-98", f.Type, w, f.Type == 4)
		w = f.Root.Clone()
		w.F = vh.Findef
		r.runBlock(f.Name+":outer-9f", f.Type, w, f.Type == 3)
	}
	r.boundaryCorpus(fx)
	r.retainCorpus(fx)
	r.scribbleCorpus(fx)
	dtx, _ := os.ReadFile(blk.Repo() + "/ledger/dijkstra/testdata/cardano_ledger_dijkstra_w30_tx.hex")
	r.txCorpus(fx, vh.UnHex(strings.TrimSpace(string(dtx))))
	for round := 0; round < c.Pick(3, 25); round++ {
		for _, f := range fx {
			o := reformOpts[c.Rng.Intn(len(reformOpts))]
			r.runBlock(fmt.Sprintf("%s:reform%d", f.Name, round), f.Type, vh.Reform(c.Rng, f.Root, o), false)
		}
	}
	for k := 0; k < c.Pick(150, 2500); k++ {
		f := fx[1+c.Rng.Intn(6)]
		n := 1 + c.Rng.Intn(3)
		var idx []int
		for j := 0; j < n; j++ {
			idx = append(idx, c.Rng.Intn(len(f.Root.Xs[1].Xs)))
		}
		small := blk.Subset(f.Root, idx)
		if c.Rng.Intn(6) > 0 {
			small = vh.Reform(c.Rng, small, reformOpts[c.Rng.Intn(len(reformOpts))])
		}
		r.runBlock(fmt.Sprintf("%s:small%v", f.Name, idx), f.Type, small, len(small.Enc()) < 4000)
	}
	r.cf.Flush()
	r.txcf.Flush()
	pct := 0
	if r.accepted > 0 {
		pct = 100 * r.nonMinimal / r.accepted
	}
	c.Res.Notes = append(c.Res.Notes,
		fmt.Sprintf("accepted encodings %d (with >=1 non-minimal/indefinite container: %d = %d%%), rejected by the era decoder (not in the quantifier) %d; %d decoded objects compared; %d standalone transactions", r.accepted, r.nonMinimal, pct, r.rejected, r.objects, r.txs))
	if pct < 60 {
		c.Res.Violate("correspondence", "generator-too-canonical", fmt.Sprintf("only %d%% of accepted cases have a non-minimal container", pct), nil)
	}
	c.Res.Notes = append(c.Res.Notes, fmt.Sprintf("caller-buffer histories (decode from a scratch buffer through block / header / tx / body / witness-set / output / datum-option entry points, observe the object and everything reachable, overwrite or re-use the buffer, observe again): %d, observations re-checked: %d", r.scribbles, r.scribbleObs))
	c.Res.Notes = append(c.Res.Notes, fmt.Sprintf("retain histories (decode A, keep its objects and Cbor() slices, decode B into the same receiver, re-check): %d, retained objects re-checked: %d", r.histories, r.retainedObjs))
	_ = strings.TrimSpace
	return nil
}

func main() { vh.Main(vh.Runner{Property: "C01", Gen: gen, Run: run}) }
