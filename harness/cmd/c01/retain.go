// C01 - histories: objects and byte slices obtained from an earlier decode keep their wire
// bytes when the receiver they came from decodes another object (coq/C01/Store.v is the
// allocate-only store model these histories are checked against).
package main

import (
	"bytes"
	"fmt"

	"github.com/blinklabs-io/gouroboros/cbor"
	"github.com/blinklabs-io/gouroboros/ledger"
	"github.com/blinklabs-io/gouroboros/ledger/common"

	"verifharness/cmd/c07/blk"
	"verifharness/vh"
)

const retainTypeBase = 200 // rcase.Type of a retain history = 200 + block type

// allStrings collects the non-empty definite byte strings below it (depth first)
func allStrings(it *vh.Item, acc []*vh.Item) []*vh.Item {
	if it == nil {
		return acc
	}
	if it.K == vh.KBStr && len(it.Bs) > 0 {
		acc = append(acc, it)
	}
	for _, x := range it.Xs {
		acc = allStrings(x, acc)
	}
	return acc
}

// txItems: the transaction bodies / witness sets of a block tree (nil where the era has none)
func txItems(typ uint, root *vh.Item) (bodies, wits []*vh.Item) {
	switch {
	case typ == 1 && len(root.Xs) == 3 && root.Xs[1].K == vh.KArr && len(root.Xs[1].Xs) > 0:
		for _, pair := range root.Xs[1].Xs[0].Xs {
			if pair.K == vh.KArr && len(pair.Xs) >= 2 {
				bodies = append(bodies, pair.Xs[0])
				wits = append(wits, nil)
			}
		}
	case typ == 8 && len(root.Xs) == 2 && root.Xs[1].K == vh.KArr && len(root.Xs[1].Xs) == 4 && root.Xs[1].Xs[1].K == vh.KArr:
		for _, tx := range root.Xs[1].Xs[1].Xs {
			if tx.K == vh.KArr && len(tx.Xs) == 3 {
				bodies = append(bodies, tx.Xs[0])
				wits = append(wits, tx.Xs[1])
			}
		}
	case typ >= 2 && typ <= 7 && blk.IsShelleyLike(root):
		for i, body := range root.Xs[1].Xs {
			bodies = append(bodies, body)
			wits = append(wits, root.Xs[2].Xs[i])
		}
	}
	return
}

type retained struct {
	kind string
	obj  any    // the retained object (its Cbor() is asked again afterwards)
	got  []byte // the slice Cbor() returned before the second decode (retained, NOT copied)
	want []byte // the wire bytes at the component's span in the first input (private copy)
}

// runRetain: decode A into a fresh block value, keep what it hands out, decode B into the SAME
// value, then everything kept from A must still be A's wire bytes.  B is derived from A:
// variant 0 = same size with one byte of the first byte string of the first transaction body
// (or of the header) changed, variant 1 = A cut down to its first transaction (shorter).
func (r *runner) runRetain(label string, typ uint, root *vh.Item) {
	dataA := root.Enc()
	rc := rcase{retainTypeBase + typ, label, vh.Hex(dataA)}
	r.c.Begin(rc)
	cfg := common.VerifyConfig{SkipBodyHashValidation: true}
	bodies, wits := txItems(typ, root)
	lay := blk.Layout(root)
	for variant := 0; variant < 2; variant++ {
		rootB := root.Clone()
		switch variant {
		case 0:
			// change one byte of a byte string of the first transaction body (or of the header):
			// the first candidate that leaves an accepted encoding
			bb, _ := txItems(typ, rootB)
			var cands []*vh.Item
			if len(bb) > 0 {
				cands = allStrings(bb[0], nil)
			}
			cands = append(cands, allStrings(rootB.Xs[0], nil)...)
			ok := false
			for q, s := range cands {
				if q >= 12 {
					break
				}
				s.Bs[len(s.Bs)/2] ^= 0x01
				if _, e := ledger.NewBlockFromCbor(typ, rootB.Enc(), cfg); e == nil {
					ok = true
					break
				}
				s.Bs[len(s.Bs)/2] ^= 0x01
			}
			if !ok {
				continue
			}
		case 1:
			if !(typ >= 2 && typ <= 7) || len(bodies) < 2 {
				continue
			}
			rootB = blk.Subset(root, []int{0})
		}
		dataB := rootB.Enc()
		if bytes.Equal(dataA, dataB) || len(dataB) > len(dataA) {
			continue
		}
		var b ledger.Block
		var err error
		if pan, _ := vh.Recover(func() { b, err = ledger.NewBlockFromCbor(typ, dataA, cfg) }); pan || err != nil {
			return
		}
		if _, e := ledger.NewBlockFromCbor(typ, dataB, cfg); e != nil {
			continue // B is not an accepted encoding
		}
		// what a caller keeps from the first decode
		var keep []retained
		add := func(kind string, o any, want []byte) {
			c, ok := o.(cborer)
			if !ok || o == nil || c.Cbor() == nil {
				return
			}
			keep = append(keep, retained{kind, o, c.Cbor(), bytes.Clone(want)})
		}
		add("block", b, dataA)
		add("header", b.Header(), sliceOf(dataA, lay[root.Xs[0]]))
		txs := b.Transactions()
		var wantIds [][]byte
		if len(txs) == len(bodies) {
			for i, tx := range txs {
				add("body", field(tx, "Body"), sliceOf(dataA, lay[bodies[i]]))
				if wits[i] != nil {
					add("witness-set", field(tx, "WitnessSet"), sliceOf(dataA, lay[wits[i]]))
				}
				wantIds = append(wantIds, hash256(sliceOf(dataA, lay[bodies[i]])))
			}
		}
		hdrWant := hash256(sliceOf(dataA, lay[root.Xs[0]]))
		hdr := b.Header()
		// the same receiver decodes the next block
		var derr error
		if pan, pv := vh.Recover(func() { _, derr = cbor.Decode(dataB, b) }); pan {
			r.c.Res.Violate("monitor", "panic:redecode:"+typeName(b), fmt.Sprint(pv), rc)
			return
		}
		if derr != nil {
			continue
		}
		r.histories++
		vname := []string{"same-size", "shorter"}[variant]
		for _, k := range keep {
			r.retainedObjs++
			if !bytes.Equal(k.got, k.want) {
				r.c.Res.Violate("monitor", "retained-slice:"+k.kind+":"+typeName(k.obj),
					fmt.Sprintf("%s: the slice %s.Cbor() returned before the receiver decoded another (%s) block no longer holds the wire bytes", label, typeName(k.obj), vname), rc)
			}
			if k.kind == "block" {
				continue // the receiver itself: it now legitimately holds the second block
			}
			if now := k.obj.(cborer).Cbor(); !bytes.Equal(now, k.want) {
				r.c.Res.Violate("monitor", "retained-bytes:"+k.kind+":"+typeName(k.obj),
					fmt.Sprintf("%s: %s kept from the first decode reports other bytes after the receiver decoded another (%s) block", label, typeName(k.obj), vname), rc)
			}
		}
		if len(txs) == len(bodies) {
			for i, tx := range txs {
				if h := tx.Hash(); !bytes.Equal(h.Bytes(), wantIds[i]) {
					r.c.Res.Violate("monitor", "retained-tx-hash", fmt.Sprintf("%s: tx %d kept from the first decode: Hash() is no longer Blake2b-256 of its wire bytes (%s)", label, i, vname), rc)
				}
			}
		}
		if typ >= 2 {
			if h := hdr.Hash(); !bytes.Equal(h.Bytes(), hdrWant) {
				r.c.Res.Violate("monitor", "retained-header-hash", fmt.Sprintf("%s: header kept from the first decode: Hash() changed (%s)", label, vname), rc)
			}
		}
	}
}

// retainCorpus: every fixture as is and under one seeded re-encoding, plus small blocks
func (r *runner) retainCorpus(fx []blk.Fixture) {
	for _, f := range fx {
		r.runRetain(f.Name+":retain:as-is", f.Type, f.Root)
		r.runRetain(f.Name+":retain:reform", f.Type, vh.Reform(r.c.Rng, f.Root, reformOpts[r.c.Rng.Intn(len(reformOpts))]))
	}
	for k := 0; k < r.c.Pick(24, 300); k++ {
		f := fx[1+r.c.Rng.Intn(6)]
		n := 2 + r.c.Rng.Intn(2)
		var idx []int
		for j := 0; j < n; j++ {
			idx = append(idx, r.c.Rng.Intn(len(f.Root.Xs[1].Xs)))
		}
		small := blk.Subset(f.Root, idx)
		if r.c.Rng.Intn(2) > 0 {
			small = vh.Reform(r.c.Rng, small, reformOpts[r.c.Rng.Intn(len(reformOpts))])
		}
		r.runRetain(fmt.Sprintf("%s:retain:small%v", f.Name, idx), f.Type, small)
	}
}
