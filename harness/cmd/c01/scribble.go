// C01 - histories: the CALLER's input buffer.  A decode must not leave the decoded object (or
// anything reachable from it) pointing into the caller's slice: the caller may overwrite or
// reuse that buffer for the next block / transaction (the usual way to stream from disk or a
// socket).  For every decode entry point: decode from a scratch buffer, observe the object and
// every nested component, scribble over the scratch buffer (fill pattern, then a different
// encoding copied in and decoded from the same buffer), observe again.  coq/C01/Store.v:
// `decode_into` never hands out a reference into a buffer it does not own (`input_separate`).
package main

import (
	"bytes"
	"fmt"

	"github.com/blinklabs-io/gouroboros/cbor"
	"github.com/blinklabs-io/gouroboros/ledger"
	"github.com/blinklabs-io/gouroboros/ledger/alonzo"
	"github.com/blinklabs-io/gouroboros/ledger/babbage"
	"github.com/blinklabs-io/gouroboros/ledger/common"
	"github.com/blinklabs-io/gouroboros/ledger/conway"
	"github.com/blinklabs-io/gouroboros/ledger/shelley"

	"verifharness/cmd/c07/blk"
	"verifharness/vh"
)

const scribbleTypeBase = 1000 // rcase.Type = 1000 + entry*100 + era (block type or tx type)

var entryNames = []string{"block", "header", "tx", "body", "witness-set", "output", "datum-option"}

// decodeEntry decodes `buf` through entry point `entry` for the era `era`
func decodeEntry(entry int, era uint, buf []byte) (obj any, err error) {
	switch entry {
	case 0:
		return ledger.NewBlockFromCbor(era, buf, common.VerifyConfig{SkipBodyHashValidation: true})
	case 1:
		return ledger.NewBlockHeaderFromCbor(era, buf)
	case 2:
		return ledger.NewTransactionFromCbor(era, buf)
	case 3:
		return ledger.NewTransactionBodyFromCbor(era, buf)
	case 4:
		var ws any
		switch era { // tx type
		case 1, 2, 3:
			ws = &shelley.ShelleyTransactionWitnessSet{}
		case 4:
			ws = &alonzo.AlonzoTransactionWitnessSet{}
		case 5:
			ws = &babbage.BabbageTransactionWitnessSet{}
		case 6:
			ws = &conway.ConwayTransactionWitnessSet{}
		default:
			return nil, fmt.Errorf("no witness set type")
		}
		_, err = cbor.Decode(buf, ws)
		return ws, err
	case 5:
		return ledger.NewTransactionOutputFromCbor(buf)
	case 6:
		d := &babbage.BabbageTransactionOutputDatumOption{}
		_, err = cbor.Decode(buf, d)
		return d, err
	}
	return nil, fmt.Errorf("no entry")
}

type observer struct {
	name string        // <kind>:<Type>:<what>
	f    func() []byte // the observable
	lazy bool          // first observed only AFTER the scribble; expected = blake2b-256 of `of`
	of   *observer
	rec  []byte
}

type idder interface{ Id() common.Blake2b256 }
type hasher interface{ Hash() common.Blake2b256 }

// observers lists what a caller can see of o and of everything reachable from it
func observers(o any, k int) []*observer {
	var out []*observer
	var addObj func(kind string, x any, depth int)
	addObj = func(kind string, x any, depth int) {
		if x == nil || depth > 3 {
			return
		}
		c, ok := x.(cborer)
		if !ok {
			return
		}
		if pan, _ := vh.Recover(func() { _ = c.Cbor() }); pan {
			return
		}
		tn := kind + ":" + typeName(x)
		cb := &observer{name: tn + ":Cbor", f: func() []byte { return c.Cbor() }}
		out = append(out, cb)
		if kind != "tx" || true {
			out = append(out, &observer{name: tn + ":Encode", f: func() []byte {
				b, err := cbor.Encode(ptrTo(x))
				if err != nil {
					return []byte("error")
				}
				return b
			}})
		}
		lazy := (len(out)+k)%2 == 0
		if kind == "body" {
			if h, ok := x.(idder); ok {
				out = append(out, &observer{name: tn + ":Id", f: func() []byte { v := h.Id(); return v.Bytes() }, lazy: lazy, of: cb})
			}
		}
		if kind == "header" {
			if h, ok := x.(hasher); ok {
				out = append(out, &observer{name: tn + ":Hash", f: func() []byte { v := h.Hash(); return v.Bytes() }, lazy: lazy && typeName(x) != "ByronEpochBoundaryBlockHeader" && typeName(x) != "ByronMainBlockHeader", of: cb})
			}
		}
	}
	var addTx func(tx common.Transaction)
	addOutputs := func(outs []common.TransactionOutput) {
		for _, op := range outs {
			addObj("output", op, 1)
			if pan, _ := vh.Recover(func() {
				if d := op.Datum(); d != nil {
					addObj("datum", d, 2)
				}
			}); pan {
				continue
			}
		}
	}
	addTx = func(tx common.Transaction) {
		body := field(tx, "Body")
		addObj("body", body, 1)
		if ws := field(tx, "WitnessSet"); ws != nil {
			addObj("witness-set", ws, 1)
		}
		vh.Recover(func() { addOutputs(tx.Outputs()) })
	}
	switch x := o.(type) {
	case ledger.Block:
		addObj("block", x, 0)
		addObj("header", x.Header(), 1)
		if ms := field(x, "TransactionMetadataSet"); ms != nil {
			addObj("aux", ms, 1)
		}
		for _, tx := range x.Transactions() {
			addTx(tx)
		}
	case common.Transaction:
		addObj("tx", x, 0)
		addTx(x)
	case common.TransactionBody:
		addObj("body", x, 0)
		vh.Recover(func() { addOutputs(x.Outputs()) })
	case common.TransactionOutput:
		addObj("output", x, 0)
		vh.Recover(func() {
			if d := x.Datum(); d != nil {
				addObj("datum", d, 1)
			}
		})
	case common.BlockHeader:
		addObj("header", x, 0)
	default:
		addObj("object", o, 0)
	}
	return out
}

// mutateForB: another accepted encoding of (nearly) the same shape: one byte of a byte string flipped
func mutateForB(entry int, era uint, root *vh.Item) []byte {
	b := root.Clone()
	for q, s := range allStrings(b, nil) {
		if q >= 10 {
			break
		}
		s.Bs[len(s.Bs)/2] ^= 0x01
		if _, e := decodeEntry(entry, era, b.Enc()); e == nil {
			return b.Enc()
		}
		s.Bs[len(s.Bs)/2] ^= 0x01
	}
	return nil
}

// runScribble: one history for one entry point
func (r *runner) runScribble(label string, entry int, era uint, root *vh.Item) {
	data := root.Enc()
	rc := rcase{scribbleTypeBase + uint(entry)*100 + era, label, vh.Hex(data)}
	r.c.Begin(rc)
	ename := entryNames[entry]
	dataB := mutateForB(entry, era, root)
	for mode := 0; mode < 2; mode++ {
		if mode == 1 && dataB == nil {
			continue
		}
		buf := make([]byte, len(data), len(data)+8)
		copy(buf, data)
		var obj any
		var err error
		if pan, pv := vh.Recover(func() { obj, err = decodeEntry(entry, era, buf) }); pan {
			r.c.Res.Violate("monitor", "panic:decode:"+ename, fmt.Sprint(pv), rc)
			return
		}
		if err != nil || obj == nil {
			return // not an accepted encoding for this entry point
		}
		obs := observers(obj, r.scribbles)
		for _, o := range obs {
			if !o.lazy {
				o.rec = bytes.Clone(o.f())
			}
		}
		// the caller reuses its buffer
		if mode == 0 {
			for i := range buf {
				buf[i] = 0xAA
			}
		} else {
			copy(buf, dataB) // len(dataB) == len(data): same tree, one byte changed
			vh.Recover(func() { _, _ = decodeEntry(entry, era, buf[:len(dataB)]) })
			for i := range buf { // and once more
				buf[i] ^= 0x55
			}
		}
		r.scribbles++
		if r.c.Res.Distribution == nil {
			r.c.Res.Distribution = map[string]int{}
		}
		r.c.Res.Distribution["caller-buffer:"+ename]++
		for _, o := range obs {
			var now []byte
			if pan, pv := vh.Recover(func() { now = o.f() }); pan {
				r.c.Res.Violate("monitor", "retained-input-panic:"+ename+":"+o.name, fmt.Sprint(pv), rc)
				continue
			}
			r.scribbleObs++
			want := o.rec
			if o.lazy {
				want = hash256(o.of.rec)
			}
			if !bytes.Equal(now, want) {
				r.c.Res.Violate("monitor", "retained-input:"+ename+":"+o.name,
					fmt.Sprintf("%s: decoded through %s from a scratch buffer; after the caller overwrote that buffer (%s) %s differs from what it was / from Blake2b-256 of the stored bytes", label, ename, []string{"fill", "next item decoded into it"}[mode], o.name), rc)
			}
		}
	}
}

// scribbleCorpus: every entry point on components cut from the fixtures, as is and re-encoded
func (r *runner) scribbleCorpus(fx []blk.Fixture) {
	re := func(it *vh.Item, k int) *vh.Item {
		if k%2 == 0 {
			return it
		}
		return vh.Reform(r.c.Rng, it, reformOpts[r.c.Rng.Intn(len(reformOpts))])
	}
	for _, f := range fx {
		for k := 0; k < 2; k++ {
			root := re(f.Root, k)
			r.runScribble(fmt.Sprintf("%s:scribble:block:%d", f.Name, k), 0, f.Type, root)
			r.runScribble(fmt.Sprintf("%s:scribble:header:%d", f.Name, k), 1, f.Type, root.Xs[0])
		}
		if !blk.IsShelleyLike(f.Root) {
			if f.Type == 1 { // Byron transactions and outputs
				for i, pair := range f.Root.Xs[1].Xs[0].Xs {
					r.runScribble(fmt.Sprintf("byron:scribble:tx%d", i), 2, 0, pair)
					if pair.Xs[0].K == vh.KArr && len(pair.Xs[0].Xs) >= 2 {
						for j, o := range pair.Xs[0].Xs[1].Xs {
							r.runScribble(fmt.Sprintf("byron:scribble:output%d.%d", i, j), 5, 0, o)
						}
					}
				}
			}
			continue
		}
		txType := f.Type - 1
		n := len(f.Root.Xs[1].Xs)
		for k := 0; k < r.c.Pick(4, 30); k++ {
			i := r.c.Rng.Intn(n)
			body, wit := f.Root.Xs[1].Xs[i], f.Root.Xs[2].Xs[i]
			parts := []*vh.Item{body.Clone(), wit.Clone()}
			if f.Type >= 5 {
				parts = append(parts, vh.BoolItem(true))
			}
			if aux := blk.MapGet(f.Root.Xs[3], uint64(i), true); aux != nil {
				parts = append(parts, aux.Clone())
			} else {
				parts = append(parts, vh.Null())
			}
			r.runScribble(fmt.Sprintf("%s:scribble:tx%d:%d", f.Name, i, k), 2, txType, re(vh.A(parts...), k))
			r.runScribble(fmt.Sprintf("%s:scribble:body%d:%d", f.Name, i, k), 3, txType, re(body, k))
			r.runScribble(fmt.Sprintf("%s:scribble:wits%d:%d", f.Name, i, k), 4, txType, re(wit, k))
			if arr := blk.MapGet(body, 1, false); arr != nil {
				for j, o := range arr.Xs {
					if j >= 3 {
						break
					}
					r.runScribble(fmt.Sprintf("%s:scribble:output%d.%d:%d", f.Name, i, j, k), 5, txType, re(o, k))
					if o.K == vh.KMap { // Babbage+ output: datum option under key 2
						if d := blk.MapGet(o, 2, false); d != nil {
							r.runScribble(fmt.Sprintf("%s:scribble:datumopt%d.%d:%d", f.Name, i, j, k), 6, txType, re(d, k))
						}
					}
				}
			}
		}
		// a small block: every nested output is re-observed
		small := blk.Subset(f.Root, []int{r.c.Rng.Intn(n), r.c.Rng.Intn(n)})
		r.runScribble(f.Name+":scribble:small-block", 0, f.Type, re(small, 1))
	}
}
