// C23 - concurrent callers.  Several goroutines call GetBlock / GetBlockRange
// on ONE client at the same time; busyMutex must serialise them so that each
// call gets exactly the blocks the server sent for ITS request.
//
// The scripted peer identifies a request by its points (every call of a
// scenario has its own points) and answers with that call's reply, whose
// blocks are the call's own fixtures: a block that reaches another call is
// recognised by its hash.  Timers are set to 60 s: no verdict of this class
// depends on timing (a hang is "not returned after 30 s").
package main

import (
	"fmt"
	"strings"
	"sync"
	"time"

	ouroboros "github.com/blinklabs-io/gouroboros"
	"github.com/blinklabs-io/gouroboros/cbor"
	"github.com/blinklabs-io/gouroboros/ledger"
	"github.com/blinklabs-io/gouroboros/protocol/blockfetch"
	pcommon "github.com/blinklabs-io/gouroboros/protocol/common"

	"verifharness/cmd/c23/peer"
	"verifharness/vh"
)

const concHangBound = 30 * time.Second // no protocol timer is shorter than 60 s in this class

const mheader0 = `From Coq Require Import String.
From V Require Import Lib.Base Lib.Hex C23.Model C23.MultiModel.
Local Open Scope string_scope.
`

func mheader() string { return strings.Replace(header(), header0, mheader0, 1) }

// one call of one goroutine
type ccall struct {
	Kind   string   `json:"kind"` // "GB" | "GR"
	P      pt       `json:"p"`
	E      pt       `json:"e"`
	Reply  []string `json:"reply"`
	SlowCb int      `json:"slowcb"`
}

func (c ccall) coq() string { return call{Kind: c.Kind, P: c.P, E: c.E}.coq() }
func (c ccall) key() string {
	e := c.E
	if c.Kind == "GB" {
		e = c.P
	}
	return fmt.Sprintf("%d/%s-%d/%s", c.P.Slot, c.P.Hash, e.Slot, e.Hash)
}

type cscenario struct {
	Threads [][]ccall `json:"threads"`
}

type coutcome struct {
	Events   []string   `json:"events"`
	Order    [][2]int   `json:"order"` // (thread, call index) in the order the peer read the requests
	Results  [][]string `json:"results"`
	Hung     bool       `json:"hung"`
	Evidence []string   `json:"evidence"`
	Unknown  int        `json:"unknown_requests"`
}

func genConcurrent(r *vh.Rng, nthreads int) cscenario {
	var sc cscenario
	// fixtures are dealt out so that every GetBlock of the scenario asks for a different block
	perm := []int{0, 1, 2, 3, 4, 5, 6}
	for i := len(perm) - 1; i > 0; i-- {
		j := r.Intn(i + 1)
		perm[i], perm[j] = perm[j], perm[i]
	}
	nextFix, synth := 0, 0
	for t := 0; t < nthreads; t++ {
		n := 1 + r.Intn(2)
		var prog []ccall
		for k := 0; k < n; k++ {
			synth++
			sp := pt{Slot: uint64(1000 + synth), Hash: fmt.Sprintf("%064x", 0xabc000+synth)}
			switch {
			case r.Chance(1, 2) && nextFix < len(perm):
				f := perm[nextFix]
				nextFix++
				fx := fixtures[f]
				prog = append(prog, ccall{Kind: "GB", P: pt{fx.Slot, fx.Hash}, Reply: []string{"SB", fmt.Sprintf("B%d", f), "BD"}})
			case r.Chance(1, 6):
				prog = append(prog, ccall{Kind: "GB", P: sp, Reply: []string{"NB"}})
			case r.Chance(1, 8):
				prog = append(prog, ccall{Kind: "GR", P: sp, E: sp, Reply: []string{"NB"}})
			default:
				rep := []string{"SB"}
				for i, m := 0, r.Intn(4); i < m; i++ {
					rep = append(rep, fmt.Sprintf("B%d", r.Intn(7)))
				}
				rep = append(rep, "BD")
				synth++
				ep := pt{Slot: uint64(1000 + synth), Hash: fmt.Sprintf("%064x", 0xabc000+synth)}
				prog = append(prog, ccall{Kind: "GR", P: sp, E: ep, Reply: rep, SlowCb: r.Intn(3) * r.Intn(8)})
			}
		}
		sc.Threads = append(sc.Threads, prog)
	}
	return sc
}

func runConcurrent(sc cscenario) (out coutcome) {
	lg := &peer.Log{}
	p := peer.New(true)
	defer p.Close()
	type ref struct{ t, k int }
	byKey := map[string]ref{}
	for t, prog := range sc.Threads {
		for k, c := range prog {
			byKey[c.key()] = ref{t, k}
		}
	}
	var mu sync.Mutex
	var curSlow int
	p.OnMsg = func(proto uint16, mt uint, raw []byte) {
		if proto != blockfetch.ProtocolId || mt != 0 {
			return
		}
		var req []any
		var pts [2]pt
		if _, err := cbor.Decode(raw, &req); err == nil && len(req) == 3 {
			for i := 0; i < 2; i++ {
				if a, ok := req[i+1].([]any); ok && len(a) == 2 {
					if s, ok := a[0].(uint64); ok {
						pts[i].Slot = s
					}
					if h, ok := a[1].([]byte); ok {
						pts[i].Hash = vh.Hex(h)
					}
				}
			}
		}
		r, ok := byKey[fmt.Sprintf("%d/%s-%d/%s", pts[0].Slot, pts[0].Hash, pts[1].Slot, pts[1].Hash)]
		if !ok {
			mu.Lock()
			out.Unknown++
			mu.Unlock()
			return
		}
		c := sc.Threads[r.t][r.k]
		mu.Lock()
		out.Order = append(out.Order, [2]int{r.t, r.k})
		curSlow = c.SlowCb
		mu.Unlock()
		lg.Add("wire %d %d", r.t, r.k)
		for _, m := range c.Reply {
			if err := p.Send(blockfetch.ProtocolId, encodeMsg(m)); err != nil {
				return
			}
		}
	}
	cfg := blockfetch.Config{
		BlockFunc: func(ctx blockfetch.CallbackContext, typ uint, b ledger.Block) error {
			mu.Lock()
			s := curSlow
			mu.Unlock()
			if s > 0 {
				time.Sleep(time.Duration(s) * 100 * time.Microsecond)
			}
			lg.Add("cbblock %d %s", b.SlotNumber(), vh.Hex(b.Hash().Bytes()))
			return nil
		},
		BatchDoneFunc: func(ctx blockfetch.CallbackContext) error {
			lg.Add("cbdone")
			return nil
		},
		BatchStartTimeout: 60 * time.Second,
		BlockTimeout:      60 * time.Second,
		RecvQueueSize:     blockfetch.DefaultRecvQueueSize,
	}
	oConn, err := ouroboros.New(
		ouroboros.WithConnection(p.Client),
		ouroboros.WithNetworkMagic(peer.Magic),
		ouroboros.WithNodeToNode(true),
		ouroboros.WithKeepAlive(false),
		ouroboros.WithBlockFetchConfig(cfg),
	)
	if err != nil {
		out.Results = [][]string{{"connect-error: " + err.Error()}}
		return
	}
	go func() {
		for range oConn.ErrorChan() {
		}
	}()
	cl := oConn.BlockFetch().Client
	out.Results = make([][]string, len(sc.Threads))
	var wg sync.WaitGroup
	start := make(chan struct{})
	for t := range sc.Threads {
		wg.Add(1)
		go func(t int) {
			defer wg.Done()
			<-start
			for k, c := range sc.Threads[t] {
				var res string
				lg.Add("call %d %d", t, k)
				if c.Kind == "GB" {
					b, err := cl.GetBlock(pcommon.NewPoint(c.P.Slot, vh.UnHex(c.P.Hash)))
					if err != nil {
						res = classify(err)
					} else if b == nil {
						res = "EOther:nil block"
					} else {
						res = fmt.Sprintf("B %d %s", b.SlotNumber(), vh.Hex(b.Hash().Bytes()))
					}
				} else {
					err := cl.GetBlockRange(pcommon.NewPoint(c.P.Slot, vh.UnHex(c.P.Hash)), pcommon.NewPoint(c.E.Slot, vh.UnHex(c.E.Hash)))
					if err != nil {
						res = classify(err)
					} else {
						res = "OK"
					}
				}
				lg.Add("ret %d %d %s", t, k, res)
				mu.Lock()
				out.Results[t] = append(out.Results[t], res)
				mu.Unlock()
			}
		}(t)
	}
	returned := peer.WaitOrHang(concHangBound, func() { close(start); wg.Wait() })
	if !returned {
		out.Hung = true
		for _, g := range peer.Stacks("blockfetch.(*Client)") {
			lines := strings.Split(g, "\n")
			if len(lines) > 7 {
				lines = lines[:7]
			}
			out.Evidence = append(out.Evidence, strings.Join(lines, " | "))
		}
		out.Events = lg.Snapshot()
		return
	}
	// callbacks of a trailing range: wait until as many as the served ranges announce have arrived
	want := 0
	mu.Lock()
	for _, o := range out.Order {
		c := sc.Threads[o[0]][o[1]]
		if c.Kind == "GR" && c.Reply[0] == "SB" {
			want += len(c.Reply) - 1
		}
	}
	mu.Unlock()
	deadline := time.Now().Add(40 * time.Second)
	for time.Now().Before(deadline) {
		n := 0
		for _, e := range lg.Snapshot() {
			if strings.HasPrefix(e, "cb") {
				n++
			}
		}
		if n >= want {
			break
		}
		time.Sleep(2 * time.Millisecond)
	}
	time.Sleep(3 * time.Millisecond) // a surplus callback would show up here
	out.Events = lg.Snapshot()
	done := make(chan struct{})
	go func() { oConn.Close(); close(done) }()
	select {
	case <-done:
	case <-time.After(3 * time.Second):
	}
	return
}

// the property on a concurrent history: every call gets ITS OWN blocks
func monitorConcurrent(c *vh.Ctx, sc cscenario, out coutcome) (shutdown bool) {
	rep := map[string]any{"concurrent": sc, "outcome": out}
	v := func(key, what string) { c.Res.Violate("monitor", key, what, rep) }
	if out.Hung {
		v("concurrent:calls-never-returned", fmt.Sprintf("concurrent GetBlock/GetBlockRange calls had not all returned after 30 s although the server answered every request it received; stacks: %v", out.Evidence))
		return
	}
	// blocks that belong to a call: the fixtures named in its reply
	owns := func(cc ccall, hash string) bool {
		for _, m := range cc.Reply {
			if strings.HasPrefix(m, "B") && len(m) == 2 && fixtures[int(m[1]-'0')].Hash == hash {
				return true
			}
		}
		return false
	}
	for t, prog := range sc.Threads {
		for k, cc := range prog {
			if k >= len(out.Results[t]) {
				v("concurrent:result-missing", fmt.Sprintf("thread %d call %d has no result", t, k))
				return
			}
			res := out.Results[t][k]
			if res == "EShutdown" {
				shutdown = true
				continue
			}
			want := ""
			switch {
			case cc.Reply[0] == "NB":
				want = "ENotFound"
			case cc.Kind == "GR":
				want = "OK"
			default:
				want = fmt.Sprintf("B %d %s", cc.P.Slot, cc.P.Hash)
			}
			if res == want {
				continue
			}
			if f := strings.Fields(res); len(f) == 3 && f[0] == "B" && !owns(cc, f[2]) {
				v("concurrent:call-got-foreign-block", fmt.Sprintf("thread %d call %d: GetBlock(%d, %s) returned block %s %s, which the server sent in reply to ANOTHER call's request", t, k, cc.P.Slot, cc.P.Hash, f[1], f[2]))
			} else {
				v("concurrent:result-differs", fmt.Sprintf("thread %d call %d (%s): result %q, expected %q", t, k, cc.Kind, res, want))
			}
		}
	}
	if shutdown {
		// the protocol stopped (only a 60 s timer or a connection error can do that here): no further judgement
		c.Res.Distribution["concurrent-shutdown"]++
		return
	}
	// callbacks: in the order in which the peer served the requests, each range's own blocks then BatchDone,
	// contiguous (two batches never interleave), nothing for GetBlock calls
	var want []string
	var owner []string
	for _, o := range out.Order {
		cc := sc.Threads[o[0]][o[1]]
		if cc.Kind != "GR" || cc.Reply[0] != "SB" {
			continue
		}
		for _, m := range cc.Reply[1:] {
			if m == "BD" {
				want = append(want, "cbdone")
			} else {
				f := fixtures[int(m[1]-'0')]
				want = append(want, fmt.Sprintf("cbblock %d %s", f.Slot, f.Hash))
			}
			owner = append(owner, fmt.Sprintf("thread %d call %d", o[0], o[1]))
		}
	}
	var got []string
	for _, e := range out.Events {
		if strings.HasPrefix(e, "cb") {
			got = append(got, e)
		}
	}
	for i := 0; i < len(want) || i < len(got); i++ {
		if i < len(want) && i < len(got) && want[i] == got[i] {
			continue
		}
		w, g, ow := "<nothing>", "<nothing>", "no call"
		if i < len(want) {
			w, ow = want[i], owner[i]
		}
		if i < len(got) {
			g = got[i]
		}
		key := "concurrent:callbacks-differ"
		if strings.HasPrefix(g, "cbblock") {
			key = "concurrent:call-got-foreign-block"
		}
		v(key, fmt.Sprintf("callback %d is %q; the batch being served (%s) has %q at this position", i, g, ow, w))
		break
	}
	// requests on the wire: every call exactly once
	if n := len(out.Order); n != countCalls(sc) || out.Unknown > 0 {
		v("concurrent:requests-differ", fmt.Sprintf("the peer read %d known and %d unknown requests for %d calls", n, out.Unknown, countCalls(sc)))
	}
	return
}

func countCalls(sc cscenario) int {
	n := 0
	for _, p := range sc.Threads {
		n += len(p)
	}
	return n
}

func coqConcurrent(sc cscenario, out coutcome) string {
	var progs, script, order, obs []string
	for _, prog := range sc.Threads {
		var cs []string
		for _, c := range prog {
			cs = append(cs, c.coq())
		}
		progs = append(progs, vh.List(cs))
	}
	for _, o := range out.Order {
		for _, m := range sc.Threads[o[0]][o[1]].Reply {
			script = append(script, coqMsg(m))
		}
		order = append(order, fmt.Sprintf("%d%%nat", o[0]))
	}
	for _, e := range out.Events {
		f := strings.Fields(e)
		var t, k int
		switch f[0] {
		case "call":
			fmt.Sscan(f[1], &t)
			fmt.Sscan(f[2], &k)
			obs = append(obs, fmt.Sprintf("OCall %d%%nat (%s)", t, sc.Threads[t][k].coq()))
		case "wire":
			fmt.Sscan(f[1], &t)
			fmt.Sscan(f[2], &k)
			obs = append(obs, "OWire ("+sc.Threads[t][k].coq()+")")
		case "cbblock":
			var slot uint64
			fmt.Sscan(f[1], &slot)
			obs = append(obs, "OCbBlock "+coqBlk(slot, vh.UnHex(f[2])))
		case "cbdone":
			obs = append(obs, "OCbDone")
		case "ret":
			fmt.Sscan(f[1], &t)
			fmt.Sscan(f[2], &k)
			r := ""
			switch {
			case f[3] == "OK":
				r = "ROk"
			case f[3] == "B":
				var slot uint64
				fmt.Sscan(f[4], &slot)
				r = "(RBlock " + coqBlk(slot, vh.UnHex(f[5])) + ")"
			default:
				r = "(RErr " + f[3] + ")"
			}
			obs = append(obs, fmt.Sprintf("ORet %d%%nat (%s) %s", t, sc.Threads[t][k].coq(), r))
		}
	}
	return fmt.Sprintf("{| mc_progs := %s; mc_script := %s; mc_order := %s; mc_obs := %s |}",
		vh.List(progs), vh.List(script), vh.List(order), vh.List(obs))
}

func runConcurrentOne(c *vh.Ctx, cf *vh.CaseFile, sc cscenario) (hung bool) {
	c.Begin(map[string]any{"concurrent": sc})
	out := runConcurrent(sc)
	canon := fmt.Sprintf("%v", sc)
	c.Res.Count("concurrent:"+canon, true, "concurrent-callers")
	if len(out.Results) == 1 && len(out.Results[0]) == 1 && strings.HasPrefix(out.Results[0][0], "connect-error") {
		return false
	}
	shutdown := monitorConcurrent(c, sc, out)
	other := false
	for _, rs := range out.Results {
		for _, r := range rs {
			if strings.HasPrefix(r, "EOther") {
				other = true
			}
		}
	}
	// a history goes to the Coq model when it is complete (every call returned) - also when the
	// monitor objected: the model then has to reject it as well
	if !out.Hung && !other && !shutdown {
		cf.Add(coqConcurrent(sc, out), map[string]any{"concurrent": sc, "outcome": out})
	}
	return out.Hung
}

func concurrentClass(c *vh.Ctx) {
	cf := c.NewCaseFile("c23m", mheader())
	cf.Func, cf.Type = "mmismatches", "mcase"
	cf.SetShardSize(40)
	n := c.Pick(24, 240)
	for i := 0; i < n; i++ {
		if runConcurrentOne(c, cf, genConcurrent(c.Rng, 4)) {
			break // a hang is a violation with a replay; do not pay the bound again in this run
		}
	}
	cf.Flush()
}
