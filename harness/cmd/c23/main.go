// C23 - block-fetch returns the blocks that were asked for.
//
// A raw scripted peer (package peer) plays the server with every batch shape;
// the real client (ouroboros.Connection + blockfetch.Client) runs a program of
// GetBlock / GetBlockRange calls.  The ordered history of observable events
// (call, wire request, BlockFunc, BatchDoneFunc, return) is (1) judged by a
// monitor written from the property text and (2) replayed through the Coq LTS
// of the client (coq/C23/Model.v, fixed variant).
package main

import (
	"bytes"
	"reflect"
	"encoding/binary"
	"encoding/json"
	"errors"
	"fmt"
	"os"
	"path/filepath"
	"strings"
	"time"

	ouroboros "github.com/blinklabs-io/gouroboros"
	"github.com/blinklabs-io/gouroboros/cbor"
	"github.com/blinklabs-io/gouroboros/ledger"
	"github.com/blinklabs-io/gouroboros/protocol"
	"github.com/blinklabs-io/gouroboros/protocol/blockfetch"
	pcommon "github.com/blinklabs-io/gouroboros/protocol/common"

	"verifharness/cmd/c23/peer"
	"verifharness/vh"
)

const header0 = `From Coq Require Import String.
From V Require Import Lib.Base Lib.Hex C23.Model.
Local Open Scope string_scope.
`

// the fixture hashes are defined once per case file (hex literals are the
// expensive part of parsing a case file)
func header() string {
	var sb strings.Builder
	sb.WriteString(header0)
	for i, f := range fixtures {
		fmt.Fprintf(&sb, "Definition fh%d : bytes := Eval vm_compute in %s.\nDefinition fb%d : blk := {| bslot := %s; bhash := fh%d |}.\n",
			i, vh.Bytes(vh.UnHex(f.Hash)), i, vh.N(f.Slot), i)
	}
	return sb.String()
}

// mainnet facts about the fixture blocks (from the explorer, see
// internal/testdata/blocks.go) - the oracle for slot and hash is this table,
// not the decoder.
type fixture struct {
	Name string
	Type uint
	Slot uint64
	Hash string
	Raw  []byte
}

var fixtures = []*fixture{
	{Name: "byron", Type: 1, Slot: 4471207, Hash: "1451a0dbf16cfeddf4991a838961df1b08a68f43a19c0eb3b36cc4029c77a2d8"},
	{Name: "shelley", Type: 2, Slot: 16156972, Hash: "2308cdd4c0bf8b8bf92523bdd1dd31640c0f42ff079d985fcc07c36cbf915c2b"},
	{Name: "allegra", Type: 3, Slot: 23068573, Hash: "8115134ab013f6a5fd88fd2a10825177a2eedcde31cb2f1f35e492df469cf9a8"},
	{Name: "mary", Type: 4, Slot: 39916670, Hash: "d36ab36f451e9fcbd4247daef45ce5be9a4b918fce5ee97a63b8aeac606fca03"},
	{Name: "alonzo", Type: 5, Slot: 72316767, Hash: "1d7974cb01cc9e3fbe9dd7594795a36b21cb1deb2f1b70a0625332c91bd7e5a7"},
	{Name: "babbage", Type: 6, Slot: 76204984, Hash: "db19fcfaba30607e363113b0a13616e6a9da5aa48b86ec2c033786f0a2e13f7d"},
	{Name: "conway", Type: 7, Slot: 159835207, Hash: "27807a70215e3e018eec9be8c619c692e06a78ebcb63daf90d7abe823f3bbf47"},
}

func loadFixtures() error {
	repo := os.Getenv("VERIF_REPO")
	if repo == "" {
		repo = "/repo"
	}
	for _, f := range fixtures {
		b, err := os.ReadFile(filepath.Join(repo, "internal/testdata", f.Name+"_block.hex"))
		if err != nil {
			return err
		}
		f.Raw = vh.UnHex(string(b))
	}
	return nil
}

// ---- wire encodings written by hand (independent of protocol/blockfetch/messages.go)

func cborHead(major byte, n uint64) []byte {
	switch {
	case n < 24:
		return []byte{major<<5 | byte(n)}
	case n < 1<<8:
		return []byte{major<<5 | 24, byte(n)}
	case n < 1<<16:
		b := []byte{major<<5 | 25, 0, 0}
		binary.BigEndian.PutUint16(b[1:], uint16(n))
		return b
	case n < 1<<32:
		b := []byte{major<<5 | 26, 0, 0, 0, 0}
		binary.BigEndian.PutUint32(b[1:], uint32(n))
		return b
	}
	b := []byte{major<<5 | 27, 0, 0, 0, 0, 0, 0, 0, 0}
	binary.BigEndian.PutUint64(b[1:], n)
	return b
}

func msgBlock(typ uint, raw []byte) []byte {
	wrapped := append([]byte{0x82}, cborHead(0, uint64(typ))...)
	wrapped = append(wrapped, raw...)
	out := []byte{0x82, 0x04, 0xd8, 0x18}
	out = append(out, cborHead(2, uint64(len(wrapped)))...)
	return append(out, wrapped...)
}

// server message of a script: "SB", "NB", "BD", "B<i>" (fixture i), "BX" (undecodable block)
func encodeMsg(m string) []byte {
	switch {
	case m == "SB":
		return []byte{0x81, 0x02}
	case m == "NB":
		return []byte{0x81, 0x03}
	case m == "BD":
		return []byte{0x81, 0x05}
	case m == "BX":
		return msgBlock(7, []byte{0x80})
	case strings.HasPrefix(m, "B"):
		f := fixtures[int(m[1]-'0')]
		return msgBlock(f.Type, f.Raw)
	}
	panic("bad script message " + m)
}

func coqMsg(m string) string {
	switch {
	case m == "SB":
		return "StartBatch"
	case m == "NB":
		return "NoBlocks"
	case m == "BD":
		return "BatchDone"
	case m == "BX":
		return "Block None"
	}
	f := fixtures[int(m[1]-'0')]
	return "Block (Some " + coqBlk(f.Slot, vh.UnHex(f.Hash)) + ")"
}

func coqBlk(slot uint64, hash []byte) string {
	for i, f := range fixtures {
		if f.Slot == slot && f.Hash == vh.Hex(hash) {
			return fmt.Sprintf("fb%d", i)
		}
	}
	return fmt.Sprintf("{| bslot := %s; bhash := %s |}", vh.N(slot), vh.Bytes(hash))
}
func coqPoint(p pt) string {
	for i, f := range fixtures {
		if f.Hash == p.Hash {
			return fmt.Sprintf("{| pslot := %s; phash := fh%d |}", vh.N(p.Slot), i)
		}
	}
	return fmt.Sprintf("{| pslot := %s; phash := %s |}", vh.N(p.Slot), vh.Bytes(vh.UnHex(p.Hash)))
}

type pt struct {
	Slot uint64 `json:"slot"`
	Hash string `json:"hash"`
}

// one API call of the client program with the reply the server will give
type call struct {
	Kind   string   `json:"kind"` // "GB" | "GR"
	P      pt       `json:"p"`
	E      pt       `json:"e"`
	Reply  []string `json:"reply"`
	Stall  bool     `json:"stall"`  // the server goes silent after Reply
	SlowCb int      `json:"slowcb"` // BlockFunc sleeps this many 100us units
	Class  string   `json:"class"`
}

func (c call) coq() string {
	if c.Kind == "GB" {
		return "GetBlock " + coqPoint(c.P)
	}
	return "GetRange " + coqPoint(c.P) + " " + coqPoint(c.E)
}

// the optional callbacks of blockfetch.Config (zero value = BlockFunc + BatchDoneFunc, the
// configuration every earlier scenario used)
type cfgT struct {
	NoBlock bool `json:"no_block"` // BlockFunc nil
	Raw     bool `json:"raw"`      // BlockRawFunc set
	NoDone  bool `json:"no_done"`  // BatchDoneFunc nil
}

func (g cfgT) hasBlockCb() bool { return !g.NoBlock || g.Raw }
func (g cfgT) coq() string {
	return fmt.Sprintf("{| cfg_block := %s; cfg_raw := %s; cfg_done := %s |}", vh.Bool(!g.NoBlock), vh.Bool(g.Raw), vh.Bool(!g.NoDone))
}

// does this block message end the protocol in callback (range) mode?
func (g cfgT) blockKills(m string) bool {
	if g.NoBlock && !g.Raw {
		return true // "no callback function is defined"
	}
	return m == "BX" && !g.NoBlock // decode error; BlockRawFunc alone never decodes
}

type scenario struct {
	Prog []call `json:"prog"`
	Cfg  cfgT   `json:"cfg"`
}

// knownConfigFields: every field of blockfetch.Config must be classified here; a new
// optional callback (func / pointer / interface field) is reported until it is.
var knownConfigFields = map[string]string{
	"BlockFunc": "scenario cfg", "BlockRawFunc": "scenario cfg", "BatchDoneFunc": "scenario cfg",
	"RequestRangeFunc": "server side", "Pipeline": "block pipeline: not covered by C23 (see notes)",
	"BatchStartTimeout": "value", "BlockTimeout": "value", "RecvQueueSize": "value", "SkipBlockValidation": "value",
}

func checkConfigFields(c *vh.Ctx) {
	t := reflect.TypeOf(blockfetch.Config{})
	for i := 0; i < t.NumField(); i++ {
		f := t.Field(i)
		if _, ok := knownConfigFields[f.Name]; !ok {
			c.Res.Violate("correspondence", "config-new-field:"+f.Name,
				fmt.Sprintf("blockfetch.Config has a field %s (%s) that the C23 scenarios do not enumerate: the model's config record must be extended", f.Name, f.Type), nil)
		}
	}
}

type outcome struct {
	Events   []string `json:"events"`
	Sent     []string `json:"sent"`
	Hung     bool     `json:"hung"`
	HangCall int      `json:"hang_call"`
	Evidence []string `json:"evidence"`
	Results  []string `json:"results"`
}

const hangBound = 12 * time.Second // >= 5 s and >= 3x the configured protocol timeouts (1 s); generous for loaded machines

func classify(err error) string {
	if err == nil {
		return ""
	}
	s := err.Error()
	switch {
	case errors.Is(err, protocol.ErrProtocolShuttingDown):
		return "EShutdown"
	case s == "block(s) not found":
		return "ENotFound"
	case strings.Contains(s, "without returning the requested block"):
		return "ENoBlock"
	case strings.Contains(s, "more than the one requested block"):
		return "EExtra"
	case strings.Contains(s, "does not match the requested point"):
		return "EMismatch"
	}
	return "EOther:" + s
}

func runScenario(sc scenario) (out outcome) {
	lg := &peer.Log{}
	p := peer.New(true)
	defer p.Close()
	reqN := 0
	var wirePts [][2]pt
	p.OnMsg = func(proto uint16, mt uint, raw []byte) {
		if proto != blockfetch.ProtocolId || mt != 0 {
			return
		}
		// decode the points generically
		var req []any
		var pts [2]pt
		if _, err := cbor.Decode(raw, &req); err == nil && len(req) == 3 {
			for i := 0; i < 2; i++ {
				if a, ok := req[i+1].([]any); ok && len(a) == 2 {
					if s, ok := a[0].(uint64); ok {
						pts[i].Slot = s
					}
					if h, ok := a[1].([]byte); ok {
						pts[i].Hash = vh.Hex(h)
					}
				}
			}
		}
		wirePts = append(wirePts, pts)
		i := reqN
		reqN++
		lg.Add("wire %d", i)
		if i >= len(sc.Prog) {
			return
		}
		for _, m := range sc.Prog[i].Reply {
			out.Sent = append(out.Sent, m)
			if err := p.Send(blockfetch.ProtocolId, encodeMsg(m)); err != nil {
				return
			}
		}
	}
	cur := 0
	slow := func() {
		if cur < len(sc.Prog) && sc.Prog[cur].SlowCb > 0 {
			time.Sleep(time.Duration(sc.Prog[cur].SlowCb) * 100 * time.Microsecond)
		}
	}
	cfg := blockfetch.Config{
		BatchStartTimeout: time.Second,
		BlockTimeout:      time.Second,
		RecvQueueSize:     blockfetch.DefaultRecvQueueSize,
	}
	if !sc.Cfg.NoBlock {
		cfg.BlockFunc = func(ctx blockfetch.CallbackContext, typ uint, b ledger.Block) error {
			slow()
			if sc.Cfg.Raw {
				lg.Add("#unexpected BlockFunc although BlockRawFunc is set")
			}
			lg.Add("cbblock %d %s", b.SlotNumber(), vh.Hex(b.Hash().Bytes()))
			return nil
		}
	}
	if sc.Cfg.Raw {
		cfg.BlockRawFunc = func(ctx blockfetch.CallbackContext, typ uint, raw []byte) error {
			slow()
			// identify the block by its bytes (the raw callback gets no decoded block)
			for _, f := range fixtures {
				if f.Type == typ && bytes.Equal(f.Raw, raw) {
					lg.Add("cbblock %d %s", f.Slot, f.Hash)
					return nil
				}
			}
			lg.Add("cbblock 0 -")
			return nil
		}
	}
	if !sc.Cfg.NoDone {
		cfg.BatchDoneFunc = func(ctx blockfetch.CallbackContext) error {
			lg.Add("cbdone")
			return nil
		}
	}
	oConn, err := ouroboros.New(
		ouroboros.WithConnection(p.Client),
		ouroboros.WithNetworkMagic(peer.Magic),
		ouroboros.WithNodeToNode(true),
		ouroboros.WithKeepAlive(false),
		ouroboros.WithBlockFetchConfig(cfg),
	)
	if err != nil {
		out.Results = append(out.Results, "connect-error: "+err.Error())
		return
	}
	go func() {
		for e := range oConn.ErrorChan() {
			if e != nil {
				lg.Add("#err %s", e.Error())
			}
		}
	}()
	cl := oConn.BlockFetch().Client
	expectedCb := 0
	for i, c := range sc.Prog {
		cur = i
		var res string
		lg.Add("call %d", i)
		returned := peer.WaitOrHang(hangBound, func() {
			if c.Kind == "GB" {
				b, err := cl.GetBlock(pcommon.NewPoint(c.P.Slot, vh.UnHex(c.P.Hash)))
				if err != nil {
					res = classify(err)
				} else if b == nil {
					res = "EOther:nil block"
				} else {
					res = fmt.Sprintf("B %d %s", b.SlotNumber(), vh.Hex(b.Hash().Bytes()))
				}
			} else {
				err := cl.GetBlockRange(pcommon.NewPoint(c.P.Slot, vh.UnHex(c.P.Hash)), pcommon.NewPoint(c.E.Slot, vh.UnHex(c.E.Hash)))
				if err != nil {
					res = classify(err)
				} else {
					res = "OK"
				}
			}
			lg.Add("ret %d %s", i, res)
		})
		if !returned {
			out.Hung, out.HangCall = true, i
			for _, g := range peer.Stacks("blockfetch.(*Client)") {
				// keep the head of each relevant stack: state + top frames
				lines := strings.Split(g, "\n")
				if len(lines) > 14 {
					lines = lines[:14]
				}
				out.Evidence = append(out.Evidence, strings.Join(lines, " | "))
			}
			break
		}
		out.Results = append(out.Results, res)
		if c.Kind == "GR" && res == "OK" {
			// callbacks that MUST still come: the decodable blocks up to the first message that
			// is not a block, plus the BatchDone if it ends the batch regularly
			for _, m := range c.Reply[1:] {
				if m == "BD" {
					if !sc.Cfg.NoDone {
						expectedCb++
					}
					break
				}
				if !strings.HasPrefix(m, "B") || sc.Cfg.blockKills(m) {
					break
				}
				expectedCb++
			}
		}
	}
	// let the callbacks of a trailing range finish (bounded; only matters when they never come)
	wait := 15 * time.Second // generous: only reached when callbacks never come
	if cbTimedOut {
		wait = time.Second // pay the long bound once per run
	}
	deadline := time.Now().Add(wait)
	got := false
	for time.Now().Before(deadline) {
		n := 0
		for _, e := range lg.Snapshot() {
			if strings.HasPrefix(e, "cb") {
				n++
			}
		}
		if n >= expectedCb {
			got = true
			break
		}
		time.Sleep(2 * time.Millisecond)
	}
	if !got {
		cbTimedOut = true
	}
	if !out.Hung {
		time.Sleep(3 * time.Millisecond) // a surplus callback would show up here
	}
	out.Events = lg.Snapshot()
	// wire points must be the requested ones
	for i, w := range wirePts {
		if i < len(sc.Prog) {
			c := sc.Prog[i]
			e := c.E
			if c.Kind == "GB" {
				e = c.P
			}
			if w[0] != c.P || w[1] != e {
				out.Results = append(out.Results, fmt.Sprintf("wire-points-differ:%d", i))
			}
		}
	}
	if !out.Hung {
		done := make(chan struct{})
		go func() { oConn.Close(); close(done) }()
		select {
		case <-done:
		case <-time.After(3 * time.Second):
		}
	}
	return
}

// ---- monitor: the property statement, evaluated on the history -------------

func fixtureByHash(h string) *fixture {
	for _, f := range fixtures {
		if f.Hash == h {
			return f
		}
	}
	return nil
}

// conforming reply = SB B* BD or NB
func wantSingle(c call) string {
	r := c.Reply
	if c.Stall {
		return "EShutdown"
	}
	if len(r) == 1 && r[0] == "NB" {
		return "ENotFound"
	}
	if len(r) < 2 || r[0] != "SB" {
		return "EShutdown"
	}
	body := r[1:]
	n := 0
	for n < len(body) && strings.HasPrefix(body[n], "B") && body[n] != "BD" && body[n] != "BX" {
		n++
	}
	if n != len(body)-1 || body[n] != "BD" {
		return "EShutdown" // undecodable block or state-machine violation
	}
	switch {
	case n == 0:
		return "ERR" // any error
	case n > 1:
		return "ERR"
	}
	f := fixtures[int(body[0][1]-'0')]
	if f.Slot == c.P.Slot && f.Hash == c.P.Hash {
		return fmt.Sprintf("B %d %s", f.Slot, f.Hash)
	}
	return "ERR"
}

func monitor(c *vh.Ctx, sc scenario, out outcome) {
	rep := map[string]any{"scenario": sc, "outcome": out}
	if out.Hung {
		cl := sc.Prog[out.HangCall]
		blockedCaller, blockedHandler := false, false
		for _, e := range out.Evidence {
			if strings.Contains(e, "GetBlock") && (strings.Contains(e, "[select") || strings.Contains(e, "[chan receive")) {
				blockedCaller = true
			}
			if (strings.Contains(e, "handleBlock") || strings.Contains(e, "handleBatchDone")) &&
				(strings.Contains(e, "[select") || strings.Contains(e, "[chan send")) {
				blockedHandler = true
			}
		}
		key := "call-not-returned-" + cl.Class
		for _, e := range out.Evidence {
			if strings.Contains(e, "acquireBusy") && strings.Contains(e, "Mutex.Lock") {
				// the caller waits for the busy token and no handler is running: the previous range never released it
				key = "busy-never-released-after-range"
			}
		}
		if blockedCaller && blockedHandler {
			switch cl.Class {
			case "gb-nobatch":
				key = "getblock-startbatch-batchdone-hangs"
			case "gb-multi":
				key = "getblock-two-blocks-hangs"
			default:
				key = "hang-" + cl.Class
			}
		}
		c.Res.Violate("monitor", key, fmt.Sprintf("call %d (%s, reply %v) had not returned after %s; caller blocked on channel: %v, handler blocked on channel: %v (goroutine dump in replay; for the two GetBlock hang keys the pinned-tree model has the stuck state: C23_single_total_refuted_*)",
			out.HangCall, cl.Kind, cl.Reply, hangBound, blockedCaller, blockedHandler), rep)
		return
	}
	dead := false  // protocol stopped by an earlier error
	fuzzy := false // a surplus message of an earlier violating reply may still be queued
	conformingOnly := true
	for _, cl := range sc.Prog {
		switch cl.Class {
		case "gb-violation", "gr-violation", "gb-undecodable", "gr-undecodable", "gb-stall", "gr-stall":
			conformingOnly = false
		}
	}
	if !sc.Cfg.hasBlockCb() {
		conformingOnly = false // the first block of a range ends the protocol: only the core checks and the model judge it
	}
	for i, cl := range sc.Prog {
		if i >= len(out.Results) {
			break
		}
		got := out.Results[i]
		if fuzzy {
			// only the core of the property is judged after a violating reply
			if strings.HasPrefix(got, "B ") {
				var slot uint64
				var h string
				fmt.Sscanf(got, "B %d %s", &slot, &h)
				if h != cl.P.Hash || slot != cl.P.Slot {
					c.Res.Violate("monitor", "getblock-returns-unrequested-block", fmt.Sprintf("GetBlock(slot %d, hash %s) returned block slot %d hash %s", cl.P.Slot, cl.P.Hash, slot, h), rep)
				}
			}
			continue
		}
		if cl.Class == "gr-violation" {
			fuzzy = true
		}
		if strings.HasPrefix(got, "EOther") || strings.HasPrefix(got, "wire-points") || strings.HasPrefix(got, "connect-error") {
			c.Res.Violate("monitor", "unexpected-error-"+cl.Class, "call returned an unclassified error: "+got, rep)
			continue
		}
		if dead {
			if got != "EShutdown" {
				c.Res.Violate("monitor", "call-after-shutdown-"+cl.Class, "call after protocol shutdown returned "+got, rep)
			}
			continue
		}
		if cl.Kind == "GB" {
			want := wantSingle(cl)
			ok := got == want || (want == "ERR" && strings.HasPrefix(got, "E"))
			if strings.HasPrefix(got, "B ") {
				// the heart of the property: a returned block has the requested hash and slot
				var slot uint64
				var h string
				fmt.Sscanf(got, "B %d %s", &slot, &h)
				if h != cl.P.Hash || slot != cl.P.Slot {
					c.Res.Violate("monitor", "getblock-returns-unrequested-block",
						fmt.Sprintf("GetBlock(slot %d, hash %s) returned block slot %d hash %s with err == nil (reply %v)", cl.P.Slot, cl.P.Hash, slot, h, cl.Reply), rep)
					ok = true
				}
			}
			if !ok {
				c.Res.Violate("monitor", "getblock-result-"+cl.Class, fmt.Sprintf("GetBlock with reply %v returned %q, required %q", cl.Reply, got, want), rep)
			}
			if got == "EShutdown" {
				dead = true
			}
		} else {
			want := "OK"
			switch {
			case len(cl.Reply) == 1 && cl.Reply[0] == "NB":
				want = "ENotFound"
			case len(cl.Reply) == 0 || cl.Reply[0] != "SB":
				want = "EShutdown"
			}
			if got != want {
				c.Res.Violate("monitor", "range-result-"+cl.Class, fmt.Sprintf("GetBlockRange with reply %v returned %q, required %q", cl.Reply, got, want), rep)
			}
			if got == "EShutdown" {
				dead = true
			}
			for _, m := range cl.Reply {
				if cl.Stall || (strings.HasPrefix(m, "B") && m != "BD" && sc.Cfg.blockKills(m)) {
					dead = true
				}
			}
			if n := len(cl.Reply); n > 0 && cl.Reply[0] == "SB" && cl.Reply[n-1] != "BD" {
				dead = true
			}
		}
	}
	// callbacks: exactly the decodable blocks of the range batches, in order, BatchDone last; none for GetBlock
	var wantCb []string
	stop := false
	for i, cl := range sc.Prog {
		if stop || i >= len(out.Results) {
			break
		}
		if cl.Kind != "GR" || out.Results[i] != "OK" {
			if out.Results[i] == "EShutdown" {
				stop = true
			}
			continue
		}
		for _, m := range cl.Reply[1:] {
			if m == "BD" {
				if !sc.Cfg.NoDone {
					wantCb = append(wantCb, "cbdone")
				}
				break
			}
			if !strings.HasPrefix(m, "B") || sc.Cfg.blockKills(m) {
				stop = true
				break
			}
			if m == "BX" {
				wantCb = append(wantCb, "cbblock 0 -")
				continue
			}
			f := fixtures[int(m[1]-'0')]
			wantCb = append(wantCb, fmt.Sprintf("cbblock %d %s", f.Slot, f.Hash))
		}
		if cl.Stall {
			stop = true
		}
	}
	var gotCb []string
	for _, e := range out.Events {
		if strings.HasPrefix(e, "cb") {
			gotCb = append(gotCb, e)
		}
	}
	if conformingOnly && strings.Join(gotCb, ";") != strings.Join(wantCb, ";") {
		c.Res.Violate("monitor", "range-callbacks-differ", fmt.Sprintf("callback sequence %v, served %v", gotCb, wantCb), rep)
	}
	// busy: the request after a range goes on the wire only after that range's BatchDone callback
	if conformingOnly && !sc.Cfg.NoDone {
		done := 0
		for _, e := range out.Events {
			f := strings.Fields(e)
			switch f[0] {
			case "cbdone":
				done++
			case "wire":
				var j int
				fmt.Sscan(f[1], &j)
				need := 0
				for i := 0; i < j && i < len(out.Results); i++ {
					if sc.Prog[i].Kind == "GR" && out.Results[i] == "OK" {
						need++
					}
				}
				if done < need {
					c.Res.Violate("monitor", "request-sent-while-batch-in-progress", "a RequestRange went on the wire before the BatchDone callback of the previous range", rep)
				}
			}
		}
	}
}

// ---- generator ----------------------------------------------------------------

var skipClass = map[string]bool{}
var hungCfg = map[cfgT]bool{} // configurations whose follow-up call hung in this run (paid once)
var cbTimedOut bool

func genCall(r *vh.Rng, forceClass string) call {
	f := r.Intn(len(fixtures))
	fx := fixtures[f]
	match := pt{fx.Slot, fx.Hash}
	classes := []string{"gb-ok", "gb-ok", "gb-notfound", "gb-nobatch", "gb-mismatch", "gb-mismatch-slot", "gb-multi",
		"gb-undecodable", "gb-violation", "gb-stall", "gr-ok", "gr-ok", "gr-ok", "gr-notfound", "gr-empty", "gr-undecodable", "gr-stall", "gr-violation"}
	cl := forceClass
	if cl == "" {
		cl = classes[r.Intn(len(classes))]
	}
	if skipClass[cl] {
		cl = "gb-ok"
	}
	B := func(i int) string { return fmt.Sprintf("B%d", i) }
	c := call{Kind: "GB", P: match, Class: cl}
	switch cl {
	case "gb-ok":
		c.Reply = []string{"SB", B(f), "BD"}
	case "gb-notfound":
		c.Reply = []string{"NB"}
	case "gb-nobatch":
		c.Reply = []string{"SB", "BD"}
	case "gb-mismatch":
		// random point, or another fixture's point: any real block is served
		if k := r.Intn(3); k == 0 {
			// right slot, wrong hash
			c.P = pt{fx.Slot, vh.Hex(r.Bytes(32))}
		} else if k == 1 {
			c.P = pt{12345 + uint64(r.Intn(1000)), vh.Hex(r.Bytes(32))}
			if r.Intn(3) == 0 {
				c.P.Hash = strings.Repeat("00", 32)
			}
		} else {
			o := fixtures[(f+1+r.Intn(len(fixtures)-1))%len(fixtures)]
			c.P = pt{o.Slot, o.Hash}
		}
		c.Reply = []string{"SB", B(f), "BD"}
	case "gb-mismatch-slot":
		c.P = pt{fx.Slot + 1 + uint64(r.Intn(5)), fx.Hash}
		c.Reply = []string{"SB", B(f), "BD"}
	case "gb-multi":
		k := 2 + r.Intn(3)
		c.Reply = []string{"SB"}
		for i := 0; i < k; i++ {
			if i == 0 || r.Intn(2) == 0 {
				c.Reply = append(c.Reply, B(f))
			} else {
				c.Reply = append(c.Reply, B(r.Intn(len(fixtures))))
			}
		}
		c.Reply = append(c.Reply, "BD")
	case "gb-undecodable":
		c.Reply = []string{"SB", "BX", "BD"}
	case "gb-violation":
		c.Reply = [][]string{{"BD"}, {B(f)}, {"SB", "SB"}, {"SB", B(f), "NB"}, {"SB", "NB"}}[r.Intn(5)]
	case "gb-stall":
		c.Reply = [][]string{{}, {"SB"}, {"SB", B(f)}}[r.Intn(3)]
		c.Stall = true
	default:
		c.Kind = "GR"
		o := fixtures[r.Intn(len(fixtures))]
		c.E = pt{o.Slot, o.Hash}
		c.SlowCb = r.Intn(4) * r.Intn(8)
		n := r.Intn(7)
		blocks := []string{}
		for i := 0; i < n; i++ {
			blocks = append(blocks, B(r.Intn(len(fixtures))))
		}
		switch cl {
		case "gr-ok":
			c.Reply = append(append([]string{"SB"}, blocks...), "BD")
		case "gr-empty":
			c.Reply = []string{"SB", "BD"}
		case "gr-notfound":
			c.Reply = []string{"NB"}
		case "gr-undecodable":
			c.Reply = append(append([]string{"SB"}, blocks...), "BX", B(f), "BD")
		case "gr-stall":
			c.Reply = append([]string{"SB"}, blocks...)
			c.Stall = true
		case "gr-violation":
			c.Reply = append(append([]string{"SB"}, blocks...), [][]string{{"NB"}, {"SB"}, {"BD", "BD"}}[r.Intn(3)]...)
		}
	}
	return c
}

func isSlow(c call) bool { return c.Stall }

// every scenario ends with a conforming GetBlock on the same client: whatever happened before,
// it must return within the hang bound (with the block, or with an error if the protocol died)
func withFollowup(r *vh.Rng, sc scenario) scenario {
	f := genCall(r, "gb-ok")
	f.Class = "gb-followup"
	sc.Prog = append(sc.Prog, f)
	return sc
}

// the client configuration is part of the scenario
func genCfg(r *vh.Rng) cfgT {
	g := cfgT{NoDone: r.Intn(3) == 0}
	switch r.Intn(8) {
	case 0, 1:
		g.Raw = true // both callbacks: the raw one is called, the block is still decoded
	case 2, 3:
		g.Raw, g.NoBlock = true, true // raw only: never decodes
	case 4:
		g.NoBlock = true // neither: the first block of a range is an error
	}
	if hungCfg[g] {
		return cfgT{}
	}
	return g
}

// ---- Coq case ----------------------------------------------------------------

func coqCase(sc scenario, out outcome) string {
	var prog, script, obs []string
	for _, c := range sc.Prog {
		prog = append(prog, c.coq())
	}
	for _, m := range out.Sent {
		script = append(script, coqMsg(m))
	}
	for _, e := range out.Events {
		f := strings.Fields(e)
		switch f[0] {
		case "#err":
			// connection-level error text: evidence only, not an observable
		case "call":
			var i int
			fmt.Sscan(f[1], &i)
			obs = append(obs, "LCall ("+sc.Prog[i].coq()+")")
		case "wire":
			var i int
			fmt.Sscan(f[1], &i)
			if i < len(sc.Prog) {
				obs = append(obs, "LWire ("+sc.Prog[i].coq()+")")
			}
		case "cbblock":
			var slot uint64
			fmt.Sscan(f[1], &slot)
			if f[2] == "-" {
				obs = append(obs, "LCbBlock rawnone") // BlockRawFunc was handed bytes that are no fixture
			} else {
				obs = append(obs, "LCbBlock "+coqBlk(slot, vh.UnHex(f[2])))
			}
		case "cbdone":
			obs = append(obs, "LCbDone")
		case "ret":
			var i int
			fmt.Sscan(f[1], &i)
			r := ""
			switch {
			case f[2] == "OK":
				r = "ROk"
			case f[2] == "B":
				var slot uint64
				fmt.Sscan(f[3], &slot)
				r = "(RBlock " + coqBlk(slot, vh.UnHex(f[4])) + ")"
			case strings.HasPrefix(f[2], "EOther"):
				r = "(RErr EOther)" // not a constructor: the case fails to type-check, as it should
			default:
				r = "(RErr " + f[2] + ")"
			}
			obs = append(obs, "LRet ("+sc.Prog[i].coq()+") "+r)
		}
	}
	return fmt.Sprintf("{| c_cfg := %s; c_prog := %s; c_script := %s; c_obs := %s; c_hung := %s |}",
		sc.Cfg.coq(), vh.List(prog), vh.List(script), vh.List(obs), vh.Bool(out.Hung))
}

func runOne(c *vh.Ctx, cf *vh.CaseFile, sc scenario) {
	c.Begin(sc)
	out := runScenario(sc)
	canon, _ := json.Marshal(sc)
	classes := []string{}
	nontrivial := false
	for _, cl := range sc.Prog {
		classes = append(classes, cl.Class)
		if cl.Class != "gb-ok" && cl.Class != "gb-followup" {
			nontrivial = true
		}
	}
	for _, cl := range sc.Prog {
		c.Res.Count(string(canon), nontrivial, cl.Class)
		break
	}
	for _, cl := range sc.Prog[1:] {
		c.Res.Distribution[cl.Class]++
	}
	if out.Hung {
		// do not pay the hang bound again for the same shape in this run
		if sc.Prog[out.HangCall].Class == "gb-followup" {
			hungCfg[sc.Cfg] = true
		} else {
			skipClass[sc.Prog[out.HangCall].Class] = true
		}
	}
	monitor(c, sc, out)
	hasOther := false
	for _, r := range out.Results {
		if strings.HasPrefix(r, "EOther") || strings.HasPrefix(r, "connect-error") {
			hasOther = true
		}
	}
	if !hasOther {
		cf.Add(coqCase(sc, out), map[string]any{"scenario": sc, "outcome": out})
	}
	c.Res.Sample(map[string]any{"classes": classes, "results": out.Results, "events": len(out.Events), "hung": out.Hung})
}

func run(c *vh.Ctx) error {
	if err := loadFixtures(); err != nil {
		return err
	}
	// the fixture table must agree with the decoder (otherwise the harness, not the client, is wrong)
	for _, f := range fixtures {
		b, err := ledger.NewBlockFromCbor(f.Type, f.Raw)
		if err != nil || vh.Hex(b.Hash().Bytes()) != f.Hash || b.SlotNumber() != f.Slot {
			return fmt.Errorf("fixture %s does not decode to its mainnet slot/hash: %v", f.Name, err)
		}
		if !bytes.Equal(b.Cbor(), f.Raw) {
			return fmt.Errorf("fixture %s: Cbor() differs", f.Name)
		}
	}
	c.Res.Rule = "concurrent-callers class: one connection, 4 goroutines each making 1-2 GetBlock/GetBlockRange calls at once on the same client, every call with its own points and its own reply blocks (the scripted peer answers a request by its points), slow callbacks, 60 s timers so that no verdict depends on timing; sequential classes: a scenario = one connection, a client configuration (BlockFunc / BlockRawFunc / BatchDoneFunc each present or absent; blockfetch.Config is enumerated by reflection), a program of 1-4 GetBlock/GetBlockRange calls followed by a conforming follow-up GetBlock that must return, one scripted server reply per request from 18 classes (conforming single block of 7 eras, NoBlocks, StartBatch+BatchDone, non-matching hash, right hash wrong slot, 2-4 blocks, undecodable block, state-machine violations, stalls, ranges of 0-6 real blocks with slow callbacks); distinct by the JSON of the scenario; non-trivial = any call other than a conforming single GetBlock"
	c.Res.Modelled = []string{
		"the protocol engine (protocol.go) is abstracted in the LTS: agency-gated FIFO delivery, handler error = stop, doneChan closes only after recvLoop returns (engine itself: C11-C13)",
		"user callbacks return nil and terminate; the optional callbacks BlockFunc / BlockRawFunc / BatchDoneFunc are part of the scenario (all 8 combinations); config.Pipeline is not covered",
		"Client.Start/Stop lifecycle is not part of the model",
	}
	checkConfigFields(c)
	cf := c.NewCaseFile("c23", header())
	cf.SetShardSize(60)
	if c.Replay != "" {
		b, err := os.ReadFile(c.Replay)
		if err != nil {
			return err
		}
		var rp struct {
			Replay struct {
				Scenario   scenario   `json:"scenario"`
				Prog       []call     `json:"prog"`
				Concurrent *cscenario `json:"concurrent"`
			} `json:"replay"`
		}
		if err := json.Unmarshal(b, &rp); err != nil {
			return err
		}
		if rp.Replay.Concurrent != nil {
			cfm := c.NewCaseFile("c23m", mheader())
			cfm.Func, cfm.Type = "mmismatches", "mcase"
			runConcurrentOne(c, cfm, *rp.Replay.Concurrent)
			cfm.Flush()
			return nil
		}
		sc := rp.Replay.Scenario
		if len(sc.Prog) == 0 {
			sc.Prog = rp.Replay.Prog
		}
		runOne(c, cf, sc)
		cf.Flush()
		return nil
	}
	// regression corpus first: the three probes of DESIGN.md section 7
	conway := fixtures[6]
	zero := pt{12345, strings.Repeat("00", 32)}
	runOne(c, cf, scenario{Prog: []call{{Kind: "GB", P: zero, Reply: []string{"SB", "B6", "BD"}, Class: "gb-mismatch"}}})
	runOne(c, cf, scenario{Prog: []call{{Kind: "GB", P: pt{conway.Slot, conway.Hash}, Reply: []string{"SB", "BD"}, Class: "gb-nobatch"}}})
	runOne(c, cf, scenario{Prog: []call{{Kind: "GB", P: pt{conway.Slot, conway.Hash}, Reply: []string{"SB", "B6", "B5", "BD"}, Class: "gb-multi"}}})
	// every class alone, then followed by a conforming call (is the client still usable?)
	for _, cl := range []string{"gb-ok", "gb-notfound", "gb-nobatch", "gb-mismatch", "gb-mismatch-slot", "gb-multi", "gb-undecodable",
		"gb-violation", "gr-ok", "gr-notfound", "gr-empty", "gr-undecodable", "gr-violation"} {
		runOne(c, cf, scenario{Prog: []call{genCall(c.Rng, cl)}})
		runOne(c, cf, withFollowup(c.Rng, scenario{Prog: []call{genCall(c.Rng, cl), genCall(c.Rng, "gb-ok"), genCall(c.Rng, "gr-ok")}}))
	}
	// every configuration of the optional callbacks: a range, a second range, a GetBlock, then the follow-up
	for _, g := range []cfgT{{NoDone: true}, {Raw: true}, {Raw: true, NoBlock: true}, {Raw: true, NoBlock: true, NoDone: true},
		{Raw: true, NoDone: true}, {NoBlock: true}, {NoBlock: true, NoDone: true}} {
		runOne(c, cf, withFollowup(c.Rng, scenario{Cfg: g, Prog: []call{genCall(c.Rng, "gr-ok"), genCall(c.Rng, "gr-ok"), genCall(c.Rng, "gb-ok")}}))
		runOne(c, cf, withFollowup(c.Rng, scenario{Cfg: g, Prog: []call{genCall(c.Rng, "gr-undecodable"), genCall(c.Rng, "gr-empty")}}))
	}
	n := c.Pick(160, 1500)
	stalls := 0
	maxStalls := c.Pick(3, 12)
	for i := 0; i < n; i++ {
		k := 1 + c.Rng.Intn(4)
		var sc scenario
		for j := 0; j < k; j++ {
			cl := genCall(c.Rng, "")
			if isSlow(cl) {
				if stalls >= maxStalls {
					cl = genCall(c.Rng, "gr-ok")
				} else {
					stalls++
				}
			}
			sc.Prog = append(sc.Prog, cl)
		}
		sc.Cfg = genCfg(c.Rng)
		runOne(c, cf, withFollowup(c.Rng, sc))
	}
	cf.Flush()
	// concurrent callers: 4 goroutines x mixed GetBlock / GetBlockRange on one client
	concurrentClass(c)
	return nil
}

func main() { vh.Main(vh.Runner{Property: "C23", Run: run}) }
