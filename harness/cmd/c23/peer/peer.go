// Package peer is a raw scripted/dynamic Ouroboros peer over net.Pipe that is
// independent of the repository's muxer and protocol engine: it speaks the
// mux framing itself (4-byte timestamp, 2-byte protocol id with the top bit
// as the response flag, 2-byte payload length) and answers the handshake.
// The harnesses of C21, C23 and C25 use it as the (conforming or adversarial)
// SERVER; everything the peer sees and does is recorded in one ordered event
// log together with the events of the client side (calls, returns, callbacks).
package peer

import (
	"bytes"
	"encoding/binary"
	"fmt"
	"io"
	"net"
	"runtime"
	"strings"
	"sync"
	"time"

	"github.com/blinklabs-io/gouroboros/cbor"
	"github.com/blinklabs-io/gouroboros/protocol"
	"github.com/blinklabs-io/gouroboros/protocol/handshake"
)

const Magic uint32 = 764824073

// Log is an ordered, mutex-protected event log shared by the peer and the
// client-side observers.  The order of Add calls is a linearisation that is
// consistent with happens-before of each goroutine's own events.
type Log struct {
	mu  sync.Mutex
	evs []string
}

func (l *Log) Add(format string, a ...any) {
	l.mu.Lock()
	l.evs = append(l.evs, fmt.Sprintf(format, a...))
	l.mu.Unlock()
}

func (l *Log) Snapshot() []string {
	l.mu.Lock()
	defer l.mu.Unlock()
	return append([]string(nil), l.evs...)
}

// Peer is the server end.
type Peer struct {
	Client net.Conn // hand this to ouroboros.WithConnection
	conn   net.Conn
	wmu    sync.Mutex
	bufs   map[uint16]*bytes.Buffer
	// OnMsg is called (sequentially, from the peer's reader goroutine) for
	// every complete CBOR message the client sends on a mini-protocol other
	// than the handshake.
	OnMsg func(proto uint16, msgType uint, raw []byte)
	NtN   bool
	done  chan struct{}
	once  sync.Once
}

// New creates the pipe and starts the reader.  OnMsg must be set before the
// client sends its first non-handshake message (set it before ouroboros.New).
func New(ntn bool) *Peer {
	p := &Peer{bufs: map[uint16]*bytes.Buffer{}, NtN: ntn, done: make(chan struct{})}
	p.Client, p.conn = net.Pipe()
	go p.readLoop()
	return p
}

func (p *Peer) Close() {
	p.once.Do(func() {
		close(p.done)
		p.conn.Close()
		p.Client.Close()
	})
}

func (p *Peer) readLoop() {
	hdr := make([]byte, 8)
	for {
		if _, err := io.ReadFull(p.conn, hdr); err != nil {
			return
		}
		id := binary.BigEndian.Uint16(hdr[4:6]) & 0x7fff
		n := int(binary.BigEndian.Uint16(hdr[6:8]))
		payload := make([]byte, n)
		if _, err := io.ReadFull(p.conn, payload); err != nil {
			return
		}
		b := p.bufs[id]
		if b == nil {
			b = bytes.NewBuffer(nil)
			p.bufs[id] = b
		}
		b.Write(payload)
		for b.Len() > 0 {
			var raw cbor.RawMessage
			k, err := cbor.Decode(b.Bytes(), &raw)
			if err != nil {
				break // incomplete message: wait for the next segment
			}
			msg := append([]byte(nil), b.Bytes()[:k]...)
			b.Next(k)
			mt, err := cbor.DecodeIdFromList(msg)
			if err != nil {
				continue
			}
			if id == handshake.ProtocolId {
				p.answerHandshake()
				continue
			}
			if p.OnMsg != nil {
				p.OnMsg(id, uint(mt), msg)
			}
		}
	}
}

func (p *Peer) answerHandshake() {
	var msg protocol.Message
	if p.NtN {
		msg = handshake.NewMsgAcceptVersion(13, protocol.VersionDataNtN13andUp{
			VersionDataNtN11to12: protocol.VersionDataNtN11to12{
				CborNetworkMagic:                       Magic,
				CborInitiatorAndResponderDiffusionMode: protocol.DiffusionModeInitiatorOnly,
				CborPeerSharing:                        protocol.PeerSharingModePeerSharingPublic,
				CborQuery:                              protocol.QueryModeDisabled,
			},
		})
	} else {
		msg = handshake.NewMsgAcceptVersion(14+protocol.ProtocolVersionNtCOffset, protocol.VersionDataNtC9to14(Magic))
	}
	data, err := cbor.Encode(msg)
	if err != nil {
		panic(err)
	}
	p.Send(handshake.ProtocolId, data)
}

// Send writes payload (one or more concatenated CBOR messages) as responder
// segments of the given mini-protocol, split at the 65535-byte segment limit.
func (p *Peer) Send(proto uint16, payload []byte) error {
	p.wmu.Lock()
	defer p.wmu.Unlock()
	for first := true; first || len(payload) > 0; first = false {
		n := len(payload)
		if n > 65535 {
			n = 65535
		}
		hdr := make([]byte, 8)
		binary.BigEndian.PutUint32(hdr[0:4], uint32(time.Now().UnixNano()))
		binary.BigEndian.PutUint16(hdr[4:6], proto|0x8000)
		binary.BigEndian.PutUint16(hdr[6:8], uint16(n))
		p.conn.SetWriteDeadline(time.Now().Add(20 * time.Second))
		if _, err := p.conn.Write(append(hdr, payload[:n]...)); err != nil {
			return err
		}
		payload = payload[n:]
	}
	return nil
}

// SendMsgs encodes and sends messages one segment each (or all in one
// segment when coalesce is set).
func (p *Peer) SendMsgs(proto uint16, coalesce bool, msgs ...protocol.Message) error {
	var all []byte
	for _, m := range msgs {
		data := m.Cbor()
		if data == nil {
			var err error
			data, err = cbor.Encode(m)
			if err != nil {
				return err
			}
		}
		if coalesce {
			all = append(all, data...)
			continue
		}
		if err := p.Send(proto, data); err != nil {
			return err
		}
	}
	if coalesce && len(all) > 0 {
		return p.Send(proto, all)
	}
	return nil
}

// Stacks returns the stacks of all goroutines whose dump contains every one
// of the given substrings.
func Stacks(must ...string) []string {
	buf := make([]byte, 4<<20)
	n := runtime.Stack(buf, true)
	var out []string
	for _, g := range strings.Split(string(buf[:n]), "\n\n") {
		ok := true
		for _, m := range must {
			if !strings.Contains(g, m) {
				ok = false
				break
			}
		}
		if ok {
			out = append(out, g)
		}
	}
	return out
}

// WaitOrHang runs f in a goroutine and waits for it for at most bound.
// It reports whether f returned.
func WaitOrHang(bound time.Duration, f func()) bool {
	ch := make(chan struct{})
	go func() { defer close(ch); f() }()
	select {
	case <-ch:
		return true
	case <-time.After(bound):
		return false
	}
}
