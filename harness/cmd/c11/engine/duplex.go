package engine

import (
	"bytes"
	"fmt"
	"net"
	"time"

	"github.com/blinklabs-io/gouroboros/muxer"
	"github.com/blinklabs-io/gouroboros/protocol"

	"verifharness/vh"
)

// Duplex is two REAL engines (client and server protocol.Protocol, each over
// its own real muxer) connected by an in-memory connection.
type Duplex struct {
	A, B *Session // A = client, B = server
	ca   net.Conn
	cb   net.Conn
}

func newSide(p Proto, server bool, conn net.Conn, rq int) *Session {
	s := &Session{Proto: p, Server: server, RqCap: rq,
		msgs: map[protocol.Message]*MsgInfo{}, byId: map[uint64]*MsgInfo{}, peerDone: make(chan struct{})}
	close(s.peerDone)
	s.stateMap = CopyMapNoTimeouts(p.Map)
	s.Mux = muxer.New(conn)
	s.Mux.SetDiffusionMode(muxer.DiffusionModeInitiatorAndResponder)
	s.ErrChan = make(chan error, 10)
	role := protocol.ProtocolRoleClient
	if server {
		role = protocol.ProtocolRoleServer
	}
	s.P = protocol.New(protocol.ProtocolConfig{
		Name: p.Name, ProtocolId: 77, ErrorChan: s.ErrChan, Muxer: s.Mux,
		Mode: protocol.ProtocolModeNodeToNode, Role: role,
		MessageHandlerFunc: s.handler, MessageFromCborFunc: s.decode,
		StateMap: s.stateMap, InitialState: initState(p), RecvQueueSize: rq,
	})
	return s
}

func NewDuplex(p Proto, rqa, rqb int) *Duplex {
	ca, cb := net.Pipe()
	d := &Duplex{ca: ca, cb: cb}
	d.A = newSide(p, false, ca, rqa)
	d.B = newSide(p, true, cb, rqb)
	protocol.VerifSetSink(func(ev protocol.VerifEvent) {
		d.A.sink(ev)
		d.B.sink(ev)
	})
	d.A.P.Start()
	d.B.P.Start()
	d.A.Mux.Start()
	d.B.Mux.Start()
	return d
}

func (s *Session) handlerCalls() int {
	s.gateMu.Lock()
	defer s.gateMu.Unlock()
	return s.hcalls
}

// closeSide stops one side without the raw-peer parts of Session.Close.
func (s *Session) stopSide() {
	s.P.VerifNote(noteStop, 0, nil)
	done := make(chan struct{})
	go func() { s.P.Stop(); close(done) }()
	select {
	case <-done:
	case <-time.After(300 * time.Millisecond):
	}
	s.P.VerifNote(noteMuxDone, 0, nil)
	s.Mux.Stop()
	select {
	case <-done:
	case <-time.After(3 * time.Second):
	}
	select {
	case <-s.P.DoneChan():
	case <-time.After(3 * time.Second):
	}
}

func (s *Session) takeEvents() []Event {
	s.mu.Lock()
	ev := append([]Event(nil), s.events...)
	s.mu.Unlock()
	sortEvents(ev)
	return ev
}

type convMsg struct {
	Type   uint8
	Raw    []byte
	Client bool // sent by the client
}

// genConversation walks the real state map from the initial state.
func genConversation(p Proto, r *vh.Rng, n int) []convMsg {
	sm := CopyMapNoTimeouts(p.Map)
	st := initState(p)
	var out []convMsg
	for i := 0; i < n; i++ {
		e := sm[st]
		if e.Agency == protocol.AgencyNone || len(e.Transitions) == 0 {
			break
		}
		t := e.Transitions[r.Intn(len(e.Transitions))]
		// do not finish too early: avoid transitions into terminal states until the end
		for tries := 0; tries < 4 && i < n-1 && sm[t.NewState].Agency == protocol.AgencyNone; tries++ {
			t = e.Transitions[r.Intn(len(e.Transitions))]
		}
		size := 3 + r.Intn(60)
		if r.Chance(1, 5) {
			size = 200 + r.Intn(3000)
		}
		if r.Chance(1, 25) {
			size = 66000 + r.Intn(5000) // more than one segment
		}
		raw := rawFor(p, t.MsgType, size, r)
		if e.PendingMessageByteLimit > 0 && len(raw) > e.PendingMessageByteLimit {
			raw = rawFor(p, t.MsgType, 20, r)
		}
		ns, ok := nextStateOf(sm, st, t.MsgType, raw, r)
		if !ok {
			break
		}
		out = append(out, convMsg{Type: t.MsgType, Raw: raw, Client: e.Agency == protocol.AgencyClient})
		st = ns
	}
	return out
}

// RunDuplex plays one conforming conversation between two real engines.  Each
// application enqueues its projection in order; depthA/depthB say how many of
// the peer's messages it may still be missing when it enqueues (pipelining).
func RunDuplex(sc Scenario, maxRbuf uint64) []result {
	p := Protos()[sc.Sm]
	r := vh.NewRng(sc.Seed)
	conv := genConversation(p, r, sc.Steps)
	depthA, depthB := 0, 0
	switch r.Intn(4) {
	case 1:
		depthA = 1 + r.Intn(4)
	case 2:
		depthA = 1000 // enqueue everything up front
	case 3:
		depthA, depthB = 1+r.Intn(6), r.Intn(3)
	}
	rq := 55
	if r.Chance(1, 4) {
		rq = 2 + r.Intn(5)
	}
	d := NewDuplex(p, rq, rq)
	ra, rb := result{sc: sc, rq: rq}, result{sc: sc, rq: rq}
	scB := sc
	scB.Server = true
	rb.sc = scB
	ra.script = append(ra.script, fmt.Sprintf("conversation of %d messages, pipelining depth client=%d server=%d", len(conv), depthA, depthB))
	app := func(s *Session, client bool, depth int, done chan<- string) {
		peerBefore := 0
		for _, m := range conv {
			if m.Client != client {
				peerBefore++
				continue
			}
			need := peerBefore - depth
			ok := false
			for i := 0; i < 12000; i++ {
				if s.handlerCalls() >= need {
					ok = true
					break
				}
				time.Sleep(250 * time.Microsecond)
			}
			if !ok {
				done <- fmt.Sprintf("waited in vain for %d received messages before sending (have %d)", need, s.handlerCalls())
				return
			}
			msg, _ := s.NewOutbound(m.Raw, m.Type)
			if err := s.SendTimed(msg); err != nil {
				done <- "SendMessage: " + err.Error()
				return
			}
		}
		done <- ""
	}
	da, db := make(chan string, 1), make(chan string, 1)
	go app(d.A, true, depthA, da)
	go app(d.B, false, depthB, db)
	ea, eb := <-da, <-db
	wantA, wantB := 0, 0 // messages each side must receive
	for _, m := range conv {
		if m.Client {
			wantB++
		} else {
			wantA++
		}
	}
	for i := 0; i < 12000 && (d.A.handlerCalls() < wantA || d.B.handlerCalls() < wantB); i++ {
		time.Sleep(250 * time.Microsecond)
	}
	d.A.Settle()
	d.B.Settle()
	// errors before shutdown
	errA, errB := len(d.A.ErrChan), len(d.B.ErrChan)
	// stopping one side closes the connection and thereby the other side's muxer:
	// tell both models first that their muxer is about to go away
	d.A.P.VerifNote(noteMuxDone, 0, nil)
	d.B.P.VerifNote(noteMuxDone, 0, nil)
	d.A.stopSide()
	d.B.stopSide()
	_ = d.ca.Close()
	_ = d.cb.Close()
	time.Sleep(500 * time.Microsecond)
	protocol.VerifSetSink(nil)
	for side, s := range []*Session{d.A, d.B} {
		res := &ra
		if side == 1 {
			res = &rb
		}
		evs := s.takeEvents()
		res.tr = Translate(s, evs, maxRbuf)
		var enq []uint64
		for _, e := range evs {
			if e.Kind == protocol.VerifEvEnq {
				enq = append(enq, e.Mid)
			}
		}
		res.monitor(s, evs, nil, enq)
		res.wire = nil
		// drop the wire monitor's verdict (the wire is not observed here) and add the duplex checks
		var keep []violation
		for _, v := range res.viol {
			if v.key != "c12:wire-order:"+p.Name {
				keep = append(keep, v)
			}
		}
		res.viol = keep
		// handler log = the peer's projection
		var got [][]byte
		for _, e := range evs {
			if e.Kind == protocol.VerifEvHandler {
				if mi := s.Info(e.Mid); mi != nil {
					got = append(got, mi.Raw)
				}
			}
		}
		var want [][]byte
		for _, m := range conv {
			if m.Client == (side == 1) {
				want = append(want, m.Raw)
			}
		}
		okLog := len(got) == len(want)
		for i := 0; okLog && i < len(got); i++ {
			okLog = bytes.Equal(got[i], want[i])
		}
		if !okLog {
			res.viol = append(res.viol, violation{"c12:duplex-handler-log:" + p.Name,
				fmt.Sprintf("two real engines, conforming conversation of %d messages: side %d handed %d messages to its application, the peer's projection has %d (or the order differs)", len(conv), side, len(got), len(want))})
		}
	}
	if errA+errB > 0 || ea != "" || eb != "" {
		ra.viol = append(ra.viol, violation{"c12:duplex-error:" + p.Name,
			fmt.Sprintf("two real engines, conforming conversation of %d messages (pipelining depth %d/%d): errors reported client=%d server=%d; application: %q %q", len(conv), depthA, depthB, errA, errB, ea, eb)})
	}
	return []result{ra, rb}
}
