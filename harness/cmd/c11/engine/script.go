package engine

import (
	"encoding/json"
	"fmt"
	"os"
	"path/filepath"
	"regexp"
	"strconv"
	"strings"
	"time"

	"github.com/blinklabs-io/gouroboros/muxer"
	"github.com/blinklabs-io/gouroboros/protocol"

	"verifharness/vh"
)

// Scenario is a replayable description of one session.
type Scenario struct {
	Sm     int    `json:"sm"`
	Proto  string `json:"proto"`
	Server bool   `json:"server"`
	Kind   string `json:"kind"` // adversarial | pipeline | backpressure | crossstate | sendlimit | bigbuf | errfull
	Seed   uint64 `json:"seed"`
	Steps  int    `json:"steps"`
}

type result struct {
	live   bool // recorded after the hang bound with an idle consumer: the liveness diagnosis applies
	rq     int
	viol   []violation
	sc     Scenario
	tr     Trace
	wire   []uint64
	script []string
}

func entryOf(m protocol.StateMap, id uint64) (protocol.State, protocol.StateMapEntry, bool) {
	for st, e := range m {
		if uint64(st.Id) == id {
			return st, e, true
		}
	}
	return protocol.State{}, protocol.StateMapEntry{}, false
}

func ourAgency(server bool, a protocol.ProtocolStateAgency) bool {
	return (server && a == protocol.AgencyServer) || (!server && a == protocol.AgencyClient)
}
func peerAgency(server bool, a protocol.ProtocolStateAgency) bool {
	return (server && a == protocol.AgencyClient) || (!server && a == protocol.AgencyServer)
}

// allTypes lists the message types used anywhere in the map.
func allTypes(m protocol.StateMap) []uint8 {
	seen := map[uint8]bool{}
	var out []uint8
	for _, e := range m {
		for _, t := range e.Transitions {
			if !seen[t.MsgType] {
				seen[t.MsgType] = true
				out = append(out, t.MsgType)
			}
		}
	}
	for i := 1; i < len(out); i++ {
		for j := i; j > 0 && out[j-1] > out[j]; j-- {
			out[j-1], out[j] = out[j], out[j-1]
		}
	}
	return out
}

// rawFor builds a well-formed encoding of a message of the given type.
func rawFor(p Proto, typ uint8, size int, r *vh.Rng) []byte {
	if p.Name == "txsubmission" && typ == 0 {
		b := byte(0xf4)
		if r.Bool() {
			b = 0xf5
		}
		return []byte{0x84, 0x00, b, 0x01, 0x02}
	}
	if size < 3 {
		size = 3
	}
	return RawMsg(typ, size, byte(r.Intn(256)))
}

func pickSize(r *vh.Rng, limit int) int {
	switch r.Intn(10) {
	case 0, 1, 2, 3:
		return 3 + r.Intn(40)
	case 4, 5:
		return 100 + r.Intn(3000)
	case 6:
		return 65000 + r.Intn(1200) // around one segment
	case 7:
		return 20000 + r.Intn(120000)
	case 8:
		if limit > 0 && limit < 3000000 {
			return limit - r.Intn(3) // at the limit
		}
		return 3 + r.Intn(500)
	default:
		return 3 + r.Intn(300)
	}
}

// fragment cuts a byte string into mux segments at random points.
func fragment(b []byte, r *vh.Rng) [][]byte {
	var out [][]byte
	mode := r.Intn(4)
	if len(b) > 300 && mode == 2 {
		mode = 1 // byte-sized fragments only for small buffers (keeps histories short)
	}
	for len(b) > 0 {
		n := len(b)
		switch mode {
		case 0: // as large as possible
		case 1:
			n = 1 + r.Intn(len(b))
			if len(b) > 300 && n < len(b)/6 {
				n = len(b) / 6
			}
		case 2:
			n = 1 + r.Intn(7)
		default:
			if r.Chance(1, 2) {
				n = 1 + r.Intn(len(b))
				if len(b) > 300 && n < len(b)/6 {
					n = len(b) / 6
				}
			}
		}
		if n > muxer.SegmentMaxPayloadLength {
			n = muxer.SegmentMaxPayloadLength
		}
		if n > len(b) {
			n = len(b)
		}
		out = append(out, b[:n])
		b = b[n:]
	}
	return out
}

func permittedTypes(e protocol.StateMapEntry) []uint8 {
	var out []uint8
	for _, t := range e.Transitions {
		out = append(out, t.MsgType)
	}
	return out
}

func notPermitted(all []uint8, e protocol.StateMapEntry, r *vh.Rng) (uint8, bool) {
	var cand []uint8
	for _, t := range all {
		ok := true
		for _, tt := range e.Transitions {
			if tt.MsgType == t {
				ok = false
			}
		}
		if ok {
			cand = append(cand, t)
		}
	}
	cand = append(cand, 99) // a type no state knows
	return cand[r.Intn(len(cand))], true
}

// nextStateOf follows the real map (used only to generate plausible scripts).
func nextStateOf(m protocol.StateMap, st protocol.State, typ uint8, raw []byte, r *vh.Rng) (protocol.State, bool) {
	for _, t := range m[st].Transitions {
		if t.MsgType == typ {
			if t.MatchFunc != nil {
				// txsubmission RequestTxIds: blocking flag is byte 2
				blocking := len(raw) > 2 && raw[2] == 0xf5
				if strings.Contains(t.NewState.Name, "Non") == blocking {
					continue
				}
			}
			return t.NewState, true
		}
	}
	return st, false
}

// RunScenario executes one scenario against the real engine.
func RunScenario(sc Scenario, maxRbuf uint64) result {
	p := Protos()[sc.Sm]
	r := vh.NewRng(sc.Seed)
	rq := 55
	errCap := 10
	switch sc.Kind {
	case "backpressure":
		rq = 400
	case "crossstate":
		rq = 64
	case "errfull":
		errCap = 0
	}
	if sc.Kind == "adversarial" && r.Chance(1, 4) {
		rq = 2 + r.Intn(6)
	}
	s := NewSession(p, sc.Server, rq, errCap)
	res := result{sc: sc, rq: rq}
	note := func(f string, a ...any) { res.script = append(res.script, fmt.Sprintf(f, a...)) }
	var enq []uint64
	send := func(typ uint8, size int) {
		raw := rawFor(p, typ, size, r)
		m, mi := s.NewOutbound(raw, typ)
		err := s.SendTimed(m)
		note("send type=%d len=%d id=%d err=%v", typ, len(raw), mi.Id, err)
	}
	all := allTypes(p.Map)
	curEntry := func() (protocol.State, protocol.StateMapEntry) {
		st := s.P.VerifCurrentState()
		return st, s.stateMap[st]
	}
	switch sc.Kind {
	case "adversarial", "pipeline", "errfull":
		if sc.Kind == "adversarial" && r.Chance(1, 6) {
			s.HandlerErrAt = 1 + r.Intn(4)
		}
		for step := 0; step < sc.Steps; step++ {
			s.Settle()
			st, e := curEntry()
			switch {
			case ourAgency(sc.Server, e.Agency):
				x := r.Intn(100)
				if sc.Kind == "pipeline" {
					x = r.Intn(70)
				}
				switch {
				case x < 70 && len(e.Transitions) > 0:
					// a burst of sends that is valid if the peer answers each request (pipelining)
					burst := 1
					if r.Chance(1, 2) {
						burst = 1 + r.Intn(6)
					}
					if sc.Kind == "pipeline" && r.Chance(1, 3) {
						burst = 15 + r.Intn(15)
					}
					t := e.Transitions[r.Intn(len(e.Transitions))]
					var replies []byte
					stSim := st
					for b := 0; b < burst; b++ {
						raw := rawFor(p, t.MsgType, pickSize(r, 0), r)
						m, mi := s.NewOutbound(raw, t.MsgType)
						err := s.SendTimed(m)
						note("send type=%d len=%d id=%d err=%v", t.MsgType, len(raw), mi.Id, err)
						// the peer's answers: walk peer-agency states until we get agency back
						ns, ok := nextStateOf(s.stateMap, stSim, t.MsgType, raw, r)
						if !ok {
							break
						}
						stSim = ns
						for hops := 0; hops < 6 && peerAgency(sc.Server, s.stateMap[stSim].Agency); hops++ {
							pe := s.stateMap[stSim]
							if len(pe.Transitions) == 0 {
								break
							}
							pt := pe.Transitions[r.Intn(len(pe.Transitions))]
							praw := rawFor(p, pt.MsgType, pickSize(r, pe.PendingMessageByteLimit), r)
							if pe.PendingMessageByteLimit > 0 && len(praw) > pe.PendingMessageByteLimit {
								praw = rawFor(p, pt.MsgType, 20, r)
							}
							replies = append(replies, praw...)
							ns, ok := nextStateOf(s.stateMap, stSim, pt.MsgType, praw, r)
							if !ok {
								break
							}
							stSim = ns
						}
						if stSim != st {
							break // the same request is not valid again from here
						}
					}
					if len(replies) > 0 && r.Chance(5, 6) {
						segs := fragment(replies, r)
						note("peer answers %d bytes in %d segments", len(replies), len(segs))
						s.PeerWriteOrdered(segs)
					}
				case x < 82:
					typ, _ := notPermitted(all, e, r)
					note("local send of a type not permitted in %s", st.Name)
					send(typ, 3+r.Intn(30))
				default:
					typ := all[r.Intn(len(all))]
					raw := rawFor(p, typ, pickSize(r, e.PendingMessageByteLimit), r)
					if e.PendingMessageByteLimit > 0 && len(raw) > e.PendingMessageByteLimit {
						raw = rawFor(p, typ, 10, r)
					}
					note("peer sends type=%d len=%d without agency (state %s)", typ, len(raw), st.Name)
					s.PeerWriteOrdered(fragment(raw, r))
				}
			case peerAgency(sc.Server, e.Agency):
				x := r.Intn(100)
				switch {
				case x < 62 && len(e.Transitions) > 0:
					// a run of permitted messages along the peer's states, batched/fragmented
					var buf []byte
					stSim := st
					n := 1 + r.Intn(5)
					for i := 0; i < n && peerAgency(sc.Server, s.stateMap[stSim].Agency); i++ {
						pe := s.stateMap[stSim]
						if len(pe.Transitions) == 0 {
							break
						}
						pt := pe.Transitions[r.Intn(len(pe.Transitions))]
						praw := rawFor(p, pt.MsgType, pickSize(r, pe.PendingMessageByteLimit), r)
						if pe.PendingMessageByteLimit > 0 && len(praw) > pe.PendingMessageByteLimit {
							praw = rawFor(p, pt.MsgType, 20, r)
						}
						buf = append(buf, praw...)
						ns, ok := nextStateOf(s.stateMap, stSim, pt.MsgType, praw, r)
						if !ok {
							break
						}
						stSim = ns
					}
					segs := fragment(buf, r)
					note("peer sends %d permitted bytes in %d segments from %s", len(buf), len(segs), st.Name)
					s.PeerWriteOrdered(segs)
				case x < 78:
					typ, _ := notPermitted(all, e, r)
					raw := rawFor(p, typ, 3+r.Intn(60), r)
					if typ == 0 && p.Name == "txsubmission" {
						raw = rawFor(p, typ, 0, r)
					}
					note("peer sends type=%d not permitted in %s", typ, st.Name)
					s.PeerWriteOrdered(fragment(raw, r))
				case x < 83:
					note("peer sends garbage")
					s.PeerWriteOrdered([][]byte{{0xff, 0xff, 0x00}})
				case x < 87:
					note("peer sends unknown type 200+")
					s.PeerWriteOrdered(fragment(RawMsg(uint8(200+r.Intn(50)), 5+r.Intn(20), 1), r))
				case x < 90:
					note("peer sends undecodable type 190+")
					s.PeerWriteOrdered(fragment(RawMsg(uint8(190+r.Intn(10)), 5+r.Intn(20), 1), r))
				case x < 95 && e.PendingMessageByteLimit > 0 && len(e.Transitions) > 0:
					pt := e.Transitions[r.Intn(len(e.Transitions))]
					raw := RawMsg(pt.MsgType, e.PendingMessageByteLimit+1+r.Intn(3), 7)
					note("peer sends oversized type=%d len=%d limit=%d", pt.MsgType, len(raw), e.PendingMessageByteLimit)
					s.PeerWriteOrdered(fragment(raw, vh.NewRng(1)))
				default:
					typ := all[r.Intn(len(all))]
					note("local send without agency in %s", st.Name)
					send(typ, 3+r.Intn(50))
				}
			default:
				// terminal state
				if r.Bool() {
					note("peer sends in terminal state")
					s.PeerWriteOrdered(fragment(rawFor(p, all[r.Intn(len(all))], 10, r), r))
				} else {
					send(all[r.Intn(len(all))], 8)
				}
			}
		}
	case "backpressure":
		// a slow application: the handler blocks while the peer sends permitted
		// messages as fast as it can
		st, e := curEntry()
		s.HandlerGate = make(chan struct{})
		var buf []byte
		count, total, limit := 0, 0, 0
		if ourAgency(sc.Server, e.Agency) {
			// we pipeline K requests; the peer answers each with one large message
			var req, rep *protocol.StateTransition
			for i := range e.Transitions {
				q := e.Transitions[i].NewState
				for j := range s.stateMap[q].Transitions {
					if s.stateMap[q].Transitions[j].NewState == st && peerAgency(sc.Server, s.stateMap[q].Agency) {
						req, rep = &e.Transitions[i], &s.stateMap[q].Transitions[j]
					}
				}
			}
			if req != nil {
				limit = s.stateMap[req.NewState].PendingMessageByteLimit
				k := 8 + r.Intn(8)
				for i := 0; i < k; i++ {
					raw := rawFor(p, req.MsgType, 8, r)
					m, _ := s.NewOutbound(raw, req.MsgType)
					_ = s.SendTimed(m)
					sz := 30000 + r.Intn(60000)
					if limit > 0 {
						sz = limit/6 + r.Intn(limit/5)
					}
					praw := rawFor(p, rep.MsgType, sz, r)
					buf = append(buf, praw...)
					total += len(praw)
					count++
				}
			}
		} else {
			stSim := st
			for peerAgency(sc.Server, s.stateMap[stSim].Agency) && count < 40 {
				pe := s.stateMap[stSim]
				var pt *protocol.StateTransition
				for i := range pe.Transitions { // prefer a transition that keeps the peer talking
					if peerAgency(sc.Server, s.stateMap[pe.Transitions[i].NewState].Agency) {
						pt = &pe.Transitions[i]
					}
				}
				if pt == nil {
					if len(pe.Transitions) == 0 {
						break
					}
					pt = &pe.Transitions[r.Intn(len(pe.Transitions))]
				}
				limit = pe.PendingMessageByteLimit
				sz := 2000 + r.Intn(60000)
				if limit > 0 && sz > limit {
					sz = limit
				}
				praw := rawFor(p, pt.MsgType, sz, r)
				buf = append(buf, praw...)
				total += len(praw)
				count++
				stSim = pt.NewState
			}
		}
		note("slow handler; peer sends %d messages, %d bytes, limit %d", count, total, limit)
		s.PeerWriteOrdered(fragment(buf, vh.NewRng(1)))
		s.Settle()
		s.Settle()
		for i := 0; i < count+2; i++ {
			s.ReleaseHandler(1)
			if i%3 == 0 {
				s.Settle()
			}
		}
	case "crossstate":
		// block-fetch client with two pipelined RequestRange; a conforming server
		// answers both back to back while the application is still busy with
		// the first StartBatch
		s.HandlerGate = make(chan struct{})
		send(0, 20) // RequestRange
		send(0, 20) // RequestRange (pipelined)
		s.Settle()
		var buf []byte
		buf = append(buf, RawMsg(2, 3, 0)...)    // StartBatch
		buf = append(buf, RawMsg(4, 5000, 1)...) // Block
		buf = append(buf, RawMsg(5, 3, 0)...)    // BatchDone
		buf = append(buf, RawMsg(2, 3, 0)...)    // StartBatch (second range)
		nblk := 6 + r.Intn(6)
		for i := 0; i < nblk; i++ {
			buf = append(buf, RawMsg(4, 60000+r.Intn(30000), 2)...) // Blocks
		}
		buf = append(buf, RawMsg(5, 3, 0)...) // BatchDone
		s.PeerWriteOrdered(fragment(buf, vh.NewRng(1)))
		want := 5 + nblk
		s.WaitFor(func(ev []Event) bool {
			n := 0
			for _, e := range ev {
				if e.Kind == protocol.VerifEvAdmit {
					n++
				}
			}
			return n >= want
		})
		note("all %d messages admitted while the first handler call is blocked", want)
		for i := 0; i < want+2; i++ {
			s.ReleaseHandler(1)
		}
	case "aftererr":
		// deterministic experiment for C11's after-error clause with an error raised
		// by ANOTHER goroutine: the application is busy in the handler of the first
		// message, more permitted messages are already queued, then readLoop fails
		// on garbage (odd seeds) or the protocol is stopped from outside (even
		// seeds); only then the handler returns.  recvLoop is inside the handler at
		// the stop, so no transition request can be in flight.
		var first uint8
		var follow []uint8
		switch p.Name {
		case "blockfetch":
			first, follow = 0, []uint8{2, 4, 4, 4} // RequestRange; StartBatch, Block x3
		default: // chain-sync
			first, follow = 0, []uint8{1, 2} // RequestNext; AwaitReply, RollForward
		}
		send(first, 10)
		s.Settle()
		s.HandlerGate = make(chan struct{})
		var buf []byte
		for _, t := range follow {
			buf = append(buf, RawMsg(t, 20+r.Intn(200), 5)...)
		}
		s.PeerWriteOrdered(fragment(buf, r))
		want := len(follow)
		s.WaitFor(func(ev []Event) bool {
			n, h := 0, 0
			for _, e := range ev {
				if e.Kind == protocol.VerifEvAdmit {
					n++
				}
				if e.Kind == protocol.VerifEvHandler {
					h++
				}
			}
			return n >= want && h >= 1
		})
		s.Settle()
		if sc.Seed%2 == 1 {
			note("handler busy, %d messages queued; peer sends garbage", want-1)
			s.PeerWriteOrdered([][]byte{{0xff, 0xff}})
			s.WaitFor(func(ev []Event) bool {
				for _, e := range ev {
					if e.Kind == protocol.VerifEvSendErrStop {
						return true
					}
				}
				return false
			})
		} else {
			note("handler busy, %d messages queued; external Stop", want-1)
			s.P.VerifNote(noteStop, 1, nil)
			go s.P.Stop()
		}
		time.Sleep(2 * time.Millisecond)
		s.afterErrMark = true
		for i := 0; i < want+1; i++ {
			s.ReleaseHandler(1)
		}
	case "mixedsizes":
		// C13 "slowed down, never deadlocked": the pending budget is filled with
		// small messages, then a message arrives that needs k >= 2 handled
		// messages to fit; the gated handler is released step by step.  After the
		// consumer has handled everything, every message sent must be delivered
		// within the hang bound (5 s; the wait in the code polls every 1 ms).
		var reqType, smallType uint8
		var hdr []byte
		switch p.Name {
		case "blockfetch":
			reqType, smallType = 0, 4
			hdr = RawMsg(2, 3+r.Intn(30), 0) // StartBatch: handled first, frees almost nothing
		default: // chain-sync NtN: pipelined RequestNext, RollForward replies
			reqType, smallType = 0, 2
		}
		limit := 0
		for st, e := range s.stateMap {
			if peerAgency(sc.Server, e.Agency) && e.PendingMessageByteLimit > limit && st.Id != 0 {
				limit = e.PendingMessageByteLimit
			}
		}
		n := 5 + r.Intn(8)
		a := limit * (70 + r.Intn(26)) / 100 / n
		var replies [][]byte
		if hdr != nil {
			replies = append(replies, hdr)
		}
		pendingBefore := len(hdr)
		for i := 0; i < n; i++ {
			raw := RawMsg(smallType, a, byte(i))
			replies = append(replies, raw)
			pendingBefore += len(raw)
		}
		kk := 2 + r.Intn(n-1) // drains of small messages needed (>= 2)
		if kk > n {
			kk = n
		}
		b := limit - pendingBefore + (kk-1)*a + 3 + r.Intn(a-8)
		if b > limit {
			b = limit
		}
		big := RawMsg(smallType, b, 0xbb)
		replies = append(replies, big)
		replies = append(replies, RawMsg(smallType, 10+r.Intn(100), 0xcc)) // one more behind it
		total := len(replies)
		s.HandlerGate = make(chan struct{})
		nreq := 1
		if hdr == nil {
			nreq = total
		}
		for i := 0; i < nreq; i++ {
			raw := rawFor(p, reqType, 8, r)
			m, _ := s.NewOutbound(raw, reqType)
			_ = s.SendTimed(m)
		}
		var buf []byte
		for _, x := range replies {
			buf = append(buf, x...)
		}
		note("limit %d: %d small messages of %d bytes (+%d header), then one of %d bytes that needs %d more handled messages, then one small", limit, n, a, len(hdr), len(big), kk)
		s.PeerWriteOrdered(fragment(buf, vh.NewRng(1)))
		count := func(ev []Event, kind uint8) int {
			c := 0
			for _, e := range ev {
				if e.Kind == kind {
					c++
				}
			}
			return c
		}
		reached := s.WaitFor(func(ev []Event) bool {
			return count(ev, protocol.VerifEvAdmit) >= total-2 && count(ev, protocol.VerifEvLim) >= total-1
		})
		s.Settle()
		if reached {
			note("reader holds the large message (blocked by the limit); releasing the handler step by step")
		}
		for i := 0; i < total; i++ {
			before := count(s.takeEvents(), protocol.VerifEvDec)
			s.ReleaseHandler(1)
			s.WaitFor(func(ev []Event) bool { return count(ev, protocol.VerifEvDec) > before || count(ev, protocol.VerifEvSendErr) > 0 })
			s.Settle()
		}
		// hang bound: everything must be delivered although nobody pushes any more
		deadline := time.Now().Add(5 * time.Second)
		for s.handlerCalls() < total && time.Now().Before(deadline) {
			s.ReleaseHandler(1)
			time.Sleep(2 * time.Millisecond)
		}
		res.live = true
		if got := s.handlerCalls(); got < total {
			pend, tracked := s.P.VerifPendingRecvBytes()
			evs0 := s.takeEvents()
			if count(evs0, protocol.VerifEvSendErr) == 0 && tracked == 0 {
				stName := s.P.VerifCurrentState().Name
				res.viol = append(res.viol, violation{fmt.Sprintf("c13:recv-stalled-after-drain:%s:%s", p.Name, stName),
					fmt.Sprintf("%d of %d valid messages delivered; the consumer has handled everything it was given (pendingRecvBytes=%d, nothing tracked) and waited 5 s, but readLoop still holds a %d-byte message under limit %d: the receive path is stalled (back-pressure must slow down, never deadlock)", got, total, pend, len(big), limit)})
			}
			note("stalled: %d of %d delivered", got, total)
		}
	case "sendlimit":
		// pendingSendBytes limit of the current state
		_, e := curEntry()
		if e.PendingMessageByteLimit > 0 && ourAgency(sc.Server, e.Agency) && len(e.Transitions) > 0 {
			t := e.Transitions[0]
			raw := RawMsg(t.MsgType, e.PendingMessageByteLimit+1, 3)
			m, mi := s.NewOutbound(raw, t.MsgType)
			err := s.SendTimed(m)
			note("send over the limit id=%d err=%v", mi.Id, err)
		}
	case "bigbuf":
		// endless incomplete CBOR: an array header announcing more than is ever sent
		st, _ := curEntry()
		_ = st
		head := append([]byte{0x82, 0x01}, cborHead(2, 40000000)...)
		segs := [][]byte{head}
		chunk := make([]byte, 65535)
		for i := 0; i < 258; i++ {
			segs = append(segs, chunk)
		}
		note("peer sends %d segments of an incomplete 40MB message", len(segs))
		s.PeerWriteOrdered(segs)
		s.WaitFor(func(ev []Event) bool {
			for _, e := range ev {
				if e.Kind == protocol.VerifEvSendErr {
					return true
				}
			}
			return false
		})
	}
	s.Settle()
	tClose := time.Now()
	evs, wire, _ := s.Close()
	if os.Getenv("VERIF_TIMING") != "" {
		fmt.Fprintf(os.Stderr, "   close took %v\n", time.Since(tClose))
	}
	res.tr = Translate(s, evs, maxRbuf)
	for _, e := range evs {
		if e.Kind == protocol.VerifEvEnq {
			enq = append(enq, e.Mid)
		}
	}
	// ---- monitors (directly on the implementation's events) -----------------
	res.monitor(s, evs, wire, enq)
	return res
}

type violation struct{ key, what string }

func (res *result) monitor(s *Session, evs []Event, wire []byte, enq []uint64) {
	add := func(k, w string) { res.viol = append(res.viol, violation{k, w}) }
	p := s.Proto
	// C12: wire bytes = encodings of the accepted SendMessage calls, in call order
	ids, ok, why := WireIds(s, wire, enq)
	res.wire = ids
	if !ok {
		add("c12:wire-order:"+p.Name, why)
	}
	errored := false
	for _, e := range evs {
		if e.Kind == protocol.VerifEvSendErr || (e.Kind == protocol.VerifEvNote && e.A == noteStop) {
			errored = true
			break
		}
	}
	_ = errored
	// C11: every handler call is for a message permitted in the state that was
	// current when its transition was requested, with peer agency; C12: every
	// transition is one the real map allows, send transitions in enqueue order
	cur := uint64(p.InitId)
	var req uint64
	pre := map[uint64]uint64{}
	failed := map[uint64]bool{}
	var sendTrans []uint64
	recvErr := false
	seenInit := false
	var lim uint64
	var limState uint64
	for _, e := range evs {
		switch e.Kind {
		case protocol.VerifEvTransReq:
			req = e.Mid
			pre[e.Mid] = cur
		case protocol.VerifEvTransFail:
			failed[e.Mid] = true
			req = 0
		case protocol.VerifEvState:
			if !seenInit && req == 0 {
				seenInit = true
				continue
			}
			mi := s.Info(req)
			if mi != nil {
				st, en, _ := entryOf(s.stateMap, cur)
				legal := false
				for _, t := range en.Transitions {
					if t.MsgType == mi.Type && uint64(t.NewState.Id) == e.A {
						legal = true
					}
				}
				if !legal {
					add(fmt.Sprintf("c12:illegal-transition:%s:%s:type%d", p.Name, st.Name, mi.Type),
						fmt.Sprintf("state moved from %s to %d on message type %d, which the state map does not allow", st.Name, e.A, mi.Type))
				}
				if mi.In && !peerAgency(s.Server, en.Agency) {
					add(fmt.Sprintf("c11:recv-without-peer-agency:%s:%s", p.Name, st.Name), "a received message made a transition in a state where the peer has no agency")
				}
				if !mi.In {
					if !ourAgency(s.Server, en.Agency) {
						add(fmt.Sprintf("c12:send-without-agency:%s:%s", p.Name, st.Name), "a sent message made a transition in a state where we have no agency")
					}
					sendTrans = append(sendTrans, mi.Id)
				}
			}
			cur = e.A
			req = 0
			// C13 across states: unprocessed bytes when entering a state with a smaller limit
			if _, en, ok := entryOf(s.stateMap, cur); ok && en.PendingMessageByteLimit > 0 && mi != nil {
				inproc := 0
				if mi.In {
					inproc = mi.Len
				}
				if e.Pend-inproc > en.PendingMessageByteLimit {
					st, _, _ := entryOf(s.stateMap, cur)
					add(fmt.Sprintf("c13:cross-state-shrink:%s:%s", p.Name, st.Name),
						fmt.Sprintf("%d unprocessed received bytes (besides the message being processed) are held on entering state %s whose limit is %d", e.Pend-inproc, st.Name, en.PendingMessageByteLimit))
				}
			}
		case protocol.VerifEvHandler:
			mi := s.Info(e.Mid)
			if mi == nil || !mi.In {
				add("c11:handler-unknown-message:"+p.Name, "handler called with a message that was not received")
				continue
			}
			if recvErr {
				add("c11:handler-after-error:"+p.Name, "a message reached the handler after recvLoop reported an error")
			}
			if failed[e.Mid] {
				add("c11:handler-after-reject:"+p.Name, "a message refused by the state machine reached the handler")
			}
			q, had := pre[e.Mid]
			st, en, _ := entryOf(s.stateMap, q)
			permitted := false
			for _, t := range en.Transitions {
				if t.MsgType == mi.Type {
					permitted = true
				}
			}
			if !had || !permitted || !peerAgency(s.Server, en.Agency) {
				add(fmt.Sprintf("c11:handler-call-not-permitted:%s:%s:type%d", p.Name, st.Name, mi.Type),
					fmt.Sprintf("handler called for message type %d although state %s (current when it was processed) does not permit it from the peer", mi.Type, st.Name))
			}
		case protocol.VerifEvSendErr:
			// attribute by the goroutine's other events
			for _, f := range evs {
				if f.Gid == e.Gid && (f.Kind == protocol.VerifEvTokR || f.Kind == protocol.VerifEvHandler) {
					recvErr = true
				}
			}
		case protocol.VerifEvLim:
			lim, limState = e.B, e.A
			if _, en, ok := entryOf(s.stateMap, e.A); ok && uint64(en.PendingMessageByteLimit) != e.B {
				add("c13:limit-not-of-state:"+p.Name, fmt.Sprintf("limit %d read for state %d whose limit is %d", e.B, e.A, en.PendingMessageByteLimit))
			}
		case protocol.VerifEvAdmit:
			if lim > 0 && e.B > lim {
				st, _, _ := entryOf(s.stateMap, limState)
				add(fmt.Sprintf("c13:pending-over-limit:%s:%s", p.Name, st.Name),
					fmt.Sprintf("pendingRecvBytes = %d after admitting a message under limit %d", e.B, lim))
			}
			if lim > 0 && e.A > lim {
				add("c13:oversize-admitted:"+p.Name, fmt.Sprintf("a message of %d bytes was admitted under limit %d", e.A, lim))
			}
		}
	}
	// C11 after-error experiment: nothing may reach the handler after the stop
	if s.afterErrMark {
		var stopSeq uint64
		for _, e := range evs {
			if e.Kind == protocol.VerifEvSendErrStop || (e.Kind == protocol.VerifEvNote && e.A == noteStop && e.B == 1) {
				stopSeq = e.Seq
				break
			}
		}
		late := 0
		for _, e := range evs {
			if stopSeq != 0 && e.Kind == protocol.VerifEvHandler && e.Seq > stopSeq {
				late++
			}
		}
		if stopSeq == 0 {
			add("c11:aftererr-no-stop:"+p.Name, "the scripted stop did not happen")
		}
		if late > 0 {
			add("c11:handler-after-foreign-stop:"+p.Name, fmt.Sprintf("%d queued message(s) reached the handler after the protocol had been stopped by another goroutine while recvLoop was inside a handler call", late))
		}
	}
	// C12: send transitions happen in enqueue order, each once
	for i, id := range sendTrans {
		if i >= len(enq) || enq[i] != id {
			add("c12:transition-order:"+p.Name, fmt.Sprintf("send transition %d is for message %d, not the %d-th enqueued message", i, id, i))
			break
		}
	}
	// C13 accounting at quiescence: everything handled -> nothing pending
	if n, k := s.P.VerifPendingRecvBytes(); k == 0 && n != 0 {
		add("c13:pending-leak:"+p.Name, fmt.Sprintf("pendingRecvBytes = %d with no tracked message", n))
	}
	// handled + failed + still queued = admitted
	adm, done := 0, 0
	for _, e := range evs {
		if e.Kind == protocol.VerifEvAdmit {
			adm++
		}
		if e.Kind == protocol.VerifEvDec {
			done++
		}
	}
	if _, k := s.P.VerifPendingRecvBytes(); k != adm-done {
		add("c13:pending-sizes-mismatch:"+p.Name, fmt.Sprintf("%d sizes tracked but %d messages admitted and %d completed", k, adm, done))
	}
}

// ---------------------------------------------------------------------------

const Header = `From V Require Import Lib.Base C11.Engine C11.Model %s.Gen.
Local Open Scope N_scope.
Definition diags := diags_of all_maps consts_gen.
Definition diags_live := diags_live_of all_maps consts_gen.`

func keyFor(prop string) string { return strings.ToLower(prop) + ":" }

// RunAll is the `run` step of C11/C12/C13.
func RunAll(c *vh.Ctx, prop string) error {
	k, err := Consts()
	if err != nil {
		return err
	}
	maxRbuf := uint64(k.MaxReadBufferSize)
	c.Res.Rule = "one case = one session of a real protocol.Protocol (state map and role drawn from the exported maps) against a scripted raw-mux peer; scripts are seeded random walks over: bursts of permitted local sends with the peer's answers (pipelining), permitted peer runs batched/fragmented at random cut points, not-permitted types, messages sent without agency, garbage, unknown types, oversized messages, handler errors, slow handlers; distinct by the label sequence; non-trivial = at least one state transition and at least 8 labels"
	c.Res.Modelled = []string{
		"message contents are abstract in the model (identity, type, length, which MatchFuncs hold); the codec callback MessageFromCborFunc is the harness's generic decoder (txsubmission RequestTxIds uses the real one because its MatchFunc needs the real type)",
		"state timeouts are cleared in the copied state maps (timers are C14's subject)",
		"muxer and net.Conn are the real ones (net.Pipe); their behaviour is not modelled beyond FIFO delivery of segments",
	}
	cf := c.NewCaseFile(strings.ToLower(prop), fmt.Sprintf(Header, prop))
	cf.Func = "diags"
	cfLive := c.NewCaseFile(strings.ToLower(prop)+"live", fmt.Sprintf(Header, prop))
	cfLive.Func = "diags_live"
	cfLive.SetShardSize(c.Pick(12, 25))
	cf.SetShardSize(c.Pick(12, 25))
	var scs []Scenario
	if c.Replay != "" {
		b, err := os.ReadFile(c.Replay)
		if err != nil {
			return err
		}
		var rp struct {
			Replay struct {
				Scenario Scenario `json:"scenario"`
			} `json:"replay"`
		}
		if err := json.Unmarshal(b, &rp); err != nil {
			return err
		}
		scs = []Scenario{rp.Replay.Scenario}
	} else {
		scs = scenarios(c, prop)
	}
	for _, sc := range scs {
		c.Begin(map[string]any{"scenario": sc})
		t0 := time.Now()
		var results []result
		if sc.Kind == "duplex" {
			results = RunDuplex(sc, maxRbuf)
		} else {
			results = []result{RunScenario(sc, maxRbuf)}
		}
		if os.Getenv("VERIF_TIMING") != "" {
			fmt.Fprintf(os.Stderr, "%-14s %-18s server=%v labels=%d %v\n", sc.Kind, sc.Proto, sc.Server, len(results[0].tr.Labels), time.Since(t0))
		}
		for _, res := range results {
			rep := map[string]any{"scenario": sc, "side_server": res.sc.Server, "script": res.script, "labels": len(res.tr.Labels), "notes": res.tr.Notes}
			nontrivial := len(res.tr.States) >= 1 && len(res.tr.Labels) >= 8
			c.Res.Count(strings.Join(res.tr.Labels, ";"), nontrivial, sc.Kind+"/"+sc.Proto)
			if nontrivial {
				c.Res.Sample(map[string]any{"scenario": sc, "labels": len(res.tr.Labels), "handler_calls": len(res.tr.Handler), "transitions": len(res.tr.States), "err": res.tr.Err})
			}
			for _, v := range res.viol {
				if strings.HasPrefix(v.key, keyFor(prop)) {
					c.Res.Violate("monitor", v.key, v.what, rep)
				}
			}
			if res.live {
				cfLive.Add(CoqCase(sc.Sm, res.sc.Server, res.rq, res.tr, res.wire), rep)
			} else {
				cf.Add(CoqCase(sc.Sm, res.sc.Server, res.rq, res.tr, res.wire), rep)
			}
		}
	}
	cf.Flush()
	cfLive.Flush()
	return nil
}

func scenarios(c *vh.Ctx, prop string) []Scenario {
	var out []Scenario
	ps := Protos()
	r := c.Rng
	add := func(kind string, sm int, server bool, steps int) {
		out = append(out, Scenario{Sm: sm, Proto: ps[sm].Name, Server: server, Kind: kind, Seed: r.U64(), Steps: steps})
	}
	idx := map[string]int{}
	for i, p := range ps {
		idx[p.Name] = i
	}
	switch prop {
	case "C11":
		for rep := 0; rep < c.Pick(4, 16); rep++ {
			for i, p := range ps {
				if !p.Run {
					continue
				}
				if rep > 0 && !c.Thorough() && i > 5 && r.Chance(1, 2) {
					continue
				}
				add("adversarial", i, false, 4+r.Intn(8))
				add("adversarial", i, true, 4+r.Intn(8))
			}
		}
		for rep := 0; rep < c.Pick(6, 60); rep++ {
			add("aftererr", []int{idx["blockfetch"], idx["chainsync_ntn"]}[rep%2], false, 1)
		}
		add("errfull", idx["chainsync_ntn"], false, 6)
		add("errfull", idx["blockfetch"], true, 6)
	case "C12":
		for rep := 0; rep < c.Pick(3, 14); rep++ {
			for i, p := range ps {
				if !p.Run {
					continue
				}
				if rep > 0 && !c.Thorough() && i > 5 && r.Chance(1, 2) {
					continue
				}
				add("pipeline", i, false, 4+r.Intn(8))
				add("pipeline", i, true, 4+r.Intn(8))
			}
		}
		for rep := 0; rep < c.Pick(4, 30); rep++ {
			add("adversarial", r.Intn(6), r.Bool(), 4+r.Intn(6))
		}
		// two real engines talking to each other on conforming conversations
		for rep := 0; rep < c.Pick(1, 5); rep++ {
			for i, p := range ps {
				if p.Run {
					add("duplex", i, false, 6+r.Intn(30))
				}
			}
		}
		for rep := 0; rep < c.Pick(3, 12); rep++ { // chain-sync with deep pipelining
			add("duplex", idx["chainsync_ntn"], false, 20+r.Intn(40))
		}
		add("sendlimit", idx["chainsync_ntn"], false, 1)
		add("sendlimit", idx["blockfetch"], false, 1)
	case "C13":
		for rep := 0; rep < c.Pick(2, 10); rep++ {
			for _, n := range []string{"chainsync_ntn", "blockfetch", "chainsync_ntc", "txsubmission", "keepalive"} {
				add("backpressure", idx[n], false, 1)
				if n != "blockfetch" || rep%2 == 0 {
					add("backpressure", idx[n], true, 1)
				}
			}
		}
		for rep := 0; rep < c.Pick(2, 8); rep++ {
			add("crossstate", idx["blockfetch"], false, 1)
		}
		for rep := 0; rep < c.Pick(6, 30); rep++ {
			sm := idx["chainsync_ntn"]
			if rep%3 == 2 {
				sm = idx["blockfetch"]
			}
			add("mixedsizes", sm, false, 1)
		}
		for rep := 0; rep < c.Pick(10, 80); rep++ {
			sm := []int{idx["chainsync_ntn"], idx["blockfetch"]}[r.Intn(2)]
			add("adversarial", sm, r.Bool(), 4+r.Intn(8))
		}
		if c.Thorough() { // 16 MiB through the real decoder takes ~20 s per run
			add("bigbuf", idx["chainsync_ntc"], false, 1)
			add("bigbuf", idx["blockfetch"], true, 1)
		}
	}
	return out
}

var mRe = regexp.MustCompile(`(?s)M\s*=\s*\[(.*?)\]\s*:\s*list`)

// Post turns the printed diagnosis codes into correspondence verdicts.
func Post(c *vh.Ctx) error {
	for _, fn := range c.Res.CaseFiles {
		b, err := os.ReadFile(filepath.Join(c.Out, fn+".out"))
		if err != nil {
			c.Res.Violate("correspondence", "coqc-failed:"+fn, "no coqc output", nil)
			continue
		}
		m := mRe.FindSubmatch(b)
		if m == nil {
			msg := string(b)
			if len(msg) > 700 {
				msg = msg[:700]
			}
			c.Res.Violate("correspondence", "coqc-failed:"+fn, "cannot evaluate the model on the cases: "+msg, nil)
			continue
		}
		body := strings.TrimSpace(string(m[1]))
		if body == "" {
			continue
		}
		for i, t := range strings.Split(body, ";") {
			t = strings.TrimSpace(strings.TrimSuffix(strings.TrimSpace(t), "%N"))
			code, err := strconv.Atoi(t)
			if err != nil {
				c.Res.Violate("correspondence", "unparsed:"+fn, "unparsed diagnosis list: "+body, nil)
				break
			}
			c.Res.TracesValidated++
			if code == 0 {
				continue
			}
			c.Res.TracesValidated--
			key := fmt.Sprintf("%s#%d", fn, i)
			what := ""
			switch {
			case code >= 1000:
				what = fmt.Sprintf("the implementation left the model: label %d of the observed history is not enabled in the model (engine LTS step = None)", code-1000)
			case code == 1:
				what = "handler-call sequence differs from the model's handler log"
			case code == 2:
				what = "state sequence differs from the model's transition log"
			case code == 3:
				what = "pendingRecvBytes sequence differs from the model's"
			case code == 4:
				what = "messages on the wire are not a prefix of the model's wire log"
			case code == 5:
				what = "error flag differs from the model's"
			case code == 8:
				what = "the implementation is stalled where the specification can move: readLoop holds a decoded message whose admission guard pending+len <= limit holds (C13_backpressure_progress) but it was not admitted within the hang bound although the consumer is idle"
			case code == 7:
				what = "sequence of messages making their send transition differs from the model's (= written order)"
			case code == 6:
				what = "the model is about to report an error (a loop in its failing phase) but the implementation never called SendError"
			default:
				what = fmt.Sprintf("diagnosis code %d", code)
			}
			kind := "left-model"
			if code < 1000 {
				kind = fmt.Sprintf("projection-%d", code)
			}
			c.Res.Violate("correspondence", "model-vs-impl:"+kind, what+" ("+key+")", c.Res.CaseIndex[key])
		}
	}
	return nil
}
