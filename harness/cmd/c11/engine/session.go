package engine

import (
	"encoding/binary"
	"errors"
	"fmt"
	"io"
	"net"
	"sync"
	"time"

	"github.com/blinklabs-io/gouroboros/muxer"
	"github.com/blinklabs-io/gouroboros/protocol"
	"github.com/blinklabs-io/gouroboros/protocol/txsubmission"
)

// GMsg is the generic message of the harness: CBOR [type, pad-bytes].
type GMsg struct {
	protocol.MessageBase
}

// ---- tiny CBOR writer ------------------------------------------------------
func cborHead(major byte, n uint64) []byte {
	switch {
	case n < 24:
		return []byte{major<<5 | byte(n)}
	case n < 256:
		return []byte{major<<5 | 24, byte(n)}
	case n < 65536:
		return []byte{major<<5 | 25, byte(n >> 8), byte(n)}
	case n < 1<<32:
		return []byte{major<<5 | 26, byte(n >> 24), byte(n >> 16), byte(n >> 8), byte(n)}
	}
	b := make([]byte, 9)
	b[0] = major<<5 | 27
	binary.BigEndian.PutUint64(b[1:], n)
	return b
}

// RawMsg builds [type, h'pad'] with a total encoded length as close to size
// as the encoding allows (never below the minimum of 3 bytes).
func RawMsg(typ uint8, size int, fill byte) []byte {
	head := append([]byte{0x82}, cborHead(0, uint64(typ))...)
	pad := size - len(head) - 1
	if pad < 0 {
		pad = 0
	}
	for len(head)+len(cborHead(2, uint64(pad)))+pad > size && pad > 0 {
		pad--
	}
	out := append(head, cborHead(2, uint64(pad))...)
	p := make([]byte, pad)
	for i := range p {
		p[i] = fill
	}
	return append(out, p...)
}

// MsgInfo is what the model needs to know about one message.
type MsgInfo struct {
	Id     uint64
	Type   uint8
	Len    int
	Guards []uint64
	In     bool
	Raw    []byte
}

func (m *MsgInfo) Coq() string {
	g := "["
	for i, x := range m.Guards {
		if i > 0 {
			g += "; "
		}
		g += fmt.Sprintf("%d", x)
	}
	return fmt.Sprintf("(M %d %d %d %s])", m.Id, m.Type, m.Len, g)
}

// Event is a recorded trace event with the message resolved to its id.
type Event struct {
	Seq  uint64
	Gid  uint64
	Kind uint8
	A, B uint64
	Mid  uint64 // 0 = none
	Pend int    // pendingRecvBytes sampled in the sink (state events only)
}

// Session is one real protocol.Protocol over an in-memory connection whose
// other end is the scripted raw-mux peer.
type Session struct {
	Proto   Proto
	Server  bool
	RqCap   int
	P       *protocol.Protocol
	Mux     *muxer.Muxer
	peer    net.Conn
	ErrChan chan error

	mu     sync.Mutex
	events []Event
	msgs   map[protocol.Message]*MsgInfo
	byId   map[uint64]*MsgInfo
	nextId uint64
	wire   []byte // payload bytes received by the peer
	wireMu sync.Mutex

	// handler control
	HandlerGate  chan struct{} // when non-nil the handler blocks on it before returning
	gateMu       sync.Mutex
	HandlerErrAt int // return an error from the n-th handler call (1-based; 0 = never)
	hcalls       int
	peerDone     chan struct{}
	stateMap     protocol.StateMap
	writeMu      sync.Mutex
	peerWG       sync.WaitGroup
	afterErrMark bool
}

var errHandler = errors.New("harness handler error")

func (s *Session) register(m protocol.Message, in bool, raw []byte) *MsgInfo {
	s.mu.Lock()
	defer s.mu.Unlock()
	if mi, ok := s.msgs[m]; ok {
		return mi
	}
	s.nextId++
	mi := &MsgInfo{Id: s.nextId, Type: m.Type(), Len: len(raw), In: in, Raw: raw}
	// evaluate every MatchFunc of the map that applies to this message type
	for st, e := range s.stateMap {
		for j, t := range e.Transitions {
			if t.MatchFunc != nil && t.MsgType == m.Type() {
				ok := false
				func() {
					defer func() { _ = recover() }()
					ok = t.MatchFunc(nil, m)
				}()
				if ok {
					mi.Guards = append(mi.Guards, GuardId(st.Id, j))
				}
			}
		}
	}
	s.msgs[m] = mi
	s.byId[mi.Id] = mi
	return mi
}

// decode is the MessageFromCborFunc of the session.
func (s *Session) decode(t uint, data []byte) (protocol.Message, error) {
	raw := append([]byte(nil), data...)
	if t >= 200 {
		return nil, nil // unknown message type
	}
	if t >= 190 {
		return nil, errors.New("harness: undecodable message")
	}
	var m protocol.Message
	if s.Proto.Name == "txsubmission" && t == txsubmission.MessageTypeRequestTxIds {
		mm, err := txsubmission.NewMsgFromCbor(t, data)
		if err != nil || mm == nil {
			return nil, errors.New("harness: bad RequestTxIds")
		}
		m = mm
	} else {
		g := &GMsg{}
		g.MessageType = uint8(t)
		m = g
	}
	m.SetCbor(raw)
	s.register(m, true, raw)
	return m, nil
}

// NewOutbound builds a local message object for SendMessage.
func (s *Session) NewOutbound(raw []byte, typ uint8) (protocol.Message, *MsgInfo) {
	var m protocol.Message
	if s.Proto.Name == "txsubmission" && typ == txsubmission.MessageTypeRequestTxIds {
		mm, err := txsubmission.NewMsgFromCbor(uint(typ), raw)
		if err == nil && mm != nil {
			m = mm
		}
	}
	if m == nil {
		g := &GMsg{}
		g.MessageType = typ
		m = g
	}
	m.SetCbor(raw)
	return m, s.register(m, false, raw)
}

func (s *Session) handler(m protocol.Message) error {
	s.gateMu.Lock()
	s.hcalls++
	n := s.hcalls
	gate := s.HandlerGate
	s.gateMu.Unlock()
	if gate != nil {
		select {
		case <-gate:
		case <-time.After(10 * time.Second):
		}
	}
	if s.HandlerErrAt != 0 && n == s.HandlerErrAt {
		s.P.VerifNote(noteHErr, 0, m)
		return errHandler
	}
	return nil
}

const (
	noteHErr    = 1
	noteStop    = 2
	noteMuxDone = 3
)

func (s *Session) sink(ev protocol.VerifEvent) {
	if ev.P != s.P {
		return
	}
	e := Event{Seq: ev.Seq, Gid: ev.Gid, Kind: ev.Kind, A: ev.A, B: ev.B}
	if ev.Kind == protocol.VerifEvState {
		// sample the pending bytes at the instant the state is stored (stateLoop
		// goroutine; readLoop/recvLoop may move concurrently, the monitor only
		// uses it in scripted quiescent situations)
		e.Pend, _ = s.P.VerifPendingRecvBytes()
	}
	s.mu.Lock()
	if ev.Msg != nil {
		if mi, ok := s.msgs[ev.Msg]; ok {
			e.Mid = mi.Id
		}
	}
	s.events = append(s.events, e)
	s.mu.Unlock()
}

// CopyMapNoTimeouts copies the state map with the timeouts cleared: timers
// are C14's subject and would make runs depend on wall-clock time.
func CopyMapNoTimeouts(m protocol.StateMap) protocol.StateMap {
	out := protocol.StateMap{}
	for k, e := range m {
		e.Timeout = 0
		e.TimeoutFunc = nil
		out[k] = e
	}
	return out
}

func initState(p Proto) protocol.State {
	for st := range p.Map {
		if st.Id == p.InitId {
			return st
		}
	}
	return protocol.State{}
}

var sinkMu sync.Mutex

// NewSession starts a real Protocol for the given state map and role.
func NewSession(p Proto, server bool, rqcap int, errCap int) *Session {
	a, b := net.Pipe()
	s := &Session{Proto: p, Server: server, RqCap: rqcap, peer: b,
		msgs: map[protocol.Message]*MsgInfo{}, byId: map[uint64]*MsgInfo{}, peerDone: make(chan struct{})}
	s.stateMap = CopyMapNoTimeouts(p.Map)
	s.Mux = muxer.New(a)
	s.Mux.SetDiffusionMode(muxer.DiffusionModeInitiatorAndResponder)
	s.ErrChan = make(chan error, errCap)
	role := protocol.ProtocolRoleClient
	if server {
		role = protocol.ProtocolRoleServer
	}
	s.P = protocol.New(protocol.ProtocolConfig{
		Name: p.Name, ProtocolId: 77, ErrorChan: s.ErrChan, Muxer: s.Mux,
		Mode: protocol.ProtocolModeNodeToNode, Role: role,
		MessageHandlerFunc: s.handler, MessageFromCborFunc: s.decode,
		StateMap: s.stateMap, InitialState: initState(p), RecvQueueSize: rqcap,
	})
	protocol.VerifSetSink(s.sink)
	// peer reader: collect every payload byte the engine puts on the wire
	go func() {
		defer close(s.peerDone)
		hdr := make([]byte, 8)
		for {
			if _, err := io.ReadFull(b, hdr); err != nil {
				return
			}
			n := int(binary.BigEndian.Uint16(hdr[6:8]))
			pl := make([]byte, n)
			if _, err := io.ReadFull(b, pl); err != nil {
				return
			}
			s.wireMu.Lock()
			s.wire = append(s.wire, pl...)
			s.wireMu.Unlock()
		}
	}()
	s.P.Start()
	s.Mux.Start()
	return s
}

// PeerWrite sends one raw mux segment from the peer (asynchronously: the
// muxer may exert back-pressure).
func (s *Session) PeerWrite(payload []byte) {
	pid := uint16(77)
	if !s.Server {
		pid |= 0x8000 // responses are routed to the initiator (client) instance
	}
	buf := make([]byte, 8+len(payload))
	binary.BigEndian.PutUint32(buf[0:4], 1)
	binary.BigEndian.PutUint16(buf[4:6], pid)
	binary.BigEndian.PutUint16(buf[6:8], uint16(len(payload)))
	copy(buf[8:], payload)
	s.peerWG.Add(1)
	go func() {
		defer s.peerWG.Done()
		s.writeMu.Lock()
		defer s.writeMu.Unlock()
		_ = s.peer.SetWriteDeadline(time.Now().Add(8 * time.Second))
		_, _ = s.peer.Write(buf)
	}()
}

// PeerWriteOrdered writes segments in order (each waits for the previous).
func (s *Session) PeerWriteOrdered(payloads [][]byte) {
	s.peerWG.Add(1)
	go func() {
		defer s.peerWG.Done()
		s.writeMu.Lock()
		defer s.writeMu.Unlock()
		for _, payload := range payloads {
			pid := uint16(77)
			if !s.Server {
				pid |= 0x8000
			}
			buf := make([]byte, 8+len(payload))
			binary.BigEndian.PutUint32(buf[0:4], 1)
			binary.BigEndian.PutUint16(buf[4:6], pid)
			binary.BigEndian.PutUint16(buf[6:8], uint16(len(payload)))
			copy(buf[8:], payload)
			_ = s.peer.SetWriteDeadline(time.Now().Add(8 * time.Second))
			if _, err := s.peer.Write(buf); err != nil {
				return
			}
		}
	}()
}

func (s *Session) nEvents() int {
	s.mu.Lock()
	defer s.mu.Unlock()
	return len(s.events)
}

// Settle waits until no new trace event has appeared for a short while.  It
// only shapes the schedule; no verdict depends on it.
func (s *Session) Settle() {
	last := s.nEvents()
	stable := 0
	for i := 0; i < 4000; i++ {
		time.Sleep(250 * time.Microsecond)
		n := s.nEvents()
		if n == last {
			stable++
			if stable >= 8 {
				return
			}
		} else {
			stable = 0
			last = n
		}
	}
}

// WaitFor waits (bounded) until pred holds on the events so far.
func (s *Session) WaitFor(pred func([]Event) bool) bool {
	for i := 0; i < 8000; i++ {
		s.mu.Lock()
		ok := pred(s.events)
		s.mu.Unlock()
		if ok {
			return true
		}
		time.Sleep(250 * time.Microsecond)
	}
	return false
}

// Close stops everything and returns the trace (sorted by sequence number),
// the wire bytes and the errors reported on ErrorChan.
func (s *Session) Close() ([]Event, []byte, []error) {
	s.Settle()
	s.P.VerifNote(noteStop, 0, nil)
	// Protocol.Stop can block in muxer.UnregisterProtocol while the muxer's read
	// loop is blocked delivering a segment to this protocol (it holds the
	// receiver mutex); only stopping the muxer resolves that, so Stop runs aside.
	stopDone := make(chan struct{})
	go func() { s.P.Stop(); close(stopDone) }()
	select {
	case <-stopDone:
	case <-time.After(300 * time.Millisecond):
	}
	s.gateMu.Lock()
	if s.HandlerGate != nil {
		close(s.HandlerGate)
		s.HandlerGate = nil
	}
	s.gateMu.Unlock()
	select {
	case <-s.P.DoneChan():
	case <-time.After(300 * time.Millisecond):
	}
	s.P.VerifNote(noteMuxDone, 0, nil)
	s.Mux.Stop()
	_ = s.peer.Close()
	select {
	case <-stopDone:
	case <-time.After(3 * time.Second):
	}
	select {
	case <-s.P.DoneChan():
	case <-time.After(3 * time.Second):
	}
	<-s.peerDone
	s.peerWG.Wait()
	time.Sleep(500 * time.Microsecond)
	protocol.VerifSetSink(nil)
	var errs []error
	for {
		select {
		case e := <-s.ErrChan:
			errs = append(errs, e)
			continue
		default:
		}
		break
	}
	s.mu.Lock()
	ev := append([]Event(nil), s.events...)
	s.mu.Unlock()
	sortEvents(ev)
	s.wireMu.Lock()
	w := append([]byte(nil), s.wire...)
	s.wireMu.Unlock()
	return ev, w, errs
}

func sortEvents(ev []Event) {
	// insertion sort: the slice is almost sorted
	for i := 1; i < len(ev); i++ {
		for j := i; j > 0 && ev[j-1].Seq > ev[j].Seq; j-- {
			ev[j-1], ev[j] = ev[j], ev[j-1]
		}
	}
}

func (s *Session) Info(id uint64) *MsgInfo {
	s.mu.Lock()
	defer s.mu.Unlock()
	return s.byId[id]
}

// ReleaseHandler lets n blocked handler calls return.
func (s *Session) ReleaseHandler(n int) {
	s.gateMu.Lock()
	g := s.HandlerGate
	s.gateMu.Unlock()
	if g == nil {
		return
	}
	for i := 0; i < n; i++ {
		select {
		case g <- struct{}{}:
		case <-time.After(150 * time.Millisecond):
			return
		}
	}
}

var errSendBlocked = errors.New("harness: SendMessage did not return within 2s")

// SendTimed calls SendMessage but gives up waiting after 2 s (a blocked
// caller must not hang the harness; the history then simply ends there).
func (s *Session) SendTimed(m protocol.Message) error {
	done := make(chan error, 1)
	go func() { done <- s.P.SendMessage(m) }()
	select {
	case err := <-done:
		return err
	case <-time.After(2 * time.Second):
		return errSendBlocked
	}
}
