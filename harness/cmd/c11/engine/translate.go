package engine

import (
	"bytes"
	"fmt"
	"strings"

	"github.com/blinklabs-io/gouroboros/protocol"
)

// Trace is the linearised history of one session in the model's vocabulary.
type Trace struct {
	Labels  []string
	Handler []uint64 // message ids in handler-call order
	States  []uint64 // state ids after each transition
	SendTr  []uint64 // ids of the messages whose send transition was made, in order
	Pend    []uint64 // pendingRecvBytes after each change
	Err     bool     // an error was delivered to ErrorChan by SendError
	Notes   []string // linearisation remarks
}

type lbl struct {
	s       string
	isState bool // a label that changes the protocol state
	isRead  bool // a readLoop label
	from    uint64
}

// Translate turns the recorded events into the model's labels.  Internal
// actions that are not traced directly (Put, DecIncomplete, BatchEnd) are
// placed at the latest point consistent with the events around them.
func Translate(s *Session, evs []Event, maxRbuf uint64) Trace {
	var out []lbl
	tr := Trace{}
	info := func(id uint64) *MsgInfo { return s.Info(id) }
	emit := func(x string) { out = append(out, lbl{s: x}) }

	// goroutine roles
	const (
		gSend = iota + 1
		gRead
		gRecv
		gState
	)
	roles := map[uint64]int{}
	for _, e := range evs {
		switch e.Kind {
		case protocol.VerifEvTokS, protocol.VerifEvDeq, protocol.VerifEvSeg, protocol.VerifEvExitSend:
			roles[e.Gid] = gSend
		case protocol.VerifEvSegIn, protocol.VerifEvLim, protocol.VerifEvAdmit:
			roles[e.Gid] = gRead
		case protocol.VerifEvTokR, protocol.VerifEvHandler, protocol.VerifEvDec, protocol.VerifEvExitRecv:
			roles[e.Gid] = gRecv
		case protocol.VerifEvState, protocol.VerifEvTransReq, protocol.VerifEvTransFail:
			roles[e.Gid] = gState
		}
	}

	var (
		cur           = uint64(s.Proto.InitId)
		seenInit      bool
		reqMid        uint64
		pendingPut    uint64 // accounted, Put not yet emitted
		decodePending bool   // SegIn seen, outcome of the decode not yet known
		rbuf          uint64
		firstDeq      uint64 // first message of the batch, label deferred to its transition
		batchMsgs     int
		batchOpen     bool
		queued        = map[uint64]bool{}
		sendErrored   = map[int]bool{}
		lastLim       bool // last readLoop event was Lim (oversize error follows without Admit)
		deferredDec   *MsgInfo
		deferredState uint64
	)
	// The SendError event is traced at the top of SendError; close(stopChan)
	// happens a few statements later and the goroutine may be descheduled in
	// between.  The label (whose effect is `stopped`) is therefore emitted as
	// late as the history allows: before the next label that needs the stop
	// (a loop exit, Stop, MuxDone, another SendError) - an accepted SendMessage
	// traced in between proves the stop had not happened yet.
	pendSE := ""
	flushSE := func() {
		if pendSE != "" {
			out = append(out, lbl{s: pendSE})
			pendSE = ""
		}
	}
	flushPut := func() {
		if pendingPut != 0 {
			mi := info(pendingPut)
			out = append(out, lbl{s: "Put", isRead: true})
			if uint64(mi.Len) < rbuf {
				rbuf -= uint64(mi.Len)
				decodePending = true
			} else {
				rbuf = 0
				decodePending = false
			}
			pendingPut = 0
		}
	}
	full := func(i int) bool {
		// outcome of the SendError call at position i: look at the next events of the same goroutine
		for j := i + 1; j < len(evs); j++ {
			if evs[j].Gid != evs[i].Gid {
				continue
			}
			return evs[j].Kind == protocol.VerifEvSendErrFull
		}
		return false
	}
	for i, e := range evs {
		switch e.Kind {
		case protocol.VerifEvState:
			if !seenInit && reqMid == 0 {
				seenInit = true
				continue
			}
			mi := info(reqMid)
			from := cur
			cur = e.A
			tr.States = append(tr.States, e.A)
			if mi == nil {
				tr.Notes = append(tr.Notes, "state event without request")
				continue
			}
			if mi.In {
				if pendingPut == mi.Id {
					flushPut()
				}
				out = append(out, lbl{s: "Handle", isState: true, from: from})
			} else if queued[mi.Id] {
				delete(queued, mi.Id)
				tr.SendTr = append(tr.SendTr, mi.Id)
				out = append(out, lbl{s: "SendQueuedTransition", isState: true, from: from})
			} else {
				tr.SendTr = append(tr.SendTr, mi.Id)
				out = append(out, lbl{s: "SendDeq", isState: true, from: from})
				firstDeq = 0
				batchOpen = true
				batchMsgs = 1
			}
			reqMid = 0
			if deferredDec != nil && deferredState == cur {
				out = append(out, lbl{s: "DecMsg " + deferredDec.Coq(), isRead: true})
				deferredDec = nil
			}
		case protocol.VerifEvTransReq:
			reqMid = e.Mid
		case protocol.VerifEvTransFail:
			mi := info(e.Mid)
			reqMid = 0
			if mi == nil {
				continue
			}
			if mi.In {
				if pendingPut == mi.Id {
					flushPut()
				}
				emit("Handle")
			} else if queued[mi.Id] {
				emit("SendQueuedTransition")
			} else {
				emit("SendDeq")
				firstDeq = 0
			}
		case protocol.VerifEvEnq:
			emit("Enq " + info(e.Mid).Coq())
		case protocol.VerifEvEnqOver:
			f := false
			for j := i + 1; j < len(evs); j++ {
				if evs[j].Gid == e.Gid && evs[j].Kind != protocol.VerifEvSendErr {
					f = evs[j].Kind == protocol.VerifEvSendErrFull
					break
				}
			}
			flushSE()
			emit(fmt.Sprintf("EnqOver %s %v", info(e.Mid).Coq(), f))
			sendErrored[-int(e.Gid)] = true
		case protocol.VerifEvTokS:
			emit("TakeSendToken")
			batchOpen = false
			batchMsgs = 0
		case protocol.VerifEvDeq:
			if !batchOpen {
				firstDeq = e.Mid
			} else {
				emit("SendDeq")
				queued[e.Mid] = true
				batchMsgs++
			}
		case protocol.VerifEvSeg:
			if batchOpen {
				emit("BatchEnd")
				batchOpen = false
			}
			emit(fmt.Sprintf("SendSeg %d", e.A))
		case protocol.VerifEvSegIn:
			flushPut()
			if decodePending {
				out = append(out, lbl{s: "DecIncomplete", isRead: true})
			}
			out = append(out, lbl{s: fmt.Sprintf("SegIn %d", e.A), isRead: true})
			rbuf += e.A
			decodePending = true
			lastLim = false
		case protocol.VerifEvLim:
			flushPut()
			mi := info(e.Mid)
			decodePending = false
			lastLim = true
			l := lbl{s: "DecMsg " + mi.Coq(), isRead: true}
			if e.A == cur {
				out = append(out, l)
				break
			}
			// the state was read before / after a neighbouring state event was traced
			placed := false
			for j := len(out) - 1; j >= 0; j-- {
				if out[j].isRead {
					break
				}
				if out[j].isState {
					if out[j].from == e.A {
						out = append(out[:j], append([]lbl{l}, out[j:]...)...)
						placed = true
						tr.Notes = append(tr.Notes, "DecMsg moved before a state change")
					}
					break
				}
			}
			if !placed {
				for j := i + 1; j < len(evs); j++ {
					if roles[evs[j].Gid] == gRead && evs[j].Kind != protocol.VerifEvAdmit {
						break
					}
					if evs[j].Kind == protocol.VerifEvState {
						if evs[j].A == e.A {
							deferredDec, deferredState, placed = mi, e.A, true
							tr.Notes = append(tr.Notes, "DecMsg moved after a state change")
						}
						break
					}
				}
			}
			if !placed {
				out = append(out, l)
				tr.Notes = append(tr.Notes, fmt.Sprintf("limit read in state %d but state %d is current", e.A, cur))
			}
		case protocol.VerifEvAdmit:
			if deferredDec != nil {
				out = append(out, lbl{s: "DecMsg " + deferredDec.Coq(), isRead: true})
				deferredDec = nil
			}
			out = append(out, lbl{s: "Admit", isRead: true})
			pendingPut = e.Mid
			tr.Pend = append(tr.Pend, e.B)
			lastLim = false
		case protocol.VerifEvTokR:
			emit("TakeRecvToken")
		case protocol.VerifEvHandler:
			emit("HandlerCall")
			tr.Handler = append(tr.Handler, e.Mid)
		case protocol.VerifEvDec:
			emit("HandlerRet HOk")
			tr.Pend = append(tr.Pend, e.A)
		case protocol.VerifEvNote:
			switch e.A {
			case noteHErr:
				emit("HandlerRet HErr")
			case noteStop:
				flushSE()
				emit("Stop")
			case noteMuxDone:
				flushSE()
				emit("MuxDone")
			}
		case protocol.VerifEvSendErr:
			f := full(i)
			switch roles[e.Gid] {
			case gSend:
				flushSE()
				pendSE = fmt.Sprintf("SendError GSend %v", f)
				sendErrored[gSend] = true
			case gRecv:
				flushSE()
				pendSE = fmt.Sprintf("SendError GRecv %v", f)
				sendErrored[gRecv] = true
			case gRead:
				flushPut()
				if deferredDec != nil {
					out = append(out, lbl{s: "DecMsg " + deferredDec.Coq(), isRead: true})
					deferredDec = nil
				}
				if !lastLim {
					if decodePending && rbuf > maxRbuf {
						out = append(out, lbl{s: "DecIncomplete", isRead: true})
					} else {
						out = append(out, lbl{s: "DecBad", isRead: true})
					}
				}
				flushSE()
				pendSE = fmt.Sprintf("SendError GRead %v", f)
				sendErrored[gRead] = true
			case gState:
				flushSE()
				emit(fmt.Sprintf("Timeout %v", f))
			default:
				// the caller of SendMessage (EnqOver) - already part of that label
			}
		case protocol.VerifEvSendErrStop:
			tr.Err = true
		case protocol.VerifEvExitSend:
			flushSE()
			if !sendErrored[gSend] {
				emit("Exit GSend")
			}
		case protocol.VerifEvExitRecv:
			flushSE()
			if !sendErrored[gRecv] {
				emit("Exit GRecv")
			}
		}
	}
	flushSE()
	_ = firstDeq
	_ = batchMsgs
	for _, l := range out {
		tr.Labels = append(tr.Labels, l.s)
	}
	return tr
}

// WireIds parses the payload bytes the peer received into the ids of the
// local messages, by position (the engine must have written exactly the
// encodings of the enqueued messages, in order).
func WireIds(s *Session, wire []byte, enq []uint64) (ids []uint64, ok bool, why string) {
	rest := wire
	for _, id := range enq {
		mi := s.Info(id)
		if len(rest) == 0 {
			return ids, true, ""
		}
		if len(rest) < len(mi.Raw) {
			if bytes.Equal(rest, mi.Raw[:len(rest)]) {
				return ids, true, "" // cut by the shutdown in the middle of a message
			}
			return ids, false, fmt.Sprintf("wire bytes after %d messages are not a prefix of message %d", len(ids), id)
		}
		if !bytes.Equal(rest[:len(mi.Raw)], mi.Raw) {
			return ids, false, fmt.Sprintf("wire bytes after %d messages differ from the encoding of enqueued message %d (type %d)", len(ids), id, mi.Type)
		}
		ids = append(ids, id)
		rest = rest[len(mi.Raw):]
	}
	if len(rest) != 0 {
		return ids, false, fmt.Sprintf("%d extra bytes on the wire after all enqueued messages", len(rest))
	}
	return ids, true, ""
}

func nlist(xs []uint64) string {
	ss := make([]string, len(xs))
	for i, x := range xs {
		ss[i] = fmt.Sprintf("%d", x)
	}
	return "[" + strings.Join(ss, "; ") + "]"
}

// CoqCase renders one correspondence case:
// (sm index, server?, rqcap, labels, (handler ids, states, pend log, wire ids, err))
func CoqCase(smIdx int, server bool, rqcap int, tr Trace, wire []uint64) string {
	lb := "[" + strings.Join(tr.Labels, "; ") + "]"
	return fmt.Sprintf("(%d%%nat, %v, %d, %s, (%s, %s, %s, %s, %s, %v))",
		smIdx, server, rqcap, lb, nlist(tr.Handler), nlist(tr.States), nlist(tr.Pend), nlist(wire), nlist(tr.SendTr), tr.Err)
}
