package main

// Specification-conformance corpus for the monitor: conversations written by
// hand from the specifications (Ouroboros network specification; CIP-0137;
// the Leios README tables), each with the verdict the SPECIFICATION gives:
// the length of the accepted prefix and, if everything is accepted, whether the
// state reached is terminal.  Message names are the specification's.

import (
	"fmt"
	"strings"
)

// spec message names per package (wire tag -> name), from the CDDL / tables
var specNames = map[string]map[uint8]string{
	"handshake":                {0: "ProposeVersions", 1: "AcceptVersion", 2: "Refuse", 3: "QueryReply"},
	"chainsync":                {0: "RequestNext", 1: "AwaitReply", 2: "RollForward", 3: "RollBackward", 4: "FindIntersect", 5: "IntersectFound", 6: "IntersectNotFound", 7: "Done"},
	"blockfetch":               {0: "RequestRange", 1: "ClientDone", 2: "StartBatch", 3: "NoBlocks", 4: "Block", 5: "BatchDone"},
	"txsubmission":             {0: "RequestTxIds", 1: "ReplyTxIds", 2: "RequestTxs", 3: "ReplyTxs", 4: "Done", 6: "Init"},
	"keepalive":                {0: "KeepAlive", 1: "KeepAliveResponse", 2: "Done"},
	"peersharing":              {0: "ShareRequest", 1: "SharePeers", 2: "Done"},
	"localtxsubmission":        {0: "SubmitTx", 1: "AcceptTx", 2: "RejectTx", 3: "Done"},
	"localstatequery":          {0: "Acquire", 1: "Acquired", 2: "Failure", 3: "Query", 4: "Result", 5: "Release", 6: "ReAcquire", 7: "Done", 8: "AcquireVolatileTip", 9: "ReAcquireVolatileTip", 10: "AcquireImmutableTip", 11: "ReAcquireImmutableTip"},
	"localtxmonitor":           {0: "Done", 1: "Acquire", 2: "Acquired", 3: "Release", 5: "NextTx", 6: "ReplyNextTx", 7: "HasTx", 8: "ReplyHasTx", 9: "GetSizes", 10: "ReplyGetSizes", 11: "GetMeasures", 12: "ReplyGetMeasures"},
	"messagesubmission":        {0: "Init", 1: "RequestMessageIds", 2: "ReplyMessageIds", 3: "RequestMessages", 4: "ReplyMessages", 5: "Done"},
	"localmessagesubmission":   {0: "SubmitMessage", 1: "AcceptMessage", 2: "RejectMessage", 3: "Done"},
	"localmessagenotification": {0: "RequestMessages", 1: "ReplyMessagesNonBlocking", 2: "ReplyMessagesBlocking", 3: "ClientDone"},
	"leiosfetch":               {0: "BlockRequest", 1: "Block", 2: "BlockTxsRequest", 3: "BlockTxs", 4: "VotesRequest", 5: "Votes", 6: "BlockRangeRequest", 7: "LastBlockAndTxsInRange", 8: "NextBlockAndTxsInRange", 9: "Done", 10: "NoBlock", 11: "NoBlockTxs"},
	"leiosnotify":              {0: "NotificationRequestNext", 1: "BlockAnnouncement", 2: "BlockOffer", 3: "BlockTxsOffer", 4: "VotesOffer", 5: "Done"},
	"leiosvotes":               {0: "VotesRequestNext", 1: "Vote", 2: "Done"},
}

func labelName(v *variant, l label) string {
	n, ok := specNames[v.Pkg][l.Msg]
	if !ok {
		n = fmt.Sprintf("msg%d", l.Msg)
	}
	if l.Class != 0 {
		for _, g := range v.Guards {
			if g.ID == l.Class && g.MsgType == l.Msg {
				return n + "/" + g.Name
			}
		}
	}
	return n
}

type corpusTrace struct {
	Trace []label
	Spec  specVerdict
	// NoModel: the trace uses a message type the implementation does not know;
	// it is only judged by the monitor
	NoModel bool
}

// "A B/class C | ok" (all accepted, terminal), "... | open" (all accepted, not
// terminal), "... | N" (the specification refuses message number N, 0-based)
var corpusText = map[string][]string{
	"handshake": {
		"ProposeVersions AcceptVersion | ok", "ProposeVersions Refuse | ok", "ProposeVersions QueryReply | ok",
		"ProposeVersions | open", "AcceptVersion | 0", "ProposeVersions ProposeVersions | 1", "ProposeVersions AcceptVersion AcceptVersion | 2",
		"Refuse | 0",
	},
	"chainsync": {
		"RequestNext RollForward RequestNext AwaitReply RollBackward FindIntersect IntersectFound Done | ok",
		"FindIntersect IntersectNotFound RequestNext AwaitReply RollForward | open",
		"RequestNext AwaitReply AwaitReply | 2", "FindIntersect RollForward | 1", "RequestNext IntersectFound | 1",
		"Done RequestNext | 1", "RollForward | 0", "RequestNext RequestNext | 1", "RequestNext AwaitReply IntersectNotFound | 2",
		"FindIntersect AwaitReply | 1", "RequestNext Done | 1",
	},
	"blockfetch": {
		"RequestRange StartBatch Block Block BatchDone RequestRange NoBlocks ClientDone | ok",
		"RequestRange Block | 1", "RequestRange StartBatch NoBlocks | 2", "RequestRange BatchDone | 1",
		"RequestRange StartBatch ClientDone | 2", "StartBatch | 0", "RequestRange NoBlocks Block | 2", "RequestRange StartBatch BatchDone | open",
		"RequestRange StartBatch StartBatch | 2",
	},
	"txsubmission": {
		"Init RequestTxIds/blocking ReplyTxIds RequestTxs ReplyTxs RequestTxIds/nonblocking ReplyTxIds RequestTxIds/blocking Done | ok",
		"Init RequestTxIds/nonblocking Done | 2", "RequestTxIds/blocking | 0", "Init Init | 1", "Init RequestTxs ReplyTxIds | 2",
		"Init RequestTxIds/blocking ReplyTxs | 2", "Init RequestTxs Done | 2", "Init Done | 1", "Init RequestTxIds/nonblocking ReplyTxIds | open",
	},
	"keepalive": {
		"KeepAlive KeepAliveResponse KeepAlive KeepAliveResponse Done | ok", "KeepAlive Done | 1", "KeepAliveResponse | 0", "KeepAlive KeepAlive | 1", "Done | ok",
	},
	"peersharing": {
		"ShareRequest SharePeers Done | ok", "SharePeers | 0", "ShareRequest Done | 1", "ShareRequest SharePeers SharePeers | 2",
	},
	"localtxsubmission": {
		"SubmitTx AcceptTx SubmitTx RejectTx Done | ok", "SubmitTx SubmitTx | 1", "AcceptTx | 0", "SubmitTx Done | 1", "SubmitTx AcceptTx RejectTx | 2",
	},
	"localstatequery": {
		"Acquire Acquired Query Result ReAcquire Failure AcquireVolatileTip Acquired Release AcquireImmutableTip Acquired ReAcquireVolatileTip Acquired ReAcquireImmutableTip Acquired Release Done | ok",
		"Acquire Query | 1", "Query | 0", "Acquire Acquired Result | 2", "Acquire Acquired Query Acquired | 3", "Acquire Acquired Done | 2",
		"Acquire Failure Release | 2", "Acquire Acquired Query Release | 3", "ReAcquire | 0", "Acquire Acquired Query Failure | 3",
	},
	"localtxmonitor": {
		"Acquire Acquired NextTx ReplyNextTx HasTx ReplyHasTx GetSizes ReplyGetSizes Acquire Acquired Release Done | ok",
		"Acquire Acquired HasTx ReplyNextTx | 3", "Acquire Acquired NextTx ReplyHasTx | 3", "Acquire Acquired GetSizes ReplyNextTx | 3",
		"Acquire Acquired HasTx ReplyGetSizes | 3", "Acquire Acquired NextTx ReplyGetSizes | 3", "Acquire Acquired GetSizes ReplyHasTx | 3",
		"Acquire NextTx | 1", "Acquire Acquired Done | 2", "NextTx | 0", "Acquire Acquired NextTx Acquired | 3", "Release | 0",
		// NodeToClientV_20 and later
		"Acquire Acquired GetMeasures ReplyGetMeasures Release Done | ok !",
	},
	"messagesubmission_v1": {
		"Init RequestMessageIds/blocking ReplyMessageIds RequestMessages ReplyMessages RequestMessageIds/nonblocking ReplyMessageIds RequestMessageIds/blocking Done | ok",
		"Init RequestMessageIds/nonblocking Done | 2", "RequestMessageIds/blocking | 0", "Init Init | 1", "Init Done | 1", "Init RequestMessages ReplyMessageIds | 2",
	},
	"messagesubmission_v2": {
		"RequestMessageIds/blocking ReplyMessageIds RequestMessages ReplyMessages RequestMessageIds/nonblocking ReplyMessageIds Done | ok",
		"RequestMessageIds/blocking Done | 1", "RequestMessageIds/nonblocking Done | 1", "Init | 0", "Done | ok", "RequestMessages ReplyMessageIds | 1",
	},
	"localmessagesubmission": {
		"SubmitMessage AcceptMessage SubmitMessage RejectMessage Done | ok", "SubmitMessage SubmitMessage | 1", "AcceptMessage | 0", "SubmitMessage Done | 1",
	},
	"localmessagenotification": {
		"RequestMessages/blocking ReplyMessagesBlocking RequestMessages/nonblocking ReplyMessagesNonBlocking ClientDone | ok",
		"RequestMessages/blocking ReplyMessagesNonBlocking | 1", "RequestMessages/nonblocking ReplyMessagesBlocking | 1",
		"ReplyMessagesBlocking | 0", "RequestMessages/blocking ClientDone | 1",
	},
	"leiosfetch": {
		"BlockRequest Block BlockRequest NoBlock BlockTxsRequest BlockTxs BlockTxsRequest NoBlockTxs VotesRequest Votes BlockRangeRequest NextBlockAndTxsInRange LastBlockAndTxsInRange Done | ok",
		"BlockRequest BlockTxs | 1", "BlockRequest NoBlockTxs | 1", "BlockRangeRequest Block | 1", "VotesRequest NoBlock | 1", "BlockTxsRequest NoBlock | 1",
		"BlockRangeRequest NextBlockAndTxsInRange Done | 2", "Block | 0",
	},
	"leiosnotify": {
		"NotificationRequestNext BlockAnnouncement NotificationRequestNext BlockOffer NotificationRequestNext BlockTxsOffer NotificationRequestNext VotesOffer Done | ok",
		"BlockOffer | 0", "NotificationRequestNext Done | 1", "NotificationRequestNext BlockOffer BlockOffer | 2",
	},
	"leiosvotes": {
		"VotesRequestNext/count_ok Vote/more_pending Vote/final Done | ok", "VotesRequestNext/count_zero | 0", "VotesRequestNext/count_over_max | 0",
		"VotesRequestNext/count_ok Vote/final Vote/none_outstanding | 2", "VotesRequestNext/count_ok Done | 1",
		"VotesRequestNext/count_ok Vote/more_pending Vote/more_pending Vote/final VotesRequestNext/count_ok Vote/final | open",
	},
}

func corpusFor(v *variant) []corpusTrace {
	lines := corpusText[v.Name]
	if lines == nil {
		key := v.Pkg
		lines = corpusText[key]
	}
	var out []corpusTrace
	for _, ln := range lines {
		parts := strings.Split(ln, "|")
		if len(parts) != 2 {
			panic("bad corpus line: " + ln)
		}
		var ct corpusTrace
		for _, tok := range strings.Fields(parts[0]) {
			nm, cls, _ := strings.Cut(tok, "/")
			l := label{}
			found := false
			for id, n := range specNames[v.Pkg] {
				if n == nm {
					l.Msg, found = id, true
				}
			}
			if !found {
				panic("corpus: unknown message " + nm + " in " + v.Name)
			}
			if cls != "" {
				ok := false
				for _, g := range v.Guards {
					if g.Name == cls && g.MsgType == l.Msg {
						l.Class, ok = g.ID, true
					}
				}
				if !ok {
					panic("corpus: unknown class " + cls + " in " + v.Name)
				}
			}
			ct.Trace = append(ct.Trace, l)
		}
		verdict := strings.Fields(parts[1])
		switch verdict[0] {
		case "ok":
			ct.Spec = specVerdict{Accepted: len(ct.Trace), Done: true}
		case "open":
			ct.Spec = specVerdict{Accepted: len(ct.Trace), Done: false}
		default:
			n := 0
			fmt.Sscanf(verdict[0], "%d", &n)
			ct.Spec = specVerdict{Accepted: n}
		}
		if len(verdict) > 1 && verdict[1] == "!" {
			ct.NoModel = true
		}
		out = append(out, ct)
	}
	return out
}
