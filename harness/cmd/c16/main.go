// C16 - mini-protocol state machines match the network specification.
//
//	gen  : real state maps (as configured by the real NewClient/NewServer) -> coq/C16/Gen.v
//	run  : (1) monitor: a hand-written corpus of conversations taken from the
//	           specification, each with the verdict the specification gives, is
//	           driven through the REAL protocol engine in both roles;
//	       (2) correspondence: generated traces (exhaustive short + random walks
//	           up to length 8, accepted and refused) are driven through the real
//	           engine; Coq evaluates Gen.v on the same traces (check_case);
//	       (3) a report file asks Coq for the shortest distinguishing trace
//	           between every generated automaton and its hand specification
//	post : Coq's mismatch lists -> correspondence verdicts; every distinguishing
//	       trace is replayed on the real engine -> monitor violation
//	       "<protocol>:<message names>"
package main

import (
	"encoding/json"
	"fmt"
	"os"
	"path/filepath"
	"regexp"
	"strconv"
	"strings"

	"verifharness/vh"
)

const header = `From Coq Require Import String.
From V Require Import Lib.Base Lib.Automata C16.Model.
Open Scope string_scope.`

type rcase struct {
	Aut      string  `json:"automaton"` // <variant>_<role>
	Trace    []label `json:"trace"`
	Names    string  `json:"names"`
	Accepted int     `json:"accepted_by_engine"`
	Done     bool    `json:"engine_is_done"`
	Stuck    string  `json:"stuck,omitempty"`
	// expectation of the specification corpus (monitor cases only)
	Spec *specVerdict `json:"spec,omitempty"`
}

type specVerdict struct {
	Accepted int  `json:"accepted"` // length of the prefix the specification accepts
	Done     bool `json:"done"`     // whole trace accepted and the state reached is terminal
}

func coqTrace(tr []label) string {
	xs := make([]string, len(tr))
	for i, l := range tr {
		xs[i] = vh.Pair(vh.N(uint64(l.Msg)), vh.N(uint64(l.Class)))
	}
	return vh.List(xs)
}

func coqCase(rc rcase) string {
	return fmt.Sprintf("(%s, %s, %s, %s)", vh.Str(rc.Aut), coqTrace(rc.Trace), vh.N(uint64(rc.Accepted)), vh.Bool(rc.Done))
}

func traceNames(v *variant, tr []label) string {
	xs := make([]string, len(tr))
	for i, l := range tr {
		xs[i] = labelName(v, l)
	}
	return strings.Join(xs, ",")
}

// labels usable in generated traces: message types with declared guard classes
// only occur with one of those classes (a real message always is in one)
func alphabetOf(v *variant) []label {
	var out []label
	ts := make([]int, 0, len(v.Samples))
	for t := range v.Samples {
		ts = append(ts, int(t))
	}
	sortInts(ts)
	for _, t := range ts {
		n := 0
		for _, g := range v.Guards {
			if int(g.MsgType) == t {
				out = append(out, label{uint8(t), g.ID})
				n++
			}
		}
		if n == 0 {
			out = append(out, label{uint8(t), 0})
		}
	}
	return out
}

func sortInts(xs []int) {
	for i := 1; i < len(xs); i++ {
		for j := i; j > 0 && xs[j] < xs[j-1]; j-- {
			xs[j], xs[j-1] = xs[j-1], xs[j]
		}
	}
}

func genTraces(c *vh.Ctx, v *variant, a *gAut) [][]label {
	alpha := alphabetOf(v)
	var out [][]label
	seen := map[string]bool{}
	add := func(tr []label) {
		if !realizable(v, tr) {
			return
		}
		k := fmt.Sprint(tr)
		if !seen[k] {
			seen[k] = true
			out = append(out, append([]label(nil), tr...))
		}
	}
	// exhaustive: every accepted prefix up to depth D extended by every label
	depth := c.Pick(2, 3)
	var rec func(q uint, tr []label)
	rec = func(q uint, tr []label) {
		for _, l := range alpha {
			t2 := append(append([]label(nil), tr...), l)
			add(t2)
			if nq, ok := a.stepGo(q, l.Msg, l.Class); ok && len(t2) < depth+1 {
				rec(nq, t2)
			}
		}
	}
	rec(a.Init, nil)
	// random walks: follow permitted transitions, end with an arbitrary label
	n := c.Pick(25, 400)
	for i := 0; i < n; i++ {
		L := 3 + c.Rng.Intn(6) // total length 3..8
		q := a.Init
		var tr []label
		for len(tr) < L-1 {
			var okl []label
			for _, l := range alpha {
				if _, ok := a.stepGo(q, l.Msg, l.Class); ok {
					okl = append(okl, l)
				}
			}
			if len(okl) == 0 {
				break
			}
			// avoid ending the conversation early most of the time
			l := okl[c.Rng.Intn(len(okl))]
			if nq, _ := a.stepGo(q, l.Msg, l.Class); a.agency(nq) == 0 && c.Rng.Chance(3, 4) {
				l = okl[c.Rng.Intn(len(okl))]
			}
			nq, _ := a.stepGo(q, l.Msg, l.Class)
			tr = append(tr, l)
			q = nq
		}
		tr = append(tr, alpha[c.Rng.Intn(len(alpha))])
		add(tr)
	}
	return out
}

func findVariant(exs []*extracted, name string) (*extracted, int) {
	for _, ex := range exs {
		for i, a := range ex.Auts {
			if a.Name == name {
				return ex, i
			}
		}
	}
	return nil, 0
}

// drive runs one trace on the real engine and records the observation.
func drive(c *vh.Ctx, ex *extracted, role int, tr []label, spec *specVerdict) (rcase, error) {
	a := ex.Auts[role]
	rc := rcase{Aut: a.Name, Trace: tr, Names: traceNames(ex.V, tr), Spec: spec}
	c.Begin(rc)
	var res engineResult
	var err error
	panicked, pv := vh.Recover(func() { res, err = runEngine(ex.V, ex.Cfgs[role], a, tr) })
	if panicked {
		return rc, fmt.Errorf("engine panicked: %v", pv)
	}
	if err != nil {
		return rc, err
	}
	rc.Accepted, rc.Done, rc.Stuck = res.Accepted, res.Done, res.Stuck
	return rc, nil
}

// monitorCheck compares an engine observation with the specification's verdict.
func monitorCheck(c *vh.Ctx, ex *extracted, rc rcase) {
	if rc.Spec == nil {
		return
	}
	sp := rc.Spec
	if rc.Stuck == "" && rc.Accepted == sp.Accepted && (sp.Accepted < len(rc.Trace) || rc.Done == sp.Done) {
		return
	}
	// key: the conversation up to and including the message on which the verdicts part
	cut := rc.Accepted
	if sp.Accepted < cut {
		cut = sp.Accepted
	}
	if cut < len(rc.Trace) {
		cut++
	}
	key := ex.V.Name + ":" + traceNames(ex.V, rc.Trace[:cut])
	what := fmt.Sprintf("%s: the specification accepts %d of %d messages of [%s] (terminal=%v), the real engine accepted %d (IsDone=%v%s)",
		rc.Aut, sp.Accepted, len(rc.Trace), rc.Names, sp.Done, rc.Accepted, rc.Done, stuckNote(rc.Stuck))
	c.Res.Violate("monitor", key, what, rc)
}

func stuckNote(s string) string {
	if s == "" {
		return ""
	}
	return "; " + s
}

func run(c *vh.Ctx) error {
	c.Res.Rule = "per protocol variant and role: (monitor) hand-written specification conversations with the specification's verdict; (correspondence) every accepted prefix up to depth 2/3 extended by every label of the variant's alphabet, plus random walks of total length 3..8 along permitted transitions ending in an arbitrary label; distinct by automaton+trace; non-trivial = at least 2 messages accepted by the engine or a refusal after at least one accepted message"
	c.Res.Modelled = []string{
		"guard classes: MatchFuncs are sampled on representatives of each declared class (harness/cmd/c16/samples.go); a class the code distinguishes but the table does not declare would go unnoticed unless it changes a sampled verdict",
		"leios-votes token counter is abstracted into guard classes (count_ok / more_pending / final / none_outstanding)",
		"the engine run replaces the message handler by a recorder and disables state timeouts; agency is observed through who can send",
	}
	exs, err := extractAll(repoDir())
	if err != nil {
		return err
	}
	for _, ex := range exs {
		if ex.DecSrc == "probe" {
			c.Res.Notes = append(c.Res.Notes, fmt.Sprintf("%s: decoder-case set from the dynamic probe (%s)", ex.V.Name, ex.DecWhy))
		}
	}
	c.Res.Notes = append(c.Res.Notes, "decoder-case sets: go/ast scan of NewMsgFromCbor unless listed above as probe; the dynamic probe (ids 0..63, real constructor sample and bare [id]) is required in addition for every variant")
	// vh.NewRng streams of adjacent seeds are shifts of each other; derive a
	// decorrelated stream so that seeds really give different walks
	c.Rng = c.Rng.Fork().Fork()
	cf := c.NewCaseFile("c16", header)
	cf.SetShardSize(c.Pick(250, 600))

	if c.Replay != "" {
		b, err := os.ReadFile(c.Replay)
		if err != nil {
			return err
		}
		var rp struct {
			Replay rcase `json:"replay"`
		}
		if err := json.Unmarshal(b, &rp); err != nil {
			return err
		}
		ex, role := findVariant(exs, rp.Replay.Aut)
		if ex == nil {
			return fmt.Errorf("unknown automaton %q", rp.Replay.Aut)
		}
		rc, err := drive(c, ex, role, rp.Replay.Trace, rp.Replay.Spec)
		if err != nil {
			return err
		}
		c.Res.Count(rc.Aut+rc.Names, true, "replay")
		monitorCheck(c, ex, rc)
		cf.Add(coqCase(rc), rc)
		cf.Flush()
		return writeReport(c)
	}

	for _, ex := range exs {
		// (1) monitor corpus
		for _, ct := range corpusFor(ex.V) {
			for role := range ex.Auts {
				sp := ct.Spec
				rc, err := drive(c, ex, role, ct.Trace, &sp)
				if err != nil {
					c.Res.Violate("monitor", ex.V.Name+":harness-error", err.Error(), rc)
					continue
				}
				c.Res.Count(rc.Aut+"|"+rc.Names, true, "corpus/"+ex.V.Name)
				monitorCheck(c, ex, rc)
				if !ct.NoModel {
					cf.Add(coqCase(rc), rc)
				}
				c.Res.TracesValidated++
			}
		}
		// (2) generated traces
		for role, a := range ex.Auts {
			for _, tr := range genTraces(c, ex.V, a) {
				rc, err := drive(c, ex, role, tr, nil)
				if err != nil {
					c.Res.Violate("correspondence", "engine-run-failed:"+a.Name, err.Error(), rc)
					continue
				}
				if rc.Stuck != "" {
					c.Res.Violate("correspondence", "engine-stuck:"+a.Name, rc.Stuck+" on ["+rc.Names+"]", rc)
				}
				nontrivial := rc.Accepted >= 2 || (rc.Accepted >= 1 && rc.Accepted < len(tr))
				cls := "accepted"
				if rc.Accepted < len(tr) {
					cls = "refused"
				}
				c.Res.Count(rc.Aut+"|"+rc.Names, nontrivial, fmt.Sprintf("%s/len%d", cls, len(tr)))
				if nontrivial {
					c.Res.Sample(map[string]any{"automaton": rc.Aut, "trace": rc.Names, "accepted": rc.Accepted, "done": rc.Done})
				}
				cf.Add(coqCase(rc), rc)
				c.Res.TracesValidated++
			}
		}
	}
	cf.Flush()
	return writeReport(c)
}

// writeReport adds the case file that asks Coq for the distinguishing traces.
func writeReport(c *vh.Ctx) error {
	src := `From Coq Require Import String.
From V Require Import Lib.Base Lib.Automata Lib.Bisim C16.Model.
Set Printing Width 100000.
Set Printing Depth 1000000.
Definition M := Eval vm_compute in (report (pairs ++ known_pairs)).
Print M.
`
	fn := "cases_report_0"
	if err := os.WriteFile(filepath.Join(c.Out, fn+".v"), []byte(src), 0o644); err != nil {
		return err
	}
	c.Res.CaseFiles = append(c.Res.CaseFiles, fn)
	return nil
}

var rowRe = regexp.MustCompile(`\("([a-z0-9_]+)"(?:%string)?,\s*(true|false),\s*(\[[^\]]*\]|nil),\s*(true|false),\s*(true|false),\s*(\d+)(?:%N)?,\s*(\d+)(?:%N)?\)`)
var pairRe = regexp.MustCompile(`\((\d+)(?:%N)?,\s*(\d+)(?:%N)?\)`)

func post(c *vh.Ctx) error {
	// the report file is handled here, all others by the default post
	var rest []string
	report := ""
	for _, fn := range c.Res.CaseFiles {
		if fn == "cases_report_0" {
			report = fn
		} else {
			rest = append(rest, fn)
		}
	}
	all := c.Res.CaseFiles
	c.Res.CaseFiles = rest
	if err := vh.DefaultPost(c); err != nil {
		return err
	}
	c.Res.CaseFiles = all
	if report == "" {
		return nil
	}
	b, err := os.ReadFile(filepath.Join(c.Out, report+".out"))
	if err != nil {
		c.Res.Violate("correspondence", "coqc-failed:"+report, "no output of the distinguishing-trace report", nil)
		return nil
	}
	rows := rowRe.FindAllStringSubmatch(string(b), -1)
	if len(rows) == 0 {
		msg := string(b)
		if len(msg) > 600 {
			msg = msg[:600]
		}
		c.Res.Violate("correspondence", "coqc-failed:"+report, "cannot evaluate the distinguishing-trace report: "+msg, nil)
		return nil
	}
	exs, err := extractAll("")
	if err != nil {
		return err
	}
	for _, r := range rows {
		if r[2] != "true" {
			continue
		}
		name := r[1]
		var tr []label
		for _, p := range pairRe.FindAllStringSubmatch(r[3], -1) {
			m, _ := strconv.Atoi(p[1])
			cl, _ := strconv.Atoi(p[2])
			tr = append(tr, label{uint8(m), cl})
		}
		accImpl, accSpec := r[4] == "true", r[5] == "true"
		agImpl, agSpec := r[6], r[7]
		autName := strings.Replace(name, "_v20_", "_", 1)
		ex, role := findVariant(exs, autName)
		if ex == nil {
			c.Res.Violate("correspondence", "report-unknown:"+name, "report names an unknown automaton", nil)
			continue
		}
		sp := specVerdict{Accepted: len(tr), Done: agSpec == "0"}
		if !accSpec {
			sp.Accepted = len(tr) - 1
			sp.Done = false
		}
		rc, err := drive(c, ex, role, tr, &sp)
		if err != nil {
			c.Res.Violate("correspondence", "engine-run-failed:"+name, err.Error(), rc)
			continue
		}
		engineAcc := rc.Accepted == len(tr) && rc.Stuck == ""
		key := ex.V.Name + ":" + traceNames(ex.V, tr)
		what := fmt.Sprintf("%s: shortest trace on which the state machine and the specification differ: [%s]; specification: accepted=%v final agency code=%s; generated automaton: accepted=%v final agency code=%s; real engine: accepted %d of %d, IsDone=%v%s",
			name, rc.Names, accSpec, agSpec, accImpl, agImpl, rc.Accepted, len(tr), rc.Done, stuckNote(rc.Stuck))
		if engineAcc == accImpl {
			// the real engine does what the generated automaton says, i.e. it deviates from the specification
			c.Res.Violate("monitor", key, what, rc)
		} else {
			c.Res.Violate("correspondence", "gen-vs-engine:"+key, what, rc)
		}
	}
	return nil
}

func main() { vh.Main(vh.Runner{Property: "C16", Gen: gen, Run: run, Post: post}) }
