package main

// Translator: real protocol.StateMap values -> coq/C16/Gen.v.

import (
	"fmt"
	"go/ast"
	"go/parser"
	"go/token"
	"os"
	"path/filepath"
	"sort"
	"strconv"
	"strings"

	"github.com/blinklabs-io/gouroboros/cbor"
	"github.com/blinklabs-io/gouroboros/protocol"

	"verifharness/vh"
)

type gTrans struct {
	Msg     uint8
	Guarded bool
	Classes []int // classes on which the MatchFunc returned true
	Next    uint
}

type gState struct {
	Id      uint
	Name    string
	Agency  protocol.ProtocolStateAgency
	Timeout int64
	Dyn     bool
	Limit   int
	Trans   []gTrans
}

type gAut struct {
	Name   string
	Init   uint
	States []gState
}

func (a *gAut) state(id uint) *gState {
	for i := range a.States {
		if a.States[i].Id == id {
			return &a.States[i]
		}
	}
	return nil
}

// stepGo mirrors Automata.step on the extracted table (only used to steer
// trace generation; verdicts are computed by Coq on Gen.v).
func (a *gAut) stepGo(q uint, msg uint8, class int) (uint, bool) {
	s := a.state(q)
	if s == nil {
		return 0, false
	}
	for _, t := range s.Trans {
		if t.Msg != msg {
			continue
		}
		if t.Guarded {
			ok := false
			for _, c := range t.Classes {
				if c == class {
					ok = true
				}
			}
			if !ok {
				continue
			}
		}
		return t.Next, true
	}
	return 0, false
}

func (a *gAut) agency(q uint) protocol.ProtocolStateAgency {
	if s := a.state(q); s != nil {
		return s.Agency
	}
	return protocol.AgencyNone
}

// sampleGuard evaluates a MatchFunc on every representative of a class.
func sampleGuard(v *variant, cfg protocol.ProtocolConfig, f protocol.StateTransitionMatchFunc, g guardClass) (bool, error) {
	preps := g.Preps
	if len(preps) == 0 {
		preps = []func(any){nil}
	}
	first, have := false, false
	for _, prep := range preps {
		for _, rep := range g.Reps {
			if prep != nil {
				prep(cfg.StateContext)
			}
			var res bool
			panicked, pv := vh.Recover(func() { res = f(cfg.StateContext, rep()) })
			if panicked {
				return false, fmt.Errorf("%s: MatchFunc panicked on class %s: %v", v.Name, g.Name, pv)
			}
			if have && res != first {
				return false, fmt.Errorf("%s: MatchFunc is not uniform on guard class %s - the class table in harness/cmd/c16/samples.go no longer matches the code", v.Name, g.Name)
			}
			first, have = res, true
		}
	}
	return first, nil
}

func extract(v *variant, rc roleCfg) (*gAut, error) {
	cfg := rc.Cfg
	a := &gAut{Name: v.Name + "_" + rc.Role, Init: cfg.InitialState.Id}
	names := map[uint]string{}
	note := func(s protocol.State) error {
		if n, ok := names[s.Id]; ok && n != s.Name {
			return fmt.Errorf("%s: two distinct State values share id %d (%q, %q): map lookups by State would differ from lookups by id", a.Name, s.Id, n, s.Name)
		}
		names[s.Id] = s.Name
		return nil
	}
	if err := note(cfg.InitialState); err != nil {
		return nil, err
	}
	for st, e := range cfg.StateMap {
		if err := note(st); err != nil {
			return nil, err
		}
		gs := gState{Id: st.Id, Name: st.Name, Agency: e.Agency, Timeout: int64(e.Timeout), Dyn: e.TimeoutFunc != nil, Limit: e.PendingMessageByteLimit}
		for _, t := range e.Transitions {
			if err := note(t.NewState); err != nil {
				return nil, err
			}
			gt := gTrans{Msg: t.MsgType, Next: t.NewState.Id}
			if t.MatchFunc != nil {
				gt.Guarded = true
				n := 0
				for _, g := range v.Guards {
					if g.MsgType != t.MsgType {
						continue
					}
					n++
					ok, err := sampleGuard(v, cfg, t.MatchFunc, g)
					if err != nil {
						return nil, err
					}
					if ok {
						gt.Classes = append(gt.Classes, g.ID)
					}
				}
				if n == 0 {
					return nil, fmt.Errorf("%s: state %s has a MatchFunc on message type %d but no guard classes are declared for it (add them to harness/cmd/c16/samples.go)", a.Name, st.Name, t.MsgType)
				}
			}
			gs.Trans = append(gs.Trans, gt)
		}
		a.States = append(a.States, gs)
	}
	sort.Slice(a.States, func(i, j int) bool { return a.States[i].Id < a.States[j].Id })
	return a, nil
}

// decodableAST lists the message type ids for which the decoder function in
// messages.go has a case, by a tolerant go/ast scan.  Recognised forms, in
// the decoder function and in package-level helper functions it calls (depth
// <= 3): `switch <param> { case C: ... }`, `if <param> == C { ... }` chains,
// and package-level composite literals (tables / maps of constructors) with
// constant keys or positional elements that the functions refer to.  The scan
// may over-approximate (a table entry behind a wrong bounds guard); it is only
// one of two sources - the dynamic probe (decodableDyn) must agree as well.
// ok=false: no recognisable pattern - the caller falls back to the probe.
func decodableAST(repo string, v *variant) (ids []int, ok bool, why string) {
	dir := filepath.Join(repo, "protocol", v.Pkg)
	fset := token.NewFileSet()
	pkgs, err := parser.ParseDir(fset, dir, func(fi os.FileInfo) bool { return !strings.HasSuffix(fi.Name(), "_test.go") }, 0)
	if err != nil {
		return nil, false, "cannot parse " + dir + ": " + err.Error()
	}
	consts := map[string]int{}
	funcs := map[string]*ast.FuncDecl{}
	vars := map[string]ast.Expr{}
	for _, p := range pkgs {
		for _, f := range p.Files {
			for _, d := range f.Decls {
				switch d := d.(type) {
				case *ast.GenDecl:
					if d.Tok == token.VAR {
						for _, sp := range d.Specs {
							vs := sp.(*ast.ValueSpec)
							for i, n := range vs.Names {
								if i < len(vs.Values) {
									vars[n.Name] = vs.Values[i]
								}
							}
						}
					}
					if d.Tok != token.CONST {
						continue
					}
					iota := 0
					var last ast.Expr
					for _, sp := range d.Specs {
						vs := sp.(*ast.ValueSpec)
						for i, n := range vs.Names {
							var e ast.Expr
							if i < len(vs.Values) {
								e = vs.Values[i]
								last = e
							} else {
								e = last
							}
							if val, ok := evalConst(e, iota, consts); ok {
								consts[n.Name] = val
							}
						}
						iota++
					}
				case *ast.FuncDecl:
					if d.Recv == nil {
						funcs[d.Name.Name] = d
					}
				}
			}
		}
	}
	fn := funcs[v.DecoderFunc]
	if fn == nil || fn.Body == nil {
		return nil, false, "decoder function " + v.DecoderFunc + " not found"
	}
	set := map[int]bool{}
	visited := map[string]bool{}
	var scan func(f *ast.FuncDecl, depth int)
	scan = func(f *ast.FuncDecl, depth int) {
		if f == nil || f.Body == nil || visited[f.Name.Name] || depth > 3 {
			return
		}
		visited[f.Name.Name] = true
		params := map[string]bool{}
		if f.Type.Params != nil {
			for _, fl := range f.Type.Params.List {
				for _, n := range fl.Names {
					params[n.Name] = true
				}
			}
		}
		// local aliases of a parameter: `t := uint8(msgType)`
		isParam := func(e ast.Expr) bool {
			for {
				switch x := e.(type) {
				case *ast.ParenExpr:
					e = x.X
					continue
				case *ast.CallExpr:
					if len(x.Args) == 1 {
						e = x.Args[0]
						continue
					}
					return false
				case *ast.Ident:
					return params[x.Name]
				}
				return false
			}
		}
		ast.Inspect(f.Body, func(n ast.Node) bool {
			switch x := n.(type) {
			case *ast.AssignStmt:
				if len(x.Lhs) == 1 && len(x.Rhs) == 1 && isParam(x.Rhs[0]) {
					if id, ok := x.Lhs[0].(*ast.Ident); ok {
						params[id.Name] = true
					}
				}
			case *ast.SwitchStmt:
				if x.Tag != nil && isParam(x.Tag) {
					for _, c := range x.Body.List {
						cc := c.(*ast.CaseClause)
						if len(cc.Body) == 0 {
							continue // an empty case selects nothing
						}
						for _, e := range cc.List {
							if val, ok := evalConst(e, 0, consts); ok {
								set[val] = true
							}
						}
					}
				}
			case *ast.BinaryExpr:
				if x.Op == token.EQL {
					if isParam(x.X) {
						if val, ok := evalConst(x.Y, 0, consts); ok {
							set[val] = true
						}
					} else if isParam(x.Y) {
						if val, ok := evalConst(x.X, 0, consts); ok {
							set[val] = true
						}
					}
				}
			case *ast.CallExpr:
				if id, ok := x.Fun.(*ast.Ident); ok {
					if h := funcs[id.Name]; h != nil {
						for _, a := range x.Args {
							if isParam(a) {
								scan(h, depth+1)
								break
							}
						}
					}
				}
			case *ast.Ident:
				if val, ok := vars[x.Name]; ok {
					if cl, ok := val.(*ast.CompositeLit); ok {
						for i, el := range cl.Elts {
							if kv, ok := el.(*ast.KeyValueExpr); ok {
								if k, ok := evalConst(kv.Key, 0, consts); ok {
									set[k] = true
								}
							} else if _, isArr := cl.Type.(*ast.ArrayType); isArr {
								set[i] = true
							}
						}
					}
				}
			}
			return true
		})
	}
	scan(fn, 0)
	if len(set) == 0 {
		return nil, false, "no switch / if-chain / constructor table on the message type found in " + v.DecoderFunc
	}
	for k := range set {
		ids = append(ids, k)
	}
	sort.Ints(ids)
	return ids, true, ""
}

func evalConst(e ast.Expr, iota int, consts map[string]int) (int, bool) {
	switch e := e.(type) {
	case *ast.BasicLit:
		if e.Kind == token.INT {
			n, err := strconv.ParseInt(e.Value, 0, 64)
			return int(n), err == nil
		}
	case *ast.Ident:
		if e.Name == "iota" {
			return iota, true
		}
		v, ok := consts[e.Name]
		return v, ok
	case *ast.ParenExpr:
		return evalConst(e.X, iota, consts)
	case *ast.CallExpr: // uint8(3) style conversions
		if len(e.Args) == 1 {
			return evalConst(e.Args[0], iota, consts)
		}
	case *ast.BinaryExpr:
		a, ok1 := evalConst(e.X, iota, consts)
		b, ok2 := evalConst(e.Y, iota, consts)
		if ok1 && ok2 {
			switch e.Op {
			case token.ADD:
				return a + b, true
			case token.SUB:
				return a - b, true
			}
		}
	}
	return 0, false
}

// decodableDyn is the dynamic probe: for every message type id 0..63 the REAL
// decoder of the config is given (a) the sample message built with the
// package's real constructor and encoded by the real codec, if there is one,
// and (b) the bare one-element array [id]; the id counts as decodable when one
// of them comes back as a message of that type.
func decodableDyn(v *variant, cfg protocol.ProtocolConfig) []int {
	var out []int
	try := func(t uint8, data []byte) bool {
		var ok bool
		vh.Recover(func() {
			m, err := cfg.MessageFromCborFunc(uint(t), data)
			ok = err == nil && m != nil && m.Type() == t
		})
		return ok
	}
	for id := 0; id < 64; id++ {
		t := uint8(id)
		ok := false
		if mkf := v.Samples[t]; mkf != nil {
			vh.Recover(func() {
				if data, err := encodeMsg(mkf()); err == nil {
					ok = try(t, data)
				}
			})
		}
		if !ok {
			ok = try(t, []byte{0x81, byte(id)}) || (id >= 24 && try(t, []byte{0x81, 0x18, byte(id)}))
		}
		if ok {
			out = append(out, id)
		}
	}
	return out
}

func encodeMsg(m protocol.Message) ([]byte, error) {
	if c := m.Cbor(); c != nil {
		return c, nil
	}
	return cbor.Encode(m)
}

func coqAgency(a protocol.ProtocolStateAgency) string {
	switch a {
	case protocol.AgencyClient:
		return "AgClient"
	case protocol.AgencyServer:
		return "AgServer"
	}
	return "AgNone"
}

func coqNs(xs []int) string {
	s := make([]string, len(xs))
	for i, x := range xs {
		s[i] = vh.N(uint64(x))
	}
	return vh.List(s)
}

func (a *gAut) coq() string {
	var sb strings.Builder
	fmt.Fprintf(&sb, "Definition impl_%s : aut := mkA %s [\n", a.Name, vh.Str(a.Name))
	for i, s := range a.States {
		ts := make([]string, len(s.Trans))
		for j, t := range s.Trans {
			g := "None"
			if t.Guarded {
				g = "(Some " + coqNs(t.Classes) + ")"
			}
			ts[j] = fmt.Sprintf("mkT %s %s %s", vh.N(uint64(t.Msg)), g, vh.N(uint64(t.Next)))
		}
		sep := ";"
		if i == len(a.States)-1 {
			sep = ""
		}
		fmt.Fprintf(&sb, "  mkS %s %s %s %s %s %s %s%s\n", vh.N(uint64(s.Id)), vh.Str(s.Name), coqAgency(s.Agency),
			vh.List(ts), vh.Z(s.Timeout), vh.Bool(s.Dyn), vh.N(uint64(s.Limit)), sep)
	}
	fmt.Fprintf(&sb, "] %s.\n", vh.N(uint64(a.Init)))
	return sb.String()
}

type extracted struct {
	V      *variant
	Auts   []*gAut // client, server
	Cfgs   []roleCfg
	DecAST []int
	DecDyn []int
	DecSrc string // "ast" or "probe" (go/ast pattern not found: dec_ast is the probe's set)
	DecWhy string
}

func extractAll(repo string) ([]*extracted, error) {
	vs := variants()
	var out []*extracted
	for i := range vs {
		v := &vs[i]
		rcs, err := v.configs()
		if err != nil {
			return nil, err
		}
		ex := &extracted{V: v, Cfgs: rcs}
		for _, rc := range rcs {
			a, err := extract(v, rc)
			if err != nil {
				return nil, err
			}
			ex.Auts = append(ex.Auts, a)
		}
		ex.DecDyn = decodableDyn(v, rcs[0].Cfg)
		if repo != "" {
			ids, ok, why := decodableAST(repo, v)
			if os.Getenv("C16_FORCE_PROBE") != "" { // test switch for the fallback path
				ok, why = false, "forced by C16_FORCE_PROBE"
			}
			if ok {
				ex.DecAST, ex.DecSrc = ids, "ast"
			} else {
				// syntactic form not recognised: the decoder-case set comes from the probe
				ex.DecAST, ex.DecSrc, ex.DecWhy = ex.DecDyn, "probe", why
			}
		}
		out = append(out, ex)
	}
	return out, nil
}

func repoDir() string {
	if r := os.Getenv("VERIF_REPO"); r != "" {
		return r
	}
	return "/repo"
}

func gen(out string) error {
	exs, err := extractAll(repoDir())
	if err != nil {
		return err
	}
	var sb strings.Builder
	sb.WriteString("(* GENERATED by `harness/cmd/c16 gen` from the protocol.ProtocolConfig values the real\n")
	sb.WriteString("   NewClient/NewServer constructors build (state map, initial state, MatchFuncs sampled\n")
	sb.WriteString("   per guard class) and from NewMsgFromCbor's cases (go/ast).  Do not edit. *)\n")
	sb.WriteString("From Coq Require Import String.\nFrom V Require Import Lib.Base Lib.Automata.\n(* end of imports - keep a comment here: bin/check scans the import lines with a regex that must stop at a non-word character *)\nLocal Open Scope string_scope.\n\n")
	var names []string
	for _, ex := range exs {
		for _, a := range ex.Auts {
			sb.WriteString(a.coq())
			names = append(names, a.Name)
		}
		gs := make([]string, len(ex.V.Guards))
		for i, g := range ex.V.Guards {
			gs[i] = fmt.Sprintf("(%s, %s, %s)", vh.N(uint64(g.ID)), vh.N(uint64(g.MsgType)), vh.Str(g.Name))
		}
		fmt.Fprintf(&sb, "Definition guards_%s : list (N * N * string) := %s.\n", ex.V.Name, vh.List(gs))
		fmt.Fprintf(&sb, "(* decoder-case set obtained by: %s %s *)\nDefinition dec_src_%s : string := %s.\n", ex.DecSrc, ex.DecWhy, ex.V.Name, vh.Str(ex.DecSrc))
		fmt.Fprintf(&sb, "Definition dec_ast_%s : list N := %s.\n", ex.V.Name, coqNs(ex.DecAST))
		fmt.Fprintf(&sb, "Definition dec_dyn_%s : list N := %s.\n\n", ex.V.Name, coqNs(ex.DecDyn))
	}
	ents := make([]string, len(names))
	for i, n := range names {
		ents[i] = fmt.Sprintf("(%s, impl_%s)", vh.Str(n), n)
	}
	fmt.Fprintf(&sb, "Definition all_impl : list (string * aut) := [\n  %s].\n", strings.Join(ents, ";\n  "))
	if out == "" {
		fmt.Print(sb.String())
		return nil
	}
	return vh.WriteIfChanged(out, sb.String())
}
