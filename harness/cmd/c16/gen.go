package main

// Translator: real protocol.StateMap values -> coq/C16/Gen.v.

import (
	"fmt"
	"go/ast"
	"go/parser"
	"go/token"
	"os"
	"path/filepath"
	"sort"
	"strconv"
	"strings"

	"github.com/blinklabs-io/gouroboros/cbor"
	"github.com/blinklabs-io/gouroboros/protocol"

	"verifharness/vh"
)

type gTrans struct {
	Msg     uint8
	Guarded bool
	Classes []int // classes on which the MatchFunc returned true
	Next    uint
}

type gState struct {
	Id      uint
	Name    string
	Agency  protocol.ProtocolStateAgency
	Timeout int64
	Dyn     bool
	Limit   int
	Trans   []gTrans
}

type gAut struct {
	Name   string
	Init   uint
	States []gState
}

func (a *gAut) state(id uint) *gState {
	for i := range a.States {
		if a.States[i].Id == id {
			return &a.States[i]
		}
	}
	return nil
}

// stepGo mirrors Automata.step on the extracted table (only used to steer
// trace generation; verdicts are computed by Coq on Gen.v).
func (a *gAut) stepGo(q uint, msg uint8, class int) (uint, bool) {
	s := a.state(q)
	if s == nil {
		return 0, false
	}
	for _, t := range s.Trans {
		if t.Msg != msg {
			continue
		}
		if t.Guarded {
			ok := false
			for _, c := range t.Classes {
				if c == class {
					ok = true
				}
			}
			if !ok {
				continue
			}
		}
		return t.Next, true
	}
	return 0, false
}

func (a *gAut) agency(q uint) protocol.ProtocolStateAgency {
	if s := a.state(q); s != nil {
		return s.Agency
	}
	return protocol.AgencyNone
}

// sampleGuard evaluates a MatchFunc on every representative of a class.
func sampleGuard(v *variant, cfg protocol.ProtocolConfig, f protocol.StateTransitionMatchFunc, g guardClass) (bool, error) {
	preps := g.Preps
	if len(preps) == 0 {
		preps = []func(any){nil}
	}
	first, have := false, false
	for _, prep := range preps {
		for _, rep := range g.Reps {
			if prep != nil {
				prep(cfg.StateContext)
			}
			var res bool
			panicked, pv := vh.Recover(func() { res = f(cfg.StateContext, rep()) })
			if panicked {
				return false, fmt.Errorf("%s: MatchFunc panicked on class %s: %v", v.Name, g.Name, pv)
			}
			if have && res != first {
				return false, fmt.Errorf("%s: MatchFunc is not uniform on guard class %s - the class table in harness/cmd/c16/samples.go no longer matches the code", v.Name, g.Name)
			}
			first, have = res, true
		}
	}
	return first, nil
}

func extract(v *variant, rc roleCfg) (*gAut, error) {
	cfg := rc.Cfg
	a := &gAut{Name: v.Name + "_" + rc.Role, Init: cfg.InitialState.Id}
	names := map[uint]string{}
	note := func(s protocol.State) error {
		if n, ok := names[s.Id]; ok && n != s.Name {
			return fmt.Errorf("%s: two distinct State values share id %d (%q, %q): map lookups by State would differ from lookups by id", a.Name, s.Id, n, s.Name)
		}
		names[s.Id] = s.Name
		return nil
	}
	if err := note(cfg.InitialState); err != nil {
		return nil, err
	}
	for st, e := range cfg.StateMap {
		if err := note(st); err != nil {
			return nil, err
		}
		gs := gState{Id: st.Id, Name: st.Name, Agency: e.Agency, Timeout: int64(e.Timeout), Dyn: e.TimeoutFunc != nil, Limit: e.PendingMessageByteLimit}
		for _, t := range e.Transitions {
			if err := note(t.NewState); err != nil {
				return nil, err
			}
			gt := gTrans{Msg: t.MsgType, Next: t.NewState.Id}
			if t.MatchFunc != nil {
				gt.Guarded = true
				n := 0
				for _, g := range v.Guards {
					if g.MsgType != t.MsgType {
						continue
					}
					n++
					ok, err := sampleGuard(v, cfg, t.MatchFunc, g)
					if err != nil {
						return nil, err
					}
					if ok {
						gt.Classes = append(gt.Classes, g.ID)
					}
				}
				if n == 0 {
					return nil, fmt.Errorf("%s: state %s has a MatchFunc on message type %d but no guard classes are declared for it (add them to harness/cmd/c16/samples.go)", a.Name, st.Name, t.MsgType)
				}
			}
			gs.Trans = append(gs.Trans, gt)
		}
		a.States = append(a.States, gs)
	}
	sort.Slice(a.States, func(i, j int) bool { return a.States[i].Id < a.States[j].Id })
	return a, nil
}

// decodableAST lists the message type ids for which the decoder function in
// messages.go has a `case` (go/ast).
func decodableAST(repo string, v *variant) ([]int, error) {
	dir := filepath.Join(repo, "protocol", v.Pkg)
	fset := token.NewFileSet()
	pkgs, err := parser.ParseDir(fset, dir, func(fi os.FileInfo) bool { return !strings.HasSuffix(fi.Name(), "_test.go") }, 0)
	if err != nil {
		return nil, err
	}
	consts := map[string]int{}
	var fn *ast.FuncDecl
	for _, p := range pkgs {
		for _, f := range p.Files {
			for _, d := range f.Decls {
				switch d := d.(type) {
				case *ast.GenDecl:
					if d.Tok != token.CONST {
						continue
					}
					iota := 0
					var last ast.Expr
					for _, sp := range d.Specs {
						vs := sp.(*ast.ValueSpec)
						for i, n := range vs.Names {
							var e ast.Expr
							if i < len(vs.Values) {
								e = vs.Values[i]
								last = e
							} else {
								e = last
							}
							if val, ok := evalConst(e, iota, consts); ok {
								consts[n.Name] = val
							}
						}
						iota++
					}
				case *ast.FuncDecl:
					if d.Recv == nil && d.Name.Name == v.DecoderFunc {
						fn = d
					}
				}
			}
		}
	}
	if fn == nil {
		return nil, fmt.Errorf("%s: decoder function %s not found in %s", v.Name, v.DecoderFunc, dir)
	}
	var out []int
	found := false
	var bad error
	ast.Inspect(fn.Body, func(n ast.Node) bool {
		sw, ok := n.(*ast.SwitchStmt)
		if !ok || found {
			return true
		}
		found = true
		for _, c := range sw.Body.List {
			cc := c.(*ast.CaseClause)
			// a case counts only if its body assigns / returns something (not an empty fallthrough to nil)
			for _, e := range cc.List {
				val, ok := evalConst(e, 0, consts)
				if !ok {
					bad = fmt.Errorf("%s: cannot evaluate case expression in %s", v.Name, v.DecoderFunc)
					continue
				}
				if len(cc.Body) > 0 {
					out = append(out, val)
				}
			}
		}
		return false
	})
	if bad != nil {
		return nil, bad
	}
	if !found {
		return nil, fmt.Errorf("%s: no switch in %s", v.Name, v.DecoderFunc)
	}
	sort.Ints(out)
	return out, nil
}

func evalConst(e ast.Expr, iota int, consts map[string]int) (int, bool) {
	switch e := e.(type) {
	case *ast.BasicLit:
		if e.Kind == token.INT {
			n, err := strconv.ParseInt(e.Value, 0, 64)
			return int(n), err == nil
		}
	case *ast.Ident:
		if e.Name == "iota" {
			return iota, true
		}
		v, ok := consts[e.Name]
		return v, ok
	case *ast.ParenExpr:
		return evalConst(e.X, iota, consts)
	case *ast.CallExpr: // uint8(3) style conversions
		if len(e.Args) == 1 {
			return evalConst(e.Args[0], iota, consts)
		}
	case *ast.BinaryExpr:
		a, ok1 := evalConst(e.X, iota, consts)
		b, ok2 := evalConst(e.Y, iota, consts)
		if ok1 && ok2 {
			switch e.Op {
			case token.ADD:
				return a + b, true
			case token.SUB:
				return a - b, true
			}
		}
	}
	return 0, false
}

// decodableDyn: message types whose sample message, encoded by the real codec,
// is turned back into a message of that type by the REAL decoder of the config.
func decodableDyn(v *variant, cfg protocol.ProtocolConfig) []int {
	var out []int
	for t, mkf := range v.Samples {
		var ok bool
		vh.Recover(func() {
			data, err := encodeMsg(mkf())
			if err != nil {
				return
			}
			m, err := cfg.MessageFromCborFunc(uint(t), data)
			ok = err == nil && m != nil && m.Type() == t
		})
		if ok {
			out = append(out, int(t))
		}
	}
	sort.Ints(out)
	return out
}

func encodeMsg(m protocol.Message) ([]byte, error) {
	if c := m.Cbor(); c != nil {
		return c, nil
	}
	return cbor.Encode(m)
}

func coqAgency(a protocol.ProtocolStateAgency) string {
	switch a {
	case protocol.AgencyClient:
		return "AgClient"
	case protocol.AgencyServer:
		return "AgServer"
	}
	return "AgNone"
}

func coqNs(xs []int) string {
	s := make([]string, len(xs))
	for i, x := range xs {
		s[i] = vh.N(uint64(x))
	}
	return vh.List(s)
}

func (a *gAut) coq() string {
	var sb strings.Builder
	fmt.Fprintf(&sb, "Definition impl_%s : aut := mkA %s [\n", a.Name, vh.Str(a.Name))
	for i, s := range a.States {
		ts := make([]string, len(s.Trans))
		for j, t := range s.Trans {
			g := "None"
			if t.Guarded {
				g = "(Some " + coqNs(t.Classes) + ")"
			}
			ts[j] = fmt.Sprintf("mkT %s %s %s", vh.N(uint64(t.Msg)), g, vh.N(uint64(t.Next)))
		}
		sep := ";"
		if i == len(a.States)-1 {
			sep = ""
		}
		fmt.Fprintf(&sb, "  mkS %s %s %s %s %s %s %s%s\n", vh.N(uint64(s.Id)), vh.Str(s.Name), coqAgency(s.Agency),
			vh.List(ts), vh.Z(s.Timeout), vh.Bool(s.Dyn), vh.N(uint64(s.Limit)), sep)
	}
	fmt.Fprintf(&sb, "] %s.\n", vh.N(uint64(a.Init)))
	return sb.String()
}

type extracted struct {
	V      *variant
	Auts   []*gAut // client, server
	Cfgs   []roleCfg
	DecAST []int
	DecDyn []int
}

func extractAll(repo string) ([]*extracted, error) {
	vs := variants()
	var out []*extracted
	for i := range vs {
		v := &vs[i]
		rcs, err := v.configs()
		if err != nil {
			return nil, err
		}
		ex := &extracted{V: v, Cfgs: rcs}
		for _, rc := range rcs {
			a, err := extract(v, rc)
			if err != nil {
				return nil, err
			}
			ex.Auts = append(ex.Auts, a)
		}
		if repo != "" {
			ex.DecAST, err = decodableAST(repo, v)
			if err != nil {
				return nil, err
			}
		}
		ex.DecDyn = decodableDyn(v, rcs[0].Cfg)
		out = append(out, ex)
	}
	return out, nil
}

func repoDir() string {
	if r := os.Getenv("VERIF_REPO"); r != "" {
		return r
	}
	return "/repo"
}

func gen(out string) error {
	exs, err := extractAll(repoDir())
	if err != nil {
		return err
	}
	var sb strings.Builder
	sb.WriteString("(* GENERATED by `harness/cmd/c16 gen` from the protocol.ProtocolConfig values the real\n")
	sb.WriteString("   NewClient/NewServer constructors build (state map, initial state, MatchFuncs sampled\n")
	sb.WriteString("   per guard class) and from NewMsgFromCbor's cases (go/ast).  Do not edit. *)\n")
	sb.WriteString("From Coq Require Import String.\nFrom V Require Import Lib.Base Lib.Automata.\n(* end of imports - keep a comment here: bin/check scans the import lines with a regex that must stop at a non-word character *)\nLocal Open Scope string_scope.\n\n")
	var names []string
	for _, ex := range exs {
		for _, a := range ex.Auts {
			sb.WriteString(a.coq())
			names = append(names, a.Name)
		}
		gs := make([]string, len(ex.V.Guards))
		for i, g := range ex.V.Guards {
			gs[i] = fmt.Sprintf("(%s, %s, %s)", vh.N(uint64(g.ID)), vh.N(uint64(g.MsgType)), vh.Str(g.Name))
		}
		fmt.Fprintf(&sb, "Definition guards_%s : list (N * N * string) := %s.\n", ex.V.Name, vh.List(gs))
		fmt.Fprintf(&sb, "Definition dec_ast_%s : list N := %s.\n", ex.V.Name, coqNs(ex.DecAST))
		fmt.Fprintf(&sb, "Definition dec_dyn_%s : list N := %s.\n\n", ex.V.Name, coqNs(ex.DecDyn))
	}
	ents := make([]string, len(names))
	for i, n := range names {
		ents[i] = fmt.Sprintf("(%s, impl_%s)", vh.Str(n), n)
	}
	fmt.Fprintf(&sb, "Definition all_impl : list (string * aut) := [\n  %s].\n", strings.Join(ents, ";\n  "))
	if out == "" {
		fmt.Print(sb.String())
		return nil
	}
	return vh.WriteIfChanged(out, sb.String())
}
