package main

// Driving the REAL protocol engine: a protocol.Protocol is created from the
// real ProtocolConfig of the package's Client/Server (state map, initial
// state, state context, real NewMsgFromCbor) with only the message handler
// replaced by a recorder, attached to a real muxer over an in-memory
// connection; a scripted peer speaks raw muxer segments on the other end.

import (
	"encoding/binary"
	"fmt"
	"io"
	"net"
	"time"

	"github.com/blinklabs-io/gouroboros/muxer"
	"github.com/blinklabs-io/gouroboros/protocol"
)

type label struct {
	Msg   uint8 `json:"msg"`
	Class int   `json:"class"`
}

type engineResult struct {
	Accepted int    // number of messages accepted before the first refusal
	Done     bool   // IsDone() after a fully accepted trace
	Stuck    string // non-empty: neither accepted nor refused within the deadline
}

const stepDeadline = 3 * time.Second

// concretize turns a label trace into real messages.  leios-votes keeps a
// token counter in its state context, so the count of each request is chosen
// such that the following vote classes (more_pending*, final) are realizable.
func concretize(v *variant, tr []label) ([]protocol.Message, error) {
	out := make([]protocol.Message, len(tr))
	for i, l := range tr {
		var f mk
		if l.Class != 0 {
			for _, g := range v.Guards {
				if g.ID == l.Class && g.MsgType == l.Msg {
					f = g.Reps[0]
				}
			}
		}
		if f == nil {
			f = v.Samples[l.Msg]
		}
		if f == nil {
			// a message type the implementation has no constructor for (only in
			// specification traces): the bare [type] message
			out[i] = &protocol.MessageBase{MessageType: l.Msg}
			continue
		}
		out[i] = f()
	}
	if v.Pkg == "leiosvotes" {
		for i, l := range tr {
			if l.Msg == 0 && l.Class == 1 { // count_ok request
				more := 0
				j := i + 1
				for j < len(tr) && tr[j].Msg == 1 && tr[j].Class == 4 {
					more++
					j++
				}
				out[i] = leiosVotesRequest(uint64(more + 1))
			}
		}
	}
	return out, nil
}

// realizable says whether the engine can be put in the situation the label
// trace describes (guard classes that depend on the state context).
func realizable(v *variant, tr []label) bool {
	if v.Pkg != "leiosvotes" {
		return true
	}
	// walk the trace with the counter abstraction "is a request outstanding":
	// more_pending/final need an outstanding request, none_outstanding needs none
	outstanding := false
	for _, l := range tr {
		switch {
		case l.Msg == 0 && l.Class == 1:
			if outstanding {
				return true // refused in Busy; run ends here
			}
			outstanding = true
		case l.Msg == 1 && (l.Class == 4 || l.Class == 5):
			if !outstanding {
				return false
			}
			if l.Class == 5 {
				outstanding = false
			}
		case l.Msg == 1 && l.Class == 6:
			if outstanding {
				return false
			}
		case l.Msg == 1:
			return false // a vote is always in one of the three situations
		}
	}
	return true
}

func writeSegment(c net.Conn, protoId uint16, response bool, payload []byte) error {
	id := protoId
	if response {
		id |= 0x8000
	}
	hdr := make([]byte, 8)
	binary.BigEndian.PutUint32(hdr[0:], uint32(time.Now().UnixNano()&0xffffffff))
	binary.BigEndian.PutUint16(hdr[4:], id)
	binary.BigEndian.PutUint16(hdr[6:], uint16(len(payload)))
	c.SetWriteDeadline(time.Now().Add(stepDeadline))
	_, err := c.Write(append(hdr, payload...))
	return err
}

// runEngine drives one trace.  role is the role of the engine under test; dir
// gives, per step, whether the engine sends (true) or the peer sends (false).
func runEngine(v *variant, rc roleCfg, a *gAut, tr []label) (res engineResult, err error) {
	msgs, err := concretize(v, tr)
	if err != nil {
		return res, err
	}
	// fresh real config (fresh state context) for every run
	rcs, err := v.configs()
	if err != nil {
		return res, err
	}
	var cfg protocol.ProtocolConfig
	for _, r := range rcs {
		if r.Role == rc.Role {
			cfg = r.Cfg
		}
	}
	connA, connB := net.Pipe()
	defer connB.Close()
	mux := muxer.New(connA)
	defer mux.Stop()
	errChan := make(chan error, 10)
	handled := make(chan uint8, 64)
	cfg.Muxer = mux
	cfg.ErrorChan = errChan
	cfg.Logger = nil
	cfg.MessageHandlerFunc = func(m protocol.Message) error {
		handled <- m.Type()
		return nil
	}
	// no state timeouts while scripting (C13 is a different property)
	sm := cfg.StateMap.Copy()
	for k, e := range sm {
		e.Timeout = 0
		e.TimeoutFunc = nil
		sm[k] = e
	}
	cfg.StateMap = sm
	p := protocol.New(cfg)
	p.Start()
	mux.Start()
	defer p.Stop()

	// peer reader
	peerRecv := make(chan []byte, 64)
	go func() {
		for {
			hdr := make([]byte, 8)
			if _, err := io.ReadFull(connB, hdr); err != nil {
				close(peerRecv)
				return
			}
			n := binary.BigEndian.Uint16(hdr[6:])
			pl := make([]byte, n)
			if _, err := io.ReadFull(connB, pl); err != nil {
				close(peerRecv)
				return
			}
			peerRecv <- pl
		}
	}()

	engineIsClient := rc.Role == "client"
	q := a.Init
	for i, l := range tr {
		if p.IsDone() {
			// terminal state: the engine neither sends nor receives any more
			res.Accepted = i
			return res, nil
		}
		ag := a.agency(q)
		engineSends := (ag == protocol.AgencyClient) == engineIsClient
		if ag == protocol.AgencyNone {
			// the table says terminal but the engine does not: let the engine try to send
			engineSends = true
		}
		timer := time.NewTimer(stepDeadline)
		if engineSends {
			if err := p.SendMessage(msgs[i]); err != nil {
				timer.Stop()
				res.Accepted = i
				return res, nil
			}
			select {
			case pl, ok := <-peerRecv:
				timer.Stop()
				if !ok || len(pl) == 0 {
					res.Accepted = i
					res.Stuck = "connection closed while waiting for the engine's message"
					return res, nil
				}
			case <-errChan:
				timer.Stop()
				res.Accepted = i
				return res, nil
			case <-timer.C:
				res.Accepted = i
				res.Stuck = fmt.Sprintf("step %d: engine neither sent message type %d nor raised an error", i, l.Msg)
				return res, nil
			}
		} else {
			data, err := encodeMsg(msgs[i])
			if err != nil {
				timer.Stop()
				return res, err
			}
			// the peer is the other role: responder segments carry the response flag
			if err := writeSegment(connB, cfg.ProtocolId, engineIsClient, data); err != nil {
				timer.Stop()
				res.Accepted = i
				res.Stuck = "peer could not write: " + err.Error()
				return res, nil
			}
			select {
			case t := <-handled:
				timer.Stop()
				if t != l.Msg {
					return res, fmt.Errorf("handler saw type %d, sent %d", t, l.Msg)
				}
			case <-errChan:
				timer.Stop()
				res.Accepted = i
				return res, nil
			case <-timer.C:
				res.Accepted = i
				res.Stuck = fmt.Sprintf("step %d: engine neither handled message type %d nor raised an error", i, l.Msg)
				return res, nil
			}
		}
		nq, ok := a.stepGo(q, l.Msg, l.Class)
		if ok {
			q = nq
		}
		// if the table says "rejected" but the engine accepted we keep q; the
		// comparison in Coq will flag the case anyway
	}
	res.Accepted = len(tr)
	// the state change is applied before the message is passed on, so IsDone is stable here
	res.Done = p.IsDone()
	return res, nil
}
