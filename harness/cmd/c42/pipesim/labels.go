package pipesim

import (
	"fmt"
	"sort"
	"strings"

	"github.com/blinklabs-io/gouroboros/pipeline"

	"verifharness/vh"
)

// Labels turns the stamped event list into the model's label list.  The
// deferred exit hooks also fire after an abort branch (which the model counts
// as the exit itself): those are dropped.  Also checks the per-goroutine
// protocol of the workers (take, process, [error], put) independently.
func Labels(evs []pipeline.VerifEvent) (labels []string, problems []string) {
	lastKind := map[uint64]int{}
	holding := map[uint64]int64{} // worker goroutine -> seq held (-1 none)
	for _, e := range evs {
		prev, had := lastKind[e.Gid]
		if e.Kind < 100 {
			lastKind[e.Gid] = e.Kind
		}
		st := e.Stage
		switch e.Kind {
		case evSubBegin:
			labels = append(labels, fmt.Sprintf("SubBegin %d", e.Seq))
		case evSubOk:
			labels = append(labels, fmt.Sprintf("SubOk %d", e.Seq))
		case evSubFail:
			labels = append(labels, fmt.Sprintf("SubFail %d false", e.Seq))
		case evSubFailStop:
			labels = append(labels, fmt.Sprintf("SubFail %d true", e.Seq))
		case evStopCancel:
			labels = append(labels, "StopCancel")
		case evStopClose0, evStopClose1, evStopClose2, evStopClose3:
			labels = append(labels, fmt.Sprintf("StopClose %d", e.Kind-evStopClose0))
		case evPCRead:
			if e.Arg < 0 {
				problems = append(problems, fmt.Sprintf("PendingCount() returned %d", e.Arg))
				e.Arg = 0
			}
			labels = append(labels, fmt.Sprintf("PCRead %d", e.Arg))
		case evWTake:
			if h, ok := holding[e.Gid]; ok && h >= 0 {
				problems = append(problems, fmt.Sprintf("worker %d took item %d while holding %d", e.Gid, e.Seq, h))
			}
			holding[e.Gid] = int64(e.Seq)
			labels = append(labels, fmt.Sprintf("WTake %d %d", st, e.Seq))
		case evWProc:
			if holding[e.Gid] != int64(e.Seq) {
				problems = append(problems, fmt.Sprintf("worker %d processed item %d it does not hold", e.Gid, e.Seq))
			}
			labels = append(labels, fmt.Sprintf("WProc %d %d %s", st, e.Seq, [...]string{"ROk", "RErr", "RSkip", "RPass"}[e.Arg]))
		case evWErrSent:
			labels = append(labels, fmt.Sprintf("WErrSent %d %d", st, e.Seq))
		case evWErrAbort:
			holding[e.Gid] = -1
			labels = append(labels, fmt.Sprintf("WErrAbort %d %d", st, e.Seq))
		case evWPut:
			if holding[e.Gid] != int64(e.Seq) {
				problems = append(problems, fmt.Sprintf("worker %d handed on item %d it does not hold", e.Gid, e.Seq))
			}
			holding[e.Gid] = -1
			labels = append(labels, fmt.Sprintf("WPut %d %d", st, e.Seq))
		case evWPutAbort:
			holding[e.Gid] = -1
			labels = append(labels, fmt.Sprintf("WPutAbort %d %d", st, e.Seq))
		case evWExit:
			if had && (prev == evWErrAbort || prev == evWPutAbort) {
				continue
			}
			labels = append(labels, fmt.Sprintf("WExit %d", st))
		case evATake:
			labels = append(labels, fmt.Sprintf("ATake %d", e.Seq))
		case evADropCancel:
			labels = append(labels, fmt.Sprintf("ADropCancel %d", e.Seq))
		case evANext:
			labels = append(labels, fmt.Sprintf("ANext %d", e.Seq))
		case evABuffer:
			labels = append(labels, fmt.Sprintf("ABuffer %d", e.Seq))
		case evAErrSent:
			labels = append(labels, "AErrSent")
		case evAErrAbort:
			labels = append(labels, "AErrAbort")
		case evASkip:
			labels = append(labels, fmt.Sprintf("ASkip %d", e.Seq))
		case evANotVal:
			labels = append(labels, fmt.Sprintf("ANotVal %d", e.Seq))
		case evACancelled:
			labels = append(labels, fmt.Sprintf("ACancelled %d", e.Seq))
		case evABegin:
			labels = append(labels, fmt.Sprintf("ABegin %d", e.Seq))
		case evAEnd:
			labels = append(labels, fmt.Sprintf("AEnd %d %s", e.Seq, vh.Bool(e.Arg != 0)))
		case evAPop:
			labels = append(labels, fmt.Sprintf("APop %d", e.Seq))
		case evAPendStop:
			labels = append(labels, "APendStop false")
		case evAPendStopCancel:
			labels = append(labels, "APendStop true")
		case evAFwdSend:
			labels = append(labels, fmt.Sprintf("AFwdSend %d", e.Seq))
		case evAFwdDec:
			labels = append(labels, fmt.Sprintf("AFwdDec %d", e.Seq))
		case evAFwdDrop:
			labels = append(labels, fmt.Sprintf("AFwdDrop %d", e.Seq))
		case evAFwdErr:
			labels = append(labels, "AFwdErr")
		case evAFwdErrDrop:
			labels = append(labels, "AFwdErrDrop")
		case evAExit:
			if had && prev == evAErrAbort {
				continue
			}
			labels = append(labels, "AExit")
		case evResRead:
			labels = append(labels, fmt.Sprintf("ResRead %d", e.Seq))
		case evErrRead:
			labels = append(labels, "ErrRead")
		case evCancelExt:
			labels = append(labels, "CancelExt")
		default:
			problems = append(problems, fmt.Sprintf("unknown event kind %d", e.Kind))
		}
	}
	return
}

// CoqCase renders one history as a term of type C42.Model.case.
func CoqCase(sc Scenario, o *Outcome, labels []string) string {
	// verdict of the block that finally got each sequence number
	maxSeq := -1
	seqBlock := map[int]int{}
	cur := map[uint64]int{}
	_ = cur
	for _, e := range o.Events {
		if e.Kind == evSubOk {
			if int(e.Seq) > maxSeq {
				maxSeq = int(e.Seq)
			}
		}
	}
	for b, s := range o.SubmitSeq {
		if s >= 0 {
			seqBlock[int(s)] = b // b = block id (index of the first attempt)
		}
	}
	dec := make([]string, maxSeq+1)
	val := make([]string, maxSeq+1)
	for i := 0; i <= maxSeq; i++ {
		b, ok := seqBlock[i]
		dec[i], val[i] = "false", "false"
		if ok {
			dec[i], val[i] = vh.Bool(sc.Blocks[b].Decodes), vh.Bool(sc.Blocks[b].Valid)
		}
	}
	ls := make([]string, len(labels))
	for i, l := range labels {
		ls[i] = l
	}
	res := append([]uint64(nil), o.Results...)
	sort.Slice(res, func(i, j int) bool { return res[i] < res[j] })
	nat := func(xs []uint64) string {
		s := make([]string, len(xs))
		for i, x := range xs {
			s[i] = fmt.Sprint(x)
		}
		return "[" + strings.Join(s, "; ") + "]"
	}
	// stamps taken before a send / after a receive make the observed channel
	// occupancy exceed the real one by at most one per goroutine
	slack := sc.ND + sc.NV + sc.Submitters + 4
	return fmt.Sprintf("{| k_nd := %d; k_nv := %d; k_cap := %d; k_maxp := %d;\n  k_dec := %s; k_val := %s;\n  k_trace := [%s];\n  k_applied := %s; k_results := %s; k_outst := %d |}",
		sc.ND, sc.NV, sc.Cap+slack, sc.MaxP, vh.List(dec), vh.List(val), strings.Join(ls, "; "), nat(o.AppliedSq), nat(res), o.Outst)
}
