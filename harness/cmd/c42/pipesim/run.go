// Package pipesim drives the real gouroboros block pipeline under controlled
// schedules, records the verif-tagged trace, evaluates the monitors of
// C42/C43/C44 and prints each history as a Coq case for coq/C42/Model.v.
package pipesim

import (
	"context"
	"errors"
	"fmt"
	"os"
	"path/filepath"
	"runtime"
	"sort"
	"strings"
	"sync"
	"sync/atomic"
	"time"

	"github.com/blinklabs-io/gouroboros/ledger"
	"github.com/blinklabs-io/gouroboros/pipeline"
	pcommon "github.com/blinklabs-io/gouroboros/protocol/common"

	"verifharness/vh"
)

// event kinds: must mirror pipeline/verif_on.go
const (
	evSubBegin = iota
	evSubOk
	evSubFail
	evSubFailStop
	evStopCancel
	evStopClose0
	evStopClose1
	evStopClose2
	evStopClose3
	evPCRead
	evWTake
	evWProc
	evWErrSent
	evWErrAbort
	evWPut
	evWPutAbort
	evWExit
	evATake
	evADropCancel
	evANext
	evABuffer
	evAErrSent
	evAErrAbort
	evASkip
	evANotVal
	evACancelled
	evABegin
	evAEnd
	evAPop
	evAPendStop
	evAPendStopCancel
	evAFwdSend
	evAFwdDec
	evAFwdDrop
	evAFwdErr
	evAFwdErrDrop
	evAExit
	// harness events
	evResRead = 100 + iota
	evErrRead
	evCancelExt
)

// Block is one submission attempt.
type Block struct {
	Decodes  bool `json:"dec"`
	Valid    bool `json:"val"`
	ApplyErr bool `json:"aerr"`
	// Ctx: 0 background, 1 already cancelled, 2 expires after TimeoutMs
	Ctx       int `json:"ctx"`
	TimeoutMs int `json:"to"`
	// Retry: 0 = a new block; k>0 = submit block k-1 again with IDENTICAL
	// arguments (same bytes, same tip) unless one of its earlier attempts
	// succeeded, in which case this entry is skipped.  The identity of a block
	// (monitor, verdicts) is the index of its first attempt.
	Retry int `json:"retry,omitempty"`
}

// ErrSkipped marks a retry entry that was not executed.
var ErrSkipped = errors.New("retry skipped: the block had already been submitted successfully")

// Hold stops the goroutine that produces event (Kind, Stage) for the Nth
// (0-based) distinct item passing there until the scenario releases it.
type Hold struct {
	Where string `json:"where"` // "decode", "validate", "apply"
	Nth   int    `json:"nth"`
}

type Scenario struct {
	Class      string  `json:"class"`
	ND         int     `json:"nd"`
	NV         int     `json:"nv"`
	Cap        int     `json:"cap"`
	MaxP       int     `json:"maxp"`
	Blocks     []Block `json:"blocks"`
	Submitters int     `json:"submitters"`
	// StopAfter: call Stop (or cancel the parent context when ExtCancel) once
	// this many submissions have been attempted; -1 = only at the end
	StopAfter int  `json:"stop_after"`
	ExtCancel bool `json:"ext_cancel"`
	// PauseResults: do not read Results() until PauseUntil submissions were attempted
	PauseResults bool   `json:"pause_results"`
	PauseUntil   int    `json:"pause_until"`
	Holds        []Hold `json:"holds"`
	Drainers     int    `json:"drainers"`
	Jitter       int    `json:"jitter"` // 0 none, else 1/Jitter of the events yield or sleep
	Seed         uint64 `json:"seed"`
}

type Outcome struct {
	Events    []pipeline.VerifEvent
	Applied   []uint64 // block ids (Tip.BlockNumber) in ApplyFunc call order
	AppliedSq []uint64 // their sequence numbers
	Results   []uint64 // sequence numbers read from Results()
	ResultIds []uint64
	SubmitErr []error  // per attempt (entry of Scenario.Blocks)
	OkOrder   []uint64 // block ids in the order their Submit returned nil
	SubmitSeq []int64  // sequence number the successful submission got (-1 if failed)
	Outst     int
	Viol      []Viol
	StopDur   time.Duration
}

type Viol struct{ Key, What string }

var (
	goodBlock []byte
	goodOnce  sync.Once
)

func loadGood() []byte {
	goodOnce.Do(func() {
		repo := os.Getenv("VERIF_REPO")
		if repo == "" {
			repo = "/repo"
		}
		b, err := os.ReadFile(filepath.Join(repo, "internal/testdata/shelley_block.hex"))
		if err != nil {
			panic(err)
		}
		goodBlock = vh.UnHex(strings.TrimSpace(string(b)))
	})
	return goodBlock
}

const never = 5 * time.Second // bound used only for "this never happens" judgements

type clock struct{ n atomic.Uint64 }

func (c *clock) tick() uint64 { return c.n.Add(1) }

// Run executes one scenario on the real pipeline.
func Run(sc Scenario) (out *Outcome) {
	out = &Outcome{SubmitSeq: make([]int64, len(sc.Blocks))}
	for i := range out.SubmitSeq {
		out.SubmitSeq[i] = -1
	}
	good := loadGood()
	rng := vh.NewRng(sc.Seed)
	var rngMu sync.Mutex
	var mu sync.Mutex // protects out.*, maps below
	var clk clock

	// --- bookkeeping for verdict functions -------------------------------
	gidBlock := map[uint64]int{} // submitter goroutine -> index of the block it is submitting
	seqBlock := map[uint64]int{} // sequence number -> block index (from SubBegin)
	holdGate := map[string]chan struct{}{}
	holdSeen := map[string]map[uint64]bool{}
	holdHit := map[string]chan struct{}{}
	for _, h := range sc.Holds {
		k := fmt.Sprintf("%s/%d", h.Where, h.Nth)
		holdGate[k] = make(chan struct{})
		holdHit[k] = make(chan struct{})
	}
	for _, w := range []string{"decode", "validate", "apply"} {
		holdSeen[w] = map[uint64]bool{}
	}
	// maybeHold blocks if the item is the Nth distinct one to pass `where`
	maybeHold := func(where string, seq uint64) {
		mu.Lock()
		var gate chan struct{}
		if !holdSeen[where][seq] {
			n := len(holdSeen[where])
			holdSeen[where][seq] = true
			k := fmt.Sprintf("%s/%d", where, n)
			if g, ok := holdGate[k]; ok {
				gate = g
				close(holdHit[k])
			}
		}
		mu.Unlock()
		if gate != nil {
			<-gate
		}
	}
	jitter := func() {
		if sc.Jitter <= 0 {
			return
		}
		rngMu.Lock()
		r := rng.Intn(sc.Jitter * 4)
		rngMu.Unlock()
		switch {
		case r == 0:
			time.Sleep(time.Duration(50+r*37) * time.Microsecond)
		case r == 1:
			time.Sleep(300 * time.Microsecond)
		case r < 4:
			runtime.Gosched()
		}
	}

	sink := func(ev pipeline.VerifEvent) {
		mu.Lock()
		out.Events = append(out.Events, ev)
		if ev.Kind == evSubBegin {
			if b, ok := gidBlock[ev.Gid]; ok {
				seqBlock[ev.Seq] = b
			}
		}
		if ev.Kind == evSubOk {
			if b, ok := gidBlock[ev.Gid]; ok {
				out.SubmitSeq[b] = int64(ev.Seq)
			}
		}
		mu.Unlock()
		if ev.Kind == evPCRead {
			return // called with the verif lock held: never block here
		}
		if ev.Kind == evWTake && ev.Stage == 0 {
			maybeHold("decode", ev.Seq)
		}
		jitter()
	}
	pipeline.VerifSetSink(sink)
	defer pipeline.VerifSetSink(nil)
	pipeline.VerifSetValidate(func(seq uint64, slot uint64) error {
		maybeHold("validate", seq)
		mu.Lock()
		b, ok := seqBlock[seq]
		mu.Unlock()
		if ok && sc.Blocks[b].Valid {
			return nil
		}
		return errors.New("verdict: invalid")
	})
	defer pipeline.VerifSetValidate(nil)

	// --- monitors' own observations ---------------------------------------
	type applyObs struct {
		id, seq uint64
		t       uint64
	}
	var applies []applyObs
	subDone := make([]uint64, len(sc.Blocks)) // per block id: clock when a Submit of it returned nil (0 = never)
	okID := make([]bool, len(sc.Blocks))      // per block id: some attempt succeeded
	rootOf := func(b int) int {
		for sc.Blocks[b].Retry > 0 {
			b = sc.Blocks[b].Retry - 1
		}
		return b
	}
	applyFn := func(it *pipeline.BlockItem) error {
		id := it.Tip().BlockNumber
		mu.Lock()
		applies = append(applies, applyObs{id, it.SequenceNumber(), clk.tick()})
		mu.Unlock()
		maybeHold("apply", it.SequenceNumber())
		if int(id) < len(sc.Blocks) && sc.Blocks[id].ApplyErr {
			return errors.New("verdict: apply error")
		}
		return nil
	}

	opts := []pipeline.PipelineOption{
		pipeline.WithDecodeWorkers(sc.ND),
		pipeline.WithValidateWorkers(sc.NV),
		pipeline.WithPrefetchBufferSize(sc.Cap),
		pipeline.WithSkipBodyHashValidation(true),
		pipeline.WithApplyFunc(applyFn),
	}
	if sc.MaxP > 0 {
		opts = append(opts, pipeline.WithMaxPendingBlocks(sc.MaxP))
	}
	if sc.NV > 0 {
		opts = append(opts, pipeline.WithEta0Provider(pipeline.StaticEta0Provider("00")), pipeline.WithSlotsPerKesPeriod(129600))
	}
	base := runtime.NumGoroutine()
	p := pipeline.NewBlockPipeline(opts...)
	parent, parentCancel := context.WithCancel(context.Background())
	defer parentCancel()
	if err := p.Start(parent); err != nil {
		out.Viol = append(out.Viol, Viol{"start-failed", err.Error()})
		return
	}

	// --- consumers ----------------------------------------------------------
	var consumers sync.WaitGroup
	resumeResults := make(chan struct{})
	if !sc.PauseResults {
		close(resumeResults)
	}
	consumers.Add(2)
	go func() {
		defer consumers.Done()
		<-resumeResults
		for it := range p.Results() {
			st := pipeline.VerifStamp()
			mu.Lock()
			out.Events = append(out.Events, pipeline.VerifEvent{Stamp: st, Kind: evResRead, Stage: -1, Seq: it.SequenceNumber()})
			out.Results = append(out.Results, it.SequenceNumber())
			out.ResultIds = append(out.ResultIds, it.Tip().BlockNumber)
			mu.Unlock()
		}
	}()
	go func() {
		defer consumers.Done()
		for range p.Errors() {
			st := pipeline.VerifStamp()
			mu.Lock()
			out.Events = append(out.Events, pipeline.VerifEvent{Stamp: st, Kind: evErrRead, Stage: -1})
			mu.Unlock()
			jitter()
		}
	}()

	// --- Stop / cancel at a chosen point ------------------------------------
	var attempts atomic.Int64
	var stopOnce sync.Once
	stopped := make(chan struct{})
	doStop := func() {
		stopOnce.Do(func() {
			if sc.ExtCancel {
				st := pipeline.VerifStamp()
				mu.Lock()
				out.Events = append(out.Events, pipeline.VerifEvent{Stamp: st, Kind: evCancelExt, Stage: -1})
				mu.Unlock()
				parentCancel()
			}
			// releasing the holds first would hide schedules; release them
			// concurrently so that Stop can finish
			go func() {
				time.Sleep(2 * time.Millisecond)
				mu.Lock()
				for k, g := range holdGate {
					select {
					case <-g:
					default:
						close(g)
					}
					_ = k
				}
				mu.Unlock()
			}()
			t0 := time.Now()
			done := make(chan struct{})
			go func() {
				if pan, v := vh.Recover(func() { p.Stop() }); pan {
					mu.Lock()
					out.Viol = append(out.Viol, Viol{"stop-panicked", fmt.Sprint(v)})
					mu.Unlock()
				}
				close(done)
			}()
			select {
			case <-done:
			case <-time.After(never):
				mu.Lock()
				out.Viol = append(out.Viol, Viol{"stop-hangs", "Stop() did not return within 5 s"})
				mu.Unlock()
			}
			out.StopDur = time.Since(t0)
			close(stopped)
		})
	}
	var midStop sync.WaitGroup

	// --- drainers -----------------------------------------------------------
	type drainObs struct{ t0, t1 uint64 }
	var drains []drainObs
	var drainers sync.WaitGroup
	drainStop := make(chan struct{})
	for d := 0; d < sc.Drainers; d++ {
		drainers.Add(1)
		go func() {
			defer drainers.Done()
			for {
				select {
				case <-drainStop:
					return
				default:
				}
				t0 := clk.tick()
				ctx, c := context.WithTimeout(context.Background(), 60*time.Millisecond)
				err := p.WaitForDrain(ctx)
				c()
				if err == nil {
					t1 := clk.tick()
					mu.Lock()
					drains = append(drains, drainObs{t0, t1})
					mu.Unlock()
				}
			}
		}()
	}

	// --- submitters -----------------------------------------------------------
	out.SubmitErr = make([]error, len(sc.Blocks))
	next := make(chan int)
	var submitters sync.WaitGroup
	nsub := sc.Submitters
	if nsub < 1 {
		nsub = 1
	}
	for w := 0; w < nsub; w++ {
		submitters.Add(1)
		go func() {
			defer submitters.Done()
			gid := pipeline.VerifGid()
			for b := range next {
				blk := sc.Blocks[b]
				id := rootOf(b)
				skip := false
				if blk.Retry > 0 {
					mu.Lock()
					skip = okID[id]
					mu.Unlock()
				}
				raw := []byte{0xff, byte(id), byte(id >> 8)}
				if sc.Blocks[id].Decodes {
					raw = good
				}
				ctx, cancel := context.Background(), context.CancelFunc(func() {})
				switch blk.Ctx {
				case 1:
					ctx, cancel = context.WithCancel(context.Background())
					cancel()
				case 2:
					ctx, cancel = context.WithTimeout(context.Background(), time.Duration(blk.TimeoutMs)*time.Millisecond)
				}
				mu.Lock()
				gidBlock[gid] = id
				mu.Unlock()
				err := ErrSkipped
				if !skip {
					err = p.Submit(ctx, uint(ledger.BlockTypeShelley), raw, pcommon.Tip{BlockNumber: uint64(id)})
				}
				cancel()
				t := clk.tick()
				mu.Lock()
				out.SubmitErr[b] = err
				if err == nil {
					subDone[id] = t
					okID[id] = true
					out.OkOrder = append(out.OkOrder, uint64(id))
				}
				mu.Unlock()
				n := attempts.Add(1)
				if sc.StopAfter >= 0 && int(n) == sc.StopAfter {
					midStop.Add(1)
					go func() { defer midStop.Done(); doStop() }()
				}
				if sc.PauseResults && int(n) == sc.PauseUntil {
					close(resumeResults)
				}
			}
		}()
	}
	if sc.StopAfter == 0 {
		midStop.Add(1)
		go func() { defer midStop.Done(); doStop() }()
	}
	// hold protocol of the drain class: see drain.go (driven from here)
	holdsDone := make(chan struct{})
	go func() {
		defer close(holdsDone)
		runHolds(sc, p, holdHit, holdGate, &mu, out, &clk)
	}()
	for b := range sc.Blocks {
		next <- b
	}
	close(next)
	submitters.Wait()
	if sc.PauseResults && int(attempts.Load()) < sc.PauseUntil {
		close(resumeResults)
	}
	<-holdsDone
	midStop.Wait()

	// --- completion ---------------------------------------------------------
	stoppedEarly := false
	select {
	case <-stopped:
		stoppedEarly = true
	default:
	}
	nOK := 0
	for _, e := range out.SubmitErr {
		if e == nil {
			nOK++
		}
	}
	if !stoppedEarly {
		// every successfully submitted block must reach Results()
		deadline := time.Now().Add(never)
		for {
			mu.Lock()
			n := len(out.Results)
			mu.Unlock()
			if n >= nOK {
				break
			}
			if time.Now().After(deadline) {
				hadFail := false
				for _, e := range out.SubmitErr {
					if e != nil && e != ErrSkipped {
						hadFail = true
					}
				}
				key, what := "results-missing", fmt.Sprintf("%d of %d successfully submitted blocks never reached Results() (no Stop, no cancellation); PendingCount=%d", nOK-n, nOK, p.PendingCount())
				if hadFail {
					key = "stall-after-failed-submit"
					what = "after a Submit that returned an error, " + what
				}
				mu.Lock()
				out.Viol = append(out.Viol, Viol{key, what})
				mu.Unlock()
				break
			}
			time.Sleep(200 * time.Microsecond)
		}
		// and then the pipeline must report itself drained
		if len(out.Viol) == 0 {
			ctx, c := context.WithTimeout(context.Background(), never)
			if err := p.WaitForDrain(ctx); err != nil {
				out.Viol = append(out.Viol, Viol{"drain-never-returns", "all results were delivered but WaitForDrain did not return within 5 s: " + err.Error()})
			}
			c()
		}
	}
	close(drainStop)
	drainers.Wait()
	doStop()
	consumers.Wait()
	out.Outst = p.PendingCount()

	// goroutines must be gone after Stop
	for i := 0; ; i++ {
		if runtime.NumGoroutine() <= base {
			break
		}
		if i > 2000 {
			out.Viol = append(out.Viol, Viol{"goroutine-leak", fmt.Sprintf("%d goroutines before Start, %d after Stop", base, runtime.NumGoroutine())})
			break
		}
		time.Sleep(time.Millisecond)
	}

	// --- monitors on the observations ----------------------------------------
	mu.Lock()
	defer mu.Unlock()
	seen := map[uint64]bool{}
	var lastSeq int64 = -1
	for _, a := range applies {
		out.Applied = append(out.Applied, a.id)
		out.AppliedSq = append(out.AppliedSq, a.seq)
		if int(a.id) >= len(sc.Blocks) {
			out.Viol = append(out.Viol, Viol{"applied-unknown-block", fmt.Sprint(a.id)})
			continue
		}
		b := sc.Blocks[a.id]
		if seen[a.id] {
			out.Viol = append(out.Viol, Viol{"applied-twice", fmt.Sprintf("block %d applied twice", a.id)})
		}
		seen[a.id] = true
		if !b.Decodes {
			out.Viol = append(out.Viol, Viol{"applied-undecodable", fmt.Sprintf("block %d does not decode but ApplyFunc was called", a.id)})
		} else if sc.NV > 0 && !b.Valid {
			out.Viol = append(out.Viol, Viol{"applied-invalid", fmt.Sprintf("block %d fails validation but ApplyFunc was called", a.id)})
		}
		if !okID[a.id] {
			out.Viol = append(out.Viol, Viol{"applied-failed-submission", fmt.Sprintf("block %d: no Submit of it returned nil but the block was applied", a.id)})
		}
		if int64(a.seq) <= lastSeq {
			out.Viol = append(out.Viol, Viol{"applied-out-of-order", fmt.Sprintf("ApplyFunc saw sequence %d after %d", a.seq, lastSeq)})
		}
		lastSeq = int64(a.seq)
		// C43: no apply after a successful drain for a block submitted before the wait began
		for _, d := range drains {
			if subDone[a.id] != 0 && subDone[a.id] < d.t0 && a.t > d.t1 {
				out.Viol = append(out.Viol, Viol{"apply-after-drain", fmt.Sprintf("block %d (seq %d) was submitted before WaitForDrain was called, WaitForDrain returned nil, and ApplyFunc ran afterwards", a.id, a.seq)})
			}
		}
	}
	// submission order (one submitter: the order in which Submit returned nil)
	if nsub == 1 {
		pos := map[uint64]int{}
		for i, id := range out.OkOrder {
			pos[id] = i
		}
		last, lastID := -1, uint64(0)
		for _, a := range applies {
			if q, ok := pos[a.id]; ok {
				if q < last {
					out.Viol = append(out.Viol, Viol{"applied-order-differs", fmt.Sprintf("block %d was applied after block %d but its Submit succeeded earlier (success order %v)", a.id, lastID, out.OkOrder)})
				}
				last, lastID = q, a.id
			}
		}
	}
	rseen := map[uint64]bool{}
	for _, id := range out.ResultIds {
		if rseen[id] {
			out.Viol = append(out.Viol, Viol{"result-twice", fmt.Sprintf("block %d appeared twice on Results()", id)})
		}
		rseen[id] = true
		if int(id) < len(sc.Blocks) && !okID[id] {
			out.Viol = append(out.Viol, Viol{"result-of-failed-submission", fmt.Sprintf("block %d", id)})
		}
	}
	if !stoppedEarly && len(out.Viol) == 0 {
		for b, blk := range sc.Blocks {
			if blk.Retry > 0 || !okID[b] {
				continue
			}
			goodB := blk.Decodes && (sc.NV == 0 || blk.Valid)
			if goodB && !seen[uint64(b)] {
				out.Viol = append(out.Viol, Viol{"good-block-not-applied", fmt.Sprintf("block %d was submitted, is good, no Stop happened, but ApplyFunc was never called", b)})
			}
			if !rseen[uint64(b)] {
				out.Viol = append(out.Viol, Viol{"results-missing", fmt.Sprintf("block %d never appeared on Results()", b)})
			}
		}
	}
	sort.SliceStable(out.Events, func(i, j int) bool { return out.Events[i].Stamp < out.Events[j].Stamp })
	return out
}
