package pipesim

import (
	"context"
	"fmt"
	"sort"
	"sync"
	"time"

	"github.com/blinklabs-io/gouroboros/pipeline"
)

// runHolds handles the scenario's holds one after the other: wait until the
// chosen item is held inside the chosen worker (every channel may be empty
// at that moment), ask the pipeline to drain, and only then release the item.
// A nil return of WaitForDrain while the item is held is a C43 violation:
// the item was submitted before the wait began and has not finished.
func runHolds(sc Scenario, p *pipeline.BlockPipeline, hit, gate map[string]chan struct{}, mu *sync.Mutex, out *Outcome, clk *clock) {
	keys := make([]string, 0, len(gate))
	for k := range gate {
		keys = append(keys, k)
	}
	sort.Strings(keys)
	for _, k := range keys {
		select {
		case <-hit[k]:
		case <-time.After(300 * time.Millisecond):
			// the item never got there (e.g. it failed an earlier stage, or the pipeline was stopped)
			release(gate[k], mu)
			continue
		}
		ctx, c := context.WithTimeout(context.Background(), 45*time.Millisecond)
		err := p.WaitForDrain(ctx)
		c()
		pc := p.PendingCount() // not under mu: the hook's sink takes mu
		mu.Lock()
		isOpen := false
		select {
		case <-gate[k]:
			isOpen = true // Stop released it meanwhile
		default:
		}
		if err == nil && !isOpen {
			where := k[:len(k)-len(k[indexByte(k, '/'):])]
			out.Viol = append(out.Viol, Viol{"drain-returned-while-held-in-" + where,
				fmt.Sprintf("WaitForDrain returned nil (PendingCount=%d) while a block submitted earlier was still held inside the %s worker", pc, where)})
		}
		mu.Unlock()
		release(gate[k], mu)
	}
}

func indexByte(s string, b byte) int {
	for i := 0; i < len(s); i++ {
		if s[i] == b {
			return i
		}
	}
	return len(s)
}

func release(g chan struct{}, mu *sync.Mutex) {
	mu.Lock()
	defer mu.Unlock()
	select {
	case <-g:
	default:
		close(g)
	}
}
