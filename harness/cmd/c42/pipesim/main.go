package pipesim

import (
	"encoding/json"
	"fmt"
	"os"
	"runtime"
	"strings"
	"time"

	"github.com/blinklabs-io/gouroboros/pipeline"

	"verifharness/vh"
)

const header = `From Coq Require Import List Bool Arith.
Import ListNotations.
From V Require Import C42.Model.`

func blocks(r *vh.Rng, n int, pBad int) []Block {
	bs := make([]Block, n)
	for i := range bs {
		bs[i] = Block{Decodes: !r.Chance(pBad, 100), Valid: !r.Chance(pBad, 100), ApplyErr: r.Chance(10, 100)}
	}
	return bs
}

func workers(r *vh.Rng) int {
	switch r.Intn(4) {
	case 0:
		return 1
	case 1:
		return 16
	default:
		return 1 + r.Intn(16)
	}
}

// Gen makes one scenario of the given class.
func Gen(r *vh.Rng, class string) Scenario {
	sc := Scenario{Class: class, ND: workers(r), Cap: 1 + r.Intn(6), StopAfter: -1, Submitters: 1 + r.Intn(3), Seed: r.U64(), Jitter: 1 + r.Intn(6)}
	if r.Chance(1, 5) {
		sc.Cap = 1000
	}
	if r.Bool() {
		sc.NV = workers(r)
	}
	if r.Chance(1, 4) {
		sc.MaxP = 1 + r.Intn(3)
	}
	n := 4 + r.Intn(28)
	sc.Blocks = blocks(r, n, 25)
	switch class {
	case "plain":
	case "stop":
		sc.StopAfter = r.Intn(n + 1)
		sc.ExtCancel = r.Chance(1, 4)
		if r.Bool() {
			sc.Holds = []Hold{{Where: vh.PickOne(r, []string{"decode", "apply"}), Nth: r.Intn(3)}}
		}
	case "expiry":
		// the consumer of Results() is paused so that the pipeline fills up;
		// some submissions carry contexts that are already cancelled or expire soon
		sc.Cap = 1 + r.Intn(2)
		sc.ND = 1 + r.Intn(2)
		if sc.NV > 0 {
			sc.NV = 1 + r.Intn(2)
		}
		sc.MaxP = 0
		sc.PauseResults = true
		sc.PauseUntil = n/2 + r.Intn(n/2+1)
		for i := range sc.Blocks {
			switch r.Intn(4) {
			case 0:
				sc.Blocks[i].Ctx = 1
			case 1, 2:
				sc.Blocks[i].Ctx, sc.Blocks[i].TimeoutMs = 2, 1+r.Intn(4)
			}
			if i < sc.PauseUntil && sc.Blocks[i].Ctx == 0 {
				// nobody reads Results() yet: a Submit without deadline would block for good
				sc.Blocks[i].Ctx, sc.Blocks[i].TimeoutMs = 2, 1+r.Intn(4)
			}
			if i >= sc.PauseUntil && r.Chance(2, 3) {
				sc.Blocks[i].Ctx = 0
			}
		}
		// the last few always use a live context: they are the "later successful submissions"
		if sc.PauseUntil > n-3 {
			sc.PauseUntil = n - 3
		}
		for i := n - 3; i < n; i++ {
			sc.Blocks[i].Ctx = 0
		}
	case "retry":
		// Failed submissions are resubmitted later with IDENTICAL arguments:
		// immediately, after 1..k successful submissions of other blocks,
		// after further failures, and several times.  Phase 1: nobody reads
		// Results(), contexts are cancelled or expire after 1-4 ms, so some
		// Submits fail; an attempt may be retried at once.  Phase 2 (consumer
		// running): k fresh blocks, then retries of every phase-1 block (most
		// recent failure first or in random order; skipped at run time if the
		// block got through meanwhile), interleaved with fresh blocks.
		sc.Submitters = 1
		sc.Cap = 1 + r.Intn(2)
		sc.ND = 1 + r.Intn(2)
		if sc.NV > 0 {
			sc.NV = 1 + r.Intn(2)
		}
		sc.MaxP = 0
		sc.PauseResults = true
		n1 := 6 + r.Intn(8)
		base := blocks(r, n1, 20)
		var bs []Block
		var roots []int // indices (in bs) of phase-1 first attempts
		for _, b := range base {
			b.Ctx, b.TimeoutMs = 2, 1+r.Intn(4)
			if r.Chance(1, 4) {
				b.Ctx = 1
			}
			bs = append(bs, b)
			roots = append(roots, len(bs)-1)
			if r.Chance(1, 4) { // immediate retry, may fail again
				rb := b
				rb.Retry = len(bs)
				bs = append(bs, rb)
			}
		}
		sc.PauseUntil = len(bs)
		fresh := func() {
			b := blocks(r, 1, 20)[0]
			bs = append(bs, b)
		}
		for k := r.Intn(4); k > 0; k-- {
			fresh()
		}
		order := append([]int(nil), roots...)
		if r.Bool() {
			for i, j := 0, len(order)-1; i < j; i, j = i+1, j-1 {
				order[i], order[j] = order[j], order[i]
			}
		} else {
			for i := len(order) - 1; i > 0; i-- {
				j := r.Intn(i + 1)
				order[i], order[j] = order[j], order[i]
			}
		}
		for _, root := range order {
			rb := bs[root]
			rb.Retry = root + 1
			rb.Ctx, rb.TimeoutMs = 0, 0
			if r.Chance(1, 5) { // a retry that may fail again, followed by a final one
				rb.Ctx, rb.TimeoutMs = 2, 1+r.Intn(3)
				bs = append(bs, rb)
				if r.Bool() {
					fresh()
				}
				rb.Ctx, rb.TimeoutMs = 0, 0
			}
			bs = append(bs, rb)
			if r.Chance(1, 3) {
				fresh()
			}
			if r.Chance(1, 6) { // once more (skipped: it has succeeded by now)
				bs = append(bs, rb)
			}
		}
		fresh()
		sc.Blocks = bs
	case "drain":
		sc.Submitters = 1
		sc.Jitter = 0
		sc.Drainers = r.Intn(2)
		where := []string{"decode", "apply"}
		if sc.NV > 0 {
			where = append(where, "validate")
		}
		w := vh.PickOne(r, where)
		sc.Holds = []Hold{{Where: w, Nth: r.Intn(3)}}
		// make sure enough blocks reach the chosen stage
		for i := 0; i < 6 && i < n; i++ {
			sc.Blocks[i].Decodes, sc.Blocks[i].Valid = true, true
		}
	}
	return sc
}

type replay struct {
	Scenario Scenario `json:"scenario"`
	Note     string   `json:"note,omitempty"`
}

func runOne(c *vh.Ctx, cf *vh.CaseFile, sc Scenario) {
	c.Begin(replay{Scenario: sc})
	var o *Outcome
	done := make(chan struct{})
	go func() { o = Run(sc); close(done) }()
	select {
	case <-done:
	case <-time.After(60 * time.Second):
		// the run is stuck: leave inflight.json behind and die (reported as a fatal crash with replay)
		buf := make([]byte, 1<<16)
		n := runtime.Stack(buf, true)
		fmt.Fprintf(os.Stderr, "scenario did not finish within 60 s (deadlock)\n%s\n", buf[:n])
		os.Exit(4)
	}
	labels, problems := Labels(o.Events)
	nontrivial := len(o.AppliedSq) >= 2 && len(labels) >= 40
	canon := strings.Join(labels, ";")
	c.Res.Count(canon, nontrivial, sc.Class)
	if nontrivial {
		c.Res.Sample(map[string]any{"class": sc.Class, "nd": sc.ND, "nv": sc.NV, "cap": sc.Cap, "blocks": len(sc.Blocks), "labels": len(labels), "applied": o.AppliedSq, "first_labels": labels[:12]})
	}
	for _, v := range o.Viol {
		c.Res.Violate("monitor", v.Key, v.What, replay{Scenario: sc})
	}
	for _, p := range problems {
		key := "worker-protocol"
		if strings.HasPrefix(p, "PendingCount()") {
			key = "pending-count-negative"
		}
		c.Res.Violate("monitor", key, p, replay{Scenario: sc})
	}
	if o.Outst < 0 {
		o.Outst = 0
	}
	cf.Add(CoqCase(sc, o, labels), replay{Scenario: sc, Note: "history rejected by the model or projections differ"})
}

// Main is the entry point shared by cmd/c42, cmd/c43 and cmd/c44; mix gives
// the scenario classes and their weights.
func Main(property string, mix map[string]int, quick, thorough int) {
	run := func(c *vh.Ctx) error {
		c.Res.Rule = "one case = one run of the real BlockPipeline (classes plain/stop/expiry/retry/drain: 1..16 decode and validate workers, buffer 1..6 or 1000, 4..31 valid/undecodable/invalid blocks, 1..3 concurrent submitters, hook-level jitter, Stop or parent cancellation at a random point, expired Submit contexts under backpressure, failed submissions resubmitted with identical arguments at once / after other successful submissions / repeatedly, items held inside decode/validate/apply workers while WaitForDrain runs); distinct by the full label history; non-trivial = at least 2 ApplyFunc calls and 40 labels"
		c.Res.Modelled = []string{
			"the pipeline LTS coq/C42/Model.v is hand-written from pipeline/*.go (fixed tree) and validated by replaying every recorded history through step",
			"channels are modelled as bounded bags (no FIFO order); the replay uses capacity + one slot per goroutine because send stamps are taken before and receive stamps after the channel operation",
			"block validity is input data: the validate stage's cryptographic verdict is replaced by the harness through the verif hook VerifSetValidate",
		}
		cf := c.NewCaseFile(strings.ToLower(property), header)
		cf.SetShardSize(c.Pick(12, 25))
		if c.Replay != "" {
			b, err := os.ReadFile(c.Replay)
			if err != nil {
				return err
			}
			var rp struct {
				Replay replay `json:"replay"`
			}
			if err := json.Unmarshal(b, &rp); err != nil {
				return err
			}
			runOne(c, cf, rp.Replay.Scenario)
			cf.Flush()
			return nil
		}
		var classes []string
		for _, k := range vh.SortedKeys(mix) {
			for i := 0; i < mix[k]; i++ {
				classes = append(classes, k)
			}
		}
		// regression corpus first: the two round-0 witnesses
		runOne(c, cf, Scenario{Class: "drain", ND: 1, NV: 0, Cap: 4, StopAfter: -1, Submitters: 1, Seed: 1,
			Blocks: []Block{{Decodes: true, Valid: true}}, Holds: []Hold{{Where: "decode", Nth: 0}}})
		runOne(c, cf, Scenario{Class: "drain", ND: 1, NV: 1, Cap: 4, StopAfter: -1, Submitters: 1, Seed: 1,
			Blocks: []Block{{Decodes: true, Valid: true}}, Holds: []Hold{{Where: "validate", Nth: 0}}})
		exp := Scenario{Class: "expiry", ND: 1, Cap: 1, StopAfter: -1, Submitters: 1, Seed: 2, PauseResults: true, PauseUntil: 9}
		for i := 0; i < 12; i++ {
			b := Block{Decodes: true, Valid: true}
			if i < 9 {
				b.Ctx, b.TimeoutMs = 2, 5
			}
			exp.Blocks = append(exp.Blocks, b)
		}
		runOne(c, cf, exp)
		// a block whose Submit timed out is resubmitted with identical arguments only
		// after another block got through (retry-cache seed): 9 attempts under
		// backpressure, one fresh block, then the failed ones again, newest first
		rt := Scenario{Class: "retry", ND: 1, Cap: 1, StopAfter: -1, Submitters: 1, Seed: 3, PauseResults: true, PauseUntil: 9}
		for i := 0; i < 9; i++ {
			rt.Blocks = append(rt.Blocks, Block{Decodes: true, Valid: true, Ctx: 2, TimeoutMs: 5})
		}
		rt.Blocks = append(rt.Blocks, Block{Decodes: true, Valid: true})
		for i := 8; i >= 0; i-- {
			rt.Blocks = append(rt.Blocks, Block{Decodes: true, Valid: true, Retry: i + 1})
		}
		rt.Blocks = append(rt.Blocks, Block{Decodes: true, Valid: true}, Block{Decodes: true, Valid: true})
		runOne(c, cf, rt)
		n := c.Pick(quick, thorough)
		for i := 0; i < n; i++ {
			runOne(c, cf, Gen(c.Rng, classes[c.Rng.Intn(len(classes))]))
		}
		cf.Flush()
		os.Remove(c.Out + "/inflight.json")
		return nil
	}
	vh.Main(vh.Runner{Property: property, Gen: gen, Run: run})
}

// gen is the translator (T): the default configuration constants, for the
// side conditions of the theorems (at least one decode worker, buffer >= 1).
func gen(out string) error {
	d := pipeline.DefaultPipelineConfig()
	nd := d.DecodeWorkers
	if nd <= 0 {
		nd = 1 // NewStageWorkerPool
	}
	s := fmt.Sprintf(`(* generated by harness/cmd/c42 gen from pipeline.DefaultPipelineConfig() - do not edit *)
Definition default_decode_workers : nat := %d.
Definition default_validate_workers : nat := %d.
Definition default_buffer : nat := %d.
Definition default_max_pending : nat := %d.
`, nd, d.ValidateWorkers, d.PrefetchBufferSize, d.MaxPendingBlocks)
	return vh.WriteIfChanged(out, s)
}
