// C42 - the block pipeline applies each good block once, in order.
package main

import "verifharness/cmd/c42/pipesim"

func main() {
	pipesim.Main("C42", map[string]int{"plain": 5, "stop": 4, "expiry": 1, "retry": 1, "drain": 1}, 110, 1500)
}
