package main

import (
	"bytes"
	"fmt"
	"os"
	"reflect"
	"sort"
	"time"

	"github.com/blinklabs-io/gouroboros/cbor"

	"verifharness/vh"
)

// Large-container grid: for every message type of the schema model that has
// a variable-length or opaque field (RawMessage, []T, []any, map), a value
// whose FIRST such field holds a container with an element / pair count at
// the boundaries of the decoder limits that exist in cbor/decode.go (read
// from the source: every entry point's MaxArrayElements / MaxMapPairs +-1, and
// a sample above the strict one), or a nesting depth at MaxNestedLevels.
// Built through the Go value, encoded by cbor.Encode, decoded by
// NewMsgFromCbor.  Verdict (monitor): legal values below the DOCUMENTED limits
// of the message decode (10,000,000 elements, 256 levels) round-trip.

const (
	documentedMaxElems = 10_000_000
	documentedMaxNest  = 256
)

func head(major byte, n uint64) []byte {
	b := (&vh.Item{K: vh.KUInt, F: vh.MinForm(n), N: n}).Enc()
	b[0] |= major << 5
	return b
}

// largeRaw: an array of n one-byte uints, a map of n pairs i -> 0, or arrays
// nested n deep.
func largeRaw(n int, variant string) []byte {
	switch variant {
	case "map":
		out := head(5, uint64(n))
		for i := 0; i < n; i++ {
			out = append(out, head(0, uint64(i))...)
			out = append(out, 0x00)
		}
		return out
	case "nest":
		out := bytes.Repeat([]byte{0x81}, n)
		return append(out, 0x00)
	}
	out := head(4, uint64(n))
	return append(out, make([]byte, n)...)
}

// fillLarge fills v like fill, but the first eligible container gets n
// elements (replicas of one generated element).  done reports whether one was found.
// largeLevel: array levels above the chosen container (1 = directly in the message)
var largeLevel int

func fillLarge(r *vh.Rng, s schema, v reflect.Value, n int, variant string, done *bool) {
	fillLargeAt(r, s, v, n, variant, done, 0)
}

func fillLargeAt(r *vh.Rng, s schema, v reflect.Value, n int, variant string, done *bool, lvl int) {
	switch s.K {
	case "raw":
		if !*done {
			*done = true
			largeLevel = lvl
			v.SetBytes(largeRaw(n, variant))
			return
		}
	case "list", "listi":
		if !*done && variant == "array" && !s.Elem.hasKind("post") && !s.Elem.hasKind("alt") && !s.Elem.hasKind("bylen") {
			// (elements with a hand-written codec - DMQ messages of several
			// hundred bytes each, decoded twice - would make 60 MB messages)
			*done = true
			proto := reflect.New(v.Type().Elem()).Elem()
			fill(r, *s.Elem, proto)
			sl := reflect.MakeSlice(v.Type(), n, n)
			for i := 0; i < n; i++ {
				sl.Index(i).Set(proto)
			}
			v.Set(sl)
			return
		}
	case "mapu", "mapui":
		if !*done && variant == "map" && s.Bits >= 32 {
			*done = true
			proto := reflect.New(v.Type().Elem()).Elem()
			fill(r, *s.Elem, proto)
			m := reflect.MakeMapWithSize(v.Type(), n)
			for i := 0; i < n; i++ {
				k := reflect.New(v.Type().Key()).Elem()
				k.SetUint(uint64(i))
				m.SetMapIndex(k, proto)
			}
			v.Set(m)
			return
		}
	case "struct":
		fs, _, _ := structFields(v.Type())
		for i, f := range fs {
			fillLargeAt(r, s.Fields[i], v.FieldByIndex(f.Index), n, variant, done, lvl+1)
		}
		return
	}
	fill(r, s, v)
}

type largeReplay struct {
	Kind    string `json:"kind"` // "large"
	Entry   string `json:"entry"`
	Variant string `json:"variant"`
	N       int    `json:"n"`
	Seed    uint64 `json:"seed"`
}

func runLargeOne(c *vh.Ctx, e entry, s schema, variant string, n int, seed uint64) {
	if os.Getenv("C04_LARGE_TIMING") != "" {
		t0 := time.Now()
		defer func() { fmt.Fprintf(os.Stderr, "large %s %s %d: %v\n", e.key(), variant, n, time.Since(t0)) }()
	}
	rp := largeReplay{"large", e.key(), variant, n, seed}
	r := vh.NewRng(seed)
	m := e.New()
	done := false
	minList = 0
	fillLarge(r, s, reflect.ValueOf(m).Elem(), n, variant, &done)
	if !done {
		return
	}
	reflect.ValueOf(m).Elem().FieldByName("MessageType").SetUint(uint64(e.Type))
	c.Begin(rp)
	class := fmt.Sprintf("large:%s:%d", variant, n)
	data, err := cbor.Encode(m)
	if err != nil {
		c.Res.Violate("monitor", "large-encode-error:"+e.key()+":"+class, err.Error(), rp)
		return
	}
	c.Res.Count(fmt.Sprintf("%s/%s/%d", e.key(), variant, n), true, class)
	c.Res.Distribution["proto:"+e.Proto]++
	var msg interface{ Cbor() []byte }
	var derr error
	panicked, pv := vh.Recover(func() {
		mm, e2 := e.Decode(e.Type, data)
		derr = e2
		if e2 == nil && mm != nil {
			msg = mm
		}
	})
	if panicked {
		c.Res.Violate("monitor", "decode-panic:"+e.key(), fmt.Sprintf("NewMsgFromCbor panicked on a %s: %v", class, pv), rp)
		return
	}
	legal := (variant == "nest" && n+largeLevel <= documentedMaxNest) || (variant != "nest" && n <= documentedMaxElems)
	if !legal {
		// beyond the documented limit: no demand, recorded only
		if derr == nil {
			c.Res.Distribution["beyond-documented-limit-accepted"]++
		} else {
			c.Res.Distribution["beyond-documented-limit-rejected"]++
		}
		return
	}
	if derr != nil || msg == nil {
		c.Res.Violate("monitor", "large-container-rejected:"+e.key()+":"+class,
			fmt.Sprintf("a message built through the library with a %s container of %d (%d bytes encoded) does not decode: %v", variant, n, len(data), derr), rp)
		return
	}
	pm := msg.(interface {
		Cbor() []byte
		SetCbor([]byte)
	})
	pm.SetCbor(nil)
	re, err2 := cbor.Encode(pm)
	if err2 != nil || !bytes.Equal(re, data) {
		c.Res.Violate("monitor", "large-container-differs:"+e.key()+":"+class,
			fmt.Sprintf("decode(encode(m)) re-encodes differently for a %s container of %d (%v)", variant, n, err2), rp)
	}
}

// gridCounts: element counts at the limits found in the source.
func gridCounts(c *vh.Ctx) (counts []int, nests []int) {
	lims, err := readDecLimits()
	if err != nil {
		c.Res.Violate("correspondence", "translator:limits", "cannot read the decoder limits from cbor/decode.go: "+err.Error(), nil)
		return nil, nil
	}
	seen := map[int]bool{}
	add := func(n uint64) {
		if n > 0 && n <= documentedMaxElems+1 && !seen[int(n)] {
			seen[int(n)] = true
			counts = append(counts, int(n))
		}
	}
	nseen := map[int]bool{}
	for _, l := range lims {
		for _, v := range []uint64{l.Arr, l.Map} {
			add(v)
			add(v + 1)
			if c.Thorough() {
				add(v - 1)
			}
		}
		for _, d := range []uint64{l.Nest, l.Nest + 1} {
			if !nseen[int(d)] {
				nseen[int(d)] = true
				nests = append(nests, int(d))
			}
		}
	}
	if c.Thorough() {
		add(200000)
	}
	sort.Ints(counts)
	sort.Ints(nests)
	return
}

func runLarge(c *vh.Ctx, r *vh.Rng) {
	counts, nests := gridCounts(c)
	for _, e := range registry {
		s := entrySchema(e)
		if s.hasOpaque() || specials[e.key()] != nil {
			// constructor-built hand codecs are not filled by reflection
			continue
		}
		for _, n := range counts {
			big := n > 1_000_000
			// the multi-megabyte points of the grid only for the opaque payload of
			// local-state-query results, and only in the thorough tier
			if big && !(c.Thorough() && e.key() == "localstatequery/MsgResult") {
				continue
			}
			runLargeOne(c, e, s, "array", n, r.U64())
			if !big && (c.Thorough() || n%2 == 1) {
				runLargeOne(c, e, s, "map", n, r.U64())
			}
		}
		for _, d := range nests {
			// the message array itself is one level
			runLargeOne(c, e, s, "nest", d-1, r.U64())
		}
	}
}
