package main

import (
	"fmt"
	"os"
	"path/filepath"
	"reflect"
	"regexp"
	"sort"
	"strings"

	"github.com/blinklabs-io/gouroboros/cbor"
	"github.com/blinklabs-io/gouroboros/protocol"
	pcommon "github.com/blinklabs-io/gouroboros/protocol/common"

	"verifharness/vh"
)

type entry struct {
	Proto  string
	Name   string
	Type   uint
	New    func() protocol.Message
	Decode func(uint, []byte) (protocol.Message, error)
}

func (e entry) key() string { return e.Proto + "/" + e.Name }

// schema mirrors coq/C04/Model.v `schema`.
type schema struct {
	K      string // uint bool bytes text raw list struct point opaque
	Bits   int
	Elem   *schema
	Fields []schema
	Why    string   // for opaque: what it is
	Post   string   // for post: the Coq term of the hand-written post-processing (C04.Model.post)
	Lens   [][2]int // for post PLens: (field index, required byte length)
}

func (s schema) Coq() string {
	switch s.K {
	case "uint":
		return fmt.Sprintf("(SUInt %d)", s.Bits)
	case "bool":
		return "SBool"
	case "bytes":
		return "SBytes"
	case "text":
		return "SText"
	case "raw":
		return "SRaw"
	case "list":
		return "(SList " + s.Elem.Coq() + ")"
	case "struct":
		fs := make([]string, len(s.Fields))
		for i, f := range s.Fields {
			fs[i] = f.Coq()
		}
		return "(SStruct [" + strings.Join(fs, "; ") + "])"
	case "point":
		return "SPoint"
	case "listi":
		return "(SListI " + s.Elem.Coq() + ")"
	case "tagbytes":
		return "STagBytes"
	case "bytesn":
		return fmt.Sprintf("(SBytesN %d)", s.Bits)
	case "tagany":
		return "STagAny"
	case "any":
		return "SAny"
	case "mapu", "mapui":
		return fmt.Sprintf("(SMapU %v %d %s)", s.K == "mapui", s.Bits, s.Elem.Coq())
	case "peer":
		return "SPeer"
	case "post":
		return "(SPost " + s.Post + " " + s.Elem.Coq() + ")"
	case "bylen":
		return fmt.Sprintf("(SByLen %d %s %s)", s.Bits, s.Fields[0].Coq(), s.Fields[1].Coq())
	case "alt":
		return "(SAlt " + s.Fields[0].Coq() + " " + s.Fields[1].Coq() + ")"
	}
	return "SOpaque"
}

func (s schema) hasKind(k string) bool {
	if s.K == k {
		return true
	}
	if s.Elem != nil && s.Elem.hasKind(k) {
		return true
	}
	for _, f := range s.Fields {
		if f.hasKind(k) {
			return true
		}
	}
	return false
}

func (s schema) hasOpaque() bool {
	if s.K == "opaque" {
		return true
	}
	if s.Elem != nil && s.Elem.hasOpaque() {
		return true
	}
	for _, f := range s.Fields {
		if f.hasOpaque() {
			return true
		}
	}
	return false
}

func (s schema) opaqueWhy() []string {
	var out []string
	if s.K == "opaque" {
		out = append(out, s.Why)
	}
	if s.Elem != nil {
		out = append(out, s.Elem.opaqueWhy()...)
	}
	for _, f := range s.Fields {
		out = append(out, f.opaqueWhy()...)
	}
	return out
}

var (
	unmarshalerT = reflect.TypeOf((*interface{ UnmarshalCBOR([]byte) error })(nil)).Elem()
	marshalerT   = reflect.TypeOf((*interface{ MarshalCBOR() ([]byte, error) })(nil)).Elem()
	pointT       = reflect.TypeOf(pcommon.Point{})
	rawT         = reflect.TypeOf(cbor.RawMessage{})
	toArrayT     = reflect.TypeOf(cbor.StructAsArray{})
	storeT       = reflect.TypeOf(cbor.DecodeStoreCbor{})
)

func custom(t reflect.Type) bool {
	p := reflect.PointerTo(t)
	return t.Implements(unmarshalerT) || p.Implements(unmarshalerT) || t.Implements(marshalerT) || p.Implements(marshalerT)
}

// structFields flattens embedded structs (MessageBase) and returns the
// encoded fields in order, and whether the struct is encoded as an array.
func structFields(t reflect.Type) (fields []reflect.StructField, toArray bool, odd string) {
	for i := 0; i < t.NumField(); i++ {
		f := t.Field(i)
		if f.Type == toArrayT {
			toArray = true
			continue
		}
		if f.Type == storeT {
			continue
		}
		if f.Anonymous && f.Type.Kind() == reflect.Struct && !custom(f.Type) {
			sub, ta, o := structFields(f.Type)
			toArray = toArray || ta
			if o != "" {
				odd = o
			}
			for _, sf := range sub {
				sf.Index = append([]int{i}, sf.Index...)
				fields = append(fields, sf)
			}
			continue
		}
		if !f.IsExported() {
			continue
		}
		if tag, ok := f.Tag.Lookup("cbor"); ok {
			if tag == "-" {
				continue
			}
			odd = "cbor tag " + tag + " on " + f.Name
		}
		fields = append(fields, f)
	}
	return
}

// patch replaces the schema of the named field of a struct schema
func patch(t reflect.Type, s schema, field string, f func(schema) schema) schema {
	fs, _, _ := structFields(t)
	for i, sf := range fs {
		if sf.Name == field {
			s.Fields[i] = f(s.Fields[i])
		}
	}
	return s
}

func toListI(s schema) schema    { s.K = "listi"; return s }
func toTagBytes(s schema) schema { return schema{K: "tagbytes"} }
func toMapI(s schema) schema     { s.K = "mapui"; return s }

// overrides: hand models of types with a hand-written codec.  Marshal-only
// types are still DECODED by reflection over their fields, so the schema is
// the reflected one with the encoder's choices patched in (indefinite list,
// tag 24 around bytes, indefinite map); every override is validated by the
// encoder cases (TE) and the decoder cases (TD) of the correspondence.
var overrides map[string]func(t reflect.Type) schema

func init() {
	overrides = map[string]func(t reflect.Type) schema{
		"txsubmission.MsgReplyTxIds":    func(t reflect.Type) schema { return patch(t, structSchema(t), "TxIds", toListI) },
		"txsubmission.MsgRequestTxs":    func(t reflect.Type) schema { return patch(t, structSchema(t), "TxIds", toListI) },
		"txsubmission.MsgReplyTxs":      func(t reflect.Type) schema { return patch(t, structSchema(t), "Txs", toListI) },
		"txsubmission.TxBody":           func(t reflect.Type) schema { return patch(t, structSchema(t), "TxBody", toTagBytes) },
		"blockfetch.MsgBlock":           func(t reflect.Type) schema { return patch(t, structSchema(t), "WrappedBlock", toTagBytes) },
		"leiosfetch.MsgBlockTxsRequest": func(t reflect.Type) schema { return patch(t, structSchema(t), "Bitmaps", toMapI) },
		"peersharing.PeerAddress":       func(t reflect.Type) schema { return schema{K: "peer"} },
		// ---- third round: hand-written codecs as SPost / SByLen over the reflected layout ----
		"common.Blake2b256": func(t reflect.Type) schema { return schema{K: "bytesn", Bits: t.Len()} }, // MarshalCBOR only: a full-size byte string
		"common.LeiosVote": func(t reflect.Type) schema {
			return layout(t, "(SStruct [(SUInt 64); (SBytesN 32); (SUInt 64); SBytes])", func(b schema) schema { return lens(b, [][2]int{{3, 48}}) })
		},
		"common.LeiosPrototypeVote": func(t reflect.Type) schema {
			return layout(t, "(SStruct [(SBytesN 32); (SUInt 64); SBytes])", func(b schema) schema { return lens(b, [][2]int{{2, 48}}) })
		},
		"chainsync.WrappedHeader": func(t reflect.Type) schema {
			return layout(t, "(SStruct [(SUInt 64); SRaw])", func(b schema) schema { return schema{K: "post", Post: "PWHeader", Elem: &b} })
		},
		"chainsync.MsgRollForwardNtC": func(t reflect.Type) schema {
			return layout(t, "(SStruct [(SUInt 8); STagAny; (SStruct [SPoint; (SUInt 64)])])", func(b schema) schema { return schema{K: "post", Post: "PNtC", Elem: &b} })
		},
		"localtxmonitor.MsgReplyNextTx": func(t reflect.Type) schema {
			return layout(t, "(SStruct [(SUInt 8); (SStruct [(SUInt 8); SBytes])])", func(schema) schema { return schema{K: "post", Post: "PReplyNextTx", Elem: &schema{K: "raw"}} })
		},
		"common.RejectReasonData": func(t reflect.Type) schema {
			return layout(t, "(SStruct [(SUInt 8); SText])", func(schema) schema { return schema{K: "post", Post: "PRejectReason", Elem: &schema{K: "raw"}} })
		},
		// DMQ: two wire shapes tried in turn (SAlt), folded into one struct (SPost)
		"common.DmqMessagePayload": func(t reflect.Type) schema {
			return layout(t, "(SStruct [SBytes; (SUInt 64); (SUInt 32)])", func(b schema) schema {
				legacy := schema{K: "struct", Fields: append([]schema{{K: "bytes"}}, b.Fields...)}
				return schema{K: "post", Post: "PDmqPayload", Elem: &schema{K: "alt", Fields: []schema{b, legacy}}}
			})
		},
		"common.DmqMessage": func(t reflect.Type) schema {
			b := structSchema(t) // MessageID, Payload (hand codec), KESSignature, OperationalCertificate, ColdVerificationKey
			if len(b.Fields) != 5 || b.Fields[0].K != "bytes" || b.Fields[1].Post != "PDmqPayload" || b.Fields[2].K != "bytes" || b.Fields[3].K != "struct" || b.Fields[4].K != "bytes" {
				return schema{K: "opaque", Why: "layout of " + t.String() + " changed: " + b.Coq()}
			}
			legacy := schema{K: "struct", Fields: append([]schema{}, b.Fields[1:]...)}
			return schema{K: "post", Post: "PDmq", Elem: &schema{K: "alt", Fields: []schema{b, legacy}}}
		},
		// MarshalCBOR only (value receiver): decoded by reflection, encoded as [type, messages]
		"messagesubmission.MsgReplyMessages": func(t reflect.Type) schema { return structSchema(t) },
		"leiosfetch.MsgBlockTxs": func(t reflect.Type) schema {
			return layout(t, "(SStruct [(SUInt 8); SPoint; (SMapU false 16 (SUInt 64)); (SList SRaw)])", func(b schema) schema {
				full := schema{K: "struct", Fields: append([]schema{}, b.Fields...)}
				full.Fields[2] = toMapI(full.Fields[2])
				short := schema{K: "struct", Fields: []schema{b.Fields[0], b.Fields[3]}}
				return schema{K: "bylen", Bits: 2, Fields: []schema{short, full}}
			})
		},
		"leiosnotify.MsgVotesOffer": func(t reflect.Type) schema {
			return layout(t, "(SStruct [(SUInt 8); (SList (SStruct [(SUInt 64); (SUInt 64)])); (SList "+voteCoq+"); (SList (SPost (PLens [(2%nat, 48)]) (SStruct [(SBytesN 32); (SUInt 64); SBytes])))])", func(b schema) schema {
				id, vote := *b.Fields[1].Elem, *b.Fields[2].Elem
				proto := lens(schema{K: "struct", Fields: []schema{{K: "bytes"}, {K: "uint", Bits: 64}, {K: "bytes"}}}, [][2]int{{0, 32}, {2, 48}})
				inner := schema{K: "bylen", Bits: 4, Fields: []schema{vote, proto}}
				elem := schema{K: "bylen", Bits: 2, Fields: []schema{id, inner}}
				env := schema{K: "struct", Fields: []schema{b.Fields[0], {K: "list", Elem: &elem}}}
				return schema{K: "post", Post: "PPartition", Elem: &env}
			})
		},
	}
}

const voteCoq = "(SPost (PLens [(3%nat, 48)]) (SStruct [(SUInt 64); (SBytesN 32); (SUInt 64); SBytes]))"

// lens: a struct whose byte fields have fixed lengths checked by a Validate()
func lens(b schema, ls [][2]int) schema {
	var xs []string
	for _, l := range ls {
		xs = append(xs, fmt.Sprintf("(%d%%nat, %d)", l[0], l[1]))
	}
	return schema{K: "post", Post: "(PLens [" + strings.Join(xs, "; ") + "])", Elem: &b, Lens: ls}
}

// layout: the hand model of a type with a hand-written codec is only valid for
// the field layout it was written for; the reflected layout (field order,
// kinds, widths) is compared with the expected one and a change makes the
// type opaque again (the translator then reports it as not modelled)
func layout(t reflect.Type, want string, mk func(base schema) schema) schema {
	b := structSchema(t)
	if got := b.Coq(); got != want {
		return schema{K: "opaque", Why: "layout of " + t.String() + " changed: " + got}
	}
	return mk(b)
}

func structSchema(t reflect.Type) schema {
	fs, toArray, odd := structFields(t)
	if !toArray {
		return schema{K: "opaque", Why: "struct encoded as map " + t.String()}
	}
	if odd != "" {
		return schema{K: "opaque", Why: odd + " in " + t.String()}
	}
	s := schema{K: "struct"}
	for _, f := range fs {
		s.Fields = append(s.Fields, schemaOf(f.Type))
	}
	return s
}

var tagT = reflect.TypeOf(cbor.Tag{})

func schemaOf(t reflect.Type) schema {
	if t == pointT {
		return schema{K: "point"}
	}
	if t == rawT {
		return schema{K: "raw"}
	}
	if t == tagT {
		return schema{K: "tagany"}
	}
	if ov, ok := overrides[t.String()]; ok {
		return ov(t)
	}
	if custom(t) {
		return schema{K: "opaque", Why: "custom codec " + t.String()}
	}
	switch t.Kind() {
	case reflect.Uint8:
		return schema{K: "uint", Bits: 8}
	case reflect.Uint16:
		return schema{K: "uint", Bits: 16}
	case reflect.Uint32:
		return schema{K: "uint", Bits: 32}
	case reflect.Uint64, reflect.Uint:
		return schema{K: "uint", Bits: 64}
	case reflect.Bool:
		return schema{K: "bool"}
	case reflect.String:
		return schema{K: "text"}
	case reflect.Slice:
		if t.Elem().Kind() == reflect.Uint8 {
			return schema{K: "bytes"}
		}
		e := schemaOf(t.Elem())
		return schema{K: "list", Elem: &e}
	case reflect.Struct:
		return structSchema(t)
	case reflect.Array:
		if t.Elem().Kind() == reflect.Uint8 {
			return schema{K: "bytesn", Bits: t.Len()}
		}
	case reflect.Interface:
		if t.NumMethod() == 0 {
			return schema{K: "any"}
		}
	case reflect.Map:
		bits := map[reflect.Kind]int{reflect.Uint8: 8, reflect.Uint16: 16, reflect.Uint32: 32, reflect.Uint64: 64, reflect.Uint: 64}[t.Key().Kind()]
		if bits != 0 {
			e := schemaOf(t.Elem())
			return schema{K: "mapu", Bits: bits, Elem: &e}
		}
	}
	return schema{K: "opaque", Why: t.Kind().String() + " " + t.String()}
}

func entrySchema(e entry) schema { return schemaOf(reflect.TypeOf(e.New()).Elem()) }

func coqName(e entry) string {
	return strings.NewReplacer("-", "_", "/", "_").Replace(e.Proto + "_" + e.Name)
}

func repoRoot() string {
	if r := os.Getenv("VERIF_REPO"); r != "" {
		return r
	}
	return "/repo"
}

var armRe = regexp.MustCompile(`ret = &(Msg\w+)\{\}`)

// checkRegistry: every `ret = &MsgX{}` arm of every NewMsgFromCbor in the
// source tree is in the registry (and nothing else).
func checkRegistry() error {
	dirs, _ := filepath.Glob(filepath.Join(repoRoot(), "protocol", "*", "messages.go"))
	src := map[string]bool{}
	for _, f := range dirs {
		b, err := os.ReadFile(f)
		if err != nil {
			return err
		}
		pkg := filepath.Base(filepath.Dir(f))
		for _, m := range armRe.FindAllStringSubmatch(string(b), -1) {
			src[pkg+"/"+m[1]] = true
		}
	}
	reg := map[string]bool{}
	for _, e := range registry {
		reg[strings.Split(e.Proto, "-")[0]+"/"+e.Name] = true
	}
	var diff []string
	for k := range src {
		if !reg[k] {
			diff = append(diff, "missing from registry: "+k)
		}
	}
	for k := range reg {
		if !src[k] {
			diff = append(diff, "not in source: "+k)
		}
	}
	sort.Strings(diff)
	if len(diff) > 0 {
		return fmt.Errorf("message registry out of date (run harness/cmd/c04/mkregistry.py): %s", strings.Join(diff, "; "))
	}
	return nil
}

func gen(out string) error {
	if err := checkRegistry(); err != nil {
		return err
	}
	var sb strings.Builder
	sb.WriteString("(* GENERATED by harness/cmd/c04 gen: reflection over every message struct\n")
	sb.WriteString("   that protocol/*/messages.go NewMsgFromCbor can return - do not edit.\n")
	sb.WriteString("   (name, message type id, schema); SOpaque = custom codec / map / any. *)\n")
	sb.WriteString("From Coq Require Import String.\nFrom V Require Import Lib.Base C04.Model.\nLocal Open Scope string_scope.\nLocal Open Scope N_scope.\n")
	var names []string
	for _, e := range registry {
		s := entrySchema(e)
		fmt.Fprintf(&sb, "Definition sch_%s : schema := %s.\n", coqName(e), s.Coq())
		names = append(names, fmt.Sprintf("(%s, %d, sch_%s)", vh.Str(e.key()), e.Type, coqName(e)))
	}
	sb.WriteString("Definition msg_table : list (string * N * schema) :=\n  [" + strings.Join(names, ";\n   ") + "].\n")
	lc, err := limitsCoq()
	if err != nil {
		return err
	}
	sb.WriteString(lc)
	if out == "" {
		fmt.Print(sb.String())
		return nil
	}
	return vh.WriteIfChanged(out, sb.String())
}
