package main

import (
	"encoding/hex"
	"fmt"

	"github.com/blinklabs-io/gouroboros/protocol/handshake"
)

func main() {
	for _, h := range []string{"8200a1f601", "8200a2 0d01 f601", "8200a2 f601 0d01", "8200a20d01f701", "8200a3 0d01 0e02 f601", "8200a2181d01f601"} {
		b, _ := hex.DecodeString(stripSp(h))
		m, err := handshake.NewMsgFromCbor(0, b)
		fmt.Printf("%-24s %v %+v\n", h, err, m)
	}
}
func stripSp(s string) string {
	o := ""
	for _, c := range s {
		if c != ' ' {
			o += string(c)
		}
	}
	return o
}
