package main

import (
	"bytes"
	"reflect"

	"github.com/blinklabs-io/gouroboros/protocol"
	"github.com/blinklabs-io/gouroboros/protocol/chainsync"
	pcommon "github.com/blinklabs-io/gouroboros/protocol/common"
	"github.com/blinklabs-io/gouroboros/protocol/localtxmonitor"

	"verifharness/vh"
)

// special: message types whose codec is hand-written in both directions and
// is NOT in the schema model of coq/C04 (the chain-sync RollForward wrappers
// are modelled and proved in coq/C22, cited by C04.Props).  They are driven
// through their real constructors and checked by the monitor only: round
// trip on the accessors, and the same mutation engine as every other message
// over an approximate schema (for the mutation sites), judged by a strict
// hand-written shape checker.
type special struct {
	approx   schema
	gen      func(r *vh.Rng) (protocol.Message, error)
	same     func(a, b protocol.Message) bool
	conforms func(it *vh.Item) bool
	extra    func(r *vh.Rng, base *vh.Item) []mutant
}

var (
	sU8    = schema{K: "uint", Bits: 8}
	sU64   = schema{K: "uint", Bits: 64}
	sPoint = schema{K: "point"}
	sTip   = schema{K: "struct", Fields: []schema{sPoint, sU64}}
)

func randTip(r *vh.Rng) chainsync.Tip {
	var t chainsync.Tip
	fill(r, sTip, reflect.ValueOf(&t).Elem())
	return t
}

// a block-like item: [header, body...] with arbitrary header forms
func randBlock(r *vh.Rng) []byte {
	xs := []*vh.Item{vh.A(vh.U(uint64(r.Intn(1000))), vh.B(r.Bytes(r.Intn(40))))}
	for n := r.Intn(3); n > 0; n-- {
		for {
			it := vh.RandItem(r, 2)
			if !hasBuiltinTag(it) && !isNil(it) {
				xs = append(xs, it)
				break
			}
		}
	}
	return vh.A(xs...).Enc()
}

func isU(it *vh.Item) bool    { return it.K == vh.KUInt }
func isU8(it *vh.Item) bool   { return it.K == vh.KUInt && it.N < 256 }
func isBstr(it *vh.Item) bool { return it.K == vh.KBStr || it.K == vh.KBStrI }
func bstrOf(it *vh.Item) []byte {
	if it.K == vh.KBStr {
		return it.Bs
	}
	var b []byte
	for _, c := range it.Chunks {
		b = append(b, c.Bs...)
	}
	return b
}
func isTag24Bytes(it *vh.Item) bool { return it.K == vh.KTag && it.N == 24 && isBstr(it.Xs[0]) }
func arrN(it *vh.Item, n int) bool  { return it.K == vh.KArr && len(it.Xs) == n }

var specials = map[string]*special{
	"chainsync-ntc/MsgRollForwardNtC": {
		approx: schema{K: "struct", Fields: []schema{sU8, {K: "tagany"}, sTip}},
		gen: func(r *vh.Rng) (protocol.Message, error) {
			return chainsync.NewMsgRollForwardNtC(uint(r.Intn(8)), randBlock(r), randTip(r))
		},
		same: func(a, b protocol.Message) bool {
			x, y := a.(*chainsync.MsgRollForwardNtC), b.(*chainsync.MsgRollForwardNtC)
			return x.BlockType() == y.BlockType() && bytes.Equal(x.BlockCbor(), y.BlockCbor()) && reflect.DeepEqual(x.Tip, y.Tip)
		},
		conforms: func(it *vh.Item) bool {
			if !arrN(it, 3) || !isU8(it.Xs[0]) || !isTag24Bytes(it.Xs[1]) || !conforms(sTip, it.Xs[2]) {
				return false
			}
			content := bstrOf(it.Xs[1].Xs[0])
			wb, n, err := vh.ParseItem(content)
			return err == nil && n == len(content) && arrN(wb, 2) && isU(wb.Xs[0])
		},
		extra: func(r *vh.Rng, base *vh.Item) []mutant {
			var out []mutant
			content := func(c *vh.Item) *vh.Item {
				m := base.Clone()
				m.Xs[1] = vh.TagOf(24, vh.B(c.Enc()))
				return m
			}
			blk := vh.A(vh.U(1), vh.B([]byte{2}))
			out = append(out, mutant{"wrapped-block-arity-1", content(vh.A(vh.U(5)))})
			out = append(out, mutant{"wrapped-block-arity-3", content(vh.A(vh.U(5), blk, vh.U(0)))})
			out = append(out, mutant{"wrapped-block-not-array", content(vh.U(5))})
			out = append(out, mutant{"wrapped-block-type-text", content(vh.A(vh.T("x"), blk))})
			m := base.Clone()
			m.Xs[1] = vh.TagOf(24, vh.U(5))
			out = append(out, mutant{"wrapped-block-content-not-bytes", m})
			m = base.Clone()
			m.Xs[1] = vh.TagOf(24, vh.B(append(vh.A(vh.U(5), blk).Enc(), 0x00)))
			out = append(out, mutant{"wrapped-block-trailing-bytes", m})
			m = base.Clone()
			m.Xs[1] = vh.TagOf(24, vh.B([]byte{0x82, 0x05}))
			out = append(out, mutant{"wrapped-block-truncated", m})
			return out
		},
	},
	"chainsync-ntn/MsgRollForwardNtN": {
		approx: schema{K: "struct", Fields: []schema{sU8, {K: "struct", Fields: []schema{sU64, {K: "raw"}}}, sTip}},
		gen: func(r *vh.Rng) (protocol.Message, error) {
			era := uint(r.Intn(8))
			return chainsync.NewMsgRollForwardNtN(era, uint(r.Intn(2)), randBlock(r), randTip(r))
		},
		same: func(a, b protocol.Message) bool {
			x, y := a.(*chainsync.MsgRollForwardNtN), b.(*chainsync.MsgRollForwardNtN)
			return x.WrappedHeader.Era == y.WrappedHeader.Era && bytes.Equal(x.WrappedHeader.HeaderCbor(), y.WrappedHeader.HeaderCbor()) &&
				(x.WrappedHeader.Era != 0 || x.WrappedHeader.ByronType() == y.WrappedHeader.ByronType()) &&
				reflect.DeepEqual(x.Tip, y.Tip)
		},
		conforms: func(it *vh.Item) bool {
			if !arrN(it, 3) || !isU8(it.Xs[0]) || !conforms(sTip, it.Xs[2]) {
				return false
			}
			w := it.Xs[1]
			if !arrN(w, 2) || !isU(w.Xs[0]) {
				return false
			}
			if w.Xs[0].N == 0 {
				h := w.Xs[1]
				return arrN(h, 2) && arrN(h.Xs[0], 2) && isU(h.Xs[0].Xs[0]) && isU(h.Xs[0].Xs[1]) && isTag24Bytes(h.Xs[1])
			}
			return isTag24Bytes(w.Xs[1])
		},
		extra: func(r *vh.Rng, base *vh.Item) []mutant {
			var out []mutant
			hdr := func(h *vh.Item) *vh.Item {
				m := base.Clone()
				m.Xs[1] = h
				return m
			}
			t24 := vh.TagOf(24, vh.B([]byte{0x80}))
			out = append(out, mutant{"wrapped-header-shelley-untagged", hdr(vh.A(vh.U(1), vh.B([]byte{0x80})))})
			out = append(out, mutant{"wrapped-header-content-not-bytes", hdr(vh.A(vh.U(1), vh.TagOf(24, vh.U(5))))})
			out = append(out, mutant{"wrapped-header-arity-3", hdr(vh.A(vh.U(1), t24, vh.U(0)))})
			out = append(out, mutant{"wrapped-header-arity-1", hdr(vh.A(vh.U(1)))})
			out = append(out, mutant{"wrapped-header-byron-as-shelley", hdr(vh.A(vh.U(0), t24))})
			out = append(out, mutant{"wrapped-header-byron-meta-arity-1", hdr(vh.A(vh.U(0), vh.A(vh.A(vh.U(1)), t24)))})
			out = append(out, mutant{"wrapped-header-byron-meta-arity-3", hdr(vh.A(vh.U(0), vh.A(vh.A(vh.U(1), vh.U(2), vh.U(3)), t24)))})
			out = append(out, mutant{"wrapped-header-byron-arity-3", hdr(vh.A(vh.U(0), vh.A(vh.A(vh.U(1), vh.U(2)), t24, vh.U(0))))})
			out = append(out, mutant{"wrapped-header-byron-ok", hdr(vh.A(vh.U(0), vh.A(vh.A(vh.U(1), vh.U(2)), t24)))})
			out = append(out, mutant{"wrapped-header-era-text", hdr(vh.A(vh.T("x"), t24))})
			return out
		},
	},
	"localtxmonitor/MsgReplyNextTx": {
		approx: schema{K: "struct", Fields: []schema{sU8, {K: "struct", Fields: []schema{sU8, {K: "tagbytes"}}}}},
		gen: func(r *vh.Rng) (protocol.Message, error) {
			if r.Intn(4) == 0 {
				return localtxmonitor.NewMsgReplyNextTx(0, nil), nil
			}
			return localtxmonitor.NewMsgReplyNextTx(uint8(boundary(r, 8)), r.Bytes(1+r.Intn(60))), nil
		},
		same: func(a, b protocol.Message) bool {
			x, y := a.(*localtxmonitor.MsgReplyNextTx), b.(*localtxmonitor.MsgReplyNextTx)
			return x.Transaction.EraId == y.Transaction.EraId && bytes.Equal(x.Transaction.Tx, y.Transaction.Tx) &&
				(x.Transaction.Tx == nil) == (y.Transaction.Tx == nil)
		},
		conforms: func(it *vh.Item) bool {
			u8 := func(x *vh.Item) bool { return isU(x) && x.N < 256 }
			if it.K != vh.KArr || len(it.Xs) < 1 || len(it.Xs) > 2 || !u8(it.Xs[0]) {
				return false
			}
			if len(it.Xs) == 1 {
				return true
			}
			tx := it.Xs[1]
			return arrN(tx, 2) && u8(tx.Xs[0]) && isTag24Bytes(tx.Xs[1])
		},
		extra: func(r *vh.Rng, base *vh.Item) []mutant {
			tx := vh.A(vh.U(6), vh.TagOf(24, vh.B([]byte{0x80})))
			return []mutant{
				{"reply-next-tx-empty-array", vh.A()},
				{"reply-next-tx-3-elements", vh.A(vh.U(5), tx, vh.U(0))},
				{"reply-next-tx-wrapper-3-elements", vh.A(vh.U(5), vh.A(vh.U(6), vh.TagOf(24, vh.B([]byte{0x80})), vh.U(0)))},
				{"reply-next-tx-wrapper-1-element", vh.A(vh.U(5), vh.A(vh.U(6)))},
				{"reply-next-tx-untagged-bytes", vh.A(vh.U(5), vh.A(vh.U(6), vh.B([]byte{0x80})))},
				{"reply-next-tx-other-tag", vh.A(vh.U(5), vh.A(vh.U(6), vh.TagOf(25, vh.B([]byte{0x80}))))},
				{"reply-next-tx-era-overflow", vh.A(vh.U(5), vh.A(vh.U(256), vh.TagOf(24, vh.B([]byte{0x80}))))},
				{"reply-next-tx-type-overflow", vh.A(vh.U(256), tx)},
				{"reply-next-tx-no-tx", vh.A(vh.U(5))},
			}
		},
	},
}

var _ = pcommon.Point{}
