package main

import (
	"bytes"
	"reflect"

	"github.com/blinklabs-io/gouroboros/cbor"
	lcommon "github.com/blinklabs-io/gouroboros/ledger/common"
	"github.com/blinklabs-io/gouroboros/protocol"
	"github.com/blinklabs-io/gouroboros/protocol/chainsync"
	pcommon "github.com/blinklabs-io/gouroboros/protocol/common"
	"github.com/blinklabs-io/gouroboros/protocol/leiosfetch"
	"github.com/blinklabs-io/gouroboros/protocol/leiosnotify"
	"github.com/blinklabs-io/gouroboros/protocol/localtxmonitor"

	"verifharness/vh"
)

// special: message types whose codec is hand-written in both directions and
// is NOT in the schema model of coq/C04 (the chain-sync RollForward wrappers
// are modelled and proved in coq/C22, cited by C04.Props).  They are driven
// through their real constructors and checked by the monitor only: round
// trip on the accessors, and the same mutation engine as every other message
// over an approximate schema (for the mutation sites), judged by a strict
// hand-written shape checker.
type special struct {
	approx   schema
	gen      func(r *vh.Rng) (protocol.Message, error)
	same     func(a, b protocol.Message) bool
	conforms func(it *vh.Item) bool
	extra    func(r *vh.Rng, base *vh.Item) []mutant
}

var (
	sU8    = schema{K: "uint", Bits: 8}
	sU64   = schema{K: "uint", Bits: 64}
	sPoint = schema{K: "point"}
	sTip   = schema{K: "struct", Fields: []schema{sPoint, sU64}}
)

func randTip(r *vh.Rng) chainsync.Tip {
	var t chainsync.Tip
	fill(r, sTip, reflect.ValueOf(&t).Elem())
	return t
}

// a block-like item: [header, body...] with arbitrary header forms
func randBlock(r *vh.Rng) []byte {
	xs := []*vh.Item{vh.A(vh.U(uint64(r.Intn(1000))), vh.B(r.Bytes(r.Intn(40))))}
	for n := r.Intn(3); n > 0; n-- {
		for {
			it := vh.RandItem(r, 2)
			if !hasBuiltinTag(it) && !isNil(it) {
				xs = append(xs, it)
				break
			}
		}
	}
	return vh.A(xs...).Enc()
}

func isU(it *vh.Item) bool    { return it.K == vh.KUInt }
func isU8(it *vh.Item) bool   { return it.K == vh.KUInt && it.N < 256 }
func isBstr(it *vh.Item) bool { return it.K == vh.KBStr || it.K == vh.KBStrI }
func bstrOf(it *vh.Item) []byte {
	if it.K == vh.KBStr {
		return it.Bs
	}
	var b []byte
	for _, c := range it.Chunks {
		b = append(b, c.Bs...)
	}
	return b
}
func isTag24Bytes(it *vh.Item) bool { return it.K == vh.KTag && it.N == 24 && isBstr(it.Xs[0]) }
func arrN(it *vh.Item, n int) bool  { return it.K == vh.KArr && len(it.Xs) == n }

var specials = map[string]*special{
	"chainsync-ntc/MsgRollForwardNtC": {
		approx: schema{K: "struct", Fields: []schema{sU8, {K: "tagany"}, sTip}},
		gen: func(r *vh.Rng) (protocol.Message, error) {
			return chainsync.NewMsgRollForwardNtC(uint(r.Intn(8)), randBlock(r), randTip(r))
		},
		same: func(a, b protocol.Message) bool {
			x, y := a.(*chainsync.MsgRollForwardNtC), b.(*chainsync.MsgRollForwardNtC)
			return x.BlockType() == y.BlockType() && bytes.Equal(x.BlockCbor(), y.BlockCbor()) && reflect.DeepEqual(x.Tip, y.Tip)
		},
		conforms: func(it *vh.Item) bool {
			if !arrN(it, 3) || !isU8(it.Xs[0]) || !isTag24Bytes(it.Xs[1]) || !conforms(sTip, it.Xs[2]) {
				return false
			}
			content := bstrOf(it.Xs[1].Xs[0])
			wb, n, err := vh.ParseItem(content)
			return err == nil && n == len(content) && arrN(wb, 2) && isU(wb.Xs[0])
		},
		extra: func(r *vh.Rng, base *vh.Item) []mutant {
			var out []mutant
			content := func(c *vh.Item) *vh.Item {
				m := base.Clone()
				m.Xs[1] = vh.TagOf(24, vh.B(c.Enc()))
				return m
			}
			blk := vh.A(vh.U(1), vh.B([]byte{2}))
			out = append(out, mutant{"wrapped-block-arity-1", content(vh.A(vh.U(5)))})
			out = append(out, mutant{"wrapped-block-arity-3", content(vh.A(vh.U(5), blk, vh.U(0)))})
			out = append(out, mutant{"wrapped-block-not-array", content(vh.U(5))})
			out = append(out, mutant{"wrapped-block-type-text", content(vh.A(vh.T("x"), blk))})
			m := base.Clone()
			m.Xs[1] = vh.TagOf(24, vh.U(5))
			out = append(out, mutant{"wrapped-block-content-not-bytes", m})
			m = base.Clone()
			m.Xs[1] = vh.TagOf(24, vh.B(append(vh.A(vh.U(5), blk).Enc(), 0x00)))
			out = append(out, mutant{"wrapped-block-trailing-bytes", m})
			m = base.Clone()
			m.Xs[1] = vh.TagOf(24, vh.B([]byte{0x82, 0x05}))
			out = append(out, mutant{"wrapped-block-truncated", m})
			return out
		},
	},
	"chainsync-ntn/MsgRollForwardNtN": {
		approx: schema{K: "struct", Fields: []schema{sU8, {K: "struct", Fields: []schema{sU64, {K: "raw"}}}, sTip}},
		gen: func(r *vh.Rng) (protocol.Message, error) {
			// era 0 (Byron: type and size on the wire) in a third of the cases
			era := uint(0)
			if r.Intn(3) > 0 {
				era = uint(1 + r.Intn(7))
			}
			return chainsync.NewMsgRollForwardNtN(era, uint(r.Intn(3)), randBlock(r), randTip(r))
		},
		// compared on the rendered fields (era, Byron type and size, header bytes, tip)
		conforms: func(it *vh.Item) bool {
			if !arrN(it, 3) || !isU8(it.Xs[0]) || !conforms(sTip, it.Xs[2]) {
				return false
			}
			w := it.Xs[1]
			if !arrN(w, 2) || !isU(w.Xs[0]) {
				return false
			}
			if w.Xs[0].N == 0 {
				h := w.Xs[1]
				return arrN(h, 2) && arrN(h.Xs[0], 2) && isU(h.Xs[0].Xs[0]) && isU(h.Xs[0].Xs[1]) && isTag24Bytes(h.Xs[1])
			}
			return isTag24Bytes(w.Xs[1])
		},
		extra: func(r *vh.Rng, base *vh.Item) []mutant {
			var out []mutant
			hdr := func(h *vh.Item) *vh.Item {
				m := base.Clone()
				m.Xs[1] = h
				return m
			}
			t24 := vh.TagOf(24, vh.B([]byte{0x80}))
			out = append(out, mutant{"wrapped-header-shelley-untagged", hdr(vh.A(vh.U(1), vh.B([]byte{0x80})))})
			out = append(out, mutant{"wrapped-header-content-not-bytes", hdr(vh.A(vh.U(1), vh.TagOf(24, vh.U(5))))})
			out = append(out, mutant{"wrapped-header-arity-3", hdr(vh.A(vh.U(1), t24, vh.U(0)))})
			out = append(out, mutant{"wrapped-header-arity-1", hdr(vh.A(vh.U(1)))})
			out = append(out, mutant{"wrapped-header-byron-as-shelley", hdr(vh.A(vh.U(0), t24))})
			out = append(out, mutant{"wrapped-header-byron-meta-arity-1", hdr(vh.A(vh.U(0), vh.A(vh.A(vh.U(1)), t24)))})
			out = append(out, mutant{"wrapped-header-byron-meta-arity-3", hdr(vh.A(vh.U(0), vh.A(vh.A(vh.U(1), vh.U(2), vh.U(3)), t24)))})
			out = append(out, mutant{"wrapped-header-byron-arity-3", hdr(vh.A(vh.U(0), vh.A(vh.A(vh.U(1), vh.U(2)), t24, vh.U(0))))})
			out = append(out, mutant{"wrapped-header-byron-ok", hdr(vh.A(vh.U(0), vh.A(vh.A(vh.U(1), vh.U(2)), t24)))})
			out = append(out, mutant{"wrapped-header-era-text", hdr(vh.A(vh.T("x"), t24))})
			return out
		},
	},
	"localtxmonitor/MsgReplyNextTx": {
		approx: schema{K: "struct", Fields: []schema{sU8, {K: "struct", Fields: []schema{sU8, {K: "tagbytes"}}}}},
		gen: func(r *vh.Rng) (protocol.Message, error) {
			if r.Intn(4) == 0 {
				return localtxmonitor.NewMsgReplyNextTx(0, nil), nil
			}
			return localtxmonitor.NewMsgReplyNextTx(uint8(boundary(r, 8)), r.Bytes(1+r.Intn(60))), nil
		},
		same: func(a, b protocol.Message) bool {
			x, y := a.(*localtxmonitor.MsgReplyNextTx), b.(*localtxmonitor.MsgReplyNextTx)
			return x.Transaction.EraId == y.Transaction.EraId && bytes.Equal(x.Transaction.Tx, y.Transaction.Tx) &&
				(x.Transaction.Tx == nil) == (y.Transaction.Tx == nil)
		},
		conforms: func(it *vh.Item) bool {
			u8 := func(x *vh.Item) bool { return isU(x) && x.N < 256 }
			if it.K != vh.KArr || len(it.Xs) < 1 || len(it.Xs) > 2 || !u8(it.Xs[0]) {
				return false
			}
			if len(it.Xs) == 1 {
				return true
			}
			tx := it.Xs[1]
			return arrN(tx, 2) && u8(tx.Xs[0]) && isTag24Bytes(tx.Xs[1])
		},
		extra: func(r *vh.Rng, base *vh.Item) []mutant {
			tx := vh.A(vh.U(6), vh.TagOf(24, vh.B([]byte{0x80})))
			return []mutant{
				{"reply-next-tx-empty-array", vh.A()},
				{"reply-next-tx-3-elements", vh.A(vh.U(5), tx, vh.U(0))},
				{"reply-next-tx-wrapper-3-elements", vh.A(vh.U(5), vh.A(vh.U(6), vh.TagOf(24, vh.B([]byte{0x80})), vh.U(0)))},
				{"reply-next-tx-wrapper-1-element", vh.A(vh.U(5), vh.A(vh.U(6)))},
				{"reply-next-tx-untagged-bytes", vh.A(vh.U(5), vh.A(vh.U(6), vh.B([]byte{0x80})))},
				{"reply-next-tx-other-tag", vh.A(vh.U(5), vh.A(vh.U(6), vh.TagOf(25, vh.B([]byte{0x80}))))},
				{"reply-next-tx-era-overflow", vh.A(vh.U(5), vh.A(vh.U(256), vh.TagOf(24, vh.B([]byte{0x80}))))},
				{"reply-next-tx-type-overflow", vh.A(vh.U(256), tx)},
				{"reply-next-tx-no-tx", vh.A(vh.U(5))},
				// the tag-24 content is a cbor.WrappedCbor ([]byte) filled by the library's reflection
				{"coerce:wrapped-cbor:null-content", vh.A(vh.U(6), vh.A(vh.U(6), vh.TagOf(24, vh.Null())))},
				{"coerce:wrapped-cbor:undefined-content", vh.A(vh.U(6), vh.A(vh.U(6), vh.TagOf(24, &vh.Item{K: vh.KSimple, F: vh.Fimm, N: 23})))},
				{"coerce:wrapped-cbor:int-array-content", vh.A(vh.U(6), vh.A(vh.U(6), vh.TagOf(24, vh.A(vh.U(1), vh.U(2), vh.U(255)))))},
				{"coerce:wrapped-cbor:empty-array-content", vh.A(vh.U(6), vh.A(vh.U(6), vh.TagOf(24, vh.A())))},
				{"coerce:wrapped-cbor:tagged-content", vh.A(vh.U(6), vh.A(vh.U(6), vh.TagOf(24, vh.TagOf(40, vh.B([]byte{0x80})))))},
				{"reply-next-tx-text-content", vh.A(vh.U(6), vh.A(vh.U(6), vh.TagOf(24, vh.T("ab"))))},
				{"reply-next-tx-int-array-overflow-content", vh.A(vh.U(6), vh.A(vh.U(6), vh.TagOf(24, vh.A(vh.U(256)))))},
				{"reply-next-tx-tag24-inside-tag", vh.A(vh.U(6), vh.A(vh.U(6), vh.TagOf(40, vh.TagOf(24, vh.B([]byte{0x80})))))},
				{"reply-next-tx-era-null", vh.A(vh.U(6), vh.A(vh.Null(), vh.TagOf(24, vh.B([]byte{0x80}))))},
				{"reply-next-tx-era-simple", vh.A(vh.U(6), vh.A(&vh.Item{K: vh.KSimple, F: vh.Fimm, N: 6}, vh.TagOf(24, vh.B([]byte{0x80}))))},
				{"reply-next-tx-era-bignum", vh.A(vh.U(6), vh.A(vh.TagOf(2, vh.B([]byte{6})), vh.TagOf(24, vh.B([]byte{0x80}))))},
				{"reply-next-tx-era-tagged", vh.A(vh.U(6), vh.A(vh.TagOf(40, vh.U(6)), vh.TagOf(24, vh.B([]byte{0x80}))))},
				{"reply-next-tx-type-tagged", vh.A(vh.TagOf(40, vh.U(6)))},
				{"reply-next-tx-type-null", vh.A(vh.Null())},
				{"reply-next-tx-wrapper-tagged", vh.A(vh.U(6), vh.TagOf(40, tx))},
				{"reply-next-tx-wrapper-null", vh.A(vh.U(6), vh.Null())},
				{"reply-next-tx-wrapper-map", vh.A(vh.U(6), vh.M())},
				{"reply-next-tx-wide-heads-ok", &vh.Item{K: vh.KArr, F: vh.Findef, Xs: []*vh.Item{{K: vh.KUInt, F: vh.F2, N: 6}, {K: vh.KArr, F: vh.F1, Xs: []*vh.Item{{K: vh.KUInt, F: vh.F8, N: 6}, {K: vh.KTag, F: vh.F2, N: 24, Xs: []*vh.Item{vh.B([]byte{0x80})}}}}}}},
			}
		},
	},
}

func init() {
	rawList := func(r *vh.Rng) []cbor.RawMessage {
		txs := make([]cbor.RawMessage, r.Intn(4))
		for i := range txs {
			txs[i] = randRaw(r)
		}
		return txs
	}
	specials["leiosfetch/MsgBlockTxs"] = &special{
		gen: func(r *vh.Rng) (protocol.Message, error) {
			if r.Bool() {
				return leiosfetch.NewMsgBlockTxs(rawList(r)), nil
			}
			p := pcommon.NewPoint(1+boundary(r, 32), r.Bytes(32))
			bm := map[uint16]uint64{}
			for n := r.Intn(4); n > 0; n-- {
				bm[uint16(boundary(r, 16))] = boundary(r, 64)
			}
			return leiosfetch.NewMsgBlockTxsFull(p, bm, rawList(r)), nil
		},
		extra: func(r *vh.Rng, base *vh.Item) []mutant {
			tx := vh.A(vh.TagOf(24, vh.B([]byte{0x80})))
			pt := vh.A(vh.U(7), vh.B(r.Bytes(32)))
			return []mutant{
				{"block-txs-1-element", vh.A(vh.U(3))},
				{"block-txs-3-elements", vh.A(vh.U(3), pt, tx)},
				{"block-txs-3-elements-bitmaps", vh.A(vh.U(3), vh.M(vh.U(0), vh.U(1)), tx)},
				{"block-txs-5-elements", vh.A(vh.U(3), pt, vh.M(), tx, vh.U(0))},
				{"block-txs-empty-array", vh.A()},
				{"block-txs-short-form-ok", vh.A(vh.U(3), tx)},
				{"block-txs-full-form-ok", vh.A(vh.U(3), pt, vh.M(vh.U(0), vh.U(1)), tx)},
				{"block-txs-full-form-definite-empty-bitmaps-ok", vh.A(vh.U(3), vh.A(), vh.M(), vh.A())},
				{"block-txs-short-form-point-list", vh.A(vh.U(3), pt)},
				{"block-txs-full-form-swapped", vh.A(vh.U(3), vh.M(), pt, tx)},
				{"block-txs-full-form-bitmaps-array", vh.A(vh.U(3), pt, vh.A(), tx)},
				{"block-txs-full-form-bitmap-key-overflow", vh.A(vh.U(3), pt, vh.M(vh.U(65536), vh.U(1)), tx)},
				{"block-txs-full-form-bitmap-duplicate-key", vh.A(vh.U(3), pt, vh.M(vh.U(1), vh.U(1), vh.U(1), vh.U(2)), tx)},
				{"block-txs-full-form-point-3", vh.A(vh.U(3), vh.A(vh.U(5), vh.B([]byte{6}), vh.U(7)), vh.M(), tx)},
				{"block-txs-type-overflow", vh.A(vh.U(256), tx)},
				{"block-txs-txs-map", vh.A(vh.U(3), vh.M())},
			}
		},
	}
	sig := func(r *vh.Rng) []byte { return r.Bytes(lcommon.LeiosBlsSignatureSize) }
	specials["leiosnotify/MsgVotesOffer"] = &special{
		gen: func(r *vh.Rng) (protocol.Message, error) {
			n := r.Intn(4)
			switch r.Intn(3) {
			case 0:
				vs := make([]leiosnotify.MsgVotesOfferVote, n)
				for i := range vs {
					vs[i] = leiosnotify.MsgVotesOfferVote{SlotNo: boundary(r, 64), VoterId: boundary(r, 64)}
				}
				return leiosnotify.NewMsgVotesOffer(vs), nil
			case 1:
				vs := make([]lcommon.LeiosVote, 1+n)
				for i := range vs {
					vs[i] = lcommon.LeiosVote{SlotNo: boundary(r, 64), EndorserBlockHash: lcommon.NewBlake2b256(r.Bytes(32)), VoterId: boundary(r, 64), VoteSignature: sig(r)}
				}
				return leiosnotify.NewMsgVotesOfferFull(vs), nil
			}
			vs := make([]leiosnotify.PrototypeVote, 1+n)
			for i := range vs {
				vs[i] = leiosnotify.PrototypeVote{AnnouncingRbHash: lcommon.NewBlake2b256(r.Bytes(32)), VoterId: boundary(r, 64), VoteSignature: sig(r)}
			}
			return leiosnotify.NewMsgVotesOfferPrototype(vs), nil
		},
		extra: func(r *vh.Rng, base *vh.Item) []mutant {
			id := func() *vh.Item { return vh.A(vh.U(uint64(r.Intn(100))), vh.U(uint64(r.Intn(100)))) }
			full := func() *vh.Item {
				return vh.A(vh.U(uint64(r.Intn(100))), vh.B(r.Bytes(32)), vh.U(uint64(r.Intn(100))), vh.B(sig(r)))
			}
			proto := func() *vh.Item { return vh.A(vh.B(r.Bytes(32)), vh.U(uint64(r.Intn(100))), vh.B(sig(r))) }
			offer := func(vs ...*vh.Item) *vh.Item { return vh.A(vh.U(4), vh.A(vs...)) }
			return []mutant{
				{"votes-offer-mixed-ok", offer(full(), id(), proto(), id(), full())},
				{"votes-offer-ids-ok", offer(id(), id())},
				{"votes-offer-prototype-ok", offer(proto())},
				{"votes-offer-vote-1-element", offer(vh.A(vh.U(1)))},
				{"votes-offer-vote-5-elements", offer(vh.A(vh.U(1), vh.B(r.Bytes(32)), vh.U(2), vh.B(sig(r)), vh.U(0)))},
				{"votes-offer-vote-empty", offer(vh.A())},
				{"votes-offer-vote-not-array", offer(vh.U(1))},
				{"votes-offer-vote-null", offer(vh.Null())},
				{"votes-offer-vote-map", offer(vh.M())},
				{"votes-offer-full-short-signature", offer(vh.A(vh.U(1), vh.B(r.Bytes(32)), vh.U(2), vh.B(r.Bytes(47))))},
				{"votes-offer-full-text-hash", offer(vh.A(vh.U(1), vh.T("abcd"), vh.U(2), vh.B(sig(r))))},
				{"votes-offer-full-swapped", offer(vh.A(vh.B(r.Bytes(32)), vh.U(1), vh.U(2), vh.B(sig(r))))},
				{"votes-offer-prototype-short-hash", offer(vh.A(vh.B(r.Bytes(31)), vh.U(2), vh.B(sig(r))))},
				{"votes-offer-prototype-long-hash", offer(vh.A(vh.B(r.Bytes(33)), vh.U(2), vh.B(sig(r))))},
				{"votes-offer-prototype-long-signature", offer(vh.A(vh.B(r.Bytes(32)), vh.U(2), vh.B(r.Bytes(49))))},
				{"votes-offer-prototype-text-voter", offer(vh.A(vh.B(r.Bytes(32)), vh.T("v"), vh.B(sig(r))))},
				{"votes-offer-prototype-negative-voter", offer(vh.A(vh.B(r.Bytes(32)), vh.NI(0), vh.B(sig(r))))},
				{"votes-offer-id-text-slot", offer(vh.A(vh.T("s"), vh.U(2)))},
				{"votes-offer-id-bytes-voter", offer(vh.A(vh.U(2), vh.B([]byte{1})))},
				{"votes-offer-3-elements", vh.A(vh.U(4), vh.A(id()), vh.U(0))},
				{"votes-offer-1-element", vh.A(vh.U(4))},
				{"votes-offer-votes-map", vh.A(vh.U(4), vh.M())},
				{"coerce:struct-field:null-for-prototype-hash", offer(vh.A(vh.Null(), vh.U(2), vh.B(sig(r))))},
				{"coerce:struct-field:int-array-as-prototype-signature", offer(vh.A(vh.B(r.Bytes(32)), vh.U(2), vh.A(intItems(48)...)))},
			}
		},
	}
	for k, sp := range specials {
		if sp.approx.K == "" {
			sp.approx = entrySchema(byKeyInit(k))
		}
	}
}

func intItems(n int) []*vh.Item {
	xs := make([]*vh.Item, n)
	for i := range xs {
		xs[i] = vh.U(uint64(i))
	}
	return xs
}

func byKeyInit(k string) entry {
	for _, e := range registry {
		if e.key() == k {
			return e
		}
	}
	panic("no registry entry " + k)
}

var _ = pcommon.Point{}
