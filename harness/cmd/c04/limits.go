package main

import (
	"fmt"
	"go/ast"
	"go/parser"
	"go/token"
	"path/filepath"
	"sort"
	"strconv"
	"strings"
)

// decoder limits of the repository's cbor package and the decode entry point
// each protocol's NewMsgFromCbor uses - read from the source, not hard-coded.

type decLimits struct{ Nest, Arr, Map uint64 }

func evalConst(e ast.Expr, env map[string]ast.Expr, depth int) (uint64, error) {
	if depth > 20 {
		return 0, fmt.Errorf("constant expression too deep")
	}
	switch v := e.(type) {
	case *ast.BasicLit:
		if v.Kind != token.INT {
			return 0, fmt.Errorf("not an integer literal: %s", v.Value)
		}
		return strconv.ParseUint(v.Value, 0, 64)
	case *ast.ParenExpr:
		return evalConst(v.X, env, depth+1)
	case *ast.Ident:
		d, ok := env[v.Name]
		if !ok {
			return 0, fmt.Errorf("unknown constant %s", v.Name)
		}
		return evalConst(d, env, depth+1)
	case *ast.BinaryExpr:
		a, err := evalConst(v.X, env, depth+1)
		if err != nil {
			return 0, err
		}
		b, err := evalConst(v.Y, env, depth+1)
		if err != nil {
			return 0, err
		}
		switch v.Op {
		case token.ADD:
			return a + b, nil
		case token.SUB:
			return a - b, nil
		case token.MUL:
			return a * b, nil
		case token.SHL:
			return a << b, nil
		}
	}
	return 0, fmt.Errorf("unsupported constant expression")
}

func constEnv(f *ast.File) map[string]ast.Expr {
	env := map[string]ast.Expr{}
	for _, d := range f.Decls {
		gd, ok := d.(*ast.GenDecl)
		if !ok || gd.Tok != token.CONST {
			continue
		}
		for _, sp := range gd.Specs {
			vs := sp.(*ast.ValueSpec)
			for i, n := range vs.Names {
				if i < len(vs.Values) {
					env[n.Name] = vs.Values[i]
				}
			}
		}
	}
	return env
}

func funcDecl(f *ast.File, name string) *ast.FuncDecl {
	for _, d := range f.Decls {
		if fd, ok := d.(*ast.FuncDecl); ok && fd.Recv == nil && fd.Name.Name == name {
			return fd
		}
	}
	return nil
}

// readDecLimits: for every exported cbor.Decode* entry point, the limits of
// the DecOptions literal of the mode getter it calls.
func readDecLimits() (map[string]decLimits, error) {
	fset := token.NewFileSet()
	f, err := parser.ParseFile(fset, filepath.Join(repoRoot(), "cbor", "decode.go"), nil, 0)
	if err != nil {
		return nil, err
	}
	env := constEnv(f)
	out := map[string]decLimits{}
	for _, d := range f.Decls {
		fd, ok := d.(*ast.FuncDecl)
		if !ok || fd.Recv != nil || !strings.HasPrefix(fd.Name.Name, "Decode") || fd.Body == nil {
			continue
		}
		getter := ""
		ast.Inspect(fd.Body, func(n ast.Node) bool {
			if ce, ok := n.(*ast.CallExpr); ok && getter == "" {
				if id, ok := ce.Fun.(*ast.Ident); ok && strings.HasPrefix(id.Name, "get") && strings.HasSuffix(id.Name, "DecMode") {
					getter = id.Name
				}
			}
			return true
		})
		if getter == "" {
			continue
		}
		g := funcDecl(f, getter)
		if g == nil {
			return nil, fmt.Errorf("%s: mode getter %s not found", fd.Name.Name, getter)
		}
		opts := map[string]uint64{}
		var ferr error
		ast.Inspect(g, func(n ast.Node) bool {
			kv, ok := n.(*ast.KeyValueExpr)
			if !ok {
				return true
			}
			if id, ok := kv.Key.(*ast.Ident); ok {
				switch id.Name {
				case "MaxNestedLevels", "MaxArrayElements", "MaxMapPairs":
					v, err := evalConst(kv.Value, env, 0)
					if err != nil {
						ferr = fmt.Errorf("%s %s: %v", getter, id.Name, err)
					}
					opts[id.Name] = v
				}
			}
			return true
		})
		if ferr != nil {
			return nil, ferr
		}
		// fxamacker defaults when an option is absent
		lim := decLimits{Nest: 32, Arr: 131072, Map: 131072}
		if v, ok := opts["MaxNestedLevels"]; ok {
			lim.Nest = v
		}
		if v, ok := opts["MaxArrayElements"]; ok {
			lim.Arr = v
		}
		if v, ok := opts["MaxMapPairs"]; ok {
			lim.Map = v
		}
		out[fd.Name.Name] = lim
	}
	if len(out) == 0 {
		return nil, fmt.Errorf("no cbor.Decode* entry point found")
	}
	return out, nil
}

// readDecodeModes: the cbor.Decode* function NewMsgFromCbor of each protocol
// package applies to the message body.
func readDecodeModes() (map[string]string, error) {
	files, _ := filepath.Glob(filepath.Join(repoRoot(), "protocol", "*", "messages.go"))
	out := map[string]string{}
	for _, fn := range files {
		fset := token.NewFileSet()
		f, err := parser.ParseFile(fset, fn, nil, 0)
		if err != nil {
			return nil, err
		}
		fd := funcDecl(f, "NewMsgFromCbor")
		if fd == nil {
			continue
		}
		pkg := filepath.Base(filepath.Dir(fn))
		mode := ""
		ast.Inspect(fd.Body, func(n ast.Node) bool {
			ce, ok := n.(*ast.CallExpr)
			if !ok || mode != "" {
				return true
			}
			if se, ok := ce.Fun.(*ast.SelectorExpr); ok {
				if x, ok := se.X.(*ast.Ident); ok && x.Name == "cbor" && strings.HasPrefix(se.Sel.Name, "Decode") && len(ce.Args) == 2 {
					mode = se.Sel.Name
				}
			}
			return true
		})
		if mode == "" {
			mode = "unknown"
		}
		out[pkg] = mode
	}
	return out, nil
}

func limitsCoq() (string, error) {
	lims, err := readDecLimits()
	if err != nil {
		return "", err
	}
	modes, err := readDecodeModes()
	if err != nil {
		return "", err
	}
	var sb strings.Builder
	sb.WriteString("(* decoder limits of cbor/decode.go per entry point: (name, (MaxNestedLevels, MaxArrayElements, MaxMapPairs)) *)\n")
	var ls []string
	names := make([]string, 0, len(lims))
	for k := range lims {
		names = append(names, k)
	}
	sort.Strings(names)
	for _, k := range names {
		l := lims[k]
		ls = append(ls, fmt.Sprintf("(%q, (%d, %d, %d))", k, l.Nest, l.Arr, l.Map))
	}
	sb.WriteString("Definition dec_limits : list (string * (N * N * N)) :=\n  [" + strings.Join(ls, ";\n   ") + "].\n")
	sb.WriteString("(* the entry point NewMsgFromCbor of each protocol package applies to the message body *)\n")
	var ms []string
	pk := make([]string, 0, len(modes))
	for k := range modes {
		pk = append(pk, k)
	}
	sort.Strings(pk)
	for _, k := range pk {
		ms = append(ms, fmt.Sprintf("(%q, %q)", k, modes[k]))
	}
	sb.WriteString("Definition decode_mode : list (string * string) :=\n  [" + strings.Join(ms, ";\n   ") + "].\n")
	return sb.String(), nil
}
