// C33 - reward withdrawals are DRep-gated only at PV10 and PV11.
package main

import (
	"encoding/json"
	"errors"
	"fmt"
	"os"
	"strings"

	"github.com/blinklabs-io/gouroboros/ledger/babbage"
	"github.com/blinklabs-io/gouroboros/ledger/common"
	"github.com/blinklabs-io/gouroboros/ledger/conway"
	"github.com/blinklabs-io/gouroboros/ledger/dijkstra"
	"github.com/blinklabs-io/gouroboros/ledger/shelley"

	"verifharness/vh"
)

const header = `From Coq Require Import String.
From V Require Import Lib.Base C33.Model.
Open Scope string_scope.`

type wspec struct {
	Cred   int    `json:"cred"`   // 0 key hash, 1 script hash, 2 address without stake credential
	Amount uint64 `json:"amount"` //
	Reg    bool   `json:"registered"`
	Deleg  int    `json:"deleg"` // 0 none, 1 delegated, 2 lookup error
}

type rcase struct {
	Era     string  `json:"era"`
	PPKind  string  `json:"pp_kind"` // conway | dijkstra | babbage (no ProtocolMajorVersion)
	PV      uint64  `json:"pv"`
	IsValid bool    `json:"is_valid"`
	Cap     bool    `json:"drep_capability"`
	Ws      []wspec `json:"withdrawals"`
	Shape   *shape  `json:"shape,omitempty"` // nil = one input, one output
	TxHex   string  `json:"tx_hex,omitempty"`
	Result  string  `json:"result,omitempty"`        // through common.VerifyTransaction over the whole era list
	Direct  string  `json:"result_direct,omitempty"` // the rule function called directly
}

func (rc rcase) shape() shape {
	if rc.Shape == nil {
		return defaultShape
	}
	return *rc.Shape
}

func hash28(i int) []byte {
	b := make([]byte, 28)
	b[0], b[1], b[27] = 0x33, byte(i), byte(i*7+1)
	return b
}

func addrBytes(i int, w wspec) []byte {
	switch w.Cred {
	case 0:
		return append([]byte{0xe1}, hash28(i)...)
	case 1:
		return append([]byte{0xf1}, hash28(i)...)
	}
	return append([]byte{0x61}, hash28(i)...) // enterprise address: no staking part
}

func buildTx(rc rcase) []byte {
	kv := shapedBody(rc.Era, rc.shape(), 200000, true)
	if len(rc.Ws) > 0 {
		var m []*vh.Item
		for i, w := range rc.Ws {
			m = append(m, vh.B(addrBytes(i, w)), vh.U(w.Amount))
		}
		kv = append(kv, vh.U(5), vh.M(m...))
	}
	return envelope(rc.Era, vh.M(kv...), vh.M(), rc.IsValid).Enc()
}

var errLookup = errors.New("delegation lookup failed")

// ledger state without the DRep capability: answers IsRewardAccountRegistered only
type lsNoCap struct {
	common.LedgerState
	byHash map[string]wspec
	out    common.TransactionOutput
}

func (l lsNoCap) IsRewardAccountRegistered(c common.Credential) bool {
	w, ok := l.byHash[string(c.Credential.Bytes())]
	return ok && w.Reg
}

// UtxoById answers every input with a plain 2 ada output, as a real state
// would for the inputs of a valid transaction (other rules of the list and
// any lookup layer in front of the ledger state call it).
func (l lsNoCap) UtxoById(in common.TransactionInput) (common.Utxo, error) {
	return common.Utxo{Id: in, Output: l.out}, nil
}

// ... and with it
type lsCap struct{ lsNoCap }

func (l lsCap) DRepDelegation(c common.Credential) (*common.Drep, error) {
	w, ok := l.byHash[string(c.Credential.Bytes())]
	if !ok {
		return nil, errors.New("unknown credential queried")
	}
	switch w.Deleg {
	case 1:
		return &common.Drep{Type: 2}, nil
	case 2:
		return nil, errLookup
	}
	return nil, nil
}

func c33Pparams(rc rcase) common.ProtocolParameters {
	cp := conway.ConwayProtocolParameters{ProtocolVersion: common.ProtocolParametersProtocolVersion{Major: uint(rc.PV)}}
	switch rc.PPKind {
	case "conway":
		return &cp
	case "dijkstra":
		return &dijkstra.DijkstraProtocolParameters{ConwayProtocolParameters: cp}
	}
	return &babbage.BabbageProtocolParameters{ProtocolMajor: uint(rc.PV)}
}

func classify(err error) string {
	if err == nil {
		return "ROk"
	}
	var e1 conway.WithdrawalNotDelegatedToDRepError
	var e2 conway.DRepDelegationStateUnavailableError
	var e3 shelley.WithdrawalFromUnregisteredRewardAccountError
	switch {
	case errors.As(err, &e1):
		return "RNotDelegated"
	case errors.As(err, &e2):
		return "RUnavailable"
	case errors.As(err, &e3):
		return "RUnregistered"
	case errors.Is(err, errLookup):
		return "RLookupErr"
	}
	return "foreign:" + err.Error()
}

func observe(rc *rcase) error {
	// a Dijkstra transaction cannot carry is_valid=false on the wire: the
	// phase-2-invalid cases of the Dijkstra rule list / parameter type use a
	// Conway transaction (the rule takes any common.Transaction)
	txEra := rc.Era
	if rc.Era == "dijkstra" && !rc.IsValid {
		txEra = "conway"
	}
	data := buildTx(*rc)
	rc.TxHex = vh.Hex(data)
	tx, err := decodeTx(txEra, data)
	if err != nil {
		return fmt.Errorf("decode %s: %w", rc.Era, err)
	}
	if len(tx.Withdrawals()) != len(rc.Ws) || tx.IsValid() != rc.IsValid {
		return fmt.Errorf("decoder returned %d withdrawals / is_valid %v", len(tx.Withdrawals()), tx.IsValid())
	}
	for addr, amt := range tx.Withdrawals() {
		// every decoded entry must be one of ours, with the credential kind and amount intended
		found := false
		for i, w := range rc.Ws {
			b, _ := addr.Bytes()
			if string(b) == string(addrBytes(i, w)) {
				_, ok := addr.StakeCredential()
				if ok != (w.Cred != 2) || amt == nil || !amt.IsUint64() || amt.Uint64() != w.Amount {
					return fmt.Errorf("decoded withdrawal %d differs from the intended one", i)
				}
				found = true
			}
		}
		if !found {
			return errors.New("decoded withdrawal address unknown")
		}
	}
	dummy, err := babbage.NewBabbageTransactionOutputFromCbor(vh.A(vh.B(enterpriseAddr(make([]byte, 28))), vh.U(2000000)).Enc())
	if err != nil {
		return err
	}
	base := lsNoCap{byHash: map[string]wspec{}, out: dummy}
	for i, w := range rc.Ws {
		base.byHash[string(hash28(i))] = w
	}
	var ls common.LedgerState = base
	if rc.Cap {
		ls = lsCap{base}
	}
	isTarget := func(name string) bool { return strings.Contains(name, "UtxoValidateWithdrawals") }
	pp := c33Pparams(*rc)
	sh := rc.shape()
	if len(tx.Inputs()) != sh.Inputs || (len(tx.ReferenceInputs()) != sh.Refs) || len(tx.Collateral()) != sh.Coll ||
		len(tx.Outputs()) != sh.Outputs || len(tx.Certificates()) != sh.Certs {
		return fmt.Errorf("decoded shape %d/%d/%d/%d/%d differs from %+v", len(tx.Inputs()), len(tx.ReferenceInputs()), len(tx.Collateral()),
			len(tx.Outputs()), len(tx.Certificates()), sh)
	}
	// (1) the rule function called directly
	var derr error
	if p, v := vh.Recover(func() { derr = directRules(rc.Era, isTarget, tx, 1000, ls, pp) }); p {
		return fmt.Errorf("withdrawal rule panicked: %v", v)
	}
	rc.Direct = classify(derr)
	// (2) the whole era rule list through common.VerifyTransaction, same ledger state
	var verr error
	var targets int
	if p, v := vh.Recover(func() { verr, targets = projectedVerify(rc.Era, isTarget, tx, 1000, ls, pp) }); p {
		return fmt.Errorf("VerifyTransaction panicked: %v", v)
	}
	if targets == 0 {
		// the list has no withdrawal rule: nothing was judged (the translator table reports it)
		verr = nil
	}
	rc.Result = classify(verr)
	for _, r := range []string{rc.Result, rc.Direct} {
		if strings.HasPrefix(r, "foreign:") {
			return fmt.Errorf("withdrawal rule returned an unexpected error: %s", r)
		}
	}
	return nil
}

// monitor: the property text.  Judged only where the text speaks: phase-1-valid,
// Conway/Dijkstra parameters, all accounts registered, no lookup errors.
func monitor(c *vh.Ctx, rc rcase) {
	monitorOne(c, rc, rc.Result, "")
	if rc.Direct != rc.Result {
		monitorOne(c, rc, rc.Direct, "direct-call-")
	}
}

func monitorOne(c *vh.Ctx, rc rcase, result, prefix string) {
	if !rc.IsValid || rc.PPKind == "babbage" {
		return
	}
	anyNonzero, anyKeyUndelegated, anyOtherUndelegated := false, false, false
	for _, w := range rc.Ws {
		if w.Cred != 2 && !w.Reg {
			return
		}
		if w.Deleg == 2 {
			return
		}
		if w.Amount != 0 {
			anyNonzero = true
			if w.Deleg == 0 && w.Cred == 0 {
				anyKeyUndelegated = true
			}
			if w.Deleg == 0 && w.Cred == 1 {
				anyOtherUndelegated = true
			}
		}
	}
	window := rc.PV == 10 || rc.PV == 11
	how := "through VerifyTransaction over the era rule list"
	if prefix != "" {
		how = "rule called directly"
	}
	where := fmt.Sprintf("pv=%d era=%s pparams=%s shape=%+v withdrawals=%+v result=%s (%s)", rc.PV, rc.Era, rc.PPKind, rc.shape(), rc.Ws, result, how)
	if !window {
		if result != "ROk" {
			c.Res.Violate("monitor", prefix+"delegation-requirement-outside-pv10-11", "a delegation requirement is imposed outside PV10/PV11: "+where, rc)
		}
		return
	}
	if !rc.Cap {
		if anyNonzero && result != "RUnavailable" {
			c.Res.Violate("monitor", prefix+"state-unavailable-not-reported", "PV10/11, non-zero withdrawal, ledger state cannot answer, but no 'state unavailable' error: "+where, rc)
		}
		if !anyNonzero && result != "ROk" {
			c.Res.Violate("monitor", prefix+"zero-amount-withdrawal-gated", "only zero-amount withdrawals, yet rejected: "+where, rc)
		}
		return
	}
	if result == "RUnavailable" {
		// the state CAN answer (it implements DRepDelegationState)
		c.Res.Violate("monitor", prefix+"state-unavailable-although-state-answers", "PV10/11: 'state unavailable' reported although the ledger state implements the delegation query: "+where, rc)
		return
	}
	if anyKeyUndelegated && result != "RNotDelegated" {
		c.Res.Violate("monitor", prefix+"undelegated-key-hash-withdrawal-not-rejected", "PV10/11 and a non-zero key-hash withdrawal without DRep delegation, not rejected: "+where, rc)
	}
	if !anyKeyUndelegated && !anyOtherUndelegated && result != "ROk" {
		c.Res.Violate("monitor", prefix+"delegated-withdrawal-rejected", "every non-zero withdrawal is delegated (or zero), yet rejected: "+where, rc)
	}
}

func coqCase(rc rcase) string {
	var ws []string
	for _, w := range rc.Ws {
		ws = append(ws, fmt.Sprintf("(mk_wd %s (%d)%%Z %s %s)", vh.N(uint64(w.Cred)), w.Amount, vh.Bool(w.Reg), vh.N(uint64(w.Deleg))))
	}
	sh := rc.shape()
	shp := fmt.Sprintf("(mk_shape %d %d %d %d %d)", sh.Inputs, sh.Refs, sh.Coll, sh.Outputs, sh.Certs)
	return fmt.Sprintf("(%s, %s, %s, %s, %s, %s, %s, %s, %s)", vh.Str(rc.Era), shp, vh.Bool(rc.PPKind != "babbage"), vh.N(rc.PV),
		vh.Bool(rc.IsValid), vh.Bool(rc.Cap), vh.List(ws), rc.Direct, rc.Result)
}

func runCase(c *vh.Ctx, cf *vh.CaseFile, rc rcase) {
	c.Begin(rc)
	if err := observe(&rc); err != nil {
		c.Res.Violate("correspondence", "harness-error", err.Error(), rc)
		return
	}
	pvc := fmt.Sprint(rc.PV)
	if rc.PV > 20 {
		pvc = "huge"
	}
	b, _ := json.Marshal(struct {
		A, B string
		C    uint64
		D, E bool
		F    []wspec
		G    shape
	}{rc.Era, rc.PPKind, rc.PV, rc.IsValid, rc.Cap, rc.Ws, rc.shape()})
	sh := rc.shape()
	refs := "utxo-refs<8"
	if sh.Inputs+sh.Refs+sh.Coll >= 8 {
		refs = "utxo-refs>=8"
	}
	c.Res.Count(string(b), len(rc.Ws) > 0 && rc.IsValid, "pv"+pvc+"/"+rc.Result+"/"+refs)
	if (rc.PV == 10 || rc.PV == 12) && len(rc.Ws) == 1 && rc.Ws[0].Amount > 0 {
		c.Res.Sample(map[string]any{"era": rc.Era, "pv": rc.PV, "cap": rc.Cap, "withdrawals": rc.Ws, "result": rc.Result})
	}
	monitor(c, rc)
	cf.Add(coqCase(rc), rc)
}

var pvs = []uint64{0, 1, 2, 3, 4, 5, 6, 7, 8, 9, 10, 11, 12, 13, 14, 15, 16, 17, 18, 19, 20, 255, 256, 1 << 31, 1 << 32, 1<<63 - 1, 1 << 63, ^uint64(0)}

func run(c *vh.Ctx) error {
	c.Res.Rule = "Conway and Dijkstra transactions (CBOR, decoded by the era decoders) x protocol major 0..20 and huge values x pparams type (Conway / Dijkstra / one without ProtocolMajorVersion) x ledger state (no DRep capability / delegated / not delegated / lookup error / unregistered account) x amounts (0, >0) x credential (key hash, script hash, none) x valid / phase-2-invalid; single and multiple withdrawals (at most one error kind per case, since Go map order is arbitrary); transaction shape varied independently: inputs / reference inputs / collateral inputs in {0,1,2,7,8,9,16,40}, 1-9 outputs, 0-3 certificates; every case observed twice: rule function called directly, and the whole era rule list through common.VerifyTransaction with the same ledger state (other rules executed, their verdicts discarded); distinct by the whole record; non-trivial = phase-1-valid with at least one withdrawal"
	c.Res.Modelled = []string{
		"tx.Withdrawals() is a Go map; the model is a list and the result is proved independent of the order when no lookup errors occur; cases with a lookup error carry no second error kind",
		"the ledger state is a mock answering IsRewardAccountRegistered and (optionally) DRepDelegation",
	}
	cf := c.NewCaseFile("c33", header)
	cf.SetShardSize(400)
	if c.Replay != "" {
		b, err := os.ReadFile(c.Replay)
		if err != nil {
			return err
		}
		var rp struct {
			Replay rcase `json:"replay"`
		}
		if err := json.Unmarshal(b, &rp); err != nil {
			return err
		}
		runCase(c, cf, rp.Replay)
		cf.Flush()
		return nil
	}
	r := c.Rng
	// regression corpus: every shape count on each side of the window, delegated and not
	for _, n := range shapeCounts {
		for _, pv := range []uint64{9, 10, 11, 12} {
			for _, deleg := range []int{0, 1} {
				for k, sh := range []shape{{Inputs: n, Outputs: 1}, {Inputs: 1, Refs: n, Outputs: 2}, {Inputs: 1, Coll: n, Outputs: 1, Certs: 1}} {
					era := []string{"conway", "dijkstra", "conway"}[k]
					sh := sh
					runCase(c, cf, rcase{Era: era, PPKind: era, PV: pv, IsValid: true, Cap: true, Ws: []wspec{{0, 5, true, deleg}}, Shape: &sh})
				}
			}
		}
	}
	// systematic grid: every pv x era x capability x single-withdrawal kind
	for _, pv := range pvs {
		for _, era := range []string{"conway", "dijkstra"} {
			ppk := era
			if r.Chance(1, 4) {
				ppk = "conway"
			}
			for _, cap := range []bool{false, true} {
				for _, w := range []wspec{
					{0, 5, true, 0}, {0, 5, true, 1}, {0, 0, true, 0}, {0, 5, false, 0}, {1, 5, true, 0}, {2, 5, true, 0},
				} {
					if !c.Thorough() && pv > 20 && r.Chance(1, 2) {
						continue
					}
					sh := genShape(r)
					runCase(c, cf, rcase{Era: era, PPKind: ppk, PV: pv, IsValid: true, Cap: cap, Ws: []wspec{w}, Shape: &sh})
				}
				runCase(c, cf, rcase{Era: era, PPKind: ppk, PV: pv, IsValid: false, Cap: cap, Ws: []wspec{{0, 5, true, 0}}})
				runCase(c, cf, rcase{Era: era, PPKind: ppk, PV: pv, IsValid: true, Cap: cap})
			}
		}
	}
	n := c.Pick(350, 8000)
	for i := 0; i < n; i++ {
		rc := rcase{Era: vh.PickOne(r, []string{"conway", "dijkstra"}), IsValid: !r.Chance(1, 8), Cap: !r.Chance(1, 3)}
		rc.PPKind = rc.Era
		switch r.Intn(10) {
		case 0:
			rc.PPKind = "babbage"
		case 1:
			rc.PPKind = "conway"
		}
		if rc.Era == "conway" && rc.PPKind == "dijkstra" {
			rc.PPKind = "conway"
		}
		if r.Chance(3, 4) {
			rc.PV = uint64(8 + r.Intn(6))
		} else {
			rc.PV = vh.PickOne(r, pvs)
		}
		k := 1 + r.Intn(4)
		withErr := r.Chance(1, 10)
		for j := 0; j < k; j++ {
			w := wspec{Cred: []int{0, 0, 0, 1, 2}[r.Intn(5)], Reg: !r.Chance(1, 12), Deleg: []int{1, 1, 0}[r.Intn(3)]}
			w.Amount = []uint64{0, 1, 5, 1 << 40, ^uint64(0)}[r.Intn(5)]
			if withErr {
				// lookup errors and missing delegations never together (order dependence)
				if w.Deleg == 0 {
					w.Deleg = 2
				}
			}
			rc.Ws = append(rc.Ws, w)
		}
		sh := genShape(r)
		rc.Shape = &sh
		runCase(c, cf, rc)
	}
	cf.Flush()
	return nil
}

func gen(out string) error {
	tbl, err := eraRuleTable()
	if err != nil {
		return err
	}
	var sb strings.Builder
	sb.WriteString(tbl)
	sb.WriteString("\n(* ledger/common/protocol_version.go, values of the constants in the compiled package *)\nFrom Coq Require Import NArith.\n")
	for _, kv := range []struct {
		n string
		v uint
	}{
		{"pv_shelley", common.ProtocolVersionShelley}, {"pv_allegra", common.ProtocolVersionAllegra}, {"pv_mary", common.ProtocolVersionMary},
		{"pv_alonzo", common.ProtocolVersionAlonzo}, {"pv_babbage", common.ProtocolVersionBabbage}, {"pv_conway", common.ProtocolVersionConway},
		{"pv_plomin", common.ProtocolVersionPlomin}, {"pv_vanrossem", common.ProtocolVersionVanRossem}, {"pv_dijkstra", common.ProtocolVersionDijkstra},
	} {
		fmt.Fprintf(&sb, "Definition %s : N := %d%%N.\n", kv.n, kv.v)
	}
	if out == "" {
		fmt.Print(sb.String())
		return nil
	}
	return vh.WriteIfChanged(out, sb.String())
}

func main() { vh.Main(vh.Runner{Property: "C33", Gen: gen, Run: run}) }
