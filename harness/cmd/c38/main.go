// C38 - VRF proofs verify exactly when they are genuine.
//
// gen:  constants of vrf.go -> coq/C38/Gen.v
// run:  monitor (the property on the real vrf package against the
//
//	reference in ref.go: prove->verify, output equality, exhaustive
//	single-bit flips of proof / key / message, s+L, small-order keys with
//	forged proofs) and correspondence cases whose group / hash operations
//	are an oracle table recorded while the reference runs.
package main

import (
	"bytes"
	"encoding/json"
	"errors"
	"fmt"
	"math/big"
	"os"
	"strings"

	"filippo.io/edwards25519"
	"github.com/blinklabs-io/gouroboros/vrf"

	"verifharness/vh"
)

func gen(out string) error {
	type kv struct {
		k string
		v uint64
	}
	cs := []kv{{"Suite", vrf.Suite}, {"ProofSize", vrf.ProofSize}, {"OutputSize", vrf.OutputSize},
		{"SeedSize", vrf.SeedSize}, {"PublicKeySize", vrf.PublicKeySize}}
	var sb strings.Builder
	sb.WriteString("(* written by harness/cmd/c38 gen *)\nFrom Coq Require Import String.\nFrom V Require Import Lib.Base.\nOpen Scope string_scope.\nDefinition gen_consts : list (string * N) :=\n  [")
	for i, c := range cs {
		if i > 0 {
			sb.WriteString(";\n   ")
		}
		fmt.Fprintf(&sb, "(%s, %s)", vh.Str(c.k), vh.N(c.v))
	}
	sb.WriteString("].\n")
	if out == "" {
		fmt.Print(sb.String())
		return nil
	}
	return vh.WriteIfChanged(out, sb.String())
}

// ---------------------------------------------------------------------------

type replayC38 struct {
	Seed  string `json:"seed"`
	Alpha string `json:"alpha"`
	Pk    string `json:"pk,omitempty"`
	Proof string `json:"proof,omitempty"`
	Note  string `json:"note,omitempty"`
	Long  int    `json:"long,omitempty"` // long-history case: number of distinct keys
	Tag   uint64 `json:"tag,omitempty"`
}

// class of a VerifyAndHash result
func classify(out []byte, err error) string {
	if err == nil {
		return "ok"
	}
	if errors.Is(err, vrf.ErrProofVerificationFailed) {
		return "fail"
	}
	return "bad"
}

func realVerify(pk, pi, alpha []byte) (cl string, out []byte) {
	var err error
	if p, v := vh.Recover(func() { out, err = vrf.VerifyAndHash(pk, pi, alpha) }); p {
		return fmt.Sprintf("panic:%v", v), nil
	}
	return classify(out, err), out
}

func flipBit(b []byte, i int) []byte {
	c := append([]byte(nil), b...)
	c[i/8] ^= 1 << uint(i%8)
	return c
}

func proofRegion(bit int) string {
	switch {
	case bit < 256:
		return "gamma"
	case bit < 384:
		return "c"
	}
	return "s"
}

// small-order points of edwards25519 (canonical encodings) and two
// non-canonical encodings of small-order points
var smallOrder = []string{
	"0100000000000000000000000000000000000000000000000000000000000000",
	"ecffffffffffffffffffffffffffffffffffffffffffffffffffffffffffff7f",
	"0000000000000000000000000000000000000000000000000000000000000000",
	"0000000000000000000000000000000000000000000000000000000000000080",
	"26e8958fc2b227b045c3f489f2ef98f0d5dfac05d3c63339b13802886d53fc05",
	"26e8958fc2b227b045c3f489f2ef98f0d5dfac05d3c63339b13802886d53fc85",
	"c7176a703d4dd84fba3c0b760d10670f2a2053fa2c39ccc64ec7fd7792ac037a",
	"c7176a703d4dd84fba3c0b760d10670f2a2053fa2c39ccc64ec7fd7792ac03fa",
	"0100000000000000000000000000000000000000000000000000000000000080",
	"eeffffffffffffffffffffffffffffffffffffffffffffffffffffffffffff7f",
}

// forge builds a proof that satisfies the verification equations under a
// small-order key T (Gamma = identity, s = k, c = hash with c*T = 0); it
// verifies iff the small-order check is missing
func forge(r *vh.Rng, T []byte, alpha []byte) []byte {
	rc := newRec()
	Y := rc.Dec(T)
	if Y == nil {
		return nil
	}
	H := rc.H2C(Y, alpha)
	for try := 0; try < 400; try++ {
		k := new(big.Int).Mod(leToBig(r.Bytes(40)), ordL)
		U := rc.Smul(k, baseB)
		V := rc.Smul(k, H)
		c16 := rc.hashPoints(H, identB, U, V)
		c := leToBig(c16)
		if vh.Hex(rc.Smul(c, Y)) == vh.Hex(identB) {
			return append(append(append([]byte(nil), identB...), c16...), bigToLE(k, 32)...)
		}
	}
	return nil
}

// ---------------------------------------------------------------------------
// Coq rendering of the recorder

func (r *rec) coq() string {
	var sb strings.Builder
	emit := func(prefix, typ string, rows []string) {
		names := make([]string, len(rows))
		for i, row := range rows {
			names[i] = fmt.Sprintf("%s%d", prefix, i)
			fmt.Fprintf(&sb, "Definition %s : %s := %s.\n", names[i], typ, row)
		}
		fmt.Fprintf(&sb, "Definition %s_all : list (%s) := [%s].\n", prefix, typ, strings.Join(names, "; "))
	}
	hb := func(s string) string { return vh.Bytes(vh.UnHex(s)) }
	ob := func(s string) string {
		if s == "" {
			return "None"
		}
		return "(Some " + hb(s) + ")"
	}
	var rows []string
	for _, k := range vh.SortedKeys(r.add) {
		p := strings.Split(k, "/")
		rows = append(rows, fmt.Sprintf("(%s, %s, %s)", hb(p[0]), hb(p[1]), hb(r.add[k])))
	}
	emit("ta", "bytes * bytes * bytes", rows)
	rows = nil
	for _, k := range vh.SortedKeys(r.neg) {
		rows = append(rows, fmt.Sprintf("(%s, %s)", hb(k), hb(r.neg[k])))
	}
	emit("tn", "bytes * bytes", rows)
	rows = nil
	for _, k := range vh.SortedKeys(r.smul) {
		p := strings.Split(k, "/")
		rows = append(rows, fmt.Sprintf("(%s%%N, %s, %s)", p[0], hb(p[1]), hb(r.smul[k])))
	}
	emit("tm", "N * bytes * bytes", rows)
	rows = nil
	for _, k := range vh.SortedKeys(r.dec) {
		rows = append(rows, fmt.Sprintf("(%s, %s)", hb(k), ob(r.dec[k])))
	}
	emit("td", "bytes * option bytes", rows)
	rows = nil
	for _, k := range vh.SortedKeys(r.h2c) {
		p := strings.Split(k, "/")
		rows = append(rows, fmt.Sprintf("(%s, %s, %s)", hb(p[0]), hb(p[1]), ob(r.h2c[k])))
	}
	emit("tc", "bytes * bytes * option bytes", rows)
	rows = nil
	for _, k := range vh.SortedKeys(r.sha) {
		rows = append(rows, fmt.Sprintf("(%s, %s)", hb(k), hb(r.sha[k])))
	}
	emit("th", "bytes * bytes", rows)
	sb.WriteString("Definition T := mk_tables ta_all tn_all tm_all td_all tc_all th_all.\n")
	return sb.String()
}

func coqVres(cl string, out []byte) string {
	switch cl {
	case "ok":
		return "(VOk " + vh.Bytes(out) + ")"
	case "fail":
		return "VFail"
	case "bad":
		return "VBad"
	}
	return "(VOk [])" // a panic: never equal to a model result
}

const header = `From Coq Require Import String.
From V Require Import Lib.Base Lib.Hex C38.Model.
Open Scope string_scope.
`

// ---------------------------------------------------------------------------

type runner struct {
	c *vh.Ctx
}

func (m *runner) bad(key, what string, rp replayC38) {
	m.c.Res.Violate("monitor", key, what, rp)
}

// one (seed, alpha): the full monitor and, if corr, a correspondence file
func (m *runner) one(name string, seed, alpha []byte, exhaustive, corr bool) {
	c := m.c
	rp := replayC38{Seed: vh.Hex(seed), Alpha: vh.Hex(alpha)}
	c.Begin(rp)
	c.Res.Count(rp.Seed+"/"+rp.Alpha, len(alpha) > 0, fmt.Sprintf("alpha-len<=%d", bucket(len(alpha))))
	rc := newRec()
	type ccase struct {
		term string
		rp   replayC38
	}
	var cases []ccase
	addCase := func(term string, r replayC38) {
		if corr {
			cases = append(cases, ccase{term, r})
		}
	}

	// --- KeyGen
	pk, skOut, err := vrf.KeyGen(seed)
	refPk := rc.KeyGen(seed)
	if err != nil || !bytes.Equal(skOut, seed) {
		m.bad("keygen-error", fmt.Sprintf("KeyGen: %v", err), rp)
		return
	}
	if !bytes.Equal(pk, refPk) {
		m.bad("keygen-pk-differs-from-reference", fmt.Sprintf("KeyGen public key %x, reference %x", pk, refPk), rp)
	}
	addCase(fmt.Sprintf("(CKeyGen %s (Some %s))", vh.Bytes(seed), vh.Bytes(pk)), rp)
	hold("public-key", rp, pk)
	seedIn, alphaIn := append([]byte(nil), seed...), append([]byte(nil), alpha...)

	// --- Prove
	var proof, out []byte
	if p, v := vh.Recover(func() { proof, out, err = vrf.Prove(seed, alpha) }); p {
		m.bad("prove-panic", fmt.Sprintf("Prove panicked: %v", v), rp)
		return
	}
	if err != nil {
		m.bad("prove-error", err.Error(), rp)
		return
	}
	ref := rc.Prove(seed, alpha)
	if !bytes.Equal(proof, ref.proof) {
		m.bad("prove-differs-from-reference-"+proofRegion(8*max(0, firstDiff(proof, ref.proof))),
			fmt.Sprintf("Prove returned %x, reference %x", proof, ref.proof), rp)
	}
	if !bytes.Equal(out, ref.out) {
		m.bad("prove-output-differs-from-reference", fmt.Sprintf("Prove output %x, reference %x", out, ref.out), rp)
	}
	if len(proof) != 80 || len(out) != 64 {
		m.bad("prove-sizes", fmt.Sprintf("proof %d bytes, output %d bytes", len(proof), len(out)), rp)
		return
	}
	addCase(fmt.Sprintf("(CProve %s %s (Some (%s, %s)))", vh.Bytes(seed), vh.Bytes(alpha), vh.Bytes(proof), vh.Bytes(out)), rp)
	hold("proof", rp, proof)
	hold("output", rp, out)
	// a second Prove with the same key and another message while the first result is held
	if p2, o2, err := vrf.Prove(seed, append([]byte("other:"), alpha...)); err == nil {
		hold("proof", rp, p2)
		hold("output", rp, o2)
	}
	m.recheckHeld("a second Prove")
	if !bytes.Equal(seed, seedIn) || !bytes.Equal(alpha, alphaIn) {
		m.bad("prove-modifies-input", "Prove changed its secret key or message argument", rp)
	}

	// --- the genuine proof verifies and yields the same output
	verifyCase := func(vpk, vpi, valpha []byte, note string, record bool) (string, []byte) {
		cl, o := realVerify(vpk, vpi, valpha)
		r := rc
		if !record {
			r = newRec()
		}
		rcl, ro := r.Verify(vpk, vpi, valpha)
		rr := replayC38{Seed: rp.Seed, Alpha: vh.Hex(valpha), Pk: vh.Hex(vpk), Proof: vh.Hex(vpi), Note: note}
		if cl != rcl || !bytes.Equal(o, ro) {
			key := "verdict-class-differs"
			if cl == "ok" && rcl != "ok" {
				key = "code-accepts-reference-rejects"
			} else if cl != "ok" && rcl == "ok" {
				key = "reference-accepts-code-rejects"
			} else if cl == "ok" {
				key = "verify-output-differs-from-reference"
			}
			m.bad(key, fmt.Sprintf("%s: VerifyAndHash = %s %x, reference = %s %x", note, cl, o, rcl, ro), rr)
		}
		if record {
			addCase(fmt.Sprintf("(CVerify %s %s %s %s)", vh.Bytes(vpk), vh.Bytes(vpi), vh.Bytes(valpha), coqVres(cl, o)), rr)
		}
		c.Res.Evaluations++
		return cl, o
	}
	cl, o := verifyCase(pk, proof, alpha, "genuine", true)
	if cl != "ok" {
		m.bad("genuine-rejected", "the proof returned by Prove does not verify: "+cl, rp)
	} else if !bytes.Equal(o, out) {
		m.bad("verify-output-differs-from-prove", fmt.Sprintf("VerifyAndHash output %x, Prove output %x", o, out), rp)
	}
	if cl == "ok" {
		hold("verify-output", rp, o)
	}
	if h, err := vrf.ProofToHash(proof); err != nil || !bytes.Equal(h, out) {
		m.bad("prooftohash-differs-from-prove", fmt.Sprintf("ProofToHash %x (%v), Prove output %x", h, err, out), rp)
	}
	for _, exp := range [][]byte{out, flipBit(out, c.Rng.Intn(512)), out[:63]} {
		ok, err := vrf.Verify(pk, proof, exp, alpha)
		if err != nil || ok != bytes.Equal(exp, out) {
			m.bad("verify-expected-output", fmt.Sprintf("Verify with expected output %x = %v, %v", exp, ok, err), rp)
		}
		obs := "None"
		if err == nil {
			obs = "(Some " + vh.Bool(ok) + ")"
		}
		addCase(fmt.Sprintf("(CVerifyExp %s %s %s %s %s)", vh.Bytes(pk), vh.Bytes(proof), vh.Bytes(exp), vh.Bytes(alpha), obs), rp)
	}

	// --- single-bit flips: proof, key, message
	step := 1
	if !exhaustive {
		step = 23
	}
	pick := func(n int) int { return c.Rng.Intn(n) }
	recProof := map[int]bool{pick(256): true, 256 + pick(128): true, 384 + pick(256): true, 255: true, 639: true}
	phase := pick(step)
	for i := 0; i < 640; i++ {
		if i%step != phase && !recProof[i] {
			continue
		}
		if cl, _ := verifyCase(pk, flipBit(proof, i), alpha, fmt.Sprintf("proof bit %d flipped", i), recProof[i]); cl == "ok" {
			m.bad("accept-proof-bitflip-"+proofRegion(i), fmt.Sprintf("accepted with proof bit %d flipped", i), rp)
		}
	}
	recPk := pick(256)
	for i := pick(step); i < 256; i += step {
		if cl, _ := verifyCase(flipBit(pk, i), proof, alpha, fmt.Sprintf("key bit %d flipped", i), false); cl == "ok" {
			m.bad("accept-pk-bitflip", fmt.Sprintf("accepted with public-key bit %d flipped", i), rp)
		}
	}
	verifyCase(flipBit(pk, recPk), proof, alpha, fmt.Sprintf("key bit %d flipped", recPk), corr)
	// every bit for the exhaustive cases; otherwise one bit in EVERY byte position
	// (rotating bit index), so no byte range of a long message escapes
	for i := 0; i < len(alpha)*8; i++ {
		if !exhaustive && i%8 != (i/8+int(seed[0]))%8 {
			continue
		}
		if exhaustive && len(alpha) > 256 && i%8 != (i/8+int(seed[0]))%8 && i%step != 0 {
			continue
		}
		if cl, _ := verifyCase(pk, proof, flipBit(alpha, i), fmt.Sprintf("message bit %d flipped", i), false); cl == "ok" {
			m.bad(fmt.Sprintf("accept-msg-bitflip-byte-%s", byteRange(i/8)), fmt.Sprintf("accepted with bit %d of message byte %d flipped (message of %d bytes)", i%8, i/8, len(alpha)), rp)
			break
		}
	}
	if len(alpha) > 0 {
		verifyCase(pk, proof, flipBit(alpha, pick(len(alpha)*8)), "message bit flipped", corr)
		if cl, _ := verifyCase(pk, proof, alpha[:len(alpha)-1], "message truncated", corr); cl == "ok" {
			m.bad("accept-msg-truncated", "accepted with the message truncated", rp)
		}
	}
	if cl, _ := verifyCase(pk, proof, append(append([]byte(nil), alpha...), 0), "message extended", false); cl == "ok" {
		m.bad("accept-msg-extended", "accepted with the message extended by a zero byte", rp)
	}

	// --- non-canonical response scalar: s + j*L still below 2^256
	for j := int64(1); j <= 15; j++ {
		s2 := new(big.Int).Add(ref.s, new(big.Int).Mul(big.NewInt(j), ordL))
		if s2.BitLen() > 256 {
			break
		}
		pi2 := append(append([]byte(nil), proof[:48]...), bigToLE(s2, 32)...)
		cl, _ := verifyCase(pk, pi2, alpha, fmt.Sprintf("s + %d*L", j), j == 1 || j == 15)
		if cl == "ok" {
			m.bad("accept-noncanonical-s", fmt.Sprintf("accepted the proof with s replaced by s + %d*L", j), rp)
		} else if cl != "bad" {
			m.bad("noncanonical-s-not-malformed", fmt.Sprintf("s + %d*L rejected as %s, expected a malformed-input error", j, cl), rp)
		}
	}
	// --- wrong lengths
	for _, pi2 := range [][]byte{proof[:79], append(append([]byte(nil), proof...), 0), nil} {
		if cl, _ := verifyCase(pk, pi2, alpha, fmt.Sprintf("%d-byte proof", len(pi2)), true); cl == "ok" {
			m.bad("accept-wrong-length-proof", fmt.Sprintf("accepted a %d-byte proof", len(pi2)), rp)
		}
	}
	for _, pk2 := range [][]byte{pk[:31], append(append([]byte(nil), pk...), 0)} {
		if cl, _ := verifyCase(pk2, proof, alpha, fmt.Sprintf("%d-byte key", len(pk2)), true); cl == "ok" {
			m.bad("accept-wrong-length-pk", fmt.Sprintf("accepted a %d-byte key", len(pk2)), rp)
		}
	}
	// --- small-order public keys, with the genuine proof and with a proof
	// forged to satisfy the equations under that key
	for i, hx := range smallOrder {
		T := vh.UnHex(hx)
		if cl, _ := verifyCase(T, proof, alpha, "small-order key "+hx, i == 0); cl == "ok" {
			m.bad("accept-small-order-pk", "accepted under the small-order key "+hx, rp)
		}
		if f := forge(c.Rng, T, alpha); f != nil {
			if cl, _ := verifyCase(T, f, alpha, "small-order key "+hx+" with forged proof", i < 6 && (i%2 == 0 || exhaustive)); cl == "ok" {
				m.bad("accept-small-order-pk-forged", "a proof forged for the small-order key "+hx+" verifies", rp)
			}
		}
	}

	m.recheckHeld("the verifications of " + name)
	if !bytes.Equal(seed, seedIn) || !bytes.Equal(alpha, alphaIn) {
		m.bad("verify-modifies-input", "a later call changed the seed or message slices passed in", rp)
	}
	if corr && len(alpha) <= 256 {
		cf := c.NewCaseFile(name, header+rc.coq())
		cf.Func = "mismatches T"
		cf.SetShardSize(100000)
		for _, cs := range cases {
			cf.Add(cs.term, cs.rp)
		}
		cf.Flush()
	}
}

func byteRange(i int) string {
	switch {
	case i < 60:
		return "0-59"
	case i < 94:
		return "60-93"
	case i < 128:
		return "94-127"
	}
	return "128+"
}

func firstDiff(a, b []byte) int {
	for i := 0; i < len(a) && i < len(b); i++ {
		if a[i] != b[i] {
			return i
		}
	}
	return -1
}

func bucket(n int) int {
	for _, b := range []int{0, 1, 8, 32, 40, 64, 256} {
		if n <= b {
			return b
		}
	}
	return 1 << 20
}

// message lengths around the SHA-512 block boundaries of the hash-to-curve
// input (34-byte prefix: 94 bytes fill the first block) and of the messages
var alphaLens = []int{32, 0, 95, 1, 96, 94, 129, 60, 61, 93, 31, 33, 127, 128, 200, 1000, 222, 350}

func genAlpha(r *vh.Rng, i int) []byte {
	if i < len(alphaLens) {
		return r.Bytes(alphaLens[i])
	}
	switch i % 6 {
	case 0:
		return nil
	case 1:
		return r.Bytes(32) // the size Cardano uses (MkInputVrf)
	case 2:
		return r.Bytes(1)
	case 3:
		return r.Bytes(40)
	case 4:
		return r.Bytes(1 + r.Intn(64))
	case 5:
		return r.Bytes(95 + r.Intn(300))
	}
	return bytes.Repeat([]byte{0xff}, 1+r.Intn(33))
}

// values returned by the API, kept as returned (not copied) with a snapshot
type heldVal struct {
	what  string
	rp    replayC38
	slice []byte
	snap  []byte
}

var held []heldVal

func hold(what string, rp replayC38, b []byte) {
	held = append(held, heldVal{what, rp, b, append([]byte(nil), b...)})
}

func (m *runner) recheckHeld(after string) {
	for i, hv := range held {
		if !bytes.Equal(hv.slice, hv.snap) {
			m.bad("held-"+hv.what+"-changed-by-later-call", fmt.Sprintf("the %s returned earlier was changed by a later call (seen after %s)", hv.what, after), hv.rp)
			held[i].snap = append([]byte(nil), hv.slice...)
		}
	}
}

func run(c *vh.Ctx) error {
	c.Res.Rule = "a case is (32-byte seed, message alpha); for each the monitor proves, verifies, compares with the reference, and flips every single bit of the 80-byte proof, the 32-byte key and the message (exhaustively for the first cases, every 23rd bit with a random phase afterwards), tries s + j*L, wrong lengths and all small-order keys with forged proofs; distinct by (seed, alpha); non-trivial = non-empty message"
	c.Res.Modelled = []string{
		"the curve group, point (de)compression, Elligator2 hash-to-curve and SHA-512 are Section variables in the theorems; in the correspondence they are oracle tables recorded while the harness's reference implementation runs (filippo.io/edwards25519 for group operations, math/big for Elligator2, crypto/sha512)",
		"bit-flip soundness is cryptographic: monitored on the real code, proved only for changes that keep the challenge bytes (injective-hash idealisation); a changed challenge needs the random-oracle property",
	}
	m := &runner{c}
	// sanity of the small-order table against the library
	for _, hx := range smallOrder {
		p, err := (&edwards25519.Point{}).SetBytes(vh.UnHex(hx))
		if err != nil || (&edwards25519.Point{}).MultByCofactor(p).Equal(edwards25519.NewIdentityPoint()) != 1 {
			return fmt.Errorf("harness: %s is not a small-order point encoding", hx)
		}
	}
	if c.Replay != "" {
		b, err := os.ReadFile(c.Replay)
		if err != nil {
			return err
		}
		var rp struct {
			Replay replayC38 `json:"replay"`
		}
		if err := json.Unmarshal(b, &rp); err != nil {
			return err
		}
		if rp.Replay.Long > 0 {
			m.longHistory(rp.Replay.Long, rp.Replay.Tag, true)
			return nil
		}
		m.one("replay", vh.UnHex(rp.Replay.Seed), vh.UnHex(rp.Replay.Alpha), true, true)
		return nil
	}
	fixedSeeds := [][]byte{bytes.Repeat([]byte{0}, 32), bytes.Repeat([]byte{0xff}, 32)}
	n := c.Pick(44, 300)
	nCorr := c.Pick(14, 40)
	nEx := c.Pick(10, 60)
	for i := 0; i < n; i++ {
		var seed []byte
		if i < len(fixedSeeds) {
			seed = fixedSeeds[i]
		} else {
			seed = c.Rng.Bytes(32)
		}
		alpha := genAlpha(c.Rng, i)
		m.one(fmt.Sprintf("v%d", i), seed, alpha, i < nEx, i < nCorr)
		if i < 6 {
			c.Res.Sample(map[string]any{"seed": vh.Hex(seed), "alpha": vh.Hex(alpha)})
		}
	}
	m.recheckHeld("the whole run")
	// one process, many distinct keys, then the early ones again (stateless expectation)
	m.longHistory(c.Pick(5000, 70000), uint64(c.Seed), true)
	// malformed secret keys
	for _, l := range []int{0, 31, 33, 64} {
		if _, _, err := vrf.Prove(make([]byte, l), []byte("x")); err == nil {
			m.bad("prove-bad-key-length-accepted", fmt.Sprintf("Prove accepted a %d-byte secret key", l), replayC38{})
		}
		if _, _, err := vrf.KeyGen(make([]byte, l)); err == nil {
			m.bad("keygen-bad-seed-length-accepted", fmt.Sprintf("KeyGen accepted a %d-byte seed", l), replayC38{})
		}
	}
	return nil
}

func post(c *vh.Ctx) error {
	err := vh.DefaultPost(c)
	bad := 0
	for _, v := range c.Res.Violations {
		if v.Kind == "correspondence" {
			bad++
		}
	}
	c.Res.TracesValidated = c.Res.CoqCases - bad
	return err
}

func main() { vh.Main(vh.Runner{Property: "C38", Gen: gen, Run: run, Post: post}) }
