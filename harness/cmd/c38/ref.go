package main

// Independent reference of ECVRF-ED25519-SHA512-Elligator2 (draft-irtf-cfrg-
// vrf-03, sections 5.1-5.4, with the checks Cardano adds: public key not of
// small order, canonical response scalar).  Every group / hash operation goes
// through the recorder below, which doubles as the oracle table the Coq
// model runs on.  Elligator2 is written with math/big from the libsodium
// description (ge25519_from_uniform), not with the field package the code
// under test uses.

import (
	"crypto/sha512"
	"math/big"

	"filippo.io/edwards25519"

	"verifharness/vh"
)

var (
	ordL, _ = new(big.Int).SetString("7237005577332262213973186563042994240857116359379907606001950938285454250989", 10)
	fieldP  = new(big.Int).Sub(new(big.Int).Lsh(big.NewInt(1), 255), big.NewInt(19))
	identB  = edwards25519.NewIdentityPoint().Bytes()
	baseB   = edwards25519.NewGeneratorPoint().Bytes()
)

func leToBig(b []byte) *big.Int {
	r := make([]byte, len(b))
	for i := range b {
		r[len(b)-1-i] = b[i]
	}
	return new(big.Int).SetBytes(r)
}

func bigToLE(n *big.Int, size int) []byte {
	be := n.Bytes()
	out := make([]byte, size)
	for i := 0; i < len(be) && i < size; i++ {
		out[i] = be[len(be)-1-i]
	}
	return out
}

func scalarOf(n *big.Int) *edwards25519.Scalar {
	s, err := edwards25519.NewScalar().SetCanonicalBytes(bigToLE(n, 32))
	if err != nil {
		panic("scalar not below L: " + n.String())
	}
	return s
}

func pointOf(b []byte) *edwards25519.Point {
	p, err := (&edwards25519.Point{}).SetBytes(b)
	if err != nil {
		panic("recorder: not a point: " + vh.Hex(b))
	}
	return p
}

// rec records every primitive evaluation (inputs -> output)
type rec struct {
	add  map[string]string
	neg  map[string]string
	smul map[string]string // decimal scalar + "/" + point hex
	dec  map[string]string // "" = decoding fails
	h2c  map[string]string
	sha  map[string]string
}

func newRec() *rec {
	return &rec{map[string]string{}, map[string]string{}, map[string]string{}, map[string]string{}, map[string]string{}, map[string]string{}}
}

func (r *rec) Add(p, q []byte) []byte {
	o := (&edwards25519.Point{}).Add(pointOf(p), pointOf(q)).Bytes()
	r.add[vh.Hex(p)+"/"+vh.Hex(q)] = vh.Hex(o)
	return o
}

func (r *rec) Neg(p []byte) []byte {
	o := (&edwards25519.Point{}).Negate(pointOf(p)).Bytes()
	r.neg[vh.Hex(p)] = vh.Hex(o)
	return o
}

// Smul: n * P for a natural n < L (n is the integer the scalar represents)
func (r *rec) Smul(n *big.Int, p []byte) []byte {
	o := (&edwards25519.Point{}).ScalarMult(scalarOf(n), pointOf(p)).Bytes()
	r.smul[n.String()+"/"+vh.Hex(p)] = vh.Hex(o)
	return o
}

// Dec: canonical encoding of the decoded point, nil if SetBytes fails
func (r *rec) Dec(b []byte) []byte {
	p, err := (&edwards25519.Point{}).SetBytes(b)
	if err != nil {
		r.dec[vh.Hex(b)] = ""
		return nil
	}
	r.dec[vh.Hex(b)] = vh.Hex(p.Bytes())
	return p.Bytes()
}

func (r *rec) Sha(b []byte) []byte {
	h := sha512.Sum512(b)
	r.sha[vh.Hex(b)] = vh.Hex(h[:])
	return h[:]
}

func modInv(a *big.Int) *big.Int {
	a = new(big.Int).Mod(a, fieldP)
	if a.Sign() == 0 {
		return big.NewInt(0)
	}
	return new(big.Int).ModInverse(a, fieldP)
}

// H2C: ECVRF_hash_to_curve_elligator2_25519 as Cardano/libsodium compute it
func (r *rec) H2C(y []byte, alpha []byte) []byte {
	in := append([]byte{0x04, 0x01}, y...)
	in = append(in, alpha...)
	h := sha512.Sum512(in)
	rb := append([]byte(nil), h[:32]...)
	rb[31] &= 0x7f
	rr := new(big.Int).Mod(leToBig(rb), fieldP)
	A := big.NewInt(486662)
	mod := func(x *big.Int) *big.Int { return x.Mod(x, fieldP) }
	t := mod(new(big.Int).Mul(rr, rr))
	t = mod(t.Lsh(t, 1))
	t = mod(t.Add(t, big.NewInt(1)))
	t = modInv(t)
	x := mod(new(big.Int).Neg(new(big.Int).Mul(A, t)))
	// e = x^3 + A x^2 + x
	x2 := mod(new(big.Int).Mul(x, x))
	x3 := mod(new(big.Int).Mul(x2, x))
	e := mod(new(big.Int).Add(x3, x))
	e = mod(e.Add(e, new(big.Int).Mul(A, x2)))
	chi := new(big.Int).Exp(e, new(big.Int).Rsh(new(big.Int).Sub(fieldP, big.NewInt(1)), 1), fieldP)
	if chi.Cmp(new(big.Int).Sub(fieldP, big.NewInt(1))) == 0 {
		x = mod(new(big.Int).Sub(new(big.Int).Neg(x), A))
	}
	num := mod(new(big.Int).Sub(x, big.NewInt(1)))
	den := modInv(new(big.Int).Add(x, big.NewInt(1)))
	yed := mod(new(big.Int).Mul(num, den))
	p3, err := (&edwards25519.Point{}).SetBytes(bigToLE(yed, 32))
	key := vh.Hex(y) + "/" + vh.Hex(alpha)
	if err != nil {
		r.h2c[key] = ""
		return nil
	}
	o := (&edwards25519.Point{}).MultByCofactor(p3).Bytes()
	r.h2c[key] = vh.Hex(o)
	return o
}

func clampX(h []byte) *big.Int {
	b := append([]byte(nil), h[:32]...)
	b[0] &= 248
	b[31] &= 63
	b[31] |= 64
	return new(big.Int).Mod(leToBig(b), ordL)
}

func (r *rec) KeyGen(seed []byte) []byte {
	if len(seed) != 32 {
		return nil
	}
	return r.Smul(clampX(r.Sha(seed)), baseB)
}

type proveOut struct {
	proof, out    []byte
	H, Gamma, U, V []byte
	x, k, c, s     *big.Int
}

func (r *rec) hashPoints(p1, p2, p3, p4 []byte) []byte {
	in := []byte{0x04, 0x02}
	for _, p := range [][]byte{p1, p2, p3, p4} {
		in = append(in, p...)
	}
	return r.Sha(in)[:16]
}

func (r *rec) proofToHash(pi []byte) []byte {
	if len(pi) != 80 {
		return nil
	}
	g := r.Dec(pi[:32])
	if g == nil {
		return nil
	}
	return r.Sha(append([]byte{0x04, 0x03}, r.Smul(big.NewInt(8), g)...))
}

// Prove: nil if the secret key is malformed
func (r *rec) Prove(sk, alpha []byte) *proveOut {
	if len(sk) != 32 {
		return nil
	}
	h := r.Sha(sk)
	x := clampX(h)
	Y := r.Smul(x, baseB)
	H := r.H2C(Y, alpha)
	if H == nil {
		return nil
	}
	G := r.Smul(x, H)
	k := new(big.Int).Mod(leToBig(r.Sha(append(append([]byte(nil), h[32:64]...), H...))), ordL)
	U := r.Smul(k, baseB)
	V := r.Smul(k, H)
	c16 := r.hashPoints(H, G, U, V)
	c := leToBig(c16)
	s := new(big.Int).Mod(new(big.Int).Add(new(big.Int).Mul(c, x), k), ordL)
	pi := append(append(append([]byte(nil), G...), c16...), bigToLE(s, 32)...)
	return &proveOut{pi, r.proofToHash(pi), H, G, U, V, x, k, c, s}
}

// Verify: class "ok" (with output), "bad" (malformed), "fail" (does not verify)
func (r *rec) Verify(pk, pi, alpha []byte) (string, []byte) {
	Y := r.Dec(pk)
	if Y == nil {
		return "bad", nil
	}
	if vh.Hex(r.Smul(big.NewInt(8), Y)) == vh.Hex(identB) {
		return "bad", nil
	}
	if len(pi) != 80 {
		return "bad", nil
	}
	G := r.Dec(pi[:32])
	if G == nil {
		return "bad", nil
	}
	H := r.H2C(Y, alpha)
	if H == nil {
		return "bad", nil
	}
	c := new(big.Int).Mod(leToBig(pi[32:48]), ordL)
	s := leToBig(pi[48:80])
	// the code multiplies c*Y before it looks at s; the model does not ask
	if s.Cmp(ordL) >= 0 {
		return "bad", nil
	}
	U := r.Add(r.Smul(s, baseB), r.Neg(r.Smul(c, Y)))
	V := r.Add(r.Smul(s, H), r.Neg(r.Smul(c, G)))
	if vh.Hex(r.hashPoints(H, G, U, V)) != vh.Hex(pi[32:48]) {
		return "fail", nil
	}
	return "ok", r.proofToHash(pi)
}
