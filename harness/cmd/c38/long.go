package main

// Long-history class: one process verifies proofs under N distinct public
// keys (N far above any plausible cache size), then re-verifies the early
// keys' genuine proofs and cross proofs.  VerifyAndHash is specified as a
// pure function of (key, proof, message): the expected verdict is that of the
// stateless reference / Coq model, whatever was verified before.

import (
	"bytes"
	"encoding/binary"
	"fmt"

	"github.com/blinklabs-io/gouroboros/vrf"

	"verifharness/vh"
)

func counterSeed(tag uint64, i int) []byte {
	s := make([]byte, 32)
	copy(s, "verif-c38-long-history")
	binary.LittleEndian.PutUint64(s[22:30], uint64(i))
	binary.LittleEndian.PutUint16(s[30:32], uint16(tag))
	return s
}

func (m *runner) longHistory(n int, tag uint64, corr bool) {
	c := m.c
	alpha := []byte("long-history message: the same for every key....")
	rp := replayC38{Alpha: vh.Hex(alpha), Long: n, Tag: tag, Note: fmt.Sprintf("long history over %d distinct keys", n)}
	c.Begin(rp)
	type ent struct{ seed, pk, proof, out []byte }
	es := make([]ent, n)
	// phase 1: every key proves and verifies once
	for i := range es {
		seed := counterSeed(tag, i)
		pk, _, err := vrf.KeyGen(seed)
		if err != nil {
			m.bad("keygen-error", err.Error(), rp)
			return
		}
		proof, out, err := vrf.Prove(seed, alpha)
		if err != nil {
			m.bad("prove-error", err.Error(), rp)
			return
		}
		es[i] = ent{seed, append([]byte(nil), pk...), append([]byte(nil), proof...), append([]byte(nil), out...)}
		if cl, o := realVerify(pk, proof, alpha); cl != "ok" || !bytes.Equal(o, out) {
			r := rp
			r.Seed = vh.Hex(seed)
			m.bad("long-history-genuine-rejected-first-pass", fmt.Sprintf("key #%d of the history: genuine proof verdict %s", i, cl), r)
			return
		}
		c.Res.Evaluations++
	}
	c.Res.Count(fmt.Sprintf("long/%d/%d", n, tag), true, "long-history")
	// phase 2: the early keys (and a sample of the others) again
	idx := []int{}
	for i := 0; i < 64 && i < n; i++ {
		idx = append(idx, i)
	}
	for k := 0; k < 64; k++ {
		idx = append(idx, c.Rng.Intn(n))
	}
	for i := n - 8; i < n; i++ {
		if i >= 0 {
			idx = append(idx, i)
		}
	}
	rc := newRec()
	var cases []string
	var rps []replayC38
	for k, i := range idx {
		e := es[i]
		r := rp
		r.Seed, r.Pk, r.Proof = vh.Hex(e.seed), vh.Hex(e.pk), vh.Hex(e.proof)
		r.Note = fmt.Sprintf("key #%d re-verified after %d distinct keys", i, n)
		cl, o := realVerify(e.pk, e.proof, alpha)
		if cl != "ok" {
			m.bad("long-history-genuine-rejected-after-many-keys", fmt.Sprintf("the genuine proof of key #%d, accepted earlier in this process, is %s after %d distinct keys were verified", i, cl, n), r)
		} else if !bytes.Equal(o, e.out) {
			m.bad("long-history-output-changed-after-many-keys", fmt.Sprintf("key #%d: output differs from the one Prove returned after %d distinct keys", i, n), r)
		}
		if ok, err := vrf.Verify(e.pk, e.proof, e.out, alpha); err != nil || !ok {
			m.bad("long-history-verify-false-after-many-keys", fmt.Sprintf("key #%d: Verify = %v, %v after %d distinct keys", i, ok, err, n), r)
		}
		if corr && k < 6 {
			rcl, ro := rc.Verify(e.pk, e.proof, alpha)
			_ = rcl
			_ = ro
			cases = append(cases, fmt.Sprintf("(CVerify %s %s %s %s)", vh.Bytes(e.pk), vh.Bytes(e.proof), vh.Bytes(alpha), coqVres(cl, o)))
			rps = append(rps, r)
		}
		c.Res.Evaluations++
		// cross proofs: a proof made with key j's secret key under key i's bytes
		if k >= 24 {
			continue
		}
		offs := []int{}
		for b := 0; b < 18; b++ {
			offs = append(offs, 1<<uint(b), 1<<uint(b)+1, 1<<uint(b)-1)
		}
		for t := 1; t <= 8; t++ {
			offs = append(offs, 1000*t)
		}
		for oi, off := range offs {
			j := i + off
			if off == 0 || j >= n {
				continue
			}
			cl, o := realVerify(e.pk, es[j].proof, alpha)
			if cl == "ok" {
				rr := r
				rr.Proof = vh.Hex(es[j].proof)
				rr.Note = fmt.Sprintf("proof made with key #%d presented under the bytes of key #%d after %d distinct keys", j, i, n)
				m.bad("long-history-cross-proof-accepted", rr.Note+": accepted", rr)
			}
			if corr && k < 4 && (oi%9 == 0 || cl == "ok") {
				rc.Verify(e.pk, es[j].proof, alpha)
				rr := r
				rr.Proof = vh.Hex(es[j].proof)
				cases = append(cases, fmt.Sprintf("(CVerify %s %s %s %s)", vh.Bytes(e.pk), vh.Bytes(es[j].proof), vh.Bytes(alpha), coqVres(cl, o)))
				rps = append(rps, rr)
			}
			c.Res.Evaluations++
		}
	}
	if corr && len(cases) > 0 {
		cf := c.NewCaseFile("long", header+rc.coq())
		cf.Func = "mismatches T"
		cf.SetShardSize(100000)
		for i := range cases {
			cf.Add(cases[i], rps[i])
		}
		cf.Flush()
	}
}
