// C35 - Byron merkle roots follow the reference construction.
package main

import (
	"bytes"
	"encoding/json"
	"fmt"
	"os"
	"path/filepath"
	"runtime"

	"github.com/blinklabs-io/gouroboros/ledger/byron"
	"golang.org/x/crypto/blake2b"

	"verifharness/vh"
)

const header = `From Coq Require Import String.
From V Require Import Lib.Base Lib.Hex C35.Model.
Open Scope string_scope.`

// refRoot is an independent transcription of Cardano.Chain.Common.Merkle
// (mkMerkleTree / powerOfTwo), used by the monitor.
func refRoot(items [][]byte) []byte {
	if len(items) == 0 {
		h := blake2b.Sum256(nil)
		return h[:]
	}
	var node func(xs [][]byte) []byte
	node = func(xs [][]byte) []byte {
		if len(xs) == 1 {
			h := blake2b.Sum256(append([]byte{0}, xs[0]...))
			return h[:]
		}
		// largest power of two strictly smaller than len
		i := 1
		for i*2 < len(xs) {
			i *= 2
		}
		// cross-check of the split by its defining property
		if !(i < len(xs) && len(xs) <= 2*i) {
			panic("refRoot split")
		}
		l, r := node(xs[:i]), node(xs[i:])
		h := blake2b.Sum256(append(append([]byte{1}, l...), r...))
		return h[:]
	}
	return node(items)
}

// refRoot2 computes the same tree bottom-up by bit tricks (a second,
// structurally different oracle): split = highest set bit of (n-1).
func refRoot2(items [][]byte) []byte {
	if len(items) == 0 {
		h := blake2b.Sum256(nil)
		return h[:]
	}
	if len(items) == 1 {
		h := blake2b.Sum256(append([]byte{0}, items[0]...))
		return h[:]
	}
	n := len(items) - 1
	p := 1
	for n > 1 {
		n >>= 1
		p <<= 1
	}
	l, r := refRoot2(items[:p]), refRoot2(items[p:])
	h := blake2b.Sum256(append(append([]byte{1}, l...), r...))
	return h[:]
}

type rcase struct {
	Items  []string `json:"items"`
	Digest string   `json:"digest"`
}

func genItems(r *vh.Rng, n int) [][]byte {
	items := make([][]byte, n)
	mode := r.Intn(6)
	for i := range items {
		switch mode {
		case 0:
			items[i] = r.Bytes(r.Intn(40))
		case 1:
			items[i] = []byte{byte(i), byte(i >> 8)}
		case 2:
			items[i] = nil // empty items
		case 3:
			// items that look like node encodings (domain separation)
			items[i] = append([]byte{byte(r.Intn(2))}, r.Bytes(64)...)
		default:
			// item lengths around hash block / buffer boundaries
			ls := []int{31, 32, 33, 55, 56, 63, 64, 65, 111, 112, 119, 120, 127, 128, 129, 130, 255, 256, 257, 300}
			items[i] = r.Bytes(ls[r.Intn(len(ls))])
		}
	}
	return items
}

func runCase(c *vh.Ctx, cf *vh.CaseFile, items [][]byte) {
	var got []byte
	hx := make([]string, len(items))
	for i, it := range items {
		hx[i] = vh.Hex(it)
	}
	c.Begin(rcase{Items: hx})
	panicked, pv := vh.Recover(func() { h := byron.MerkleRoot(items); got = h[:] })
	hexItems := make([]string, len(items))
	coq := make([]string, len(items))
	for i, it := range items {
		hexItems[i] = vh.Hex(it)
		coq[i] = vh.Bytes(it)
	}
	rc := rcase{hexItems, vh.Hex(got)}
	n := len(items)
	c.Res.Count(fmt.Sprintf("%v", hexItems), n >= 3, fmt.Sprintf("len<=%d", bucket(n)))
	if n >= 3 {
		c.Res.Sample(map[string]any{"len": n, "first_item": first(hexItems), "digest": rc.Digest})
	}
	if panicked {
		c.Res.Violate("monitor", "merkle-root-panic", fmt.Sprintf("MerkleRoot panicked on %d items: %v", n, pv), rc)
		return
	}
	// the root is a function of the items alone: it must not depend on how many
	// CPUs the process may use (a data-parallel implementation splits by GOMAXPROCS)
	if n >= 2 {
		prev := runtime.GOMAXPROCS(0)
		for _, procs := range []int{1, 2, 3, 5, 6, 7, 12} {
			runtime.GOMAXPROCS(procs)
			var alt []byte
			pk, pv2 := vh.Recover(func() { h := byron.MerkleRoot(items); alt = h[:] })
			if pk || !bytes.Equal(alt, got) {
				runtime.GOMAXPROCS(prev)
				c.Res.Violate("monitor", "merkle-root-depends-on-gomaxprocs", fmt.Sprintf("MerkleRoot of %d items is %x with GOMAXPROCS=%d and %x with GOMAXPROCS=%d (panic: %v)", n, alt, procs, got, prev, pv2), rc)
				return
			}
		}
		runtime.GOMAXPROCS(prev)
	}
	want := refRoot(items)
	if !bytes.Equal(got, want) || !bytes.Equal(want, refRoot2(items)) {
		c.Res.Violate("monitor", "merkle-root-differs", fmt.Sprintf("MerkleRoot of %d items is %x, reference construction gives %x", n, got, want), rc)
	}
	cf.Add(vh.List(coq), rc)
}

func first(xs []string) string {
	if len(xs) == 0 {
		return ""
	}
	return xs[0]
}

func bucket(n int) int {
	for _, b := range []int{0, 1, 2, 4, 8, 16, 32, 64, 128, 256, 512, 1024} {
		if n <= b {
			return b
		}
	}
	return 1 << 20
}

func run(c *vh.Ctx) error {
	c.Res.Rule = "item lists of every length 0..N plus lengths around powers of two; every list also under GOMAXPROCS 1,2,3,5,6,7,12 (result must not depend on it); contents random / empty / node-like (leading 0 or 1 + 64 bytes) / item lengths around 32, 64, 128, 256 bytes (hash block and buffer boundaries); distinct by the hex of all items; non-trivial = at least 3 items (at least one branch with an uneven or nested split)"
	c.Res.Modelled = []string{"Blake2b-256 is a Section variable in the theorems; in the correspondence the model returns the preimage term and the harness evaluates it with golang.org/x/crypto/blake2b"}
	cf := c.NewCaseFile("c35", header)
	cf.Func = "model_outs"
	cf.SetShardSize(c.Pick(40, 100))
	if c.Replay != "" {
		b, err := os.ReadFile(c.Replay)
		if err != nil {
			return err
		}
		var rp struct {
			Replay rcase `json:"replay"`
		}
		if err := json.Unmarshal(b, &rp); err != nil {
			return err
		}
		items := make([][]byte, len(rp.Replay.Items))
		for i, s := range rp.Replay.Items {
			items[i] = vh.UnHex(s)
		}
		runCase(c, cf, items)
		cf.Flush()
		return nil
	}
	maxN := c.Pick(70, 300)
	for n := 0; n <= maxN; n++ {
		runCase(c, cf, genItems(c.Rng, n))
	}
	for _, l := range []int{0, 1, 31, 32, 33, 63, 64, 65, 126, 127, 128, 129, 130, 191, 192, 193, 255, 256, 257} {
		a := c.Rng.Bytes(l)
		runCase(c, cf, [][]byte{a})
		b := append([]byte(nil), a...)
		if l > 0 {
			b[l-1] ^= 1 // differs from a only in the last byte
		}
		runCase(c, cf, [][]byte{a, b, a})
	}
	for _, p := range []int{128, 256, 512, 1024} {
		if p > c.Pick(256, 1024) {
			break
		}
		for d := -1; d <= 1; d++ {
			runCase(c, cf, genItems(c.Rng, p+d))
		}
	}
	cf.Flush()
	return nil
}

func post(c *vh.Ctx) error {
	for _, fn := range c.Res.CaseFiles {
		out, err := os.ReadFile(filepath.Join(c.Out, fn+".out"))
		if err != nil {
			c.Res.Violate("correspondence", "coqc-failed:"+fn, "no coqc output", nil)
			continue
		}
		terms, err := vh.ParseStringList(out)
		if err != nil {
			c.Res.Violate("correspondence", "coqc-failed:"+fn, err.Error(), nil)
			continue
		}
		for i, t := range terms {
			var rc rcase
			b, _ := json.Marshal(c.Res.CaseIndex[fmt.Sprintf("%s#%d", fn, i)])
			json.Unmarshal(b, &rc)
			d, err := vh.EvalHTerm(t)
			if err != nil || vh.Hex(d) != rc.Digest {
				c.Res.Violate("correspondence", "model-vs-impl", fmt.Sprintf("model root %x (%v) differs from MerkleRoot %s", d, err, rc.Digest), rc)
			}
		}
		c.Res.TracesValidated += len(terms)
	}
	return nil
}

func main() { vh.Main(vh.Runner{Property: "C35", Run: run, Post: post}) }
