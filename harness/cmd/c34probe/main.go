package main

import (
	"encoding/hex"
	"fmt"
	"os"
	"strings"

	"github.com/blinklabs-io/gouroboros/ledger"
	"verifharness/vh"
)

func rd(p string) []byte {
	b, _ := os.ReadFile(p)
	x, err := hex.DecodeString(strings.TrimSpace(string(b)))
	if err != nil {
		panic(err)
	}
	return x
}

func try(name string, t uint, b []byte) {
	_, err := ledger.NewBlockFromCbor(t, b)
	s := "ACCEPT"
	if err != nil {
		s = "reject: " + err.Error()
		if len(s) > 150 {
			s = s[:150]
		}
	}
	fmt.Printf("%-34s %s\n", name, s)
}

func main() {
	for _, f := range []struct {
		n string
		t uint
		p string
	}{{"shelley", 2, "/repo/internal/testdata/shelley_block.hex"}, {"conway", 7, "/repo/internal/testdata/conway_block.hex"}, {"dijkstra", 8, "/repo/ledger/dijkstra/testdata/musashi_dijkstra_block.hex"}, {"byron", 1, "/repo/internal/testdata/byron_block.hex"}} {
		b := rd(f.p)
		it, n, err := vh.ParseItem(b)
		fmt.Println(f.n, len(b), n, err, len(it.Xs), it.F)
		try(f.n+" plain", f.t, b)
		try(f.n+" trailing bytes", f.t, append(append([]byte{}, b...), 1, 2, 3))
		c := it.Clone()
		c.F = vh.Findef
		try(f.n+" indef outer", f.t, c.Enc())
		c = it.Clone()
		c.F = vh.F2
		try(f.n+" wide outer", f.t, c.Enc())
		c = it.Clone()
		c.Xs = append(c.Xs, vh.U(0))
		c.F = vh.MinForm(uint64(len(c.Xs)))
		try(f.n+" extra elem", f.t, c.Enc())
		try(f.n+" tagged", f.t, append([]byte{0xd8, 0x18}, b...))
		for i := 1; i < len(it.Xs); i++ {
			c = it.Clone()
			x := c.Xs[i]
			if x.K == vh.KArr || x.K == vh.KMap {
				if x.F == vh.Findef {
					n := uint64(len(x.Xs))
					if x.K == vh.KMap {
						n /= 2
					}
					x.F = vh.MinForm(n)
				} else {
					x.F = vh.Findef
				}
				try(fmt.Sprintf("%s seg %d reframed", f.n, i), f.t, c.Enc())
			}
		}
		if f.t == 1 {
			// byron: tx with extra element
			c = it.Clone()
			txp := c.Xs[1].Xs[0]
			fmt.Println("txs:", len(txp.Xs), txp.F, "tx0 form", txp.Xs[0].F, len(txp.Xs[0].Xs))
			tx := txp.Xs[0]
			tx.Xs = append(tx.Xs, vh.B([]byte("junk")))
			tx.F = vh.MinForm(uint64(len(tx.Xs)))
			try("byron tx extra element", 1, c.Enc())
			c = it.Clone()
			c.Xs[1].Xs[0].F = vh.MinForm(uint64(len(c.Xs[1].Xs[0].Xs)))
			try("byron txpayload definite", 1, c.Enc())
			c = it.Clone()
			c.Xs[2] = vh.A(vh.M(vh.U(1), vh.U(2)))
			try("byron extra changed", 1, c.Enc())
			c = it.Clone()
			fmt.Println("ssc:", hex.EncodeToString(c.Xs[1].Xs[1].Enc()[:20]))
			c = it.Clone()
			c.Xs[1].Xs = append(c.Xs[1].Xs, vh.U(0))
			c.Xs[1].F = vh.MinForm(5)
			try("byron body 5 elems", 1, c.Enc())
		}
	}
}
