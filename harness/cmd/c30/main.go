// C30 - the minimum fee and the size limits use the transaction's real size.
package main

import (
	"encoding/hex"
	"encoding/json"
	"errors"
	"fmt"
	"math/big"
	"os"
	"path/filepath"
	"reflect"
	"runtime"
	"sort"
	"strings"

	"github.com/blinklabs-io/gouroboros/cbor"
	"github.com/blinklabs-io/gouroboros/ledger"
	"github.com/blinklabs-io/gouroboros/ledger/allegra"
	"github.com/blinklabs-io/gouroboros/ledger/alonzo"
	"github.com/blinklabs-io/gouroboros/ledger/babbage"
	"github.com/blinklabs-io/gouroboros/ledger/common"
	"github.com/blinklabs-io/gouroboros/ledger/conway"
	"github.com/blinklabs-io/gouroboros/ledger/dijkstra"
	"github.com/blinklabs-io/gouroboros/ledger/mary"
	"github.com/blinklabs-io/gouroboros/ledger/shelley"

	"verifharness/vh"
)

const header = `From Coq Require Import String.
From V Require Import Lib.Base Lib.Hex C30.Model.
Open Scope string_scope.`

// ---------------------------------------------------------------------------
// eras

type era struct {
	id      uint
	name    string
	blockTy uint
	fixture string
	rules   []common.UtxoValidationRuleFunc
	pp      func(a, b, max uint) common.ProtocolParameters
	ppType  reflect.Type
	minFee  func(common.Transaction, common.ProtocolParameters) (uint64, error)
}

// txTypes: the transaction struct of each era (for the body's field tags)
var txTypes = map[uint]reflect.Type{
	shelley.TxTypeShelley:   reflect.TypeOf(shelley.ShelleyTransaction{}),
	allegra.TxTypeAllegra:   reflect.TypeOf(allegra.AllegraTransaction{}),
	mary.TxTypeMary:         reflect.TypeOf(mary.MaryTransaction{}),
	alonzo.TxTypeAlonzo:     reflect.TypeOf(alonzo.AlonzoTransaction{}),
	babbage.TxTypeBabbage:   reflect.TypeOf(babbage.BabbageTransaction{}),
	conway.TxTypeConway:     reflect.TypeOf(conway.ConwayTransaction{}),
	dijkstra.TxTypeDijkstra: reflect.TypeOf(dijkstra.DijkstraTransaction{}),
}

// bodyKeys lists the integer map keys of the era's transaction body, read
// from the `cbor:"N,keyasint"` tags of its struct (so a field added later is
// picked up without touching the harness).
func bodyKeys(e *era) []uint64 {
	t, ok := txTypes[e.id]
	if !ok {
		return nil
	}
	f, ok := t.FieldByName("Body")
	if !ok {
		return nil
	}
	bt := f.Type
	var out []uint64
	for i := 0; i < bt.NumField(); i++ {
		tag := bt.Field(i).Tag.Get("cbor")
		parts := strings.Split(tag, ",")
		if len(parts) < 2 || parts[1] != "keyasint" {
			continue
		}
		var k uint64
		if _, err := fmt.Sscan(parts[0], &k); err == nil {
			out = append(out, k)
		}
	}
	sort.Slice(out, func(i, j int) bool { return out[i] < out[j] })
	return out
}

func rewardAddr(r *vh.Rng) *vh.Item { return vh.B(append([]byte{0xe1}, r.Bytes(28)...)) }

// fieldValues proposes values for an optional body key: the specific shape
// where we know it, then generic shapes (for keys added after this harness
// was written).  The first one the era's decoder accepts is used.
func fieldValues(r *vh.Rng, e *era, k uint64) []*vh.Item {
	out := func() *vh.Item {
		if e.id >= babbage.TxTypeBabbage {
			return vh.M(vh.U(0), addr(r), vh.U(1), vh.U(1500000))
		}
		return vh.A(addr(r), vh.U(1500000))
	}
	var spec []*vh.Item
	switch k {
	case 3, 8:
		spec = []*vh.Item{vh.U(uint64(1 + r.Intn(1<<30)))}
	case 4:
		spec = []*vh.Item{vh.A(vh.A(vh.U(0), vh.A(vh.U(0), vh.B(r.Bytes(28)))))}
	case 5:
		spec = []*vh.Item{vh.M(rewardAddr(r), vh.U(uint64(1+r.Intn(1000))))}
	case 7, 11:
		spec = []*vh.Item{vh.B(r.Bytes(32))}
	case 9:
		spec = []*vh.Item{vh.M(vh.B(r.Bytes(28)), vh.M(vh.B(r.Bytes(4)), vh.U(uint64(1+r.Intn(100)))))}
	case 13, 18:
		spec = []*vh.Item{vh.A(input(r))}
	case 14:
		spec = []*vh.Item{vh.A(vh.B(r.Bytes(28))), vh.TagOf(258, vh.A(vh.A(vh.U(0), vh.B(r.Bytes(28)))))}
	case 15:
		spec = []*vh.Item{vh.U(uint64(r.Intn(2)))}
	case 16:
		spec = []*vh.Item{out()}
	case 17, 21, 22:
		spec = []*vh.Item{vh.U(uint64(1 + r.Intn(5000000)))}
	case 19:
		spec = []*vh.Item{vh.M(vh.A(vh.U(2), vh.B(r.Bytes(28))), vh.M(vh.A(vh.B(r.Bytes(32)), vh.U(0)), vh.A(vh.U(1), vh.Null())))}
	case 20:
		spec = []*vh.Item{vh.A(vh.A(vh.U(1000000), rewardAddr(r), vh.A(vh.U(6)), vh.A(vh.T("https://x"), vh.B(r.Bytes(32)))))}
	case 25:
		spec = []*vh.Item{vh.M(rewardAddr(r), vh.U(5))}
	}
	return append(spec, vh.U(1), vh.A(), vh.M(), vh.B(r.Bytes(28)), vh.B(r.Bytes(32)), vh.A(vh.U(1)), vh.Null())
}

var eras = []era{
	{shelley.TxTypeShelley, "shelley", shelley.BlockTypeShelley, "shelley_block.hex", shelley.UtxoValidationRules,
		func(a, b, m uint) common.ProtocolParameters {
			return &shelley.ShelleyProtocolParameters{MinFeeA: a, MinFeeB: b, MaxTxSize: m}
		}, reflect.TypeOf(shelley.ShelleyProtocolParameters{}), shelley.MinFeeTx},
	{allegra.TxTypeAllegra, "allegra", allegra.BlockTypeAllegra, "allegra_block.hex", allegra.UtxoValidationRules,
		func(a, b, m uint) common.ProtocolParameters {
			return &allegra.AllegraProtocolParameters{MinFeeA: a, MinFeeB: b, MaxTxSize: m}
		}, reflect.TypeOf(allegra.AllegraProtocolParameters{}), shelley.MinFeeTx},
	{mary.TxTypeMary, "mary", mary.BlockTypeMary, "mary_block.hex", mary.UtxoValidationRules,
		func(a, b, m uint) common.ProtocolParameters {
			return &mary.MaryProtocolParameters{MinFeeA: a, MinFeeB: b, MaxTxSize: m}
		}, reflect.TypeOf(mary.MaryProtocolParameters{}), mary.MinFeeTx},
	{alonzo.TxTypeAlonzo, "alonzo", alonzo.BlockTypeAlonzo, "alonzo_block.hex", alonzo.UtxoValidationRules,
		func(a, b, m uint) common.ProtocolParameters {
			return &alonzo.AlonzoProtocolParameters{MinFeeA: a, MinFeeB: b, MaxTxSize: m}
		}, reflect.TypeOf(alonzo.AlonzoProtocolParameters{}), alonzo.MinFeeTx},
	{babbage.TxTypeBabbage, "babbage", babbage.BlockTypeBabbage, "babbage_block.hex", babbage.UtxoValidationRules,
		func(a, b, m uint) common.ProtocolParameters {
			return &babbage.BabbageProtocolParameters{MinFeeA: a, MinFeeB: b, MaxTxSize: m}
		}, reflect.TypeOf(babbage.BabbageProtocolParameters{}), babbage.MinFeeTx},
	{conway.TxTypeConway, "conway", conway.BlockTypeConway, "conway_block.hex", conway.UtxoValidationRules,
		func(a, b, m uint) common.ProtocolParameters {
			return &conway.ConwayProtocolParameters{MinFeeA: a, MinFeeB: b, MaxTxSize: m}
		}, reflect.TypeOf(conway.ConwayProtocolParameters{}), conway.MinFeeTx},
	{dijkstra.TxTypeDijkstra, "dijkstra", dijkstra.BlockTypeDijkstra, "", dijkstra.UtxoValidationRules,
		func(a, b, m uint) common.ProtocolParameters {
			p := &dijkstra.DijkstraProtocolParameters{}
			p.MinFeeA, p.MinFeeB, p.MaxTxSize = a, b, m
			return p
		}, reflect.TypeOf(dijkstra.DijkstraProtocolParameters{}), dijkstra.MinFeeTx},
}

func ruleName(f common.UtxoValidationRuleFunc) string {
	n := runtime.FuncForPC(reflect.ValueOf(f).Pointer()).Name()
	if i := strings.LastIndex(n, "."); i >= 0 {
		n = n[i+1:]
	}
	return n
}

func findRule(rules []common.UtxoValidationRuleFunc, name string) common.UtxoValidationRuleFunc {
	for _, f := range rules {
		if ruleName(f) == name {
			return f
		}
	}
	return nil
}

// uintFields lists the (possibly promoted) fields of kind uint among the
// names the fee and size rules read.
func uintFields(t reflect.Type) []string {
	var out []string
	for _, n := range []string{"MinFeeA", "MinFeeB", "MaxTxSize"} {
		if f, ok := t.FieldByName(n); ok && f.Type.Kind() == reflect.Uint {
			out = append(out, n)
		}
	}
	return out
}

// gen: the per-era rule lists (names, in list order), the transaction type
// numbers and the protocol parameter fields, as Coq tables.
func gen(out string) error {
	var sb strings.Builder
	sb.WriteString("(* GENERATED by harness/cmd/c30 gen from the ledger/<era> packages - do not edit *)\n")
	sb.WriteString("From Coq Require Import String.\nFrom V Require Import Lib.Base.\nLocal Open Scope string_scope.\nLocal Open Scope N_scope.\n\n")
	sb.WriteString("(* (tx type, era name, names of UtxoValidationRules in order, uint-typed pparams fields) *)\n")
	sb.WriteString("Definition era_table : list (N * string * list string * list string) := [\n")
	for i, e := range eras {
		var names []string
		for _, f := range e.rules {
			names = append(names, vh.Str(ruleName(f)))
		}
		var fields []string
		for _, f := range uintFields(e.ppType) {
			fields = append(fields, vh.Str(f))
		}
		sep := ";"
		if i == len(eras)-1 {
			sep = ""
		}
		fmt.Fprintf(&sb, "  (%d, %s,\n   %s,\n   %s)%s\n", e.id, vh.Str(e.name), vh.List(names), vh.List(fields), sep)
	}
	sb.WriteString("].\n\n")
	fmt.Fprintf(&sb, "Definition uint_bits : N := %d.\n", reflect.TypeOf(uint(0)).Bits())
	fmt.Fprintf(&sb, "Definition int_bits : N := %d.\n", reflect.TypeOf(int(0)).Bits())
	if out == "" {
		fmt.Print(sb.String())
		return nil
	}
	return vh.WriteIfChanged(out, sb.String())
}

// ---------------------------------------------------------------------------
// transaction construction

func addr(r *vh.Rng) *vh.Item { return vh.B(append([]byte{0x61}, r.Bytes(28)...)) }

func input(r *vh.Rng) *vh.Item { return vh.A(vh.B(r.Bytes(32)), vh.U(uint64(r.Intn(4)))) }

// body builds a minimal transaction body the decoders of every era accept.
func body(r *vh.Rng, e *era, fee uint64, extra ...*vh.Item) *vh.Item {
	nin, nout := 1+r.Intn(2), 1+r.Intn(2)
	var ins, outs []*vh.Item
	for i := 0; i < nin; i++ {
		ins = append(ins, input(r))
	}
	for i := 0; i < nout; i++ {
		coin := vh.U(r.Boundary() >> uint(1+r.Intn(20)))
		if e.id >= babbage.TxTypeBabbage && r.Bool() {
			outs = append(outs, vh.M(vh.U(0), addr(r), vh.U(1), coin))
		} else {
			outs = append(outs, vh.A(addr(r), coin))
		}
	}
	kvs := []*vh.Item{vh.U(0), vh.A(ins...), vh.U(1), vh.A(outs...), vh.U(2), vh.U(fee)}
	has3 := false
	for i := 0; i+1 < len(extra); i += 2 {
		has3 = has3 || extra[i].N == 3
	}
	if !has3 && (e.id == shelley.TxTypeShelley || r.Bool()) {
		kvs = append(kvs, vh.U(3), vh.U(uint64(r.Intn(1<<30))))
	}
	kvs = append(kvs, extra...)
	// keys in ascending order, as a wallet would write them
	type kv struct{ k, v *vh.Item }
	var ps []kv
	for i := 0; i+1 < len(kvs); i += 2 {
		ps = append(ps, kv{kvs[i], kvs[i+1]})
	}
	sort.SliceStable(ps, func(i, j int) bool { return ps[i].k.N < ps[j].k.N })
	kvs = kvs[:0]
	for _, p := range ps {
		kvs = append(kvs, p.k, p.v)
	}
	return vh.M(kvs...)
}

// envelopeWith: explicit is_valid flag and extra body fields.
func envelopeWith(r *vh.Rng, e *era, fee uint64, valid bool, extra ...*vh.Item) *vh.Item {
	b, w, a := body(r, e, fee, extra...), witnesses(r), auxData(r)
	if e.id < alonzo.TxTypeAlonzo {
		return vh.A(b, w, a)
	}
	return vh.A(b, w, vh.BoolItem(valid), a)
}

// acceptedFields probes, per era, which optional body keys the decoder takes
// with which value; the result drives the field-variation cases.
func acceptedFields(c *vh.Ctx, e *era) map[uint64]func(*vh.Rng) *vh.Item {
	out := map[uint64]func(*vh.Rng) *vh.Item{}
	probe := vh.NewRng(uint64(e.id) + 77)
	for _, k := range bodyKeys(e) {
		if k <= 2 {
			continue
		}
		k := k
		for idx := range fieldValues(probe, e, k) {
			idx := idx
			mk := func(r *vh.Rng) *vh.Item { return fieldValues(r, e, k)[idx] }
			raw := envelopeWith(probe, e, 200000, true, vh.U(k), mk(probe)).Enc()
			if _, err := ledger.NewTransactionFromCbor(e.id, raw); err == nil {
				out[k] = mk
				break
			}
		}
		if _, ok := out[k]; !ok {
			c.Res.Distribution[fmt.Sprintf("body-key-not-generated/%s/%d", e.name, k)]++
		}
	}
	return out
}


func witnesses(r *vh.Rng) *vh.Item {
	if r.Intn(3) == 0 {
		return vh.M()
	}
	var ws []*vh.Item
	for i := 1 + r.Intn(2); i > 0; i-- {
		ws = append(ws, vh.A(vh.B(r.Bytes(32)), vh.B(r.Bytes(64))))
	}
	return vh.M(vh.U(0), vh.A(ws...))
}

func auxData(r *vh.Rng) *vh.Item {
	if r.Intn(3) != 0 {
		return vh.Null()
	}
	return vh.M(vh.U(uint64(r.Intn(1000))), vh.T("c30"))
}

// envelope: nelem 3 = [body, wits, aux]; 4 = [body, wits, is_valid, aux]
// (for the pre-Alonzo eras, which only look at the first three elements, the
// fourth is a null).
func envelope(r *vh.Rng, e *era, nelem int, fee uint64) *vh.Item {
	b, w, a := body(r, e, fee), witnesses(r), auxData(r)
	if nelem == 3 {
		return vh.A(b, w, a)
	}
	if e.id < alonzo.TxTypeAlonzo {
		return vh.A(b, w, a, vh.Null())
	}
	valid := true
	if e.id != dijkstra.TxTypeDijkstra && r.Intn(4) == 0 {
		valid = false
	}
	return vh.A(b, w, vh.BoolItem(valid), a)
}

var outerForms = []vh.Form{vh.Fimm, vh.F1, vh.F2, vh.F4, vh.F8, vh.Findef}

func formName(f vh.Form) string {
	switch f {
	case vh.Fimm:
		return "imm"
	case vh.F1:
		return "w1"
	case vh.F2:
		return "w2"
	case vh.F4:
		return "w4"
	case vh.F8:
		return "w8"
	}
	return "indef"
}

// ---------------------------------------------------------------------------
// one case

type rcase struct {
	Era    uint   `json:"era"`
	Tx     string `json:"tx"`
	A      uint64 `json:"a"`
	B      uint64 `json:"b"`
	MaxSz  uint64 `json:"max_tx_size"`
	Kind   string `json:"kind"`
	Size   uint64 `json:"size,omitempty"` // kind=fee only
	Header string `json:"header,omitempty"`
}

func eraByID(id uint) *era {
	for i := range eras {
		if eras[i].id == id {
			return &eras[i]
		}
	}
	return nil
}

var two64 = new(big.Int).Lsh(big.NewInt(1), 64)

// oracleSize is the property's size, computed on an independent walk of the
// original bytes: their length, minus one for a four-element envelope of an
// era that has the is_valid flag (Alonzo onwards).
func oracleSize(e *era, raw []byte) (int, *vh.Item, error) {
	it, n, err := vh.ParseItem(raw)
	if err != nil || n != len(raw) || it.K != vh.KArr {
		return 0, nil, errors.New("not a single CBOR array")
	}
	size := len(raw)
	if e.id >= alonzo.TxTypeAlonzo && len(it.Xs) == 4 {
		size--
	}
	return size, it, nil
}

func optN(v uint64, ok bool) string { return vh.Opt(vh.N(v), ok) }

// runTx decodes raw as a transaction of era e and observes the size, the
// minimum fee and both rules.  It returns false when the decoder rejects raw.
func runTx(c *vh.Ctx, cf *vh.CaseFile, e *era, raw []byte, a, b, maxsz uint64, class string) bool {
	rc := rcase{Era: e.id, Tx: hex.EncodeToString(raw), A: a, B: b, MaxSz: maxsz, Kind: "tx"}
	c.Begin(rc)
	tx, err := ledger.NewTransactionFromCbor(e.id, raw)
	if err != nil {
		c.Res.Count("", false, "decoder-rejected")
		return false
	}
	want, it, oerr := oracleSize(e, raw)
	if oerr != nil {
		c.Res.Count("", false, "oracle-rejected")
		return false
	}
	form := formName(it.F)
	envClass := fmt.Sprintf("%s:n%d:%s", form, len(it.Xs), e.name)
	pp := e.pp(uint(a), uint(b), uint(maxsz))

	gotSize, serr := common.TxSizeForFee(tx)
	minFee, merr := e.minFee(tx, pp)
	feeRule := findRule(e.rules, "UtxoValidateFeeTooSmallUtxo")
	maxRule := findRule(e.rules, "UtxoValidateMaxTxSizeUtxo")
	if feeRule == nil || maxRule == nil {
		c.Res.Violate("monitor", "rule-missing-from-list:"+e.name, "the era's UtxoValidationRules no longer contains the fee or max-size rule", rc)
		return true
	}
	ferr := feeRule(tx, 0, nil, pp)
	xerr := maxRule(tx, 0, nil, pp)
	var tooSmall shelley.FeeTooSmallUtxoError
	feeObs := 0
	switch {
	case ferr == nil:
	case errors.As(ferr, &tooSmall):
		feeObs = 1
	default:
		feeObs = 2
	}
	var tooBig shelley.MaxTxSizeUtxoError
	maxOK := xerr == nil
	if xerr != nil && !errors.As(xerr, &tooBig) {
		c.Res.Violate("monitor", "maxsize-rule-unexpected-error:"+e.name, "max-size rule returned an unexpected error: "+xerr.Error(), rc)
	}
	libFee := tx.Fee()
	if libFee == nil {
		libFee = new(big.Int)
	}
	// the declared fee and the body keys, from the independent walk
	fee := new(big.Int)
	var keys []string
	isValidW := "absent"
	if len(it.Xs) > 0 && it.Xs[0].K == vh.KMap {
		bm := it.Xs[0]
		for i := 0; i+1 < len(bm.Xs); i += 2 {
			if bm.Xs[i].K != vh.KUInt {
				continue
			}
			keys = append(keys, vh.N(bm.Xs[i].N))
			if bm.Xs[i].N == 2 && bm.Xs[i+1].K == vh.KUInt {
				fee.SetUint64(bm.Xs[i+1].N)
			}
		}
	}
	if e.id >= alonzo.TxTypeAlonzo && len(it.Xs) == 4 && it.Xs[2].K == vh.KSimple {
		isValidW = fmt.Sprint(it.Xs[2].N == 21)
	}
	c.Res.Distribution[fmt.Sprintf("is_valid/%s/%s", e.name, isValidW)]++
	if fee.Cmp(libFee) != 0 {
		c.Res.Violate("monitor", "fee-accessor:"+e.name, fmt.Sprintf("tx.Fee()=%s, body key 2 holds %s", libFee, fee), rc)
	}

	// ---- monitor -----------------------------------------------------------
	nontrivial := form != "imm" || len(it.Xs) == 4
	c.Res.Count(rc.Tx+fmt.Sprint(a, b, maxsz), nontrivial, class)
	c.Res.Distribution["envelope/"+envClass]++
	if serr != nil || gotSize != want {
		c.Res.Violate("monitor", "txsize:"+envClass,
			fmt.Sprintf("TxSizeForFee=%d err=%v but the original encoding has %d bytes and %d elements (%s header, era %s): fee-relevant size is %d",
				gotSize, serr, len(raw), len(it.Xs), form, e.name, want), rc)
	}
	min := new(big.Int).Mul(new(big.Int).SetUint64(a), big.NewInt(int64(want)))
	min.Add(min, new(big.Int).SetUint64(b))
	overflow := min.Cmp(two64) >= 0
	switch {
	case overflow && merr == nil:
		c.Res.Violate("monitor", "minfee-overflow-not-reported:"+e.name, fmt.Sprintf("a*size+b = %s does not fit uint64 but MinFeeTx returned %d without error", min, minFee), rc)
	case !overflow && merr != nil:
		c.Res.Violate("monitor", "minfee-spurious-error:"+envClass, fmt.Sprintf("a*size+b = %s fits but MinFeeTx failed: %v", min, merr), rc)
	case !overflow && new(big.Int).SetUint64(minFee).Cmp(min) != 0:
		c.Res.Violate("monitor", "minfee-value:"+envClass, fmt.Sprintf("MinFeeTx=%d, a*size+b=%s (size %d)", minFee, min, want), rc)
	}
	switch {
	case feeObs == 0 && fee.Cmp(min) < 0:
		c.Res.Violate("monitor", "fee-accepted-below-min:"+envClass, fmt.Sprintf("fee %s accepted, a*size+b = %s", fee, min), rc)
	case feeObs == 1 && fee.Cmp(min) >= 0:
		c.Res.Violate("monitor", "fee-rejected-at-or-above-min:"+envClass, fmt.Sprintf("fee %s rejected, a*size+b = %s", fee, min), rc)
	case feeObs == 2 && !overflow:
		c.Res.Violate("monitor", "fee-rule-spurious-error:"+envClass, fmt.Sprintf("fee rule failed with %v, a*size+b = %s fits", ferr, min), rc)
	case feeObs != 2 && overflow:
		c.Res.Violate("monitor", "fee-rule-overflow-not-reported:"+e.name, fmt.Sprintf("a*size+b = %s overflows, fee rule result class %d", min, feeObs), rc)
	}
	if maxOK != (uint64(len(raw)) <= maxsz) {
		c.Res.Violate("monitor", "maxsize:"+envClass, fmt.Sprintf("max-size rule ok=%v for an original encoding of %d bytes and limit %d", maxOK, len(raw), maxsz), rc)
	}
	if nontrivial {
		c.Res.Sample(map[string]any{"era": e.name, "outer": form, "elements": len(it.Xs), "len": len(raw), "size": gotSize, "a": a, "b": b, "fee": fee.String(), "fee_rule": feeObs})
	}

	// ---- correspondence ----------------------------------------------------
	optBig := func(v *big.Int) string {
		if v == nil || v.Sign() < 0 {
			return "None"
		}
		return "(Some " + vh.BigN(v) + ")"
	}
	rec := fmt.Sprintf("{| t_era := %s; t_stored := %s; t_fee := %s; t_is_valid := %s; t_total_collateral := %s; t_has_collateral_return := %s; t_donation := %s; t_treasury := %s; t_body_keys := %s |}",
		vh.N(uint64(e.id)), vh.Bytes(raw), vh.BigN(libFee), vh.Bool(tx.IsValid()), optBig(tx.TotalCollateral()), vh.Bool(tx.CollateralReturn() != nil),
		optBig(tx.Donation()), optBig(tx.CurrentTreasuryValue()), vh.List(keys))
	cf.Add(fmt.Sprintf("CTx %s %s %s %s %s %s %s %s", rec, vh.N(a), vh.N(b), vh.N(maxsz),
		vh.N(uint64(gotSize)), optN(minFee, merr == nil), vh.N(uint64(feeObs)), vh.Bool(maxOK)), rc)
	return true
}

func runFee(c *vh.Ctx, cf *vh.CaseFile, size, a, b uint64) {
	rc := rcase{Kind: "fee", Size: size, A: a, B: b}
	got, err := common.CalculateMinFee(int(size), uint(a), uint(b))
	want := new(big.Int).Mul(new(big.Int).SetUint64(a), new(big.Int).SetUint64(size))
	want.Add(want, new(big.Int).SetUint64(b))
	overflow := want.Cmp(two64) >= 0
	cls := "minfee/fits"
	if overflow {
		cls = "minfee/overflow"
	}
	c.Res.Count(fmt.Sprint("fee", size, a, b), true, cls)
	switch {
	case overflow && err == nil:
		c.Res.Violate("monitor", "calculate-min-fee-wrapped", fmt.Sprintf("CalculateMinFee(%d,%d,%d)=%d, exact value %s does not fit uint64", size, a, b, got, want), rc)
	case !overflow && err != nil:
		c.Res.Violate("monitor", "calculate-min-fee-spurious-error", fmt.Sprintf("CalculateMinFee(%d,%d,%d) failed (%v), exact value %s fits", size, a, b, err, want), rc)
	case !overflow && new(big.Int).SetUint64(got).Cmp(want) != 0:
		c.Res.Violate("monitor", "calculate-min-fee-value", fmt.Sprintf("CalculateMinFee(%d,%d,%d)=%d, exact value %s", size, a, b, got, want), rc)
	}
	cf.Add(fmt.Sprintf("CFee %s %s %s %s", vh.N(size), vh.N(a), vh.N(b), optN(got, err == nil)), rc)
}

func runHdr(c *vh.Ctx, cf *vh.CaseFile, d []byte) {
	rc := rcase{Kind: "hdr", Header: hex.EncodeToString(d)}
	var n int
	var err error
	dec, derr := cbor.NewStreamDecoder(d)
	if derr != nil {
		return
	}
	n, _, _, err = dec.DecodeArrayHeader()
	c.Res.Count("hdr"+rc.Header, false, "array-header")
	cf.Add(fmt.Sprintf("CHdr %s %s", vh.Bytes(d), optN(uint64(n), err == nil)), rc)
}

func runLen(c *vh.Ctx, cf *vh.CaseFile, it *vh.Item) {
	d := it.Enc()
	rc := rcase{Kind: "len", Header: hex.EncodeToString(d)}
	n, err := cbor.ListLength(d)
	if err != nil && hasTag(it) {
		// the third-party decoder validates the content of built-in tags; not CBOR well-formedness
		c.Res.Count("", false, "list-length-skipped-tag")
		return
	}
	c.Res.Count("len"+rc.Header, false, "list-length")
	if err != nil || n != len(it.Xs) {
		c.Res.Violate("monitor", "list-length:"+formName(it.F), fmt.Sprintf("ListLength=%d err=%v on an array of %d elements", n, err, len(it.Xs)), rc)
	}
	cf.Add(fmt.Sprintf("CLen %s %s", vh.Bytes(d), optN(uint64(n), err == nil)), rc)
}

func hasTag(it *vh.Item) bool {
	if it.K == vh.KTag {
		return true
	}
	for _, x := range it.Xs {
		if hasTag(x) {
			return true
		}
	}
	return false
}

// ---------------------------------------------------------------------------
// parameter choice around the boundary

// params picks (a, b) for a transaction whose fee is `fee` and whose
// fee-relevant size is `size`, so that a*size+b = fee+d for a small d, or so
// that the computation sits at / beyond the uint64 limit.
func params(r *vh.Rng, fee uint64, size int) (uint64, uint64, string) {
	s := uint64(size)
	max := ^uint64(0)
	switch r.Intn(10) {
	case 0, 1, 2, 3: // boundary: a*s + b = fee + d, d in -1..1
		var a uint64
		if s > 0 && fee/s > 0 {
			a = r.U64() % (fee/s + 1)
			if r.Bool() && a > 100 {
				a = uint64(r.Intn(100))
			}
		}
		rest := fee - a*s
		switch r.Intn(3) {
		case 0:
			if rest > 0 {
				return a, rest - 1, "boundary/fee=min+1"
			}
		case 1:
			if rest < max {
				return a, rest + 1, "boundary/fee=min-1"
			}
		}
		return a, rest, "boundary/fee=min"
	case 4: // multiplication just below / at / above 2^64
		q := max / s
		switch r.Intn(3) {
		case 0:
			return q, max - q*s, "limit/sum=2^64-1"
		case 1:
			return q, max - q*s + 1, "limit/sum=2^64 (carry)" // may wrap to 0 when q*s = 0, fine
		}
		return q + 1, uint64(r.Intn(3)), "limit/mul-overflow-by-one"
	case 5:
		return max - uint64(r.Intn(2)), r.Boundary(), "limit/a=max"
	case 6:
		return uint64(r.Intn(50)), max - uint64(r.Intn(int(50*s+2))), "limit/b-near-max"
	case 7:
		return r.Boundary(), r.Boundary(), "random/boundary-values"
	case 8:
		return 44, 155381, "mainnet"
	}
	return r.U64() >> uint(r.Intn(64)), r.U64() >> uint(r.Intn(64)), "random"
}

func maxSize(r *vh.Rng, n int) uint64 {
	switch r.Intn(7) {
	case 0:
		return uint64(n)
	case 1:
		return uint64(n - 1)
	case 2:
		return uint64(n + 1)
	case 3:
		return 16384
	case 4:
		return 0
	case 5:
		return ^uint64(0)
	}
	return uint64(r.Intn(2 * n))
}

func fees(r *vh.Rng) uint64 {
	switch r.Intn(6) {
	case 0:
		return ^uint64(0) - uint64(r.Intn(2))
	case 1:
		return uint64(r.Intn(3))
	case 2:
		return r.Boundary()
	}
	return 150000 + uint64(r.Intn(2000000))
}

// fixtureTxs returns the transactions of the era's fixture block as raw
// bytes (each re-assembled by the library from the block's parallel arrays).
func fixtureTxs(e *era) [][]byte {
	if e.fixture == "" {
		return nil
	}
	repo := os.Getenv("VERIF_REPO")
	if repo == "" {
		repo = "/repo"
	}
	b, err := os.ReadFile(filepath.Join(repo, "internal", "testdata", e.fixture))
	if err != nil {
		return nil
	}
	raw, err := hex.DecodeString(strings.TrimSpace(string(b)))
	if err != nil {
		return nil
	}
	blk, err := ledger.NewBlockFromCbor(e.blockTy, raw, common.VerifyConfig{SkipBodyHashValidation: true})
	if err != nil {
		return nil
	}
	var out [][]byte
	for _, tx := range blk.Transactions() {
		if cb := tx.Cbor(); len(cb) > 0 && len(cb) <= 1500 {
			out = append(out, append([]byte(nil), cb...))
		}
	}
	return out
}

func withOuter(it *vh.Item, f vh.Form) *vh.Item {
	cp := it.Clone()
	cp.F = f
	return cp
}

func run(c *vh.Ctx) error {
	c.Res.Rule = "transactions of Shelley..Dijkstra, built from CBOR trees (1-2 inputs/outputs, with/without vkey witnesses, metadata, ttl; 3- and 4-element envelopes) and taken from the fixture blocks; every outer array header form (immediate, 1/2/4/8-byte count, indefinite) plus random non-minimal inner headers; (a,b) chosen so that a*size+b = fee-1 / fee / fee+1, or at 2^64-1 / 2^64 / multiplication overflow by one / a=2^64-1 / b near 2^64; MaxTxSize = len-1 / len / len+1 / 0 / 2^64-1; every optional body key of the era (enumerated from the body struct's cbor tags by reflection; value shapes probed against the decoder) switched on alone and in random groups with is_valid true/false and fee = min-1/min/min+1, total_collateral 0 / 1 / min-1 / min / min+1 / fee / 5*fee / 2^64-1 with and without collateral return and collateral inputs; plus direct CalculateMinFee, DecodeArrayHeader and ListLength cases. distinct by (tx bytes, a, b, max); non-trivial = non-immediate outer header or 4-element envelope"
	c.Res.Modelled = []string{
		"the third-party CBOR decoder behind cbor.ListLength / cbor.Decode is modelled by Lib/CborParse.parse_full (RFC 8949 well-formedness); validated on every case",
		"uint/int are 64-bit (checked by the translator: Gen.uint_bits); tx.Cbor() is the stored original encoding (programmatically built transactions without stored bytes are out of scope)",
	}
	if c.Res.Distribution == nil {
		c.Res.Distribution = map[string]int{}
	}
	cf := c.NewCaseFile("c30", header)
	cf.SetShardSize(c.Pick(150, 300))
	if c.Replay != "" {
		b, err := os.ReadFile(c.Replay)
		if err != nil {
			return err
		}
		var rp struct {
			Replay rcase `json:"replay"`
		}
		if err := json.Unmarshal(b, &rp); err != nil {
			return err
		}
		r := rp.Replay
		switch r.Kind {
		case "fee":
			runFee(c, cf, r.Size, r.A, r.B)
		case "hdr":
			runHdr(c, cf, vh.UnHex(r.Header))
		case "len":
			if it, _, err := vh.ParseItem(vh.UnHex(r.Header)); err == nil {
				runLen(c, cf, it)
			}
		default:
			runTx(c, cf, eraByID(r.Era), vh.UnHex(r.Tx), r.A, r.B, r.MaxSz, "replay")
		}
		cf.Flush()
		return nil
	}
	r := c.Rng

	// ---- regression corpus: the 12-byte Alonzo witness of DESIGN section 7 --
	alz := eraByID(alonzo.TxTypeAlonzo)
	mini := vh.A(vh.M(vh.U(0), vh.A(), vh.U(1), vh.A(), vh.U(2), vh.U(0)), vh.M(), vh.BoolItem(true), vh.Null())
	for _, f := range outerForms {
		raw := withOuter(mini, f).Enc()
		runTx(c, cf, alz, raw, 1, 0, uint64(len(raw)), "corpus")
		runTx(c, cf, alz, raw, 0, uint64(len(raw)), uint64(len(raw)-1), "corpus")
	}

	// ---- generated transactions, every era x envelope size x outer form -----
	rounds := c.Pick(2, 14)
	for round := 0; round < rounds; round++ {
		for i := range eras {
			e := &eras[i]
			for _, nelem := range []int{3, 4} {
				if nelem == 3 && e.id >= alonzo.TxTypeAlonzo && e.id != dijkstra.TxTypeDijkstra {
					continue // the decoder demands exactly four elements
				}
				fee := fees(r)
				base := envelope(r, e, nelem, fee)
				if round%2 == 1 {
					base = vh.Reform(r, base, vh.ReformOpts{Ints: true, Strings: true, Containers: true, Indef: true, Prob: 25})
				}
				for _, f := range outerForms {
					it := withOuter(base, f)
					raw := it.Enc()
					size, _, err := oracleSize(e, raw)
					if err != nil {
						return fmt.Errorf("generator produced a non-array: %x", raw)
					}
					reps := 1
					if f == vh.Findef || f == vh.Fimm {
						reps = 2
					}
					for k := 0; k < reps; k++ {
						a, b, cls := params(r, fee, size)
						if !runTx(c, cf, e, raw, a, b, maxSize(r, len(raw)), "gen/"+cls) {
							break
						}
					}
				}
			}
		}
	}

	// ---- every optional body field / is_valid, independently of the fee ------
	// The verdict depends on (fee, size, a, b) only: each field is switched on
	// alone and in random groups, with is_valid true and false, fee = min-1 /
	// min / min+1; total_collateral additionally below / at / above the minimum
	// fee and at 0 and 2^64-1.
	exact := func(e *era, raw []byte, fee uint64, delta int64) (uint64, uint64, bool) {
		size, _, err := oracleSize(e, raw)
		if err != nil {
			return 0, 0, false
		}
		min := int64(fee) - delta // fee - min = delta
		a := uint64(44)
		if int64(a)*int64(size) > min {
			a = 0
		}
		return a, uint64(min - int64(a)*int64(size)), true
	}
	for i := range eras {
		e := &eras[i]
		acc := acceptedFields(c, e)
		var ks []uint64
		for k := range acc {
			ks = append(ks, k)
		}
		sort.Slice(ks, func(i, j int) bool { return ks[i] < ks[j] })
		valids := []bool{true}
		if e.id >= alonzo.TxTypeAlonzo && e.id != dijkstra.TxTypeDijkstra {
			valids = []bool{false, true}
		}
		const fee = 300000
		one := func(valid bool, delta int64, class string, extra ...*vh.Item) {
			raw := envelopeWith(r, e, fee, valid, extra...).Enc()
			if a, b, ok := exact(e, raw, fee, delta); ok {
				runTx(c, cf, e, raw, a, b, maxSize(r, len(raw)), class)
			}
		}
		for n, k := range ks {
			c.Res.Distribution[fmt.Sprintf("body-key/%s/%d", e.name, k)]++
			for vi, valid := range valids {
				// below the minimum with the field present must stay rejected, at the minimum accepted
				one(valid, -1, fmt.Sprintf("fields/single/is_valid=%v/fee=min-1", valid), vh.U(k), acc[k](r))
				one(valid, int64((n+vi)%2), fmt.Sprintf("fields/single/is_valid=%v/fee>=min", valid), vh.U(k), acc[k](r))
			}
		}
		// random groups of fields
		for g := 0; g < c.Pick(4, 30) && len(ks) > 0; g++ {
			var extra []*vh.Item
			for _, k := range ks {
				if r.Intn(3) == 0 {
					extra = append(extra, vh.U(k), acc[k](r))
				}
			}
			one(valids[r.Intn(len(valids))], int64(r.Intn(3))-1, "fields/group", extra...)
		}
		// total collateral against the minimum fee
		if _, ok := acc[17]; ok {
			for _, valid := range valids {
				for _, delta := range []int64{-1, 0, 1} {
					min := uint64(fee - delta)
					for _, tc := range []uint64{0, 1, min - 1, min, min + 1, fee, 5 * fee, ^uint64(0)} {
						extra := []*vh.Item{vh.U(17), vh.U(tc)}
						if r.Bool() {
							if mk, ok := acc[16]; ok {
								extra = append(extra, vh.U(16), mk(r))
							}
						}
						if r.Bool() {
							if mk, ok := acc[13]; ok {
								extra = append(extra, vh.U(13), mk(r))
							}
						}
						one(valid, delta, fmt.Sprintf("fields/total-collateral/is_valid=%v/fee-min=%d", valid, delta), extra...)
					}
				}
			}
		}
	}

	// ---- real transactions from the fixture blocks ------------------------
	perEra := c.Pick(2, 12)
	for i := range eras {
		e := &eras[i]
		txs := fixtureTxs(e)
		for k := 0; k < perEra && k < len(txs); k++ {
			raw0 := txs[(k*7)%len(txs)]
			it, n, err := vh.ParseItem(raw0)
			if err != nil || n != len(raw0) {
				continue
			}
			tx0, err := ledger.NewTransactionFromCbor(e.id, raw0)
			if err != nil || tx0.Fee() == nil || !tx0.Fee().IsUint64() {
				continue
			}
			fee := tx0.Fee().Uint64()
			for _, f := range []vh.Form{it.F, vh.Findef, vh.PickOne(r, []vh.Form{vh.F1, vh.F2, vh.F4, vh.F8})} {
				raw := withOuter(it, f).Enc()
				size, _, _ := oracleSize(e, raw)
				a, b, cls := params(r, fee, size)
				runTx(c, cf, e, raw, a, b, maxSize(r, len(raw)), "fixture/"+cls)
			}
		}
	}

	// ---- CalculateMinFee on its own (sizes beyond any real transaction) ----
	nfee := c.Pick(250, 3000)
	for i := 0; i < nfee; i++ {
		size := r.Boundary() >> 1 // int >= 0
		if r.Bool() {
			size = uint64(r.Intn(20000))
		}
		var a, b uint64
		switch r.Intn(4) {
		case 0:
			a, b = r.Boundary(), r.Boundary()
		case 1:
			if size > 0 {
				q := ^uint64(0) / size
				a = q + uint64(r.Intn(3)) - 1
				b = ^uint64(0) - a*size + uint64(r.Intn(3)) - 1
			}
		case 2:
			a, b = r.U64()>>uint(r.Intn(64)), r.U64()>>uint(r.Intn(64))
		default:
			a, b = uint64(r.Intn(1000)), ^uint64(0)-uint64(r.Intn(1<<20))
		}
		runFee(c, cf, size, a, b)
	}

	// ---- header scanner and ListLength --------------------------------------
	for _, h := range []string{"", "80", "84", "97", "98", "9804", "9900", "990004", "9a000000", "9a00000004", "9a7fffffff", "9a80000000",
		"9b00000000000004", "9b0000000000000004", "9b000000007fffffff", "9b0000000080000000", "9bffffffffffffffff", "9c", "9d", "9e", "9f", "9fff", "a4", "04", "44", "c4", "f6", "ff"} {
		runHdr(c, cf, vh.UnHex(h))
	}
	for i := 0; i < c.Pick(60, 600); i++ {
		d := r.Bytes(1 + r.Intn(10))
		if r.Intn(4) != 0 {
			d[0] = 0x80 | d[0]&0x1f
		}
		runHdr(c, cf, d)
	}
	for i := 0; i < c.Pick(80, 800); i++ {
		n := r.Intn(7)
		if r.Intn(8) == 0 {
			n = 20 + r.Intn(10)
		}
		var xs []*vh.Item
		for k := 0; k < n; k++ {
			xs = append(xs, vh.RandItem(r, 2))
		}
		it := vh.A(xs...)
		it.F = vh.PickOne(r, outerForms)
		if it.F == vh.Fimm && n >= 24 {
			it.F = vh.F1
		}
		runLen(c, cf, it)
	}
	cf.Flush()
	return nil
}

func main() { vh.Main(vh.Runner{Property: "C30", Gen: gen, Run: run}) }
