// C34 - block bodies are bound to their headers at decode time.
package main

import (
	"bytes"
	"encoding/json"
	"fmt"
	"os"
	"path/filepath"
	"reflect"
	"regexp"
	"strings"

	"github.com/blinklabs-io/gouroboros/ledger"
	"github.com/blinklabs-io/gouroboros/ledger/byron"
	lcommon "github.com/blinklabs-io/gouroboros/ledger/common"
	"golang.org/x/crypto/blake2b"

	"verifharness/vh"
)

const header = `From Coq Require Import String.
From V Require Import Lib.Base Lib.Hex C34.Model C34.Run.
Open Scope string_scope.
Open Scope N_scope.`

func repoRoot() string {
	if r := os.Getenv("VERIF_REPO"); r != "" {
		return r
	}
	return "/repo"
}

type fixture struct {
	name string
	typ  uint
	path string
}

var fixtures = []fixture{
	{"byron", 1, "internal/testdata/byron_block.hex"},
	{"shelley", 2, "internal/testdata/shelley_block.hex"},
	{"allegra", 3, "internal/testdata/allegra_block.hex"},
	{"mary", 4, "internal/testdata/mary_block.hex"},
	{"alonzo", 5, "internal/testdata/alonzo_block.hex"},
	{"babbage", 6, "internal/testdata/babbage_block.hex"},
	{"conway", 7, "internal/testdata/conway_block.hex"},
	{"dijkstra", 8, "ledger/dijkstra/testdata/musashi_dijkstra_block.hex"},
}

func load(f fixture) ([]byte, error) {
	b, err := os.ReadFile(filepath.Join(repoRoot(), f.path))
	if err != nil {
		return nil, err
	}
	return vh.UnHex(string(b)), nil
}

func h256(b []byte) []byte { h := blake2b.Sum256(b); return h[:] }

// decode with / without body validation; structOK also runs the Byron
// ssc_proof shape check that the default path runs
func decode(t uint, b []byte, skip bool) (blk ledger.Block, err error) {
	p, pv := vh.Recover(func() {
		if skip {
			blk, err = ledger.NewBlockFromCbor(t, b, lcommon.VerifyConfig{SkipBodyHashValidation: true})
		} else {
			blk, err = ledger.NewBlockFromCbor(t, b) // the default: no VerifyConfig at all
		}
	})
	if p {
		return nil, fmt.Errorf("panic: %v", pv)
	}
	return
}

// ---- VerifyConfig flags, enumerated by reflection so that a new flag is picked up ----
const skipFlag = "SkipBodyHashValidation"
const sscFlag = "EnableByronSscProofHashValidation"

func cfgFlags() []string {
	var out []string
	t := reflect.TypeOf(lcommon.VerifyConfig{})
	for i := 0; i < t.NumField(); i++ {
		if t.Field(i).Type.Kind() == reflect.Bool && t.Field(i).IsExported() {
			out = append(out, t.Field(i).Name)
		}
	}
	return out
}

func mkCfg(flags []string, bits uint) lcommon.VerifyConfig {
	var cfg lcommon.VerifyConfig
	v := reflect.ValueOf(&cfg).Elem()
	for i, f := range flags {
		v.FieldByName(f).SetBool(bits&(1<<uint(i)) != 0)
	}
	return cfg
}

func cfgName(flags []string, bits uint) string {
	var on []string
	for i, f := range flags {
		if bits&(1<<uint(i)) != 0 {
			on = append(on, f)
		}
	}
	if len(on) == 0 {
		return "default"
	}
	return strings.Join(on, "+")
}

func has(flags []string, bits uint, name string) bool {
	for i, f := range flags {
		if f == name {
			return bits&(1<<uint(i)) != 0
		}
	}
	return false
}

func decodeCfg(t uint, b []byte, cfg lcommon.VerifyConfig) (blk ledger.Block, err error) {
	p, pv := vh.Recover(func() { blk, err = ledger.NewBlockFromCbor(t, b, cfg) })
	if p {
		return nil, fmt.Errorf("panic: %v", pv)
	}
	return
}

// struct_ok under a configuration: everything the decoder checks besides the
// body binding.  The only flag with a decode-time effect the model knows is
// EnableByronSscProofHashValidation (full ssc_proof comparison instead of the
// shape check); any other flag is modelled as having no effect at decode time.
func structOKCfg(blk ledger.Block, skipOK bool, ssc bool) bool {
	if !skipOK {
		return false
	}
	if mb, ok := blk.(*byron.ByronMainBlock); ok {
		bad := false
		p, _ := vh.Recover(func() {
			if ssc {
				bad = mb.ValidateSscProof() != nil
			} else {
				bad = mb.ValidateSscProofShape() != nil
			}
		})
		return !p && !bad
	}
	return true
}

func structOK(t uint, b []byte) (ledger.Block, bool) {
	blk, err := decode(t, b, true)
	if err != nil {
		return nil, false
	}
	if mb, ok := blk.(*byron.ByronMainBlock); ok {
		bad := false
		p, _ := vh.Recover(func() { bad = mb.ValidateSscProofShape() != nil })
		if p || bad {
			return blk, false
		}
	}
	return blk, true
}

// a synthetic epoch boundary block (no real fixture in the repository)
func ebbItem(r *vh.Rng, n int) *vh.Item {
	var keys []*vh.Item
	for i := 0; i < n; i++ {
		keys = append(keys, vh.B(r.Bytes(28)))
	}
	body := vh.A(keys...)
	hdr := vh.A(vh.U(764824073), vh.B(r.Bytes(32)), vh.B(h256(body.Enc())), vh.A(vh.U(uint64(r.Intn(300))), vh.A(vh.U(uint64(r.Intn(100000))))), vh.A(vh.M()))
	return vh.A(hdr, body, vh.A(vh.M()))
}

// reference Byron merkle root (Cardano.Chain.Common.Merkle), written from the spec
func refRoot(items [][]byte) []byte {
	if len(items) == 0 {
		return h256(nil)
	}
	if len(items) == 1 {
		return h256(append([]byte{0}, items[0]...))
	}
	p := 1
	for p*2 < len(items) {
		p *= 2
	}
	return h256(append(append([]byte{1}, refRoot(items[:p])...), refRoot(items[p:])...))
}

// ---------------------------------------------------------------------------
// translator

var modeName = map[uint]string{0: "MByronEbb", 1: "MByronMain", 8: "MWholeBody"}
var eraDir = map[uint]string{2: "shelley", 3: "allegra", 4: "mary", 5: "alonzo", 6: "babbage", 7: "conway"}
var callRe = regexp.MustCompile(`(?s)ValidateBlockBodyHash\(\s*data,\s*[^,]+,\s*\w+,\s*(\d+),`)

func structCount(t uint, it *vh.Item) (int, error) {
	n := len(it.Xs)
	try := func(xs []*vh.Item) bool {
		c := it.Clone()
		c.Xs = xs
		c.F = vh.MinForm(uint64(len(xs)))
		_, err := decode(t, c.Enc(), true)
		return err == nil
	}
	if !try(it.Xs) {
		return 0, fmt.Errorf("type %d: fixture does not decode", t)
	}
	more := append(append([]*vh.Item{}, it.Xs...), it.Xs[n-1].Clone())
	if try(more) || try(it.Xs[:n-1]) {
		return 0, fmt.Errorf("type %d: the block decoder accepts %d+-1 elements", t, n)
	}
	return n, nil
}

func gen(out string) error {
	var sb strings.Builder
	sb.WriteString("(* GENERATED by harness/cmd/c34 gen: per block type the binding mode, the element count the\n")
	sb.WriteString("   block decoder demands (probed on the fixture: n accepted, n-1 and n+1 rejected), the\n")
	sb.WriteString("   minRawLength literal of the ValidateBlockBodyHash call in ledger/<era>/<era>.go, the position of\n")
	sb.WriteString("   the body hash in the header body (located in the fixture by the value of BlockBodyHash()),\n")
	sb.WriteString("   and whether ByronTransaction.UnmarshalCBOR demands exactly two elements.  Do not edit. *)\n")
	sb.WriteString("From Coq Require Import String.\nFrom V Require Import Lib.Base C34.Model.\nLocal Open Scope string_scope.\nLocal Open Scope N_scope.\n\nDefinition era_table : list era_row := [\n")
	sb.WriteString("  {| r_type := 0; r_mode := MByronEbb; r_struct := 3; r_hashed := 0; r_idx := 0 |}")
	r := vh.NewRng(1)
	if n, err := structCount(0, ebbItem(r, 2)); err != nil || n != 3 {
		return fmt.Errorf("EBB element count: %v %d", err, n)
	}
	for _, f := range fixtures {
		b, err := load(f)
		if err != nil {
			return err
		}
		it, _, err := vh.ParseItem(b)
		if err != nil {
			return err
		}
		n, err := structCount(f.typ, it)
		if err != nil {
			return err
		}
		hashed, idx := 0, 0
		mode := modeName[f.typ]
		if dir, ok := eraDir[f.typ]; ok {
			mode = "MSegments"
			src, err := os.ReadFile(filepath.Join(repoRoot(), "ledger", dir, dir+".go"))
			if err != nil {
				return err
			}
			m := callRe.FindAllSubmatch(src, -1)
			if len(m) != 1 {
				return fmt.Errorf("%s: expected one ValidateBlockBodyHash(data, ..., n, call, found %d", dir, len(m))
			}
			fmt.Sscan(string(m[0][1]), &hashed)
		}
		if f.typ >= 2 {
			blk, err := decode(f.typ, b, true)
			if err != nil {
				return err
			}
			want := blk.BlockBodyHash().Bytes()
			idx = -1
			for i, x := range it.Xs[0].Xs[0].Xs {
				if x.K == vh.KBStr && bytes.Equal(x.Bs, want) {
					if idx >= 0 {
						return fmt.Errorf("%s: body hash value occurs twice in the header", f.name)
					}
					idx = i
				}
			}
			if idx < 0 {
				return fmt.Errorf("%s: body hash not found in the header body", f.name)
			}
		}
		fmt.Fprintf(&sb, ";\n  {| r_type := %d; r_mode := %s; r_struct := %d; r_hashed := %d; r_idx := %d |}", f.typ, mode, n, hashed, idx)
	}
	sb.WriteString("\n].\n\n")
	src, err := os.ReadFile(filepath.Join(repoRoot(), "ledger/byron/byron.go"))
	if err != nil {
		return err
	}
	exact := "false"
	switch {
	case regexp.MustCompile(`len\(txArray\) != 2`).Match(src):
		exact = "true"
	case regexp.MustCompile(`len\(txArray\) < 2`).Match(src):
	default:
		return fmt.Errorf("ByronTransaction.UnmarshalCBOR: length check on txArray not recognised")
	}
	flags := cfgFlags()
	skipIdx := -1
	q := make([]string, len(flags))
	for i, f := range flags {
		q[i] = `"` + f + `"`
		if f == skipFlag {
			skipIdx = i
		}
	}
	if skipIdx < 0 {
		return fmt.Errorf("VerifyConfig has no bool field %s", skipFlag)
	}
	fmt.Fprintf(&sb, "(* the bool fields of common.VerifyConfig (reflection), in declaration order; a configuration is\n   the list of their values.  Body validation is enabled iff the flag at skip_flag_index is false. *)\nDefinition config_flags : list string := [%s].\nDefinition skip_flag_index : nat := %d.\n\n", strings.Join(q, "; "), skipIdx)
	fmt.Fprintf(&sb, "(* ByronTransaction.UnmarshalCBOR rejects a transaction array that does not have exactly 2 elements *)\nDefinition byron_tx_exact : bool := %s.\n", exact)
	if out == "" {
		fmt.Print(sb.String())
		return nil
	}
	return vh.WriteIfChanged(out, sb.String())
}

// ---------------------------------------------------------------------------
// independent oracle (second implementation from the property text)

// what the header commits to, recomputed from the body by a separate walker
// for Shelley+ : the commitment value; for Byron: the five quantities
func untag(i *vh.Item) *vh.Item {
	for i.K == vh.KTag {
		i = i.Xs[0]
	}
	return i
}

func oracleCommit(t uint, it *vh.Item) ([]byte, bool) {
	top := untag(it)
	if top.K != vh.KArr || len(top.Xs) < 2 {
		return nil, false
	}
	switch {
	case t == 8:
		if len(top.Xs) != 2 {
			return nil, false
		}
		return h256(top.Xs[1].Enc()), true
	case t >= 2:
		var cat []byte
		for _, s := range top.Xs[1:] {
			cat = append(cat, h256(s.Enc())...)
		}
		return h256(cat), true
	}
	return nil, false
}

// body bytes = everything after element 0 inside the outer array
func bodyBytes(it *vh.Item) []byte {
	top := untag(it)
	var out []byte
	for _, s := range top.Xs[1:] {
		out = append(out, s.Enc()...)
	}
	return out
}

// Byron main: the committed view of the body, and whether some transaction has extra elements
func byronView(it *vh.Item) (view string, extraElems bool, ok bool) {
	top := untag(it)
	if top.K != vh.KArr || len(top.Xs) != 3 {
		return "", false, false
	}
	body := untag(top.Xs[1])
	if body.K != vh.KArr || len(body.Xs) != 4 {
		return "", false, false
	}
	txs := untag(body.Xs[0])
	if txs.K != vh.KArr {
		return "", false, false
	}
	var sb strings.Builder
	for _, tx := range txs.Xs {
		tx = untag(tx)
		if tx.K != vh.KArr || len(tx.Xs) < 2 {
			return "", false, false
		}
		if len(tx.Xs) != 2 {
			extraElems = true
		}
		fmt.Fprintf(&sb, "%x/%x;", tx.Xs[0].Enc(), tx.Xs[1].Enc())
	}
	fmt.Fprintf(&sb, "|%x|%x", body.Xs[2].Enc(), body.Xs[3].Enc())
	return sb.String(), extraElems, true
}

// ---------------------------------------------------------------------------

type bcase struct {
	Era      string `json:"era"`
	Type     uint   `json:"type"`
	Mutation string `json:"mutation"`
	Block    string `json:"block"`
	// what the mutation was applied to: "accepted-base" cases must keep the header
	BaseHeader string `json:"-"`
	// observations
	StructOK bool   `json:"struct_ok"`
	Accepted bool   `json:"accepted"`
	HdrHash  string `json:"header_body_hash"`
	// every other VerifyConfig flag combination
	Cfgs []cfgObs `json:"configs"`
}

type cfgObs struct {
	Name     string `json:"config"`
	Skip     bool   `json:"skip"`
	StructOK bool   `json:"struct_ok"`
	Accepted bool   `json:"accepted"`
}

type state struct {
	c  *vh.Ctx
	cf *vh.CaseFile
	// accepted blocks: header bytes -> committed body (bytes resp. Byron view)
	seen map[string]string
	how  map[string]string
}

func (s *state) runCase(bc bcase, toCoq bool) {
	c := s.c
	b := vh.UnHex(bc.Block)
	bc.Cfgs = nil
	c.Begin(bc)
	blk, sok := structOK(bc.Type, b)
	bc.StructOK = sok
	_, err := decode(bc.Type, b, false)
	bc.Accepted = err == nil
	if sok && bc.Type >= 2 {
		bc.HdrHash = vh.Hex(blk.BlockBodyHash().Bytes())
	}
	cls := "rejected"
	if bc.Accepted {
		cls = "accepted"
	} else if !sok {
		cls = "rejected-structurally"
	}
	c.Res.Count(bc.Block, bc.Mutation != "original", fmt.Sprintf("%s:%s:%s", bc.Era, strings.SplitN(bc.Mutation, "#", 2)[0], cls))
	if len(c.Res.Samples) < 6 && bc.Mutation != "original" && sok {
		c.Res.Sample(map[string]any{"era": bc.Era, "mutation": bc.Mutation, "size": len(b), "accepted": bc.Accepted})
	}
	it, _, perr := vh.ParseItem(b)
	// ---- monitor ----
	if bc.Mutation == "original" && !bc.Accepted {
		c.Res.Violate("monitor", "real-block-rejected:"+bc.Era, "a real block does not decode: "+err.Error(), bc)
	}
	if bc.Accepted && !sok {
		c.Res.Violate("monitor", "accepted-only-with-validation:"+bc.Era, "accepted with body validation but rejected without", bc)
	}
	// the binding, checked on an accepted block under configuration cfg
	// (sfx = "" for the default, ":cfg=<flags>" otherwise)
	accepted := func(sfx string) {
		if perr != nil {
			return
		}
		hdr := vh.Hex(untag(it).Xs[0].Enc())
		var committed string
		if bc.Type >= 2 {
			committed = vh.Hex(bodyBytes(it))
			want, ok := oracleCommit(bc.Type, it)
			if !ok || vh.Hex(want) != bc.HdrHash {
				c.Res.Violate("monitor", "accepted-with-wrong-body-hash:"+bc.Era+":"+mutClass(bc.Mutation)+sfx,
					fmt.Sprintf("accepted although the header carries %s and the body hashes to %x", bc.HdrHash, want), bc)
			}
		} else if bc.Type == 1 {
			v, extra, ok := byronView(it)
			committed = v
			if !ok {
				c.Res.Violate("monitor", "byron-accepted-unexpected-shape"+sfx, "accepted Byron block has not the [header, [txs, ssc, dlg, upd], extra] shape", bc)
			}
			if extra {
				c.Res.Violate("monitor", "byron-tx-extra-element-accepted"+sfx, "a Byron transaction with more than [body, witnesses] is accepted; the extra element is covered by no proof", bc)
			}
		} else {
			committed = vh.Hex(untag(it).Xs[1].Enc())
		}
		key := fmt.Sprintf("%d/%s/%s", bc.Type, hdr, sfx)
		if prev, ok := s.seen[key]; ok && prev != committed {
			c.Res.Violate("monitor", "two-bodies-one-header:"+bc.Era+":"+mutClass(bc.Mutation)+sfx,
				fmt.Sprintf("two blocks with the same header and different committed body content are both accepted (other: %s)", s.how[key]), bc)
		} else if !ok {
			s.seen[key] = committed
			s.how[key] = bc.Mutation
		}
	}
	if bc.Accepted {
		accepted("")
	}
	// every other flag combination of VerifyConfig
	flags := cfgFlags()
	for bits := uint(1); bits < 1<<uint(len(flags)); bits++ {
		name := cfgName(flags, bits)
		skip := has(flags, bits, skipFlag)
		_, e := decodeCfg(bc.Type, b, mkCfg(flags, bits))
		o := cfgObs{Name: name, Skip: skip, Accepted: e == nil}
		if skip {
			o.StructOK = blk != nil
		} else {
			o.StructOK = structOKCfg(blk, blk != nil, has(flags, bits, sscFlag))
		}
		bc.Cfgs = append(bc.Cfgs, o)
		sfx := ":cfg=" + name
		if bc.Mutation == "original" && !o.Accepted {
			c.Res.Violate("monitor", "real-block-rejected:"+bc.Era+sfx, "a real block does not decode under this configuration", bc)
		}
		if skip || !o.Accepted {
			continue
		}
		// flags may only ADD checks: what a validating configuration accepts, the default accepts
		if !bc.Accepted {
			c.Res.Violate("monitor", "config-accepts-what-default-rejects:"+bc.Era+":"+mutClass(bc.Mutation)+sfx,
				"a block rejected under the default configuration is accepted with body validation still enabled", bc)
		}
		accepted(sfx)
	}
	if toCoq {
		s.cf.Add(fmt.Sprintf("(%d, %s)", bc.Type, vh.Bytes(b)), bc)
	}
}

func mutClass(m string) string { return strings.SplitN(m, "#", 2)[0] }

// ---------------------------------------------------------------------------
// mutations

// set the body hash in the header to the right value (the header signature
// is not checked at decode time)
func rehash(t uint, idx int, it *vh.Item) {
	top := untag(it)
	switch {
	case t >= 2:
		want, ok := oracleCommit(t, it)
		if ok {
			f := top.Xs[0].Xs[0].Xs[idx]
			f.K, f.F, f.Bs, f.Chunks = vh.KBStr, vh.F1, want, nil
		}
	case t == 0:
		f := top.Xs[0].Xs[2]
		f.K, f.F, f.Bs = vh.KBStr, vh.F1, h256(top.Xs[1].Enc())
	}
}

// drop all but the transactions at the kept indices (Shelley..Conway layout)
func keepTxs(t uint, it *vh.Item, keep []int) bool {
	top := it
	if t < 2 || t > 7 || len(top.Xs) < 4 {
		return false
	}
	bodies, wits, aux := top.Xs[1], top.Xs[2], top.Xs[3]
	if bodies.K != vh.KArr || wits.K != vh.KArr || aux.K != vh.KMap || len(bodies.Xs) != len(wits.Xs) {
		return false
	}
	var nb, nw, na []*vh.Item
	for ni, i := range keep {
		if i >= len(bodies.Xs) {
			return false
		}
		nb = append(nb, bodies.Xs[i])
		nw = append(nw, wits.Xs[i])
		for k := 0; k+1 < len(aux.Xs); k += 2 {
			if aux.Xs[k].K == vh.KUInt && int(aux.Xs[k].N) == i {
				na = append(na, vh.U(uint64(ni)), aux.Xs[k+1])
			}
		}
	}
	setArr := func(a *vh.Item, xs []*vh.Item, n int) {
		a.Xs = xs
		if a.F != vh.Findef {
			a.F = vh.MinForm(uint64(n))
		}
	}
	setArr(bodies, nb, len(nb))
	setArr(wits, nw, len(nw))
	setArr(aux, na, len(na)/2)
	if len(top.Xs) >= 5 && top.Xs[4].K == vh.KArr {
		setArr(top.Xs[4], nil, 0)
	}
	return true
}

type mut struct {
	name string
	f    func(r *vh.Rng, t uint, it *vh.Item) bool // mutates a clone; false = not applicable
}

func bodyRoot(t uint, it *vh.Item) []*vh.Item { return untag(it).Xs[1:] }

// all nodes below the given roots
func nodes(roots []*vh.Item) []*vh.Item {
	var out []*vh.Item
	var walk func(x *vh.Item)
	walk = func(x *vh.Item) {
		out = append(out, x)
		for _, y := range x.Xs {
			walk(y)
		}
	}
	for _, x := range roots {
		walk(x)
	}
	return out
}

func pick(r *vh.Rng, xs []*vh.Item, ok func(*vh.Item) bool) *vh.Item {
	var c []*vh.Item
	for _, x := range xs {
		if ok(x) {
			c = append(c, x)
		}
	}
	if len(c) == 0 {
		return nil
	}
	return c[r.Intn(len(c))]
}

var bodyMuts = []mut{
	{"flip-byte-in-string", func(r *vh.Rng, t uint, it *vh.Item) bool {
		x := pick(r, nodes(bodyRoot(t, it)), func(x *vh.Item) bool { return (x.K == vh.KBStr) && len(x.Bs) > 0 })
		if x == nil {
			return false
		}
		x.Bs = append([]byte(nil), x.Bs...)
		x.Bs[r.Intn(len(x.Bs))] ^= byte(1 << uint(r.Intn(8)))
		return true
	}},
	{"change-integer", func(r *vh.Rng, t uint, it *vh.Item) bool {
		x := pick(r, nodes(bodyRoot(t, it)), func(x *vh.Item) bool { return x.K == vh.KUInt && x.N > 30 && x.N < 1<<62 })
		if x == nil {
			return false
		}
		x.N++
		if !vh.Fits(x.F, x.N) {
			x.N -= 2
		}
		return true
	}},
	{"widen-header", func(r *vh.Rng, t uint, it *vh.Item) bool {
		x := pick(r, nodes(bodyRoot(t, it)), func(x *vh.Item) bool {
			return (x.K == vh.KUInt || x.K == vh.KBStr || x.K == vh.KArr || x.K == vh.KMap) && x.F != vh.Findef && x.F != vh.F8
		})
		if x == nil {
			return false
		}
		x.F = x.F + 1
		return true
	}},
	{"reframe-container", func(r *vh.Rng, t uint, it *vh.Item) bool {
		x := pick(r, nodes(bodyRoot(t, it)), func(x *vh.Item) bool { return x.K == vh.KArr || x.K == vh.KMap })
		if x == nil {
			return false
		}
		if x.F == vh.Findef {
			n := uint64(len(x.Xs))
			if x.K == vh.KMap {
				n /= 2
			}
			x.F = vh.MinForm(n)
		} else {
			x.F = vh.Findef
		}
		return true
	}},
	{"swap-two-children", func(r *vh.Rng, t uint, it *vh.Item) bool {
		x := pick(r, nodes(bodyRoot(t, it)), func(x *vh.Item) bool {
			return x.K == vh.KArr && len(x.Xs) >= 2 && !bytes.Equal(x.Xs[0].Enc(), x.Xs[len(x.Xs)-1].Enc())
		})
		if x == nil {
			return false
		}
		i := r.Intn(len(x.Xs) - 1)
		j := i + 1 + r.Intn(len(x.Xs)-i-1)
		if bytes.Equal(x.Xs[i].Enc(), x.Xs[j].Enc()) {
			i, j = 0, len(x.Xs)-1
		}
		x.Xs[i], x.Xs[j] = x.Xs[j], x.Xs[i]
		return true
	}},
	{"drop-child", func(r *vh.Rng, t uint, it *vh.Item) bool {
		x := pick(r, nodes(bodyRoot(t, it)), func(x *vh.Item) bool { return x.K == vh.KArr && len(x.Xs) >= 1 })
		if x == nil {
			return false
		}
		i := r.Intn(len(x.Xs))
		x.Xs = append(append([]*vh.Item{}, x.Xs[:i]...), x.Xs[i+1:]...)
		if x.F != vh.Findef {
			x.F = vh.MinForm(uint64(len(x.Xs)))
		}
		return true
	}},
	{"append-child", func(r *vh.Rng, t uint, it *vh.Item) bool {
		x := pick(r, nodes(bodyRoot(t, it)), func(x *vh.Item) bool { return x.K == vh.KArr })
		if x == nil {
			return false
		}
		var y *vh.Item
		if len(x.Xs) > 0 && r.Bool() {
			y = x.Xs[r.Intn(len(x.Xs))].Clone()
		} else {
			y = vh.U(uint64(r.Intn(4)))
		}
		x.Xs = append(append([]*vh.Item{}, x.Xs...), y)
		if x.F != vh.Findef {
			x.F = vh.MinForm(uint64(len(x.Xs)))
		}
		return true
	}},
	{"drop-witness-or-aux", func(r *vh.Rng, t uint, it *vh.Item) bool {
		if t < 2 || t > 7 {
			return false
		}
		top := it
		seg := top.Xs[2+r.Intn(2)]
		cands := nodes([]*vh.Item{seg})
		x := pick(r, cands, func(x *vh.Item) bool { return x.K == vh.KMap && len(x.Xs) >= 2 })
		if x == nil {
			return false
		}
		i := 2 * r.Intn(len(x.Xs)/2)
		x.Xs = append(append([]*vh.Item{}, x.Xs[:i]...), x.Xs[i+2:]...)
		if x.F != vh.Findef {
			x.F = vh.MinForm(uint64(len(x.Xs) / 2))
		}
		return true
	}},
	{"alter-invalid-tx-list", func(r *vh.Rng, t uint, it *vh.Item) bool {
		var lst *vh.Item
		switch {
		case t >= 5 && t <= 7 && len(it.Xs) == 5:
			lst = it.Xs[4]
		case t == 8 && len(untag(it).Xs) == 2 && len(untag(it).Xs[1].Xs) == 4:
			body := untag(it).Xs[1]
			if body.Xs[0].K != vh.KArr {
				body.Xs[0] = vh.A(vh.U(0))
				return true
			}
			lst = body.Xs[0]
		}
		if lst == nil || lst.K != vh.KArr {
			return false
		}
		if len(lst.Xs) > 0 && r.Bool() {
			lst.Xs = lst.Xs[:len(lst.Xs)-1]
		} else {
			lst.Xs = append(append([]*vh.Item{}, lst.Xs...), vh.U(0))
		}
		if lst.F != vh.Findef {
			lst.F = vh.MinForm(uint64(len(lst.Xs)))
		}
		return true
	}},
	{"byron-tx-extra-element", func(r *vh.Rng, t uint, it *vh.Item) bool {
		if t != 1 {
			return false
		}
		txs := untag(untag(it).Xs[1]).Xs[0]
		if len(txs.Xs) == 0 {
			return false
		}
		tx := txs.Xs[r.Intn(len(txs.Xs))]
		tx.Xs = append(append([]*vh.Item{}, tx.Xs...), vh.B(r.Bytes(1+r.Intn(6))))
		if tx.F != vh.Findef {
			tx.F = vh.MinForm(uint64(len(tx.Xs)))
		}
		return true
	}},
}

// Byron main block: substitute one payload of the body (0 txs, 1 ssc, 2 dlg, 3 upd)
func byronPayloadMut(j int, name string) mut {
	return mut{name, func(r *vh.Rng, t uint, it *vh.Item) bool {
		if t != 1 {
			return false
		}
		body := untag(untag(it).Xs[1])
		if body.K != vh.KArr || len(body.Xs) != 4 {
			return false
		}
		p := untag(body.Xs[j])
		// arrays inside the payload (the payload root first)
		arrs := []*vh.Item{}
		for _, x := range nodes([]*vh.Item{p}) {
			if x.K == vh.KArr {
				arrs = append(arrs, x)
			}
		}
		if len(arrs) == 0 {
			return false
		}
		x := arrs[r.Intn(len(arrs))]
		switch r.Intn(3) {
		case 0: // re-frame
			if x.F == vh.Findef {
				x.F = vh.MinForm(uint64(len(x.Xs)))
			} else {
				x.F = vh.Findef
			}
		case 1: // widen the header
			if x.F == vh.Findef || x.F == vh.F8 {
				x.F = vh.MinForm(uint64(len(x.Xs)))
				if x.F == vh.Fimm {
					x.F = vh.F1
				}
			} else {
				x.F = x.F + 1
			}
		default: // one more element
			x.Xs = append(append([]*vh.Item{}, x.Xs...), vh.U(uint64(r.Intn(24))))
			if x.F != vh.Findef {
				x.F = vh.MinForm(uint64(len(x.Xs)))
			}
		}
		return true
	}}
}

func init() {
	bodyMuts = append(bodyMuts,
		byronPayloadMut(0, "byron-tx-payload-substituted"),
		byronPayloadMut(1, "byron-ssc-payload-substituted"),
		byronPayloadMut(2, "byron-dlg-payload-substituted"),
		byronPayloadMut(3, "byron-upd-payload-substituted"),
		// every era: one top-level body component (segment / Dijkstra body part) re-framed or widened
		mut{"component-root-changed", func(r *vh.Rng, t uint, it *vh.Item) bool {
			roots := bodyRoot(t, it)
			if t == 8 && len(roots) == 1 && roots[0].K == vh.KArr {
				roots = roots[0].Xs
			}
			var c []*vh.Item
			for _, x := range roots {
				if x.K == vh.KArr || x.K == vh.KMap {
					c = append(c, x)
				}
			}
			if len(c) == 0 {
				return false
			}
			x := c[r.Intn(len(c))]
			n := uint64(len(x.Xs))
			if x.K == vh.KMap {
				n /= 2
			}
			if x.F == vh.Findef {
				x.F = vh.MinForm(n)
			} else if r.Bool() || x.F == vh.F8 {
				x.F = vh.Findef
			} else {
				x.F = x.F + 1
			}
			return true
		}},
	)
}

var headerMuts = []mut{
	{"header-hash-flip", func(r *vh.Rng, t uint, it *vh.Item) bool {
		x := pick(r, nodes([]*vh.Item{untag(it).Xs[0]}), func(x *vh.Item) bool { return x.K == vh.KBStr && len(x.Bs) == 32 })
		if x == nil {
			return false
		}
		x.Bs = append([]byte(nil), x.Bs...)
		x.Bs[r.Intn(32)] ^= 0x40
		return true
	}},
	{"header-hash-length", func(r *vh.Rng, t uint, it *vh.Item) bool {
		x := pick(r, nodes([]*vh.Item{untag(it).Xs[0]}), func(x *vh.Item) bool { return x.K == vh.KBStr && len(x.Bs) == 32 })
		if x == nil {
			return false
		}
		if r.Bool() {
			x.Bs = append(append([]byte(nil), x.Bs...), 0)
		} else {
			x.Bs = append([]byte(nil), x.Bs[:31]...)
		}
		x.F = vh.F1
		return true
	}},
	{"header-hash-chunked", func(r *vh.Rng, t uint, it *vh.Item) bool {
		x := pick(r, nodes([]*vh.Item{untag(it).Xs[0]}), func(x *vh.Item) bool { return x.K == vh.KBStr && len(x.Bs) == 32 })
		if x == nil {
			return false
		}
		x.K, x.Chunks, x.Bs = vh.KBStrI, []vh.Chunk{{F: vh.Fimm, Bs: x.Bs[:10]}, {F: vh.F1, Bs: x.Bs[10:]}}, nil
		return true
	}},
	{"header-reform", func(r *vh.Rng, t uint, it *vh.Item) bool {
		top := untag(it)
		top.Xs[0] = vh.Reform(r, top.Xs[0], vh.ReformOpts{Ints: true, Strings: true, Containers: true, Indef: r.Bool(), Prob: 40})
		return true
	}},
}

var frameMuts = []mut{
	{"outer-indefinite", func(r *vh.Rng, t uint, it *vh.Item) bool { untag(it).F = vh.Findef; return true }},
	{"outer-wide", func(r *vh.Rng, t uint, it *vh.Item) bool { untag(it).F = vh.F1 + vh.Form(r.Intn(4)); return true }},
	{"outer-extra-element", func(r *vh.Rng, t uint, it *vh.Item) bool {
		top := untag(it)
		top.Xs = append(append([]*vh.Item{}, top.Xs...), top.Xs[len(top.Xs)-1].Clone())
		if top.F != vh.Findef {
			top.F = vh.MinForm(uint64(len(top.Xs)))
		}
		return true
	}},
	{"outer-drop-last", func(r *vh.Rng, t uint, it *vh.Item) bool {
		top := untag(it)
		top.Xs = top.Xs[:len(top.Xs)-1]
		if top.F != vh.Findef {
			top.F = vh.MinForm(uint64(len(top.Xs)))
		}
		return true
	}},
}

// ---------------------------------------------------------------------------

type replayT struct {
	Replay bcase `json:"replay"`
}

func run(c *vh.Ctx) error {
	c.Res.Rule = "per era (Byron main, synthetic Byron EBB, Shelley..Conway, Dijkstra): the real fixture; valid reduced variants (subset of the transactions kept, segments re-encoded, header body hash recomputed - the header signature is not checked at decode time); on each of those: body mutations that keep the CBOR well-formed (flip a bit in a byte string, change an integer, widen a header, definite<->indefinite container, swap / drop / append an array child, drop a witness or aux-data entry, alter the invalid-transaction list, extra element in a Byron transaction), header-side mutations (hash flipped, 31/33 bytes, chunked, header re-encoded), framing mutations (indefinite / wide outer array, extra / missing element, trailing bytes, tag). distinct by block bytes; non-trivial = not an unmodified fixture"
	c.Res.Modelled = []string{
		"Blake2b-256 is a Section variable in the theorems; in the correspondence the model returns (header value, preimage term) pairs and the harness evaluates the terms with golang.org/x/crypto/blake2b",
		"everything the era decoders check besides the body binding (field types, transactions, Byron ssc_proof shape) is the boolean struct_ok: a Section variable in the theorems, the observed outcome of decoding with SkipBodyHashValidation (plus ValidateSscProofShape for Byron) in the correspondence",
		"fxamacker's decoder = Lib.CborParse.parse_full (first item, trailing bytes ignored)",
	}
	cf := c.NewCaseFile("c34", header)
	cf.Func = "model_outs"
	cf.SetShardSize(c.Pick(60, 120))
	s := &state{c: c, cf: cf, seen: map[string]string{}, how: map[string]string{}}
	if c.Replay != "" {
		b, err := os.ReadFile(c.Replay)
		if err != nil {
			return err
		}
		var rp replayT
		if err := json.Unmarshal(b, &rp); err != nil {
			return err
		}
		if base := rp.Replay.BaseHeader; base != "" {
			_ = base
		}
		s.runCase(rp.Replay, true)
		cf.Flush()
		return nil
	}
	r := c.Rng
	idxOf := map[uint]int{}
	for _, f := range fixtures {
		raw, err := load(f)
		if err != nil {
			return err
		}
		orig, _, err := vh.ParseItem(raw)
		if err != nil {
			return err
		}
		// locate the body hash field (as the translator does)
		if f.typ >= 2 {
			if blk, err := decode(f.typ, raw, true); err == nil {
				for i, x := range orig.Xs[0].Xs[0].Xs {
					if x.K == vh.KBStr && bytes.Equal(x.Bs, blk.BlockBodyHash().Bytes()) {
						idxOf[f.typ] = i
					}
				}
			}
		}
		s.runCase(bcase{Era: f.name, Type: f.typ, Mutation: "original", Block: vh.Hex(raw)}, true)
		s.runCase(bcase{Era: f.name, Type: f.typ, Mutation: "frame:trailing-bytes", Block: vh.Hex(append(append([]byte{}, raw...), r.Bytes(1+r.Intn(4))...))}, false)
		s.runCase(bcase{Era: f.name, Type: f.typ, Mutation: "frame:tagged", Block: vh.Hex(append([]byte{0xd8, 0x18}, raw...))}, false)
		// bases: the original plus reduced valid variants
		bases := []*vh.Item{orig}
		names := []string{"orig"}
		for k := 0; k < c.Pick(2, 5); k++ {
			v := orig.Clone()
			switch {
			case f.typ >= 2 && f.typ <= 7:
				ntx := len(v.Xs[1].Xs)
				var keep []int
				for i := 0; i < ntx && len(keep) < 1+k; i++ {
					if r.Chance(1, 2) || ntx-i <= 1+k-len(keep) {
						keep = append(keep, i)
					}
				}
				if k == 0 {
					keep = nil
				}
				if !keepTxs(f.typ, v, keep) {
					continue
				}
				if r.Chance(1, 3) {
					for i := 1; i < len(v.Xs); i++ {
						v.Xs[i] = vh.Reform(r, v.Xs[i], vh.ReformOpts{Ints: true, Containers: true, Indef: true, Prob: 25, MaxDepth: 2})
					}
				}
			case f.typ == 8:
				body := v.Xs[1]
				if k == 0 && body.Xs[1].K == vh.KArr {
					body.Xs[1].Xs = nil
					if body.Xs[1].F != vh.Findef {
						body.Xs[1].F = vh.Fimm
					}
					body.Xs[0] = vh.Null()
				} else {
					v.Xs[1] = vh.Reform(r, body, vh.ReformOpts{Ints: true, Containers: true, Prob: 20, MaxDepth: 2})
				}
			case f.typ == 1:
				body := untag(v.Xs[1])
				txs := untag(body.Xs[0])
				if len(txs.Xs) == 0 {
					continue
				}
				nkeep := 1 + k%len(txs.Xs)
				start := r.Intn(len(txs.Xs) - nkeep + 1)
				txs.Xs = append([]*vh.Item{}, txs.Xs[start:start+nkeep]...)
				if txs.F != vh.Findef {
					txs.F = vh.MinForm(uint64(nkeep))
				}
				var bodies [][]byte
				wl := []byte{0x9f}
				for _, tx := range txs.Xs {
					bodies = append(bodies, untag(tx).Xs[0].Enc())
					wl = append(wl, untag(tx).Xs[1].Enc()...)
				}
				wl = append(wl, 0xff)
				txp := untag(v.Xs[0]).Xs[2].Xs[0]
				txp.Xs[0] = vh.U(uint64(nkeep))
				txp.Xs[1] = &vh.Item{K: vh.KBStr, F: vh.F1, Bs: refRoot(bodies)}
				txp.Xs[2] = &vh.Item{K: vh.KBStr, F: vh.F1, Bs: h256(wl)}
			default:
				continue
			}
			rehash(f.typ, idxOf[f.typ], v)
			bases = append(bases, v)
			names = append(names, fmt.Sprintf("reduced%d", k))
		}
		for bi, base := range bases {
			small := len(base.Enc()) < 2600
			if bi > 0 {
				s.runCase(bcase{Era: f.name, Type: f.typ, Mutation: "valid-variant#" + names[bi], Block: vh.Hex(base.Enc())}, small)
			}
			per := c.Pick(1, 6)
			if small {
				per = c.Pick(3, 10)
			}
			for _, group := range []struct {
				pfx  string
				muts []mut
			}{{"body:", bodyMuts}, {"header:", headerMuts}, {"frame:", frameMuts}} {
				for _, m := range group.muts {
					n := per
					if group.pfx != "body:" {
						n = 1 + per/4
					}
					for k := 0; k < n; k++ {
						v := base.Clone()
						if !m.f(r, f.typ, v) {
							break
						}
						nb := v.Enc()
						if bytes.Equal(nb, base.Enc()) {
							continue
						}
						// big literals are expensive in Coq: send the small ones, and a sample of the big ones
						toCoq := (small && (c.Thorough() || k < 2)) || (k == 0 && r.Chance(1, c.Pick(12, 4)))
						s.runCase(bcase{Era: f.name, Type: f.typ, Mutation: group.pfx + m.name + "#" + names[bi], Block: vh.Hex(nb)}, toCoq)
					}
				}
			}
		}
	}
	// synthetic epoch boundary blocks
	for k := 0; k < c.Pick(4, 25); k++ {
		base := ebbItem(r, r.Intn(4))
		s.runCase(bcase{Era: "byron-ebb", Type: 0, Mutation: "valid-variant#ebb", Block: vh.Hex(base.Enc())}, true)
		for _, m := range append(append([]mut{}, bodyMuts[:7]...), append(headerMuts, frameMuts...)...) {
			v := base.Clone()
			if !m.f(r, 0, v) || bytes.Equal(v.Enc(), base.Enc()) {
				continue
			}
			s.runCase(bcase{Era: "byron-ebb", Type: 0, Mutation: "ebb:" + m.name + "#ebb", Block: vh.Hex(v.Enc())}, true)
		}
	}
	cf.Flush()
	return nil
}

// post: evaluate the model's comparisons and compare the predicted decision
// (struct_ok && all comparisons hold) with what NewBlockFromCbor did
func post(c *vh.Ctx) error {
	for _, fn := range c.Res.CaseFiles {
		out, err := os.ReadFile(filepath.Join(c.Out, fn+".out"))
		if err != nil {
			c.Res.Violate("correspondence", "coqc-failed:"+fn, "no coqc output", nil)
			continue
		}
		terms, err := vh.ParseStringList(out)
		if err != nil {
			c.Res.Violate("correspondence", "coqc-failed:"+fn, err.Error(), nil)
			continue
		}
		for i, t := range terms {
			var bc bcase
			b, _ := json.Marshal(c.Res.CaseIndex[fmt.Sprintf("%s#%d", fn, i)])
			json.Unmarshal(b, &bc)
			holds := false
			first := ""
			if strings.HasPrefix(t, "C") {
				holds = true
				for k, part := range strings.Split(strings.TrimSuffix(t[1:], "|"), "|") {
					kv := strings.SplitN(part, "=", 2)
					if len(kv) != 2 {
						holds = false
						continue
					}
					if k == 0 {
						first = kv[0]
					}
					d, err := vh.EvalHTerm(kv[1])
					if err != nil {
						c.Res.Violate("correspondence", "bad-term", err.Error(), bc)
						holds = false
					} else if vh.Hex(d) != kv[0] {
						holds = false
					}
				}
			} else if t != "R" {
				c.Res.Violate("correspondence", "model-no-row", "model has no table row for block type", bc)
				continue
			}
			predicted := bc.StructOK && holds
			if predicted != bc.Accepted {
				c.Res.Violate("correspondence", "model-vs-impl", fmt.Sprintf("model predicts accept=%v (struct_ok=%v, comparisons hold=%v), NewBlockFromCbor accept=%v [%s %s]", predicted, bc.StructOK, holds, bc.Accepted, bc.Era, bc.Mutation), bc)
			}
			// the comparisons do not depend on the other flags: with validation
			// enabled the same set must hold, with the skip flag none
			for _, o := range bc.Cfgs {
				p := o.StructOK && (o.Skip || holds)
				if p != o.Accepted {
					c.Res.Violate("correspondence", "model-vs-impl:cfg="+o.Name, fmt.Sprintf("config %s: model predicts accept=%v (struct_ok=%v, skip=%v, comparisons hold=%v), NewBlockFromCbor accept=%v [%s %s]", o.Name, p, o.StructOK, o.Skip, holds, o.Accepted, bc.Era, bc.Mutation), bc)
				}
			}
			if bc.StructOK && bc.Type >= 2 && strings.HasPrefix(t, "C") && first != bc.HdrHash {
				c.Res.Violate("correspondence", "model-vs-impl-header-hash", fmt.Sprintf("model reads body hash %s from the header, BlockBodyHash() is %s", first, bc.HdrHash), bc)
			}
		}
		c.Res.TracesValidated += len(terms)
	}
	return nil
}

func main() { vh.Main(vh.Runner{Property: "C34", Gen: gen, Run: run, Post: post}) }
