package main

// Long-history class: one process accepts N distinct (key, period, message,
// signature) tuples through VerifySignedKES / VerifyKesComponents (N far above
// any plausible cache size), then asks again about the early ones: the genuine
// tuple must still be accepted, and the same signature with another message,
// period or key must still be rejected.  Expected = the stateless reference
// verifier (= the Coq model's `verify`, a pure function).

import (
	"encoding/binary"
	"fmt"

	"github.com/blinklabs-io/gouroboros/kes"
	"github.com/blinklabs-io/gouroboros/ledger"

	"verifharness/vh"
)

func (m *mon) longHistory(n int, tag uint64) {
	c := m.c
	rp := replayC39{Kind: "long-history", Depth: 6, Long: n, Tag: tag, Note: fmt.Sprintf("long history over %d distinct accepted signatures", n)}
	c.Begin(rp)
	if p, v := vh.Recover(func() { m.longHistory1(n, tag, rp) }); p {
		m.bad("panic", fmt.Sprintf("kes panicked: %v", v), rp)
	}
}

func (m *mon) longHistory1(n int, tag uint64, rp replayC39) {
	c := m.c
	type ent struct {
		pk, msg, sig []byte
		t            uint64
	}
	var es []ent
	for k := 0; len(es) < n; k++ {
		seed := make([]byte, 32)
		copy(seed, "verif-c39-long-history")
		binary.LittleEndian.PutUint32(seed[22:26], uint32(k))
		binary.LittleEndian.PutUint16(seed[26:28], uint16(tag))
		sk, pk, err := kes.KeyGen(6, seed)
		if err != nil {
			m.bad("keygen-error", err.Error(), rp)
			return
		}
		pk = append([]byte(nil), pk...)
		for t := uint64(0); t < 64 && len(es) < n; t++ {
			for v := 0; v < 2 && len(es) < n; v++ {
				msg := []byte(fmt.Sprintf("header body %d/%d/%d", k, t, v))
				sig, err := kes.Sign(sk, t, msg)
				if err != nil {
					m.bad("sign-own-period-error", err.Error(), rp)
					return
				}
				e := ent{pk, msg, append([]byte(nil), sig...), t}
				// first pass: the wrong message first on odd entries, then the genuine one, then wrong again
				if len(es)%2 == 1 && kes.VerifySignedKES(pk, t, append([]byte("x"), msg...), e.sig) {
					m.bad("accept-other-message", "VerifySignedKES accepted another message (first pass)", rp)
				}
				if !kes.VerifySignedKES(pk, t, msg, e.sig) {
					m.bad("long-history-genuine-rejected-first-pass", fmt.Sprintf("entry #%d: genuine signature rejected", len(es)), rp)
					return
				}
				if kes.VerifySignedKES(pk, t, []byte{}, e.sig) {
					m.bad("accepted-after-genuine-other-message-empty", fmt.Sprintf("entry #%d: VerifySignedKES accepts the empty message right after the genuine one was accepted", len(es)), rp)
				}
				es = append(es, e)
				c.Res.Evaluations++
			}
			if t < 63 {
				if sk, err = kes.Update(sk); err != nil {
					m.bad("update-error", err.Error(), rp)
					return
				}
			}
		}
	}
	c.Res.Count(fmt.Sprintf("long/%d/%d", n, tag), true, "long-history")
	idx := []int{}
	for i := 0; i < 64 && i < n; i++ {
		idx = append(idx, i)
	}
	for k := 0; k < 64; k++ {
		idx = append(idx, c.Rng.Intn(n))
	}
	for i := n - 8; i < n; i++ {
		if i >= 0 {
			idx = append(idx, i)
		}
	}
	type q struct {
		what   string
		pk     []byte
		period uint64
		msg    []byte
		sig    []byte
	}
	for _, i := range idx {
		e := es[i]
		other := es[(i+129)%n] // another key (129 entries later: a different KES key or period)
		qs := []q{
			{"genuine", e.pk, e.t, e.msg, e.sig},
			{"other-message-empty", e.pk, e.t, []byte{}, e.sig},
			{"other-message-bit-flipped", e.pk, e.t, flipBit(e.msg, i%(len(e.msg)*8)), e.sig},
			{"other-message-longer", e.pk, e.t, append(append([]byte(nil), e.msg...), 0), e.sig},
			{"other-period", e.pk, (e.t + 1) % 64, e.msg, e.sig},
			{"other-key", other.pk, e.t, e.msg, e.sig},
			{"signature-of-another-entry", e.pk, e.t, e.msg, other.sig},
		}
		for _, x := range qs {
			want := refVerify(6, x.pk, x.period, x.msg, x.sig)
			got := kes.VerifySignedKES(x.pk, x.period, x.msg, x.sig)
			got2, _ := ledger.VerifyKesComponents(x.msg, x.sig, x.pk, 2, (2+x.period)*50+3, 50)
			for name, g := range map[string]bool{"VerifySignedKES": got, "VerifyKesComponents": got2} {
				if g == want {
					continue
				}
				key := "long-history-genuine-rejected-after-many-signatures"
				if g {
					key = "long-history-accepted-" + x.what
				}
				m.bad(key, fmt.Sprintf("%s on entry #%d (%s) after %d distinct accepted signatures: %v, stateless reference: %v", name, i, x.what, n, g, want), rp)
			}
			c.Res.Evaluations++
		}
	}
}
