package main

// Independent reference of the MMM sum composition over Ed25519 as used by
// Cardano (Cardano.Crypto.KES.Sum: vk = H(vk0 || vk1); seeds r0 = H(1 || r),
// r1 = H(2 || r); sig = (sigma, vk0, vk1); the secret key keeps the seed of
// the right subtree until it is entered).  Written level by level over a
// heap-indexed tree, not recursively over byte buffers like the code under
// test.

import (
	"bytes"
	"crypto/ed25519"

	"golang.org/x/crypto/blake2b"
)

func refExpand(seed []byte, sep byte) []byte {
	h := blake2b.Sum256(append([]byte{sep}, seed...))
	return h[:]
}

func refEdPk(seed []byte) []byte {
	return []byte(ed25519.NewKeyFromSeed(seed).Public().(ed25519.PublicKey))
}

func refPk(d int, seed []byte) []byte {
	return buildRefTree(d, seed).pk(d, 0)
}

func refLeafSeed(d int, seed []byte, t uint64) []byte {
	return buildRefTree(d, seed).seeds[0][t]
}

// refTree: seeds[k][i] / pks[k][i] belong to the node of height k that
// covers periods [i*2^k, (i+1)*2^k)
type refTree struct {
	d     int
	seeds [][][]byte
	pks   [][][]byte
}

var treeCache = map[string]*refTree{}

func buildRefTree(d int, seed []byte) *refTree {
	key := string(rune(d)) + string(seed)
	if t, ok := treeCache[key]; ok {
		return t
	}
	t := &refTree{d: d, seeds: make([][][]byte, d+1), pks: make([][][]byte, d+1)}
	t.seeds[d] = [][]byte{append([]byte(nil), seed...)}
	for k := d; k > 0; k-- {
		t.seeds[k-1] = make([][]byte, 2*len(t.seeds[k]))
		for i, s := range t.seeds[k] {
			t.seeds[k-1][2*i] = refExpand(s, 1)
			t.seeds[k-1][2*i+1] = refExpand(s, 2)
		}
	}
	t.pks[0] = make([][]byte, len(t.seeds[0]))
	for i, s := range t.seeds[0] {
		t.pks[0][i] = refEdPk(s)
	}
	for k := 1; k <= d; k++ {
		t.pks[k] = make([][]byte, len(t.seeds[k]))
		for i := range t.pks[k] {
			h := blake2b.Sum256(append(append([]byte(nil), t.pks[k-1][2*i]...), t.pks[k-1][2*i+1]...))
			t.pks[k][i] = h[:]
		}
	}
	if len(treeCache) > 64 {
		treeCache = map[string]*refTree{}
	}
	treeCache[key] = t
	return t
}

func (t *refTree) pk(k, i int) []byte { return t.pks[k][i] }

// keyAt: the secret key bytes after p evolutions
func (t *refTree) keyAt(p int) []byte {
	out := append([]byte(nil), t.seeds[0][p]...)
	for j := 1; j <= t.d; j++ {
		idx := p >> uint(j)
		if (p>>uint(j-1))&1 == 0 {
			out = append(out, t.seeds[j-1][2*idx+1]...)
		} else {
			out = append(out, make([]byte, 32)...)
		}
		out = append(out, t.pks[j-1][2*idx]...)
		out = append(out, t.pks[j-1][2*idx+1]...)
	}
	return out
}

func (t *refTree) sigAt(p int, msg []byte) []byte {
	out := ed25519.Sign(ed25519.NewKeyFromSeed(t.seeds[0][p]), msg)
	for j := 1; j <= t.d; j++ {
		idx := p >> uint(j)
		out = append(out, t.pks[j-1][2*idx]...)
		out = append(out, t.pks[j-1][2*idx+1]...)
	}
	return out
}

type refNode struct {
	height int
	lo     int
	seed   []byte
}

// nodesCoveringBefore: every node whose subtree contains a period < p (its
// seed derives the signing key of a past period)
func (t *refTree) nodesCoveringBefore(p int) []refNode {
	var out []refNode
	for k := 0; k <= t.d; k++ {
		for i, s := range t.seeds[k] {
			if i<<uint(k) < p {
				out = append(out, refNode{k, i << uint(k), s})
			}
		}
	}
	return out
}

func refVerify(d int, pk []byte, p uint64, msg, sig []byte) bool {
	if d < 1 || len(sig) != 64+64*d || p >= uint64(1)<<uint(d) {
		return false
	}
	cur := pk
	for j := d; j >= 1; j-- {
		off := 64 + 64*(j-1)
		l, r := sig[off:off+32], sig[off+32:off+64]
		h := blake2b.Sum256(sig[off : off+64])
		if !bytes.Equal(h[:], cur) {
			return false
		}
		if (p>>uint(j-1))&1 == 1 {
			cur = r
		} else {
			cur = l
		}
	}
	return ed25519.Verify(cur, msg, sig[:64])
}
