// C39 - KES signatures are forward-secure and period-bound.
//
// gen:  constants of kes.go / sign.go -> coq/C39/Gen.v
// run:  (a) monitor: the property itself on the real kes package, against an
//
//	independent reference of the MMM sum composition (ref.go);
//	(b) correspondence histories: KeyGen, then PublicKey / Data / Sign /
//	Update / Verify calls whose rendered results the Coq model must
//	reproduce byte for byte.  Blake2b-256 and Ed25519 enter the model
//	as oracle tables (preimage -> digest, seed -> pk, (seed,msg) -> sig,
//	(pk,msg,sig) -> bool) computed here with x/crypto and crypto/ed25519.
package main

import (
	"bytes"
	"crypto/ed25519"
	"encoding/json"
	"fmt"
	"os"
	"path/filepath"
	"sort"
	"strings"

	"github.com/blinklabs-io/gouroboros/kes"
	"github.com/blinklabs-io/gouroboros/ledger"
	"golang.org/x/crypto/blake2b"

	"verifharness/vh"
)

// ---------------------------------------------------------------------------
// translator

func gen(out string) error {
	type kv struct {
		k string
		v uint64
	}
	cs := []kv{
		{"SigmaSize", kes.SigmaSize}, {"PublicKeySize", kes.PublicKeySize},
		{"Sum0KesSigSize", kes.Sum0KesSigSize}, {"CardanoKesDepth", kes.CardanoKesDepth},
		{"CardanoKesSignatureSize", kes.CardanoKesSignatureSize},
		{"CardanoKesSecretKeySize", kes.CardanoKesSecretKeySize}, {"SeedSize", kes.SeedSize},
		{"SignatureSize(6)", uint64(kes.SignatureSize(6))}, {"SignatureSize(1)", uint64(kes.SignatureSize(1))},
		{"MaxPeriod(6)", kes.MaxPeriod(6)},
	}
	var sb strings.Builder
	sb.WriteString("(* written by harness/cmd/c39 gen *)\nFrom Coq Require Import String.\nFrom V Require Import Lib.Base.\nOpen Scope string_scope.\nDefinition gen_consts : list (string * N) :=\n  [")
	for i, c := range cs {
		if i > 0 {
			sb.WriteString(";\n   ")
		}
		fmt.Fprintf(&sb, "(%s, %s)", vh.Str(c.k), vh.N(c.v))
	}
	sb.WriteString("].\n")
	if out == "" {
		fmt.Print(sb.String())
		return nil
	}
	return vh.WriteIfChanged(out, sb.String())
}

// ---------------------------------------------------------------------------
// oracle tables for the Coq model

type tables struct {
	hash   map[string]string // preimage hex -> digest hex
	pk     map[string]string // seed hex -> pk hex
	sign   map[string]string // seed hex + "/" + msg hex -> sig hex
	verify map[string]bool   // pk/msg/sig hex -> result
}

func newTables() *tables {
	return &tables{map[string]string{}, map[string]string{}, map[string]string{}, map[string]bool{}}
}

func (t *tables) addHash(pre []byte) {
	h := blake2b.Sum256(pre)
	t.hash[vh.Hex(pre)] = vh.Hex(h[:])
}

// addTree records every primitive call of the seed tree of the given height
func (t *tables) addTree(d int, seed []byte) {
	if d == 0 {
		t.pk[vh.Hex(seed)] = vh.Hex(refEdPk(seed))
		return
	}
	l, r := refExpand(seed, 1), refExpand(seed, 2)
	t.addHash(append([]byte{1}, seed...))
	t.addHash(append([]byte{2}, seed...))
	t.addTree(d-1, l)
	t.addTree(d-1, r)
	t.addHash(append(refPk(d-1, l), refPk(d-1, r)...))
}

func (t *tables) addSign(seed, msg []byte) {
	t.sign[vh.Hex(seed)+"/"+vh.Hex(msg)] = vh.Hex(ed25519.Sign(ed25519.NewKeyFromSeed(seed), msg))
}

// addVerifyQueries records what a run of Verify on (msg, sig) can ask: the
// pair hash of every level and the Ed25519 check under either leaf key
func (t *tables) addVerifyQueries(d int, msg, sig []byte) {
	if d < 1 || len(sig) != 64+64*d {
		return
	}
	for j := d; j >= 1; j-- {
		n := 64 + 64*(j-1)
		t.addHash(sig[n : n+64])
	}
	for _, pk := range [][]byte{sig[64:96], sig[96:128]} {
		t.verify[vh.Hex(pk)+"/"+vh.Hex(msg)+"/"+vh.Hex(sig[:64])] = ed25519.Verify(pk, msg, sig[:64])
	}
}

// coq renders the tables as one Definition per entry (a single big literal
// is parsed in quadratic time)
func (t *tables) coq() string {
	var sb strings.Builder
	emit := func(prefix, typ string, rows []string) {
		names := make([]string, len(rows))
		for i, r := range rows {
			names[i] = fmt.Sprintf("%s%d", prefix, i)
			fmt.Fprintf(&sb, "Definition %s : %s := %s.\n", names[i], typ, r)
		}
		fmt.Fprintf(&sb, "Definition %s_all : list (%s) := [%s].\n", prefix, typ, strings.Join(names, "; "))
	}
	var rows []string
	for _, k := range vh.SortedKeys(t.hash) {
		rows = append(rows, fmt.Sprintf("(%s, %s)", vh.Bytes(vh.UnHex(k)), vh.Bytes(vh.UnHex(t.hash[k]))))
	}
	emit("th", "bytes * bytes", rows)
	rows = nil
	for _, k := range vh.SortedKeys(t.pk) {
		rows = append(rows, fmt.Sprintf("(%s, %s)", vh.Bytes(vh.UnHex(k)), vh.Bytes(vh.UnHex(t.pk[k]))))
	}
	emit("tp", "bytes * bytes", rows)
	rows = nil
	for _, k := range vh.SortedKeys(t.sign) {
		p := strings.Split(k, "/")
		rows = append(rows, fmt.Sprintf("(%s, %s, %s)", vh.Bytes(vh.UnHex(p[0])), vh.Bytes(vh.UnHex(p[1])), vh.Bytes(vh.UnHex(t.sign[k]))))
	}
	emit("ts", "bytes * bytes * bytes", rows)
	rows = nil
	for _, k := range vh.SortedKeys(t.verify) {
		p := strings.Split(k, "/")
		rows = append(rows, fmt.Sprintf("(%s, %s, %s, %s)", vh.Bytes(vh.UnHex(p[0])), vh.Bytes(vh.UnHex(p[1])), vh.Bytes(vh.UnHex(p[2])), vh.Bool(t.verify[k])))
	}
	emit("tv", "bytes * bytes * bytes * bool", rows)
	sb.WriteString("Definition T := mk_tables th_all tp_all ts_all tv_all.\n")
	return sb.String()
}

// ---------------------------------------------------------------------------
// one correspondence history

type hist struct {
	depth int
	seed  []byte
	tb    *tables
	ops   []string // Coq op terms
	outs  []string // rendered results of the real calls
	descr []string // human-readable op descriptions
	sk    *kes.SecretKey
	spent *kes.SecretKey
	last  *lastSig
	held  [][]byte // the slices returned by successful Sign calls, kept (not copied)
}

type lastSig struct {
	period uint64
	msg    []byte
	sig    []byte
}

type replayC39 struct {
	Kind  string `json:"kind"`
	Depth int    `json:"depth"`
	Seed  string `json:"seed"`
	Msg   string `json:"msg,omitempty"`
	Note  string `json:"note,omitempty"`
	Long  int    `json:"long,omitempty"` // long-history case: number of distinct accepted signatures
	Tag   uint64 `json:"tag,omitempty"`
}

func renderOpt(b []byte, err error) string {
	if err != nil {
		return "err"
	}
	return "ok:" + vh.Hex(b)
}

func (h *hist) add(op, descr, out string) {
	h.ops = append(h.ops, op)
	h.descr = append(h.descr, descr)
	h.outs = append(h.outs, out)
}

func optN(i int) string {
	if i < 0 {
		return "None"
	}
	return "(Some " + vh.N(uint64(i)) + ")"
}

func flipBit(b []byte, i int) []byte {
	c := append([]byte(nil), b...)
	if i >= 0 && i/8 < len(c) {
		c[i/8] ^= 1 << uint(i%8)
	}
	return c
}

func verifyAtDepth(d int, pk []byte, period uint64, msg, sig []byte) bool {
	p, err := kes.NewSumKesFromBytes(uint64(d), sig)
	if err != nil {
		return false
	}
	return p.Verify(period, pk, msg)
}

func (h *hist) opPublicKey() {
	h.add("OpPublicKey", "PublicKey", vh.Hex(kes.PublicKey(h.sk)))
}

func (h *hist) opPublicKeyNoCache() {
	cp := &kes.SecretKey{Depth: h.sk.Depth, Period: h.sk.Period, Data: h.sk.Data}
	var out string
	if p, v := vh.Recover(func() { out = vh.Hex(kes.PublicKey(cp)) }); p {
		out = fmt.Sprintf("panic:%v", v)
	}
	h.add("OpPublicKeyNoCache", "PublicKey(no cache)", out)
}

func (h *hist) opData() {
	out := fmt.Sprintf("%d:", h.sk.Period)
	if h.sk.Data == nil {
		out += "err"
	} else {
		out += "ok:" + vh.Hex(h.sk.Data)
	}
	h.add("OpData", "Period/Data", out)
}

func (h *hist) opSign(period uint64, msg []byte) {
	sig, err := kes.Sign(h.sk, period, msg)
	if err == nil {
		// last: a private copy (what the caller saw at the time); held: the returned slice itself
		h.last = &lastSig{period, msg, append([]byte(nil), sig...)}
		h.held = append(h.held, sig)
	}
	if period == h.sk.Period && int(period) < 1<<h.depth {
		h.tb.addSign(refLeafSeed(h.depth, h.seed, period), msg)
	}
	h.add(fmt.Sprintf("(OpSign %s %s)", vh.N(period), vh.Bytes(msg)), fmt.Sprintf("Sign(period=%d)", period), renderOpt(sig, err))
}

func (h *hist) opSignSpent(period uint64, msg []byte) {
	out := "nospent"
	if h.spent != nil {
		sig, err := kes.Sign(h.spent, period, msg)
		out = renderOpt(sig, err)
	}
	h.add(fmt.Sprintf("(OpSignSpent %s %s)", vh.N(period), vh.Bytes(msg)), fmt.Sprintf("Sign(spent key, period=%d)", period), out)
}

// opHeld reports what the slice returned by the i-th successful Sign holds now
func (h *hist) opHeld(i int) {
	out := "nosig"
	if i < len(h.held) {
		out = vh.Hex(h.held[i])
	}
	h.add(fmt.Sprintf("(OpHeldSig %s)", vh.Nat(i)), fmt.Sprintf("HeldSignature(#%d, re-read later)", i), out)
}

func (h *hist) opUpdate() {
	old := h.sk
	nk, err := kes.Update(h.sk)
	out := "err"
	if err == nil {
		h.sk, h.spent = nk, old
		out = "ok"
	}
	h.add("OpUpdate", "Update", out)
}

func (h *hist) opVerify(d int, pk []byte, period uint64, msg, sig []byte, why string) {
	h.tb.addVerifyQueries(d, msg, sig)
	h.add(fmt.Sprintf("(OpVerify %s %s %s %s %s)", vh.Nat(d), vh.Bytes(pk), vh.N(period), vh.Bytes(msg), vh.Bytes(sig)),
		"Verify("+why+")", vh.Bool(verifyAtDepth(d, pk, period, msg, sig)))
}

// opVerifyLast verifies the last signature with the period shifted by dp and
// single bits of signature / message / public key flipped (index < 0: none)
func (h *hist) opVerifyLast(dp int, fs, fm, fp int) {
	if h.last == nil {
		h.add(fmt.Sprintf("(OpVerifyLast %s %s %s %s)", vh.Z(int64(dp)), optN(fs), optN(fm), optN(fp)), "VerifyLast", "nolast")
		return
	}
	p := int64(h.last.period) + int64(dp)
	if p < 0 {
		p = 0
	}
	sig, msg, pk := flipBit(h.last.sig, fs), flipBit(h.last.msg, fm), flipBit(kes.PublicKey(h.sk), fp)
	h.tb.addVerifyQueries(h.depth, msg, sig)
	h.add(fmt.Sprintf("(OpVerifyLast %s %s %s %s)", vh.Z(int64(dp)), optN(fs), optN(fm), optN(fp)),
		fmt.Sprintf("VerifyLast(dperiod=%d flipsig=%d flipmsg=%d flippk=%d)", dp, fs, fm, fp),
		vh.Bool(verifyAtDepth(h.depth, pk, uint64(p), msg, sig)))
}

func (h *hist) opComponents(body, sig, hot []byte, kp, slot, spkp uint64, why string) {
	h.tb.addVerifyQueries(6, body, sig)
	ok, err := ledger.VerifyKesComponents(body, sig, hot, kp, slot, spkp)
	out := vh.Bool(ok)
	if err != nil {
		out = "err"
	}
	h.add(fmt.Sprintf("(OpComponents %s %s %s %s %s %s)", vh.Bytes(body), vh.Bytes(sig), vh.Bytes(hot), vh.N(kp), vh.N(slot), vh.N(spkp)),
		"VerifyKesComponents("+why+")", out)
}

// buildHistory drives one key through its whole life; observed lists the
// periods at which everything is observed (all updates are always performed)
func buildHistory(r *vh.Rng, depth int, seed []byte, observed map[int]bool) *hist {
	h := &hist{depth: depth, seed: seed, tb: newTables()}
	h.tb.addTree(depth, seed)
	sk, pk, err := kes.KeyGen(uint64(depth), seed)
	if err != nil {
		h.outs = []string{"keygen-err"}
		return h
	}
	h.sk = sk
	h.outs = []string{"keygen:" + vh.Hex(pk)}
	h.descr = []string{"KeyGen"}
	h.opPublicKey()
	h.opPublicKeyNoCache()
	max := 1 << depth
	for t := 0; t < max; t++ {
		if observed[t] {
			msg := r.Bytes(1 + r.Intn(40))
			if t%5 == 4 {
				msg = nil
			}
			h.opData()
			h.opPublicKey()
			h.opPublicKeyNoCache()
			if t > 0 {
				h.opSign(uint64(t-1), msg) // an earlier period: refused
				h.opSignSpent(uint64(t-1), msg)
				h.opSignSpent(uint64(t), msg)
			}
			h.opSign(uint64(t+1), msg) // a later period: refused (or exceeds the maximum)
			h.opSign(uint64(max), msg)
			h.opSign(uint64(t), append([]byte("first:"), msg...)) // held; overwritten by the next Sign if buffers are shared
			h.opSign(uint64(t), msg)
			if n := len(h.held); n >= 2 {
				h.opHeld(n - 2)
				h.opHeld(r.Intn(n))
			}
			sigBits := (64 + 64*depth) * 8
			h.opVerifyLast(0, -1, -1, -1)
			h.opVerifyLast(1, -1, -1, -1)
			h.opVerifyLast(-1, -1, -1, -1)
			h.opVerifyLast(max-t, -1, -1, -1) // period = 2^depth
			h.opVerifyLast(0, r.Intn(512), -1, -1)
			h.opVerifyLast(0, 512+r.Intn(sigBits-512), -1, -1)
			if len(msg) > 0 {
				h.opVerifyLast(0, -1, r.Intn(len(msg)*8), -1)
			}
			h.opVerifyLast(0, -1, -1, r.Intn(256))
			if depth == 6 && h.last != nil {
				l := h.last
				kp := uint64(r.Intn(1000))
				spkp := uint64(1 + r.Intn(200000))
				slot := (kp+l.period)*spkp + uint64(r.Intn(int(spkp)))
				h.opComponents(l.msg, l.sig, pk, kp, slot, spkp, "genuine")
				h.opComponents([]byte{}, l.sig, pk, kp, slot, spkp, "empty body after the genuine one was accepted")
				h.opComponents(append(append([]byte(nil), l.msg...), 1), l.sig, pk, kp, slot, spkp, "longer body after the genuine one was accepted")
				h.opComponents(l.msg, l.sig, pk, kp, slot, spkp, "genuine again")
				h.opComponents(l.msg, l.sig, pk, kp, slot+spkp, spkp, "one period later")
				if t == 0 {
					h.opComponents(l.msg, l.sig, pk, kp+1, slot, spkp, "certificate starts in the future")
					h.opComponents(l.msg, l.sig, pk, kp, slot, 0, "slotsPerKesPeriod=0")
					h.opComponents(l.msg, l.sig[:447], pk, kp, slot, spkp, "447-byte signature")
				}
			}
			if t == 0 && h.last != nil {
				l := h.last
				h.opVerify(depth, pk, 0, l.msg, l.sig[:len(l.sig)-1], "signature one byte short")
				h.opVerify(depth, pk, 0, l.msg, append(append([]byte(nil), l.sig...), 0), "signature one byte long")
				h.opVerify(0, pk, 0, l.msg, l.sig[:64], "depth 0")
				h.opVerify(depth, pk[:31], 0, l.msg, l.sig, "31-byte public key")
				if depth > 1 {
					h.opVerify(depth-1, l.sig[len(l.sig)-64:len(l.sig)-32], 0, l.msg, l.sig[:len(l.sig)-64], "left subtree as a key of depth-1")
				}
			}
		}
		h.opUpdate()
	}
	h.opData()
	h.opSignSpent(uint64(max-1), []byte{1})
	// every signature ever returned must still be what it was
	stepH := 1
	if len(h.held) > 24 {
		stepH = len(h.held)/24 + 1
	}
	for i := 0; i < len(h.held); i += stepH {
		h.opHeld(i)
	}
	return h
}

func (h *hist) expected() string {
	return strings.Join(h.outs, "|") + "|"
}

const header = `From Coq Require Import String.
From V Require Import Lib.Base Lib.Hex C39.Model.
Open Scope string_scope.
`

func (h *hist) emit(c *vh.Ctx, name string, rp replayC39) {
	cf := c.NewCaseFile(name, header+h.tb.coq())
	cf.Func = "model_outs"
	cf.Add(fmt.Sprintf("(T, %s, %s, %s)", vh.Nat(h.depth), vh.Bytes(h.seed), vh.List(h.ops)),
		map[string]any{"replay": rp, "expected": h.outs, "ops": h.descr})
	cf.Flush()
}

// ---------------------------------------------------------------------------
// monitor

type mon struct {
	c *vh.Ctx
}

func (m *mon) bad(key, what string, rp replayC39) {
	m.c.Res.Violate("monitor", key, what, rp)
}

// monitorSeed checks the property on the real code for one (depth, seed):
// every period; flips: how many signatures get the exhaustive bit-flip pass
func (m *mon) monitorSeed(depth int, seed []byte, msg []byte, exhaustiveAt map[int]bool) {
	rp := replayC39{Kind: "monitor", Depth: depth, Seed: vh.Hex(seed), Msg: vh.Hex(msg)}
	m.c.Begin(rp)
	if p, v := vh.Recover(func() { m.monitorSeed1(depth, seed, msg, exhaustiveAt, rp) }); p {
		m.bad("panic", fmt.Sprintf("kes panicked: %v", v), rp)
	}
}

func (m *mon) monitorSeed1(depth int, seed []byte, msg []byte, exhaustiveAt map[int]bool, rp replayC39) {
	tree := buildRefTree(depth, seed)
	rootPk := tree.pk(depth, 0)
	sk, pk, err := kes.KeyGen(uint64(depth), seed)
	if err != nil {
		m.bad("keygen-error", err.Error(), rp)
		return
	}
	if !bytes.Equal(pk, rootPk) {
		m.bad("pk-not-root", fmt.Sprintf("KeyGen public key %x is not the root %x of the leaf-key tree", pk, rootPk), rp)
	}
	max := 1 << depth
	m.c.Res.Count(fmt.Sprintf("%d/%x", depth, seed), depth >= 2, fmt.Sprintf("depth=%d", depth))
	// values returned by the API are kept (the slices themselves) together with a
	// copy taken at the time; later calls must not change them
	type heldVal struct {
		what   string
		period int
		msg    []byte
		slice  []byte
		snap   []byte
		dead   bool
	}
	var held []heldVal
	hold := func(what string, period int, msg, b []byte) {
		held = append(held, heldVal{what, period, msg, b, append([]byte(nil), b...), false})
	}
	recheck := func(after string, rp2 replayC39, full bool) {
		for i, hv := range held {
			if hv.dead {
				continue
			}
			if !bytes.Equal(hv.slice, hv.snap) {
				m.bad("held-"+hv.what+"-changed-by-later-"+after,
					fmt.Sprintf("the %s returned at period %d was changed by a later %s (first difference at byte %d)", hv.what, hv.period, after, firstDiff(hv.slice, hv.snap)), rp2)
				// report each change once, blamed on the call after which it was first seen
				held[i].dead = true
				continue
			}
			if (full || i >= len(held)-6) && hv.what == "signature" && depth >= 1 && !verifyAtDepth(depth, rootPk, uint64(hv.period), hv.msg, hv.slice) {
				m.bad("held-signature-stops-verifying", fmt.Sprintf("the signature returned at period %d no longer verifies after a later %s", hv.period, after), rp2)
				return
			}
		}
	}
	hold("public-key", 0, nil, pk)
	for t := 0; t < max; t++ {
		note := func(s string) replayC39 { r := rp; r.Note = fmt.Sprintf("period %d: %s", t, s); return r }
		if sk.Period != uint64(t) {
			m.bad("period-counter", fmt.Sprintf("after %d updates Period=%d", t, sk.Period), note(""))
		}
		// public key stable (cached and recomputed)
		if !bytes.Equal(kes.PublicKey(sk), rootPk) {
			m.bad("pk-changed-by-update", fmt.Sprintf("PublicKey after %d updates is %x, was %x", t, kes.PublicKey(sk), rootPk), note(""))
		}
		if depth >= 1 {
			if got := kes.PublicKey(&kes.SecretKey{Depth: sk.Depth, Period: sk.Period, Data: sk.Data}); !bytes.Equal(got, rootPk) {
				m.bad("pk-recomputed-differs", fmt.Sprintf("public key recomputed from the key bytes after %d updates is %x, was %x", t, got, rootPk), note(""))
			}
		}
		// forward security: no seed of a node that covers a period < t is left
		if len(sk.Data) != 32+96*depth {
			m.bad("key-size", fmt.Sprintf("key data has %d bytes", len(sk.Data)), note(""))
		}
		for _, nd := range tree.nodesCoveringBefore(t) {
			if !allZero(nd.seed) && bytes.Contains(sk.Data, nd.seed) {
				m.bad(fmt.Sprintf("past-seed-retained-height-%d", nd.height),
					fmt.Sprintf("after %d updates the key still contains the seed of the height-%d subtree starting at period %d (derives the signing key of period %d)", t, nd.height, nd.lo, nd.lo), note(""))
				break
			}
		}
		if want := tree.keyAt(t); !bytes.Equal(sk.Data, want) {
			m.bad("key-bytes-differ-from-reference", fmt.Sprintf("key bytes after %d updates differ from the reference layout (first difference at byte %d)", t, firstDiff(sk.Data, want)), note(""))
		}
		// signing at other periods is refused
		for u := 0; u <= max; u++ {
			if u == t {
				continue
			}
			if _, err := kes.Sign(sk, uint64(u), msg); err == nil {
				key := "sign-later-period-ok"
				if u < t {
					key = "sign-earlier-period-ok"
				}
				m.bad(key, fmt.Sprintf("key at period %d signed for period %d", t, u), note(""))
				break
			}
		}
		// a first signature that is kept while the key signs again
		msg1 := append([]byte("held:"), msg...)
		dataBefore := append([]byte(nil), sk.Data...)
		if sig1, err := kes.Sign(sk, uint64(t), msg1); err == nil {
			hold("signature", t, msg1, sig1)
		}
		sig, err := kes.Sign(sk, uint64(t), msg)
		if err != nil {
			m.bad("sign-own-period-error", err.Error(), note(""))
		} else {
			hold("signature", t, msg, sig)
			m.checkSig(depth, tree, t, msg, sig, rootPk, exhaustiveAt[t], note)
		}
		if !bytes.Equal(sk.Data, dataBefore) {
			m.bad("sign-modifies-key", fmt.Sprintf("Sign at period %d changed the key bytes", t), note(""))
		}
		hold("public-key", t, nil, kes.PublicKey(sk))
		recheck("sign", note("held values re-read after Sign"), false)
		// evolve
		old := sk
		oldData := sk.Data
		nk, err := kes.Update(sk)
		if t == max-1 {
			if err == nil {
				m.bad("update-exhausted-ok", fmt.Sprintf("Update succeeded at the last period %d", t), note(""))
			} else if old.Data == nil || old.Period != uint64(t) {
				m.bad("update-exhausted-changed-key", "failed Update modified the key", note(""))
			}
			recheck("sign", note("held values re-read at the end of the key's life"), true)
			break
		}
		if err != nil {
			m.bad("update-error", err.Error(), note(""))
			return
		}
		// the consumed key object cannot sign and its buffer is wiped
		for _, u := range []int{t, t + 1, 0} {
			if _, err := kes.Sign(old, uint64(u), msg); err == nil {
				m.bad("spent-key-signs", fmt.Sprintf("the key object consumed by Update at period %d still signs for period %d", t, u), note(""))
				break
			}
		}
		if !allZero(oldData) {
			m.bad("spent-key-not-wiped", fmt.Sprintf("the buffer of the key consumed by Update at period %d is not zeroed", t), note(""))
		}
		sk = nk
		recheck("update", note("held values re-read after Update"), false)
	}
}

func (m *mon) checkSig(depth int, tree *refTree, t int, msg, sig, rootPk []byte, exhaustive bool, note func(string) replayC39) {
	max := 1 << depth
	if want := tree.sigAt(t, msg); !bytes.Equal(sig, want) {
		m.bad("sig-differs-from-reference", fmt.Sprintf("signature of period %d differs from the reference sum-composition signature at byte %d", t, firstDiff(sig, want)), note(""))
	}
	if depth < 1 {
		return
	}
	ver := func(pk []byte, p uint64, mm, s []byte) bool {
		got := verifyAtDepth(depth, pk, p, mm, s)
		if depth == 6 {
			if got2 := kes.VerifySignedKES(pk, p, mm, s); got2 != got {
				key := "verifysignedkes-rejects-what-verify-accepts"
				if got2 {
					key = "verifysignedkes-accepts-what-verify-rejects"
				}
				m.bad(key, fmt.Sprintf("VerifySignedKES(period=%d) = %v, NewSumKesFromBytes(6).Verify = %v (same process, after earlier verifications)", p, got2, got), note(""))
			}
		}
		if want := refVerify(depth, pk, p, mm, s); want != got {
			key := "reference-accepts-code-rejects"
			if got {
				key = "code-accepts-reference-rejects"
			}
			m.bad(key, fmt.Sprintf("Verify(period=%d) = %v, reference verifier = %v", p, got, want), note(""))
		}
		return got
	}
	if !ver(rootPk, uint64(t), msg, sig) {
		m.bad("genuine-rejected", fmt.Sprintf("genuine signature of period %d rejected", t), note(""))
	}
	m.c.Res.Evaluations++
	m.afterAccepted(depth, t, msg, sig, rootPk, note)
	// every other period (and a few beyond the range)
	for u := 0; u <= max+2; u++ {
		if u != t && ver(rootPk, uint64(u), msg, sig) {
			m.bad("accept-other-period", fmt.Sprintf("signature of period %d accepted at period %d", t, u), note(""))
			break
		}
	}
	for _, u := range []uint64{uint64(t) + 1<<32, uint64(t) + 1<<63, ^uint64(0)} {
		if ver(rootPk, u, msg, sig) {
			m.bad("accept-huge-period", fmt.Sprintf("signature of period %d accepted at period %d", t, u), note(""))
		}
	}
	// other messages: every single-bit flip, truncation, extension
	mstep := 1
	if !exhaustive {
		mstep = 29
	}
	for i := (t * 5) % mstep; i < len(msg)*8; i += mstep {
		if ver(rootPk, uint64(t), flipBit(msg, i), sig) {
			m.bad("accept-other-message", fmt.Sprintf("period %d: accepted with message bit %d flipped", t, i), note(""))
			break
		}
	}
	if ver(rootPk, uint64(t), append(append([]byte(nil), msg...), 0), sig) || (len(msg) > 0 && ver(rootPk, uint64(t), msg[:len(msg)-1], sig)) {
		m.bad("accept-other-message", fmt.Sprintf("period %d: accepted with a message of another length", t), note(""))
	}
	// other public keys: every single-bit flip; sibling subtree keys; wrong length
	for i := 0; i < 256; i++ {
		if ver(flipBit(rootPk, i), uint64(t), msg, sig) {
			m.bad("accept-other-pk", fmt.Sprintf("period %d: accepted with public-key bit %d flipped", t, i), note(""))
			break
		}
	}
	for _, opk := range [][]byte{sig[len(sig)-64 : len(sig)-32], sig[len(sig)-32:], rootPk[:31], append(append([]byte(nil), rootPk...), 0), nil} {
		if ver(opk, uint64(t), msg, sig) {
			m.bad("accept-other-pk", fmt.Sprintf("period %d: accepted under a different key %x", t, opk), note(""))
		}
	}
	// signature: every single-bit flip (exhaustive where requested, else a sample per region)
	step := 1
	if !exhaustive {
		step = 37
	}
	for i := (t * 7) % step; i < len(sig)*8; i += step {
		if ver(rootPk, uint64(t), msg, flipBit(sig, i)) {
			m.bad(fmt.Sprintf("accept-sig-bitflip-%s", sigRegion(i/8)), fmt.Sprintf("period %d: accepted with signature bit %d flipped", t, i), note(""))
			break
		}
	}
	if ver(rootPk, uint64(t), msg, sig[:len(sig)-1]) || ver(rootPk, uint64(t), msg, append(append([]byte(nil), sig...), 0)) {
		m.bad("accept-sig-wrong-length", "accepted a signature of the wrong length", note(""))
	}
	// ledger.VerifyKesComponents: accepted at exactly its period
	if depth == 6 {
		for _, spkp := range []uint64{1, 129600} {
			for kp := uint64(0); kp < 3; kp++ {
				for u := 0; u < max; u++ {
					slot := (kp+uint64(u))*spkp + spkp/2
					ok, err := ledger.VerifyKesComponents(msg, sig, rootPk, kp, slot, spkp)
					if err != nil || ok != (u == t) {
						m.bad("components-wrong-period-verdict", fmt.Sprintf("VerifyKesComponents(kesPeriod=%d, slot=%d, slotsPerKesPeriod=%d) = %v,%v for a signature of period %d", kp, slot, spkp, ok, err, t), note(""))
					}
				}
			}
			if ok, _ := ledger.VerifyKesComponents(msg, sig, rootPk, uint64(t)+5, 4*spkp, spkp); ok {
				m.bad("components-future-cert-accepted", "VerifyKesComponents accepted with the certificate start in the future", note(""))
			}
		}
	}
}

// afterAccepted: a verification that succeeded must not make later, different
// questions about the same signature succeed (verdicts are stateless)
func (m *mon) afterAccepted(depth, t int, msg, sig, rootPk []byte, note func(string) replayC39) {
	type variant struct {
		what   string
		pk     []byte
		period uint64
		msg    []byte
	}
	longer := append(append([]byte(nil), msg...), 0x55)
	vs := []variant{
		{"other-message-longer", rootPk, uint64(t), longer},
		{"other-period-next", rootPk, uint64(t) + 1, msg},
		{"other-key", flipBit(rootPk, (t*13)%256), uint64(t), msg},
	}
	if len(msg) > 0 {
		vs = append(vs, variant{"other-message-empty", rootPk, uint64(t), []byte{}},
			variant{"other-message-bit-flipped", rootPk, uint64(t), flipBit(msg, (t*7)%(len(msg)*8))},
			variant{"other-message-truncated", rootPk, uint64(t), msg[:len(msg)-1]})
	} else {
		vs = append(vs, variant{"other-message-nonempty", rootPk, uint64(t), []byte{0}})
	}
	if t > 0 {
		vs = append(vs, variant{"other-period-previous", rootPk, uint64(t) - 1, msg})
	}
	for round := 0; round < 2; round++ { // the second round re-asks after the genuine one was accepted twice
		entries := map[string]func(v variant) bool{
			"Verify": func(v variant) bool { return verifyAtDepth(depth, v.pk, v.period, v.msg, sig) },
		}
		if depth == 6 {
			entries["VerifySignedKES"] = func(v variant) bool { return kes.VerifySignedKES(v.pk, v.period, v.msg, sig) }
			entries["VerifyKesComponents"] = func(v variant) bool {
				ok, _ := ledger.VerifyKesComponents(v.msg, sig, v.pk, 3, (3+v.period)*100+7, 100)
				return ok
			}
		}
		for _, name := range []string{"Verify", "VerifySignedKES", "VerifyKesComponents"} {
			f, ok := entries[name]
			if !ok {
				continue
			}
			if !f(variant{"genuine", rootPk, uint64(t), msg}) {
				m.bad("genuine-rejected-"+name, fmt.Sprintf("%s rejects the genuine signature of period %d", name, t), note(""))
				continue
			}
			for _, v := range vs {
				if f(v) {
					m.bad("accepted-after-genuine-"+v.what, fmt.Sprintf("%s: after the genuine (key, period %d, message, signature) was accepted, the same signature is accepted for %s", name, t, v.what), note(name))
				}
			}
		}
	}
}

func sigRegion(byteIdx int) string {
	if byteIdx < 64 {
		return "leaf"
	}
	return fmt.Sprintf("level%d", (byteIdx-64)/64+1)
}

func firstDiff(a, b []byte) int {
	for i := 0; i < len(a) && i < len(b); i++ {
		if a[i] != b[i] {
			return i
		}
	}
	if len(a) != len(b) {
		return min(len(a), len(b))
	}
	return -1
}

func allZero(b []byte) bool {
	for _, x := range b {
		if x != 0 {
			return false
		}
	}
	return true
}

// ---------------------------------------------------------------------------

func samplePeriods(r *vh.Rng, depth, n int) map[int]bool {
	max := 1 << depth
	obs := map[int]bool{0: true, max - 1: true, max/2 - 1: true, max / 2: true}
	for len(obs) < n && len(obs) < max {
		obs[r.Intn(max)] = true
	}
	return obs
}

func allPeriods(depth int) map[int]bool {
	obs := map[int]bool{}
	for t := 0; t < 1<<depth; t++ {
		obs[t] = true
	}
	return obs
}

func run(c *vh.Ctx) error {
	c.Res.Rule = "a case is (depth 1..6, 32-byte seed, message); the monitor walks every period of the key's life (public key, key bytes, refusals, signature, every other period / message bit / key bit, signature bit flips); distinct by (depth, seed); non-trivial = depth >= 2 (at least one left-to-right transition inside a subtree)"
	c.Res.Modelled = []string{
		"Blake2b-256 and Ed25519 are Section variables in the theorems; in the correspondence the model reads them from oracle tables computed by the harness with golang.org/x/crypto/blake2b and crypto/ed25519 (preimage -> digest, seed -> public key, (seed,msg) -> signature, (pk,msg,sig) -> verdict)",
		"memory wiping is modelled as the value of the byte buffers (the old key's buffer is all zero, Data == nil); copies the Go runtime may have made are outside the model",
		"uint64 wrap of 1<<depth for depth >= 64 is not modelled (depths 0..6 are exercised)",
	}
	m := &mon{c}
	if c.Replay != "" {
		b, err := os.ReadFile(c.Replay)
		if err != nil {
			return err
		}
		var rp struct {
			Replay replayC39 `json:"replay"`
		}
		if err := json.Unmarshal(b, &rp); err != nil {
			return err
		}
		if rp.Replay.Long > 0 {
			m.longHistory(rp.Replay.Long, rp.Replay.Tag)
			return nil
		}
		seed := vh.UnHex(rp.Replay.Seed)
		m.monitorSeed(rp.Replay.Depth, seed, vh.UnHex(rp.Replay.Msg), allPeriods(rp.Replay.Depth))
		obs := allPeriods(rp.Replay.Depth)
		if rp.Replay.Depth > 4 {
			obs = samplePeriods(c.Rng, rp.Replay.Depth, 8)
		}
		buildHistory(c.Rng, rp.Replay.Depth, seed, obs).emit(c, "replay", rp.Replay)
		return nil
	}
	// ---- monitor volume
	fixed := [][]byte{bytes.Repeat([]byte{0}, 32), bytes.Repeat([]byte{0xff}, 32), []byte("test string of 32 byte of lenght")}
	nSeeds := c.Pick(6, 40)
	for depth := 0; depth <= 6; depth++ {
		for i := 0; i < nSeeds+len(fixed); i++ {
			var seed []byte
			if i < len(fixed) {
				seed = fixed[i]
			} else {
				seed = c.Rng.Bytes(32)
			}
			msg := c.Rng.Bytes(c.Rng.Intn(48))
			ex := map[int]bool{}
			if i < c.Pick(2, 6) {
				if depth <= 3 {
					ex = allPeriods(depth)
				} else {
					ex = samplePeriods(c.Rng, depth, c.Pick(5, 12))
				}
			}
			m.monitorSeed(depth, seed, msg, ex)
		}
	}
	m.longHistory(c.Pick(5000, 70000), uint64(c.Seed))
	// KeyGen refuses seeds that are not 32 bytes
	for _, n := range []int{0, 31, 33, 64} {
		if _, _, err := kes.KeyGen(3, make([]byte, n)); err == nil {
			m.bad("keygen-bad-seed-accepted", fmt.Sprintf("KeyGen accepted a %d-byte seed", n), replayC39{Kind: "keygen", Depth: 3})
		}
	}
	// ---- correspondence histories
	nh := 0
	for rep := 0; rep < c.Pick(1, 3); rep++ {
		for depth := 1; depth <= 6; depth++ {
			seed := c.Rng.Bytes(32)
			obs := allPeriods(depth)
			if depth >= 5 {
				obs = samplePeriods(c.Rng, depth, c.Pick(6, 14))
				if c.Thorough() && rep == 0 && depth == 6 {
					obs = allPeriods(depth)
				}
			}
			h := buildHistory(c.Rng, depth, seed, obs)
			h.emit(c, fmt.Sprintf("h%d", nh), replayC39{Kind: "history", Depth: depth, Seed: vh.Hex(seed)})
			nh++
			c.Res.Sample(map[string]any{"depth": depth, "seed": vh.Hex(seed), "observed_periods": len(obs), "ops": len(h.ops)})
		}
	}
	// depth 0 (KeyGen/Sign work, Update and Verify refuse)
	h0 := buildHistory(c.Rng, 0, c.Rng.Bytes(32), map[int]bool{})
	h0.opSign(0, []byte("m"))
	h0.emit(c, fmt.Sprintf("h%d", nh), replayC39{Kind: "history", Depth: 0, Seed: vh.Hex(h0.seed)})
	return nil
}

func post(c *vh.Ctx) error {
	for _, fn := range c.Res.CaseFiles {
		out, err := os.ReadFile(filepath.Join(c.Out, fn+".out"))
		if err != nil {
			c.Res.Violate("correspondence", "coqc-failed:"+fn, "no coqc output", nil)
			continue
		}
		terms, err := vh.ParseStringList(out)
		if err != nil || len(terms) != 1 {
			c.Res.Violate("correspondence", "coqc-failed:"+fn, fmt.Sprintf("cannot evaluate the model: %v", err), nil)
			continue
		}
		var idx struct {
			Replay   replayC39 `json:"replay"`
			Expected []string  `json:"expected"`
			Ops      []string  `json:"ops"`
		}
		b, _ := json.Marshal(c.Res.CaseIndex[fn+"#0"])
		json.Unmarshal(b, &idx)
		got := strings.Split(strings.TrimSuffix(terms[0], "|"), "|")
		n := 0
		for i := range idx.Expected {
			if i >= len(got) || got[i] != idx.Expected[i] {
				g := "<missing>"
				if i < len(got) {
					g = got[i]
				}
				opn := "KeyGen"
				if i < len(idx.Ops) {
					opn = idx.Ops[i]
				}
				rp := idx.Replay
				rp.Note = fmt.Sprintf("step %d (%s)", i, opn)
				c.Res.Violate("correspondence", "model-vs-impl:"+strings.SplitN(opn, "(", 2)[0],
					fmt.Sprintf("depth %d, step %d %s: implementation %s, model %s", idx.Replay.Depth, i, opn, clip(idx.Expected[i]), clip(g)), rp)
				n++
				if n >= 3 {
					break
				}
			}
		}
		if len(got) != len(idx.Expected) && n == 0 {
			c.Res.Violate("correspondence", "model-vs-impl:length", fmt.Sprintf("model produced %d results, implementation %d", len(got), len(idx.Expected)), idx.Replay)
		}
		c.Res.TracesValidated += len(idx.Expected)
	}
	return nil
}

func clip(s string) string {
	if len(s) > 160 {
		return s[:160] + "..."
	}
	return s
}

var _ = sort.Strings

func main() { vh.Main(vh.Runner{Property: "C39", Gen: gen, Run: run, Post: post}) }
